import os

import checklib
from runners.common import replay_with

TRUSTED = [
    "meaning of SymPy's Sum(body, (R, 1, n_poles)) as transcribed in coq/theories/KMat.v (den_pole_sum: sum over r=1..n of the "
    "body with the atomic Indexed symbols m[R], Gamma[R, i], gamma[R, i] bound to the r-th pole's parameters); the limits tuple is "
    "checked syntactically against (R, 1, n_poles)",
    "SymPy's xreplace in formulate(parametrize=True) is substitution: the link K[i, j] := parametrization(i, j) is a hypothesis "
    "(K_bound) of the end-to-end theorems and is exercised numerically by bridge/search_C09.py (formulate_parametrized_differs)",
    "EnergyDependentWidth is an opaque function in the relativistic parametrisation theorem, assumed real and >= 0 "
    "(width_real_nonneg); discharged numerically for PhaseSpaceFactor, PhaseSpaceFactorAbs, PhaseSpaceFactorComplex above threshold",
    "bridge/ser.py attr_suffix: the phsp_factor attribute of EnergyDependentWidth is serialised into the node's head string "
    "(C09_formulate_only_callers_arguments reads it)",
    "SymPy's symbolic Matrix.inv() is not modelled: its OUTPUT (the regenerated T-matrices) is what the theorems are about",
]

RULE = ("random real parameter points above all thresholds, |s - m_R^2| > 0.12: n_channels 1..3 (quick 1..2), n_poles 1..4 "
        "(quick 1..2), L 0..4, PhaseSpaceFactor/Abs/Complex; per point: K from parametrization vs documentation formula, T and "
        "T-hat vs numpy K(1-iK)^-1, |S^dagger S - 1|, |T - T^T|, formulate(parametrize=True) vs two-stage evaluation and its unitarity; "
        "plus poles below the PSEUDO-threshold (ma-mb)^2 of an unequal-mass channel (all three variants, L 0..4: hard obligations; "
        "rho(m_R^2) compared with sqrt((x-(ma+mb)^2)(x-(ma-mb)^2))/x); plus poles in the gap (ma-mb)^2 < m_R^2 < (ma+mb)^2: "
        "PhaseSpaceFactorAbs with L=0 must be unitary, PhaseSpaceFactor/Complex are reported under "
        "kmatrix_subthreshold_pole_not_unitary only when T is symmetric, every differential check passes and the sibling with "
        "the poles above threshold is unitary; distinct = distinct generated parameter points")


def _chain(chk, symgen_args, gen, lemmas, prop, timeout):
    rc, out, _ = chk.bridge("symgen_C09.py", [os.path.join(chk.build, gen), *symgen_args], timeout=1500)
    if rc != 0:
        chk.obligations.extend(chk.theorem_names(os.path.join(checklib.COQ_PROPS, prop)))
        chk.broken.append({"file": "symgen_C09.py", "item": "model regeneration", "coqc_output": out[-1500:]})
        return False
    return chk.compile_chain([gen], [lemmas], prop, timeout=timeout)


def run(chk):
    chk.assumptions += [
        "theorems are about exact complex values of the regenerated expressions (no floating point), wherever they are defined "
        "(wdMC: all denominators of SymPy's symbolic inverse non-zero)",
        "relativistic unitarity needs rho_i real > 0 (above threshold, phase-space variants that are real there) and K-hat real symmetric",
        "unitarity of the relativistic K-matrix is NOT claimed for poles in the gap (ma-mb)^2 < m_R^2 < (ma+mb)^2 of a channel with PhaseSpaceFactor / "
        "PhaseSpaceFactorComplex: width_real_nonneg fails there (C09_width_not_real_below_threshold_refuted; known finding "
        "kmatrix_subthreshold_pole_not_unitary)",
        "per-size link from code to formula for n_channels = 1, 2 (quick) and 3 (thorough); the algebraic theorem itself holds for all n",
    ]
    ok = _chain(chk, ["1,2"], "Gen_C09.v", "C09_lemmas.v", "C09.v", 900)
    # the phase-space factor at the pole mass (trees of C11's generator, C11's base tactics)
    rc, out, _ = chk.bridge("symgen_C11.py", [os.path.join(chk.build, "Gen_C11.v")], timeout=600)
    if rc != 0:
        chk.obligations.extend(chk.theorem_names(os.path.join(checklib.COQ_PROPS, "C09_phsp.v")))
        chk.broken.append({"file": "symgen_C11.py", "item": "model regeneration", "coqc_output": out[-1500:]})
        ok = False
    else:
        ok = chk.compile_chain(["Gen_C11.v"], ["C11_base.v", "C09_phsp_lemmas.v"], "C09_phsp.v", timeout=600) and ok
    if chk.tier == "thorough" and ok:
        ok = _chain(chk, ["3"], "Gen_C09_n3.v", "C09_n3_lemmas.v", "C09_n3.v", 1500) and ok
    n = 420 if chk.tier == "thorough" else 45
    if not ok:
        n = 420
    rc, doc, out = chk.bridge_json("search_C09.py", [str(chk.seed), str(n)], timeout=2400)
    if doc is None:
        chk.broken.append({"file": "search_C09.py", "item": "numeric harness", "coqc_output": out[-1500:]})
        doc = {"evaluations": 0, "distinct": 0, "samples": [], "failures": []}
    chk.add_cases(doc["evaluations"], doc["distinct"], doc["samples"], RULE)
    if "kinds" in doc:
        chk.cov["input_distribution"] = doc["kinds"]
    for f in doc["failures"]:
        chk.violation(f["signature"], f["what"], {"case": f["case"], "search": "search_C09.py"}, True)
    if chk.broken and not doc["failures"]:
        b = chk.broken[0]
        chk.violation("unproved:" + b["item"], f"{b['file']}:{b['item']} no longer checks",
                      {"theorem": b["item"], "file": b["file"], "coqc_output": b["coqc_output"]}, False)


def replay(path):
    return replay_with("search_C09.py", path)
