from runners.common import replay_with, standard_flow

TRUSTED = [
    "Hankel-function definition of B_L^2 transcribed by hand in coq/theories/Lineshape.v (hmod2/bw_hankel) and, independently, in bridge/search_C12.py",
    "FormFactor / phase-space nodes are opaque (uninterpreted) in the width and builder theorems: the statements hold for every implementation of them",
    "SymPy's simplify() inside _get_polynomial_blatt_weisskopf is not modelled: its result is re-translated and re-proved on every run",
]


def run(chk):
    chk.assumptions += [
        "symbolic-L (SphericalHankel1 sum) path is compared with the polynomial path numerically only; the theorem ties the polynomial path to the transcribed Hankel definition for L=0..10",
        "width at a pole exactly at threshold with L>0 is 0/0 in the code: outside the theorem's definedness hypothesis",
    ]
    standard_flow(chk, "symgen_C12.py", ["Gen_C12.v"], ["C12_lemmas.v"], "C12.v",
                  "search_C12.py", 180, 3000,
                  "width at s=m0^2 for 5 phase-space classes x L 0..4 x random masses; B_L^2 at random z for L 0..10 vs an independent "
                  "Hankel evaluation, normalisation, bound, threshold ratio, symbolic-L path; builder vs function for all flag x phase-space "
                  "combinations at random points; distinct = distinct generated inputs that were defined")


def replay(path):
    return replay_with("search_C12.py", path)
