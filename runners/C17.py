"""C17 — rename_symbols is a consistent renaming of the whole model.

Theorems about the hand-written model coq/theories/Rename.v (coq/props/C17.v), tie T2: the model
evaluated by vm_compute against HelicityModel.rename_symbols on zoo models x rename maps of every
kind x repeated renames (bridge/corr_C17.py), plus the property harness on the implementation
(bridge/search_C17.py)."""
import concurrent.futures

from runners.common import replay_with

TRUSTED = [
    "coq/theories/Rename.v: hand-written Gallina copy of HelicityModel.rename_symbols / __collect_symbols / "
    "expression and of the attrs converters (dict comprehension = insert-or-overwrite, sorted = stable insertion sort); "
    "validated against the current source by bridge/corr_C17.py on every run, not derived from it",
    "Section variables of the model, instantiated in the correspondence run by tables filled from the implementation: "
    "unfold (PoolSum.evaluate + unfold_poolsums of the intensity; ampform.sympy.PoolSum, C18), "
    "nrank/arank (ranks under helicity.naming.natural_sorting, assumed a total preorder)",
    "SymPy: Basic.xreplace rebuilds a node as cls(*args) and the automatic evaluation of Add/Mul/Pow preserves the value "
    "(the Coq model is structural; bridge/lib_C17.deser rebuilds Coq's trees with cls(*args) before comparing); "
    "Symbol identity = (name, assumptions0); sp.lambdify for the numeric clause",
    "symbol encoding 'name|assumptions' (first '|' separates): new names must not contain '|' (wf_map)",
    "domain restriction in_domain: no Indexed left in expression / kinematic variables (checked per case by the model's flag)",
    "SymPy's automatic evaluation is not confluent: `expression` of the renamed model (unfold, then substitute the renamed "
    "amplitudes) and expression.xreplace(S) can be structurally different forms of one expression after a merge that makes "
    "terms cancel; the five dictionaries are always compared structurally, the derived expression falls back to equality of "
    "values at random points (bridge/lib_C17.same_value; counted in the evidence notes)",
    "object identity / aliasing cannot be expressed in the purely functional Rename.v: that the renamed model shares no mutable "
    "container with the original and that writes to parameter_defaults (by symbol, name, index) do not leak either way is "
    "checked by the harnesses only (bridge/lib_C17.independence), for non-empty maps (the empty map returns self by design)",
]


def _report(chk, doc, out, script, rule):
    if doc is None:
        chk.broken.append({"file": script, "item": script.replace(".py", ""), "coqc_output": out[-1500:]})
        return []
    chk.add_cases(doc["evaluations"], doc["distinct"], doc["samples"], rule)
    dist = chk.cov.setdefault("input_distribution", {})
    dist[script] = doc.get("kinds", {})
    for f in doc["failures"]:
        chk.violation(f["signature"], f["what"], {"case": f["case"], "search": script}, True)
    return doc["failures"]


def run(chk):
    chk.assumptions += [
        "statements are about Rename.rename; rename_preserves_closure for PoolSum-free expressions (all zoo models); "
        "expression-level statements need the intensity to mention only private symbols (amplitude labels, summation indices)",
        "rename_preserves_closure needs the forced hypothesis that no parameter is identified with a kinematic variable; "
        "maps violating it (and maps identifying two kinematic variables) are run on purpose and reported as known findings",
        "repeated renames: rename (rename m r1) r2 = rename m (compose r1 r2) proved (rename_compose) under collected-set, "
        "private-intensity, unrenamed-binder and injectivity side conditions; false without them (two _refuted witnesses); "
        "chains of 1..3 arbitrary renames are exercised in the correspondence run",
        "semantics with PoolSum nodes (rename_semantics_poolsum) under binder_safe: no bound index renamed, nothing renamed "
        "onto a bound index; PoolSum values are evaluated in the outer environment",
    ]
    thorough = chk.tier == "thorough"
    proofs_ok = chk.compile_chain([], ["C17_lemmas.v", "C17_lemmas2.v"], "C17.v", timeout=900)
    n_corr, n_search = (220, 380) if thorough else (27, 30)
    if not proofs_ok and not thorough:
        n_corr, n_search = 90, 150
    with concurrent.futures.ThreadPoolExecutor(max_workers=2) as ex:
        fc = ex.submit(chk.bridge_json, "corr_C17.py", [str(chk.seed), str(n_corr), chk.tier], 1700)
        fs = ex.submit(chk.bridge_json, "search_C17.py", [str(chk.seed), str(n_search), chk.tier], 1700)
        _, cdoc, cout = fc.result()
        _, sdoc, sout = fs.result()
    chk.checker_cmds.append("coqc -Q coq/theories AV -Q build/C17 AVchk Cases_C17_<k>.v  (Eval vm_compute of Rename.rename)")
    fails = _report(chk, cdoc, cout, "corr_C17.py",
                    "T2: zoo models (corpus reactions x {plain, BW with form factor, DPD, axis-angle}) x chains of 1..3 rename "
                    "maps (injective, parameter merge, chain, swap/permutation, kinematic variables, momenta, all fresh, empty, "
                    "unknown, mixed, duplicate pairs, kinvar-parameter merge, kinvar-kinvar merge, name clash with other "
                    "assumptions, rename onto a private label/index); all five dictionaries incl. order, expression, closure "
                    "flag compared with vm_compute of the model; evaluations = rename steps")
    fails += _report(chk, sdoc, sout, "search_C17.py",
                     "property harness on the implementation: attributes vs xreplace of the originals by the name map, "
                     "orderings, assumptions, untouched symbols, original digest, closure, numeric intensity at carried-over values")
    for name, d in (("corr_C17.py", cdoc), ("search_C17.py", sdoc)):
        if d is not None and d.get("value_fallbacks"):
            chk.notes.append(f"{name}: {d['value_fallbacks']} comparison(s) of the derived `expression` decided by value "
                             "(SymPy's automatic evaluation gave two structurally different forms of one expression)")
    if cdoc is not None:
        chk.notes.append(f"correspondence: {cdoc['evaluations']} rename steps, coq {cdoc.get('coq_seconds')} s, "
                         f"{cdoc.get('n_failures', 0)} disagreements")
    if chk.broken and not chk.violations:
        b = chk.broken[0]
        chk.violation("unproved:" + b["item"], f"{b['file']}:{b['item']} no longer checks",
                      {"theorem": b["item"], "file": b["file"], "coqc_output": b["coqc_output"]}, False)


def replay(path):
    return replay_with("search_C17.py", path)
