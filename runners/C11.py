"""C11 — all phase-space-factor variants agree where they must (T1: regenerate + prove)."""
import os
from concurrent.futures import ThreadPoolExecutor

import checklib
from runners.common import replay_with

# compile stages: files of one stage only depend on earlier stages and are compiled concurrently
STAGES = [["Gen_C11.v", "Gen_C11py.v", "Gen_C11kw.v"], ["C11_base.v", "C11_keyword.v"],
          ["C11_lemmas.v", "C11_bridge_swave.v", "C11_bridge_eqm.v", "C11_pycode.v"],
          ["C11_glue.v"]]
PROP = "C11.v"
# floating-point findings of the lambdified code (the theorems are about exact reals)
FP_FINDINGS = {"swave_fp_breakdown_asymptotic"}


def compile_staged(chk, timeout=900) -> bool:
    """compile_chain with concurrent stages (same bookkeeping: obligations, axioms, broken)."""
    chk.copy_props([f for st in STAGES[1:] for f in st] + [PROP])
    thms = chk.theorem_names(os.path.join(chk.build, PROP))
    chk.obligations.extend(thms)
    for stage in [*STAGES, [PROP]]:
        with ThreadPoolExecutor(max_workers=len(stage)) as ex:
            results = list(ex.map(lambda f: (f, *chk.coqc(f, timeout=timeout)), stage))
        for f, ok, out in results:
            if not ok:
                item = chk.failing_item(os.path.join(chk.build, f), out)
                chk.broken.append({"file": f, "item": item, "coqc_output": out[-1500:]})
        if chk.broken:
            return False
        if stage == [PROP]:
            chk.parse_assumptions(results[0][2])
            bad = [a for a in chk.axioms if a not in checklib.STD_AXIOMS]
            if bad:
                chk.broken.append({"file": PROP, "item": "Print Assumptions",
                                   "coqc_output": "non-standard axioms: %s" % bad})
                return False
    chk.discharged.extend(thms)
    return True

TRUSTED = [
    "principal branches given to sqrt/log/atan/Abs/Piecewise in coq/theories/DenC.v + CLib.v (Csqrt, Clog = ln|z| + i atan2(Im,Re), "
    "first-true-condition Piecewise) are taken to be SymPy's/NumPy's meaning of those heads on exact reals",
    "ComplexSqrt is modelled by its get_definition() tree; bridge/symgen_C11.py asserts on every run that the NumPy printer emits exactly that tree",
    "pure-Python backend: bridge/symgen_C11py.py parses the code text printed by ComplexSqrt._pythoncode with Python's ast and reads it for real "
    "float/int arguments (isinstance(x,(float,int)) = True, math.sqrt/cmath.sqrt = principal sqrt; math.sqrt's ValueError is not modelled); "
    "bridge/search_C11.py runs the real lambdify(modules='math') functions on float, int and numpy.float64 arguments",
    "floating point is outside the theorems: bridge/search_C11.py compares the lambdified code with an mpmath oracle and with SymPy's "
    "own 60-digit evaluation under condition-number-scaled tolerances",
]

RULE = ("seeded dyadic-rational inputs: masses equal / nearly equal / unequal / very unequal (ratio down to 2^-20); s negative, tiny, below "
        "pseudo-threshold, in the gap, above, thr*(1 +- 1e-8), thr*(1 +- 2^-k) k=10..45, exactly at (pseudo-)threshold, 1e8*thr; every identity of "
        "the property on the lambdified NumPy code (complex and real input dtype) and, every 6th case and all asymptotic ones, on SymPy's "
        "60-digit evaluation of the doit() trees; distinct = distinct (s,m1,m2) with all six functions finite")


def run(chk):
    chk.assumptions += [
        "s, m1, m2 real with m1, m2 > 0; theorems are about exact real/complex values of the regenerated doit() trees (no floating point)",
        "equal-mass theorems are proved for the trees X(s,m,m).doit() (one mass symbol) and, via two bridge lemmas, for the general trees "
        "X(s,m1,m2).doit() evaluated at m1 = m2 = m; the threshold-limit theorem is stated for the (s,m,m) trees",
        "s = 0 and, for EqualMassPhaseSpaceFactor, s = 4m^2 are excluded: the exact model is undefined there "
        "(theorems C11_q2_undefined_at_s0, C11_equalmass_undefined_at_threshold); IEEE evaluation at s = 4m^2 is reported in the notes",
        "double precision: for |s|/(m1 m2) >~ 1e6 PhaseSpaceFactorSWave's log argument cancels completely (Re can come out 0 instead of ~1); "
        "these cases are checked through SymPy's multi-precision evaluation only and counted in the notes",
    ]
    gen, prop, search = "Gen_C11.v", PROP, "search_C11.py"
    rc, out, _ = chk.bridge("symgen_C11.py", [os.path.join(chk.build, gen)])
    if rc == 0:  # the `math`-backend code text printed by the current source, parsed back
        rc, out, _ = chk.bridge("symgen_C11py.py", [os.path.join(chk.build, "Gen_C11py.v")])
    if rc == 0:  # keyword constructions in every order
        rc, out, _ = chk.bridge("symgen_C11kw.py", [os.path.join(chk.build, "Gen_C11kw.v")])
    proofs_ok = False
    if rc != 0:
        chk.obligations.extend(chk.theorem_names(os.path.join(checklib.COQ_PROPS, prop)))
        chk.broken.append({"file": "symgen_C11.py", "item": "model regeneration", "coqc_output": out[-1500:]})
    else:
        proofs_ok = compile_staged(chk)
    n = 4000 if chk.tier == "thorough" else 400
    if not proofs_ok:
        n = max(n, 4000)  # failing-input search: go deep
    rc, doc, out = chk.bridge_json(search, [str(chk.seed), str(n)], timeout=1500)
    if doc is None:
        chk.broken.append({"file": search, "item": "numeric harness", "coqc_output": out[-1500:]})
        doc = {"evaluations": 0, "distinct": 0, "samples": [], "failures": []}
    chk.add_cases(doc["evaluations"], doc["distinct"], doc["samples"], RULE)
    if "kinds" in doc:
        chk.cov["input_distribution"] = doc["kinds"]
    for k, v in sorted(doc.get("notes", {}).items()):
        chk.notes.append(f"{k}: {v['count']} case(s); {v['example']}")
    listed = {f.get("signature") for f in chk.findings if f.get("property") == "C11" and f.get("kind") == "finding"}
    for f in doc["failures"]:
        if f["signature"] in FP_FINDINGS and f["signature"] not in listed:
            # floating-point breakdown outside the exact-real statement: shown as KNOWN-FINDING once
            # known_findings.json lists the signature; until then recorded in the evidence notes
            chk.notes.append(f"UNLISTED-FINDING {f['signature']}: {f['what']}")
            continue
        chk.violation(f["signature"], f["what"], {"case": f["case"], "search": search}, True)
    doc["failures"] = [f for f in doc["failures"] if f["signature"] not in FP_FINDINGS]
    if chk.broken and not doc["failures"]:
        b = chk.broken[0]
        chk.violation("unproved:" + b["item"], f"{b['file']}:{b['item']} no longer checks",
                      {"theorem": b["item"], "file": b["file"], "coqc_output": b["coqc_output"]}, False)


def replay(path):
    return replay_with("search_C11.py", path)
