import os

import checklib
from runners.common import replay_with

TRUSTED = [
    "bridge/ser.py attr_suffix: the non-SymPy dataclass attribute phsp_factor of EnergyDependentWidth is serialised into the "
    "node's head string, so that 'which phase space a width carries' is visible to the Gallina traversal",
    "SymPy's xreplace in formulate(parametrize=True) is substitution (exercised numerically: formulate_parametrized_differs)",
    "EnergyDependentWidth, FormFactor and the marker phase space rhoX are opaque function symbols in the Breit-Wigner theorems "
    "(the statements hold for every implementation of them)",
    "functools.cache semantics (memoisation clause) is exercised by the harness only: identity and srepr of the cached matrices "
    "before/after formulate for all classes, flags and argument combinations",
    "SymPy's symbolic Matrix.inv() is not modelled: its OUTPUT (the regenerated F-vectors) is what the theorems are about",
]

RULE = ("atoms scan: 4 classes x 6 phase-space implementations x L 0..4 x flags x n 1..2; memo check; residual |(1-iK)F-P| at "
        "random real points above thresholds with K, P from the library's parametrizations (n 1..3 non-relativistic, 1..2 "
        "relativistic), P vs documentation formula, formulate(parametrize=True) vs two-stage value with the caller's arguments; "
        "one-channel one-pole vs relativistic_breit_wigner(_with_ff); distinct = distinct generated cases")


def _chain(chk, symgen_args, gen, lemmas, prop, timeout):
    rc, out, _ = chk.bridge("symgen_C10.py", [os.path.join(chk.build, gen), *symgen_args], timeout=1500)
    if rc != 0:
        chk.obligations.extend(chk.theorem_names(os.path.join(checklib.COQ_PROPS, prop)))
        chk.broken.append({"file": "symgen_C10.py", "item": "model regeneration", "coqc_output": out[-1500:]})
        return False
    return chk.compile_chain([gen], [lemmas], prop, timeout=timeout)


def run(chk):
    chk.assumptions += [
        "theorems are about exact complex values of the regenerated expressions wherever they are defined (all denominators "
        "of SymPy's symbolic inverse non-zero)",
        "F_solves is proved for n_channels = 1, 2 (both classes, both flags) and 3 (non-relativistic, thorough tier); "
        "RelativisticPVector with 3 channels is not covered at all: SymPy's symbolic inverse does not finish in 50 minutes",
        "the syntactic argument-forwarding theorem is about the results for n_channels 1, 2 with symbolic n_poles and marker "
        "arguments; other argument values are covered by the harness's atoms scan",
    ]
    ok = _chain(chk, ["1,2"], "Gen_C10.v", "C10_lemmas.v", "C10.v", 900)
    if chk.tier == "thorough" and ok:
        ok = _chain(chk, ["3"], "Gen_C10_n3.v", "C10_n3_lemmas.v", "C10_n3.v", 900) and ok
    n = 400 if chk.tier == "thorough" else 40
    if not ok:
        n = 400
    rc, doc, out = chk.bridge_json("search_C10.py", [str(chk.seed), str(n)], timeout=2400)
    if doc is None:
        chk.broken.append({"file": "search_C10.py", "item": "numeric harness", "coqc_output": out[-1500:]})
        doc = {"evaluations": 0, "distinct": 0, "samples": [], "failures": []}
    chk.add_cases(doc["evaluations"], doc["distinct"], doc["samples"], RULE)
    if "kinds" in doc:
        chk.cov["input_distribution"] = doc["kinds"]
    for f in doc["failures"]:
        chk.violation(f["signature"], f["what"], {"case": f["case"], "search": "search_C10.py"}, True)
    if chk.broken and not doc["failures"]:
        b = chk.broken[0]
        chk.violation("unproved:" + b["item"], f"{b['file']}:{b['item']} no longer checks",
                      {"theorem": b["item"], "file": b["file"], "coqc_output": b["coqc_output"]}, False)


def replay(path):
    return replay_with("search_C10.py", path)
