"""C04 — unpolarised intensity is invariant under a global rotation of the event (label: PARTIAL)."""
import os

import checklib
from runners.common import replay_with

TRUSTED = [
    "SymPy sympy.physics.quantum.spin.Rotation.D / WignerD for unbounded spin is NOT modelled: the algebra of "
    "coq/theories/Rot.v is proved over abstract matrices D j g under the Section hypotheses "
    "D_mul (D(gh) = D(g)D(h) over the complete range), D_unit (D(g)^dagger D(g) = 1 over the complete range), "
    "rng_nodup (the complete projection range lists every projection once) and, for the two-node cascade, "
    "r_diag / rinv_diag / r_char (D of a rotation about z is diagonal with a character exp(-i m delta) that "
    "does not depend on the spin)",
    "each of these hypotheses is validated EXACTLY (symbolic angles, sympy.simplify == 0) against "
    "Rotation.D(j,m,mp,a,b,c).doit() for j in {1/2,1,3/2,2} on every run by bridge/search_C04.py::wigner_checks "
    "(unitarity both ways over the complete range; D(a,b,c)=exp(-i m a) d(b) exp(-i mp c); d real orthogonal; "
    "composition with z rotations on either side; D(0,0,0)=1); general D_mul for arbitrary pairs of rotations "
    "and j>2 are trusted",
    "the bridge from the regenerated kinematics (frame_aligns, rotz_shifts_phi, frame_covariant_z, "
    "wigner_convention) to the abstract algebra (that a formulated chain amplitude IS amp1/amp2 with "
    "h = euler(Phi p, Theta p, 0)) is proved only for rotations about z; for general rotations it is the "
    "standard stabiliser argument, not formalised; the model as a whole is covered by the numeric harness only",
    "bridge/symexec.py (symbolic execution of lambdified NumPy source on one event; SymPy's automatic scalar "
    "simplifications) for the per-event meaning of Phi/Theta and of the frame's angle arguments",
    "floating point: the harness compares float64 intensities with relative tolerance 1e-9 on events whose "
    "polar angles satisfy sin(theta) > 1e-4 (conditioning of acos); observed agreement on invariant cases ~1e-15",
    "event generator and rotation code of bridge/search_C04.py (own numpy code, independent of ampform)",
]

RULE = ("corpus reactions x {every single topology; all topologies unaligned; axis-angle; DPD} x seeded phase-space "
        "events in the initial rest frame (own sequential two-body generator, dyadic momenta) x 2 random complex "
        "coupling sets x rotations about x, y, z and random axes (z only when the initial projection set is "
        "incomplete); evaluations = (event, rotation, coupling set) comparisons; distinct = events with distinct "
        "intensity per model")


def run(chk):
    chk.assumptions += [
        "PARTIAL: SU(2) representation theory enters as named Section hypotheses (see trusted_base); floating-point "
        "evaluation is not modelled",
        "hypothesis of the property: complete projection sets; reactions with J/psi restricted to +-1 are only "
        "required (and checked) to be invariant under rotations about z",
        "multi-topology models without alignment and with a spinful final state are outside the property",
        "events exactly on the z axis (px=py=0 for a decaying subsystem) are outside frame_aligns (atan2(0,0), "
        "and the frame's azimuth is a convention there)",
    ]
    gen = os.path.join(chk.build, "Gen_C04.v")
    rc, out, _ = chk.bridge("symgen_C04.py", [gen])
    proofs_ok = False
    if rc != 0:
        chk.obligations.extend(chk.theorem_names(os.path.join(checklib.COQ_PROPS, "C04.v")))
        chk.broken.append({"file": "symgen_C04.py", "item": "model regeneration", "coqc_output": out[-1500:]})
    else:
        proofs_ok = chk.compile_chain(["Gen_C04.v"], ["C04_lemmas.v"], "C04.v", timeout=900)
    tier = chk.tier if proofs_ok else "thorough"
    n_events = 60 if tier == "thorough" else 20
    rc, doc, out = chk.bridge_json("search_C04.py", [str(chk.seed), str(n_events), tier], timeout=1700)
    if doc is None:
        chk.broken.append({"file": "search_C04.py", "item": "numeric harness", "coqc_output": out[-1500:]})
        doc = {"evaluations": 0, "distinct": 0, "samples": [], "failures": []}
    chk.add_cases(doc["evaluations"], doc["distinct"], doc["samples"], RULE)
    chk.cov["input_distribution"] = doc.get("kinds", {})
    chk.cov["skipped_illconditioned"] = doc.get("skipped_illconditioned", 0)
    chk.cov["per_model"] = doc.get("table", [])
    for f in doc["failures"]:
        chk.violation(f["signature"], f["what"], {"case": f["case"], "search": "search_C04.py"}, True)
    # signatures of families that ARE invariant on the unchanged tree: a failure there is a fresh
    # concrete input; the others also fail on the unchanged tree and cannot explain a broken proof
    fresh = [f for f in doc["failures"]
             if f["signature"].startswith(("single_", "exception_", "wignerD", "wignerd"))
             or f["signature"].startswith("multi_topology_unaligned_spinless_helicity_isobars_only")]
    if chk.broken and not fresh:
        b = chk.broken[0]
        chk.violation("unproved:" + b["item"], f"{b['file']}:{b['item']} no longer checks",
                      {"theorem": b["item"], "file": b["file"], "coqc_output": b["coqc_output"]}, False)
    elif chk.broken:
        chk.notes.append("proof obligation broken: %s:%s" % (chk.broken[0]["file"], chk.broken[0]["item"]))


def replay(path):
    return replay_with("search_C04.py", path)
