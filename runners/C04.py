"""C04 — unpolarised intensity is invariant under a global rotation of the event (label: PARTIAL)."""
import os

import checklib
from runners.common import replay_with

TRUSTED = [
    "SymPy sympy.physics.quantum.spin.Rotation.D / WignerD for unbounded spin is NOT modelled: the algebra of "
    "coq/theories/Rot.v is proved over abstract matrices D j g under the Section hypotheses "
    "D_mul (D(gh) = D(g)D(h) over the complete range), D_unit (D(g)^dagger D(g) = 1 over the complete range), "
    "rng_nodup (the complete projection range lists every projection once) and, for the two-node cascade, "
    "r_diag / rinv_diag / r_char (D of a rotation about z is diagonal with a character exp(-i m delta) that "
    "does not depend on the spin)",
    "each of these hypotheses is validated EXACTLY (symbolic angles, sympy.simplify == 0) against "
    "Rotation.D(j,m,mp,a,b,c).doit() for j in {1/2,1,3/2,2} on every run by bridge/search_C04.py::wigner_checks "
    "(unitarity both ways over the complete range; D(a,b,c)=exp(-i m a) d(b) exp(-i mp c); d real orthogonal; "
    "composition with z rotations on either side; D(0,0,0)=1); general D_mul for arbitrary pairs of rotations "
    "and j>2 are trusted",
    "PROVED bridge (coq/props/C04_general.v, on regenerated Phi/Theta/RotationZ/RotationY/BoostZ and the "
    "frame arguments of compute_helicity_angles): for EVERY proper 3x3 rotation g and every p with p and g.p off "
    "the z axis, F(g.p).g.F(p)^T = RotationZMatrix(delta) (stabiliser argument), hence h(g.p) = g.h(p).Rz(-delta) "
    "for h(p) = F(p)^T = Rz(Phi p)Ry(Theta p); the z boost commutes with Rz and its parameter |p|/E is unchanged, so "
    "every second-level momentum changes only by Rz(delta): Theta unchanged, Phi shifted by delta, "
    "h2 -> Rz(delta).h2, third and deeper levels unchanged; these are exactly the arguments of Rot.cascade_invariant, "
    "and C04_cascade_invariant_general_rotation concludes invariance of the two-node cascade intensity "
    "formulated with the code's frames under all proper rotations",
    "NOT proved: that the expression tree returned by HelicityAmplitudeBuilder.formulate() for an arbitrary "
    "topology IS amp2/its n-node generalisation with these frames and with D index = lambda_helicity - "
    "lambda_opposite (C04_wigner_convention pins the D arguments for the 36 nodes of J/psi -> 3 pi only; the "
    "opposite-helicity-isobar chains are known NOT to be of that form, see known findings); three and more "
    "nodes, two decaying children, and multi-topology/aligned models are covered by the numeric harness only",
    "the Section hypotheses of the instance are stated over G = SO(3) (subtype of proper 3x3 matrices, equality "
    "by proof irrelevance from Classical_Prop.classic): D_mul, D_unit, rng_nodup, D_rz_diag (D of RotationZ is "
    "diagonal), D_rz_char (D^J(Rz(-a))_{ll} D^s(Rz(a))_{ll} = 1); for half-integer spin the true Wigner matrices "
    "satisfy D_mul on SO(3) only up to a sign (they are representations of SU(2)); a sign common to a whole "
    "single-chain amplitude does not change |A|^2 but this is not formalised (and is exactly what goes wrong "
    "between chains in the axis-angle finding)",
    "bridge/symexec.py (symbolic execution of lambdified NumPy source on one event; SymPy's automatic scalar "
    "simplifications) for the per-event meaning of Phi/Theta and of the frame's angle arguments",
    "floating point: the harness compares float64 intensities with relative tolerance 1e-9 on events whose "
    "polar angles satisfy sin(theta) > 1e-4 (conditioning of acos); observed agreement on invariant cases ~1e-15",
    "event generator and rotation code of bridge/search_C04.py (own numpy code, independent of ampform)",
    "known findings are identified per COMPARISON by their discriminating feature (bridge/search_C04.py::classify): "
    "(1) a decaying child that is the opposite-helicity state by the harness' own rule AND a rotation not about z; "
    "(2) axis-angle alignment with half-integer final spin where the rotated intensity EQUALS the unrotated intensity "
    "with the sign of all couplings of a subset of the chains flipped (chain ownership of couplings read off unaligned "
    "one-topology models); (3) DPD with several topologies and initial spin > 0.  Everything else - all topologies "
    "helicity-state isobars (unaligned spinless or axis-angle, sign-flip events excepted), rotations about z for (1), "
    "DPD with spin-0 initial state - is a must-hold obligation with its own signature",
    "compute_wigner_angles: the regenerated alpha/beta/gamma trees are PROVED to be Z-Y-Z Euler angles of the inverse of "
    "the rotation matrix they are read from, in the code's own RotationZ/RotationY (C04_wigner_euler_angles, "
    "coq/theories/Rot3Euler.v); that the sliced matrix is compute_wigner_rotation_matrix's product and that the D "
    "function receives (alpha, beta, gamma) in this order is asserted structurally in symgen; that this matrix is the "
    "physical Wigner rotation, and the SU(2) sign, are not modelled",

    "which topologies count as 'all isobars are helicity states' (the must-hold multi-topology families with "
    "signatures ..._helicity_isobars_only_not_invariant) is decided by the harness' own rule written from the "
    "documentation (opposite state = the sibling whose sorted attached final-state id tuple is lexicographically "
    "larger), never by /repo; ampform's is_opposite_helicity_state is compared with that rule exhaustively on all "
    "isobar topologies with 2..5 leaves x all relabellings of the final-state ids (656 topologies) on every run",
]

RULE = ("corpus reactions x {every single topology; all topologies unaligned; axis-angle; DPD} x seeded phase-space "
        "events in the initial rest frame (own sequential two-body generator, dyadic momenta) x 2 random complex "
        "coupling sets x rotations about x, y, z and random axes (z only when the initial projection set is "
        "incomplete); evaluations = (event, rotation, coupling set) comparisons; distinct = events with distinct "
        "intensity per model")


def run(chk):
    chk.assumptions += [
        "PARTIAL: SU(2) representation theory enters as named Section hypotheses (see trusted_base); floating-point "
        "evaluation is not modelled; proved: kinematic conventions + frame covariance under ALL proper rotations + "
        "two-node cascade invariance over abstract D; not proved: that formulate()'s expression is that cascade "
        "(numeric harness), n>2 nodes, multi-topology",
        "hypothesis of the property: complete projection sets; reactions with J/psi restricted to +-1 are only "
        "required (and checked) to be invariant under rotations about z",
        "multi-topology models without alignment and with a spinful final state are outside the property",
        "events exactly on the z axis (px=py=0 for a decaying subsystem) are outside frame_aligns (atan2(0,0), "
        "and the frame's azimuth is a convention there)",
    ]
    gen = os.path.join(chk.build, "Gen_C04.v")
    rc, out, _ = chk.bridge("symgen_C04.py", [gen])
    proofs_ok = False
    if rc != 0:
        chk.obligations.extend(chk.theorem_names(os.path.join(checklib.COQ_PROPS, "C04.v")))
        chk.obligations.extend(chk.theorem_names(os.path.join(checklib.COQ_PROPS, "C04_general_props.v")))
        chk.broken.append({"file": "symgen_C04.py", "item": "model regeneration", "coqc_output": out[-1500:]})
    else:
        proofs_ok = chk.compile_chain(["Gen_C04.v"], ["C04_lemmas.v"], "C04.v", timeout=900)
        # the general-rotation bridge is a separate chain: a failure there is reported on its own and
        # cannot mask the obligations of C04.v (which needs only Gen_C04 and C04_lemmas)
        general_ok = chk.compile_chain([], ["C04_general.v"], "C04_general_props.v", timeout=900) \
            if proofs_ok else False
        if not proofs_ok:
            chk.obligations.extend(chk.theorem_names(os.path.join(checklib.COQ_PROPS, "C04_general_props.v")))
        proofs_ok = proofs_ok and general_ok
    tier = chk.tier if proofs_ok else "thorough"
    n_events = 60 if tier == "thorough" else 20
    rc, doc, out = chk.bridge_json("search_C04.py", [str(chk.seed), str(n_events), tier], timeout=1700)
    if doc is None:
        chk.broken.append({"file": "search_C04.py", "item": "numeric harness", "coqc_output": out[-1500:]})
        doc = {"evaluations": 0, "distinct": 0, "samples": [], "failures": []}
    chk.add_cases(doc["evaluations"], doc["distinct"], doc["samples"], RULE)
    chk.cov["input_distribution"] = doc.get("kinds", {})
    chk.cov["skipped_illconditioned"] = doc.get("skipped_illconditioned", 0)
    chk.cov["per_model"] = doc.get("table", [])
    for f in doc["failures"]:
        chk.violation(f["signature"], f["what"], {"case": f["case"], "search": "search_C04.py"}, True)
    # signatures of families that ARE invariant on the unchanged tree: a failure there is a fresh
    # concrete input; the others also fail on the unchanged tree and cannot explain a broken proof
    known_on_clean_tree = {
        "multi_topology_opposite_helicity_isobar_unaligned_spinless_not_invariant_off_z",
        "multi_topology_opposite_helicity_isobar_axisangle_not_invariant_off_z",
        "multi_topology_axisangle_chain_relative_sign_flip",
        "multi_topology_dpd_spinful_initial_state_not_invariant",
    }
    fresh = [f for f in doc["failures"] if f["signature"] not in known_on_clean_tree]
    if chk.broken and not fresh:
        b = chk.broken[0]
        chk.violation("unproved:" + b["item"], f"{b['file']}:{b['item']} no longer checks",
                      {"theorem": b["item"], "file": b["file"], "coqc_output": b["coqc_output"]}, False)
    elif chk.broken:
        chk.notes.append("proof obligation broken: %s:%s" % (chk.broken[0]["file"], chk.broken[0]["item"]))


def replay(path):
    return replay_with("search_C04.py", path)
