"""C02: the helicity formula as a Gallina spec (Helicity.v) with a universal denotation theorem, tied to the
implementation by a correspondence run (vm_compute of the spec on independently extracted transition data vs
model.expression/components/amplitudes through SymPy ==) and an independent numeric evaluation."""
import concurrent.futures
import os

from runners.common import replay_with

TRUSTED = [
    "in-Coq tie: bridge/modelgen.ser_struct serialises model.expression; bridge/symgen_C02.py + corr_C02.extract produce the formula data; "
    "AcEq.aceq (proved sound) decides equality modulo AC/flattening/like terms/|z|=|-z|; reactions affected by the known finding on identical "
    "particles are excluded from the tie and covered by the correspondence",
    "correspondence (differential): bridge/corr_C02.py extracts spins/projections/LS/child order/symmetrisation from the qrules "
    "transitions with its own code; symbol NAMES (angles, coefficients, couplings) and lineshape expressions are taken from ampform's "
    "naming functions / the assigned builders (C03, C07, C13 are about those); bridge/coqio.py parses vm_compute output; trees are rebuilt "
    "through SymPy's constructors and compared with ==",
    "WignerD and CG are uninterpreted (any functions) in the theorems; conj-D(J,m,l;phi,theta) is D^J_{m,l}(-phi,theta,0) as in the code; the "
    "numeric harness evaluates it independently as exp(i m phi) d^J_{m l}(theta) with SymPy's Rotation.d and CG on numbers",
    "only unaligned models (NoAlignment); aligned sums are C05's",
]
NSHARDS = 8


def run(chk):
    n = 40 if chk.tier == "quick" else 400
    prefix = os.path.join(chk.build, "Cases_C02")
    rc, tdoc, out = chk.bridge_json("symgen_C02.py", [os.path.join(chk.build, "Tie_C02"), str(NSHARDS), chk.tier], timeout=2400)
    ok = False
    if rc != 0 or tdoc is None:
        chk.obligations.extend(chk.theorem_names(os.path.join("coq", "props", "C02.v")))
        chk.broken.append({"file": "symgen_C02.py", "item": "model regeneration (in-Coq tie)", "coqc_output": out[-1500:]})
    else:
        chk.cov["tie_cases_in_coq"] = len(tdoc["cases"])
        chk.cov["tie_skipped_known_finding"] = tdoc["skipped_known_finding"]
        with concurrent.futures.ThreadPoolExecutor(NSHARDS) as ex:
            res = list(ex.map(lambda k: chk.coqc(f"Tie_C02_{k}.v", timeout=1500), range(NSHARDS)))
        bad = [(k, o) for k, (okk, o) in enumerate(res) if not okk]
        if bad:
            chk.obligations.extend(chk.theorem_names(os.path.join("coq", "props", "C02.v")))
            chk.broken.append({"file": f"Tie_C02_{bad[0][0]}.v", "item": "generated tie case does not compile", "coqc_output": bad[0][1][-1500:]})
        else:
            ok = chk.compile_chain(["Tie_C02.v"], ["C02_lemmas.v", "C02_tie_lemmas.v"], "C02.v", timeout=1500)
    rc, doc, out = chk.bridge_json("corr_C02.py", ["gen", str(chk.seed), str(n), prefix, str(NSHARDS)], timeout=3000)
    failures = []
    if rc != 0 or doc is None:
        chk.broken.append({"file": "corr_C02.py", "item": "correspondence: case generation", "coqc_output": out[-1500:]})
    else:
        def one(k):
            okk, o = chk.coqc(f"Cases_C02_{k}.v", timeout=1500)
            with open(os.path.join(chk.build, f"out_{k}.txt"), "w") as f:
                f.write(o)
            if not okk:
                return None, o
            rc2, d2, o2 = chk.bridge_json("corr_C02.py", ["cmp", f"{prefix}_{k}.pkl", os.path.join(chk.build, f"out_{k}.txt")], timeout=1500)
            return d2, o2
        with concurrent.futures.ThreadPoolExecutor(NSHARDS) as ex:
            results = list(ex.map(one, range(NSHARDS)))
        for k, (d, o) in enumerate(results):
            if d is None or "error" in d:
                chk.broken.append({"file": f"Cases_C02_{k}.v", "item": "correspondence: model evaluation / comparison",
                                   "coqc_output": (o or "")[-1500:] if d is None else d["error"]})
                continue
            chk.add_cases(d["evaluations"], d["distinct"], d["samples"])
            for kk, v in d["kinds"].items():
                chk.cov.setdefault("input_distribution", {})
                chk.cov["input_distribution"][kk] = chk.cov["input_distribution"].get(kk, 0) + v
            failures += [dict(f, search="corr") for f in d["failures"]]
    chk.cov["rule"] = ("correspondence: objects compared (expression, every amplitude, every chain component, every intensity component) over "
                       "(reaction, configuration) cases; distinct = distinct cases (each a formulated model with >=1 chain); numeric: one random "
                       "point per (reaction, configuration)")
    m = 14 if chk.tier == "quick" else 120
    rc, sdoc, out = chk.bridge_json("search_C02.py", [str(chk.seed), str(m)], timeout=3000)
    if sdoc is None:
        chk.broken.append({"file": "search_C02.py", "item": "numeric harness", "coqc_output": out[-1500:]})
    else:
        chk.add_cases(sdoc["evaluations"], sdoc["distinct"], sdoc["samples"])
        failures += [dict(f, search="search_C02.py") for f in sdoc["failures"]]
    for f in failures:
        sig = f["signature"]
        reaction = f["case"]["cfg"]["reaction"]
        key = sig if sig == "identical_particle_exchange_mixes_final_states" else f"{sig}:{reaction}"
        chk.violation(key, f["what"], {"case": f["case"], "search": "corr_C02.py" if f.get("search") == "corr" else "search_C02.py"}, True)
    if chk.broken and not failures:
        b = chk.broken[0]
        chk.violation("unproved:" + b["item"], f"{b['file']}:{b['item']} no longer checks",
                      {"theorem": b["item"], "file": b["file"], "coqc_output": b["coqc_output"]}, False)
    chk.assumptions += [
        "the formula is the one in the property statement; the relative sign conventions of D and of the two CG factors are those of "
        "Chung's 'Spin formalisms' eq. 4.32 as quoted in the code's docstrings",
    ]


def replay(path):
    return replay_with("search_C02.py", path)
