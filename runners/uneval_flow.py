"""Flow shared by the C14 and C15 runners: class table (T3) -> proofs -> correspondence (T2) -> search."""
from __future__ import annotations

import json
import os
import subprocess

import checklib


def coqc_big(chk, fname, timeout=600):
    """coqc with an unlimited stack (vm_compute builds long strings)."""
    chk.checker_cmds.append("coqc -Q coq/theories AV -Q build/%s AVchk %s" % (chk.pid, fname))
    cmd = f"ulimit -s unlimited; timeout {timeout} coqc -Q {checklib.COQ_THEORIES} AV -Q . AVchk {fname} > {fname[:-2]}.out 2>&1"
    p = subprocess.run(["bash", "-c", cmd], cwd=chk.build)
    return p.returncode == 0


def flow(chk, pid, lemma_file, prop_file, search, n_corr, n_search, rule, decorator=False):
    deep = False
    gen_files, lemma_files, refused = ["ClassTable.v"], [lemma_file], {}
    if decorator:
        # ---- T1: translate the helpers of _decorator.py from their CURRENT source text (fail-closed)
        rc0, tdoc, tout = chk.bridge_json("trans_decorator.py", [os.path.join(chk.build, "Gen_decorator.v")], timeout=120)
        gen_files.append("Gen_decorator.v")
        lemma_files.append("C14_decorator_lemmas.v")
        if rc0 != 0 or tdoc is None:
            refused = {"_decorator.py": (tout or "")[-300:]}
        else:
            refused = tdoc["refused"]
            chk.cov["translated_helpers"] = tdoc["translated"]
        for name, why in refused.items():
            chk.broken.append({"file": "trans_decorator.py", "item": "translator:" + name,
                               "coqc_output": "source outside the recognised shape: " + why})
    # ---- T3: regenerate the class table
    rc, doc, out = chk.bridge_json("classtab.py", [os.path.join(chk.build, "ClassTable.v"),
                                                   os.path.join(chk.build, "table.json")], timeout=300)
    proofs_ok = False
    if rc != 0 or doc is None:
        chk.obligations.extend(chk.theorem_names(os.path.join(checklib.COQ_PROPS, prop_file)))
        chk.broken.append({"file": "classtab.py", "item": "class table regeneration (fail-closed translator)",
                           "coqc_output": out[-1500:]})
    else:
        chk.notes.append("class table: " + json.dumps(doc))
        chk.cov["class_table"] = doc
        proofs_ok = chk.compile_chain(gen_files, lemma_files, prop_file, timeout=600)
    # ---- T2: correspondence
    corr_fail = []
    if rc == 0 and doc is not None and os.path.exists(os.path.join(chk.build, "ClassTable.vo")):
        n = n_corr[1] if chk.tier == "thorough" else n_corr[0]
        rc2, g, out2 = chk.bridge_json("corr_uneval.py", ["gen", pid, str(chk.seed), str(n), chk.build], timeout=1500)
        if g is None:
            chk.broken.append({"file": "corr_uneval.py", "item": "correspondence generation", "coqc_output": out2[-1500:]})
        else:
            ok = all(coqc_big(chk, f) for f in g["files"])
            rc3, c, out3 = chk.bridge_json("corr_uneval.py", ["cmp", chk.build, pid], timeout=1500)
            if not ok or c is None:
                chk.broken.append({"file": "Cases", "item": "model evaluation (vm_compute)", "coqc_output": (out3 or "")[-1500:]})
            else:
                chk.add_cases(c["compared"], c.get("agree", 0), g["samples"],
                              "T2: random nested trees over the real classes, model (vm_compute) vs implementation; "
                              "distinct = evaluations on which both sides were defined and agreed")
                chk.cov["correspondence"] = {"kinds": g["kinds"], **{k: c[k] for k in c if k != "failures"}}
                corr_fail = c["failures"]
    else:
        chk.broken.append({"file": "ClassTable.v", "item": "class table does not compile", "coqc_output": ""})
    # ---- correspondence of the translated helpers themselves (object model vs real Python)
    if decorator and not refused and os.path.exists(os.path.join(chk.build, "Gen_decorator.vo")):
        rcd, gd, outd = chk.bridge_json("corr_decorator.py", ["gen", str(chk.seed), "180", chk.build], timeout=300)
        if gd is None:
            chk.broken.append({"file": "corr_decorator.py", "item": "translator correspondence generation", "coqc_output": outd[-1500:]})
        else:
            coqc_big(chk, "Cases_decorator.v")
            rcd2, cd, outd2 = chk.bridge_json("corr_decorator.py", ["cmp", chk.build], timeout=300)
            if cd is None:
                chk.broken.append({"file": "Cases_decorator", "item": "translated helpers (vm_compute)", "coqc_output": (outd2 or "")[-1500:]})
            else:
                chk.add_cases(cd["compared"], cd["agree"], [], "")
                chk.cov["decorator_correspondence"] = {"compared": cd["compared"], "agree": cd["agree"]}
                corr_fail = corr_fail + cd["failures"]
    for f in corr_fail:
        deep = True
    # ---- search on the implementation (property as stated)
    sizes = [n_search[1] if chk.tier == "thorough" else n_search[0]]
    if chk.tier != "thorough" and (chk.broken or deep):
        sizes.append(6 * n_search[0])      # failing-input search: go deeper only if the normal size finds nothing
    s, out4 = None, ""
    if chk.tier == "thorough":
        # the thorough exploration runs as independent chunks (own sub-seed, own time limit): SymPy occasionally does not
        # return on one generated tree, and a chunk that runs out of time is exploration lost (noted), not a failed obligation
        chunk = max(1, min(500, sizes[0]))
        runs = [(chk.seed + 1000 * k, chunk, 700) for k in range(max(1, sizes[0] // chunk))]
    else:
        runs = [(chk.seed, n, 900) for n in sizes]
    for sub_seed, n, tmo in runs:
        rc4, s2, out4 = chk.bridge_json(search, [str(sub_seed), str(n)], timeout=tmo)
        if s2 is None:
            if chk.tier == "thorough":
                chk.notes.append(f"{search}: exploration chunk (seed {sub_seed}, n {n}) did not finish within {tmo}s and is not counted")
                continue
            if s is not None:
                break
            continue
        if s is None:
            s = s2
        else:  # merge chunks
            s["evaluations"] += s2["evaluations"]
            s["distinct"] += s2["distinct"]
            s["failures"] += s2["failures"]
            for k_, v_ in s2.get("kinds", {}).items():
                s.setdefault("kinds", {})[k_] = s.get("kinds", {}).get(k_, 0) + v_
        if any(True for f_ in s2["failures"]
               if not any(k.get("property") == chk.pid and k.get("kind") == "finding" and k.get("signature") == f_["signature"]
                          for k in chk.findings)):
            break
    if s is None:
        chk.broken.append({"file": search, "item": "harness", "coqc_output": out4[-1500:]})
        s = {"evaluations": 0, "distinct": 0, "samples": [], "failures": [], "kinds": {}}
    chk.add_cases(s["evaluations"], s["distinct"], s["samples"], rule)
    chk.cov["input_distribution"] = s.get("kinds", {})
    for f in s["failures"]:
        chk.violation(f["signature"], f["what"], {"case": f["case"], "search": search}, True)
    real = [v for v in chk.violations]
    for f in corr_fail:
        # a disagreeing correspondence case IS a concrete input (model and code differ on it)
        chk.violation(f["signature"], f["what"], {"case": f["case"], "search": "corr_replay.py"}, True)
    if chk.broken and not chk.violations:
        b = chk.broken[0]
        chk.violation("unproved:" + b["item"], f"{b['file']}:{b['item']} no longer checks",
                      {"theorem": b["item"], "file": b["file"], "coqc_output": b["coqc_output"]}, False)
    return proofs_ok
