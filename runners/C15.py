from runners.common import replay_with
from runners.uneval_flow import flow

TRUSTED = [
    "hand-written model coq/theories/Uneval.v: unpickling a SymPy tree = cls.__new__(cls, *x.__getnewargs__()) bottom-up (Uneval.rebuild); tied by the T2 correspondence run against the real pickle",
    "pickle's byte format, memoisation, by-reference pickling of classes/functions, attrs' __getstate__/__setstate__ of HelicityModel, qrules' ReactionInfo: runtime, not modelled; exercised on the real pickle (protocols 2-5, same process and a fresh process with another PYTHONHASHSEED)",
    "bridge/classtab.py, bridge/uneval_ir.py",
]


def run(chk):
    chk.assumptions += [
        "attribute values are picklable (module-level classes/functions, None, str, list/dict)",
        "numerical identity of models is checked on 3 random phase-space-like points per model (kinematic variables excluded from lambdify when they need 4-momenta arrays: compared structurally)",
    ]
    flow(chk, "C15", "C15_lemmas.v", "C15.v", "search_C15.py", (150, 1500), (60, 400),
         "search: real pickle round trips (protocols 2..5; same process and fresh subprocess with another hash seed) of random "
         "nested instances, every class on default arguments, formulated corpus models with dynamics/alignment; "
         "distinct = distinct pickled objects")


def replay(path):
    import json
    doc = json.load(open(path))
    return replay_with(doc["replay"].get("search", "search_C15.py"), path)
