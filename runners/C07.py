"""C07 — kinematic variables mean what their names say, in every topology.

Flow:  T1  bridge/symgen_C07.py -> Gen_C07.v (Phi, Theta, InvariantMass trees of the current code)
                                     + Gen_C07_dalitz.v (theta_a^ab of the 3-body topologies)
       proofs  C07_lemmas.v (about coq/theories/Kin.v), C07_analytic.v (about Gen_C07), C07.v
               background chain: Gen_C19.v, C19_lemmas.v, C07_dalitz_lemmas.v, C07_dalitz.v (clause 3)
       T2  bridge/tie_C07.py: Kin.v (vm_compute) vs HelicityAdapter.create_expressions()
       search  bridge/search_C07.py (numeric, independent oracle bridge/frames.py)
"""
import json
import os
import subprocess

import checklib
from runners.common import replay_with

# False: the correspondence run ties /repo to Kin.hel false (the current code, with the overwrite at
# nodes whose two children decay).  Once the fix proposed in the C07 report is applied to /repo, set
# this to True (the tie then uses Kin.hel true, for which the theorems hold on ALL trees) and remove
# the C07 entry from known_findings.json.
MODEL_REPAIRED = True

TRUSTED = [
    "coq/theories/Kin.v is a hand-written model of compute_helicity_angles / compute_invariant_masses / "
    "get_boost_chain_suffix / HelicityAdapter.create_expressions / permutate_registered_topologies; it is tied to "
    "/repo only by the correspondence run (bridge/tie_C07.py) on isobar topologies with 2..5 final states",
    "tree_of_topo (Kin.v) reads the isobar tree off the raw qrules Topology; theorems quantify over all trees, the "
    "graph walk of the Python code is validated against it only by the correspondence run",
    "variable names are structural in the model (NMass ids / NAng kind sub sup); the string rendering "
    "'m_'+digits, 'phi_'+digits+'^'+groups is done by the harness and is injective only for single-digit final-state ids",
    "values are abstract terms (angle kind, summed final-state momenta, chain of helicity frames); bridge/tie_C07.py "
    "reads them off the SymPy tree and fails closed on any other shape "
    "(BoostZMatrix(|P|/E(P)) * RotationYMatrix(-Theta(P)) * RotationZMatrix(-Phi(P)) per frame)",
    "what the matrices compute on numbers is C08's subject; here only checked numerically against bridge/frames.py "
    "(independent axis-projection + boost evaluator in longdouble)",
    "bridge/symexec.py for the T1 trees (Phi, Theta, InvariantMass, theta_a^ab through the generated NumPy code, one event)",
    "clause 3 reuses coq/theories/Dpd.v (gram/cosf, tree reader) and coq/props/C19_lemmas.v (is_event, interior, "
    "scat_i_j_ok) with bridge/symgen_C19.py; the three relabelled 3-body topologies are built by symgen_C07.py from "
    "create_isobar_topologies(3)[0]",
]


def _tie(chk):
    """T2 correspondence.  Returns True iff model and implementation agree on every case."""
    rc, doc, out = chk.bridge_json("tie_C07.py", ["gen", str(chk.seed), chk.tier, chk.build], timeout=1500)
    if doc is None or rc != 0:
        chk.broken.append({"file": "tie_C07.py", "item": "correspondence (generation)", "coqc_output": out[-1500:]})
        return False
    ok = True
    for e in doc.get("errors", [])[:1]:
        # the implementation raised on an isobar topology: a concrete failing input
        chk.violation("tie_exception_" + e["error"].split(":")[0], "create_expressions raised: " + e["error"],
                      {"tie_case": e["case"]}, True)
        ok = False
    procs = []
    for f in doc["files"]:
        procs.append((f, subprocess.Popen(
            ["timeout", "900", "coqc", *checklib.COQFLAGS, f], cwd=chk.build,
            stdout=open(os.path.join(chk.build, f[:-2] + ".out"), "w"), stderr=subprocess.STDOUT)))
    chk.checker_cmds.append("coqc -Q coq/theories AV -Q build/C07 AVchk Cases_C07_<k>.v (Eval vm_compute of the model)")
    for f, p in procs:
        if p.wait() != 0:
            chk.broken.append({"file": f, "item": "correspondence (model evaluation)",
                               "coqc_output": open(os.path.join(chk.build, f[:-2] + ".out")).read()[-1500:]})
            return False
    rc, cmp_, out = chk.bridge_json("tie_C07.py", ["cmp", chk.build] + (["repaired"] if MODEL_REPAIRED else []),
                                    timeout=600)
    if cmp_ is None:
        chk.broken.append({"file": "tie_C07.py", "item": "correspondence (comparison)", "coqc_output": out[-1500:]})
        return False
    chk.add_cases(cmp_["variables"], cmp_["cases"], cmp_["samples"],
                  "T2: all isobar topologies with 2..5 final states x final-state permutations (all in thorough, "
                  "a sample in quick) x random intermediate-edge/node renumbering and edge order; sets of 2-5 "
                  "topologies in one adapter in the adapter's own iteration order; isomorphic renumbered triples; "
                  "permutate_registered_topologies; evaluations = variables compared, distinct = adapter cases")
    chk.cov["input_distribution"] = dict(doc["kinds"])
    for f in cmp_["failures"]:
        ok = False
        if f["input"]:
            chk.violation(f["signature"], f["what"], {"tie_case": f["case"]}, True)
        else:
            chk.broken.append({"file": "tie_C07.py", "item": "correspondence: " + f["what"][:120],
                               "coqc_output": f["what"]})
    chk.notes.append(f"T2 agree {cmp_['agree']}/{cmp_['cases']} cases with Kin.hel {'true (repaired)' if MODEL_REPAIRED else 'false (current code)'}")
    return ok


DALITZ_FILES = ["Gen_C07_dalitz.v", "Gen_C19.v", "C19_lemmas.v", "C07_dalitz_lemmas.v", "C07_dalitz.v"]


def _dalitz_start(chk, have_gen, gen_out):
    """Clause 3 (theta = Dalitz closed form) is compiled as its own chain, in the background, so that a
    failure there cannot mask the other obligations.  Reuses C19's regenerated trees and lemmas."""
    thms = chk.theorem_names(os.path.join(checklib.COQ_PROPS, "C07_dalitz.v"))
    chk.obligations.extend(thms)
    if not have_gen:
        chk.broken.append({"file": "symgen_C07.py", "item": "regeneration of the helicity-angle trees (dalitz)",
                           "coqc_output": gen_out[-1500:]})
        return None
    rc, out, _ = chk.bridge("symgen_C19.py", [os.path.join(chk.build, "Gen_C19.v")])
    if rc != 0:
        chk.broken.append({"file": "symgen_C19.py", "item": "regeneration of formulate_scattering_angle (dalitz)",
                           "coqc_output": out[-1500:]})
        return None
    chk.copy_props(["C19_lemmas.v", "C07_dalitz_lemmas.v", "C07_dalitz.v"])
    flags = " ".join(checklib.COQFLAGS)
    script = " && ".join(f"timeout 900 coqc {flags} {f} > {f[:-2]}.dout 2>&1" for f in DALITZ_FILES)
    chk.checker_cmds.append("coqc -Q coq/theories AV -Q build/C07 AVchk " + " ".join(DALITZ_FILES))
    return subprocess.Popen(["bash", "-c", script], cwd=chk.build), thms


def _dalitz_finish(chk, handle):
    if handle is None:
        return False
    proc, thms = handle
    proc.wait()
    for f in DALITZ_FILES:
        if not os.path.exists(os.path.join(chk.build, f[:-2] + ".vo")):
            try:
                out = open(os.path.join(chk.build, f[:-2] + ".dout")).read()
            except OSError:
                out = "not compiled"
            item = chk.failing_item(os.path.join(chk.build, f), out)
            chk.broken.append({"file": f, "item": f"{item} (dalitz chain)", "coqc_output": out[-1500:]})
            return False
    out = open(os.path.join(chk.build, "C07_dalitz.dout")).read()
    before = set(chk.axioms)
    chk.parse_assumptions(out)
    bad = [a for a in chk.axioms if a not in checklib.STD_AXIOMS]
    if bad:
        chk.broken.append({"file": "C07_dalitz.v", "item": "Print Assumptions", "coqc_output": f"non-standard axioms: {bad}"})
        chk.axioms = before
        return False
    chk.discharged.extend(thms)
    return True


def run(chk):
    chk.assumptions += [
        "final-state ids are single digits (the name rendering is not injective beyond that)",
        "theorems are about the abstract term a variable is bound to; the numbers the frame matrices produce are "
        "covered by C08's theorems and by the numeric harness here, not proved in C07",
        "clause 3 (C07_dalitz.v): 3-body event in the parent rest frame, E_i > 0, p_i^2 >= 0, momenta not collinear, the "
        "isobar not exactly along z (there the code yields nan: known finding angle_nan_subsystem_along_z); exact reals, "
        "floating point only sampled by the harness",
        "angles are compared where they are well conditioned (tolerance from an input-perturbation estimate); "
        "events with a tolerance above 1e-3 (phi at a pole, subsystem at rest) are skipped and counted",
    ]
    # ---- T1 + proofs
    proofs_ok = False
    gen_main = os.path.join(chk.build, "Gen_C07.v")
    gen_dal = os.path.join(chk.build, "Gen_C07_dalitz.v")
    rc, out, _ = chk.bridge("symgen_C07.py", [gen_main, gen_dal])
    have_dal = rc == 0 and os.path.exists(gen_dal)
    dal_out = out
    if rc != 0:  # the dalitz trees are written last: see whether the rest regenerates on its own
        rc, out, _ = chk.bridge("symgen_C07.py", [gen_main])
    dalitz = _dalitz_start(chk, have_dal, dal_out)        # background chain
    if rc != 0:
        chk.obligations.extend(chk.theorem_names(os.path.join(checklib.COQ_PROPS, "C07.v")))
        chk.broken.append({"file": "symgen_C07.py", "item": "model regeneration", "coqc_output": out[-1500:]})
    else:
        proofs_ok = chk.compile_chain(["Gen_C07.v"], ["C07_lemmas.v", "C07_analytic.v"], "C07.v", timeout=900)
    # ---- translator tie: the topology helpers of helicity/decay.py as translated from the current source (C07_code.v)
    from runners.helpers_flow import run_helpers, TRUSTED as HTRUSTED
    chk.assumptions += HTRUSTED
    if not run_helpers(chk, "C07_code.v", {"assert_two_body_decay", "assert_isobar_topology", "get_sibling_state_id",
                                           "determine_attached_final_state", "is_opposite_helicity_state",
                                           "get_parent_id", "list_decay_chain_ids", "__get_boost_chain_ids",
                                           "get_boost_chain_ids"}):
        proofs_ok = False
    # ---- T2
    tie_ok = _tie(chk)
    # ---- numeric harness / failing-input search (the dalitz chain keeps compiling meanwhile)
    n = 400 if chk.tier == "thorough" else 26
    if not (proofs_ok and tie_ok):
        n = max(n, 90)

    def search(n_cases, first):
        rc, doc, out = chk.bridge_json("search_C07.py", [str(chk.seed), str(n_cases)], timeout=1700)
        if doc is None:
            chk.broken.append({"file": "search_C07.py", "item": "numeric harness", "coqc_output": out[-1500:]})
            doc = {"evaluations": 0, "distinct": 0, "samples": [], "failures": []}
        chk.add_cases(doc["evaluations"], doc["distinct"], doc["samples"] if first else [],
                      "search: physical events (sequential two-body decays; massless, near-threshold, highly boosted; CM and "
                      "boosted lab) x adapters (single/multi/isomorphic/permutated topologies) x cse on/off; every variable vs "
                      "Minkowski norm / bridge/frames.py / Dalitz closed form / other topologies; evaluations = well-conditioned "
                      "variable-event comparisons, distinct = events" if first else "")
        chk.cov.setdefault("input_distribution", {}).update({"search_" + k: v for k, v in doc.get("kinds", {}).items()})
        if "ill_conditioned_skipped" in doc:
            chk.notes.append(f"search({n_cases}): {doc['ill_conditioned_skipped']} ill-conditioned variable-event pairs "
                             f"skipped; max error/tolerance {doc.get('max_err_over_dev', 0):.3g}")
        for f in doc["failures"]:
            chk.violation(f["signature"], f["what"], {"case": f["case"], "search": "search_C07.py"}, True)
        return doc

    search(n, True)
    dal_ok = _dalitz_finish(chk, dalitz)
    if not dal_ok and not chk.violations and n < 90:
        search(90, False)       # clause 3 stopped checking: look deeper for a failing input
    real_fail = bool(chk.violations)
    if chk.broken and not real_fail:
        b = chk.broken[0]
        chk.violation("unproved:" + b["item"], f"{b['file']}:{b['item']} no longer checks",
                      {"theorem": b["item"], "file": b["file"], "coqc_output": b["coqc_output"]}, False)


def _replay_tie(path, doc):
    import shutil
    import tempfile

    case = doc["replay"]["tie_case"]
    tmp = tempfile.mkdtemp(prefix="c07replay_")
    try:
        env = checklib.bridge_env(0)
        tie = os.path.join(checklib.VERIF, "bridge", "tie_C07.py")
        p = subprocess.run([checklib.PY, tie, "one", tmp], input=json.dumps(case), env=env,
                           capture_output=True, text=True)
        if p.returncode != 0:
            # the implementation raises on this input
            print(json.dumps({"still_fails": True, "error": (p.stderr or p.stdout)[-300:]}))
            print(f"VIOLATION property=C07 replay={path}")
            return 1
        with open(os.path.join(tmp, "Case_one.out"), "w") as fh:
            subprocess.run(["timeout", "300", "coqc", "-Q", checklib.COQ_THEORIES, "AV", "Case_one.v"], cwd=tmp,
                           stdout=fh, stderr=subprocess.STDOUT)
        p = subprocess.run([checklib.PY, tie, "cmp1", tmp] + (["repaired"] if MODEL_REPAIRED else []), env=env,
                           capture_output=True, text=True)
        lines = [l for l in p.stdout.splitlines() if l.startswith("{")]
        res = json.loads(lines[-1]) if lines else {"still_fails": True, "error": p.stderr[-300:]}
        print(json.dumps(res))
        if res.get("still_fails"):
            print(f"VIOLATION property=C07 replay={path}")
            return 1
        return 0
    finally:
        shutil.rmtree(tmp, ignore_errors=True)


def replay(path):
    doc = json.load(open(path))
    if doc.get("found_failing_input") and "tie_case" in doc.get("replay", {}):
        checklib.ensure_theories()
        return _replay_tie(path, doc)
    return replay_with("search_C07.py", path)
