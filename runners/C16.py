"""C16 — cached unfolding equals doit() whatever the cache has seen.

Flow (T2 correspondence + proofs about the hand-written model coq/theories/Cache.v):
  1. compile coq/props/C16_lemmas.v, C16.v (theorems about the model, for every key function)
  2. for each hash mode (PYTHONHASHSEED unset / 0 / other), in parallel:
       bridge/hist_C16.py run   executes the scripted histories with the real perform_cached_doit
                                on real temporary directories, writes the same histories as
                                Gallina action lists (Cases_C16_<mode>_k.v) + the observations
       coqc Cases_*.v           vm_compute of the model (Robust and Pinned variants)
       bridge/hist_C16.py diff  implementation vs model, history by history, op by op
  3. every call's value was also compared with expr.doit() by the harness itself (the property as
     stated), independently of the model.
"""
from __future__ import annotations

import json
import os
from concurrent.futures import ThreadPoolExecutor

import checklib
from runners.common import replay_with

SCRIPT = "hist_C16.py"

TRUSTED = [
    "coq/theories/Cache.v: hand-written small-step model of perform_cached_doit/_load_cached_doit/_dump_atomically "
    "(variants Robust = current code, Pinned = code before 7aad13b); tied to /repo by executing every scripted history "
    "on the implementation and on the model (vm_compute) in this run and comparing call outcomes AND cache-file states op by op",
    "OS/runtime assumptions of the model: os.replace is atomic and a reader that has opened a file keeps reading the old inode; "
    "tempfile.mkstemp names are unique, never end in .pkl and nobody else touches *.tmp; every strict prefix of a pickle stream "
    "(and the empty file) fails to load (exercised for every prefix length by the harness); pickle.load of a complete stream "
    "returns what was dumped (C15)",
    "SymPy == is an equivalence and a congruence for doit() (hypothesis eqb_doit; checked on every pair of pool expressions in every run)",
    "get_readable_hash and doit() are NOT modelled: they are universally quantified (Section variables keyf, doit); in the "
    "correspondence run they are tables measured on the real functions",
    "coq/theories/Cache.v HashMode: 9-line model of _get_python_hash_seed (ASCII strings only; Python's str.isdigit also accepts "
    "non-ASCII digits such as superscripts, for which int() raises - outside the model and outside legal PYTHONHASHSEED values)",
    "bridge/callables_C16.py (attribute values of the pair family); bridge/hist_C16.py (history executor, fault injection by monkey-patching pickle.dump/os.replace/builtins.open in forked "
    "children, classification of cache files by the harness' own pickle.load)",
]

RULE = ("scripted directory histories on real temp directories under PYTHONHASHSEED unset/0/other/'random' (the last with a "
        "reduced set), plus 18 values assigned at run time for the mode-selection helper (vs Gallina hash_mode); pairs of one "
        "expression differing only in the state of a non-SymPy attribute of every kind (class, function, functools.partial, "
        "callable dataclass, callable with default eq, callable without hash, closure, lambda, non-callable value objects) in "
        "several call orders, same and later (forked) processes, compared with doit(); witnesses of the three pinned "
        "defects; call sequences over pairs differing only in phsp_factor / only in symbol assumptions / not at all; truncation "
        "of the cache file after every prefix length (quick: evenly subsampled above 400 bytes) followed by calls; pre-existing "
        "legacy / foreign-tuple / junk / empty / half / directory entries; a writer killed (os._exit) or interrupted (raise) "
        "after k bytes or at the rename, then fresh calls; every interleaving of two calls stopped at read/dump/rename "
        "(quick: sampled) and random 3-4 call schedules; well-formed pickles whose load raises TypeError/ValueError/"
        "UnicodeDecodeError/KeyError/ZeroDivisionError/... (entries of 'another ampform version'); cold start: 2-5 calls on a "
        "nested cache directory that does not exist yet, all held at their first os.mkdir and then released, plus 8 "
        "free-running processes per round on a fresh path; random mixed histories; free-running 2-4 processes with a "
        "truncating/deleting process.  evaluations = calls of perform_cached_doit executed and compared with doit(); "
        "distinct_nontrivial = distinct (mode, history) whose call outcomes the Robust and Pinned variants of the model "
        "predict differently (the history exercises behaviour the fix changed)")


def _mode_seeds(seed):
    return [("unset", None), ("s0", 0), ("sother", 1 + (seed * 7919 + 4242) % 4000000000), ("random", "random")]


def _one_mode(chk, mode, hashseed, budget):
    """run -> coqc -> diff for one hash mode.  Returns dict(run=..., diff=..., error=...)."""
    rc, run, out = chk.bridge_json(SCRIPT, ["run", str(chk.seed), chk.tier, mode, budget],
                                   timeout=2400, seed=hashseed)
    if run is None or "files" not in run:
        return {"error": ("harness run", out[-1500:])}
    files = run["files"]

    def comp(f):
        ok, o = chk.coqc(f, timeout=1200)
        with open(os.path.join(chk.build, f[:-2] + ".out"), "w") as fh:
            fh.write(o)
        return ok, f, o

    with ThreadPoolExecutor(max_workers=6) as ex:
        res = list(ex.map(comp, files))
    for ok, f, o in res:
        if not ok:
            return {"run": run, "error": ("model evaluation " + f, o[-1500:])}
    rc, diff, out = chk.bridge_json(SCRIPT, ["diff", mode], timeout=600, seed=hashseed)
    if diff is None or "error" in diff:
        return {"run": run, "error": ("diff", (diff or {}).get("error", out[-1500:]))}
    return {"run": run, "diff": diff}


def run(chk):
    chk.level = "proof"
    chk.assumptions += [
        "theorems are about the model Cache.v; they hold for every key function and every doit",
        "initial directory contains no forged file: a loadable 2-tuple (src, res) with src a Basic and res != src.doit() "
        "(there is no checksum: in-place corruption that still loads as such a tuple is not detectable)",
        "no entry '<hash>.pkl' is a non-file (a directory there makes os.replace raise: Example C16_blocked_entry_raises; "
        "the harness confirms this behaviour on the implementation and excludes those histories from the no-raise oracle)",
        "expressions that cannot be pickled are part of every family: the model has picklable : expr -> bool as a free Section "
        "variable (Robust: result returned, nothing written; Pinned: raises)",
        "the cache directory itself can be created and written; its creation (mkdir exist_ok, parents) is folded into the "
        "first step of a call in the model (idempotent) and exercised by the cold-start histories",
        "a cache file whose load raises a BaseException that is no Exception (a pickle that calls sys.exit) is out of scope",
        "C16_pinned_correct_partial is stated for sequential undisturbed calls (stronger than 'no read overlaps a write')",
    ]
    proofs_ok = chk.compile_chain([], ["C16_lemmas.v"], "C16.v", timeout=900)
    budget = "full" if proofs_ok else "deep"
    modes = _mode_seeds(chk.seed)
    with ThreadPoolExecutor(max_workers=4) as ex:
        results = list(ex.map(lambda m: _one_mode(chk, m[0], m[1],
                                                  "lite" if (m[0] == "random" and budget == "full") else budget), modes))

    n_calls = n_hist = n_nontrivial = 0
    fams, samples, failures, notes = {}, [], [], []
    unpicklable, env_checked = set(), 0
    for (mode, hashseed), r in zip(modes, results):
        if "error" in r:
            item, out = r["error"]
            chk.broken.append({"file": SCRIPT, "item": "correspondence[%s]: %s" % (mode, item), "coqc_output": out})
        run_, diff = r.get("run"), r.get("diff")
        if run_:
            n_calls += run_["calls"]
            failures += run_["failures"]
            notes.append("mode %s (PYTHONHASHSEED=%s): %d keys for %d expression classes; key collisions between "
                         "different expressions (name, name, doit differs): %s; hammer %s; harness %.0fs"
                         % (mode, hashseed, run_["n_keys"], run_["n_classes"], run_["key_collisions"],
                            run_["hammer"], run_["wall"]))
            if mode == "unset" and not any(c[2] for c in run_["key_collisions"]):
                notes.append("NOTE: no key collision observed with PYTHONHASHSEED unset (get_readable_hash changed?)")
        if run_ and run_.get("unpicklable"):
            unpicklable.update(run_["unpicklable"])
        if diff:
            env_checked += diff.get("env_values_checked", 0)
            n_hist += diff["histories"]
            n_nontrivial += diff["distinct_nontrivial"]
            failures += diff["failures"]
            for f, d in diff["families"].items():
                a = fams.setdefault(f, {"n": 0, "variants_differ": 0, "matches_robust": 0, "matches_pinned": 0})
                for k in a:
                    a[k] += d[k]
            samples += diff["samples"][:4]
            notes.append("mode %s: %d histories, implementation = Robust model on %d, = Pinned model on %d, "
                         "variants differ on %d" % (mode, diff["histories"], diff["matches_robust"],
                                                    diff["matches_pinned"], diff["variants_differ"]))
    notes.append("PYTHONHASHSEED values assigned at run time, real _get_python_hash_seed vs Gallina hash_mode: %d comparisons"
                 % env_checked)
    if unpicklable:
        notes.append("attribute kinds that cannot be pickled (hard-checked: the call returns doit(), writes no entry, leaves no "
                     "*.tmp, signature unpicklable_expression_raises on an exception): %s" % sorted(unpicklable))
    chk.notes += notes
    chk.add_cases(n_calls, n_nontrivial, samples, RULE)
    chk.cov["traces_validated_against_impl"] = n_hist
    chk.cov["input_distribution"] = fams
    chk.cov["variant_detected"] = ("Robust" if n_hist and all(f["matches_robust"] == f["n"] for f in fams.values())
                                   else "not Robust")
    for f in failures:
        chk.violation(f["signature"], f["what"], {"case": f["case"], "search": SCRIPT}, True)
    if chk.broken and not failures:
        b = chk.broken[0]
        chk.violation("unproved:" + b["item"], f"{b['file']}:{b['item']} no longer checks",
                      {"theorem": b["item"], "file": b["file"], "coqc_output": b["coqc_output"]}, False)
    return proofs_ok


def replay(path):
    return replay_with(SCRIPT, path)
