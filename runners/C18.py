"""C18 — PoolSum denotes the finite sum over its index pools.

Flow (T2 + proofs):
  1. compile coq/props/C18_lemmas.v, C18.v against the hand-written model coq/theories/PoolSum.v
     (+ PoolSum_proofs.v): the theorems are about the model;
  2. correspondence run: bridge/cases_C18.py draws PoolSum expressions / substitution maps, writes
     them as Gallina literals, the model is evaluated with vm_compute and diffed against the
     implementation (doit, evaluate, free_symbols, cleanup, subs, xreplace, HelicityModel.expression);
  3. bridge/search_C18.py: independent itertools.product oracle on the implementation, exact.
"""
import os
from concurrent.futures import ThreadPoolExecutor

import checklib
from runners.common import replay_with

TRUSTED = [
    "coq/theories/PoolSum.v: hand-written Gallina mirror of ampform.sympy.PoolSum (__new__/evaluate/doit/free_symbols/"
    "cleanup/_eval_subs/_xreplace) and of unfold_poolsums in HelicityModel.expression; its agreement with /repo is "
    "CHECKED on every run by the correspondence run (bridge/cases_C18.py), not proved",
    "SymPy's own machinery around the anchored code is modelled by its documented behaviour: Basic.subs on a list of "
    "pairs = sequential _subs, fallback subs/xreplace rebuild nodes from their args, Add/Mul/Pow automatic evaluation "
    "preserves the value (the model keeps unevaluated trees; the comparison rebuilds them through SymPy's constructors)",
    "bridge/model_C18.py (SymPy <-> JSON <-> Gallina literal, `show` printer of PoolSum.v) and the exact-fraction "
    "evaluator / brute-force oracle in bridge/search_C18.py",
    "den interprets Pow and function symbols as arbitrary operations of the structure (uninterpreted); the only law used is x+0=x",
]


def run(chk):
    chk.assumptions += [
        "theorem hypothesis wf ('values closed'): per PoolSum node distinct index symbols, non-empty pools, pool values "
        "contain no PoolSum and no symbol that is a summation index of the node or of a PoolSum inside its summand; "
        "substituted values are capture-free (mention no bound index) — outside it the model still mirrors the code "
        "(checked by the correspondence run) but the sum reading fails (Example evaluate_duplicate_index_outside_hypothesis)",
        "substitution targets are Symbols (xreplace also: whole PoolSum nodes); simultaneous subs with dict argument is not modelled",
        "HelicityModel.expression: value preservation proved for all wf intensities; completeness (no PoolSum left) proved "
        "for PoolSum nesting depth <= 2 (the builder shape) and refuted from depth 3 on (Example "
        "expression_unfolding_depth3_incomplete; not reachable from the builders); the final xreplace(amplitudes) is not modelled",
    ]
    proofs_ok = chk.compile_chain([], ["C18_lemmas.v"], "C18.v", timeout=900)

    thorough = chk.tier == "thorough"
    n_expr = 3000 if thorough else 300
    failures = []

    # ---- correspondence run
    rc, doc, out = chk.bridge_json("cases_C18.py", ["gen", str(chk.seed), str(n_expr), chk.build], timeout=1200)
    corr_ok = False
    if doc is None or rc != 0:
        chk.broken.append({"file": "cases_C18.py", "item": "correspondence generation", "coqc_output": out[-1500:]})
    else:
        def one(f):
            ok, o = chk.coqc(f, timeout=900)
            with open(os.path.join(chk.build, f[:-2] + ".out"), "w") as fh:
                fh.write(o)
            return f, ok, o

        with ThreadPoolExecutor(max_workers=8) as ex:
            results = list(ex.map(one, doc["files"]))
        bad = [(f, o) for f, ok, o in results if not ok]
        if bad:
            chk.broken.append({"file": bad[0][0], "item": "model evaluation (vm_compute)",
                               "coqc_output": bad[0][1][-1500:]})
        rc, ddoc, out = chk.bridge_json("cases_C18.py", ["diff", chk.build], timeout=2400)
        if ddoc is None:
            chk.broken.append({"file": "cases_C18.py", "item": "correspondence diff", "coqc_output": out[-1500:]})
        else:
            corr_ok = not bad and not ddoc["failures"]
            chk.add_cases(ddoc["evaluations"], ddoc["distinct"], ddoc["samples"],
                          "correspondence: random PoolSum expressions (uninterpreted f/g/h, sums, products, powers, 0..4 "
                          "indices, rational/symbolic pools with singletons and duplicates, nesting <= 3, builder-shaped "
                          "nests, depth-3 'shadow' nests where a symbol is free at one level and bound deeper or in a sibling "
                          "sum, pools handed to the constructor as tuple/list/Tuple/range/dict-keys/generator/map/iter/chain, "
                          "malformed quirks) x {doit, evaluate, free_symbols, cleanup, subs lists, xreplace maps "
                          "incl. bound/free/absent symbols and node keys, HelicityModel.expression}; model (vm_compute) vs "
                          "implementation, structural == after rebuilding through SymPy constructors")
            chk.cov["input_distribution"] = {"correspondence": ddoc["kinds"]}
            for f in ddoc["failures"]:
                failures.append((f, "cases_C18.py"))
            if ddoc.get("drift"):
                chk.notes.append("model and implementation differ on malformed inputs outside the theorem hypothesis "
                                 "(not a violation): " + " || ".join(ddoc["drift"]))

    # ---- independent oracle / failing-input search
    n = 10000 if thorough else 600
    if not (proofs_ok and corr_ok):
        n = max(n, 2500)
    rc, sdoc, out = chk.bridge_json("search_C18.py", [str(chk.seed), str(n)], timeout=2400)
    if sdoc is None:
        chk.broken.append({"file": "search_C18.py", "item": "oracle harness", "coqc_output": out[-1500:]})
    else:
        chk.add_cases(sdoc["evaluations"], sdoc["distinct"], sdoc["samples"],
                      "oracle: implementation vs exact itertools.product brute force with scoped indices at random rational "
                      "points (doit, evaluate, free_symbols, cleanup, subs/xreplace of free, bound and shadowed symbols, "
                      "subs-doit commutation, HelicityModel.expression on builder-shaped nests incl. Abs/Indexed); "
                      "distinct = distinct generated inputs that were defined")
        chk.cov.setdefault("input_distribution", {})["oracle"] = sdoc["kinds"]
        for f in sdoc["failures"]:
            failures.append((f, "search_C18.py"))

    # a concrete disagreement found by the oracle explains a model mismatch better than the mismatch itself
    failures.sort(key=lambda t: t[1] != "search_C18.py")
    for f, script in failures:
        chk.violation(f["signature"], f["what"], {"case": f["case"], "search": script}, True)
    if chk.broken and not chk.violations:
        b = chk.broken[0]
        chk.violation("unproved:" + b["item"], f"{b['file']}:{b['item']} no longer checks",
                      {"theorem": b["item"], "file": b["file"], "coqc_output": b["coqc_output"]}, False)
    chk.notes.append("cleanup() drops an index that does not occur in the summand without the factor |pool| "
                     "(theorem cleanup_changes_value_refuted; oracle signature cleanup_drops_unused_index): known finding")


def replay(path):
    return replay_with("search_C18.py", path)
