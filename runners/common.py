"""Helpers shared by the per-property runners."""
from __future__ import annotations

import json
import os
import subprocess

import checklib


def standard_flow(chk, symgen, gen_files, lemma_files, prop_file, search, n_quick, n_thorough,
                  rule, coq_timeout=900, search_timeout=1500, extra_symgen=(), stages=None):
    """T1 flow: regenerate model -> compile proofs -> numeric harness / failing-input search.
    extra_symgen: further (script, output file, extra args) regeneration steps."""
    rc, out, _ = chk.bridge(symgen, [os.path.join(chk.build, gen_files[0])])
    for script, target, extra in extra_symgen:
        if rc == 0:
            symgen = script
            rc, out, _ = chk.bridge(script, [os.path.join(chk.build, target), *extra])
    proofs_ok = False
    if rc != 0:
        chk.obligations.extend(chk.theorem_names(os.path.join(checklib.COQ_PROPS, prop_file)))
        chk.broken.append({"file": symgen, "item": "model regeneration", "coqc_output": out[-1500:]})
    else:
        proofs_ok = chk.compile_chain(gen_files, lemma_files, prop_file, timeout=coq_timeout, stages=stages)
    n = n_thorough if chk.tier == "thorough" else n_quick
    if not proofs_ok:
        n = max(n, n_thorough)  # failing-input search: go deep
    rc, doc, out = chk.bridge_json(search, [str(chk.seed), str(n)], timeout=search_timeout)
    if doc is None:
        chk.broken.append({"file": search, "item": "numeric harness", "coqc_output": out[-1500:]})
        doc = {"evaluations": 0, "distinct": 0, "samples": [], "failures": []}
    chk.add_cases(doc["evaluations"], doc["distinct"], doc["samples"], rule)
    if "kinds" in doc:
        chk.cov["input_distribution"] = doc["kinds"]
    for f in doc["failures"]:
        chk.violation(f["signature"], f["what"], {"case": f["case"], "search": search}, True)
    if chk.broken and not doc["failures"]:
        b = chk.broken[0]
        chk.violation("unproved:" + b["item"],
                      f"{b['file']}:{b['item']} no longer checks",
                      {"theorem": b["item"], "file": b["file"], "coqc_output": b["coqc_output"]},
                      False)
    return proofs_ok


def replay_with(search, path):
    """Re-run one stored failing case against /repo; exit 1 if it still fails."""
    doc = json.load(open(path))
    if not doc.get("found_failing_input"):
        print("replay names a theorem/correspondence, not an input:", doc["replay"].get("theorem"))
        print("re-run the check itself to see whether it checks again")
        return 1
    search = doc["replay"].get("search", search)
    p = subprocess.run([checklib.PY, os.path.join(checklib.VERIF, "bridge", search), "--replay", path],
                       env=checklib.bridge_env(0), capture_output=True, text=True)
    out = [l for l in p.stdout.splitlines() if l.startswith("{")]
    res = json.loads(out[-1]) if out else {"still_fails": True, "error": p.stderr[-500:]}
    print(json.dumps(res))
    if res.get("still_fails"):
        print(f"VIOLATION property={doc['property']} replay={path}")
        return 1
    return 0
