"""C06 — formulate() is a pure function of (reaction, configuration).

Flow (T1-like skeleton extraction + T2 correspondence over histories):
  1. bridge/purity_C06.py skeleton  observes the running implementation (recording functools.cache /
     lru_cache installed before ampform is imported, define_symbols return-object identity, scratch
     reset, naming re-registration, memo values written / stale) and writes build/C06/Skel_C06.v;
  2. coq/props/C06_lemmas.v + C06.v are compiled against that observed skeleton (the theorems of
     coq/theories/Purity_proofs.v are instantiated with it; `well_behaved observed = true` is an
     obligation);
  3. bridge/search_C06.py runs random operation histories: Coq model (vm_compute) vs Python
     transcription of the configuration semantics, implementation vs fresh-process builds under four
     hash seeds, memo snapshots; shrinks failures.
"""
import json
import os

import checklib
from runners.common import replay_with

TRUSTED = [
    "hand-written state model coq/theories/Purity.v of HelicityAmplitudeBuilder.formulate / BuilderConfiguration / naming setters / "
    "DynamicsSelector.assign / HelicityAdapter / define_symbols+functools.cache (what is computed from (reaction, configuration) is "
    "universally quantified; only WHERE state lives is modelled); validated per run by the history correspondence, not derived from the source",
    "bridge/purity_C06.py: recording replacements of functools.cache/lru_cache (module filter 'ampform*'), identity/deep-snapshot "
    "observation, run-time wrapper around SpinAlignment.define_symbols; a memoiser that is not functools.cache/lru_cache is invisible to "
    "the skeleton extraction (the fresh-process comparison still sees its effect)",
    "digest = sha256 of sympy.srepr of every key and value of the six HelicityModel attributes in dictionary order (reaction_info: JSON of qrules.io.asdict)",
    "'fresh process' = forked child of an interpreter that has only imported ampform (a sample is cross-checked against one new interpreter per build)",
    "Python exceptions inside formulate() are compared as results (type+message) but are outside the Coq model",
    "sorting converters are modelled as a sort by a strict total order on keys (true since the converters' key is (natural_sorting(name), name); "
    "the harness checks on every model that no two keys of a dictionary share a sort key)",
]

EXPECT = {"sk_none": ("Fresh", "MemoCopy"), "sk_axis": ("Fresh", "MemoCopy"), "sk_dpd": ("Fresh", "MemoCopy"),
          "sk_resets": (True,), "sk_reregisters": (True,), "memo_written": (False,), "memo_stale": (False,)}


def run(chk):
    chk.assumptions += [
        "PARTIAL (exercised, not proved): independence of PYTHONHASHSEED and of process start-up beyond the iteration order of "
        "HelicityAdapter's topology set (which IS in the model: op `Formulate b order`, any order) — iteration order of other Python sets "
        "in the call tree is covered only by the fresh-process runs under seeds {0, 1, 4711, one drawn from VERIF_SEED}",
        "C06_formulate_pure assumes C07's uniqueness (equal symbol => equal definition across topologies) and that xreplace reads its mapping by key",
        "histories are drawn over 3-body corpus reactions; builders share a reaction (original or relabelled edge ids)",
    ]
    skel_path = os.path.join(chk.build, "Skel_C06.v")
    rc, facts, out = chk.bridge_json("purity_C06.py", ["skeleton", skel_path], timeout=1200)
    proofs_ok = False
    prop_thms = chk.theorem_names(os.path.join(checklib.COQ_PROPS, "C06.v"))
    if rc != 0 or facts is None or not os.path.exists(skel_path):
        chk.obligations.extend(prop_thms)
        chk.broken.append({"file": "purity_C06.py", "item": "skeleton extraction", "coqc_output": out[-1500:]})
        facts = None
    else:
        proofs_ok = chk.compile_chain(["Skel_C06.v"], ["C06_lemmas.v"], "C06.v", timeout=900)
        sk = facts["skeleton"]
        chk.notes.append("observed skeleton: " + json.dumps(sk))
        chk.notes.append("memoised functions (entries, entries holding mutable objects): " + json.dumps(facts["memo_functions"]))
        bad_fields = [f for f, allowed in EXPECT.items() if sk.get(f) not in allowed]
        if bad_fields:
            # a hypothesis of formulate_pure is not what the implementation does.  This is a broken proof
            # obligation (observed_well_behaved), not yet a failing input: the history search below decides.
            detail = {"deviating_skeleton_fields": {f: sk.get(f) for f in bad_fields},
                      "define_symbols": facts["define"], "reset": facts["reset"], "reregister": facts["reregister"],
                      "memo_written": [[x[0], x[1]["ops"]] for x in facts["memo_written"][:1]],
                      "memo_stale": [[x[0], x[1]["ops"]] for x in facts["memo_stale"][:1]]}
            chk.notes.append("skeleton deviates from the hypotheses of formulate_pure: " + json.dumps(detail)[:1500])
            if not chk.broken:
                chk.broken.append({"file": "Skel_C06.v", "item": "observed_well_behaved",
                                   "coqc_output": json.dumps(detail)[:1500]})

    thorough = chk.tier == "thorough"
    n = 220 if thorough else 8
    if not proofs_ok:
        n = max(n, 48)  # failing-input search: go deeper
    rc, doc, out = chk.bridge_json("search_C06.py", [str(chk.seed), str(n), "--maxops", "20" if thorough else "12"]
                                   + (["--full-seed-matrix"] if thorough else []),
                                   timeout=3000)
    chk.checker_cmds.append("coqc -Q coq/theories AV -Q build/C06 AVchk Cases_C06_k.v (vm_compute of Toy.t_show under the observed skeleton)")
    if doc is None:
        chk.broken.append({"file": "search_C06.py", "item": "history correspondence", "coqc_output": out[-1500:]})
        doc = {"evaluations": 0, "distinct": 0, "samples": [], "failures": [], "kinds": {}, "coq_cases": 0,
               "model_disagreements": [], "coq_unavailable": "harness crashed"}
    chk.add_cases(doc["evaluations"], doc["distinct"], doc["samples"],
                  "random operation histories (NewBuilder/SetConfig/SetNaming/Assign/RegisterTopo/Permutate/Formulate; 1..3 builders sharing a "
                  "3-body reaction; NoAlignment, AxisAngleAlignment, DalitzPlotDecomposition(1|2|3)); evaluations = formulate() digests compared "
                  "with a fresh-process build of the configuration predicted by the Coq model, under 4 hash seeds, plus fresh-vs-fresh seed "
                  "comparisons; distinct = distinct (reaction, configuration) pairs")
    chk.cov["input_distribution"] = doc.get("kinds", {})
    chk.cov["coq_model_cases"] = doc.get("coq_cases", 0)
    for f in doc["failures"]:
        chk.violation(f["signature"], f["what"], {"case": f["case"], "search": "search_C06.py"}, True)
    if doc.get("model_disagreements"):
        chk.broken.append({"file": "Cases_C06", "item": "model-correspondence",
                           "coqc_output": json.dumps(doc["model_disagreements"][0], default=str)[:1500]})
    elif proofs_ok and not doc.get("coq_cases"):
        chk.broken.append({"file": "Cases_C06", "item": "model-correspondence",
                           "coqc_output": "Coq model could not be evaluated: %s" % doc.get("coq_unavailable")})
    if chk.broken and not chk.violations and not chk.known:
        b = chk.broken[0]
        chk.violation("unproved:" + b["item"], f"{b['file']}:{b['item']} no longer checks",
                      {"theorem": b["item"], "file": b["file"], "coqc_output": b["coqc_output"]}, False)


def replay(path):
    return replay_with("search_C06.py", path)
