"""C03 — parity partners carry exactly the parity sign of the flipped nodes.

Flow (T2): compile the theorems about the hand-written model (coq/theories/Naming*.v, props/C03*.v);
correspondence run: bridge/corr_C03.py writes the corpus transitions (and variants) as Gallina data,
the model is evaluated with vm_compute and diffed against the implementation; the numeric harness
bridge/search_C03.py checks the property as stated on the implementation (canonical vs helicity
model) and is the failing-input search.
"""
import json
import os
from concurrent.futures import ThreadPoolExecutor

import checklib
from runners.common import replay_with

TRUSTED = [
    "hand-written model coq/theories/Naming.v (registration loop, suffixes as abstract keys, sequential suffix, prefactor) and "
    "NamingCG.v (Clebsch-Gordan expansion); tied to /repo by bridge/corr_C03.py on every run (22 corpus reactions x naming flags x "
    "order/subset/parity-prefactor variants), incl. that key equality coincides with equality of the real suffix strings",
    "SymPy CG(...).doit(): only its reflection symmetry is used (Section hypothesis CG_reflection), validated exactly for all j <= 3 on every run",
    "qrules data: InteractionProperties.parity_prefactor equals P P1 P2 (-1)^(J-s1-s2) and LS alternatives of constrained nodes conserve parity "
    "(checked on the corpus on every run); Python's string order for get_sorted_states is taken from Python (name ranks)",
    "builder state across formulate() calls is not part of the Gallina model (the model is a function of the transition list and the flags); "
    "it is exercised by histories in the numeric harness and in the correspondence (fresh builder vs builder with an earlier model)",
    "Wigner-D factors are common to both formalisms and are not modelled (the numeric harness evaluates them)",
]

N_QUICK, N_THOROUGH = 30, 600


def _corr(chk):
    """-> (doc or None, error text)"""
    rc, doc, out = chk.bridge_json("corr_C03.py", ["gen", str(chk.seed), chk.tier], timeout=900)
    if rc != 0 or doc is None:
        return None, "corr_C03.py gen failed: " + out[-1200:]
    files = doc["files"]

    def one(f):
        ok, o = chk.coqc(f, timeout=900)
        with open(os.path.join(chk.build, f[:-2] + ".out"), "w") as fh:
            fh.write(o)
        return ok, f, o

    with ThreadPoolExecutor(max_workers=8) as ex:
        res = list(ex.map(one, files))
    for ok, f, o in res:
        if not ok:
            return None, f"model evaluation {f} failed: " + o[-1200:]
    rc, doc, out = chk.bridge_json("corr_C03.py", ["cmp"], timeout=900)
    if rc != 0 or doc is None:
        return None, "corr_C03.py cmp failed: " + out[-1200:]
    return doc, ""


def _search(chk, n):
    rc, doc, out = chk.bridge_json("search_C03.py", [str(chk.seed), str(n)], timeout=3000)
    return doc, out


def run(chk):
    chk.assumptions += [
        "flipped nodes of the theorems are the positions where the two chains' coefficient suffixes differ; the theorem shows they are then "
        "helicity-reversed images of one another (both daughters), everything else in the suffix equal",
        "eta at corresponding nodes of the two chains is the same and +-1 (hypothesis of C03_shared_coefficient_sign; holds when eta is a "
        "function of the particles, checked on the corpus)",
        "with insert_child_helicities=False (or parent helicities / LS arrows in the names) nothing is coupled by parity; chains then share a "
        "symbol only because the user removed the helicities from the names, and no sign is applied - outside the property's premise",
        "canonical LS alternatives that violate parity at a node the helicity reaction constrains are given coefficient 0 in the numeric "
        "harness (same parity-conserving interactions in both formalisms)",
    ]
    proofs_ok = chk.compile_chain([], ["C03_lemmas.v"], "C03.v", timeout=600)
    n = N_THOROUGH if chk.tier == "thorough" else N_QUICK
    with ThreadPoolExecutor(max_workers=2) as ex:
        fut_s = ex.submit(_search, chk, n)
        fut_c = ex.submit(_corr, chk)
        cdoc, cerr = fut_c.result()
        sdoc, sout = fut_s.result()
    # ---- correspondence
    corr_bad = []
    if cdoc is None:
        chk.broken.append({"file": "corr_C03.py", "item": "correspondence run", "coqc_output": cerr})
    else:
        chk.add_cases(cdoc["cases"], cdoc["with_coupling"], cdoc["samples"],
                      "correspondence: every corpus reaction x naming flags (parent, child, LS) x {original, shuffled, subset, parity "
                      "prefactors redrawn per decay / per node incl. None}; model (vm_compute) vs implementation: suffix triples (key<->string "
                      "bijection), mapping, sequential suffix, prefactor, CG arguments; distinct = cases in which some suffix is coupled")
        chk.notes.append("correspondence: %d cases agree of %d; %d with a coupled suffix; sequential suffix not string-identical in %d; "
                         "eta formula checked on %d nodes, LS parity on %d" % (cdoc["agree"], cdoc["cases"], cdoc["with_coupling"],
                                                                                cdoc["seq_not_exact"], cdoc["eta_checked"], cdoc["ls_checked"]))
        chk.notes.append("hypothesis 'eta equal at corresponding nodes': eta is a function of (parent, children, L, S) for all %d decays of the corpus; "
                         "exceptions: %s" % (cdoc.get("decays", 0), cdoc.get("eta_not_function_of_decay") or "none"))
        if cdoc["missing"]:
            chk.broken.append({"file": "corr_C03.py", "item": "correspondence run", "coqc_output": "; ".join(cdoc["missing"])})
        corr_bad = cdoc["disagreements"]
        for d in corr_bad:
            chk.broken.append({"file": "corr_C03.py", "item": d["signature"], "coqc_output": d["what"]})
    # ---- numeric harness (deep when something broke)
    if (chk.broken or not proofs_ok) and chk.tier != "thorough" and not (sdoc and sdoc["failures"]):
        sdoc2, sout2 = _search(chk, N_THOROUGH)
        if sdoc2 is not None and (sdoc is None or sdoc2["failures"] or not sdoc["failures"]):
            sdoc, sout = sdoc2, sout2
    if sdoc is None:
        chk.broken.append({"file": "search_C03.py", "item": "numeric harness", "coqc_output": sout[-1500:]})
        sdoc = {"evaluations": 0, "distinct": 0, "samples": [], "failures": [], "kinds": {}}
    chk.add_cases(sdoc["evaluations"], sdoc["distinct"], sdoc["samples"],
                  "numeric: 9 reactions in both formalisms x random Gaussian-rational LS coefficients: induced helicity coefficients consistent "
                  "within each shared symbol (40 digits), helicity intensity = canonical intensity at random angles, relative sign of chains "
                  "sharing a symbol = product of eta over the reversed nodes, CG reflection exactly for all j<=3; HISTORIES: every helicity reaction "
                  "of the corpus (incl. the same resonance twice, chic0_omegaomega) on ONE builder walked through naming-flag settings with "
                  "formulate() after each step (sharing first / no sharing first / random; canonical builders with all three flags), sign check on "
                  "every model formulated on the way and structural equality with the model of a fresh builder at the same flags")
    chk.cov["input_distribution"] = sdoc.get("kinds", {})
    for f in sdoc["failures"]:
        chk.violation(f["signature"], f["what"], {"case": f["case"], "search": "search_C03.py"}, True)
    if chk.broken and not sdoc["failures"]:
        b = chk.broken[0]
        chk.violation("unproved:" + b["item"], f"{b['file']}:{b['item']} no longer checks: {b['coqc_output'][:600]}",
                      {"theorem": b["item"], "file": b["file"], "coqc_output": b["coqc_output"]}, False)


def replay(path):
    return replay_with("search_C03.py", path)
