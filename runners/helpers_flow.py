"""Translator tie for small pure helpers (bridge/trans_helpers.py): shared by C05 (create_spin_range) and C07
(topology helpers of helicity/decay.py).  Steps, all on every run:
  1. translate the CURRENT source text -> Gen_helpers.v (a refused function = broken obligation `translator:<name>`);
  2. run the real helpers on enumerated inputs, write Cases_helpers.v + Gen_topos.v (bridge/corr_helpers.py gen);
  3. compile Gen_helpers.v, Gen_topos.v, Helpers_lemmas.v and the property file (theorems about the translated code);
  4. evaluate the translated definitions by vm_compute on the same inputs and compare (corr_helpers.py cmp)."""
from __future__ import annotations

import os
import subprocess

import checklib

TRUSTED = [
    "bridge/trans_helpers.py: fail-closed ast translator (recognised forms listed in its docstring) of "
    "assert_two_body_decay, assert_isobar_topology, get_sibling_state_id, determine_attached_final_state, "
    "is_opposite_helicity_state, get_parent_id, list_decay_chain_ids, assert_three_body_decay, get_spectator_id, "
    "get_decay_product_ids (helicity/decay.py), __get_boost_chain_ids "
    "(kinematics/lorentz.py) and create_spin_range (helicity/align/_spin.py) from the CURRENT source text into Gallina; "
    "while loops become fuelled recursion (running out of fuel is the error value EFuel, excluded by the theorems); "
    "functools.cache on a pure function is treated as the identity decorator",
    "coq/theories/PyTopo.v (hand model, tied by the per-run correspondence bridge/corr_helpers.py on ~1100 calls incl. "
    "error paths): Python exceptions by class, sets of ints as strictly sorted lists (iteration over a set with more than "
    "one element is refused by the model), the qrules Topology API (external library), float/Decimal values of "
    "create_spin_range as exact integers in units of 1/u",
]


def run_helpers(chk, prop_file, relevant):
    """relevant: names of the translated functions this property depends on.  Returns True iff everything checked."""
    ok = True
    gen = os.path.join(chk.build, "Gen_helpers.v")
    rc, doc, out = chk.bridge_json("trans_helpers.py", [gen], timeout=120)
    thms = chk.theorem_names(os.path.join(checklib.COQ_PROPS, prop_file))
    if rc != 0 or doc is None:
        chk.obligations.extend(thms)
        chk.broken.append({"file": "trans_helpers.py", "item": "translator (helpers)", "coqc_output": (out or "")[-1500:]})
        return False
    chk.cov["translated_helpers"] = {"translated": doc["translated"], "refused": doc["refused"], "source_sha": doc["source_sha"]}
    for name, why in doc["refused"].items():
        if name in relevant:
            ok = False
            chk.broken.append({"file": "trans_helpers.py", "item": "translator:" + name,
                               "coqc_output": "source outside the recognised shape: " + why})
    rc, g, out = chk.bridge_json("corr_helpers.py", ["gen", str(chk.seed), chk.tier, chk.build], timeout=600)
    if g is None:
        chk.obligations.extend(thms)
        chk.broken.append({"file": "corr_helpers.py", "item": "translated-helper correspondence (implementation run)",
                           "coqc_output": (out or "")[-1500:]})
        return False
    if not chk.compile_chain(["Gen_helpers.v", "Gen_topos.v"], ["Helpers_lemmas.v"], prop_file, timeout=600):
        ok = False
    if os.path.exists(os.path.join(chk.build, "Gen_helpers.vo")):
        flags = " ".join(checklib.COQFLAGS)
        subprocess.run(["bash", "-c", f"timeout 600 coqc {flags} Cases_helpers.v > Cases_helpers.out 2>&1"], cwd=chk.build)
        chk.checker_cmds.append("coqc -Q coq/theories AV -Q build/%s AVchk Cases_helpers.v (vm_compute of the translated helpers)" % chk.pid)
        rc, c, out = chk.bridge_json("corr_helpers.py", ["cmp", chk.build], timeout=300)
        if c is None or c.get("error"):
            ok = False
            chk.broken.append({"file": "Cases_helpers.v", "item": "translated helpers (vm_compute)",
                               "coqc_output": ((c or {}).get("error") or out or "")[-1500:]})
        else:
            chk.add_cases(c["compared"], c["agree"], [], "")
            chk.cov["helper_correspondence"] = {"compared": c["compared"], "agree": c["agree"], "kinds": g["kinds"],
                                                "topologies": g["topologies"]}
            for f in c["failures"]:
                if f["case"]["func"] in relevant or f["case"]["func"].lstrip("_") in relevant:
                    ok = False
                    chk.violation(f["signature"], f["what"], {"case": f["case"], "search": "corr_helpers.py"}, True)
    return ok
