from runners.common import replay_with
from runners.uneval_flow import flow

TRUSTED = [
    "bridge/trans_decorator.py: fail-closed ast translator of _get_hashable_object, _extract_field_values, _get_arguments and new_method (+ the cls.__new__/__getnewargs__/_hashable_content/_eval_subs/_xreplace wiring) from the CURRENT source text into Gallina over the object model coq/theories/PyModel.v (primitives isclass/hash/str/dict/kwargs/setattr are model primitives); tied to the real helpers by a ~200-input correspondence per run (bridge/corr_decorator.py)",
    "hand-written model coq/theories/Uneval.v of src/ampform/sympy/_decorator.py (new/get_arguments/xreplace/subs/hashable content/doit/func), tied by the T2 correspondence run",
    "SymPy core constructors (Add, Mul, Pow, Sum, Piecewise, array helper classes ...) are FREE constructors in the model; results are compared after rebuilding both sides through SymPy's constructors (and sp.expand when sign/number placement still differs)",
    "bridge/classtab.py (T3 class table incl. evaluate() templates; faithfulness of every template probed on 3 argument sets per run), bridge/uneval_ir.py (SymPy <-> model terms)",
    "Python dict lookup / hash(): modelled as a function of _hashable_content (no accidental 64-bit collisions)",
    "Dummy symbols created inside evaluate() are compared modulo their identity (a fresh Dummy per call makes two unfoldings never ==)",
]


def run(chk):
    chk.assumptions += [
        "substitution maps of the commutation theorem: symbol -> expression, not replacing symbols created by evaluate(), images already unfolded, not switching the case of a value-inspecting evaluate() (stableF; BlattWeisskopfSquared integer vs symbolic L); otherwise the two sides are different trees with equal value (numeric check in the harness)",
        "PoolSum's bound indices and its value-dependent unfolding belong to C18, not to this model",
        "NumPy clause: only exercised numerically (lambdify folded vs unfolded); classes classified per printing mode in the table",
        "non-SymPy attribute values are non-Basic Python objects (None, str, class, callable, unhashable)",
    ]
    flow(chk, "C14", "C14_lemmas.v", "C14.v", "search_C14.py", (150, 800), (250, 2500),
         "search: implementation only, property as stated (xreplace/subs-then-doit vs doit-then-xreplace/subs, nested reach, "
         "==/hash vs parts, func(*args), lambdify folded vs unfolded); distinct = distinct generated cases that were defined",
         decorator=True)


def replay(path):
    import json
    doc = json.load(open(path))
    return replay_with(doc["replay"].get("search", "search_C14.py"), path)
