from runners.common import replay_with, standard_flow

TRUSTED = [
    "hand-written vocabulary of coq/props/C19_lemmas.v (is_event, interior, pmom/psub, tsign/zsign sign "
    "conventions, expected error sets) and coq/theories/Dpd.v (gram/cosf/cos3, tree reader acos_parts/poly_ok)",
    "routes B/C of the harness (substitute particle masses / a whole event into the UNEVALUATED expression, then "
    "doit(), SymPy evalf(50)) cover structural-equality branches of Kallen.evaluate that symbolic regeneration with "
    "distinct symbols cannot reach; in Coq these are covered for Kallen(x,y,y) etc. and for 72 equal-symbol "
    "substitutions only (not for arbitrary numeric substitutions)",
    "builder side (helicity/__init__.py formulate): DPD models are formulated over corpus reactions x single-subsystem "
    "thinnings x reference subsystems x {default, scalar_m0, stable ids, both}; Coq checks the regenerated mass "
    "definitions/defaults structurally (sampled lattice, not all reactions); the harness evaluates every zeta variable "
    "of each model on float64 events against the four-momentum evaluator (tolerance 1e-6, interior events)",
    "the generated expressions are taken after .doit() (unfolds the Kallen nodes with the current "
    "Kallen.evaluate); the un-unfolded tree cannot be lambdified",
    "bridge/search_C19.py: independent four-momentum evaluator (explicit boosts, atan2 angles, 80-digit mpmath) "
    "and the round-off bound used for the float64 arccos-argument check",
]


def run(chk):
    chk.assumptions += [
        "theorems are about exact real values of the generated expressions (no floating point); the float64 "
        "behaviour (arccos arguments within [-1,1] up to round-off, no NaN at interior points) is only sampled",
        "physical region = events in the parent rest frame with E_i > 0, p_i^2 >= 0, non-collinear momenta; "
        "boundary points (collinear momenta) are outside the theorems (square roots vanish in denominators) "
        "and are approached numerically down to 1e-12",
        "'helicity angle computed from four-momenta' is stated through Lorentz invariants (cosf) with the "
        "rest-frame reading proved separately (C19_cosf_is_rest_frame_cosine / _lorentz_invariant); the "
        "explicit BoostMatrix route is exercised numerically by the harness and proved in C08",
    ]
    standard_flow(chk, "symgen_C19_all.py", ["Gen_C19.v", "Gen_C19_dpd.v"],
                  ["C19_lemmas3.v", "C19_lemmas.v", "C19_lemmas2.v"], "C19.v",
                  "search_C19.py", 90, 1200,
                  "exact-rational three-body events in the parent rest frame (interior, 1e-3..1e-12 from the "
                  "collinear boundary, soft corner, one/two/three massless, two/three equal masses, random rational "
                  "rotations and label permutations); every non-raising index tuple of the three builders is "
                  "evaluated along route A (doit, then 80-digit mpmath and float64), route B (particle masses substituted before doit) and route C (whole event substituted before doit) and compared with an independent four-momentum evaluator; plus "
                  "the raise-set over all 16+16+64 tuples, DalitzPlotDecomposition models for 2 corpus reactions "
                  "x 3 reference subsystems (definitions) and 42 (quick) / ~160 (thorough) models over thinnings x builder "
                  "options evaluated on events; distinct = distinct generated cases",
                  coq_timeout=900, search_timeout=1700)


def replay(path):
    return replay_with("search_C19.py", path)
