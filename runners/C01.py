"""C01: verified closure checker (coq/theories/Closure*.v) run inside Coq on models regenerated from
/repo over the (reaction, configuration) lattice + the same property checked with SymPy directly."""
import concurrent.futures
import json
import os
import re

from runners.common import replay_with

TRUSTED = [
    "bridge/modelgen.py structural serialiser (symbol identity = name+assumptions; Indexed amplitude symbols as atoms; "
    "model.expression == unfolded_intensity.xreplace(amplitudes) is re-checked with SymPy's == on every model)",
    "quantification over reactions/configurations is by the corpus (22 qrules reactions) x seeded configuration lattice incl. "
    "thinned helicity sets; the theorems are universal over models, values and head interpretations",
    "binder nodes (Sum/Integral/PoolSum inside amplitudes) are outside the structural model: serialisation fails closed",
]
NSHARDS = 8


def run(chk):
    n_random = 12 if chk.tier == "quick" else 120
    gen = os.path.join(chk.build, "Gen_C01.v")
    rc, doc, out = chk.bridge_json("symgen_C01.py", [gen, str(chk.seed), str(n_random), str(NSHARDS)], timeout=2400)
    prop, lemmas = "C01.v", "C01_lemmas.v"
    ok = False
    if rc != 0 or doc is None:
        chk.obligations.extend(chk.theorem_names(os.path.join("coq", "props", prop)))
        chk.broken.append({"file": "symgen_C01.py", "item": "model regeneration", "coqc_output": out[-1500:]})
        doc = {"models": [], "tie_failures": []}
    else:
        for tf in doc["tie_failures"]:
            chk.broken.append({"file": "symgen_C01.py", "item": "tie: " + tf["what"], "coqc_output": json.dumps(tf)[:1500]})
        shard_files = [f"Gen_C01_{k}.v" for k in range(NSHARDS)]
        with concurrent.futures.ThreadPoolExecutor(NSHARDS) as ex:
            res = list(ex.map(lambda f: chk.coqc(f, timeout=1500), shard_files))
        bad = [(f, o) for f, (k, o) in zip(shard_files, res) if not k]
        if bad:
            chk.obligations.extend(chk.theorem_names(os.path.join("coq", "props", prop)))
            chk.broken.append({"file": bad[0][0], "item": "generated model does not compile", "coqc_output": bad[0][1][-1500:]})
        else:
            ok = chk.compile_chain(["Gen_C01.v"], [lemmas], prop, timeout=1500)
    cfg_of = {m["name"]: m["cfg"] for m in doc["models"]}
    chk.cov["models_checked_in_coq"] = len(cfg_of)
    chk.cov["model_literal_bytes"] = sum(m["bytes"] for m in doc["models"])
    suspects = []
    if not ok and cfg_of and os.path.exists(os.path.join(chk.build, "Gen_C01.vo")):
        # which regenerated models fail the checker, and on which symbols?
        diag = os.path.join(chk.build, "Diag.v")
        with open(diag, "w") as f:
            f.write("From AV Require Import Closure.\nFrom AVchk Require Import Gen_C01.\nSet Printing Width 1000000.\n"
                    "Eval vm_compute in map (fun nm => (fst nm, closure_ok (snd nm), undefined_or_double (snd nm), "
                    "kin_leaks (snd nm))) gen_models.\n")
        k, o = chk.coqc("Diag.v", timeout=900)
        for name, verdict in re.findall(r'\("(m\d+)", (true|false)', o):
            if verdict == "false":
                suspects.append(cfg_of[name])
        chk.notes.append(f"Coq closure checker rejects {len(suspects)} regenerated model(s)")
    n = 40 if chk.tier == "quick" else 600
    if not ok:
        n = max(n, 200)
    rc, sdoc, out = chk.bridge_json("search_C01.py", [str(chk.seed), str(n)], timeout=3000)
    if sdoc is None:
        chk.broken.append({"file": "search_C01.py", "item": "harness", "coqc_output": out[-1500:]})
        sdoc = {"evaluations": 0, "distinct": 0, "samples": [], "failures": [], "kinds": {}}
    chk.add_cases(sdoc["evaluations"] + len(cfg_of), sdoc["distinct"] + len(cfg_of), sdoc["samples"],
                  "(reaction, configuration) pairs: corpus reaction x alignment x scalar mass x stable ids x couplings x naming flags "
                  "x permuted topologies x dynamics x thinned helicity sets; every formulated model is a non-trivial case; distinct = distinct configurations")
    chk.cov["input_distribution"] = sdoc.get("kinds", {})
    failures = list(sdoc["failures"])
    # replay the Coq-rejected models through the SymPy check to get a concrete failing input
    for cfg in suspects[:20]:
        rc, rdoc, _ = chk.bridge_json("search_C01.py", ["--replay", "/dev/stdin"], payload={"replay": {"case": {"cfg": cfg}}})
        if rdoc and rdoc.get("still_fails"):
            for sig, what in rdoc["fails"]:
                failures.append({"signature": sig, "what": f"{cfg['reaction']}|{cfg['align']}: {what}", "case": {"cfg": cfg}})
    for f in failures:
        chk.violation(f["signature"] + ":" + f["case"]["cfg"]["reaction"], f["what"], {"case": f["case"], "search": "search_C01.py"}, True)
    if chk.broken and not failures:
        b = chk.broken[0]
        chk.violation("unproved:" + b["item"], f"{b['file']}:{b['item']} no longer checks",
                      {"theorem": b["item"], "file": b["file"], "coqc_output": b["coqc_output"]}, False)
    chk.assumptions += [
        "a custom lineshape builder must return an expression whose free symbols are its variable set plus the keys of the defaults it returns (negative control: C01_checker_rejects_open_model)",
        "ff-builders without angular momentum raise ValueError (documented rejection); such configurations are counted as rejected, not as cases",
    ]


def replay(path):
    return replay_with("search_C01.py", path)
