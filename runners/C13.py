"""C13 -- dynamics attach to the right decay with the right variables and defaults.

Flow: (1) compile coq/props/C13_lemmas.v + C13.v (theorems about the hand-written model
coq/theories/Selector.v); (2) T2 correspondence bridge/corr_C13.py: seeded assignment histories
on corpus reactions executed by the implementation and by vm_compute on the model, every
observable diffed; (3) property-level search bridge/search_C13.py with an oracle written from
the property text.  (2) and (3) always run; a disagreement is a failing input."""
import json
import os
import subprocess
import tempfile

import checklib

TRUSTED = [
    "coq/theories/Selector.v: hand-written Gallina model of DynamicsSelector/TwoBodyDecay.from_transition/"
    "get_invariant_mass_symbol/_generate_kinematic_variable_set/__formulate_dynamics and of the library builders' "
    "parameter tables -- tied to /repo by the correspondence run only (T2), not regenerated from the code",
    "bridge/lib_C13.py: serialisation of qrules transitions/particles to Gallina data (injective rendering of the "
    "attrs fields), parser of vm_compute output, SymPy structural equality of products and 30-digit evalf",
    "inputs taken from the implementation as data: the graphs returned by _perform_combinatorics, the order in which "
    "formulate() visits chains (group_by_spin_projection/group_by_topology) and Python's iteration order of topology.nodes",
    "per-chain expressions are read through the private __formulate_sequential_decay and cross-checked against the "
    "public model.amplitudes sums",
    "parameter identity = symbol name (harness builders create symbols with the library's assumptions)",
]

N_QUICK = (4, 3)       # histories per reaction: correspondence, search (11 reactions)
N_THOROUGH = (90, 50)


def _run(chk, script, n, label):
    rc, doc, out = chk.bridge_json(script, [str(chk.seed), str(n)], timeout=3000)
    if doc is None or "failures" not in doc:
        chk.broken.append({"file": script, "item": label, "coqc_output": out[-1500:]})
        return {"evaluations": 0, "distinct": 0, "samples": [], "failures": [], "kinds": {}}
    return doc


def run(chk):
    chk.assumptions += [
        "amplitude values form a commutative monoid (theorem dynamics_factor is stated for every such structure); "
        "Wigner-D/CG/coupling factors of a chain are abstract in the theorems and compared structurally+numerically by the harness",
        "equal_names_equal_defaults assumes particles with equal identifier (latex or name) have equal mass and width; "
        "the harness scans qrules.load_default_particles() for counterexamples and reports them in the notes",
        "helicity-angle symbols of the variable set are out of scope here (C07)",
    ]
    proofs_ok = chk.compile_chain([], ["C13_lemmas.v"], "C13.v", timeout=900)
    deep = chk.tier == "thorough" or not proofs_ok
    n_corr, n_search = N_THOROUGH if deep else N_QUICK
    corr = _run(chk, "corr_C13.py", n_corr, "model/implementation correspondence")
    for cmd in corr.get("checker_cmds", []):
        chk.checker_cmds.append(cmd)
    search = _run(chk, "search_C13.py", n_search, "property-level search")
    chk.add_cases(corr["evaluations"], corr["distinct"], corr["samples"],
                  "T2: seeded assignment histories (by name / Particle / TwoBodyDecay / (transition,node) / invalid "
                  "selections; library and marker builders with conflicting defaults; use_helicity_couplings on/off) on 11 "
                  "corpus reactions (3-body hel+can, 4-body with identical pi+): builder of EVERY decay after every step, "
                  "step outcome, per-chain ratio with/without dynamics vs predicted marker applications (structural, "
                  "numeric on a sample), parameter_defaults keys/values/order, warnings; evaluations = decay lookups + "
                  "chain ratios compared, distinct = histories")
    chk.add_cases(search["evaluations"], search["distinct"], search["samples"],
                  "search: same generator, oracle from the property text (own tree walk, last-wins, tabulated defaults)")
    chk.cov["input_distribution"] = {"correspondence": corr.get("kinds", {}), "correspondence_stats": corr.get("stats", {}),
                                     "search": search.get("kinds", {}), "search_stats": search.get("stats", {})}
    if "particle_table" in search:
        pt = search["particle_table"]
        chk.notes.append(
            "qrules particle table scan (forced hypothesis of equal_names_equal_defaults): %d particles, %d identifier "
            "collisions, %d with different mass/width: %s" % (
                pt["particles"], pt["identifier_collisions"], pt["collisions_with_different_mass_or_width"],
                json.dumps(pt["examples"])))
        chk.notes.append("identifier collision replayed on the code (two particles, one identifier, different mass): "
                         + json.dumps(search.get("collision_demo", {})))
    found = False
    for doc, script in ((corr, "corr_C13.py"), (search, "search_C13.py")):
        for f in doc["failures"]:
            has_input = not f.get("nocase")
            found = found or has_input
            chk.violation(f["signature"], f["what"], {"case": f["case"], "search": script}, has_input)
    if chk.broken and not found:
        b = chk.broken[0]
        chk.violation("unproved:" + b["item"], f"{b['file']}:{b['item']} no longer checks",
                      {"theorem": b["item"], "file": b["file"], "coqc_output": b["coqc_output"]}, False)


def replay(path):
    doc = json.load(open(path))
    if not doc.get("found_failing_input"):
        print("replay names a theorem/correspondence, not an input:", doc["replay"].get("theorem"))
        print("re-run the check itself to see whether it checks again")
        return 1
    ok, out = checklib.ensure_theories()
    script = doc["replay"].get("search", "search_C13.py")
    with tempfile.TemporaryDirectory() as tmp:
        p = subprocess.run([checklib.PY, os.path.join(checklib.VERIF, "bridge", script), "--replay",
                            os.path.abspath(path)],
                           env=checklib.bridge_env(0), capture_output=True, text=True, cwd=tmp)
    out = [l for l in p.stdout.splitlines() if l.startswith("{")]
    res = json.loads(out[-1]) if out else {"still_fails": True, "error": p.stderr[-500:]}
    print(json.dumps(res))
    if res.get("still_fails"):
        print(f"VIOLATION property={doc['property']} replay={path}")
        return 1
    return 0
