from runners.common import replay_with, standard_flow

TRUSTED = ["PDG Dalitz-limit formula as transcribed in coq/theories/PhspMath.v (s2lo/s2hi) and bridge/search_C20.py"]


def run(chk):
    chk.assumptions += [
        "numeric statements are about exact real values of the generated expressions (no floating point)",
        "crossed-channel regions are outside the statement, as in the property",
    ]
    standard_flow(chk, "symgen_C20.py", ["Gen_C20.v"], ["C20_lemmas.v"], "C20.v",
                  "search_C20.py", 90, 1500,
                  "exact-rational cases: Kallen triples, rest-frame events (sqrt-of-rational masses, some massless), "
                  "(sigma1,sigma2) box points vs PDG limits; distinct = distinct generated inputs that were evaluated")


def replay(path):
    return replay_with("search_C20.py", path)
