(* C01 — the closure checker, run inside Coq on the models regenerated from /repo in this run. *)
From AV Require Import Closure Closure_proofs.
From AVchk Require Import Gen_C01.
Open Scope string_scope.

Lemma gen_models_all_ok : forallb (fun nm => closure_ok (snd nm)) gen_models = true.
Proof. vm_compute. reflexivity. Qed.

Lemma gen_model_ok name m : In (name, m) gen_models -> closure_ok m = true.
Proof.
  intros H. exact (proj1 (forallb_forall _ _) gen_models_all_ok (name, m) H).
Qed.

Lemma gen_models_nonempty : (0 < length gen_models)%nat.
Proof. vm_compute. repeat constructor. Qed.

(* non-vacuity: the first regenerated model really has symbols of both kinds and amplitudes *)
Lemma gen_first_model_nontrivial :
  match gen_models with
  | (_, m) :: _ =>
      existsb (fun s => mem s (params m)) (syms (expression m))
      && existsb (fun s => mem s (map fst (kinvars m))) (syms (expression m))
      && existsb is_amp (syms (unfolded m))
  | [] => false
  end = true.
Proof. vm_compute. reflexivity. Qed.

(* negative control: a model built with a custom lineshape that uses a symbol without default
   is rejected, and the checker names the symbol *)
Lemma hole_model_rejected : closure_ok hole_model = false /\ undefined_or_double hole_model <> [].
Proof. split; vm_compute; [reflexivity|discriminate]. Qed.
