(* C15 — pickle round trip is the identity.
   Model of unpickling a SymPy tree: cls.__new__(cls, *x.__getnewargs__()) applied bottom-up
   (Uneval.rebuild); pickle's byte format, memoisation and by-reference pickling of classes/functions
   are runtime and not modelled (exercised by the harness on the real pickle). *)
From Coq Require Import String List ZArith QArith Bool.
From AV Require Import Uneval Uneval_proofs.
From AVchk Require Import ClassTable C15_lemmas.
Import ListNotations.
Open Scope string_scope.

Theorem table_well_formed : wf_table gen_table = true.
Proof. exact gen_wf. Qed.

(* constructor idempotence on its own arguments, every class of the table *)
Theorem new_idempotent : forall c ci es ats,
  lookup gen_table c = Some ci -> length es = nsym ci -> length ats = nattr ci ->
  new gen_table c (get_arguments gen_table Shallow (Unev c es ats)) = Unev c es ats.
Proof. exact l_new_idempotent. Qed.

(* Item 1: every tree over the table, any nesting, any attribute values *)
Theorem rebuild_id : forall e, wfi gen_table e = true -> rebuild gen_table Shallow e = e.
Proof. exact l_rebuild_id. Qed.

(* Item 2: a model rebuilt attribute-wise is equal, dictionaries entry by entry IN ORDER *)
Theorem rebuild_model_id : forall m, wf_model gen_table m = true -> rebuild_model gen_table Shallow m = m.
Proof. exact l_rebuild_model. Qed.

(* Item 3: with dataclasses.astuple as __getnewargs__ the round trip is not the identity *)
Theorem rebuild_Deep_refuted :
  wfi gen_table w_bz = true /\ rebuild gen_table Deep w_bz <> w_bz /\
  rebuild gen_table Deep w_bz = Unev cBZ [sy "b"; App "sympy.core.containers.Tuple" [sy "p0"]] [].
Proof. exact l_deep_refuted. Qed.

Theorem rebuild_Deep_refuted_norm :
  wfi gen_table w_en = true /\
  rebuild gen_table Deep w_en = Unev cEN [App "sympy.core.containers.Tuple" [sy "p"]] [].
Proof. exact l_deep_refuted2. Qed.

Example hypotheses_satisfiable :
  wfi gen_table w_edw = true /\ wf_model gen_table w_model = true /\
  expr_eqb (rebuild gen_table Shallow w_edw) w_edw = true.
Proof. exact ex_wf. Qed.

Print Assumptions table_well_formed.
Print Assumptions new_idempotent.
Print Assumptions rebuild_id.
Print Assumptions rebuild_model_id.
Print Assumptions rebuild_Deep_refuted.
Print Assumptions rebuild_Deep_refuted_norm.
Print Assumptions hypotheses_satisfiable.
