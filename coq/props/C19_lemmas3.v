(* C19 — builder side: the mass definitions HelicityAmplitudeBuilder.formulate() puts into DPD models
   (Gen_C19_dpd: regenerated from /repo over reactions x thinnings x reference subsystems x options). *)
From AV Require Import Ast.
From AVchk Require Import Gen_C19_dpd.
Open Scope string_scope.

Definition pname (d : nat) : string :=
  match d with 1%nat => "p1" | 2%nat => "p2" | 3%nat => "p3" | _ => "p?" end.
Definition momentum_symbol (d : nat) : expr := App (HOther "ArraySymbol") [Sym (pname d); App HTuple []].
(* the momenta named by a mass subscript: m_0 is the parent = all three final-state momenta *)
Definition named_ids (digits : list nat) : list nat :=
  match digits with [0%nat] => [1; 2; 3]%nat | _ => digits end.
Definition invariant_mass_of (ids : list nat) : expr :=
  App (HOther "InvariantMass") [App (HOther "ArraySum") (map momentum_symbol ids)].

Definition mass_def_ok (e : string * list nat * expr) : bool :=
  expr_eqb (snd e) (invariant_mass_of (named_ids (snd (fst e)))).
Definition mass_param_ok (e : string * list nat * Q * Q) : bool :=
  Q_eqb (snd (fst e)) (snd e)
  && match snd (fst (fst e)) with [_] | [1; 2; 3]%nat => true | _ => false end.

Lemma dpd_mass_defs_ok :
  Nat.ltb 0 (length dpd_mass_defs) = true /\ forallb mass_def_ok dpd_mass_defs = true.
Proof. split; [vm_compute; reflexivity | vm_compute; reflexivity]. Qed.

Lemma dpd_mass_params_ok :
  Nat.ltb 0 (length dpd_mass_params) = true /\ forallb mass_param_ok dpd_mass_params = true.
Proof. split; [vm_compute; reflexivity | vm_compute; reflexivity]. Qed.

(* readable form *)
Lemma dpd_mass_defs_spec : forall id digits t, In (id, digits, t) dpd_mass_defs ->
  t = invariant_mass_of (named_ids digits).
Proof.
  intros id digits t H. destruct dpd_mass_defs_ok as [_ F].
  rewrite forallb_forall in F. apply F in H. unfold mass_def_ok in H. cbn [fst snd] in H.
  now apply expr_eqb_eq.
Qed.
