(* C18_lemmas.v — corollaries of coq/theories/PoolSum_proofs.v in the form coq/props/C18.v states them. *)
From Coq Require Import String List ZArith Bool Arith Lia Reals Lra.
From AV Require Import PoolSum PoolSum_proofs.
Import ListNotations.
Open Scope string_scope.
Open Scope list_scope.

Lemma free_symbols_sound (A : alg) (r r' : string -> V A) e :
  wf e -> (forall s, In s (free_symbols e) -> r s = r' s) -> den r e = den r' e.
Proof.
  intros Hwf H. apply den_ext. intros s Hs. apply H. now apply free_symbols_fv.
Qed.

Lemma index_not_free b idx s : In s (names idx) -> ~ In s (free_symbols (PSum b idx)).
Proof. intros H Hin. apply free_symbols_PSum in Hin. tauto. Qed.

Lemma doit_is_sum_l (A : alg) (r : string -> V A) e :
  wf e -> den r (doit e) = den r e /\ psum_freeb (doit e) = true.
Proof.
  intros Hwf. split.
  - unfold doit. now apply doitF_den.
  - apply doitF_complete; auto.
Qed.

Lemma cleanup_if_used (A : alg) (r : string -> V A) b idx :
  wf (PSum b idx) -> (forall i, In i (names idx) -> In i (free_symbols b)) ->
  den r (cleanup (PSum b idx)) = den r (PSum b idx).
Proof.
  intros Hwf H. apply cleanup_den; auto. intros p Hp. left. apply H. unfold names. now apply in_map.
Qed.

(* the shadowed nest, read in any structure *)
Lemma shadow_value (A : alg) (r : string -> V A) :
  den r shadow_nest =
  vadd A (vadd A (vfun A "f" [vnum A 1 1]) (vadd A (vfun A "f" [vnum A 2 1]) (vzero A))) (vzero A).
Proof. reflexivity. Qed.

(* depth-3 nest: the loop of HelicityModel.expression leaves a PoolSum behind *)
Definition nest3 : expr :=
  PSum (PSum (PSum (Fn "f" [Sym "i"; Sym "j"; Sym "k"]) [("k", [Num 1 1; Num 2 1])])
             [("j", [Num 1 1; Num 2 1])])
       [("i", [Num 3 1; Num 4 1])].

Lemma nest3_incomplete : wf nest3 /\ psum_freeb (model_expression nest3) = false.
Proof. split; vm_compute; reflexivity. Qed.

(* the builder shape: PoolSum(h(PoolSum(f(l,lp)*g(lp), (lp, ..)))**2, (l, ..)), symbolic pool value *)
Definition builder_nest : expr :=
  PSum (Pow (Fn "h" [PSum (Mul [Fn "f" [Sym "l"; Sym "lp"]; Fn "g" [Sym "lp"]])
                          [("lp", [Num (-1) 2; Num 1 2])]]) (Num 2 1))
       [("l", [Num (-1) 1; Sym "a"; Num 1 1])].

Lemma builder_nest_ok :
  wf builder_nest /\ psum_freeb (model_expression builder_nest) = true.
Proof. split; vm_compute; reflexivity. Qed.

(* ------------------------------------------------------------------ *)
(* completeness of the unfolding loop on flat accumulators             *)
(* ------------------------------------------------------------------ *)
Lemma list_eqb_refl {X} (eqb : X -> X -> bool) l :
  Forall (fun x => eqb x x = true) l -> list_eqb eqb l l = true.
Proof. induction 1; cbn; auto. now rewrite H, IHForall. Qed.

Lemma expr_eqb_refl a : expr_eqb a a = true.
Proof.
  induction a using expr_ind2; cbn [expr_eqb].
  - apply String.eqb_refl.
  - now rewrite Z.eqb_refl, Pos.eqb_refl.
  - now apply list_eqb_refl.
  - now apply list_eqb_refl.
  - now rewrite IHa1, IHa2.
  - rewrite String.eqb_refl. now apply list_eqb_refl.
  - rewrite IHa. apply list_eqb_refl. eapply Forall_impl; [|exact H].
    intros [k vs] Hvs. cbn [fst snd] in *. rewrite String.eqb_refl. now apply list_eqb_refl.
Qed.

Lemma map_id_in {X} (f : X -> X) l : (forall x, In x l -> f x = x) -> map f l = l.
Proof. intros H. induction l; cbn; auto. rewrite H, IHl; cbn; auto. intros; apply H; cbn; auto. Qed.

Lemma xreplace_psum_free_id kb kidx v t :
  psum_freeb t = true -> xreplace [(PSum kb kidx, v)] t = t.
Proof.
  induction t using expr_ind2; cbn [psum_freeb]; intros Hp; try discriminate; cbn [xreplace lookup expr_eqb]; auto.
  - f_equal. apply map_id_in. rewrite forallb_forall in Hp. rewrite Forall_forall in H. auto.
  - f_equal. apply map_id_in. rewrite forallb_forall in Hp. rewrite Forall_forall in H. auto.
  - apply andb_true_iff in Hp as [H1 H2]. now rewrite IHt1, IHt2.
  - f_equal. apply map_id_in. rewrite forallb_forall in Hp. rewrite Forall_forall in H. auto.
Qed.

Lemma depth0_psum_free e : depth e = 0 -> psum_freeb e = true.
Proof.
  induction e using expr_ind2; cbn [depth psum_freeb]; intros Hd; auto; try discriminate.
  - apply forallb_forall. intros x Hx. rewrite Forall_forall in H. apply H; auto.
    assert (depth x <= lmax (map depth l)) by (apply lmax_ge, in_map; auto). lia.
  - apply forallb_forall. intros x Hx. rewrite Forall_forall in H. apply H; auto.
    assert (depth x <= lmax (map depth l)) by (apply lmax_ge, in_map; auto). lia.
  - rewrite IHe1, IHe2; auto; lia.
  - apply forallb_forall. intros x Hx. rewrite Forall_forall in H. apply H; auto.
    assert (depth x <= lmax (map depth l)) by (apply lmax_ge, in_map; auto). lia.
Qed.

Lemma flat_map_all_nil {X Y} (f : X -> list Y) l : (forall x, In x l -> f x = []) -> flat_map f l = [].
Proof.
  induction l; cbn; intros H; auto. rewrite (H a) by auto. rewrite IHl; auto.
Qed.

Lemma psum_free_nodes e : psum_freeb e = true -> psum_nodes e = [].
Proof.
  induction e using expr_ind2; cbn [psum_freeb psum_nodes]; intros Hp; auto; try discriminate.
  - rewrite forallb_forall in Hp. rewrite Forall_forall in H. apply flat_map_all_nil. auto.
  - rewrite forallb_forall in Hp. rewrite Forall_forall in H. apply flat_map_all_nil. auto.
  - apply andb_true_iff in Hp as [H1 H2]. now rewrite IHe1, IHe2.
  - rewrite forallb_forall in Hp. rewrite Forall_forall in H. apply flat_map_all_nil. auto.
Qed.

Lemma flat_map_nil {X Y} (f : X -> list Y) l : flat_map f l = [] -> forall x, In x l -> f x = [].
Proof.
  induction l; cbn; intros E x Hx; [tauto|]. apply app_eq_nil in E as [E1 E2].
  destruct Hx as [<-|Hx]; auto.
Qed.

Lemma nodes_nil_psum_free e : psum_nodes e = [] -> psum_freeb e = true.
Proof.
  induction e using expr_ind2; cbn [psum_freeb psum_nodes]; intros Hn; auto.
  - apply forallb_forall. intros x Hx. rewrite Forall_forall in H. apply H; auto.
    eapply flat_map_nil in Hn; eauto.
  - apply forallb_forall. intros x Hx. rewrite Forall_forall in H. apply H; auto.
    eapply flat_map_nil in Hn; eauto.
  - apply app_eq_nil in Hn as [H1 H2]. now rewrite IHe1, IHe2.
  - apply forallb_forall. intros x Hx. rewrite Forall_forall in H. apply H; auto.
    eapply flat_map_nil in Hn; eauto.
  - apply app_eq_nil in Hn as [_ Hn]. apply app_eq_nil in Hn as [_ Hn]. discriminate.
Qed.

Lemma psum_parts_free b idx :
  depth (PSum b idx) <= 1 ->
  psum_freeb b = true /\ forall p v, In p idx -> In v (snd p) -> psum_freeb v = true.
Proof.
  cbn [depth]. intros Hd. split.
  - apply depth0_psum_free. lia.
  - intros p v Hp Hv. apply depth0_psum_free.
    assert (lmax (map depth (snd p)) <= lmax (map (fun p => lmax (map depth (snd p))) idx)).
    { apply lmax_ge. apply in_map_iff. eauto. }
    assert (depth v <= lmax (map depth (snd p))) by (apply lmax_ge, in_map; auto). lia.
Qed.

Lemma flat_PSum_nodes b idx : depth (PSum b idx) <= 1 -> psum_nodes (PSum b idx) = [PSum b idx].
Proof.
  intros Hd. destruct (psum_parts_free _ _ Hd) as [Hb Hv]. cbn [psum_nodes].
  rewrite psum_free_nodes by auto. cbn [app].
  rewrite flat_map_all_nil; auto.
  intros p Hp. apply flat_map_all_nil. intros v Hv'. apply psum_free_nodes. eauto.
Qed.


(* one step of the loop on a flat accumulator *)
Lemma xreplace_flat_step kb kidx v acc :
  psum_freeb v = true -> depth acc <= 1 ->
  depth (xreplace [(PSum kb kidx, v)] acc) <= 1 /\ forall n, In n (psum_nodes (xreplace [(PSum kb kidx, v)] acc)) ->
            In n (psum_nodes acc) /\ n <> PSum kb kidx.
Proof.
  intros Pv. set (k := PSum kb kidx).
  induction acc using expr_ind2; intros Hd.
  - cbn. split; [lia|tauto].
  - cbn. split; [lia|tauto].
  - cbn [xreplace lookup expr_eqb k]. cbn [depth psum_nodes] in *. rewrite Forall_forall in H.
    assert (Hx : forall x, In x l -> depth x <= 1).
    { intros x Hx. assert (depth x <= lmax (map depth l)) by (apply lmax_ge, in_map; auto). lia. }
    split.
    + apply lmax_le. intros d Hin. apply in_map_iff in Hin as [y [<- Hy]].
      apply in_map_iff in Hy as [x [<- Hxl]]. apply H; auto.
    + intros n Hn. apply in_flat_map in Hn as [y [Hy Hn]]. apply in_map_iff in Hy as [x [<- Hxl]].
      destruct (H x Hxl (Hx x Hxl)) as [_ Hq]. destruct (Hq n Hn). split; auto.
      apply in_flat_map. eauto.
  - cbn [xreplace lookup expr_eqb k]. cbn [depth psum_nodes] in *. rewrite Forall_forall in H.
    assert (Hx : forall x, In x l -> depth x <= 1).
    { intros x Hx. assert (depth x <= lmax (map depth l)) by (apply lmax_ge, in_map; auto). lia. }
    split.
    + apply lmax_le. intros d Hin. apply in_map_iff in Hin as [y [<- Hy]].
      apply in_map_iff in Hy as [x [<- Hxl]]. apply H; auto.
    + intros n Hn. apply in_flat_map in Hn as [y [Hy Hn]]. apply in_map_iff in Hy as [x [<- Hxl]].
      destruct (H x Hxl (Hx x Hxl)) as [_ Hq]. destruct (Hq n Hn). split; auto.
      apply in_flat_map. eauto.
  - cbn [xreplace lookup expr_eqb k]. cbn [depth psum_nodes] in *.
    destruct IHacc1 as [D1 N1]; [lia|]. destruct IHacc2 as [D2 N2]; [lia|]. split; [lia|].
    intros n Hn. apply in_app_or in Hn as [Hn|Hn]; [destruct (N1 n Hn)|destruct (N2 n Hn)];
      split; auto; apply in_or_app; auto.
  - cbn [xreplace lookup expr_eqb k]. cbn [depth psum_nodes] in *. rewrite Forall_forall in H.
    assert (Hx : forall x, In x l -> depth x <= 1).
    { intros x Hx. assert (depth x <= lmax (map depth l)) by (apply lmax_ge, in_map; auto). lia. }
    split.
    + apply lmax_le. intros d Hin. apply in_map_iff in Hin as [y [<- Hy]].
      apply in_map_iff in Hy as [x [<- Hxl]]. apply H; auto.
    + intros n Hn. apply in_flat_map in Hn as [y [Hy Hn]]. apply in_map_iff in Hy as [x [<- Hxl]].
      destruct (H x Hxl (Hx x Hxl)) as [_ Hq]. destruct (Hq n Hn). split; auto.
      apply in_flat_map. eauto.
  - destruct (psum_parts_free _ _ Hd) as [Hb Hv]. subst k. rewrite xreplace_PSum. cbn [lookup].
    destruct (expr_eqb (PSum acc idx) (PSum kb kidx)) eqn:E.
    + rewrite psum_free_depth, psum_free_nodes by auto. split; [lia|]. intros n [].
    + cbv zeta. cbn [filter key_not_bound fst].
      rewrite xreplace_psum_free_id by auto.
      replace (map (fun p => (fst p, map (xreplace [(PSum kb kidx, v)]) (snd p))) idx) with idx.
      * split; auto. intros n Hn. split; auto. rewrite flat_PSum_nodes in Hn by auto.
        destruct Hn as [<-|[]]. intros Heq. rewrite Heq, expr_eqb_refl in E. discriminate.
      * symmetry. apply map_id_in. intros [i vs] Hp. cbn [fst snd]. f_equal.
        apply map_id_in. intros y Hy. apply xreplace_psum_free_id. eapply Hv; eauto.
Qed.

Lemma psum_free_subs_seq sg : forall e,
  psum_freeb e = true -> (forall k v, In (k, v) sg -> psum_freeb v = true) ->
  psum_freeb (subs_seq sg e) = true.
Proof.
  induction sg as [|[x v] t IH]; intros e He H; auto. rewrite subs_seq_cons. apply IH.
  - apply psum_free_subs1; auto. eapply H; cbn; eauto.
  - intros; eapply H; cbn; eauto.
Qed.

Lemma evaluate_flat_free b idx :
  wf (PSum b idx) -> depth (PSum b idx) <= 1 -> psum_freeb (evaluate (PSum b idx)) = true.
Proof.
  intros Hwf Hd. apply wf_PSum in Hwf as [Wb [Nd Hp]].
  destruct (psum_parts_free _ _ Hd) as [Hb Hv].
  cbn [evaluate]. rewrite dict_of_nodup by auto. cbn [psum_freeb]. apply forallb_forall.
  intros y Hy. apply in_map_iff in Hy as [c [<- Hc]]. apply psum_free_subs_seq; auto.
  intros k v Hkv. apply in_combine_names in Hkv as [_ Hvc].
  destruct (product_elem _ _ _ Hc Hvc) as [pl [Hpl Hin]]. unfold pools in Hpl.
  apply in_map_iff in Hpl as [p [<- Hpi]]. eauto.
Qed.

Lemma psum_nodes_depth e : forall nd, In nd (psum_nodes e) -> depth nd <= depth e.
Proof.
  induction e using expr_ind2; cbn [psum_nodes depth]; intros nd Hn; try (now destruct Hn).
  - apply in_flat_map in Hn as [x [Hx Hn]]. rewrite Forall_forall in H. specialize (H x Hx nd Hn).
    assert (depth x <= lmax (map depth l)) by (apply lmax_ge, in_map; auto). lia.
  - apply in_flat_map in Hn as [x [Hx Hn]]. rewrite Forall_forall in H. specialize (H x Hx nd Hn).
    assert (depth x <= lmax (map depth l)) by (apply lmax_ge, in_map; auto). lia.
  - apply in_app_or in Hn as [Hn|Hn]; [specialize (IHe1 nd Hn)|specialize (IHe2 nd Hn)]; lia.
  - apply in_flat_map in Hn as [x [Hx Hn]]. rewrite Forall_forall in H. specialize (H x Hx nd Hn).
    assert (depth x <= lmax (map depth l)) by (apply lmax_ge, in_map; auto). lia.
  - apply in_app_or in Hn as [Hn|Hn]; [specialize (IHe nd Hn); lia|].
    apply in_app_or in Hn as [Hn|Hn].
    + apply in_flat_map in Hn as [p [Hp Hn]]. apply in_flat_map in Hn as [v [Hv Hn]].
      rewrite Forall_forall in H. specialize (H p Hp). rewrite Forall_forall in H.
      specialize (H v Hv nd Hn).
      assert (lmax (map depth (snd p)) <= lmax (map (fun p => lmax (map depth (snd p))) idx)).
      { apply lmax_ge. apply in_map_iff. eauto. }
      assert (depth v <= lmax (map depth (snd p))) by (apply lmax_ge, in_map; auto). lia.
    + destruct Hn as [<-|[]]. cbn [depth]. lia.
Qed.

Lemma fold_flat ns : forall acc,
  depth acc <= 1 ->
  (forall n, In n ns -> wf n /\ depth n <= 1 /\ exists b idx, n = PSum b idx) ->
  (forall n, In n (psum_nodes acc) -> In n ns) ->
  psum_nodes (fold_left (fun a node => xreplace [(node, evaluate node)] a) ns acc) = [].
Proof.
  induction ns as [|k t IH]; intros acc Hd Hns Hsub.
  - cbn. destruct (psum_nodes acc) as [|n r] eqn:E; auto. exfalso. apply (Hsub n). cbn; auto.
  - cbn [fold_left]. destruct (Hns k (or_introl eq_refl)) as [Wk [Dk [b [idx ->]]]].
    destruct (xreplace_flat_step b idx (evaluate (PSum b idx)) acc) as [D' N'];
      [apply evaluate_flat_free; auto | auto |].
    apply IH; auto.
    + intros; apply Hns; cbn; auto.
    + intros n Hn. destruct (N' n Hn) as [Hin Hne]. destruct (Hsub n Hin) as [<-|H]; [congruence|auto].
Qed.

Theorem unfold_flat_complete e : wf e -> depth e <= 1 -> psum_freeb (unfold_poolsums e) = true.
Proof.
  intros Hwf Hd. apply nodes_nil_psum_free. unfold unfold_poolsums. apply fold_flat; auto.
  intros n Hn. destruct (psum_nodes_wf e Hwf n Hn) as [Wn Hex]. repeat split; auto.
  pose proof (psum_nodes_depth e n Hn). lia.
Qed.

(* HelicityModel.expression leaves no PoolSum when the intensity nests PoolSums at most 2 deep
   (the shape the builders produce: PoolSum(|sum_t PoolSum(..)|^2, ..)) *)
Theorem model_expression_complete b idx :
  wf (PSum b idx) -> depth (PSum b idx) <= 2 -> psum_freeb (model_expression (PSum b idx)) = true.
Proof.
  intros Hwf Hd. unfold model_expression. apply unfold_flat_complete.
  - now apply wf_evaluate.
  - pose proof (depth_evaluate _ _ Hwf). cbn [depth] in Hd. lia.
Qed.

(* ------------------------------------------------------------------ *)
(* a symbol that is free at one level and bound in a nested sum        *)
(* ------------------------------------------------------------------ *)
Definition free_here_bound_deeper : expr :=
  PSum (Mul [Sym "j"; PSum (Add [Mul [Sym "x"; Sym "i"]; Sym "j"]) [("j", [Num 1 1; Num 2 1])]])
       [("i", [Num 3 1; Num 4 1])].

Lemma free_here_bound_deeper_ok :
  wf free_here_bound_deeper /\
  subs1 "j" (Num 7 1) free_here_bound_deeper =
    PSum (Mul [Num 7 1; PSum (Add [Mul [Sym "x"; Sym "i"]; Sym "j"]) [("j", [Num 1 1; Num 2 1])]])
         [("i", [Num 3 1; Num 4 1])] /\
  forall (A : alg) (r : string -> V A),
    den r (doit (subs1 "j" (Num 7 1) free_here_bound_deeper)) =
    den (upd r "j" (vnum A 7 1)) free_here_bound_deeper.
Proof.
  split; [reflexivity|]. split; [reflexivity|]. intros A r.
  destruct (subs_doit_commute A r "j" (Num 7 1) free_here_bound_deeper) as [E1 E2];
    [reflexivity|reflexivity|intros s []|].
  rewrite E1. exact E2.
Qed.

(* depth 3: the outer index is used at depth 2 and re-bound at depth 3 *)
Definition depth3_rebound : expr :=
  PSum (PSum (Mul [Add [Mul [Sym "i"; Sym "j"]; Sym "x"];
                   PSum (Mul [Sym "i"; Sym "y"]) [("i", [Num 1 1; Num 2 1])]])
             [("j", [Num 1 1; Num 1 2])])
       [("i", [Num 10 1; Num 20 1])].

Lemma depth3_rebound_ok :
  wf depth3_rebound /\ psum_freeb (doit depth3_rebound) = true /\
  mem "i" (free_symbols (doit depth3_rebound)) = false /\
  mem "j" (free_symbols (doit depth3_rebound)) = false.
Proof. repeat split; vm_compute; reflexivity. Qed.

(* ------------------------------------------------------------------ *)
(* the pools are LISTS: a repeated value is summed over twice           *)
(* ------------------------------------------------------------------ *)
Definition repeated_value : expr := PSum (Pow (Sym "x") (Sym "i")) [("i", [Num 1 1; Num 1 1])].

Lemma repeated_value_ok :
  wf repeated_value /\
  evaluate repeated_value = Add [Pow (Sym "x") (Num 1 1); Pow (Sym "x") (Num 1 1)] /\
  forall (A : alg) (r : string -> V A),
    den r repeated_value =
    vadd A (vpow A (r "x") (vnum A 1 1)) (vadd A (vpow A (r "x") (vnum A 1 1)) (vzero A)).
Proof. repeat split; reflexivity. Qed.

(* pool values that a substitution makes coincide still count separately *)
Definition merged_values : expr := PSum (Pow (Sym "x") (Sym "i")) [("i", [Sym "a"; Sym "b"])].

Lemma merged_values_ok :
  wf merged_values /\
  subs1 "a" (Sym "b") merged_values = PSum (Pow (Sym "x") (Sym "i")) [("i", [Sym "b"; Sym "b"])] /\
  doit (subs1 "a" (Sym "b") merged_values) = Add [Pow (Sym "x") (Sym "b"); Pow (Sym "x") (Sym "b")].
Proof. repeat split; reflexivity. Qed.

(* cleanup looks at the ORIGINAL summand: x*i*j + y with i in (0,), j in (1,2,3) keeps the sum over j *)
Definition cancel_case : expr :=
  PSum (Add [Mul [Sym "x"; Sym "i"; Sym "j"]; Sym "y"])
       [("i", [Num 0 1]); ("j", [Num 1 1; Num 2 1; Num 3 1])].

Lemma cancel_case_ok :
  wf cancel_case /\
  cleanup cancel_case =
    PSum (Add [Mul [Sym "x"; Num 0 1; Sym "j"]; Sym "y"]) [("j", [Num 1 1; Num 2 1; Num 3 1])] /\
  forall (A : alg) (r : string -> V A), den r (cleanup cancel_case) = den r cancel_case.
Proof.
  split; [reflexivity|]. split; [reflexivity|]. intros A r.
  apply cleanup_den; [reflexivity|].
  intros p [<-|[<-|[]]]; left; cbn; tauto.
Qed.
