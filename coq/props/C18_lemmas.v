(* C18_lemmas.v — corollaries of coq/theories/PoolSum_proofs.v in the form coq/props/C18.v states them. *)
From Coq Require Import String List ZArith Bool Arith Lia Reals Lra.
From AV Require Import PoolSum PoolSum_proofs.
Import ListNotations.
Open Scope string_scope.
Open Scope list_scope.

Lemma free_symbols_sound (A : alg) (r r' : string -> V A) e :
  wf e -> (forall s, In s (free_symbols e) -> r s = r' s) -> den r e = den r' e.
Proof.
  intros Hwf H. apply den_ext. intros s Hs. apply H. now apply free_symbols_fv.
Qed.

Lemma index_not_free b idx s : In s (names idx) -> ~ In s (free_symbols (PSum b idx)).
Proof. intros H Hin. apply free_symbols_PSum in Hin. tauto. Qed.

Lemma doit_is_sum_l (A : alg) (r : string -> V A) e :
  wf e -> den r (doit e) = den r e /\ psum_freeb (doit e) = true.
Proof.
  intros Hwf. split.
  - unfold doit. now apply doitF_den.
  - apply doitF_complete; auto.
Qed.

Lemma cleanup_if_used (A : alg) (r : string -> V A) b idx :
  wf (PSum b idx) -> (forall i, In i (names idx) -> In i (free_symbols b)) ->
  den r (cleanup (PSum b idx)) = den r (PSum b idx).
Proof.
  intros Hwf H. apply cleanup_den; auto. intros p Hp. left. apply H. unfold names. now apply in_map.
Qed.

(* the shadowed nest, read in any structure *)
Lemma shadow_value (A : alg) (r : string -> V A) :
  den r shadow_nest =
  vadd A (vadd A (vfun A "f" [vnum A 1 1]) (vadd A (vfun A "f" [vnum A 2 1]) (vzero A))) (vzero A).
Proof. reflexivity. Qed.

(* depth-3 nest: the loop of HelicityModel.expression leaves a PoolSum behind *)
Definition nest3 : expr :=
  PSum (PSum (PSum (Fn "f" [Sym "i"; Sym "j"; Sym "k"]) [("k", [Num 1 1; Num 2 1])])
             [("j", [Num 1 1; Num 2 1])])
       [("i", [Num 3 1; Num 4 1])].

Lemma nest3_incomplete : wf nest3 /\ psum_freeb (model_expression nest3) = false.
Proof. split; vm_compute; reflexivity. Qed.

(* the builder shape: PoolSum(h(PoolSum(f(l,lp)*g(lp), (lp, ..)))**2, (l, ..)), symbolic pool value *)
Definition builder_nest : expr :=
  PSum (Pow (Fn "h" [PSum (Mul [Fn "f" [Sym "l"; Sym "lp"]; Fn "g" [Sym "lp"]])
                          [("lp", [Num (-1) 2; Num 1 2])]]) (Num 2 1))
       [("l", [Num (-1) 1; Sym "a"; Num 1 1])].

Lemma builder_nest_ok :
  wf builder_nest /\ psum_freeb (model_expression builder_nest) = true.
Proof. split; vm_compute; reflexivity. Qed.
