(* C06 — formulate() is a pure function of (reaction, configuration).
   Statements only; proofs are in coq/theories/Purity_proofs.v and C06_lemmas.v.
   The model (coq/theories/Purity.v) is a state-leakage model: what is computed from
   (reaction, configuration) is universally quantified ("pure pieces"), the theorems are
   about which state a history of operations can leak into a formulate() call.

   [observed] (build/C06/Skel_C06.v) is the skeleton extracted from the RUNNING
   implementation in this run.

   Clause of the property            theorem
   - twice / after any history /     C06_formulate_pure, C06_formulate_pure_current
     other builders                  (all op lists, any number of builders)
   - memo tables                     C06_memo_transparent
   - dictionary order                C06_order_canonical*, and inside C06_formulate_pure the
                                     set-iteration order of HelicityAdapter is arbitrary
   - pre-fix tree                    C06_formulate_pure_refuted_pinned
   - any hash seed / fresh process   PARTIAL: only the HelicityAdapter set order is in the
                                     model (op [Formulate b order]); iteration order of other
                                     Python sets in the call tree and process start-up state are
                                     exercised by the multi-seed fresh-process correspondence run,
                                     not proved. *)
From Coq Require Import List Bool Arith Permutation.
From AV Require Import Purity Purity_proofs.
From AVchk Require Import Skel_C06 C06_lemmas.
Import ListNotations.

(* 1. A memo table whose stored objects are never written after insertion is observationally
      the function it memoises: after ANY history, every entry still holds the pure value and
      define_symbols hands out (an object whose content is) align_syms r a. *)
Theorem C06_memo_transparent :
  forall (val ntab : Type) default_flags base_topos perms_of decays_of (register : nat -> flags -> ntab)
         (top : nat -> config -> ntab -> val * list (nat * val) * list (nat * val) * list (nat * val))
         topo_vars moves align_syms xrepl new_masses loop_pars (sk : skeleton) (ops : list op),
  no_write_through_memo sk = true ->
  let w := fst (run default_flags base_topos perms_of decays_of register top topo_vars moves align_syms
                    xrepl new_masses loop_pars sk (init val ntab) ops) in
  (forall r a addr, mlookup (w_memo w) r a = Some addr -> hget (w_heap w) addr = align_syms r a)
  /\ (forall r a memo' heap' obj alias,
        define_symbols align_syms sk (w_memo w) (w_heap w) r a = (memo', heap', obj, alias) ->
        obj = align_syms r a).
Proof. exact memo_transparent_thm. Qed.

(* 2. For every history from the initial world (any builders, any interleaving, any
      set-iteration orders) every Formulate returns formulate_spec (reaction b) (config_at b),
      for every choice of the pure pieces such that xreplace looks its mapping up by key and
      equal symbols have equal definitions across topologies (C07). *)
Theorem C06_formulate_pure :
  forall (val ntab : Type) default_flags base_topos perms_of decays_of (register : nat -> flags -> ntab)
         (top : nat -> config -> ntab -> val * list (nat * val) * list (nat * val) * list (nat * val))
         topo_vars moves align_syms (xrepl : (nat -> option val) -> val -> val) new_masses loop_pars,
  (forall f g e, (forall k, f k = g k) -> xrepl f e = xrepl g e) ->
  (forall r t1 t2 k v1 v2,
     dlast Nat.eqb (topo_vars r t1) k = Some v1 ->
     dlast Nat.eqb (topo_vars r t2) k = Some v2 -> v1 = v2) ->
  forall (sk : skeleton) (ops : list op),
  well_behaved sk = true ->
  Forall (fun x : nat * config * model val =>
            snd x = formulate_spec register top topo_vars moves align_syms xrepl new_masses
                                   loop_pars (fst (fst x)) (snd (fst x)))
         (snd (run default_flags base_topos perms_of decays_of register top topo_vars moves align_syms
                   xrepl new_masses loop_pars sk (init val ntab) ops)).
Proof. exact formulate_pure_thm. Qed.

(* 2'. ... in particular for the skeleton observed on the current /repo in this run. *)
Theorem C06_formulate_pure_current :
  forall (val ntab : Type) default_flags base_topos perms_of decays_of (register : nat -> flags -> ntab)
         (top : nat -> config -> ntab -> val * list (nat * val) * list (nat * val) * list (nat * val))
         topo_vars moves align_syms (xrepl : (nat -> option val) -> val -> val) new_masses loop_pars,
  (forall f g e, (forall k, f k = g k) -> xrepl f e = xrepl g e) ->
  (forall r t1 t2 k v1 v2,
     dlast Nat.eqb (topo_vars r t1) k = Some v1 ->
     dlast Nat.eqb (topo_vars r t2) k = Some v2 -> v1 = v2) ->
  forall ops : list op,
  Forall (fun x : nat * config * model val =>
            snd x = formulate_spec register top topo_vars moves align_syms xrepl new_masses
                                   loop_pars (fst (fst x)) (snd (fst x)))
         (snd (run default_flags base_topos perms_of decays_of register top topo_vars moves align_syms
                   xrepl new_masses loop_pars observed (init val ntab) ops)).
Proof. intros. apply formulate_pure_thm; [assumption|assumption|exact observed_well_behaved]. Qed.

(* the observed facts behind 2': no memoised value of any functools.cache/lru_cache in the
   package was written after insertion or differs from a recomputation *)
Theorem C06_observed_skeleton_ok :
  well_behaved observed = true /\ no_write_through_memo observed = true
  /\ memo_written_after_insertion = false /\ memo_stale_on_recompute = false.
Proof.
  split; [exact observed_well_behaved|]. split; [exact observed_no_write_through_memo|].
  exact observed_memo_values_stable.
Qed.

(* the Forall of 2 is not vacuous: a Formulate on an existing builder always logs that
   builder's current reaction and configuration together with a model *)
Theorem C06_formulate_logged :
  forall (val ntab : Type) default_flags base_topos perms_of decays_of (register : nat -> flags -> ntab)
         (top : nat -> config -> ntab -> val * list (nat * val) * list (nat * val) * list (nat * val))
         topo_vars moves align_syms xrepl new_masses loop_pars (sk : skeleton)
         (w : world val ntab) b order B,
  nth_error (w_builders w) b = Some B ->
  exists m, snd (step default_flags base_topos perms_of decays_of register top topo_vars moves align_syms
                      xrepl new_masses loop_pars sk w (Formulate b order))
            = Some (b_reaction B, b_config B, m).
Proof. exact formulate_logs. Qed.

(* 3. The sorting converters make the output dictionaries a function of the lookup function
      of their input (so insertion order cannot leak when equal keys carry equal values).
      The natural-sort order is any strict total order on keys. *)
Theorem C06_order_canonical :
  forall (K V : Type) (keqb : K -> K -> bool),
  (forall a b, reflect (a = b) (keqb a b)) ->
  forall kltb : K -> K -> bool,
  (forall a, kltb a a = false) ->
  (forall a b c, kltb a b = true -> kltb b c = true -> kltb a c = true) ->
  (forall a b, a = b \/ kltb a b = true \/ kltb b a = true) ->
  forall d1 d2 : list (K * V),
  (forall k, dget keqb d1 k = dget keqb d2 k) -> canon keqb kltb d1 = canon keqb kltb d2.
Proof. exact canon_ext. Qed.

Theorem C06_order_canonical_permutation :
  forall (K V : Type) (keqb : K -> K -> bool),
  (forall a b, reflect (a = b) (keqb a b)) ->
  forall kltb : K -> K -> bool,
  (forall a, kltb a a = false) ->
  (forall a b c, kltb a b = true -> kltb b c = true -> kltb a c = true) ->
  (forall a b, a = b \/ kltb a b = true \/ kltb b a = true) ->
  forall d1 d2 : list (K * V),
  Permutation d1 d2 -> NoDup (map fst d1) -> canon keqb kltb d1 = canon keqb kltb d2.
Proof. exact canon_perm. Qed.

(* canon really is a sort: strictly increasing keys, same entries *)
Theorem C06_canon_sorts :
  forall (K V : Type) (keqb : K -> K -> bool),
  (forall a b, reflect (a = b) (keqb a b)) ->
  forall kltb : K -> K -> bool,
  (forall a, kltb a a = false) ->
  (forall a b c, kltb a b = true -> kltb b c = true -> kltb a c = true) ->
  (forall a b, a = b \/ kltb a b = true \/ kltb b a = true) ->
  forall d : list (K * V),
  ssorted kltb (canon keqb kltb d) /\ forall k, dget keqb (canon keqb kltb d) k = dget keqb d k.
Proof. intros. split; [apply canon_sorted|intros; apply canon_get]; auto. Qed.

(* 4. With the pre-fix skeleton (define_symbols returns the memoised dict) purity FAILS,
      although every other hypothesis of 2 holds: DPD model without, then with
      stable_final_state_ids; the second model's zeta definition has lost m_1, m_2. *)
Theorem C06_formulate_pure_refuted_pinned :
  (forall (f g : nat -> option Toy.tval) e, (forall k, f k = g k) -> Toy.t_xrepl f e = Toy.t_xrepl g e)
  /\ (forall r t1 t2 k (v1 v2 : Toy.tval),
        dlast Nat.eqb (Toy.t_topo_vars r t1) k = Some v1 ->
        dlast Nat.eqb (Toy.t_topo_vars r t2) k = Some v2 -> v1 = v2)
  /\ sk_resets Toy.sk_pinned = true /\ sk_reregisters Toy.sk_pinned = true
  /\ exists ops r c m,
       nth_error (snd (Toy.t_run bt2 po3 dk2 Toy.sk_pinned (init Toy.tval (list nat)) ops)) 1
         = Some (r, c, m)
       /\ m <> Toy.t_spec r c
       /\ dget Nat.eqb (m_kin m) 51 = Some [101; 102; 100]
       /\ dget Nat.eqb (m_kin (Toy.t_spec r c)) 51 = Some [1; 2; 100].
Proof. exact refuted_pinned. Qed.

Theorem C06_refuted_pinned_two_builders : exists r c m,
  nth_error (snd (Toy.t_run bt2 po3 dk2 Toy.sk_pinned (init Toy.tval (list nat)) witness_ops2)) 1
    = Some (r, c, m) /\ m <> Toy.t_spec r c.
Proof. exact refuted_two_builders. Qed.

(* the other two skeleton fields matter as well *)
Theorem C06_refuted_without_reset : exists ops r c m,
  nth_error (snd (Toy.t_run bt2 po3 dk2 sk_noreset (init Toy.tval (list nat)) ops)) 1 = Some (r, c, m)
  /\ m <> Toy.t_spec r c.
Proof. exact refuted_noreset. Qed.
Theorem C06_refuted_without_reregistration : exists ops r c m,
  nth_error (snd (Toy.t_run bt2 po3 dk2 sk_noreregister (init Toy.tval (list nat)) ops)) 0 = Some (r, c, m)
  /\ m <> Toy.t_spec r c.
Proof. exact refuted_noreregister. Qed.

(* ---- non-vacuity ---- *)
(* the hypotheses of 2 are satisfiable (toy instance), on the witness histories the fixed
   skeleton gives the specification, and the histories do formulate twice *)
Example C06_ex_toy_pure : forall sk ops, well_behaved sk = true ->
  Forall (fun x => snd x = Toy.t_spec (fst (fst x)) (snd (fst x)))
         (snd (Toy.t_run bt2 po3 dk2 sk (init Toy.tval (list nat)) ops)).
Proof. exact toy_pure_all. Qed.
Example C06_ex_witness_fixed :
  Toy.t_show bt2 po3 dk2 Toy.sk_fixed witness_ops
  = [([0; 11; 0; 0; 0; 0; 0; 1; 0; 0; 2; 0; 1], true);
     ([0; 11; 0; 1; 2; 1; 2; 0; 0; 1; 0; 0; 2; 0; 1], true)]
  /\ map snd (Toy.t_show bt2 po3 dk2 Toy.sk_pinned witness_ops) = [true; false]
  /\ map snd (Toy.t_show bt2 po3 dk2 Toy.sk_fixed witness_ops2) = [true; true]
  /\ map snd (Toy.t_show bt2 po3 dk2 Toy.sk_pinned witness_ops2) = [true; false].
Proof. repeat split; vm_compute; reflexivity. Qed.
(* set-iteration order matters before the sort and not after it *)
Example C06_ex_order :
  create Toy.t_topo_vars 0 [0; 1] <> create Toy.t_topo_vars 0 [1; 0]
  /\ Toy.t_show bt2 po3 dk2 Toy.sk_fixed [NewBuilder 0; Formulate 0 [0; 1]; Formulate 0 [1; 0]]
     = [([0; 0; 0; 0; 0; 0; 0; 1; 0; 0; 2; 0; 1], true); ([0; 0; 0; 0; 0; 0; 0; 1; 0; 0; 2; 0; 1], true)].
Proof.
  split; [intro H; vm_compute in H; discriminate|]. vm_compute; reflexivity.
Qed.
(* assigning dynamics by resonance name is the same configuration as assigning it node by node
   (either by-node overload), whatever the order *)
Example C06_ex_assign_overloads_final :
  nth_error (map fst (Toy.t_show bt2 po3 dk2 Toy.sk_fixed
               [NewBuilder 0; AssignDecay 0 3 7; Formulate 0 []; AssignDecay 0 3 5; AssignDecay 0 2 5; Formulate 0 []])) 1
  = nth_error (map fst (Toy.t_show bt2 po3 dk2 Toy.sk_fixed [NewBuilder 0; Assign 0 1 5; Formulate 0 []])) 0.
Proof. vm_compute. reflexivity. Qed.
Example C06_ex_canon :
  canon Nat.eqb Nat.ltb [(3, 30); (1, 10); (2, 20)] = [(1, 10); (2, 20); (3, 30)]
  /\ canon Nat.eqb Nat.ltb [(2, 20); (3, 30); (1, 10)] = [(1, 10); (2, 20); (3, 30)].
Proof. split; vm_compute; reflexivity. Qed.

Print Assumptions C06_memo_transparent.
Print Assumptions C06_formulate_pure.
Print Assumptions C06_formulate_pure_current.
Print Assumptions C06_observed_skeleton_ok.
Print Assumptions C06_formulate_logged.
Print Assumptions C06_order_canonical.
Print Assumptions C06_order_canonical_permutation.
Print Assumptions C06_canon_sorts.
Print Assumptions C06_formulate_pure_refuted_pinned.
Print Assumptions C06_refuted_pinned_two_builders.
Print Assumptions C06_refuted_without_reset.
Print Assumptions C06_refuted_without_reregistration.
Print Assumptions C06_ex_toy_pure.
Print Assumptions C06_ex_witness_fixed.
Print Assumptions C06_ex_order.
Print Assumptions C06_ex_assign_overloads_final.
Print Assumptions C06_ex_canon.
