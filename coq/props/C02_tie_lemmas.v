(* C02 — in-Coq tie: the implementation's model.expression (regenerated from /repo in this run,
   build/C02/Tie_C02*.v) is AC-equal, by the verified checker AcEq.aceq, to the expected tree of the
   helicity formula over independently extracted transition data; hence it DENOTES the formula. *)
From AV Require Import Helicity Helicity_proofs AcEq AcEq_proofs.
From AVchk Require Import Tie_C02 C02_lemmas.
Open Scope string_scope.

Definition tie_ok (fuel : nat) (c : string * (expr * list hgroup)) : bool :=
  aceq fuel (fst (snd c)) (intensity_expr (snd (snd c))).

(* generic in the fuel (kept a variable so that the kernel never unfolds the checker in a conversion) *)
Lemma tie_sound fuel l : forallb (tie_ok fuel) l = true ->
  forall name impl data, In (name, (impl, data)) l -> forall ρ, denC ρ impl = intensity_sem ρ data.
Proof.
  intros Hall name impl data H ρ. pose proof (proj1 (forallb_forall _ _) Hall _ H) as Hc.
  unfold tie_ok in Hc. cbn [fst snd] in Hc.
  rewrite (aceq_sound ρ _ _ _ Hc). apply intensity_expr_denotes_formula.
Qed.

Lemma tie_all_ok : forallb (tie_ok 40) tie_cases = true.
Proof. vm_compute. reflexivity. Qed.

Lemma tie_case_denotes name impl data :
  In (name, (impl, data)) tie_cases -> forall ρ, denC ρ impl = intensity_sem ρ data.
Proof. exact (tie_sound 40 tie_cases tie_all_ok name impl data). Qed.

Lemma tie_cases_nonempty : (10 <= length tie_cases)%nat.
Proof. vm_compute. repeat constructor. Qed.

(* negative control: the checker is not trivially true — swapping the Wigner-D indices of the first
   node of the first case is detected *)
Definition swap_first_node (gs : list hgroup) : list hgroup :=
  match gs with
  | ((c :: cs) :: amps) :: gs' =>
      match cnodes c with
      | n :: ns =>
          let n' := {| nJ := nJ n; nM := nM n; na_s := nb_s n; na_l := nb_l n + 1; nb_s := na_s n; nb_l := na_l n;
                       nphi := nphi n; ntheta := ntheta n; nLS := nLS n; nH := nH n; ndyn := ndyn n |} in
          (({| cC := cC c; cpref := cpref c; cnodes := n' :: ns |} :: cs) :: amps) :: gs'
      | [] => gs
      end
  | _ => gs
  end.
Lemma tie_detects_wrong_index :
  aceq 40 (intensity_expr C02_lemmas.ex_model) (intensity_expr (swap_first_node C02_lemmas.ex_model)) = false
  /\ aceq 40 (intensity_expr C02_lemmas.ex_model) (intensity_expr C02_lemmas.ex_model) = true.
Proof. split; vm_compute; reflexivity. Qed.
