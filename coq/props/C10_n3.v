(* C10, 3 channels (thorough tier). *)
From AV Require Import KMat.
From AVchk Require Import Gen_C10_n3 C10_n3_lemmas.
Open Scope C_scope.

Theorem C10_F_solves_nr_3 : forall ρ, wdV ρ gen_nr_F3 ->
  M3vec (den3 (K3 ρ)) (v3_of (denV ρ gen_nr_F3)) = P3 ρ.
Proof. exact F_solves_nr_3. Qed.

Print Assumptions C10_F_solves_nr_3.
