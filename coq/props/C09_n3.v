(* C09, 3 channels (thorough tier): property theorems for the regenerated 3x3 matrices. *)
From AV Require Import KMat.
From AVchk Require Import Gen_C09_n3 C09_n3_lemmas.
Open Scope C_scope.

Theorem C09_Tgen_defining_eq_3 : forall ρ, wdMC ρ gen_nr_T3 ->
  let T := m3_of (denMC ρ gen_nr_T3) in
  M3mul T (den3 (K3 ρ)) = K3 ρ /\ M3mul (den3 (K3 ρ)) T = K3 ρ.
Proof. exact nr_defining_3. Qed.
Theorem C09_That_defining_eq_3 : forall ρ, wdMC ρ gen_rel_That3 ->
  let T := m3_of (denMC ρ gen_rel_That3) in
  M3mul T (den3 (M3mul (rho3 ρ) (K3 ρ))) = K3 ρ /\ M3mul (den3 (M3mul (K3 ρ) (rho3 ρ))) T = K3 ρ.
Proof. exact That_defining_3. Qed.
Theorem C09_Trel_factor_3 : forall ρ, wdMC ρ gen_rel_T3 ->
  m3_of (denMC ρ gen_rel_T3)
  = M3mul (M3mul (sqrt_rho_conj3 ρ) (m3_of (denMC ρ gen_rel_That3))) (sqrt_rho3 ρ).
Proof. exact Trel_factor_3. Qed.
Theorem C09_Tgen_unitary_symmetric_3 : forall ρ, wdMC ρ gen_nr_T3 -> Kreal3 ρ ->
  let T := m3_of (denMC ρ gen_nr_T3) in unitary3 T /\ M3tr T = T.
Proof. exact nr_unitary_3. Qed.
Theorem C09_Trel_unitary_symmetric_3 : forall ρ, wdMC ρ gen_rel_T3 -> wdMC ρ gen_rel_That3 ->
  Kreal3 ρ -> rho_pos3 ρ ->
  let T := m3_of (denMC ρ gen_rel_T3) in let Th := m3_of (denMC ρ gen_rel_That3) in
  unitary3 T /\ M3tr T = T /\ M3tr Th = Th.
Proof. exact rel_unitary_3. Qed.

Print Assumptions C09_Tgen_defining_eq_3.
Print Assumptions C09_That_defining_eq_3.
Print Assumptions C09_Trel_factor_3.
Print Assumptions C09_Tgen_unitary_symmetric_3.
Print Assumptions C09_Trel_unitary_symmetric_3.
