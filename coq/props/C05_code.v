(** C05_code.v — clause 3 of C05 stated about the CODE: [gen_create_spin_range] is what bridge/trans_helpers.py
    translates from the current text of src/ampform/helicity/align/_spin.py (while loop = fuelled recursion; float /
    Decimal values = exact integers in units of 1/u).  ONLY theorem statements here; proofs in Helpers_lemmas.v. *)
From Coq Require Import ZArith List Bool.
From AV Require Import Kin PyTopo Spin.
From AVchk Require Import Gen_helpers Helpers_lemmas.
Import ListNotations.
Open Scope Z_scope.

(** The translated code computes exactly the hand model Spin.v for EVERY magnitude n/u and flag (so every theorem of
    C05.v about [spin_range] is a theorem about the code); a ValueError of the code is [None] of the model. *)
Theorem code_spin_range_is_model : forall u n nz, 0 < u -> 0 <= n ->
  gen_create_spin_range u (Z.to_nat (2 * n) + 2) n nz
  = match spin_range_u u n nz with Some l => Ok l | None => Err EValue end.
Proof. exact gen_create_spin_range_is_model. Qed.

(** the result of the translated while loop does not depend on the fuel once it suffices (EFuel is never a value) *)
Theorem code_spin_range_fuel_irrelevant : forall u n nz fuel, 0 < u -> 0 <= n -> (Z.to_nat (2 * n) + 2 <= fuel)%nat ->
  gen_create_spin_range u fuel n nz = gen_create_spin_range u (Z.to_nat (2 * n) + 2) n nz.
Proof. exact gen_spin_range_fuel_irrelevant. Qed.

(** the sums over spin projections run over exactly -s..s in unit steps (units of 1/2), for every spin *)
Theorem code_spin_range_spec : forall s2 : nat,
  gen_create_spin_range 2 (spin_fuel s2) (Z.of_nat s2) false = Ok (full_range s2).
Proof. exact gen_spin_range_full. Qed.

(** the code never raises and never runs out of the stated fuel, whatever the flag, for every half-integer spin *)
Theorem code_spin_range_never_raises : forall (s2 : nat) (nz : bool),
  exists l, gen_create_spin_range 2 (spin_fuel s2) (Z.of_nat s2) nz = Ok l.
Proof. exact gen_spin_range_total. Qed.

(** The three-body helpers behind Dalitz-plot-decomposition alignment (get_spectator_id, get_decay_product_ids,
    assert_three_body_decay, translated from helicity/decay.py): whenever the code names a spectator, the topology is
    labelled 0 -> 1, 2, 3, the spectator is THE one final state that does not leave node 1, and the decay products are
    the sorted states that do. *)
Theorem code_spectator_spec : forall t s, gen_get_spectator_id t = Ok s ->
  topo_incoming_edge_ids t = [0] /\ topo_outgoing_edge_ids t = [1; 2; 3] /\
  In s [1; 2; 3] /\ ~ In s (topo_outgoing t 1) /\
  (forall x, In x [1; 2; 3] -> ~ In x (topo_outgoing t 1) -> x = s) /\
  gen_get_decay_product_ids t = Ok (Kin.sort (topo_outgoing t 1)).
Proof. exact gen_spectator_spec. Qed.

Example code_spectator_example :
  let E i o e := {| re_id := i; re_orig := o; re_end := e |} in
  let t := {| rt_nodes := [0; 1]; rt_edges := [E 0 None (Some 0); E 2 (Some 0) None; E 4 (Some 0) (Some 1);
                                               E 1 (Some 1) None; E 3 (Some 1) None] |} in
  gen_get_spectator_id t = Ok 2 /\ gen_get_decay_product_ids t = Ok [1; 3].
Proof. vm_compute. split; reflexivity. Qed.

Example code_spin_range_examples :
  gen_create_spin_range 2 (spin_fuel 1) 1 true = Ok [-1; 1] /\
  gen_create_spin_range 2 (spin_fuel 2) 2 true = Ok [-2; 2] /\
  gen_create_spin_range 2 (spin_fuel 5) 5 false = Ok [-5; -3; -1; 1; 3; 5].
Proof. repeat split; vm_compute; reflexivity. Qed.

Print Assumptions code_spin_range_is_model.
Print Assumptions code_spin_range_fuel_irrelevant.
Print Assumptions code_spin_range_spec.
Print Assumptions code_spin_range_never_raises.
Print Assumptions code_spectator_spec.
