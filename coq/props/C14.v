(* C14 — unevaluated expressions obey substitution, equality and folding laws.
   Model: coq/theories/Uneval.v (hand-written, tied to /repo by the correspondence run);
   T = the class table regenerated from the ampform package on this run. *)
From Coq Require Import String List ZArith QArith Bool.
From AV Require Import Uneval Uneval_proofs.
From AV Require Import PyModel.
From AVchk Require Import ClassTable C14_lemmas Gen_decorator C14_decorator_lemmas.
Import ListNotations.
Open Scope string_scope.

(* the regenerated table is well-formed: unique names, closed well-formed defaults, templates refer
   to existing fields/classes, classes without doit() have SymPy fields only *)
Theorem table_well_formed : wf_table gen_table = true.
Proof. exact gen_wf. Qed.

(* Item 1: substituting then unfolding = unfolding then substituting, for every well-formed tree
   (nested unevaluated arguments, non-SymPy attributes), every fuel, every symbol map that
   (a) does not replace a symbol created by evaluate() itself, (b) has unfolded images,
   (c) keeps the case of every value-inspecting evaluate() (stableF, decidable). *)
Theorem xreplace_doit_commute : forall s n e,
  avoids gen_table s = true -> images_ok gen_table s = true ->
  wfi gen_table e = true -> stableF gen_table s n e = true ->
  doitF gen_table n (xreplace gen_table Shallow (rule_of s) [] e) = sub s (doitF gen_table n e) /\
  (wfi gen_table (doitF gen_table n e) = true ->
   doitF gen_table n (xreplace gen_table Shallow (rule_of s) [] e)
   = xreplace gen_table Shallow (rule_of s) [] (doitF gen_table n e)).
Proof. exact l_commute. Qed.

Theorem subs_doit_commute : forall x w n e,
  avoids gen_table [(x, w)] = true -> images_ok gen_table [(x, w)] = true ->
  wfi gen_table e = true -> stableF gen_table [(x, w)] n e = true ->
  doitF gen_table n (subs1 gen_table Shallow (Sym x) w e) = sub [(x, w)] (doitF gen_table n e).
Proof. exact l_subs_commute. Qed.

(* Item 2: with the shallow field getter the replacement reaches every depth ... *)
Theorem xreplace_reaches_nested : forall s e,
  wfi gen_table e = true -> xreplace gen_table Shallow (rule_of s) [] e = sub s e.
Proof. exact l_reaches. Qed.

Theorem subs_reaches_nested : forall x w e,
  wfi gen_table e = true -> subs1 gen_table Shallow (Sym x) w e = sub [(x, w)] e.
Proof. exact l_reaches_subs. Qed.

(* ... and with dataclasses.astuple it does not:
   PhaseSpaceFactor(BreakupMomentumSquared(s,m1,m2),m1,m2).xreplace({m1:x}) *)
Theorem xreplace_reaches_nested_Deep_refuted :
  exists e s, wfi gen_table e = true /\ xreplace gen_table Deep (rule_of s) [] e <> sub s e /\
              xreplace gen_table Deep (rule_of s) [] e =
              Unev cPSF [App "sympy.core.containers.Tuple" [sy "s"; sy "m1"; sy "m2"; App "py:None" []];
                         sy "x"; sy "m2"] [ANone].
Proof. exact l_deep_refuted. Qed.

(* Item 3: == and hash are functions of (class, arguments, CONVERTED attributes) *)
Theorem eq_iff_content : forall a b, eqb a b = true <-> content a = content b.
Proof. exact l_eq_iff_content. Qed.

Theorem hash_respects_eq : forall (H : cexpr -> Z) a b, eqb a b = true -> H (content a) = H (content b).
Proof. exact l_hash. Qed.

(* "exactly when class, arguments and attributes are equal" holds on every set of attribute values
   on which _get_hashable_object is injective ... *)
Theorem eq_iff_equal_when_conversion_injective : forall S a b,
  conv_inj_on S -> incl (attrs_of a) S -> incl (attrs_of b) S -> (eqb a b = true <-> a = b).
Proof. exact l_eq_iff_equal. Qed.

Example conversion_injective_example : conv_inj_on [ANone; AStr "rho"; AObj "uneval_ir.pool_function"].
Proof. exact conv_inj_example. Qed.

(* ... and is false in general (KNOWN FINDING hashable_content_none_collision):
   BreakupMomentumSquared(s,1,2,name="builtins.NoneType") == BreakupMomentumSquared(s,1,2,name=None) *)
Theorem content_conversion_collision :
  wfi gen_table w_coll_a = true /\ wfi gen_table w_coll_b = true /\
  eqb w_coll_a w_coll_b = true /\ w_coll_a <> w_coll_b.
Proof. exact l_collision. Qed.

(* Item 4 *)
Theorem rebuild_all_sympy_fields : forall c ci args attrs,
  lookup gen_table c = Some ci -> all_sympy ci = true -> wfi gen_table (Unev c args attrs) = true ->
  func gen_table (Unev c args attrs) (args_of (Unev c args attrs)) = Unev c args attrs.
Proof. exact l_func_args. Qed.

(* keyword construction stores the arguments in DECLARATION order: permuting the caller's keyword list
   (distinct keywords) does not change the instance, for every class, prefix of positional arguments and defaults *)
Theorem keyword_order_irrelevant : forall c pos kw kw',
  NoDup (map fst kw) -> Permutation.Permutation kw kw' -> new_kw c pos kw = new_kw c pos kw'.
Proof. exact l_kw_order. Qed.

Example keyword_order_example :
  new_kw cBZ [] [("n_events", VE (sy "n")); ("beta", VE (sy "b"))] = Unev cBZ [sy "b"; sy "n"] [] /\
  new_kw cBZ [VE (sy "b")] [("n_events", VE (sy "n"))] = Unev cBZ [sy "b"; sy "n"] [].
Proof. exact ex_kw_order. Qed.

(* ================= theorems about the definitions TRANSLATED from the current text of _decorator.py
   (build/C14/Gen_decorator.v; object model and specifications in coq/theories/PyModel.v) ================= *)

(* _get_hashable_object: classes -> qualified name; every hashable non-class object -> ITSELF;
   unhashable -> str; None -> the key of NoneType *)
Theorem hashable_class_is_qualname : forall q, gen__get_hashable_object (PClass q) = KStr q.
Proof. exact d_class. Qed.
Theorem hashable_object_is_itself : forall k id q, gen__get_hashable_object (PHash k id q) = KObj (PHash k id q).
Proof. exact d_itself. Qed.
Theorem hashable_unhashable_is_str : forall s, gen__get_hashable_object (PUnhash s) = KStr s.
Proof. exact d_unhashable. Qed.
Theorem hashable_none_is_nonetype :
  gen__get_hashable_object PNone = gen__get_hashable_object none_type /\
  gen__get_hashable_object PNone = KStr "builtins.NoneType".
Proof. exact d_none. Qed.
(* collisions happen only among objects whose key is a string (None, classes, unhashables, str) — the
   known finding hashable_content_none_collision and its relatives — never with/among other objects *)
Theorem hashable_collisions_only_stringly : forall o1 o2,
  nkey (gen__get_hashable_object o1) = nkey (gen__get_hashable_object o2) ->
  o1 = o2 \/ (stringly o1 = true /\ stringly o2 = true) \/
  (exists id q q', o1 = PHash KStrK id q /\ o2 = PHash KStrK id q').
Proof. exact d_collisions. Qed.
Theorem hashable_functions_and_value_objects_never_identified : forall k id q o,
  k <> KStrK -> nkey (gen__get_hashable_object (PHash k id q)) = nkey (gen__get_hashable_object o) -> o = PHash k id q.
Proof. exact d_never_identified. Qed.

(* _extract_field_values: keys in DECLARATION order; value i = args[i] | kwargs[name] | default *)
Theorem extract_declaration_order_and_values : forall cls args kw d rest,
  NoDup (names cls) -> gen__extract_field_values cls args kw = Ok (d, rest) ->
  d = combine cls (args ++ map (value_of kw) (skipn (length args) cls)) /\ map fst d = cls.
Proof. exact e_shape. Qed.
Theorem extract_keyword_order_irrelevant : forall cls args kw kw',
  NoDup (names cls) -> NoDup (map fst kw) -> Permutation.Permutation kw kw' ->
  result_equiv (gen__extract_field_values cls args kw) (gen__extract_field_values cls args kw').
Proof. exact e_kw_order. Qed.
Theorem extract_too_many_positionals : forall cls args kw,
  (length cls < length args)%nat -> gen__extract_field_values cls args kw = Err 0 [].
Proof. exact e_too_many. Qed.
Theorem extract_missing_lists_exactly_the_missing : forall cls args kw,
  NoDup (names cls) -> (length args < length cls)%nat ->
  names (filter (is_unfilled kw) (skipn (length args) cls)) <> [] ->
  gen__extract_field_values cls args kw = Err 1 (names (filter (is_unfilled kw) (skipn (length args) cls))).
Proof. exact e_missing. Qed.
Theorem extract_leftover_kwargs : forall cls args kw d rest,
  NoDup (names cls) -> NoDup (map fst kw) -> length args <> length cls ->
  gen__extract_field_values cls args kw = Ok (d, rest) -> rest = kw_minus kw (names (skipn (length args) cls)).
Proof. exact e_leftover. Qed.

(* _get_arguments: ALL field values in declaration order, nothing dropped *)
Theorem getnewargs_all_fields : forall x,
  gen__get_arguments x = map (fun f => get_attr x (pf_name f)) (i_cls x) /\
  length (gen__get_arguments x) = length (i_cls x).
Proof. exact g_all_fields. Qed.
(* new_method o _get_arguments = identity (the C15 contract), on the generated definitions *)
Theorem new_method_rebuilds_from_getnewargs : forall cls vals,
  NoDup (names cls) -> length vals = length cls -> Forall2 (fun f v => safe_sympify f v = v) cls vals ->
  gen_new_method cls (gen__get_arguments (mk_inst cls vals)) [] false = Ok (mk_inst cls vals).
Proof. exact n_rebuild. Qed.
Example translated_helpers_example :
  NoDup (names ex_cls) /\
  gen__extract_field_values ex_cls [VSym "s"] [("m2", VRaw "2"); ("m1", VSym "m")] =
    Ok (combine ex_cls [VSym "s"; VSym "m"; VRaw "2"; VObj PNone], []) /\
  gen__extract_field_values ex_cls [VSym "s"] [("m2", VRaw "2")] = Err 1 ["m1"] /\
  gen_new_method ex_cls [VSym "s"] [("m2", VRaw "2"); ("m1", VSym "m")] false =
    Ok (mk_inst ex_cls [VSym "s"; VSym "m"; VSym "2"; VObj PNone]).
Proof. exact ex_extract. Qed.

(* non-vacuity *)
Example hypotheses_satisfiable :
  avoids gen_table w_num_map = true /\ images_ok gen_table w_num_map = true /\ wfi gen_table w_nested = true /\
  stableF gen_table w_num_map fuel w_nested = true /\ wfi gen_table (doitF gen_table fuel w_nested) = true /\
  unfolded gen_table (doitF gen_table fuel w_nested) = true /\
  expr_eqb (doitF gen_table fuel w_nested) w_nested = false.
Proof. exact ex_hyps_satisfiable. Qed.

Example guard_condition_needed :
  wfi gen_table w_bw = true /\ avoids gen_table w_bw_map = true /\ images_ok gen_table w_bw_map = true /\
  stableF gen_table w_bw_map fuel w_bw = false /\
  expr_eqb (doitF gen_table fuel (xreplace gen_table Shallow (rule_of w_bw_map) [] w_bw))
           (sub w_bw_map (doitF gen_table fuel w_bw)) = false.
Proof. exact ex_guard_needed. Qed.

Example all_sympy_class_exists : exists ci, lookup gen_table cKallen = Some ci /\ all_sympy ci = true.
Proof. exact ex_all_sympy_class. Qed.

Print Assumptions table_well_formed.
Print Assumptions xreplace_doit_commute.
Print Assumptions subs_doit_commute.
Print Assumptions xreplace_reaches_nested.
Print Assumptions subs_reaches_nested.
Print Assumptions xreplace_reaches_nested_Deep_refuted.
Print Assumptions eq_iff_content.
Print Assumptions hash_respects_eq.
Print Assumptions eq_iff_equal_when_conversion_injective.
Print Assumptions conversion_injective_example.
Print Assumptions content_conversion_collision.
Print Assumptions rebuild_all_sympy_fields.
Print Assumptions keyword_order_irrelevant.
Print Assumptions keyword_order_example.
Print Assumptions hashable_class_is_qualname.
Print Assumptions hashable_object_is_itself.
Print Assumptions hashable_unhashable_is_str.
Print Assumptions hashable_none_is_nonetype.
Print Assumptions hashable_collisions_only_stringly.
Print Assumptions hashable_functions_and_value_objects_never_identified.
Print Assumptions extract_declaration_order_and_values.
Print Assumptions extract_keyword_order_irrelevant.
Print Assumptions extract_too_many_positionals.
Print Assumptions extract_missing_lists_exactly_the_missing.
Print Assumptions extract_leftover_kwargs.
Print Assumptions getnewargs_all_fields.
Print Assumptions new_method_rebuilds_from_getnewargs.
Print Assumptions translated_helpers_example.
Print Assumptions hypotheses_satisfiable.
Print Assumptions guard_condition_needed.
Print Assumptions all_sympy_class_exists.
