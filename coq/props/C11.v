(* C11 — all phase-space-factor variants agree where they must.  Statements only; every
   statement is about the trees regenerated from /repo in this run (Gen_C11):
     gen_q2 = BreakupMomentumSquared(s,m1,m2).doit(), gen_psf/abs/cpx/swave/eqm = the five
     phase-space classes after doit() with ComplexSqrt replaced by its get_definition();
     gen_swave_eq / gen_eqm_eq = PhaseSpaceFactorSWave / EqualMassPhaseSpaceFactor at (s,m,m).
   denC gives sqrt/log their principal complex branches; wdC is well-definedness (no 1/0,
   no log 0, relational operands real).  s, m1, m2, m are real; envS/envE bind the symbols. *)
From AV Require Import DenC.
From AVchk Require Import Gen_C11 Gen_C11py Gen_C11kw C11_lemmas C11_glue C11_pycode C11_keyword.
From Coq Require Import Lra.
Open Scope C_scope.

(* ---- 1. break-up momentum squared ---- *)
Theorem C11_q2_symmetric : forall s m1 m2 : R, s <> 0%R ->
  wdC (envS s m1 m2) gen_q2 /\ wdC (envS s m2 m1) gen_q2 /\
  denC (envS s m1 m2) gen_q2 = denC (envS s m2 m1) gen_q2.
Proof. exact q2_symmetric_gen. Qed.
Theorem C11_q2_zero_at_threshold : forall m1 m2 : R, (0 < m1)%R -> (0 < m2)%R ->
  wdC (envS ((m1 + m2) ^ 2) m1 m2) gen_q2 /\ denC (envS ((m1 + m2) ^ 2) m1 m2) gen_q2 = 0.
Proof. exact q2_zero_threshold_gen. Qed.
(* for m1 = m2 the pseudo-threshold is s = 0 where q^2 is 0/0: excluded, see next theorem *)
Theorem C11_q2_zero_at_pseudothreshold : forall m1 m2 : R, m1 <> m2 ->
  wdC (envS ((m1 - m2) ^ 2) m1 m2) gen_q2 /\ denC (envS ((m1 - m2) ^ 2) m1 m2) gen_q2 = 0.
Proof. exact q2_zero_pseudothreshold_gen. Qed.
Theorem C11_q2_undefined_at_s0 : forall m1 m2 : R, ~ wdC (envS 0 m1 m2) gen_q2.
Proof. exact q2_undefined_at_zero. Qed.

(* ---- 2. above threshold: Re rho = 2 sqrt(q^2) / sqrt(s), q^2 the regenerated tree ---- *)
Theorem C11_re_above_threshold_PhaseSpaceFactor : forall s m1 m2 : R,
  (0 < m1)%R -> (0 < m2)%R -> ((m1 + m2) ^ 2 < s)%R ->
  (wdC (envS s m1 m2) gen_psf /\ wdC (envS s m1 m2) gen_q2 /\
   fst (denC (envS s m1 m2) gen_psf) = (2 * sqrt (fst (denC (envS s m1 m2) gen_q2)) / sqrt s)%R)
  /\ snd (denC (envS s m1 m2) gen_psf) = 0%R.
Proof. exact re_above_psf_stmt. Qed.
Theorem C11_re_above_threshold_PhaseSpaceFactorAbs : forall s m1 m2 : R,
  (0 < m1)%R -> (0 < m2)%R -> ((m1 + m2) ^ 2 < s)%R ->
  (wdC (envS s m1 m2) gen_abs /\ wdC (envS s m1 m2) gen_q2 /\
   fst (denC (envS s m1 m2) gen_abs) = (2 * sqrt (fst (denC (envS s m1 m2) gen_q2)) / sqrt s)%R)
  /\ snd (denC (envS s m1 m2) gen_abs) = 0%R.
Proof. exact re_above_abs_stmt. Qed.
Theorem C11_re_above_threshold_PhaseSpaceFactorComplex : forall s m1 m2 : R,
  (0 < m1)%R -> (0 < m2)%R -> ((m1 + m2) ^ 2 < s)%R ->
  (wdC (envS s m1 m2) gen_cpx /\ wdC (envS s m1 m2) gen_q2 /\
   fst (denC (envS s m1 m2) gen_cpx) = (2 * sqrt (fst (denC (envS s m1 m2) gen_q2)) / sqrt s)%R)
  /\ snd (denC (envS s m1 m2) gen_cpx) = 0%R.
Proof. exact re_above_cpx_stmt. Qed.
Theorem C11_re_above_threshold_PhaseSpaceFactorSWave : forall s m1 m2 : R,
  (0 < m1)%R -> (0 < m2)%R -> ((m1 + m2) ^ 2 < s)%R ->
  wdC (envS s m1 m2) gen_swave /\ wdC (envS s m1 m2) gen_q2 /\
  fst (denC (envS s m1 m2) gen_swave) = (2 * sqrt (fst (denC (envS s m1 m2) gen_q2)) / sqrt s)%R.
Proof. exact re_above_swave_stmt. Qed.
Theorem C11_re_above_threshold_EqualMassPhaseSpaceFactor : forall s m1 m2 : R,
  (0 < m1)%R -> (0 < m2)%R -> ((m1 + m2) ^ 2 < s)%R ->
  wdC (envS s m1 m2) gen_eqm /\ wdC (envS s m1 m2) gen_q2 /\
  fst (denC (envS s m1 m2) gen_eqm) = (2 * sqrt (fst (denC (envS s m1 m2) gen_q2)) / sqrt s)%R.
Proof. exact re_above_eqm_stmt. Qed.

(* ---- 3. between pseudo-threshold and threshold: Complex = i * Abs ---- *)
Theorem C11_complex_is_i_abs : forall s m1 m2 : R,
  (0 < m1)%R -> (0 < m2)%R -> ((m1 - m2) ^ 2 < s < (m1 + m2) ^ 2)%R ->
  wdC (envS s m1 m2) gen_cpx /\ wdC (envS s m1 m2) gen_abs /\
  denC (envS s m1 m2) gen_cpx = Ci * denC (envS s m1 m2) gen_abs.
Proof. exact cpx_is_i_abs. Qed.

(* ---- 4. equal masses: EqualMassPhaseSpaceFactor(s,m,m) = PhaseSpaceFactorSWave(s,m,m)
        on the whole real axis except s = 0 and s = 4 m^2 (all three regimes, including the
        middle one where the log argument is unimodular and Arg = 2 atan(1/rho-hat)) ---- *)
Theorem C11_equalmass_eq_swave : forall s m : R, (0 < m)%R -> s <> 0%R -> s <> (4 * m ^ 2)%R ->
  wdC (envE s m) gen_eqm_eq /\ wdC (envE s m) gen_swave_eq /\
  denC (envE s m) gen_eqm_eq = denC (envE s m) gen_swave_eq.
Proof. exact equalmass_eq_swave_all. Qed.

(* the same identity for the general trees X(s,m1,m2).doit() evaluated at m1 = m2 = m (what a
   user of the lambdified three-argument functions gets): they denote the same as the (s,m,m) trees *)
Theorem C11_equalmass_eq_swave_general_trees : forall s m : R,
  (0 < m)%R -> s <> 0%R -> s <> (4 * m ^ 2)%R ->
  wdC (envS s m m) gen_eqm /\ wdC (envS s m m) gen_swave /\
  denC (envS s m m) gen_eqm = denC (envS s m m) gen_swave.
Proof. exact equalmass_eq_swave_general. Qed.

(* ---- 5. threshold: both variants tend to 0 as s -> 4 m^2 from either side (epsilon-delta on
        the punctured neighbourhood); SWave is defined and 0 AT the threshold, EqualMass is not
        defined there in exact arithmetic (its third branch divides by rho-hat = 0) ---- *)
Theorem C11_continuous_at_threshold : forall m eps : R, (0 < m)%R -> (0 < eps)%R ->
  exists delta : R, (0 < delta)%R /\
  forall s : R, s <> (4 * m ^ 2)%R -> (Rabs (s - 4 * m ^ 2) < delta)%R ->
    (wdC (envE s m) gen_eqm_eq /\ (Cmod (denC (envE s m) gen_eqm_eq) < eps)%R) /\
    (wdC (envE s m) gen_swave_eq /\ (Cmod (denC (envE s m) gen_swave_eq) < eps)%R).
Proof. exact limit_at_threshold. Qed.
Theorem C11_swave_value_at_threshold : forall m : R, (0 < m)%R ->
  wdC (envE (4 * m ^ 2) m) gen_swave_eq /\ denC (envE (4 * m ^ 2) m) gen_swave_eq = 0.
Proof. exact swave_at_threshold. Qed.
Theorem C11_equalmass_undefined_at_threshold : forall m : R, (0 < m)%R ->
  ~ wdC (envE (4 * m ^ 2) m) gen_eqm_eq.
Proof. exact eqm_undefined_at_threshold. Qed.

(* ---- 7. pure-Python (`math`) backend: the code text printed by ComplexSqrt._pythoncode for the
        current source (Gen_C11py: parsed back with Python's own grammar, real float/int arguments)
        is the principal square root with +i sqrt(-x) for x < 0 - for a symbol and for compound
        arguments (operator precedence of the emitted text matters) - in all three regions
        x < 0, x = 0, x > 0; and the printed Complex variant = i * the printed Abs variant in the gap ---- *)
Theorem C11_pycode_complexsqrt_symbol : forall x : R,
  wdC (envX x) gen_py_csqrt_sym /\ denC (envX x) gen_py_csqrt_sym = Csqrt (RtoC x).
Proof. exact py_csqrt_sym. Qed.
Theorem C11_pycode_complexsqrt_sum : forall a b : R,
  wdC (envAB a b) gen_py_csqrt_sum /\ denC (envAB a b) gen_py_csqrt_sum = Csqrt (RtoC (a + b)).
Proof. exact py_csqrt_sum. Qed.
Theorem C11_pycode_complexsqrt_difference : forall a b : R,
  wdC (envAB a b) gen_py_csqrt_diff /\ denC (envAB a b) gen_py_csqrt_diff = Csqrt (RtoC (a - b)).
Proof. exact py_csqrt_diff. Qed.
Theorem C11_pycode_complexsqrt_product : forall a b : R,
  wdC (envAB a b) gen_py_csqrt_prod /\ denC (envAB a b) gen_py_csqrt_prod = Csqrt (RtoC (a * b)).
Proof. exact py_csqrt_prod. Qed.
Theorem C11_pycode_complex_is_i_abs : forall s m1 m2 : R,
  (0 < m1)%R -> (0 < m2)%R -> ((m1 - m2) ^ 2 < s < (m1 + m2) ^ 2)%R ->
  wdC (envS s m1 m2) gen_py_cpx /\ wdC (envS s m1 m2) gen_py_abs /\
  denC (envS s m1 m2) gen_py_cpx = Ci * denC (envS s m1 m2) gen_py_abs.
Proof. exact py_cpx_is_i_abs. Qed.
Theorem C11_pycode_complex_is_i_abs_equal_mass_tree : forall s m : R,
  (0 < m)%R -> (0 < s < 4 * m ^ 2)%R ->
  wdC (envE s m) gen_py_cpx_mm /\ wdC (envE s m) gen_py_abs_mm /\
  denC (envE s m) gen_py_cpx_mm = Ci * denC (envE s m) gen_py_abs_mm.
Proof. exact py_cpx_is_i_abs_mm. Qed.

(* ---- 8. keyword constructions: X(m1=.., m2=.., s=..), X(name=.., m1=.., s=.., m2=..), X(s, m2=.., m1=..)
        ... (every order, with/without name=, all six classes; list regenerated from /repo) unfold to
        the very trees gen_q2 ... gen_eqm the theorems above are about ---- *)
Theorem C11_keyword_construction :
  Forall (fun p => snd (fst p) = snd p /\ In (snd p) [gen_q2; gen_psf; gen_abs; gen_cpx; gen_swave; gen_eqm]) gen_kw
  /\ (6 * 30 <= length gen_kw)%nat.
Proof. exact keyword_construction. Qed.

(* ---- 6. the premises are satisfiable ---- *)
Example C11_premise_above : (0 < 3/10 /\ 0 < 1/2 /\ (3/10 + 1/2) ^ 2 < 2)%R.
Proof. lra. Qed.
Example C11_premise_gap : (0 < 3/10 /\ 0 < 1/2 /\ (3/10 - 1/2) ^ 2 < 1/2 < (3/10 + 1/2) ^ 2)%R.
Proof. lra. Qed.
Example C11_premise_equal_mass_regimes :
  (0 < 1/2 /\ -1 <> 0 /\ -1 <> 4 * (1/2) ^ 2 /\ -1 < 0
   /\ 0 < 1/2 < 4 * (1/2) ^ 2 /\ 4 * (1/2) ^ 2 < 2)%R.
Proof. lra. Qed.
Example C11_instance_above :
  fst (denC (envS 2 (3/10) (1/2)) gen_swave)
  = (2 * sqrt (fst (denC (envS 2 (3/10) (1/2)) gen_q2)) / sqrt 2)%R.
Proof. apply C11_re_above_threshold_PhaseSpaceFactorSWave; lra. Qed.
Example C11_instance_mid :
  denC (envE (1/2) (1/2)) gen_eqm_eq = denC (envE (1/2) (1/2)) gen_swave_eq.
Proof. apply C11_equalmass_eq_swave; lra. Qed.

Print Assumptions C11_q2_symmetric.
Print Assumptions C11_q2_zero_at_threshold.
Print Assumptions C11_q2_zero_at_pseudothreshold.
Print Assumptions C11_q2_undefined_at_s0.
Print Assumptions C11_re_above_threshold_PhaseSpaceFactor.
Print Assumptions C11_re_above_threshold_PhaseSpaceFactorAbs.
Print Assumptions C11_re_above_threshold_PhaseSpaceFactorComplex.
Print Assumptions C11_re_above_threshold_PhaseSpaceFactorSWave.
Print Assumptions C11_re_above_threshold_EqualMassPhaseSpaceFactor.
Print Assumptions C11_complex_is_i_abs.
Print Assumptions C11_equalmass_eq_swave.
Print Assumptions C11_equalmass_eq_swave_general_trees.
Print Assumptions C11_continuous_at_threshold.
Print Assumptions C11_swave_value_at_threshold.
Print Assumptions C11_equalmass_undefined_at_threshold.
Print Assumptions C11_pycode_complexsqrt_symbol.
Print Assumptions C11_pycode_complexsqrt_sum.
Print Assumptions C11_pycode_complexsqrt_difference.
Print Assumptions C11_pycode_complexsqrt_product.
Print Assumptions C11_pycode_complex_is_i_abs.
Print Assumptions C11_pycode_complex_is_i_abs_equal_mass_tree.
Print Assumptions C11_keyword_construction.
