(* C07_dalitz — the polar helicity angle of a three-body isobar decay IS the Dalitz-variable
   closed form (clause 3 of C07, formerly numeric only).

   Trees (regenerated on every run, bridge/symgen_C07.py second output):
     hel_theta_<a>_<ab>_{cse,nocse} : theta_<a>^<ab> as compute_helicity_angles registers it for
        the topology (ab)c, i.e. Theta of p_a after  BoostZ(beta) . Ry(-Theta P) . Rz(-Phi P),
        P = p_a + p_b, through the generated NumPy code, in the components of p_a, p_b;
     gen_scat_<a>_<b> (Gen_C19, bridge/symgen_C19.py) : formulate_scattering_angle(a, b).
   Reused: coq/theories/Dpd.v (gram, cosf, Cauchy-Schwarz) and coq/props/C19_lemmas.v
   (scat_<a>_<b>_ok : the closed form is acos (- cosf (p_a+p_b) p_a p_c) on every interior event). *)
From AV Require Import DenR Dpd.
From AVchk Require Import Gen_C07_dalitz Gen_C19 C19_lemmas.
From Coq Require Import Lra Lia Psatz.
Open Scope R_scope.

(* ------------------------------------------------------------------ small real lemmas *)
Lemma sqrt_ratio T N : 0 < T -> 0 < N -> sqrt (T / N) = sqrt T / sqrt N.
Proof. intros HT HN. apply sqrt_div_alt. exact HN. Qed.

Lemma sqrt_over_sq MM EP : 0 < EP -> 0 <= MM -> sqrt (MM / EP^2) = sqrt MM / EP.
Proof.
  intros HE HM. rewrite sqrt_div_alt by (apply pow_lt; exact HE). f_equal.
  replace (EP^2) with (EP * EP) by ring. apply sqrt_square. lra.
Qed.

Lemma sqrt_over_sq' G MM : 0 <= G -> 0 < MM -> sqrt (G / MM) = sqrt G / sqrt MM.
Proof. intros HG HM. apply sqrt_div_alt. exact HM. Qed.

(* |q|^2 of the momentum taken into the helicity frame, written with the squares t*t, n*n, M*M of
   the three square roots the code prints (transverse momentum, momentum and mass of P) *)
Lemma norm_lemma Ea xa ya za X Y Z EP t n M :
  0 < t -> 0 < n -> 0 < M ->
  t * t = X^2 + Y^2 -> n * n = X^2 + Y^2 + Z^2 -> M * M = EP^2 - (X^2 + Y^2 + Z^2) ->
  ((- xa * Y + ya * X) / t)^2
  + ((Z * (xa * X + ya * Y) - za * (t * t)) / (t * n))^2
  + ((EP * (xa * X + ya * Y + za * Z) - Ea * (n * n)) / (n * M))^2
  = ((Ea * EP - (xa * X + ya * Y + za * Z))^2
     - (EP^2 - (X^2 + Y^2 + Z^2)) * (Ea^2 - xa^2 - ya^2 - za^2)) / (EP^2 - (X^2 + Y^2 + Z^2)).
Proof.
  intros Ht Hn HM Et En EM.
  transitivity ((- xa * Y + ya * X)^2 / (t * t)
                + (Z * (xa * X + ya * Y) - za * (t * t))^2 / ((t * t) * (n * n))
                + (EP * (xa * X + ya * Y + za * Z) - Ea * (n * n))^2 / ((n * n) * (M * M))).
  { field. repeat split; lra. }
  assert (0 < X^2 + Y^2) by (rewrite <- Et; nra).
  assert (0 < X^2 + Y^2 + Z^2) by (rewrite <- En; nra).
  assert (0 < EP^2 - (X^2 + Y^2 + Z^2)) by (rewrite <- EM; nra).
  rewrite Et, En, EM. field. repeat split; lra.
Qed.

(* ------------------------------------------------------------------ facts about the event *)
Section Event.
  Set Default Proof Using "All".
  Variables Ea xa ya za Eb xb yb zb Ec : R.
  Let a := V4 Ea xa ya za.
  Let b := V4 Eb xb yb zb.
  Let P := vadd a b.
  (* the spectator of a decay at rest: three-momentum opposite to P *)
  Let c := V4 Ec (- (xa + xb)) (- (ya + yb)) (- (za + zb)).
  Hypothesis Ca : causal a.
  Hypothesis Cb : causal b.
  Hypothesis Hnc : 0 < cross2 a b.
  Hypothesis HEc : 0 < Ec.

  Let X := xa + xb.  Let Y := ya + yb.  Let Z := za + zb.  Let EP := Ea + Eb.
  Let N := X^2 + Y^2 + Z^2.
  Let MM := EP^2 - N.
  Let aP := xa * X + ya * Y + za * Z.
  Let Gaa := (Ea * EP - aP)^2 - MM * (Ea^2 - xa^2 - ya^2 - za^2).

  Lemma ev_EP : 0 < EP.
  Proof. destruct Ca as [H1 _], Cb as [H2 _]. unfold EP, a, b in *. cbn [vE] in *. lra. Qed.

  Lemma ev_MM : 0 < MM.
  Proof.
    pose proof (pair_pos a b Ca Cb Hnc) as Hp.
    pose proof (causal_dot_nonneg a b Ca Cb) as Hd.
    destruct Ca as [_ Ha], Cb as [_ Hb].
    assert (E : MM = mdot a a + mdot b b + 2 * mdot a b)
      by (unfold MM, N, EP, X, Y, Z, a, b; v4_unfold; ring).
    assert (0 <= mdot a a * mdot b b) by (apply Rmult_le_pos; assumption).
    assert (mdot a b <> 0) by (intros K; rewrite K in Hp; nra).
    lra.
  Qed.

  Lemma ev_N : 0 < N.
  Proof.
    (* a and b not parallel: if P vanished, b = -a spatially and the cross product would too *)
    unfold N. destruct (Req_dec (X^2 + Y^2 + Z^2) 0) as [K|K].
    - exfalso. assert (X = 0 /\ Y = 0 /\ Z = 0) as (K1 & K2 & K3) by (repeat split; nra).
      unfold X, Y, Z in *. assert (xb = - xa) by lra. assert (yb = - ya) by lra. assert (zb = - za) by lra.
      subst xb yb zb. revert Hnc. unfold a, b. v4_unfold. intros Hnc.
      replace ((ya * - za - za * - ya) ^ 2 + (za * - xa - xa * - za) ^ 2 + (xa * - ya - ya * - xa) ^ 2)
        with 0 in Hnc by ring. lra.
    - assert (0 <= X^2 + Y^2 + Z^2) by nra. lra.
  Qed.

  Lemma ev_Gaa : 0 < Gaa.
  Proof.
    assert (CP : causal P) by (apply causal_add; assumption).
    assert (Hc : 0 < cross2 P a).
    { replace (cross2 P a) with (cross2 a b) by (unfold P, a, b; v4_unfold; ring). exact Hnc. }
    pose proof (gram_pair P a CP Ca Hc) as G.
    replace Gaa with (gram P a a); [exact G|].
    unfold Gaa, MM, N, aP, EP, X, Y, Z, P, a, b. v4_unfold. ring.
  Qed.

  Lemma ev_gram_aa : gram P a a = Gaa.
  Proof. unfold Gaa, MM, N, aP, EP, X, Y, Z, P, a, b. v4_unfold. ring. Qed.

  Lemma ev_gram_cc : gram P c c = N * (EP + Ec)^2.
  Proof. unfold N, EP, X, Y, Z, P, a, b, c. v4_unfold. ring. Qed.

  Lemma ev_gram_ac : gram P a c = (EP + Ec) * (N * Ea - EP * aP).
  Proof. unfold N, aP, EP, X, Y, Z, P, a, b, c. v4_unfold. ring. Qed.

  (* the Gram cosine in closed form, and its range *)
  Lemma ev_cosf : - cosf P a c = (EP * aP - Ea * N) / (sqrt N * sqrt Gaa).
  Proof.
    pose proof ev_EP. pose proof ev_N as HN. pose proof ev_Gaa as HG.
    unfold cosf. rewrite ev_gram_aa, ev_gram_cc, ev_gram_ac.
    rewrite sqrt_mult by (try apply pow2_ge_0; lra).
    replace ((EP + Ec)^2) with ((EP + Ec) * (EP + Ec)) by ring.
    rewrite sqrt_square by lra.
    assert (0 < sqrt N) by (apply sqrt_lt_R0; exact HN).
    assert (0 < sqrt Gaa) by (apply sqrt_lt_R0; exact HG).
    field. repeat split; lra.
  Qed.

  Lemma ev_range : -1 <= - cosf P a c <= 1.
  Proof.
    pose proof ev_EP. pose proof ev_N as HN. pose proof ev_Gaa as HG. pose proof ev_MM as HM.
    assert (CP : causal P) by (apply causal_add; assumption).
    assert (HEP : vE P <> 0) by (unfold P, a, b; cbn [vE vadd]; fold EP; lra).
    pose proof (gram_cs P a c HEP (proj2 CP)) as CS.
    assert (Gc : 0 < gram P c c).
    { rewrite ev_gram_cc. apply Rmult_lt_0_compat; [exact HN|]. apply pow_lt. lra. }
    assert (Ga : 0 < gram P a a) by (rewrite ev_gram_aa; exact HG).
    pose proof (cos_range (gram P a c) _ _ Ga Gc CS) as R. unfold cosf. lra.
  Qed.
End Event.

(* ------------------------------------------------------------------ the regenerated trees *)
Definition envMom (E1 x1 y1 z1 E2 x2 y2 z2 E3 x3 y3 z3 : R) : env :=
  env_of [("E1", E1); ("x1", x1); ("y1", y1); ("z1", z1);
          ("E2", E2); ("x2", x2); ("y2", y2); ("z2", z2);
          ("E3", E3); ("x3", x3); ("y3", y3); ("z3", z3)].

(* what a tree hel_theta_<a>_<ab> must satisfy, a = (Ea, xa, ya, za) the helicity particle,
   b its sibling, c = (Ec, -(a+b)) the spectator of a decay at rest *)
Definition hel_ok (ρ : env) (t : expr) (Ea xa ya za Eb xb yb zb Ec : R) : Prop :=
  let a := V4 Ea xa ya za in let b := V4 Eb xb yb zb in
  let c := V4 Ec (- (xa + xb)) (- (ya + yb)) (- (za + zb)) in
  causal a -> causal b -> 0 < cross2 a b -> 0 < Ec -> 0 < (xa + xb)^2 + (ya + yb)^2 ->
  wdR ρ t /\ denR ρ t = acos (- cosf (vadd a b) a c).

(* One script for all six trees.  Steps: closed form of the Gram cosine (ev_cosf); unfold the tree;
   name X, Y, Z, EP = components of P = a + b; replace the four inner square roots the code prints
   by t = |P_T|, n = |P|, t/n = sin(Theta P), M/EP = 1/gamma; the squared norm under the outer root
   is gram/M^2 (norm_lemma); the arccosine argument is then the closed form by [field]. *)
Ltac hel_tac tree envd Ea xa ya za Eb xb yb zb Ec :=
  unfold hel_ok; intros Ca Cb Hnc HEc Hz;
  pose proof (ev_EP Ea xa ya za Eb xb yb zb Ec Ca Cb Hnc HEc) as HEP;
  pose proof (ev_MM Ea xa ya za Eb xb yb zb Ec Ca Cb Hnc HEc) as HMM;
  pose proof (ev_N Ea xa ya za Eb xb yb zb Ec Ca Cb Hnc HEc) as HN;
  pose proof (ev_Gaa Ea xa ya za Eb xb yb zb Ec Ca Cb Hnc HEc) as HG;
  pose proof (ev_cosf Ea xa ya za Eb xb yb zb Ec Ca Cb Hnc HEc) as HC;
  pose proof (ev_range Ea xa ya za Eb xb yb zb Ec Ca Cb Hnc HEc) as HR;
  cbv zeta in HEP, HMM, HN, HG, HC;
  rewrite HC in HR |- *; clear HC Ca Cb Hnc;
  unfold tree, envd; den_simpl;
  replace (xa + (xb + 0)) with (xa + xb) by ring;
  replace (ya + (yb + 0)) with (ya + yb) by ring;
  replace (za + (zb + 0)) with (za + zb) by ring;
  replace (Ea + (Eb + 0)) with (Ea + Eb) by ring;
  set (X := xa + xb) in *; set (Y := ya + yb) in *; set (Z := za + zb) in *; set (EP := Ea + Eb) in *;
  assert (Exb : xb = X - xa) by (unfold X; ring); assert (Eyb : yb = Y - ya) by (unfold Y; ring);
  assert (Ezb : zb = Z - za) by (unfold Z; ring); assert (EEb : Eb = EP - Ea) by (unfold EP; ring);
  clearbody X Y Z EP; subst xb yb zb Eb;
  set (t := sqrt (X^2 + Y^2)); set (n := sqrt (X^2 + Y^2 + Z^2)) in *;
  set (M := sqrt (EP^2 - (X^2 + Y^2 + Z^2)));
  assert (Ht : 0 < t) by (apply sqrt_lt_R0; lra);
  assert (Hn : 0 < n) by (apply sqrt_lt_R0; lra);
  assert (HM : 0 < M) by (apply sqrt_lt_R0; lra);
  assert (Et : t * t = X^2 + Y^2) by (apply sqrt_sqrt; lra);
  assert (En : n * n = X^2 + Y^2 + Z^2) by (apply sqrt_sqrt; lra);
  assert (EM : M * M = EP^2 - (X^2 + Y^2 + Z^2)) by (apply sqrt_sqrt; lra);
  repeat match goal with
  | |- context [sqrt ?e] =>
      lazymatch e with context [sqrt _] => fail | _ => idtac end;
      first
      [ replace (sqrt e) with t by (unfold t; f_equal; ring)
      | replace (sqrt e) with n by (unfold n; f_equal; ring)
      | replace (sqrt e) with (t / n) by (unfold t, n; rewrite <- sqrt_ratio by lra; f_equal; field; lra)
      | replace (sqrt e) with (M / EP) by (unfold M; rewrite <- sqrt_over_sq by lra; f_equal; field; lra) ]
  end;
  pose proof (norm_lemma Ea xa ya za X Y Z EP t n M Ht Hn HM Et En EM) as NL;
  match goal with |- context [sqrt ?B] =>
    let r := match type of NL with _ = ?r => r end in
    assert (HB : B = r) by (rewrite <- NL; field; repeat split; lra);
    rewrite HB; clear HB end;
  clear NL;
  set (G := (Ea * EP - (xa * X + ya * Y + za * Z)) ^ 2
            - (EP ^ 2 - (X ^ 2 + Y ^ 2 + Z ^ 2)) * (Ea ^ 2 - xa ^ 2 - ya ^ 2 - za ^ 2)) in *;
  rewrite (sqrt_over_sq' G (EP^2 - (X^2 + Y^2 + Z^2))) by lra;
  fold M; fold n; set (sG := sqrt G) in *;
  assert (HsG : 0 < sG) by (apply sqrt_lt_R0; exact HG);
  match goal with |- _ /\ acos ?arg = acos ?rhs =>
    assert (HARG : arg = rhs);
    [ transitivity ((EP * (xa * X + ya * Y + za * Z) - Ea * (n * n)) / (n * sG));
      [ field; repeat split; lra | rewrite En; reflexivity ]
    | rewrite HARG; clear HARG ] end;
  split; [|reflexivity];
  repeat split; try exact I;
  try lra;
  try (apply Rgt_not_eq; lra);
  try (match goal with
       | |- 0 <= ?e => replace e with ((X^2 + Y^2) / (X^2 + Y^2 + Z^2)) by (field; lra);
                       apply Rlt_le, Rdiv_lt_0_compat; lra
       | |- 0 < ?e => replace e with ((EP^2 - (X^2 + Y^2 + Z^2)) / EP^2) by (field; lra);
                      apply Rdiv_lt_0_compat; [lra | apply pow_lt; lra]
       end);
  try (apply Rdiv_lt_0_compat; lra).

Section Trees.
  Variables E1 x1 y1 z1 E2 x2 y2 z2 E3 x3 y3 z3 : R.
  Let ρ := envMom E1 x1 y1 z1 E2 x2 y2 z2 E3 x3 y3 z3.

  Lemma hel_1_12_cse : hel_ok ρ hel_theta_1_12_cse E1 x1 y1 z1 E2 x2 y2 z2 E3.
  Proof. unfold ρ. hel_tac hel_theta_1_12_cse envMom E1 x1 y1 z1 E2 x2 y2 z2 E3. Qed.
  Lemma hel_1_12_nocse : hel_ok ρ hel_theta_1_12_nocse E1 x1 y1 z1 E2 x2 y2 z2 E3.
  Proof. unfold ρ. hel_tac hel_theta_1_12_nocse envMom E1 x1 y1 z1 E2 x2 y2 z2 E3. Qed.
  Lemma hel_2_23_cse : hel_ok ρ hel_theta_2_23_cse E2 x2 y2 z2 E3 x3 y3 z3 E1.
  Proof. unfold ρ. hel_tac hel_theta_2_23_cse envMom E2 x2 y2 z2 E3 x3 y3 z3 E1. Qed.
  Lemma hel_2_23_nocse : hel_ok ρ hel_theta_2_23_nocse E2 x2 y2 z2 E3 x3 y3 z3 E1.
  Proof. unfold ρ. hel_tac hel_theta_2_23_nocse envMom E2 x2 y2 z2 E3 x3 y3 z3 E1. Qed.
  Lemma hel_1_13_cse : hel_ok ρ hel_theta_1_13_cse E1 x1 y1 z1 E3 x3 y3 z3 E2.
  Proof. unfold ρ. hel_tac hel_theta_1_13_cse envMom E1 x1 y1 z1 E3 x3 y3 z3 E2. Qed.
  Lemma hel_1_13_nocse : hel_ok ρ hel_theta_1_13_nocse E1 x1 y1 z1 E3 x3 y3 z3 E2.
  Proof. unfold ρ. hel_tac hel_theta_1_13_nocse envMom E1 x1 y1 z1 E3 x3 y3 z3 E2. Qed.
End Trees.

(* ------------------------------------------------------------------ helicity angle = Dalitz closed form *)
(* On a three-body event in the rest frame of the parent (C19's [is_event]: E_i > 0, total
   three-momentum zero, m_i^2 = p_i^2 >= 0, m_jk^2 = (p_j + p_k)^2), in the interior of the Dalitz
   region (momenta not collinear), with the subsystem not flying exactly along the z axis. *)
Definition dalitz_ok (th sc : expr) (sel : v4 -> v4 -> v4 -> v4 * v4 * v4) : Prop :=
  forall E1 x1 y1 z1 E2 x2 y2 z2 E3 x3 y3 z3 m0 m1 m2 m3 m12 m13 m23,
  is_event E1 x1 y1 z1 E2 x2 y2 z2 E3 x3 y3 z3 m0 m1 m2 m3 m12 m13 m23 ->
  interior x2 y2 z2 x3 y3 z3 ->
  let abc := sel (V4 E1 x1 y1 z1) (V4 E2 x2 y2 z2) (V4 E3 x3 y3 z3) in
  let a := fst (fst abc) in let b := snd (fst abc) in let c := snd abc in
  0 < (vx a + vx b)^2 + (vy a + vy b)^2 ->
  let ρh := envMom E1 x1 y1 z1 E2 x2 y2 z2 E3 x3 y3 z3 in
  let ρd := envD m0 m1 m2 m3 m12 m13 m23 in
  wdR ρh th /\ wdR ρd sc /\
  denR ρh th = denR ρd sc /\
  denR ρh th = acos (- cosf (vadd a b) a c) /\
  cos (denR ρh th) = - cosf (vadd a b) a c /\
  -1 <= - cosf (vadd a b) a c <= 1.

Ltac dalitz_tac HEL SCAT :=
  unfold dalitz_ok;
  intros E1 x1 y1 z1 E2 x2 y2 z2 E3 x3 y3 z3 m0 m1 m2 m3 m12 m13 m23 Hev Hint;
  cbv zeta; cbn [fst snd vx vy]; intros Hz;
  destruct (SCAT _ _ _ _ _ _ _ _ _ _ _ _ _ _ _ _ _ _ _ Hev Hint) as (_ & Ws & Ds);
  cbv zeta in Ws, Ds; cbn [fst snd] in Ws, Ds;
  destruct Hev as (HE1 & HE2 & HE3 & Hx & Hy & Hzz & H0 & Hm1 & Hm2 & Hm3 & _);
  pose proof (causal_of_sq m1 (V4 E1 x1 y1 z1) HE1 Hm1) as C1;
  pose proof (causal_of_sq m2 (V4 E2 x2 y2 z2) HE2 Hm2) as C2;
  pose proof (causal_of_sq m3 (V4 E3 x3 y3 z3) HE3 Hm3) as C3;
  unfold interior in Hint;
  assert (X1 : x1 = - (x2 + x3)) by lra; assert (Y1 : y1 = - (y2 + y3)) by lra;
  assert (Z1 : z1 = - (z2 + z3)) by lra;
  match goal with
  | |- wdR ?rh ?th /\ _ /\ _ /\ _ = acos (- cosf (vadd ?a ?b) ?a ?c) /\ _ =>
      assert (Hnc : 0 < cross2 a b)
        by (replace (cross2 a b) with (cross2 (V4 0 x2 y2 z2) (V4 0 x3 y3 z3))
              by (v4_unfold; rewrite ?X1, ?Y1, ?Z1; ring); exact Hint);
      assert (Hc : c = V4 (vE c) (- (vx a + vx b)) (- (vy a + vy b)) (- (vz a + vz b)))
        by (cbn [vE vx vy vz]; f_equal; lra);
      cbn [vE vx vy vz] in Hc;
      destruct (HEL E1 x1 y1 z1 E2 x2 y2 z2 E3 x3 y3 z3) as [Wh Dh]; try assumption;
      rewrite <- Hc in Dh; clear Hc;
      split; [exact Wh|]; split; [exact Ws|];
      split; [rewrite Dh, Ds; f_equal; ring|]; split; [exact Dh|]
  end.

Lemma range_of (a b c : v4) : causal a -> causal b -> 0 < cross2 a b -> 0 < vE c ->
  vx c = - (vx a + vx b) -> vy c = - (vy a + vy b) -> vz c = - (vz a + vz b) ->
  -1 <= - cosf (vadd a b) a c <= 1.
Proof.
  destruct a as [Ea xa ya za], b as [Eb xb yb zb], c as [Ec xc yc zc]. cbn [vE vx vy vz].
  intros Ca Cb Hnc HEc -> -> ->.
  exact (ev_range Ea xa ya za Eb xb yb zb Ec Ca Cb Hnc HEc).
Qed.

Ltac dalitz_fin :=
  match goal with
  | Dh : denR _ _ = acos (- cosf (vadd ?a ?b) ?a ?c) |- _ =>
      assert (R : -1 <= - cosf (vadd a b) a c <= 1)
        by (apply range_of; cbn [vE vx vy vz]; try assumption; lra);
      split; [rewrite Dh; apply cos_acos; exact R | exact R]
  end.

Lemma dalitz_12_cse : dalitz_ok hel_theta_1_12_cse gen_scat_1_2 (fun p1 p2 p3 => (p1, p2, p3)).
Proof. dalitz_tac hel_1_12_cse scat_1_2_ok. dalitz_fin. Qed.
Lemma dalitz_12_nocse : dalitz_ok hel_theta_1_12_nocse gen_scat_1_2 (fun p1 p2 p3 => (p1, p2, p3)).
Proof. dalitz_tac hel_1_12_nocse scat_1_2_ok. dalitz_fin. Qed.
Lemma dalitz_23_cse : dalitz_ok hel_theta_2_23_cse gen_scat_2_3 (fun p1 p2 p3 => (p2, p3, p1)).
Proof. dalitz_tac hel_2_23_cse scat_2_3_ok. dalitz_fin. Qed.
Lemma dalitz_23_nocse : dalitz_ok hel_theta_2_23_nocse gen_scat_2_3 (fun p1 p2 p3 => (p2, p3, p1)).
Proof. dalitz_tac hel_2_23_nocse scat_2_3_ok. dalitz_fin. Qed.
Lemma dalitz_13_cse : dalitz_ok hel_theta_1_13_cse gen_scat_1_3 (fun p1 p2 p3 => (p1, p3, p2)).
Proof. dalitz_tac hel_1_13_cse scat_1_3_ok. dalitz_fin. Qed.
Lemma dalitz_13_nocse : dalitz_ok hel_theta_1_13_nocse gen_scat_1_3 (fun p1 p2 p3 => (p1, p3, p2)).
Proof. dalitz_tac hel_1_13_nocse scat_1_3_ok. dalitz_fin. Qed.
