(* C11 — keyword constructions (Gen_C11kw, regenerated from /repo): a phase-space class built from
   keyword arguments in any order, with or without name=, unfolds to the same tree as the positional
   construction, which is the gen_* tree all other C11 theorems are about. *)
From AV Require Import Ast.
From AVchk Require Import Gen_C11 Gen_C11kw.
From Coq Require Import List Bool.
Import ListNotations.

Definition c11_trees : list expr := [gen_q2; gen_psf; gen_abs; gen_cpx; gen_swave; gen_eqm].

Lemma kw_syntactic :
  forallb (fun p => expr_eqb (snd (fst p)) (snd p) && existsb (expr_eqb (snd p)) c11_trees) gen_kw = true.
Proof. vm_compute. reflexivity. Qed.

Lemma kw_positional_are_gen : list_eqb expr_eqb gen_kw_positional c11_trees = true.
Proof. vm_compute. reflexivity. Qed.

Lemma keyword_construction :
  Forall (fun p => snd (fst p) = snd p /\ In (snd p) c11_trees) gen_kw /\ (6 * 30 <= length gen_kw)%nat.
Proof.
  split.
  - apply Forall_forall. intros p Hin.
    pose proof kw_syntactic as H. rewrite forallb_forall in H. specialize (H p Hin).
    apply andb_true_iff in H. destruct H as [H1 H2]. split.
    + apply expr_eqb_eq. exact H1.
    + apply existsb_exists in H2. destruct H2 as [t [Ht E]]. apply expr_eqb_eq in E. rewrite E. exact Ht.
  - vm_compute. repeat constructor.
Qed.
