(* C19 — lemmas about the angle trees regenerated from /repo (Gen_C19). *)
From AV Require Import DenR PhspMath Dpd.
From AVchk Require Import Gen_C19.
From Coq Require Import Lra Lia Psatz Ratan.
Open Scope R_scope.

(* ================= specification vocabulary (written from the property text) ============ *)

Definition envD (m0 m1 m2 m3 m12 m13 m23 : R) : env :=
  env_of [("m_0", m0); ("m_1", m1); ("m_2", m2); ("m_3", m3);
          ("m_12", m12); ("m_13", m13); ("m_23", m23)].

(* A physical event in the rest frame of the parent: positive energies, total three-momentum
   zero, m0 the total energy, m_i^2 = p_i^2 (hence p_i^2 >= 0: time- or light-like),
   m_jk^2 = (p_j + p_k)^2.  The masses themselves may be any reals with these squares. *)
Definition is_event (E1 x1 y1 z1 E2 x2 y2 z2 E3 x3 y3 z3 m0 m1 m2 m3 m12 m13 m23 : R) : Prop :=
  let p1 := V4 E1 x1 y1 z1 in let p2 := V4 E2 x2 y2 z2 in let p3 := V4 E3 x3 y3 z3 in
  0 < E1 /\ 0 < E2 /\ 0 < E3 /\
  x1 + x2 + x3 = 0 /\ y1 + y2 + y3 = 0 /\ z1 + z2 + z3 = 0 /\
  m0 = E1 + E2 + E3 /\
  m1^2 = mdot p1 p1 /\ m2^2 = mdot p2 p2 /\ m3^2 = mdot p3 p3 /\
  m12^2 = mdot (vadd p1 p2) (vadd p1 p2) /\ m13^2 = mdot (vadd p1 p3) (vadd p1 p3) /\
  m23^2 = mdot (vadd p2 p3) (vadd p2 p3).

(* interior of the Dalitz region <=> the three momenta are not collinear
   (Kibble = -64 m0^4 |p2 x p3|^2, C20) *)
Definition interior (x2 y2 z2 x3 y3 z3 : R) : Prop :=
  0 < cross2 (V4 0 x2 y2 z2) (V4 0 x3 y3 z3).

(* particle momenta by index (0 = parent) and subsystem momenta (k) = sum of the other two *)
Definition pmom (p1 p2 p3 : v4) (i : nat) : v4 :=
  match i with 0%nat => vadd (vadd p1 p2) p3 | 1%nat => p1 | 2%nat => p2 | _ => p3 end.
Definition psub (p1 p2 p3 : v4) (k : nat) : v4 :=
  match k with 1%nat => vadd p2 p3 | 2%nat => vadd p1 p3 | _ => vadd p1 p2 end.
Definition third (i j : nat) : nat := (6 - i - j)%nat.

(* sign conventions of the DPD paper (Mikhasenko et al., PRD 101 (2020) 034033, App. A) *)
Definition nxt (n : nat) : nat := match n with 1%nat => 2%nat | 2%nat => 3%nat | _ => 1%nat end.
Definition tsign (i j : nat) : R := if Nat.eqb j (nxt i) then 1 else -1.
Definition zsign (i j k : nat) : R :=
  match i with
  | 0%nat => tsign j k
  | _ => if Nat.eqb j (nxt i) || Nat.eqb k (nxt (nxt i)) then 1 else -1
  end.

(* which index tuples must be rejected *)
Definition in123 (i : nat) : bool := Nat.leb 1 i && Nat.leb i 3.
Definition scat_raises (i j : nat) : bool := negb (in123 i && in123 j) || Nat.eqb i j.
Definition that_raises (i j : nat) : bool := negb (in123 i && in123 j).
Definition zeta_raises (i j k : nat) : bool :=
  negb (in123 j) || (Nat.eqb i 0 && negb (in123 k)).

Definition res := (expr + string)%type.
Definition lookup2 (tab : list ((nat * nat) * res)) (i j : nat) : option res :=
  match find (fun e => Nat.eqb (fst (fst e)) i && Nat.eqb (snd (fst e)) j) tab with
  | Some e => Some (snd e) | None => None end.
Definition lookup3 (tab : list ((nat * nat * nat) * res)) (i j k : nat) : option res :=
  match find (fun e => Nat.eqb (fst (fst (fst e))) i && Nat.eqb (snd (fst (fst e))) j
                       && Nat.eqb (snd (fst e)) k) tab with
  | Some e => Some (snd e) | None => None end.
Definition res_eqb (a b : option res) : bool :=
  match a, b with
  | Some (inl x), Some (inl y) => expr_eqb x y
  | Some (inr s), Some (inr t) => String.eqb s t
  | _, _ => false
  end.
Definition is_tree (a : option res) (t : expr) : bool := res_eqb a (Some (inl t)).
Definition raises (a : option res) : bool := match a with Some (inr _) => true | _ => false end.
Definition is_neg_of (a b : option res) : bool :=
  match a, b with
  | Some (inl x), Some (inl y) => expr_eqb x (neg_tree y)
  | _, _ => false
  end.
Definition idx4 : list nat := [0; 1; 2; 3]%nat.

(* ================= structure of the tables: all tuples, by computation ================= *)

Definition struct_scat : bool :=
  forallb (fun i => forallb (fun j =>
    Bool.eqb (raises (lookup2 scat_tab i j)) (scat_raises i j)
    && match lookup2 scat_tab i j with Some _ => true | None => false end) idx4) idx4.

Definition struct_that : bool :=
  forallb (fun i => forallb (fun j =>
    Bool.eqb (raises (lookup2 that_tab i j)) (that_raises i j)
    && (if that_raises i j then true
        else if Nat.eqb i j then is_tree (lookup2 that_tab i j) (Num 0)
        else is_neg_of (lookup2 that_tab i j) (lookup2 that_tab j i)
             || is_neg_of (lookup2 that_tab j i) (lookup2 that_tab i j))) idx4) idx4.

Definition struct_zeta : bool :=
  forallb (fun i => forallb (fun j => forallb (fun k =>
    Bool.eqb (raises (lookup3 zeta_tab i j k)) (zeta_raises i j k)
    (* zeta^0_{j(k)} is theta-hat_{j(k)}, error branches included *)
    && (if Nat.eqb i 0 then res_eqb (lookup3 zeta_tab i j k) (lookup2 that_tab j k) else true)
    (* zeta^i_{j(0)} = zeta^i_{j(i)}, error branches included *)
    && (if Nat.eqb k 0 && negb (Nat.eqb i 0)
        then res_eqb (lookup3 zeta_tab i j k) (lookup3 zeta_tab i j i) else true)
    (* zeta^i_{j(j)} = 0 *)
    && (if Nat.eqb j k && negb (zeta_raises i j k)
        then is_tree (lookup3 zeta_tab i j k) (Num 0) else true)
    (* antisymmetry under j <-> k *)
    && (if in123 j && in123 k && negb (Nat.eqb j k)
        then is_neg_of (lookup3 zeta_tab i j k) (lookup3 zeta_tab i k j)
             || is_neg_of (lookup3 zeta_tab i k j) (lookup3 zeta_tab i j k) else true))
    idx4) idx4) idx4.

Lemma struct_scat_ok : struct_scat = true.  Proof. vm_compute. reflexivity. Qed.
Lemma struct_that_ok : struct_that = true.  Proof. vm_compute. reflexivity. Qed.
Lemma struct_zeta_ok : struct_zeta = true.  Proof. vm_compute. reflexivity. Qed.

Lemma all4 (P : nat -> bool) : forallb P idx4 = true -> forall i, (i < 4)%nat -> P i = true.
Proof.
  intros H i Hi. cbn in H. repeat (apply andb_true_iff in H as [? H]).
  destruct i as [|[|[|[|]]]]; try assumption. lia.
Qed.

Lemma res_eqb_eq a b : res_eqb a b = true -> a = b /\ a <> None.
Proof.
  destruct a as [[x|s]|], b as [[y|t]|]; cbn; try discriminate; intros H.
  - apply expr_eqb_eq in H. subst. split; congruence.
  - apply String.eqb_eq in H. subst. split; congruence.
Qed.

Lemma is_neg_of_eq a b : is_neg_of a b = true ->
  exists x y, a = Some (inl x) /\ b = Some (inl y) /\ x = neg_tree y.
Proof.
  destruct a as [[x|s]|], b as [[y|t]|]; cbn; try discriminate; intros H.
  apply expr_eqb_eq in H. eauto.
Qed.

(* error branches *)
Lemma scat_errors i j : (i < 4)%nat -> (j < 4)%nat ->
  exists r, lookup2 scat_tab i j = Some r /\ ((exists s, r = inr s) <-> scat_raises i j = true).
Proof.
  intros Hi Hj. pose proof struct_scat_ok as S. unfold struct_scat in S.
  apply (all4 _ S) in Hi. apply (all4 _ Hi) in Hj. clear S Hi.
  apply andb_true_iff in Hj as [H1 H2]. apply Bool.eqb_prop in H1.
  destruct (lookup2 scat_tab i j) as [r|]; [|discriminate]. exists r. split; [reflexivity|].
  rewrite <- H1. destruct r; cbn; split; intros; try discriminate; eauto.
  destruct H as [? ?]; discriminate.
Qed.

Lemma that_errors i j : (i < 4)%nat -> (j < 4)%nat ->
  raises (lookup2 that_tab i j) = that_raises i j.
Proof.
  intros Hi Hj. pose proof struct_that_ok as S. unfold struct_that in S.
  apply (all4 _ S) in Hi. apply (all4 _ Hi) in Hj. clear S Hi.
  apply andb_true_iff in Hj as [H1 H2]. now apply Bool.eqb_prop in H1.
Qed.

Lemma zeta_struct i j k : (i < 4)%nat -> (j < 4)%nat -> (k < 4)%nat ->
  raises (lookup3 zeta_tab i j k) = zeta_raises i j k /\
  (i = 0%nat -> lookup3 zeta_tab i j k = lookup2 that_tab j k) /\
  (k = 0%nat -> i <> 0%nat -> lookup3 zeta_tab i j k = lookup3 zeta_tab i j i) /\
  (j = k -> zeta_raises i j k = false -> lookup3 zeta_tab i j k = Some (inl (Num 0))).
Proof.
  intros Hi Hj Hk. pose proof struct_zeta_ok as S. unfold struct_zeta in S.
  apply (all4 _ S) in Hi. apply (all4 _ Hi) in Hj. apply (all4 _ Hj) in Hk. clear S Hi Hj.
  apply andb_true_iff in Hk as [Hk A5]. apply andb_true_iff in Hk as [Hk A4].
  apply andb_true_iff in Hk as [Hk A3]. apply andb_true_iff in Hk as [Hk A2]. clear A5.
  apply Bool.eqb_prop in Hk. split; [exact Hk|]. split; [|split].
  - intros ->. change (Nat.eqb 0 0) with true in A2. cbv iota in A2. now apply res_eqb_eq in A2 as [? _].
  - intros -> Hi. destruct i as [|i']; [congruence|].
    change (Nat.eqb 0 0) with true in A3. change (Nat.eqb (S i') 0) with false in A3.
    cbv iota beta delta [negb andb] in A3. now apply res_eqb_eq in A3 as [? _].
  - intros -> Hr. rewrite Nat.eqb_refl, Hr in A4. cbv iota beta delta [negb andb] in A4.
    unfold is_tree in A4. now apply res_eqb_eq in A4 as [? _].
Qed.

Lemma that_diag i : (1 <= i <= 3)%nat -> lookup2 that_tab i i = Some (inl (Num 0)).
Proof.
  intros Hi. destruct i as [|[|[|[|]]]]; try lia; vm_compute; reflexivity.
Qed.

(* antisymmetry: semantic form valid in EVERY environment *)
Lemma neg_pair_den a b ρ : is_neg_of a b = true \/ is_neg_of b a = true ->
  exists x y, a = Some (inl x) /\ b = Some (inl y) /\ denR ρ x = - denR ρ y /\ (wdR ρ x <-> wdR ρ y).
Proof.
  intros [H|H]; apply is_neg_of_eq in H as (x & y & -> & -> & ->).
  - exists (neg_tree y), y. split; [reflexivity|]. split; [reflexivity|].
    split; [apply neg_tree_sound|]. unfold neg_tree. cbn [wdR wd_head]. tauto.
  - exists y, (neg_tree y). split; [reflexivity|]. split; [reflexivity|].
    split; [rewrite (proj2 (neg_tree_sound ρ y)); ring|]. unfold neg_tree. cbn [wdR wd_head]. tauto.
Qed.

Lemma that_antisym i j ρ : (1 <= i <= 3)%nat -> (1 <= j <= 3)%nat -> i <> j ->
  exists x y, lookup2 that_tab i j = Some (inl x) /\ lookup2 that_tab j i = Some (inl y) /\
              denR ρ x = - denR ρ y /\ (wdR ρ x <-> wdR ρ y).
Proof.
  intros Hi Hj Hij. pose proof struct_that_ok as S. unfold struct_that in S.
  assert (Hi4 : (i < 4)%nat) by lia. assert (Hj4 : (j < 4)%nat) by lia.
  apply (all4 _ S) in Hi4. apply (all4 _ Hi4) in Hj4. clear S Hi4.
  apply andb_true_iff in Hj4 as [_ H].
  assert (R : that_raises i j = false).
  { unfold that_raises, in123. destruct i as [|[|[|[|]]]], j as [|[|[|[|]]]]; try lia; reflexivity. }
  rewrite R in H. apply Nat.eqb_neq in Hij. rewrite Hij in H.
  apply neg_pair_den. now apply orb_true_iff in H.
Qed.

Lemma zeta_antisym i j k ρ : (i < 4)%nat -> (1 <= j <= 3)%nat -> (1 <= k <= 3)%nat -> j <> k ->
  exists x y, lookup3 zeta_tab i j k = Some (inl x) /\ lookup3 zeta_tab i k j = Some (inl y) /\
              denR ρ x = - denR ρ y /\ (wdR ρ x <-> wdR ρ y).
Proof.
  intros Hi Hj Hk Hjk. pose proof struct_zeta_ok as S. unfold struct_zeta in S.
  assert (Hj4 : (j < 4)%nat) by lia. assert (Hk4 : (k < 4)%nat) by lia.
  apply (all4 _ S) in Hi. apply (all4 _ Hi) in Hj4. apply (all4 _ Hj4) in Hk4. clear S Hi Hj4.
  apply andb_true_iff in Hk4 as [_ H].
  assert (R : in123 j && in123 k = true).
  { unfold in123. destruct j as [|[|[|[|]]]], k as [|[|[|[|]]]]; try lia; reflexivity. }
  rewrite R in H. apply Nat.eqb_neq in Hjk. rewrite Hjk in H. cbn [negb andb] in H.
  apply neg_pair_den. now apply orb_true_iff in H.
Qed.

(* ================= Kallen (its definition is part of the regenerated model) =========== *)
Definition envK (x y z : R) : env := env_of [("x", x); ("y", y); ("z", z)].
Lemma kallen_closed x y z : wdR (envK x y z) gen_kallen /\ denR (envK x y z) gen_kallen = kallenR x y z.
Proof. unfold gen_kallen, envK, kallenR. den_simpl. split; [repeat split|field]. Qed.

(* ================= analytic facts, one lemma per distinct arccosine ===================== *)

(* On every interior event, tree t is well defined and equals acos (s * cosf u a b),
   (u, a, b) chosen from the event's momenta by [sel]. *)
Definition angle_ok (t : expr) (s : R) (sel : v4 -> v4 -> v4 -> v4 * v4 * v4) : Prop :=
  forall E1 x1 y1 z1 E2 x2 y2 z2 E3 x3 y3 z3 m0 m1 m2 m3 m12 m13 m23,
  is_event E1 x1 y1 z1 E2 x2 y2 z2 E3 x3 y3 z3 m0 m1 m2 m3 m12 m13 m23 ->
  interior x2 y2 z2 x3 y3 z3 ->
  let uab := sel (V4 E1 x1 y1 z1) (V4 E2 x2 y2 z2) (V4 E3 x3 y3 z3) in
  (0 < gram (fst (fst uab)) (snd (fst uab)) (snd (fst uab)) /\
   0 < gram (fst (fst uab)) (snd uab) (snd uab) /\
   (gram (fst (fst uab)) (snd (fst uab)) (snd uab))^2
   <= gram (fst (fst uab)) (snd (fst uab)) (snd (fst uab)) * gram (fst (fst uab)) (snd uab) (snd uab)) /\
  wdR (envD m0 m1 m2 m3 m12 m13 m23) t /\
  denR (envD m0 m1 m2 m3 m12 m13 m23) t = acos (s * cosf (fst (fst uab)) (snd (fst uab)) (snd uab)).

Ltac pow4 m := try replace (m^4) with ((m^2)^2) by ring.

(* positivity of gram u a a on an interior event, by one of the two canonical forms *)
Lemma causal_of_sq m p : 0 < vE p -> m^2 = mdot p p -> causal p.
Proof. intros H E. split; [exact H|rewrite <- E; apply pow2_ge_0]. Qed.

Lemma gram_pair u a : causal u -> causal a -> 0 < cross2 u a -> 0 < gram u a a.
Proof.
  intros Hu Ha Hc. replace (gram u a a) with ((mdot u a)^2 - mdot u u * mdot a a)
    by (v4_unfold; ring). now apply pair_pos.
Qed.

Lemma sdot_pos_of_cross a b : 0 < cross2 a b -> 0 < sdot a a /\ 0 < sdot b b.
Proof.
  unfold cross2, sdot. intros H.
  assert (L : sdot a a * sdot b b - (sdot a b)^2 = cross2 a b) by (v4_unfold; ring).
  unfold sdot, cross2 in L.
  set (A := vx a * vx a + vy a * vy a + vz a * vz a) in *.
  set (B := vx b * vx b + vy b * vy b + vz b * vz b) in *.
  assert (0 <= A) by (unfold A; nra). assert (0 <= B) by (unfold B; nra).
  pose proof (pow2_ge_0 (vx a * vx b + vy a * vy b + vz a * vz b)).
  assert (0 < A * B) by lra. split.
  - destruct (Req_dec A 0) as [Z|]; [rewrite Z in *; lra|lra].
  - destruct (Req_dec B 0) as [Z|]; [rewrite Z in *; lra|lra].
Qed.

Ltac gram_positive E x2 y2 z2 x3 y3 z3 :=
  first [ apply gram_pair; [assumption|assumption|
            replace (cross2 _ _) with (cross2 (V4 0 x2 y2 z2) (V4 0 x3 y3 z3)) by (v4_unfold; ring);
            assumption]
        | match goal with |- 0 < ?g =>
            first [ replace g with (E^2 * ((- (x2 + x3))^2 + (- (y2 + y3))^2 + (- (z2 + z3))^2))
                      by (v4_unfold; ring)
                  | replace g with (E^2 * (x2^2 + y2^2 + z2^2)) by (v4_unfold; ring)
                  | replace g with (E^2 * (x3^2 + y3^2 + z3^2)) by (v4_unfold; ring) ]
          end; apply Rmult_lt_0_compat; [apply pow_lt; assumption|assumption] ].

Ltac solve_angle :=
  unfold angle_ok;
  intros E1 x1 y1 z1 E2 x2 y2 z2 E3 x3 y3 z3 m0 m1 m2 m3 m12 m13 m23 Hev Hint;
  destruct Hev as (HE1 & HE2 & HE3 & Hx & Hy & Hz & H0 & Hm1 & Hm2 & Hm3 & Hs3 & Hs2 & Hs1);
  assert (X1 : x1 = - (x2 + x3)) by lra; assert (Y1 : y1 = - (y2 + y3)) by lra;
  assert (Z1 : z1 = - (z2 + z3)) by lra; subst x1 y1 z1; clear Hx Hy Hz;
  unfold interior in Hint;
  pose proof (causal_of_sq m1 (V4 E1 (- (x2 + x3)) (- (y2 + y3)) (- (z2 + z3))) HE1 Hm1) as C1;
  pose proof (causal_of_sq m2 (V4 E2 x2 y2 z2) HE2 Hm2) as C2;
  pose proof (causal_of_sq m3 (V4 E3 x3 y3 z3) HE3 Hm3) as C3;
  assert (C12 : causal (vadd (V4 E1 (- (x2 + x3)) (- (y2 + y3)) (- (z2 + z3))) (V4 E2 x2 y2 z2)))
    by (apply causal_add; assumption);
  assert (C13 : causal (vadd (V4 E1 (- (x2 + x3)) (- (y2 + y3)) (- (z2 + z3))) (V4 E3 x3 y3 z3)))
    by (apply causal_add; assumption);
  assert (C23 : causal (vadd (V4 E2 x2 y2 z2) (V4 E3 x3 y3 z3))) by (apply causal_add; assumption);
  assert (C0 : causal (vadd (vadd (V4 E1 (- (x2 + x3)) (- (y2 + y3)) (- (z2 + z3))) (V4 E2 x2 y2 z2))
                            (V4 E3 x3 y3 z3))) by (apply causal_add; assumption);
  assert (S1 : 0 < (- (x2 + x3))^2 + (- (y2 + y3))^2 + (- (z2 + z3))^2)
    by (destruct (sdot_pos_of_cross (V4 0 (- (x2 + x3)) (- (y2 + y3)) (- (z2 + z3))) (V4 0 x2 y2 z2)) as [S _];
        [replace (cross2 _ _) with (cross2 (V4 0 x2 y2 z2) (V4 0 x3 y3 z3)) by (v4_unfold; ring); exact Hint
        |unfold sdot in S; cbn [vx vy vz] in S; lra]);
  assert (S2 : 0 < x2^2 + y2^2 + z2^2)
    by (destruct (sdot_pos_of_cross _ _ Hint) as [S _]; unfold sdot in S; cbn [vx vy vz] in S; lra);
  assert (S3 : 0 < x3^2 + y3^2 + z3^2)
    by (destruct (sdot_pos_of_cross _ _ Hint) as [_ S]; unfold sdot in S; cbn [vx vy vz] in S; lra);
  assert (M0 : 0 < E1 + E2 + E3) by lra;
  cbv zeta; cbn [fst snd];
  match goal with
  | |- (0 < ?A /\ 0 < ?B /\ ?G ^ 2 <= _) /\ _ =>
      assert (PA : 0 < A); [gram_positive (E1+E2+E3) x2 y2 z2 x3 y3 z3|];
      assert (PB : 0 < B); [gram_positive (E1+E2+E3) x2 y2 z2 x3 y3 z3|];
      assert (CS : G ^ 2 <= A * B);
      [ apply gram_cs;
        [ match goal with |- vE ?u <> 0 => assert (0 < vE u) by (cbn [vE vadd]; lra); lra end
        | first [ apply C1 | apply C2 | apply C3 | apply C12 | apply C13 | apply C23 | apply C0 ] ]
      | split; [split; [assumption|split; [assumption|assumption]]|] ]
  end;
  match goal with
  | |- wdR ?rho ?t /\ _ = acos (?s * cosf ?u ?a ?b) =>
      assert (TA : wdR rho t /\ denR rho t =
                   acos ((s * gram u a b) / (sqrt (gram u a a) * sqrt (gram u b b))));
      [ eapply tree_angle;
        [ vm_compute; reflexivity
        | vm_compute; reflexivity | vm_compute; reflexivity | vm_compute; reflexivity
        | unfold envD; den_simpl; subst m0;
          pow4 m1; pow4 m2; pow4 m3; pow4 m12; pow4 m13; pow4 m23;
          rewrite ?Hm1, ?Hm2, ?Hm3, ?Hs1, ?Hs2, ?Hs3; v4_unfold; field
        | unfold envD; den_simpl; subst m0;
          pow4 m1; pow4 m2; pow4 m3; pow4 m12; pow4 m13; pow4 m23;
          rewrite ?Hm1, ?Hm2, ?Hm3, ?Hs1, ?Hs2, ?Hs3;
          first [ left; split; v4_unfold; field | right; split; v4_unfold; field ]
        | assumption | assumption
        | match goal with |- (?s * ?g)^2 <= _ => replace ((s * g)^2) with (g^2) by ring end; assumption ]
      | destruct TA as [TA1 TA2]; split; [exact TA1|];
        rewrite TA2; f_equal; unfold cosf, Rdiv; ring ]
  end.

(* theta-hat: u = parent *)
Lemma that_1_2_ok : angle_ok gen_that_1_2 1 (fun p1 p2 p3 => (vadd (vadd p1 p2) p3, p1, p2)).
Proof. solve_angle. Qed.
Lemma that_2_3_ok : angle_ok gen_that_2_3 1 (fun p1 p2 p3 => (vadd (vadd p1 p2) p3, p2, p3)).
Proof. solve_angle. Qed.
Lemma that_3_1_ok : angle_ok gen_that_3_1 1 (fun p1 p2 p3 => (vadd (vadd p1 p2) p3, p3, p1)).
Proof. solve_angle. Qed.

(* scattering angles: u = p_i + p_j, a = p_i, b = spectator; sign -1 *)
Lemma scat_1_2_ok : angle_ok gen_scat_1_2 (-1) (fun p1 p2 p3 => (vadd p1 p2, p1, p3)).
Proof. solve_angle. Qed.
Lemma scat_2_1_ok : angle_ok gen_scat_2_1 (-1) (fun p1 p2 p3 => (vadd p1 p2, p2, p3)).
Proof. solve_angle. Qed.
Lemma scat_1_3_ok : angle_ok gen_scat_1_3 (-1) (fun p1 p2 p3 => (vadd p1 p3, p1, p2)).
Proof. solve_angle. Qed.
Lemma scat_3_1_ok : angle_ok gen_scat_3_1 (-1) (fun p1 p2 p3 => (vadd p1 p3, p3, p2)).
Proof. solve_angle. Qed.
Lemma scat_2_3_ok : angle_ok gen_scat_2_3 (-1) (fun p1 p2 p3 => (vadd p2 p3, p2, p1)).
Proof. solve_angle. Qed.
Lemma scat_3_2_ok : angle_ok gen_scat_3_2 (-1) (fun p1 p2 p3 => (vadd p2 p3, p3, p1)).
Proof. solve_angle. Qed.

(* alignment angles: u = p_i, a = momentum of subsystem (j), b = momentum of subsystem (k) *)
Lemma zeta_1_1_3_ok : angle_ok gen_zeta_1_1_3 1 (fun p1 p2 p3 => (p1, vadd p2 p3, vadd p1 p2)).
Proof. solve_angle. Qed.
Lemma zeta_1_2_1_ok : angle_ok gen_zeta_1_2_1 1 (fun p1 p2 p3 => (p1, vadd p1 p3, vadd p2 p3)).
Proof. solve_angle. Qed.
Lemma zeta_1_2_3_ok : angle_ok gen_zeta_1_2_3 1 (fun p1 p2 p3 => (p1, vadd p1 p3, vadd p1 p2)).
Proof. solve_angle. Qed.
Lemma zeta_2_2_1_ok : angle_ok gen_zeta_2_2_1 1 (fun p1 p2 p3 => (p2, vadd p1 p3, vadd p2 p3)).
Proof. solve_angle. Qed.
Lemma zeta_2_3_2_ok : angle_ok gen_zeta_2_3_2 1 (fun p1 p2 p3 => (p2, vadd p1 p2, vadd p1 p3)).
Proof. solve_angle. Qed.
Lemma zeta_2_3_1_ok : angle_ok gen_zeta_2_3_1 1 (fun p1 p2 p3 => (p2, vadd p1 p2, vadd p2 p3)).
Proof. solve_angle. Qed.
Lemma zeta_3_3_2_ok : angle_ok gen_zeta_3_3_2 1 (fun p1 p2 p3 => (p3, vadd p1 p2, vadd p1 p3)).
Proof. solve_angle. Qed.
Lemma zeta_3_1_3_ok : angle_ok gen_zeta_3_1_3 1 (fun p1 p2 p3 => (p3, vadd p2 p3, vadd p1 p2)).
Proof. solve_angle. Qed.
Lemma zeta_3_1_2_ok : angle_ok gen_zeta_3_1_2 1 (fun p1 p2 p3 => (p3, vadd p2 p3, vadd p1 p3)).
Proof. solve_angle. Qed.

(* ================= composing the per-tree facts into statements over ALL tuples ========= *)

Lemma cosf_sym u a b : cosf u a b = cosf u b a.
Proof. unfold cosf, gram. rewrite (Rmult_comm (sqrt _)). f_equal. ring_simplify.
  replace (mdot a b) with (mdot b a) by (unfold mdot; ring). ring. Qed.

Lemma neg_case ρ t t' v : t = neg_tree t' -> wdR ρ t' /\ denR ρ t' = v ->
  wdR ρ t /\ denR ρ t = -1 * v.
Proof.
  intros -> [W D]. split; [now apply neg_tree_sound|].
  rewrite (proj2 (neg_tree_sound ρ t')), D. ring.
Qed.

Lemma event_sdot_pos E1 x1 y1 z1 E2 x2 y2 z2 E3 x3 y3 z3 m0 m1 m2 m3 m12 m13 m23 :
  is_event E1 x1 y1 z1 E2 x2 y2 z2 E3 x3 y3 z3 m0 m1 m2 m3 m12 m13 m23 ->
  interior x2 y2 z2 x3 y3 z3 ->
  0 < m0 /\ 0 < sdot (V4 E1 x1 y1 z1) (V4 E1 x1 y1 z1) /\
  0 < sdot (V4 E2 x2 y2 z2) (V4 E2 x2 y2 z2) /\ 0 < sdot (V4 E3 x3 y3 z3) (V4 E3 x3 y3 z3).
Proof.
  intros Hev Hint.
  destruct Hev as (HE1 & HE2 & HE3 & Hx & Hy & Hz & H0 & _).
  assert (X1 : x1 = - (x2 + x3)) by lra. assert (Y1 : y1 = - (y2 + y3)) by lra.
  assert (Z1 : z1 = - (z2 + z3)) by lra. subst x1 y1 z1. unfold interior in Hint.
  split; [lra|].
  destruct (sdot_pos_of_cross _ _ Hint) as [S2 S3].
  destruct (sdot_pos_of_cross (V4 0 (- (x2 + x3)) (- (y2 + y3)) (- (z2 + z3))) (V4 0 x2 y2 z2)) as [S1 _].
  { replace (cross2 _ _) with (cross2 (V4 0 x2 y2 z2) (V4 0 x3 y3 z3)) by (v4_unfold; ring). exact Hint. }
  unfold sdot in *. cbn [vx vy vz] in *. repeat split; assumption.
Qed.

Section OnEvent.
  Variables E1 x1 y1 z1 E2 x2 y2 z2 E3 x3 y3 z3 m0 m1 m2 m3 m12 m13 m23 : R.
  Hypothesis Hev : is_event E1 x1 y1 z1 E2 x2 y2 z2 E3 x3 y3 z3 m0 m1 m2 m3 m12 m13 m23.
  Hypothesis Hint : interior x2 y2 z2 x3 y3 z3.
  Let P1 := V4 E1 x1 y1 z1.  Let P2 := V4 E2 x2 y2 z2.  Let P3 := V4 E3 x3 y3 z3.
  Let ρ := envD m0 m1 m2 m3 m12 m13 m23.

  Ltac use L := destruct (L _ _ _ _ _ _ _ _ _ _ _ _ _ _ _ _ _ _ _ Hev Hint) as (_ & W & D);
                cbv zeta in W, D; cbn [fst snd] in W, D.

  (* ---- theta-hat ---- *)
  Lemma p0_rest : vx (pmom P1 P2 P3 0) = 0 /\ vy (pmom P1 P2 P3 0) = 0 /\ vz (pmom P1 P2 P3 0) = 0
                  /\ vE (pmom P1 P2 P3 0) <> 0.
  Proof.
    destruct Hev as (HE1 & HE2 & HE3 & Hx & Hy & Hz & _).
    unfold pmom, P1, P2, P3, vadd. cbn [vE vx vy vz]. repeat split; lra.
  Qed.

  Lemma that_geometric i j : (1 <= i <= 3)%nat -> (1 <= j <= 3)%nat -> i <> j ->
    exists t, lookup2 that_tab i j = Some (inl t) /\ wdR ρ t /\
              denR ρ t = tsign i j * acos (cos3 (pmom P1 P2 P3 i) (pmom P1 P2 P3 j)).
  Proof.
    intros Hi Hj Hij. unfold ρ, P1, P2, P3.
    destruct (event_sdot_pos _ _ _ _ _ _ _ _ _ _ _ _ _ _ _ _ _ _ _ Hev Hint) as (_ & S1 & S2 & S3).
    destruct p0_rest as (R1 & R2 & R3 & R4).
    assert (Cs : forall a b, 0 < sdot a a -> 0 < sdot b b ->
                 cosf (pmom P1 P2 P3 0) a b = cos3 a b) by (intros; now apply cosf_rest).
    unfold pmom, P1, P2, P3 in Cs.
    destruct i as [|[|[|[|]]]], j as [|[|[|[|]]]]; try lia; unfold tsign; cbn [nxt Nat.eqb pmom].
    - exists gen_that_1_2. split; [reflexivity|]. use that_1_2_ok.
      split; [exact W|]. rewrite D, Rmult_1_l, Rmult_1_l. f_equal. now apply Cs.
    - exists gen_that_1_3. split; [reflexivity|].
      apply (neg_case _ _ gen_that_3_1); [vm_compute; reflexivity|]. use that_3_1_ok.
      split; [exact W|]. rewrite D, Rmult_1_l. f_equal. rewrite cosf_sym. now apply Cs.
    - exists gen_that_2_1. split; [reflexivity|].
      apply (neg_case _ _ gen_that_1_2); [vm_compute; reflexivity|]. use that_1_2_ok.
      split; [exact W|]. rewrite D, Rmult_1_l. f_equal. rewrite cosf_sym. now apply Cs.
    - exists gen_that_2_3. split; [reflexivity|]. use that_2_3_ok.
      split; [exact W|]. rewrite D, Rmult_1_l, Rmult_1_l. f_equal. now apply Cs.
    - exists gen_that_3_1. split; [reflexivity|]. use that_3_1_ok.
      split; [exact W|]. rewrite D, Rmult_1_l, Rmult_1_l. f_equal. now apply Cs.
    - exists gen_that_3_2. split; [reflexivity|].
      apply (neg_case _ _ gen_that_2_3); [vm_compute; reflexivity|]. use that_2_3_ok.
      split; [exact W|]. rewrite D, Rmult_1_l. f_equal. rewrite cosf_sym. now apply Cs.
  Qed.

  (* |cos| <= 1 for the Euclidean cosine (Cauchy-Schwarz / Lagrange), recorded for the report *)
  Lemma cos3_range a b : 0 < sdot a a -> 0 < sdot b b -> -1 <= cos3 a b <= 1.
  Proof.
    intros Ha Hb. unfold cos3. apply cos_range; try assumption.
    assert (L : sdot a a * sdot b b - (sdot a b)^2 = cross2 a b) by (v4_unfold; ring).
    assert (0 <= cross2 a b).
    { unfold cross2. repeat apply Rplus_le_le_0_compat; apply pow2_ge_0. }
    lra.
  Qed.

  (* ---- scattering angles ---- *)
  Lemma scat_geometric i j : (1 <= i <= 3)%nat -> (1 <= j <= 3)%nat -> i <> j ->
    exists t, lookup2 scat_tab i j = Some (inl t) /\ wdR ρ t /\
              denR ρ t = acos (- cosf (psub P1 P2 P3 (third i j)) (pmom P1 P2 P3 i)
                                      (pmom P1 P2 P3 (third i j))).
  Proof.
    intros Hi Hj Hij. unfold ρ, P1, P2, P3.
    destruct i as [|[|[|[|]]]], j as [|[|[|[|]]]]; try lia; cbn [third Nat.sub pmom psub].
    - exists gen_scat_1_2. split; [reflexivity|]. use scat_1_2_ok. split; [exact W|].
      rewrite D. f_equal. ring.
    - exists gen_scat_1_3. split; [reflexivity|]. use scat_1_3_ok. split; [exact W|].
      rewrite D. f_equal. ring.
    - exists gen_scat_2_1. split; [reflexivity|]. use scat_2_1_ok. split; [exact W|].
      rewrite D. f_equal. ring.
    - exists gen_scat_2_3. split; [reflexivity|]. use scat_2_3_ok. split; [exact W|].
      rewrite D. f_equal. ring.
    - exists gen_scat_3_1. split; [reflexivity|]. use scat_3_1_ok. split; [exact W|].
      rewrite D. f_equal. ring.
    - exists gen_scat_3_2. split; [reflexivity|]. use scat_3_2_ok. split; [exact W|].
      rewrite D. f_equal. ring.
  Qed.

  Lemma cosf_partner_l a a' b : cosf (vadd a a') a' b = - cosf (vadd a a') a b.
  Proof.
    unfold cosf.
    replace (gram (vadd a a') a' b) with (- gram (vadd a a') a b) by (v4_unfold; ring).
    replace (gram (vadd a a') a' a') with (gram (vadd a a') a a) by (v4_unfold; ring).
    unfold Rdiv. ring.
  Qed.
  Lemma cosf_partner_r a a' b : cosf (vadd a' a) a' b = - cosf (vadd a' a) a b.
  Proof.
    unfold cosf.
    replace (gram (vadd a' a) a' b) with (- gram (vadd a' a) a b) by (v4_unfold; ring).
    replace (gram (vadd a' a) a' a') with (gram (vadd a' a) a a) by (v4_unfold; ring).
    unfold Rdiv. ring.
  Qed.

  Lemma scat_sum_pi i j : (1 <= i <= 3)%nat -> (1 <= j <= 3)%nat -> i <> j ->
    exists t1 t2, lookup2 scat_tab i j = Some (inl t1) /\ lookup2 scat_tab j i = Some (inl t2) /\
                  wdR ρ t1 /\ wdR ρ t2 /\ denR ρ t1 + denR ρ t2 = PI.
  Proof.
    intros Hi Hj Hij.
    destruct (scat_geometric i j Hi Hj Hij) as (t1 & L1 & W1 & D1).
    destruct (scat_geometric j i Hj Hi (not_eq_sym Hij)) as (t2 & L2 & W2 & D2).
    exists t1, t2. repeat split; try assumption. rewrite D1, D2.
    destruct i as [|[|[|[|]]]], j as [|[|[|[|]]]]; try lia; cbn [third Nat.sub pmom psub];
      first [ rewrite (cosf_partner_l _ _ _) | rewrite (cosf_partner_r _ _ _) ];
      rewrite Ropp_involutive, acos_opp; ring.
  Qed.

  (* ---- alignment angles, rotated state i in {1,2,3} ---- *)
  Lemma zeta_geometric i j k : (1 <= i <= 3)%nat -> (1 <= j <= 3)%nat -> (1 <= k <= 3)%nat -> j <> k ->
    exists t, lookup3 zeta_tab i j k = Some (inl t) /\ wdR ρ t /\
              denR ρ t = zsign i j k * acos (cosf (pmom P1 P2 P3 i) (psub P1 P2 P3 j) (psub P1 P2 P3 k)).
  Proof.
    intros Hi Hj Hk Hjk. unfold ρ, P1, P2, P3.
    Ltac zpos G L := exists G; split; [reflexivity|];
                     destruct (L _ _ _ _ _ _ _ _ _ _ _ _ _ _ _ _ _ _ _ Hev Hint) as (_ & W & D);
                     cbv zeta in W, D; cbn [fst snd] in W, D; split; [exact W|];
                     rewrite D, !Rmult_1_l; reflexivity.
    Ltac zneg G G' L := exists G; split; [reflexivity|];
                        apply (neg_case _ _ G'); [vm_compute; reflexivity|];
                        destruct (L _ _ _ _ _ _ _ _ _ _ _ _ _ _ _ _ _ _ _ Hev Hint) as (_ & W & D);
                        cbv zeta in W, D; cbn [fst snd] in W, D;
                        split; [exact W|]; rewrite D, Rmult_1_l; f_equal; apply cosf_sym.
    destruct i as [|[|[|[|]]]], j as [|[|[|[|]]]], k as [|[|[|[|]]]]; try lia;
      unfold zsign; cbn [nxt Nat.eqb orb pmom psub].
    - zneg gen_zeta_1_1_2 gen_zeta_1_2_1 zeta_1_2_1_ok.
    - zpos gen_zeta_1_1_3 zeta_1_1_3_ok.
    - zpos gen_zeta_1_2_1 zeta_1_2_1_ok.
    - zpos gen_zeta_1_2_3 zeta_1_2_3_ok.
    - zneg gen_zeta_1_3_1 gen_zeta_1_1_3 zeta_1_1_3_ok.
    - zneg gen_zeta_1_3_2 gen_zeta_1_2_3 zeta_1_2_3_ok.
    - zneg gen_zeta_2_1_2 gen_zeta_2_2_1 zeta_2_2_1_ok.
    - zneg gen_zeta_2_1_3 gen_zeta_2_3_1 zeta_2_3_1_ok.
    - zpos gen_zeta_2_2_1 zeta_2_2_1_ok.
    - zneg gen_zeta_2_2_3 gen_zeta_2_3_2 zeta_2_3_2_ok.
    - zpos gen_zeta_2_3_1 zeta_2_3_1_ok.
    - zpos gen_zeta_2_3_2 zeta_2_3_2_ok.
    - zpos gen_zeta_3_1_2 zeta_3_1_2_ok.
    - zpos gen_zeta_3_1_3 zeta_3_1_3_ok.
    - zneg gen_zeta_3_2_1 gen_zeta_3_1_2 zeta_3_1_2_ok.
    - zneg gen_zeta_3_2_3 gen_zeta_3_3_2 zeta_3_3_2_ok.
    - zneg gen_zeta_3_3_1 gen_zeta_3_1_3 zeta_3_1_3_ok.
    - zpos gen_zeta_3_3_2 zeta_3_3_2_ok.
  Qed.
End OnEvent.

(* ================= the cyclic sum rule, at the level of the angles ======================= *)
Lemma sum_rule_gen u a b c :
  gram u a a = gram u b b + gram u c c + 2 * gram u b c ->
  gram u b a = gram u b b + gram u b c ->
  gram u a c = gram u c c + gram u b c ->
  0 < gram u b b -> 0 < gram u c c -> 0 < gram u a a ->
  (gram u b c)^2 <= gram u b b * gram u c c ->
  acos (cosf u b a) + acos (cosf u a c) = acos (cosf u b c).
Proof.
  intros H1 H2 H3 PB PC PA CS. unfold cosf. rewrite H2, H3. rewrite H1 in *.
  rewrite (Rmult_comm (sqrt (gram u b b)) (sqrt (gram u b b + gram u c c + 2 * gram u b c))).
  now apply acos_sum.
Qed.

Section SumRule.
  Variables E1 x1 y1 z1 E2 x2 y2 z2 E3 x3 y3 z3 m0 m1 m2 m3 m12 m13 m23 : R.
  Hypothesis Hev : is_event E1 x1 y1 z1 E2 x2 y2 z2 E3 x3 y3 z3 m0 m1 m2 m3 m12 m13 m23.
  Hypothesis Hint : interior x2 y2 z2 x3 y3 z3.
  Let P1 := V4 E1 x1 y1 z1.  Let P2 := V4 E2 x2 y2 z2.  Let P3 := V4 E3 x3 y3 z3.
  Let ρ := envD m0 m1 m2 m3 m12 m13 m23.

  (* for each rotated state i: positivity of the three diagonal Gram values and Cauchy-Schwarz *)
  Lemma gram_facts i : (1 <= i <= 3)%nat ->
    let u := pmom P1 P2 P3 i in
    let s1 := psub P1 P2 P3 1 in let s2 := psub P1 P2 P3 2 in let s3 := psub P1 P2 P3 3 in
    0 < gram u s1 s1 /\ 0 < gram u s2 s2 /\ 0 < gram u s3 s3 /\
    (gram u s1 s2)^2 <= gram u s1 s1 * gram u s2 s2 /\
    (gram u s1 s3)^2 <= gram u s1 s1 * gram u s3 s3 /\
    (gram u s2 s3)^2 <= gram u s2 s2 * gram u s3 s3.
  Proof.
    intros Hi. unfold P1, P2, P3.
    destruct i as [|[|[|[|]]]]; try lia; cbv zeta; cbn [pmom psub].
    - destruct (zeta_1_1_3_ok _ _ _ _ _ _ _ _ _ _ _ _ _ _ _ _ _ _ _ Hev Hint) as ((A1 & A2 & A3) & _).
      destruct (zeta_1_2_1_ok _ _ _ _ _ _ _ _ _ _ _ _ _ _ _ _ _ _ _ Hev Hint) as ((B1 & B2 & B3) & _).
      destruct (zeta_1_2_3_ok _ _ _ _ _ _ _ _ _ _ _ _ _ _ _ _ _ _ _ Hev Hint) as ((C1 & C2 & C3) & _).
      cbv zeta in *. cbn [fst snd] in *. repeat split; try assumption.
      rewrite (Rmult_comm (gram _ (vadd _ _) (vadd _ _))).
      replace (gram (V4 E1 x1 y1 z1) (vadd (V4 E2 x2 y2 z2) (V4 E3 x3 y3 z3)) (vadd (V4 E1 x1 y1 z1) (V4 E3 x3 y3 z3)))
        with (gram (V4 E1 x1 y1 z1) (vadd (V4 E1 x1 y1 z1) (V4 E3 x3 y3 z3)) (vadd (V4 E2 x2 y2 z2) (V4 E3 x3 y3 z3)))
        by (v4_unfold; ring). exact B3.
    - destruct (zeta_2_2_1_ok _ _ _ _ _ _ _ _ _ _ _ _ _ _ _ _ _ _ _ Hev Hint) as ((A1 & A2 & A3) & _).
      destruct (zeta_2_3_2_ok _ _ _ _ _ _ _ _ _ _ _ _ _ _ _ _ _ _ _ Hev Hint) as ((B1 & B2 & B3) & _).
      destruct (zeta_2_3_1_ok _ _ _ _ _ _ _ _ _ _ _ _ _ _ _ _ _ _ _ Hev Hint) as ((C1 & C2 & C3) & _).
      cbv zeta in *. cbn [fst snd] in *. repeat split; try assumption.
      + rewrite (Rmult_comm (gram _ (vadd _ _) (vadd _ _))).
        replace (gram (V4 E2 x2 y2 z2) (vadd (V4 E2 x2 y2 z2) (V4 E3 x3 y3 z3)) (vadd (V4 E1 x1 y1 z1) (V4 E3 x3 y3 z3)))
          with (gram (V4 E2 x2 y2 z2) (vadd (V4 E1 x1 y1 z1) (V4 E3 x3 y3 z3)) (vadd (V4 E2 x2 y2 z2) (V4 E3 x3 y3 z3)))
          by (v4_unfold; ring). exact A3.
      + rewrite (Rmult_comm (gram _ (vadd _ _) (vadd _ _))).
        replace (gram (V4 E2 x2 y2 z2) (vadd (V4 E2 x2 y2 z2) (V4 E3 x3 y3 z3)) (vadd (V4 E1 x1 y1 z1) (V4 E2 x2 y2 z2)))
          with (gram (V4 E2 x2 y2 z2) (vadd (V4 E1 x1 y1 z1) (V4 E2 x2 y2 z2)) (vadd (V4 E2 x2 y2 z2) (V4 E3 x3 y3 z3)))
          by (v4_unfold; ring). exact C3.
      + rewrite (Rmult_comm (gram _ (vadd _ _) (vadd _ _))).
        replace (gram (V4 E2 x2 y2 z2) (vadd (V4 E1 x1 y1 z1) (V4 E3 x3 y3 z3)) (vadd (V4 E1 x1 y1 z1) (V4 E2 x2 y2 z2)))
          with (gram (V4 E2 x2 y2 z2) (vadd (V4 E1 x1 y1 z1) (V4 E2 x2 y2 z2)) (vadd (V4 E1 x1 y1 z1) (V4 E3 x3 y3 z3)))
          by (v4_unfold; ring). exact B3.
    - destruct (zeta_3_3_2_ok _ _ _ _ _ _ _ _ _ _ _ _ _ _ _ _ _ _ _ Hev Hint) as ((A1 & A2 & A3) & _).
      destruct (zeta_3_1_3_ok _ _ _ _ _ _ _ _ _ _ _ _ _ _ _ _ _ _ _ Hev Hint) as ((B1 & B2 & B3) & _).
      destruct (zeta_3_1_2_ok _ _ _ _ _ _ _ _ _ _ _ _ _ _ _ _ _ _ _ Hev Hint) as ((C1 & C2 & C3) & _).
      cbv zeta in *. cbn [fst snd] in *. repeat split; try assumption.
      rewrite (Rmult_comm (gram _ (vadd _ _) (vadd _ _))).
      replace (gram (V4 E3 x3 y3 z3) (vadd (V4 E1 x1 y1 z1) (V4 E3 x3 y3 z3)) (vadd (V4 E1 x1 y1 z1) (V4 E2 x2 y2 z2)))
        with (gram (V4 E3 x3 y3 z3) (vadd (V4 E1 x1 y1 z1) (V4 E2 x2 y2 z2)) (vadd (V4 E1 x1 y1 z1) (V4 E3 x3 y3 z3)))
        by (v4_unfold; ring). exact A3.
  Qed.

  Lemma zeta_sum_rule i j k : (1 <= i <= 3)%nat -> (1 <= j <= 3)%nat -> (1 <= k <= 3)%nat ->
    i <> j -> i <> k -> j <> k ->
    exists t1 t2 t3,
      lookup3 zeta_tab i j k = Some (inl t1) /\ lookup3 zeta_tab i j i = Some (inl t2) /\
      lookup3 zeta_tab i i k = Some (inl t3) /\ wdR ρ t1 /\ wdR ρ t2 /\ wdR ρ t3 /\
      denR ρ t1 = denR ρ t2 + denR ρ t3.
  Proof.
    intros Hi Hj Hk Hij Hik Hjk.
    destruct (zeta_geometric _ _ _ _ _ _ _ _ _ _ _ _ _ _ _ _ _ _ _ Hev Hint i j k Hi Hj Hk Hjk) as (t1 & L1 & W1 & D1).
    destruct (zeta_geometric _ _ _ _ _ _ _ _ _ _ _ _ _ _ _ _ _ _ _ Hev Hint i j i Hi Hj Hi (not_eq_sym Hij)) as (t2 & L2 & W2 & D2).
    destruct (zeta_geometric _ _ _ _ _ _ _ _ _ _ _ _ _ _ _ _ _ _ _ Hev Hint i i k Hi Hi Hk Hik) as (t3 & L3 & W3 & D3).
    exists t1, t2, t3. repeat split; try assumption.
    fold P1 P2 P3 in D1, D2, D3. fold ρ in D1, D2, D3. rewrite D1, D2, D3.
    pose proof (gram_facts i Hi) as F. cbv zeta in F.
    destruct F as (F1 & F2 & F3 & F12 & F13 & F23).
    assert (S : forall b a c sg,
      gram (pmom P1 P2 P3 i) a a = gram (pmom P1 P2 P3 i) b b + gram (pmom P1 P2 P3 i) c c + 2 * gram (pmom P1 P2 P3 i) b c ->
      gram (pmom P1 P2 P3 i) b a = gram (pmom P1 P2 P3 i) b b + gram (pmom P1 P2 P3 i) b c ->
      gram (pmom P1 P2 P3 i) a c = gram (pmom P1 P2 P3 i) c c + gram (pmom P1 P2 P3 i) b c ->
      0 < gram (pmom P1 P2 P3 i) b b -> 0 < gram (pmom P1 P2 P3 i) c c -> 0 < gram (pmom P1 P2 P3 i) a a ->
      (gram (pmom P1 P2 P3 i) b c)^2 <= gram (pmom P1 P2 P3 i) b b * gram (pmom P1 P2 P3 i) c c ->
      sg * acos (cosf (pmom P1 P2 P3 i) b c)
      = sg * acos (cosf (pmom P1 P2 P3 i) b a) + sg * acos (cosf (pmom P1 P2 P3 i) a c)).
    { intros b a c sg G1 G2 G3 Q1 Q2 Q3 Q4.
      rewrite <- (sum_rule_gen _ a b c G1 G2 G3 Q1 Q2 Q3 Q4). ring. }
    destruct i as [|[|[|[|]]]], j as [|[|[|[|]]]], k as [|[|[|[|]]]]; try lia;
      unfold zsign; cbn [nxt Nat.eqb orb pmom psub] in *;
      apply S; try assumption; try (unfold P1, P2, P3; v4_unfold; ring).
    all: rewrite (Rmult_comm (gram _ (vadd _ _) (vadd _ _)));
      match goal with H : (?g)^2 <= ?r |- (?g')^2 <= ?r =>
        replace g' with g by (unfold P1, P2, P3; v4_unfold; ring); exact H end.
  Qed.
End SumRule.

(* ================= every arccosine argument is in range: wdR of EVERY generated tree ====== *)
Lemma in123_spec i : (i < 4)%nat -> (in123 i = true <-> (1 <= i <= 3)%nat).
Proof. intros H. destruct i as [|[|[|[|]]]]; try lia; cbn; split; intros; try lia; try discriminate; reflexivity. Qed.

Lemma raises_false_inl (r : option res) t : r = Some (inl t) -> raises r = false.
Proof. now intros ->. Qed.

Section AllWd.
  Variables E1 x1 y1 z1 E2 x2 y2 z2 E3 x3 y3 z3 m0 m1 m2 m3 m12 m13 m23 : R.
  Hypothesis Hev : is_event E1 x1 y1 z1 E2 x2 y2 z2 E3 x3 y3 z3 m0 m1 m2 m3 m12 m13 m23.
  Hypothesis Hint : interior x2 y2 z2 x3 y3 z3.
  Let ρ := envD m0 m1 m2 m3 m12 m13 m23.

  Lemma scat_all_wd i j t : (i < 4)%nat -> (j < 4)%nat ->
    lookup2 scat_tab i j = Some (inl t) -> wdR ρ t.
  Proof.
    intros Hi Hj L. destruct (scat_errors i j Hi Hj) as (r & Lr & Er).
    rewrite L in Lr. injection Lr as <-.
    assert (R : scat_raises i j = false).
    { destruct (scat_raises i j); [|reflexivity]. destruct (proj2 Er eq_refl) as [s Hs]. discriminate. }
    unfold scat_raises in R. apply orb_false_iff in R as [R1 R2]. apply negb_false_iff in R1.
    apply andb_true_iff in R1 as [Ri Rj]. apply in123_spec in Ri, Rj; try assumption.
    apply Nat.eqb_neq in R2.
    destruct (scat_geometric _ _ _ _ _ _ _ _ _ _ _ _ _ _ _ _ _ _ _ Hev Hint i j Ri Rj R2) as (t' & L' & W & _).
    rewrite L in L'. injection L' as ->. exact W.
  Qed.

  Lemma that_all_wd i j t : (i < 4)%nat -> (j < 4)%nat ->
    lookup2 that_tab i j = Some (inl t) -> wdR ρ t.
  Proof.
    intros Hi Hj L. pose proof (that_errors i j Hi Hj) as R. rewrite (raises_false_inl _ _ L) in R.
    symmetry in R. unfold that_raises in R. apply negb_false_iff in R.
    apply andb_true_iff in R as [Ri Rj]. apply in123_spec in Ri, Rj; try assumption.
    destruct (Nat.eq_dec i j) as [->|N].
    - rewrite (that_diag j Rj) in L. injection L as <-. exact I.
    - destruct (that_geometric _ _ _ _ _ _ _ _ _ _ _ _ _ _ _ _ _ _ _ Hev Hint i j Ri Rj N) as (t' & L' & W & _).
      rewrite L in L'. injection L' as ->. exact W.
  Qed.

  Lemma zeta_all_wd i j k t : (i < 4)%nat -> (j < 4)%nat -> (k < 4)%nat ->
    lookup3 zeta_tab i j k = Some (inl t) -> wdR ρ t.
  Proof.
    intros Hi Hj Hk L.
    assert (Main : forall k', (1 <= k' <= 3)%nat -> (1 <= i)%nat -> (1 <= j <= 3)%nat ->
                   forall t', lookup3 zeta_tab i j k' = Some (inl t') -> wdR ρ t').
    { intros k' Hk' Hi1 Hj1 t' L'.
      destruct (zeta_struct i j k' Hi Hj ltac:(lia)) as (_ & _ & _ & Sd).
      destruct (Nat.eq_dec j k') as [->|N].
      - rewrite Sd in L'; [injection L' as <-; exact I|reflexivity|].
        unfold zeta_raises. apply (in123_spec k' ltac:(lia)) in Hk'. rewrite Hk'.
        destruct i; [lia|reflexivity].
      - destruct (zeta_geometric _ _ _ _ _ _ _ _ _ _ _ _ _ _ _ _ _ _ _ Hev Hint i j k' ltac:(lia) Hj1 Hk' N)
          as (t'' & L'' & W & _).
        rewrite L' in L''. injection L'' as ->. exact W. }
    destruct (zeta_struct i j k Hi Hj Hk) as (Sr & S0 & Sk & _).
    rewrite (raises_false_inl _ _ L) in Sr. symmetry in Sr. unfold zeta_raises in Sr.
    apply orb_false_iff in Sr as [Rj R2]. apply negb_false_iff in Rj. apply in123_spec in Rj; [|assumption].
    destruct i as [|i'].
    - rewrite (S0 eq_refl) in L. now apply (that_all_wd j k t).
    - destruct k as [|k'].
      + rewrite (Sk eq_refl ltac:(lia)) in L. apply (Main (S i')); try lia. exact L.
      + apply (Main (S k')); try lia. exact L.
  Qed.
End AllWd.

(* ================= non-vacuity: a concrete interior event ================================= *)
(* p2 = (1; 1,0,0) massless, p3 = (5/4; 0,1,0) with m3 = 3/4, p1 = (3/2; -1,-1,0) with m1 = 1/2 *)
Lemma example_event :
  is_event (3/2) (-1) (-1) 0  1 1 0 0  (5/4) 0 1 0
           (15/4) (1/2) 0 (3/4) (sqrt (21/4)) (sqrt (105/16)) (sqrt (49/16))
  /\ interior 1 0 0 0 1 0.
Proof.
  unfold is_event, interior. cbv zeta.
  assert (S1 : (sqrt (21/4))^2 = 21/4) by (apply pow2_sqrt; lra).
  assert (S2 : (sqrt (105/16))^2 = 105/16) by (apply pow2_sqrt; lra).
  assert (S3 : (sqrt (49/16))^2 = 49/16) by (apply pow2_sqrt; lra).
  rewrite S1, S2, S3. v4_unfold. repeat split; lra.
Qed.

(* ================= massless rotated particle: no Wigner rotation =========================== *)
Lemma cosf_lightlike u a b : mdot u u = 0 -> 0 < gram u a a -> 0 < gram u b b ->
  0 <= mdot a u -> 0 <= mdot b u -> cosf u a b = 1.
Proof.
  unfold cosf, gram. intros H. rewrite H, !Rmult_0_l, !Rminus_0_r. intros Ga Gb Ha Hb.
  replace (mdot a u * mdot a u) with ((mdot a u)^2) by ring.
  replace (mdot b u * mdot b u) with ((mdot b u)^2) by ring.
  rewrite !sqrt_pow2 by assumption.
  assert (mdot a u <> 0) by (intros Z; rewrite Z in Ga; lra).
  assert (mdot b u <> 0) by (intros Z; rewrite Z in Gb; lra).
  field. split; assumption.
Qed.

Lemma zeta_massless_zero E1 x1 y1 z1 E2 x2 y2 z2 E3 x3 y3 z3 m0 m1 m2 m3 m12 m13 m23 :
  is_event E1 x1 y1 z1 E2 x2 y2 z2 E3 x3 y3 z3 m0 m1 m2 m3 m12 m13 m23 ->
  interior x2 y2 z2 x3 y3 z3 ->
  forall i j k, (1 <= i <= 3)%nat -> (1 <= j <= 3)%nat -> (1 <= k <= 3)%nat -> j <> k ->
  mdot (pmom (V4 E1 x1 y1 z1) (V4 E2 x2 y2 z2) (V4 E3 x3 y3 z3) i)
       (pmom (V4 E1 x1 y1 z1) (V4 E2 x2 y2 z2) (V4 E3 x3 y3 z3) i) = 0 ->
  exists t, lookup3 zeta_tab i j k = Some (inl t) /\
            wdR (envD m0 m1 m2 m3 m12 m13 m23) t /\ denR (envD m0 m1 m2 m3 m12 m13 m23) t = 0.
Proof.
  intros Hev Hint i j k Hi Hj Hk Hjk Hm.
  destruct (zeta_geometric _ _ _ _ _ _ _ _ _ _ _ _ _ _ _ _ _ _ _ Hev Hint i j k Hi Hj Hk Hjk) as (t & L & W & D).
  exists t. split; [exact L|]. split; [exact W|]. rewrite D.
  pose proof (gram_facts _ _ _ _ _ _ _ _ _ _ _ _ _ _ _ _ _ _ _ Hev Hint i Hi) as F. cbv zeta in F.
  destruct F as (F1 & F2 & F3 & _).
  destruct Hev as (HE1 & HE2 & HE3 & _ & _ & _ & _ & Hm1 & Hm2 & Hm3 & _).
  pose proof (causal_of_sq m1 (V4 E1 x1 y1 z1) HE1 Hm1) as C1.
  pose proof (causal_of_sq m2 (V4 E2 x2 y2 z2) HE2 Hm2) as C2.
  pose proof (causal_of_sq m3 (V4 E3 x3 y3 z3) HE3 Hm3) as C3.
  assert (Cu : causal (pmom (V4 E1 x1 y1 z1) (V4 E2 x2 y2 z2) (V4 E3 x3 y3 z3) i))
    by (destruct i as [|[|[|[|]]]]; try lia; assumption).
  assert (Cs : forall n, (1 <= n <= 3)%nat ->
               causal (psub (V4 E1 x1 y1 z1) (V4 E2 x2 y2 z2) (V4 E3 x3 y3 z3) n))
    by (intros n Hn; destruct n as [|[|[|[|]]]]; try lia; apply causal_add; assumption).
  assert (Gp : forall n, (1 <= n <= 3)%nat ->
               0 < gram (pmom (V4 E1 x1 y1 z1) (V4 E2 x2 y2 z2) (V4 E3 x3 y3 z3) i)
                        (psub (V4 E1 x1 y1 z1) (V4 E2 x2 y2 z2) (V4 E3 x3 y3 z3) n)
                        (psub (V4 E1 x1 y1 z1) (V4 E2 x2 y2 z2) (V4 E3 x3 y3 z3) n))
    by (intros n Hn; destruct n as [|[|[|[|]]]]; try lia; assumption).
  rewrite cosf_lightlike; [rewrite acos_1; ring|exact Hm|now apply Gp|now apply Gp| |];
    apply causal_dot_nonneg; auto.
Qed.
