(* C19 — lemmas about the angle trees regenerated from /repo (Gen_C19). *)
From AV Require Import DenR PhspMath Dpd.
From AVchk Require Import Gen_C19.
From Coq Require Import Lra Lia Psatz Ratan.
Open Scope R_scope.

(* ================= specification vocabulary (written from the property text) ============ *)

Definition envD (m0 m1 m2 m3 m12 m13 m23 : R) : env :=
  env_of [("m_0", m0); ("m_1", m1); ("m_2", m2); ("m_3", m3);
          ("m_12", m12); ("m_13", m13); ("m_23", m23)].

(* A physical event in the rest frame of the parent: positive energies, total three-momentum
   zero, m0 the total energy, m_i^2 = p_i^2 (hence p_i^2 >= 0: time- or light-like),
   m_jk^2 = (p_j + p_k)^2.  The masses themselves may be any reals with these squares. *)
Definition is_event (E1 x1 y1 z1 E2 x2 y2 z2 E3 x3 y3 z3 m0 m1 m2 m3 m12 m13 m23 : R) : Prop :=
  let p1 := V4 E1 x1 y1 z1 in let p2 := V4 E2 x2 y2 z2 in let p3 := V4 E3 x3 y3 z3 in
  0 < E1 /\ 0 < E2 /\ 0 < E3 /\
  x1 + x2 + x3 = 0 /\ y1 + y2 + y3 = 0 /\ z1 + z2 + z3 = 0 /\
  m0 = E1 + E2 + E3 /\
  m1^2 = mdot p1 p1 /\ m2^2 = mdot p2 p2 /\ m3^2 = mdot p3 p3 /\
  m12^2 = mdot (vadd p1 p2) (vadd p1 p2) /\ m13^2 = mdot (vadd p1 p3) (vadd p1 p3) /\
  m23^2 = mdot (vadd p2 p3) (vadd p2 p3).

(* interior of the Dalitz region <=> the three momenta are not collinear
   (Kibble = -64 m0^4 |p2 x p3|^2, C20) *)
Definition interior (x2 y2 z2 x3 y3 z3 : R) : Prop :=
  0 < cross2 (V4 0 x2 y2 z2) (V4 0 x3 y3 z3).

(* particle momenta by index (0 = parent) and subsystem momenta (k) = sum of the other two *)
Definition pmom (p1 p2 p3 : v4) (i : nat) : v4 :=
  match i with 0%nat => vadd (vadd p1 p2) p3 | 1%nat => p1 | 2%nat => p2 | _ => p3 end.
Definition psub (p1 p2 p3 : v4) (k : nat) : v4 :=
  match k with 1%nat => vadd p2 p3 | 2%nat => vadd p1 p3 | _ => vadd p1 p2 end.
Definition third (i j : nat) : nat := (6 - i - j)%nat.

(* sign conventions of the DPD paper (Mikhasenko et al., PRD 101 (2020) 034033, App. A) *)
Definition nxt (n : nat) : nat := match n with 1%nat => 2%nat | 2%nat => 3%nat | _ => 1%nat end.
Definition tsign (i j : nat) : R := if Nat.eqb j (nxt i) then 1 else -1.
Definition zsign (i j k : nat) : R :=
  match i with
  | 0%nat => tsign j k
  | _ => if Nat.eqb j (nxt i) || Nat.eqb k (nxt (nxt i)) then 1 else -1
  end.

(* which index tuples must be rejected *)
Definition in123 (i : nat) : bool := Nat.leb 1 i && Nat.leb i 3.
Definition scat_raises (i j : nat) : bool := negb (in123 i && in123 j) || Nat.eqb i j.
Definition that_raises (i j : nat) : bool := negb (in123 i && in123 j).
Definition zeta_raises (i j k : nat) : bool :=
  negb (in123 j) || (Nat.eqb i 0 && negb (in123 k)).

Definition res := (expr + string)%type.
Definition lookup2 (tab : list ((nat * nat) * res)) (i j : nat) : option res :=
  match find (fun e => Nat.eqb (fst (fst e)) i && Nat.eqb (snd (fst e)) j) tab with
  | Some e => Some (snd e) | None => None end.
Definition lookup3 (tab : list ((nat * nat * nat) * res)) (i j k : nat) : option res :=
  match find (fun e => Nat.eqb (fst (fst (fst e))) i && Nat.eqb (snd (fst (fst e))) j
                       && Nat.eqb (snd (fst e)) k) tab with
  | Some e => Some (snd e) | None => None end.
Definition res_eqb (a b : option res) : bool :=
  match a, b with
  | Some (inl x), Some (inl y) => expr_eqb x y
  | Some (inr s), Some (inr t) => String.eqb s t
  | _, _ => false
  end.
Definition is_tree (a : option res) (t : expr) : bool := res_eqb a (Some (inl t)).
Definition raises (a : option res) : bool := match a with Some (inr _) => true | _ => false end.
Definition is_neg_of (a b : option res) : bool :=
  match a, b with
  | Some (inl x), Some (inl y) => expr_eqb x (neg_tree y)
  | _, _ => false
  end.
Definition idx4 : list nat := [0; 1; 2; 3]%nat.

(* ================= structure of the tables: all tuples, by computation ================= *)

Definition struct_scat : bool :=
  forallb (fun i => forallb (fun j =>
    Bool.eqb (raises (lookup2 scat_tab i j)) (scat_raises i j)
    && match lookup2 scat_tab i j with Some _ => true | None => false end) idx4) idx4.

Definition struct_that : bool :=
  forallb (fun i => forallb (fun j =>
    Bool.eqb (raises (lookup2 that_tab i j)) (that_raises i j)
    && (if that_raises i j then true
        else if Nat.eqb i j then is_tree (lookup2 that_tab i j) (Num 0)
        else is_neg_of (lookup2 that_tab i j) (lookup2 that_tab j i)
             || is_neg_of (lookup2 that_tab j i) (lookup2 that_tab i j))) idx4) idx4.

Definition struct_zeta : bool :=
  forallb (fun i => forallb (fun j => forallb (fun k =>
    Bool.eqb (raises (lookup3 zeta_tab i j k)) (zeta_raises i j k)
    (* zeta^0_{j(k)} is theta-hat_{j(k)}, error branches included *)
    && (if Nat.eqb i 0 then res_eqb (lookup3 zeta_tab i j k) (lookup2 that_tab j k) else true)
    (* zeta^i_{j(0)} = zeta^i_{j(i)}, error branches included *)
    && (if Nat.eqb k 0 && negb (Nat.eqb i 0)
        then res_eqb (lookup3 zeta_tab i j k) (lookup3 zeta_tab i j i) else true)
    (* zeta^i_{j(j)} = 0 *)
    && (if Nat.eqb j k && negb (zeta_raises i j k)
        then is_tree (lookup3 zeta_tab i j k) (Num 0) else true)
    (* antisymmetry under j <-> k *)
    && (if in123 j && in123 k && negb (Nat.eqb j k)
        then is_neg_of (lookup3 zeta_tab i j k) (lookup3 zeta_tab i k j)
             || is_neg_of (lookup3 zeta_tab i k j) (lookup3 zeta_tab i j k) else true))
    idx4) idx4) idx4.

Lemma struct_scat_ok : struct_scat = true.  Proof. vm_compute. reflexivity. Qed.
Lemma struct_that_ok : struct_that = true.  Proof. vm_compute. reflexivity. Qed.
Lemma struct_zeta_ok : struct_zeta = true.  Proof. vm_compute. reflexivity. Qed.

Lemma all4 (P : nat -> bool) : forallb P idx4 = true -> forall i, (i < 4)%nat -> P i = true.
Proof.
  intros H i Hi. cbn in H. repeat (apply andb_true_iff in H as [? H]).
  destruct i as [|[|[|[|]]]]; try assumption. lia.
Qed.

Lemma res_eqb_eq a b : res_eqb a b = true -> a = b /\ a <> None.
Proof.
  destruct a as [[x|s]|], b as [[y|t]|]; cbn; try discriminate; intros H.
  - apply expr_eqb_eq in H. subst. split; congruence.
  - apply String.eqb_eq in H. subst. split; congruence.
Qed.

Lemma is_neg_of_eq a b : is_neg_of a b = true ->
  exists x y, a = Some (inl x) /\ b = Some (inl y) /\ x = neg_tree y.
Proof.
  destruct a as [[x|s]|], b as [[y|t]|]; cbn; try discriminate; intros H.
  apply expr_eqb_eq in H. eauto.
Qed.

(* error branches *)
Lemma scat_errors i j : (i < 4)%nat -> (j < 4)%nat ->
  exists r, lookup2 scat_tab i j = Some r /\ ((exists s, r = inr s) <-> scat_raises i j = true).
Proof.
  intros Hi Hj. pose proof struct_scat_ok as S. unfold struct_scat in S.
  apply (all4 _ S) in Hi. apply (all4 _ Hi) in Hj. clear S Hi.
  apply andb_true_iff in Hj as [H1 H2]. apply Bool.eqb_prop in H1.
  destruct (lookup2 scat_tab i j) as [r|]; [|discriminate]. exists r. split; [reflexivity|].
  rewrite <- H1. destruct r; cbn; split; intros; try discriminate; eauto.
  destruct H as [? ?]; discriminate.
Qed.

Lemma that_errors i j : (i < 4)%nat -> (j < 4)%nat ->
  raises (lookup2 that_tab i j) = that_raises i j.
Proof.
  intros Hi Hj. pose proof struct_that_ok as S. unfold struct_that in S.
  apply (all4 _ S) in Hi. apply (all4 _ Hi) in Hj. clear S Hi.
  apply andb_true_iff in Hj as [H1 H2]. now apply Bool.eqb_prop in H1.
Qed.

Lemma zeta_struct i j k : (i < 4)%nat -> (j < 4)%nat -> (k < 4)%nat ->
  raises (lookup3 zeta_tab i j k) = zeta_raises i j k /\
  (i = 0%nat -> lookup3 zeta_tab i j k = lookup2 that_tab j k) /\
  (k = 0%nat -> i <> 0%nat -> lookup3 zeta_tab i j k = lookup3 zeta_tab i j i) /\
  (j = k -> zeta_raises i j k = false -> lookup3 zeta_tab i j k = Some (inl (Num 0))).
Proof.
  intros Hi Hj Hk. pose proof struct_zeta_ok as S. unfold struct_zeta in S.
  apply (all4 _ S) in Hi. apply (all4 _ Hi) in Hj. apply (all4 _ Hj) in Hk. clear S Hi Hj.
  apply andb_true_iff in Hk as [Hk A5]. apply andb_true_iff in Hk as [Hk A4].
  apply andb_true_iff in Hk as [Hk A3]. apply andb_true_iff in Hk as [Hk A2]. clear A5.
  apply Bool.eqb_prop in Hk. split; [exact Hk|]. split; [|split].
  - intros ->. change (Nat.eqb 0 0) with true in A2. cbv iota in A2. now apply res_eqb_eq in A2 as [? _].
  - intros -> Hi. destruct i as [|i']; [congruence|].
    change (Nat.eqb 0 0) with true in A3. change (Nat.eqb (S i') 0) with false in A3.
    cbv iota beta delta [negb andb] in A3. now apply res_eqb_eq in A3 as [? _].
  - intros -> Hr. rewrite Nat.eqb_refl, Hr in A4. cbv iota beta delta [negb andb] in A4.
    unfold is_tree in A4. now apply res_eqb_eq in A4 as [? _].
Qed.

Lemma that_diag i : (1 <= i <= 3)%nat -> lookup2 that_tab i i = Some (inl (Num 0)).
Proof.
  intros Hi. destruct i as [|[|[|[|]]]]; try lia; vm_compute; reflexivity.
Qed.

(* antisymmetry: semantic form valid in EVERY environment *)
Lemma neg_pair_den a b ρ : is_neg_of a b = true \/ is_neg_of b a = true ->
  exists x y, a = Some (inl x) /\ b = Some (inl y) /\ denR ρ x = - denR ρ y /\ (wdR ρ x <-> wdR ρ y).
Proof.
  intros [H|H]; apply is_neg_of_eq in H as (x & y & -> & -> & ->).
  - exists (neg_tree y), y. split; [reflexivity|]. split; [reflexivity|].
    split; [apply neg_tree_sound|]. unfold neg_tree. cbn [wdR wd_head]. tauto.
  - exists y, (neg_tree y). split; [reflexivity|]. split; [reflexivity|].
    split; [rewrite (proj2 (neg_tree_sound ρ y)); ring|]. unfold neg_tree. cbn [wdR wd_head]. tauto.
Qed.

Lemma that_antisym i j ρ : (1 <= i <= 3)%nat -> (1 <= j <= 3)%nat -> i <> j ->
  exists x y, lookup2 that_tab i j = Some (inl x) /\ lookup2 that_tab j i = Some (inl y) /\
              denR ρ x = - denR ρ y /\ (wdR ρ x <-> wdR ρ y).
Proof.
  intros Hi Hj Hij. pose proof struct_that_ok as S. unfold struct_that in S.
  assert (Hi4 : (i < 4)%nat) by lia. assert (Hj4 : (j < 4)%nat) by lia.
  apply (all4 _ S) in Hi4. apply (all4 _ Hi4) in Hj4. clear S Hi4.
  apply andb_true_iff in Hj4 as [_ H].
  assert (R : that_raises i j = false).
  { unfold that_raises, in123. destruct i as [|[|[|[|]]]], j as [|[|[|[|]]]]; try lia; reflexivity. }
  rewrite R in H. apply Nat.eqb_neq in Hij. rewrite Hij in H.
  apply neg_pair_den. now apply orb_true_iff in H.
Qed.

Lemma zeta_antisym i j k ρ : (i < 4)%nat -> (1 <= j <= 3)%nat -> (1 <= k <= 3)%nat -> j <> k ->
  exists x y, lookup3 zeta_tab i j k = Some (inl x) /\ lookup3 zeta_tab i k j = Some (inl y) /\
              denR ρ x = - denR ρ y /\ (wdR ρ x <-> wdR ρ y).
Proof.
  intros Hi Hj Hk Hjk. pose proof struct_zeta_ok as S. unfold struct_zeta in S.
  assert (Hj4 : (j < 4)%nat) by lia. assert (Hk4 : (k < 4)%nat) by lia.
  apply (all4 _ S) in Hi. apply (all4 _ Hi) in Hj4. apply (all4 _ Hj4) in Hk4. clear S Hi Hj4.
  apply andb_true_iff in Hk4 as [_ H].
  assert (R : in123 j && in123 k = true).
  { unfold in123. destruct j as [|[|[|[|]]]], k as [|[|[|[|]]]]; try lia; reflexivity. }
  rewrite R in H. apply Nat.eqb_neq in Hjk. rewrite Hjk in H. cbn [negb andb] in H.
  apply neg_pair_den. now apply orb_true_iff in H.
Qed.

(* ================= Kallen (its definition is part of the regenerated model) =========== *)
Definition envK (x y z : R) : env := env_of [("x", x); ("y", y); ("z", z)].
Lemma kallen_closed x y z : wdR (envK x y z) gen_kallen /\ denR (envK x y z) gen_kallen = kallenR x y z.
Proof. unfold gen_kallen, envK, kallenR. den_simpl. split; [repeat split|field]. Qed.

(* ================= analytic facts, one lemma per distinct arccosine ===================== *)

(* On every interior event, tree t is well defined and equals acos (s * cosf u a b),
   (u, a, b) chosen from the event's momenta by [sel]. *)
Definition angle_ok (t : expr) (s : R) (sel : v4 -> v4 -> v4 -> v4 * v4 * v4) : Prop :=
  forall E1 x1 y1 z1 E2 x2 y2 z2 E3 x3 y3 z3 m0 m1 m2 m3 m12 m13 m23,
  is_event E1 x1 y1 z1 E2 x2 y2 z2 E3 x3 y3 z3 m0 m1 m2 m3 m12 m13 m23 ->
  interior x2 y2 z2 x3 y3 z3 ->
  let uab := sel (V4 E1 x1 y1 z1) (V4 E2 x2 y2 z2) (V4 E3 x3 y3 z3) in
  wdR (envD m0 m1 m2 m3 m12 m13 m23) t /\
  denR (envD m0 m1 m2 m3 m12 m13 m23) t = acos (s * cosf (fst (fst uab)) (snd (fst uab)) (snd uab)).

Ltac pow4 m := try replace (m^4) with ((m^2)^2) by ring.

(* positivity of gram u a a on an interior event, by one of the two canonical forms *)
Lemma causal_of_sq m p : 0 < vE p -> m^2 = mdot p p -> causal p.
Proof. intros H E. split; [exact H|rewrite <- E; apply pow2_ge_0]. Qed.

Lemma gram_pair u a : causal u -> causal a -> 0 < cross2 u a -> 0 < gram u a a.
Proof.
  intros Hu Ha Hc. replace (gram u a a) with ((mdot u a)^2 - mdot u u * mdot a a)
    by (v4_unfold; ring). now apply pair_pos.
Qed.

Lemma sdot_pos_of_cross a b : 0 < cross2 a b -> 0 < sdot a a /\ 0 < sdot b b.
Proof.
  unfold cross2, sdot. intros H.
  assert (L : sdot a a * sdot b b - (sdot a b)^2 = cross2 a b) by (v4_unfold; ring).
  unfold sdot, cross2 in L.
  set (A := vx a * vx a + vy a * vy a + vz a * vz a) in *.
  set (B := vx b * vx b + vy b * vy b + vz b * vz b) in *.
  assert (0 <= A) by (unfold A; nra). assert (0 <= B) by (unfold B; nra).
  pose proof (pow2_ge_0 (vx a * vx b + vy a * vy b + vz a * vz b)).
  assert (0 < A * B) by lra. split.
  - destruct (Req_dec A 0) as [Z|]; [rewrite Z in *; lra|lra].
  - destruct (Req_dec B 0) as [Z|]; [rewrite Z in *; lra|lra].
Qed.

Ltac solve_angle :=
  unfold angle_ok;
  intros E1 x1 y1 z1 E2 x2 y2 z2 E3 x3 y3 z3 m0 m1 m2 m3 m12 m13 m23 Hev Hint;
  destruct Hev as (HE1 & HE2 & HE3 & Hx & Hy & Hz & H0 & Hm1 & Hm2 & Hm3 & Hs3 & Hs2 & Hs1);
  assert (X1 : x1 = - (x2 + x3)) by lra; assert (Y1 : y1 = - (y2 + y3)) by lra;
  assert (Z1 : z1 = - (z2 + z3)) by lra; subst x1 y1 z1; clear Hx Hy Hz;
  unfold interior in Hint;
  pose proof (causal_of_sq m1 (V4 E1 (- (x2 + x3)) (- (y2 + y3)) (- (z2 + z3))) HE1 Hm1) as C1;
  pose proof (causal_of_sq m2 (V4 E2 x2 y2 z2) HE2 Hm2) as C2;
  pose proof (causal_of_sq m3 (V4 E3 x3 y3 z3) HE3 Hm3) as C3;
  assert (C12 : causal (vadd (V4 E1 (- (x2 + x3)) (- (y2 + y3)) (- (z2 + z3))) (V4 E2 x2 y2 z2)))
    by (apply causal_add; assumption);
  assert (C13 : causal (vadd (V4 E1 (- (x2 + x3)) (- (y2 + y3)) (- (z2 + z3))) (V4 E3 x3 y3 z3)))
    by (apply causal_add; assumption);
  assert (C23 : causal (vadd (V4 E2 x2 y2 z2) (V4 E3 x3 y3 z3))) by (apply causal_add; assumption);
  assert (C0 : causal (vadd (vadd (V4 E1 (- (x2 + x3)) (- (y2 + y3)) (- (z2 + z3))) (V4 E2 x2 y2 z2))
                            (V4 E3 x3 y3 z3))) by (apply causal_add; assumption);
  assert (S1 : 0 < (- (x2 + x3))^2 + (- (y2 + y3))^2 + (- (z2 + z3))^2)
    by (destruct (sdot_pos_of_cross (V4 0 (- (x2 + x3)) (- (y2 + y3)) (- (z2 + z3))) (V4 0 x2 y2 z2)) as [S _];
        [replace (cross2 _ _) with (cross2 (V4 0 x2 y2 z2) (V4 0 x3 y3 z3)) by (v4_unfold; ring); exact Hint
        |unfold sdot in S; cbn [vx vy vz] in S; lra]);
  assert (S2 : 0 < x2^2 + y2^2 + z2^2)
    by (destruct (sdot_pos_of_cross _ _ Hint) as [S _]; unfold sdot in S; cbn [vx vy vz] in S; lra);
  assert (S3 : 0 < x3^2 + y3^2 + z3^2)
    by (destruct (sdot_pos_of_cross _ _ Hint) as [_ S]; unfold sdot in S; cbn [vx vy vz] in S; lra);
  assert (M0 : 0 < E1 + E2 + E3) by lra;
  cbv zeta; cbn [fst snd];
  match goal with
  | |- wdR ?rho ?t /\ _ = acos (?s * cosf ?u ?a ?b) =>
      assert (TA : wdR rho t /\ denR rho t =
                   acos ((s * gram u a b) / (sqrt (gram u a a) * sqrt (gram u b b))));
      [ eapply tree_angle;
        [ vm_compute; reflexivity
        | vm_compute; reflexivity | vm_compute; reflexivity | vm_compute; reflexivity
        | unfold envD; den_simpl; subst m0;
          pow4 m1; pow4 m2; pow4 m3; pow4 m12; pow4 m13; pow4 m23;
          rewrite ?Hm1, ?Hm2, ?Hm3, ?Hs1, ?Hs2, ?Hs3; v4_unfold; field
        | unfold envD; den_simpl; subst m0;
          pow4 m1; pow4 m2; pow4 m3; pow4 m12; pow4 m13; pow4 m23;
          rewrite ?Hm1, ?Hm2, ?Hm3, ?Hs1, ?Hs2, ?Hs3;
          first [ left; split; v4_unfold; field | right; split; v4_unfold; field ]
        | | | ]
      | destruct TA as [TA1 TA2]; split; [exact TA1|];
        rewrite TA2; f_equal; unfold cosf, Rdiv; ring ]
  end;
  [ (* 0 < gram u a a *)
    first [ apply gram_pair; [assumption|assumption|
              replace (cross2 _ _) with (cross2 (V4 0 x2 y2 z2) (V4 0 x3 y3 z3)) by (v4_unfold; ring);
              exact Hint]
          | match goal with |- 0 < ?g =>
              first [ replace g with ((E1+E2+E3)^2 * ((- (x2 + x3))^2 + (- (y2 + y3))^2 + (- (z2 + z3))^2))
                        by (v4_unfold; ring)
                    | replace g with ((E1+E2+E3)^2 * (x2^2 + y2^2 + z2^2)) by (v4_unfold; ring)
                    | replace g with ((E1+E2+E3)^2 * (x3^2 + y3^2 + z3^2)) by (v4_unfold; ring) ]
            end; apply Rmult_lt_0_compat; [apply pow_lt; exact M0|assumption] ]
  | first [ apply gram_pair; [assumption|assumption|
              replace (cross2 _ _) with (cross2 (V4 0 x2 y2 z2) (V4 0 x3 y3 z3)) by (v4_unfold; ring);
              exact Hint]
          | match goal with |- 0 < ?g =>
              first [ replace g with ((E1+E2+E3)^2 * ((- (x2 + x3))^2 + (- (y2 + y3))^2 + (- (z2 + z3))^2))
                        by (v4_unfold; ring)
                    | replace g with ((E1+E2+E3)^2 * (x2^2 + y2^2 + z2^2)) by (v4_unfold; ring)
                    | replace g with ((E1+E2+E3)^2 * (x3^2 + y3^2 + z3^2)) by (v4_unfold; ring) ]
            end; apply Rmult_lt_0_compat; [apply pow_lt; exact M0|assumption] ]
  | (* Cauchy-Schwarz *)
    match goal with |- (?s * ?g)^2 <= _ => replace ((s * g)^2) with (g^2) by ring end;
    apply gram_cs;
    [ match goal with |- vE ?u <> 0 => assert (0 < vE u) by (cbn [vE vadd]; lra); lra end
    | match goal with |- 0 <= mdot ?u ?u =>
        first [ apply C1 | apply C2 | apply C3 | apply C12 | apply C13 | apply C23 | apply C0 ] end ] ].

(* theta-hat: u = parent *)
Lemma that_1_2_ok : angle_ok gen_that_1_2 1 (fun p1 p2 p3 => (vadd (vadd p1 p2) p3, p1, p2)).
Proof. solve_angle. Qed.
