(* C17_lemmas2.v — binder-aware semantics (PoolSum sums over its pools) and the composition of two
   renames, for the model AV.Rename. *)
From Coq Require Import Ascii Permutation Lia.
From AV Require Import Ast Rename.
From AVchk Require Import C17_lemmas.
Open Scope string_scope.
Open Scope list_scope.
Open Scope nat_scope.

Definition pool_syn (ix : expr) : option (string * list expr) :=
  match ix with
  | App HTuple (Sym i :: rest) =>
      Some (i, match rest with App HTuple vals :: _ => vals | _ => [] end)
  | _ => None
  end.

Section DenB.
  Variable V : Type.
  Variable qval : Q -> V.
  Variable interp : head -> list V -> V.
  Variable vzero : V.
  Variable vadd : V -> V -> V.

  Definition upd (rho : string -> V) (i : string) (v : V) : string -> V :=
    fun s => if String.eqb s i then v else rho s.

  Fixpoint psum (pools : list (string * list V)) (F : (string -> V) -> V) (rho : string -> V) : V :=
    match pools with
    | [] => F rho
    | (i, vals) :: rest =>
        fold_right (fun v acc => vadd (psum rest F (upd rho i v)) acc) vzero vals
    end.

  Definition pool_den (f : expr -> V) (ix : expr) : list (string * list V) :=
    match ix with
    | App HTuple (Sym i :: rest) =>
        [(i, match rest with App HTuple vals :: _ => map f vals | _ => [] end)]
    | _ => []
    end.

  Fixpoint denB (rho : string -> V) (e : expr) {struct e} : V :=
    match e with
    | Sym s => rho s
    | Num q => qval q
    | App h args =>
        if is_poolsum h then
          match args with
          | [] => interp h []
          | body :: idxs =>
              psum (flat_map (pool_den (denB rho)) idxs) (fun rho' => denB rho' body) rho
          end
        else interp h (map (denB rho) args)
    end.
End DenB.

(* ---------------------------------------------------------------- shapes of index arguments *)
Lemma pool_den_syn V (f : expr -> V) ix :
  pool_den V f ix = match pool_syn ix with Some (i, vals) => [(i, map f vals)] | None => [] end.
Proof.
  destruct ix as [s|q|h l]; try reflexivity. destruct h; try reflexivity.
  destruct l as [|[i|q|k l'] rest]; try reflexivity. cbn.
  destruct rest as [|[s|q|k vals] rest']; try reflexivity. destruct k; reflexivity.
Qed.

Lemma pool_syn_binder ix :
  binder_of ix = match pool_syn ix with Some (i, _) => [i] | None => [] end.
Proof.
  destruct ix as [s|q|h l]; try reflexivity. destruct h; try reflexivity.
  destruct l as [|[i|q|k l'] rest]; reflexivity.
Qed.

Lemma pool_syn_xr sg b ix :
  (forall i vals, pool_syn ix = Some (i, vals) -> mem i b = true \/ sg i = i) ->
  pool_syn (xr sg b ix)
  = match pool_syn ix with Some (i, vals) => Some (i, map (xr sg b) vals) | None => None end.
Proof.
  intros H. destruct ix as [s|q|h l].
  - cbn. destruct (mem s b); reflexivity.
  - reflexivity.
  - destruct h; try reflexivity. cbn [xr]. unfold binders. cbn [is_poolsum app].
    destruct l as [|[i|q|k l'] rest]; try reflexivity. cbn [map xr pool_syn].
    assert (E : (if mem i b then Sym i else Sym (sg i)) = Sym i).
    { destruct (H i _ eq_refl) as [E|E]; [now rewrite E|]. rewrite E. now destruct (mem i b). }
    rewrite E. cbn. f_equal. f_equal.
    destruct rest as [|[s|q|k vals] rest']; try reflexivity.
    + cbn. destruct (mem s b); reflexivity.
    + destruct k; try reflexivity.
Qed.

Fixpoint esize (e : expr) : nat :=
  match e with
  | App _ args => S (fold_right (fun a n => esize a + n) 0 args)
  | _ => 1
  end.

Lemma esize_pos e : 1 <= esize e.
Proof. destruct e; cbn; lia. Qed.

Lemma esize_in h args a : In a args -> esize a < esize (App h args).
Proof.
  cbn. induction args as [|x t IH]; cbn; [tauto|]. intros [->|H]; [lia|]. specialize (IH H). lia.
Qed.

Lemma all_binders_arg h args a i : In a args -> In i (all_binders a) -> In i (all_binders (App h args)).
Proof. intros Ha Hi. cbn. apply in_or_app. right. apply in_flat_map. eauto. Qed.

Lemma all_binders_here h args i : In i (binders h args) -> In i (all_binders (App h args)).
Proof. intros H. cbn. apply in_or_app. now left. Qed.

Lemma pool_syn_sub ix i vals v :
  pool_syn ix = Some (i, vals) -> In v vals ->
  esize v < esize ix
  /\ (forall s, In s (syms v) -> In s (syms ix))
  /\ (forall j, In j (all_binders v) -> In j (all_binders ix)).
Proof.
  destruct ix as [s|q|h l]; try discriminate. destruct h; try discriminate.
  destruct l as [|[i0|q|k l'] rest]; try discriminate. cbn [pool_syn]. intros E Hv. inversion E; subst. clear E.
  destruct rest as [|[s|q|k vals] rest']; try (cbn in Hv; tauto). destruct k; try (cbn in Hv; tauto).
  assert (H1 : In (App HTuple vals) (Sym i :: App HTuple vals :: rest')) by (cbn; auto).
  repeat split.
  - pose proof (esize_in HTuple vals v Hv). pose proof (esize_in HTuple _ _ H1). lia.
  - intros s Hs. eapply in_syms_arg; [exact H1|]. eapply in_syms_arg; eauto.
  - intros j Hj. eapply all_binders_arg; [exact H1|]. eapply all_binders_arg; eauto.
Qed.

Lemma pool_syn_binder_in ix i vals : pool_syn ix = Some (i, vals) -> In i (binder_of ix).
Proof. intros H. rewrite pool_syn_binder, H. cbn. auto. Qed.

Lemma flat_map_ext_in' {A B} (f g : A -> list B) l :
  (forall a, In a l -> f a = g a) -> flat_map f l = flat_map g l.
Proof.
  induction l as [|x t IH]; cbn; auto. intros H. rewrite H by auto. f_equal. apply IH. auto.
Qed.

Lemma flat_map_map' {A B C} (f : A -> B) (g : B -> list C) l :
  flat_map g (map f l) = flat_map (fun a => g (f a)) l.
Proof. induction l as [|x t IH]; cbn; auto. now rewrite IH. Qed.

Section DenBProofs.
  Variable V : Type.
  Variable qval : Q -> V.
  Variable interp : head -> list V -> V.
  Variable vzero : V.
  Variable vadd : V -> V -> V.
  Notation denB := (denB V qval interp vzero vadd).
  Notation psum := (psum V vzero vadd).

  Lemma pool_names f idxs : map fst (flat_map (pool_den V f) idxs) = flat_map binder_of idxs.
  Proof.
    induction idxs as [|ix t IH]; cbn; auto. rewrite map_app, IH. f_equal.
    rewrite pool_den_syn, pool_syn_binder. destruct (pool_syn ix) as [[i vals]|]; reflexivity.
  Qed.

  Lemma psum_rel sg (P : string -> Prop) pools F1 F2 :
    (forall i, In i (map fst pools) -> sg i = i /\ forall s, P s -> sg s = i -> s = i) ->
    (forall r1 r2, (forall s, P s -> r2 s = r1 (sg s)) -> F1 r1 = F2 r2) ->
    forall r1 r2, (forall s, P s -> r2 s = r1 (sg s)) -> psum pools F1 r1 = psum pools F2 r2.
  Proof.
    induction pools as [|[i vals] rest IH]; intros Hp HF r1 r2 HR; cbn.
    - apply HF; auto.
    - induction vals as [|v vs IHv]; cbn; auto. f_equal; auto.
      apply IH; [intros j Hj; apply Hp; cbn; auto | auto |].
      intros s Ps. unfold upd. destruct (Hp i (or_introl eq_refl)) as [Hi Hc].
      destruct (String.eqb_spec s i) as [->|N].
      + now rewrite Hi, String.eqb_refl.
      + destruct (String.eqb_spec (sg s) i) as [E|N']; [exfalso; apply N; apply Hc; auto | apply HR; auto].
  Qed.

  Lemma denB_xr_size sg : forall n e b rho1 rho2, esize e <= n ->
    (forall s, In s b -> sg s = s) ->
    (forall i, In i (all_binders e) -> sg i = i) ->
    (forall i s, In i (all_binders e) -> In s (syms e) -> sg s = i -> s = i) ->
    (forall s, In s (syms e) -> rho2 s = rho1 (sg s)) ->
    denB rho1 (xr sg b e) = denB rho2 e.
  Proof.
    induction n as [|n IHn]; intros e b rho1 rho2 Hn Hb Hfix Hcap Henv.
    { pose proof (esize_pos e). lia. }
    destruct e as [s|q|h args].
    - cbn. destruct (mem s b) eqn:M; cbn.
      + rewrite Henv by (cbn; auto). apply mem_In in M. now rewrite (Hb s M).
      + symmetry. apply Henv. cbn. auto.
    - reflexivity.
    - assert (Hsub : forall a b' r1 r2, In a args ->
                (forall s, In s b' -> sg s = s) ->
                (forall s, In s (syms a) -> r2 s = r1 (sg s)) ->
                denB r1 (xr sg b' a) = denB r2 a).
      { intros a b' r1 r2 Ha Hb' He. apply IHn; auto.
        - pose proof (esize_in h args a Ha). lia.
        - intros i Hi. apply Hfix. eapply all_binders_arg; eauto.
        - intros i s Hi Hs. apply Hcap; [eapply all_binders_arg | eapply in_syms_arg]; eauto. }
      cbn [xr]. set (b' := binders h args ++ b).
      assert (Hb' : forall s, In s b' -> sg s = s).
      { intros s Hs. apply in_app_or in Hs as [Hs|Hs]; auto. apply Hfix, all_binders_here, Hs. }
      destruct (is_poolsum h) eqn:P.
      + cbn [denB]. rewrite P. destruct args as [|body idxs]; [reflexivity|]. cbn [map].
        assert (Hpools : flat_map (pool_den V (denB rho1)) (map (xr sg b') idxs)
                         = flat_map (pool_den V (denB rho2)) idxs).
        { rewrite flat_map_map'. apply flat_map_ext_in'. intros ix Hix.
          assert (Hix' : In ix (body :: idxs)) by (cbn; auto).
          rewrite !pool_den_syn, pool_syn_xr.
          2:{ intros i vals PS. right. apply Hfix, all_binders_here. unfold binders. rewrite P.
              cbn [tl]. apply in_flat_map. exists ix. split; auto. eapply pool_syn_binder_in; eauto. }
          destruct (pool_syn ix) as [[i vals]|] eqn:PS; auto. f_equal. f_equal.
          rewrite map_map. apply map_ext_in. intros v Hv.
          destruct (pool_syn_sub _ _ _ _ PS Hv) as [Hs1 [Hs2 Hs3]].
          apply IHn.
          - pose proof (esize_in h (body :: idxs) ix Hix'). lia.
          - exact Hb'.
          - intros j Hj. apply Hfix. eapply all_binders_arg; [exact Hix'|]. auto.
          - intros j s Hj Hs. apply Hcap; [eapply all_binders_arg; [exact Hix'|]; auto
                                          | eapply in_syms_arg; [exact Hix'|]; auto].
          - intros s Hs. apply Henv. eapply in_syms_arg; [exact Hix'|]. auto. }
        rewrite Hpools.
        apply (psum_rel sg (fun s => In s (syms body))).
        * intros i Hi. rewrite pool_names in Hi.
          assert (Hbi : In i (all_binders (App h (body :: idxs)))).
          { apply all_binders_here. unfold binders. rewrite P. exact Hi. }
          split; [apply Hfix; auto|]. intros s Hs E. apply (Hcap i s); auto.
          eapply in_syms_arg; [|exact Hs]. cbn. auto.
        * intros r1 r2 HR. apply Hsub; cbn; auto.
        * intros s Hs. apply Henv. eapply in_syms_arg; [|exact Hs]. cbn. auto.
      + cbn [denB]. rewrite P. f_equal. rewrite map_map. apply map_ext_in. intros a Ha.
        apply Hsub; auto. intros s Hs. apply Henv. eapply in_syms_arg; eauto.
  Qed.
End DenBProofs.

(* ---------------------------------------------------------------- corollaries: semantics with PoolSum *)
Definition binder_safe (sg : string -> string) (e : expr) : Prop :=
  (forall i, In i (all_binders e) -> sg i = i)
  /\ (forall i s, In i (all_binders e) -> In s (syms e) -> sg s = i -> s = i).

Section DenBCor.
  Variable V : Type.
  Variable qval : Q -> V.
  Variable interp : head -> list V -> V.
  Variable vzero : V.
  Variable vadd : V -> V -> V.
  Notation denB := (denB V qval interp vzero vadd).

  Lemma denB_xr sg rho e : binder_safe sg e ->
    denB rho (xr sg [] e) = denB (fun s => rho (sg s)) e.
  Proof.
    intros [H1 H2]. apply (denB_xr_size V qval interp vzero vadd sg (esize e));
      [apply le_n | intros s Hs; destruct Hs | exact H1 | exact H2 | reflexivity].
  Qed.

  Lemma denB_merge sg rho e a b c :
    binder_safe sg e -> sg a = c -> sg b = c -> (forall s, s <> a -> s <> b -> sg s = s) ->
    denB rho (xr sg [] e)
    = denB (fun s => if String.eqb s a then rho c else if String.eqb s b then rho c else rho s) e.
  Proof.
    intros [H1 H2] Ha Hb Ho. apply (denB_xr_size V qval interp vzero vadd sg (esize e));
      [apply le_n | intros s Hs; destruct Hs | exact H1 | exact H2 |].
    intros s _. destruct (String.eqb_spec s a) as [->|Na]; [now rewrite Ha|].
      destruct (String.eqb_spec s b) as [->|Nb]; [now rewrite Hb|]. now rewrite Ho.
  Qed.

  (* the binder-aware denotation extends the compositional one *)
  Lemma denB_nb rho e : nb e = true -> denB rho e = den V qval interp rho e.
  Proof.
    induction e as [s|q|h args IH] using expr_ind'; intros H; cbn; auto.
    destruct (nb_App _ _ H) as [Hh Ha]. rewrite Hh. f_equal. apply map_ext_in. intros a Hin.
    rewrite Forall_forall in IH. auto.
  Qed.
End DenBCor.

Lemma rename_semantics_poolsum_l unfold nrank arank m r :
  r <> [] -> wf_model nrank arank m ->
  let sg := sigma_of unfold m r in
  (forall s, In s (syms (intensity m)) -> sg s = s) ->
  (forall s, In s (syms (unfold (intensity m))) -> sg s = s) ->
  nb (unfold (intensity m)) = true ->
  binder_safe sg (expression unfold m) ->
  forall (V : Type) (qval : Q -> V) (interp : head -> list V -> V) (vzero : V) (vadd : V -> V -> V)
         (rho : string -> V),
    denB V qval interp vzero vadd rho (expression unfold (Rename.rename unfold nrank arank m r))
    = denB V qval interp vzero vadd (fun s => rho (sg s)) (expression unfold m).
Proof.
  intros Hr W sg H1 H2 Hn Hs V qval interp vzero vadd rho.
  rewrite (rename_expression unfold nrank arank m r Hr W H1 H2 Hn). apply denB_xr. exact Hs.
Qed.

(* a PoolSum witness: sum_{i in {1,2}} (x * i), renaming x -> y, over Z-like values in nat *)
Definition ps_toy : expr :=
  App (HOther "PoolSum")
      [App HMul [Sym "x"; Sym "i|7"]; App HTuple [Sym "i|7"; App HTuple [Num (1 # 1); Num (2 # 1)]]].

Definition zinterp (h : head) (l : list Z) : Z :=
  match h with
  | HMul => fold_right Z.mul 1%Z l
  | HAdd => fold_right Z.add 0%Z l
  | _ => 0%Z
  end.
Definition ps_sg (s : string) : string := if String.eqb s "x" then "y" else s.

Lemma ps_toy_safe : binder_safe ps_sg ps_toy.
Proof.
  split.
  - intros i [<-|[]]. reflexivity.
  - intros i s [<-|[]] Hs E. cbn in Hs. destruct Hs as [<-|[<-|[<-|[]]]]; auto. discriminate E.
Qed.

Lemma ps_toy_value :
  denB Z (fun q => Qnum q) zinterp 0%Z Z.add (fun s => if String.eqb s "y" then 5%Z else 0%Z)
       (xr ps_sg [] ps_toy) = 15%Z
  /\ denB Z (fun q => Qnum q) zinterp 0%Z Z.add (fun s => if String.eqb s "x" then 5%Z else 0%Z) ps_toy = 15%Z.
Proof. split; vm_compute; reflexivity. Qed.

(* ================================================================ composition of two renames *)
Definition rstar (r : list (string * string)) (n : string) : string :=
  match rget r n with Some x => x | None => n end.

(* the one map that does r1 and then r2 (on names) *)
Definition compose (r1 r2 : list (string * string)) : list (string * string) :=
  map (fun n => (n, rstar r2 (rstar r1 n))) (map fst r1 ++ map fst r2).

Lemma rget_fun (f : string -> string) l n :
  rget (map (fun k => (k, f k)) l) n = if mem n l then Some (f n) else None.
Proof.
  induction l as [|k t IH]; cbn; auto. rewrite IH. unfold mem in *. cbn.
  destruct (existsb (String.eqb n) t); [now rewrite orb_true_r|]. rewrite orb_false_r.
  rewrite (String.eqb_sym n k). destruct (String.eqb_spec k n) as [->|N]; auto.
Qed.

Lemma rget_dom r n : rget r n = None <-> mem n (map fst r) = false.
Proof.
  induction r as [|[k v] t IH]; cbn; [tauto|]. unfold mem in *. cbn.
  rewrite (String.eqb_sym n k). destruct (rget t n) eqn:E.
  - split; [discriminate|]. intros H. apply orb_false_iff in H as [_ H]. apply IH in H. discriminate.
  - destruct IH as [IH _]. rewrite (IH eq_refl), orb_false_r. destruct (String.eqb k n); split; auto; discriminate.
Qed.

Lemma ren_comp r1 r2 s : wf_map r1 -> ren r2 (ren r1 s) = ren (compose r1 r2) s.
Proof.
  intros W. destruct (rget r1 (name_of s)) as [n1|] eqn:E1.
  - rewrite (ren_compose r1 r2 s n1 W E1). unfold ren at 1, compose. rewrite rget_fun, mem_app.
    assert (M : mem (name_of s) (map fst r1) = true).
    { destruct (mem (name_of s) (map fst r1)) eqn:M; auto. apply rget_dom in M. congruence. }
    rewrite M. cbn. unfold rstar at 2. rewrite E1. unfold rstar. destruct (rget r2 n1); reflexivity.
  - rewrite (ren_untouched r1 s E1). unfold ren, compose. rewrite rget_fun, mem_app.
    apply rget_dom in E1. rewrite E1. cbn. unfold rstar at 2.
    destruct (rget r2 (name_of s)) as [n2|] eqn:E2.
    + assert (M : mem (name_of s) (map fst r2) = true).
      { destruct (mem (name_of s) (map fst r2)) eqn:M; auto. apply rget_dom in M. congruence. }
      rewrite M. apply rget_dom in E1. rewrite E1. unfold rstar. now rewrite E2.
    + apply rget_dom in E2. now rewrite E2.
Qed.

Lemma sigma_comp r1 r2 col1 col2 s : wf_map r1 ->
  (mem s col1 = true -> mem (ren r1 s) col2 = true) ->
  (mem s col1 = false -> mem s col2 = false) ->
  sigma r2 col2 (sigma r1 col1 s) = sigma (compose r1 r2) col1 s.
Proof.
  intros W HB HA. unfold sigma. destruct (mem s col1) eqn:M.
  - rewrite (HB eq_refl). now apply ren_comp.
  - now rewrite (HA eq_refl).
Qed.

Lemma compose_nonempty r1 r2 : r1 <> [] -> compose r1 r2 <> [].
Proof. destruct r1 as [|[k v] t]; [congruence|]. intros _. unfold compose. cbn. discriminate. Qed.

(* ---------------------------------------------------------------- xreplace twice, with binders *)
Lemma binders_xr sg h args b :
  binders h (map (xr sg (binders h args ++ b)) args) = binders h args.
Proof.
  unfold binders. destruct (is_poolsum h) eqn:P; [|reflexivity].
  destruct args as [|body idxs]; [reflexivity|]. cbn [tl map].
  rewrite flat_map_map'. apply flat_map_ext_in'. intros ix Hix.
  rewrite !pool_syn_binder, pool_syn_xr.
  - destruct (pool_syn ix) as [[i vals]|]; reflexivity.
  - intros i vals PS. left. apply mem_In. apply in_or_app. left. apply in_flat_map.
    exists ix. split; auto. eapply pool_syn_binder_in; eauto.
Qed.

Lemma xr_comp_b sg tau up e : forall b,
  (forall i, In i (all_binders e ++ b) -> tau i = i) ->
  (forall s, In s (syms e) -> up s = tau (sg s)) ->
  xr tau b (xr sg b e) = xr up b e.
Proof.
  induction e as [s|q|h args IH] using expr_ind'; intros b Hfix Hup.
  - cbn. destruct (mem s b) eqn:M; cbn; [now rewrite M|].
    rewrite (Hup s) by (cbn; auto). destruct (mem (sg s) b) eqn:M'; auto.
    f_equal. symmetry. apply Hfix. apply in_or_app. right. now apply mem_In.
  - reflexivity.
  - cbn [xr]. rewrite binders_xr. f_equal. rewrite map_map. apply map_ext_in. intros a Ha.
    rewrite Forall_forall in IH. apply IH; auto.
    + intros i Hi. apply Hfix. apply in_app_or in Hi as [Hi|Hi].
      * apply in_or_app. left. eapply all_binders_arg; eauto.
      * apply in_app_or in Hi as [Hi|Hi]; apply in_or_app; [left; now apply all_binders_here | now right].
    + intros s Hs. apply Hup. eapply in_syms_arg; eauto.
Qed.

(* ---------------------------------------------------------------- sorting: canonical results *)
Section SortUnique.
  Context {A : Type} (rk : A -> nat).

  Definition lb (x : A) (l : list A) : Prop := forall z, In z l -> rk x <= rk z.
  Fixpoint ssorted (l : list A) : Prop :=
    match l with [] => True | x :: t => lb x t /\ ssorted t end.

  Lemma ins_ssorted x l : ssorted l -> ssorted (ins rk x l).
  Proof.
    induction l as [|y t IH]; cbn; [intros _; split; [intros z []|exact I]|].
    intros [Hy Ht]. destruct (Nat.leb (rk x) (rk y)) eqn:E.
    - apply Nat.leb_le in E. cbn. repeat split; auto. intros z [<-|Hz]; auto.
      specialize (Hy z Hz). lia.
    - apply Nat.leb_gt in E. cbn. split; auto. intros z Hz.
      apply (Permutation_in z (ins_perm rk x t)) in Hz. destruct Hz as [<-|Hz]; [lia|auto].
  Qed.

  Lemma isort_ssorted l : ssorted (isort rk l).
  Proof. induction l as [|x t IH]; cbn; auto. now apply ins_ssorted. Qed.

  Lemma ssorted_unique l1 : forall l2,
    ssorted l1 -> ssorted l2 -> Permutation l1 l2 ->
    (forall a b, In a l1 -> In b l1 -> rk a = rk b -> a = b) -> l1 = l2.
  Proof.
    induction l1 as [|x t1 IH]; intros l2 S1 S2 P Inj.
    - apply Permutation_nil in P. now subst.
    - destruct l2 as [|y t2]; [apply Permutation_sym, Permutation_nil in P; discriminate|].
      destruct S1 as [Lx S1], S2 as [Ly S2].
      assert (Hy : In y (x :: t1)) by (apply (Permutation_in y (Permutation_sym P)); cbn; auto).
      assert (Hx : In x (y :: t2)) by (apply (Permutation_in x P); cbn; auto).
      assert (E : x = y).
      { apply Inj; cbn; auto.
        assert (rk x <= rk y) by (destruct Hy as [<-|Hy]; [lia|auto]).
        assert (rk y <= rk x) by (destruct Hx as [<-|Hx]; [lia|auto]). lia. }
      subst y. f_equal. apply IH; auto.
      + eapply Permutation_cons_inv; eauto.
      + intros a b Ha Hb. apply Inj; cbn; auto.
  Qed.

  Lemma isort_perm_unique l1 l2 :
    Permutation l1 l2 -> (forall a b, In a l1 -> In b l1 -> rk a = rk b -> a = b) ->
    isort rk l1 = isort rk l2.
  Proof.
    intros P Inj. apply ssorted_unique; try apply isort_ssorted.
    - rewrite !isort_perm. exact P.
    - intros a b Ha Hb. apply Inj; eapply Permutation_in; try apply isort_perm; eauto.
  Qed.
End SortUnique.

Lemma nodup_keys_entry {K V} (l : list (K * V)) :
  NoDup (map fst l) -> forall a b, In a l -> In b l -> fst a = fst b -> a = b.
Proof.
  induction l as [|x t IH]; cbn; [intros _ a b []|]. intros N. inversion N as [|? ? Nx Nt]; subst.
  intros a b [<-|Ha] [<-|Hb] E; auto.
  - exfalso. apply Nx. rewrite E. now apply in_map.
  - exfalso. apply Nx. rewrite <- E. now apply in_map.
Qed.

Section Compose.
  Variable unfold : expr -> expr.
  Variable nrank : string -> nat.
  Variable arank : expr -> nat.
  Notation rename := (Rename.rename unfold nrank arank).
  Notation sigma_of := (Rename.sigma_of unfold).
  Notation collect := (Rename.collect unfold).

  Definition key_syms (k : expr) : list string := match k with Sym s => [s] | _ => [] end.

  (* every symbol a rename can touch *)
  Definition occ (m : model) : list string :=
    syms (intensity m)
    ++ flat_map (fun kv => syms (snd kv)) (amplitudes m)
    ++ flat_map (fun kv => key_syms (fst kv)) (parameter_defaults m)
    ++ map fst (kinematic_variables m)
    ++ flat_map (fun kv => syms (snd kv)) (kinematic_variables m)
    ++ flat_map (fun kv => syms (snd kv)) (components m).

  Definition values (m : model) : list expr :=
    map snd (amplitudes m) ++ map snd (kinematic_variables m) ++ map snd (components m).

  Lemma rename_compose_l m r1 r2 :
    r1 <> [] -> r2 <> [] -> wf_map r1 ->
    wf_model nrank arank m -> wf_model nrank arank (rename m r1) ->
    let s1 := sigma_of m r1 in
    let s2 := sigma_of (rename m r1) r2 in
    let sc := sigma_of m (compose r1 r2) in
    (forall s, In s (occ m) -> mem s (collect m) = false -> mem s (collect (rename m r1)) = false) ->
    (forall s, In s (occ m) -> mem s (collect m) = true -> mem (ren r1 s) (collect (rename m r1)) = true) ->
    (forall s, In s (syms (intensity m)) -> s1 s = s /\ s2 s = s) ->
    (forall e i, In e (values m) -> In i (all_binders e) -> s2 i = i) ->
    NoDup (map (fun kv => kmap s1 (fst kv)) (parameter_defaults m)) ->
    NoDup (map (fun kv => s1 (fst kv)) (kinematic_variables m)) ->
    NoDup (map (fun kv => sc (fst kv)) (kinematic_variables m)) ->
    (forall a b, In a (kinematic_variables m) -> In b (kinematic_variables m) ->
       nrank (name_of (sc (fst a))) = nrank (name_of (sc (fst b))) -> sc (fst a) = sc (fst b)) ->
    rename (rename m r1) r2 = rename m (compose r1 r2).
  Proof.
    intros Hr1 Hr2 Wm W W1. cbv zeta.
    set (s1 := sigma_of m r1). set (s2 := sigma_of (rename m r1) r2).
    set (sc := sigma_of m (compose r1 r2)).
    intros HA HB Hp Hbind Npd Nkv1 Nkvc Rinj.
    assert (Hs : forall s, In s (occ m) -> s2 (s1 s) = sc s).
    { intros s Hs. unfold s1, s2, sc, Rename.sigma_of. apply sigma_comp; auto. }
    pose proof (compose_nonempty r1 r2 Hr1) as Hrc.
    destruct (rename_attrs unfold nrank arank m r1 Hr1 W) as [I1 [A1 [C1 [P1 K1]]]].
    destruct (rename_attrs unfold nrank arank (rename m r1) r2 Hr2 W1) as [I2 [A2 [C2 [P2 K2]]]].
    destruct (rename_attrs unfold nrank arank m (compose r1 r2) Hrc W) as [Ic [Ac [Cc [Pc Kc]]]].
    fold s1 in I1, A1, C1, P1, K1. fold s2 in I2, A2, C2, P2, K2. fold sc in Ic, Ac, Cc, Pc, Kc.
    assert (Hval : forall (k : string) v, In v (values m) ->
              xr s2 [] (xr s1 [] v) = xr sc [] v).
    { intros _ v Hv. apply xr_comp_b.
      - intros i Hi. rewrite app_nil_r in Hi. eapply Hbind; eauto.
      - intros s Hs'. symmetry. apply Hs. unfold occ, values in *. rewrite !in_app_iff in *.
        destruct Hv as [Hv|[Hv|Hv]]; apply in_map_iff in Hv as [[k v0] [E Hin]]; cbn in E; subst v0.
        + right; left. apply in_flat_map. exists (k, v). auto.
        + right; right; right; right; left. apply in_flat_map. exists (k, v). auto.
        + right; right; right; right; right. apply in_flat_map. exists (k, v). auto. }
    apply model_eq.
    - rewrite I2, Ic, I1.
      rewrite (xr_id s1 (intensity m) []) by (intros s Hs' _; apply Hp; auto).
      rewrite (xr_id s2 (intensity m) []) by (intros s Hs' _; apply Hp; auto).
      rewrite (xr_id sc (intensity m) []); auto.
      intros s Hs' _. rewrite <- Hs by (unfold occ; apply in_or_app; auto).
      destruct (Hp s Hs') as [E1 E2]. now rewrite E1, E2.
    - rewrite A2, Ac, A1. unfold map_vals. rewrite map_map. apply map_ext_in.
      intros [k v] Hkv. cbn. f_equal. apply (Hval ""). unfold values. apply in_or_app. left.
      apply in_map_iff. exists (k, v). auto.
    - rewrite P2, Pc, P1.
      rewrite (dict_of_nodup expr_eqb expr_eqb_spec
                 (map (fun kv => (kmap s1 (fst kv), snd kv)) (parameter_defaults m)))
        by (rewrite map_map; exact Npd).
      rewrite map_map. f_equal. apply map_ext_in. intros [k v] Hkv. cbn. f_equal.
      destruct k as [s|q|h l]; cbn; auto. f_equal. apply Hs. unfold occ. rewrite !in_app_iff.
      right; right; left. apply in_flat_map. exists (Sym s, v). cbn. auto.
    - rewrite K2, Kc, K1. unfold order_symbol_mapping.
      set (kv := kinematic_variables m).
      set (g1 := fun kv : string * expr => (s1 (fst kv), xr s1 [] (snd kv))).
      set (g2 := fun kv : string * expr => (s2 (fst kv), xr s2 [] (snd kv))).
      set (gc := fun kv : string * expr => (sc (fst kv), xr sc [] (snd kv))).
      set (rk := fun kv : string * expr => nrank (name_of (fst kv))).
      assert (N1 : NoDup (map fst (map g1 kv))) by (rewrite map_map; exact Nkv1).
      assert (Nc : NoDup (map fst (map gc kv))) by (rewrite map_map; exact Nkvc).
      rewrite (dict_of_nodup String.eqb String.eqb_spec _ N1).
      rewrite (dict_of_nodup String.eqb String.eqb_spec _ Nc).
      assert (E : map g2 (map g1 kv) = map gc kv).
      { rewrite map_map. apply map_ext_in. intros [k v] Hkv. unfold g1, g2, gc. cbn. f_equal.
        - apply Hs. unfold occ. rewrite !in_app_iff. right; right; right; left.
          apply in_map_iff. exists (k, v). auto.
        - apply (Hval ""). unfold values. apply in_or_app. right. apply in_or_app. left.
          apply in_map_iff. exists (k, v). auto. }
      assert (Pm : Permutation (map g2 (isort rk (map g1 kv))) (map gc kv)).
      { rewrite <- E. apply Permutation_map, isort_perm. }
      assert (N2 : NoDup (map fst (map g2 (isort rk (map g1 kv))))).
      { eapply Permutation_NoDup; [|exact Nc]. apply Permutation_map, Permutation_sym, Pm. }
      rewrite (dict_of_nodup String.eqb String.eqb_spec _ N2).
      apply isort_perm_unique; auto.
      intros a b Ha Hb Erk.
      apply (Permutation_in a Pm) in Ha. apply (Permutation_in b Pm) in Hb.
      apply (nodup_keys_entry _ Nc); auto.
      apply in_map_iff in Ha as [a0 [<- Ha0]]. apply in_map_iff in Hb as [b0 [<- Hb0]].
      unfold gc, rk in *. cbn in *. apply Rinj; auto.
    - rewrite C2, Cc, C1. unfold map_vals. rewrite map_map. apply map_ext_in.
      intros [k v] Hkv. cbn. f_equal. apply (Hval ""). unfold values. apply in_or_app. right.
      apply in_or_app. right. apply in_map_iff. exists (k, v). auto.
  Qed.
End Compose.

(* ---------------------------------------------------------------- witnesses for composition *)
Definition frank (s : string) : nat :=
  match s with String c _ => nat_of_ascii c | EmptyString => 0 end.
Definition c_r1 : list (string * string) := [("g", "h"); ("k", "kk")].
Definition c_r2 : list (string * string) := [("h", "g2"); ("j", "i"); ("kk", "k")].

Ltac nodup_tac :=
  repeat match goal with
         | |- NoDup [] => constructor
         | |- NoDup (_ :: _) => constructor; [cbn; intuition discriminate|]
         end.
Lemma Forall_In {A} (P : A -> Prop) l : Forall P l -> forall x, In x l -> P x.
Proof. apply Forall_forall. Qed.
Ltac forall_list :=
  match goal with |- forall s, In s ?L -> @?Q s => apply (Forall_In Q L) end;
  match goal with |- Forall ?P ?L => let L' := eval vm_compute in L in change (Forall P L') end.
Ltac forall_tac :=
  forall_list;
  repeat (constructor; [vm_compute; try (intros; first [reflexivity | discriminate | (split; reflexivity)])|]);
  try apply Forall_nil.

Lemma toy_wf_frank : wf_model frank z2 toy.
Proof. constructor; cbn; nodup_tac; cbn; auto; lia. Qed.

Lemma toy1_wf_frank : wf_model frank z2 (Rename.rename toy_unfold frank z2 toy c_r1).
Proof. constructor; vm_compute; nodup_tac; auto; repeat split; lia. Qed.

Lemma toy_compose_hyps :
  let m := toy in
  let s1 := sigma_of toy_unfold m c_r1 in
  let s2 := sigma_of toy_unfold (Rename.rename toy_unfold frank z2 m c_r1) c_r2 in
  let sc := sigma_of toy_unfold m (compose c_r1 c_r2) in
  wf_map c_r1
  /\ (forall s, In s (occ m) -> mem s (collect toy_unfold m) = false ->
        mem s (collect toy_unfold (Rename.rename toy_unfold frank z2 m c_r1)) = false)
  /\ (forall s, In s (occ m) -> mem s (collect toy_unfold m) = true ->
        mem (ren c_r1 s) (collect toy_unfold (Rename.rename toy_unfold frank z2 m c_r1)) = true)
  /\ (forall s, In s (syms (intensity m)) -> s1 s = s /\ s2 s = s)
  /\ (forall e i, In e (values m) -> In i (all_binders e) -> s2 i = i)
  /\ NoDup (map (fun kv => kmap s1 (fst kv)) (parameter_defaults m))
  /\ NoDup (map (fun kv => s1 (fst kv)) (kinematic_variables m))
  /\ NoDup (map (fun kv => sc (fst kv)) (kinematic_variables m))
  /\ (forall a b, In a (kinematic_variables m) -> In b (kinematic_variables m) ->
        frank (name_of (sc (fst a))) = frank (name_of (sc (fst b))) -> sc (fst a) = sc (fst b)).
Proof.
  cbv zeta. split; [repeat constructor|]. split; [forall_tac|]. split; [forall_tac|].
  split; [forall_tac|]. split.
  { intros e i He Hi. cbn in He.
    repeat (destruct He as [<-|He]; [cbn in Hi; contradiction|]). contradiction. }
  split; [vm_compute; nodup_tac|]. split; [vm_compute; nodup_tac|]. split; [vm_compute; nodup_tac|].
  intros a b Ha Hb. cbn in Ha, Hb.
  destruct Ha as [<-|[<-|[]]]; destruct Hb as [<-|[<-|[]]]; vm_compute; intros E; try reflexivity; discriminate E.
Qed.

Lemma toy_compose_value :
  Rename.rename toy_unfold frank z2 (Rename.rename toy_unfold frank z2 toy c_r1) c_r2
  = Model (intensity toy)
          [(A0, App HMul [Sym "g2"; Sym "m|3"; App HCos [Sym "k|3"]; Sym "i|3"])]
          [(Sym "g2", "(1+0j)"); (Sym "m|3", "0.98")]
          [("i|3", App (HOther "Phi") [Sym "q"]); ("k|3", App (HOther "Theta") [Sym "p"])]
          [("c", App HMul [Sym "g2"; Sym "m|3"])].
Proof. vm_compute. reflexivity. Qed.

(* (i) full equality is FALSE when a symbol of the model is not collected.  Since parameters are
   collected (repo commit 27f526d) the remaining uncollected place is `components`: a component
   mentioning a symbol x that occurs nowhere else *)
Definition toyU : model :=
  Model (intensity toy) (amplitudes toy) (parameter_defaults toy) (kinematic_variables toy)
        [("c", App HMul [Sym "g"; Sym "x"])].

Lemma compose_uncollected_refuted :
  exists m r1 r2, wf_model z1 z2 m /\ wf_map r1 /\ r1 <> [] /\ r2 <> []
    /\ Rename.rename toy_unfold z1 z2 (Rename.rename toy_unfold z1 z2 m r1) r2
       <> Rename.rename toy_unfold z1 z2 m (compose r1 r2).
Proof.
  exists toyU, [("g", "x")], [("x", "y")]. split.
  { constructor; cbn; nodup_tac; cbn; auto. }
  split; [repeat constructor|]. split; [discriminate|]. split; [discriminate|].
  intros E. apply (f_equal components) in E. vm_compute in E. discriminate E.
Qed.

(* (ii) ... and when the first map merges two parameters and the second merges the result
   with a third: the surviving default value differs *)
Definition toy3 : model :=
  Model (intensity toy)
        [(A0, App HMul [Sym "a"; Sym "b"; Sym "c"; App HCos [Sym "k|3"]])]
        [(Sym "a", "1"); (Sym "b", "2"); (Sym "c", "3")]
        [("k|3", App (HOther "Theta") [Sym "p"])]
        [].

Lemma compose_double_merge_refuted :
  exists m r1 r2, wf_model z1 z2 m /\ wf_map r1 /\ r1 <> [] /\ r2 <> []
    /\ (forall s, In s (occ m) -> mem s (collect toy_unfold m) = true \/ In s (syms (intensity m)))
    /\ Rename.rename toy_unfold z1 z2 (Rename.rename toy_unfold z1 z2 m r1) r2
       <> Rename.rename toy_unfold z1 z2 m (compose r1 r2).
Proof.
  exists toy3, [("a", "x"); ("c", "x")], [("x", "z"); ("b", "z")]. split.
  { constructor; cbn; nodup_tac; cbn; auto. }
  split; [repeat constructor|]. split; [discriminate|]. split; [discriminate|]. split.
  { forall_list. repeat (constructor; [vm_compute; first [left; reflexivity | right; tauto]|]). apply Forall_nil. }
  intros E. apply (f_equal parameter_defaults) in E. vm_compute in E. discriminate E.
Qed.
