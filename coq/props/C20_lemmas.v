(* C20 — lemmas about the trees regenerated from /repo (Gen_C20). *)
From AV Require Import DenR PhspMath.
From AVchk Require Import Gen_C20.
From Coq Require Import Lra Lia Psatz.
Open Scope R_scope.

(* ---------- Källén ---------- *)
Definition envK (x y z : R) : env := env_of [("x", x); ("y", y); ("z", z)].

Lemma kallen_wd x y z : wdR (envK x y z) gen_kallen.
Proof. unfold gen_kallen, envK. den_simpl. repeat split. Qed.

Lemma kallen_closed x y z : denR (envK x y z) gen_kallen = kallenR x y z.
Proof. unfold gen_kallen, envK, kallenR. den_simpl. field. Qed.

Lemma kallen_sym_xy x y z : denR (envK x y z) gen_kallen = denR (envK y x z) gen_kallen.
Proof. rewrite !kallen_closed. unfold kallenR. ring. Qed.
Lemma kallen_sym_yz x y z : denR (envK x y z) gen_kallen = denR (envK x z y) gen_kallen.
Proof. rewrite !kallen_closed. unfold kallenR. ring. Qed.
Lemma kallen_sym_cyc x y z : denR (envK x y z) gen_kallen = denR (envK y z x) gen_kallen.
Proof. rewrite !kallen_closed. unfold kallenR. ring. Qed.

Lemma kallen_factor x y z : 0 <= y -> 0 <= z ->
  denR (envK x y z) gen_kallen = (x - (sqrt y + sqrt z)^2) * (x - (sqrt y - sqrt z)^2).
Proof.
  intros Hy Hz. rewrite kallen_closed. unfold kallenR.
  rewrite <- (sqrt_sqrt y Hy) at 1 2 3. rewrite <- (sqrt_sqrt z Hz) at 1 2 3. ring.
Qed.

(* ---------- third Mandelstam variable on an event ---------- *)

Definition envM (s1 s2 s3 m0 m1 m2 m3 out : R) : env :=
  env_of [("s1", s1); ("s2", s2); ("s3", s3); ("m0", m0); ("m1", m1); ("m2", m2);
          ("m3", m3); ("out", out)].

Lemma third_wd s1 s2 s3 m0 m1 m2 m3 o : wdR (envM s1 s2 s3 m0 m1 m2 m3 o) gen_third.
Proof. unfold gen_third, envM. den_simpl. repeat split. Qed.

Lemma third_closed s1 s2 s3 m0 m1 m2 m3 o :
  denR (envM s1 s2 s3 m0 m1 m2 m3 o) gen_third = m0^2 + m1^2 + m2^2 + m3^2 - s1 - s2.
Proof. unfold gen_third, envM. den_simpl. field. Qed.

(* any frame: p0 = p1+p2+p3, masses are any reals whose squares are the Minkowski norms *)
Lemma third_mandelstam_event
  E1 x1 y1 z1 E2 x2 y2 z2 E3 x3 y3 z3 m0 m1 m2 m3 s3 o :
  m1^2 = mink E1 x1 y1 z1 -> m2^2 = mink E2 x2 y2 z2 -> m3^2 = mink E3 x3 y3 z3 ->
  m0^2 = mink (E1+E2+E3) (x1+x2+x3) (y1+y2+y3) (z1+z2+z3) ->
  denR (envM (mink (E2+E3) (x2+x3) (y2+y3) (z2+z3))
             (mink (E1+E3) (x1+x3) (y1+y3) (z1+z3)) s3 m0 m1 m2 m3 o) gen_third
  = mink (E1+E2) (x1+x2) (y1+y2) (z1+z2).
Proof.
  intros H1 H2 H3 H0. rewrite third_closed, H0, H1, H2, H3. unfold mink. ring.
Qed.

(* ---------- Kibble ---------- *)
Lemma kibble_wd s1 s2 s3 m0 m1 m2 m3 o : wdR (envM s1 s2 s3 m0 m1 m2 m3 o) gen_kibble.
Proof. unfold gen_kibble, envM. den_simpl. repeat split. Qed.

Lemma kibble_closed s1 s2 s3 m0 m1 m2 m3 o :
  denR (envM s1 s2 s3 m0 m1 m2 m3 o) gen_kibble =
  kallenR (kallenR s2 (m2^2) (m0^2)) (kallenR s3 (m3^2) (m0^2)) (kallenR s1 (m1^2) (m0^2)).
Proof. unfold gen_kibble, envM, kallenR. den_simpl. field. Qed.


(* ---------- literal vanishing arguments inserted before doit() (massless particles, sigma = 0) ---------- *)
Lemma kallen_zero_args x y z :
  denR (envK x y z) gen_kallen_x0 = kallenR 0 y z /\
  denR (envK x y z) gen_kallen_y0 = kallenR x 0 z /\
  denR (envK x y z) gen_kallen_z0 = kallenR x y 0 /\
  denR (envK x y z) gen_kallen_xy0 = kallenR 0 0 z /\
  denR (envK x y z) gen_kallen_float0 = kallenR 0 y z.
Proof.
  unfold gen_kallen_x0, gen_kallen_y0, gen_kallen_z0, gen_kallen_xy0, gen_kallen_float0, envK, kallenR.
  den_simpl. repeat split; field.
Qed.
Lemma kibble_massless s1 s2 s3 m0 m1 m2 m3 o :
  denR (envM s1 s2 s3 m0 m1 m2 m3 o) gen_kibble_m1_0 =
    kallenR (kallenR s2 (m2^2) (m0^2)) (kallenR s3 (m3^2) (m0^2)) (kallenR s1 0 (m0^2)) /\
  denR (envM s1 s2 s3 m0 m1 m2 m3 o) gen_kibble_m2_0 =
    kallenR (kallenR s2 0 (m0^2)) (kallenR s3 (m3^2) (m0^2)) (kallenR s1 (m1^2) (m0^2)) /\
  denR (envM s1 s2 s3 m0 m1 m2 m3 o) gen_kibble_m3_0 =
    kallenR (kallenR s2 (m2^2) (m0^2)) (kallenR s3 0 (m0^2)) (kallenR s1 (m1^2) (m0^2)) /\
  denR (envM s1 s2 s3 m0 m1 m2 m3 o) gen_kibble_s1_0 =
    kallenR (kallenR s2 0 (m0^2)) (kallenR s3 0 (m0^2)) (kallenR 0 (m1^2) (m0^2)).
Proof.
  unfold gen_kibble_m1_0, gen_kibble_m2_0, gen_kibble_m3_0, gen_kibble_s1_0, envM, kallenR.
  den_simpl. repeat split; field.
Qed.

(* ---------- the classes constructed through keywords in shuffled order ---------- *)
Lemma keyword_construction s1 s2 s3 m0 m1 m2 m3 o x y z :
  denR (envK x y z) gen_kallen_kw = kallenR x y z /\
  denR (envM s1 s2 s3 m0 m1 m2 m3 o) gen_kibble_kw_masses_first = denR (envM s1 s2 s3 m0 m1 m2 m3 o) gen_kibble /\
  denR (envM s1 s2 s3 m0 m1 m2 m3 o) gen_kibble_kw_mixed = denR (envM s1 s2 s3 m0 m1 m2 m3 o) gen_kibble /\
  denR (envM s1 s2 s3 m0 m1 m2 m3 o) gen_kibble_kw_reversed = denR (envM s1 s2 s3 m0 m1 m2 m3 o) gen_kibble.
Proof.
  unfold gen_kallen_kw, gen_kibble_kw_masses_first, gen_kibble_kw_mixed, gen_kibble_kw_reversed, gen_kibble,
    envK, envM, kallenR.
  den_simpl. repeat split; field.
Qed.

(* Rest frame of the parent: total three-momentum zero, m0 = E1+E2+E3. *)
Lemma kibble_event
  E1 x1 y1 z1 E2 x2 y2 z2 E3 x3 y3 z3 m0 m1 m2 m3 o :
  x1 + x2 + x3 = 0 -> y1 + y2 + y3 = 0 -> z1 + z2 + z3 = 0 ->
  m1^2 = mink E1 x1 y1 z1 -> m2^2 = mink E2 x2 y2 z2 -> m3^2 = mink E3 x3 y3 z3 ->
  m0 = E1 + E2 + E3 ->
  denR (envM (mink (E2+E3) (x2+x3) (y2+y3) (z2+z3))
             (mink (E1+E3) (x1+x3) (y1+y3) (z1+z3))
             (mink (E1+E2) (x1+x2) (y1+y2) (z1+z2)) m0 m1 m2 m3 o) gen_kibble
  = - 64 * m0^4 * ((y2*z3 - z2*y3)^2 + (z2*x3 - x2*z3)^2 + (x2*y3 - y2*x3)^2).
Proof.
  intros Hx Hy Hz H1 H2 H3 H0.
  assert (x1 = - (x2 + x3)) by lra. assert (y1 = - (y2 + y3)) by lra.
  assert (z1 = - (z2 + z3)) by lra. subst x1 y1 z1.
  rewrite kibble_closed, H1, H2, H3, H0.
  unfold kallenR, mink. ring.
Qed.

Lemma kibble_event_nonpos
  E1 x1 y1 z1 E2 x2 y2 z2 E3 x3 y3 z3 m0 m1 m2 m3 o :
  x1 + x2 + x3 = 0 -> y1 + y2 + y3 = 0 -> z1 + z2 + z3 = 0 ->
  m1^2 = mink E1 x1 y1 z1 -> m2^2 = mink E2 x2 y2 z2 -> m3^2 = mink E3 x3 y3 z3 ->
  m0 = E1 + E2 + E3 ->
  denR (envM (mink (E2+E3) (x2+x3) (y2+y3) (z2+z3))
             (mink (E1+E3) (x1+x3) (y1+y3) (z1+z3))
             (mink (E1+E2) (x1+x2) (y1+y2) (z1+z2)) m0 m1 m2 m3 o) gen_kibble <= 0.
Proof.
  intros Hx Hy Hz H1 H2 H3 H0.
  rewrite (kibble_event E1 x1 y1 z1 E2 x2 y2 z2 E3 x3 y3 z3 m0 m1 m2 m3 o Hx Hy Hz H1 H2 H3 H0).
  assert (0 <= m0^4) by (replace (m0^4) with ((m0^2)^2) by ring; apply pow2_ge_0).
  assert (0 <= (y2*z3 - z2*y3)^2 + (z2*x3 - x2*z3)^2 + (x2*y3 - y2*x3)^2)
    by (pose proof (pow2_ge_0 (y2*z3 - z2*y3)); pose proof (pow2_ge_0 (z2*x3 - x2*z3));
        pose proof (pow2_ge_0 (x2*y3 - y2*x3)); lra).
  nra.
Qed.

(* ---------- the indicator ---------- *)
Definition withinR (s1 s2 m0 m1 m2 m3 out : R) : R :=
  if Rle_dec (kibbleR s1 s2 (m0^2 + m1^2 + m2^2 + m3^2 - s1 - s2) m0 m1 m2 m3) 0
  then 1 else out.

Lemma within_wd s1 s2 s3 m0 m1 m2 m3 o : wdR (envM s1 s2 s3 m0 m1 m2 m3 o) gen_within.
Proof.
  unfold gen_within, envM. den_simpl.
  repeat match goal with
         | |- _ /\ _ => split
         | |- context [Req_EM_T ?a ?b] => destruct (Req_EM_T a b)
         | |- True => exact I
         end; try exact I; try lra.
Qed.

(* The Piecewise condition is compared semantically: SymPy may canonicalise the
   relation (move terms across, flip it); what matters is that it holds iff Kibble <= 0. *)
Ltac rel_contra :=
  exfalso;
  match goal with
  | H : ?a <= ?b, N : ~ (?c <= ?d) |- _ =>
      first [ assert (b - a = d - c) by (unfold kallenR; field)
            | assert (b - a = 2 * (d - c)) by (unfold kallenR; field)
            | assert (2 * (b - a) = d - c) by (unfold kallenR; field)
            | assert (b - a = 4 * (d - c)) by (unfold kallenR; field)
            | assert (4 * (b - a) = d - c) by (unfold kallenR; field)
            | assert (b - a = 16 * (d - c)) by (unfold kallenR; field)
            | assert (16 * (b - a) = d - c) by (unfold kallenR; field) ]; lra
  end.

Lemma within_closed s1 s2 s3 m0 m1 m2 m3 o :
  denR (envM s1 s2 s3 m0 m1 m2 m3 o) gen_within = withinR s1 s2 m0 m1 m2 m3 o.
Proof.
  unfold gen_within, envM, withinR, kibbleR. den_simpl. unfold Rleb.
  repeat match goal with
         | |- context [Rle_dec ?a ?b] => destruct (Rle_dec a b)
         end; cbn [b2R];
  repeat match goal with
         | |- context [Req_EM_T ?a ?b] => destruct (Req_EM_T a b)
         end; try lra; try (field; fail); rel_contra.
Qed.

(* for a physical event the indicator is 1 (sigma3 is computed by the code itself) *)
Lemma within_event
  E1 x1 y1 z1 E2 x2 y2 z2 E3 x3 y3 z3 m0 m1 m2 m3 s3 o :
  x1 + x2 + x3 = 0 -> y1 + y2 + y3 = 0 -> z1 + z2 + z3 = 0 ->
  m1^2 = mink E1 x1 y1 z1 -> m2^2 = mink E2 x2 y2 z2 -> m3^2 = mink E3 x3 y3 z3 ->
  m0 = E1 + E2 + E3 ->
  denR (envM (mink (E2+E3) (x2+x3) (y2+y3) (z2+z3))
             (mink (E1+E3) (x1+x3) (y1+y3) (z1+z3)) s3 m0 m1 m2 m3 o) gen_within = 1.
Proof.
  intros Hx Hy Hz H1 H2 H3 H0. rewrite within_closed. unfold withinR.
  match goal with |- context [Rle_dec ?a 0] => destruct (Rle_dec a 0) as [|N] end; [reflexivity|].
  exfalso. apply N.
  pose proof (kibble_event_nonpos E1 x1 y1 z1 E2 x2 y2 z2 E3 x3 y3 z3 m0 m1 m2 m3 o
                Hx Hy Hz H1 H2 H3 H0) as K.
  rewrite kibble_closed in K.
  replace (m0^2 + m1^2 + m2^2 + m3^2 - mink (E2+E3) (x2+x3) (y2+y3) (z2+z3)
           - mink (E1+E3) (x1+x3) (y1+y3) (z1+z3))
    with (mink (E1+E2) (x1+x2) (y1+y2) (z1+z2)).
  - exact K.
  - assert (x1 = - (x2 + x3)) by lra. assert (y1 = - (y2 + y3)) by lra.
    assert (z1 = - (z2 + z3)) by lra. subst x1 y1 z1.
    rewrite H1, H2, H3, H0. unfold mink. ring.
Qed.

(* inside the bounding box: 1 exactly between the PDG limits, else the caller's value *)
Lemma within_iff_dalitz_limits s1 s2 s3 m0 m1 m2 m3 o :
  0 <= m1 -> 0 <= m2 -> 0 <= m3 -> m1 + m2 + m3 < m0 -> 0 < s1 ->
  (m2 + m3)^2 <= s1 <= (m0 - m1)^2 ->
  (s2lo s1 m0 m1 m2 m3 <= s2 <= s2hi s1 m0 m1 m2 m3 ->
     denR (envM s1 s2 s3 m0 m1 m2 m3 o) gen_within = 1) /\
  (~ (s2lo s1 m0 m1 m2 m3 <= s2 <= s2hi s1 m0 m1 m2 m3) ->
     denR (envM s1 s2 s3 m0 m1 m2 m3 o) gen_within = o).
Proof.
  intros H1 H2 H3 H0 Hs Hbox. rewrite within_closed. unfold withinR.
  pose proof (kibble_nonpos_iff_dalitz_limits s1 s2 m0 m1 m2 m3 H1 H2 H3 H0 Hs Hbox) as [K1 K2].
  match goal with |- context [Rle_dec ?a 0] => destruct (Rle_dec a 0) as [L|N] end; split; intros H.
  - reflexivity.
  - exfalso. apply H. apply K1. exact L.
  - exfalso. apply N. apply K2. exact H.
  - reflexivity.
Qed.

(* non-vacuity: m = (3, 1/2, 1/2, 1/2); (s1,s2) = (3,3) is interior, (1.2, 1.2) exterior *)
Example c20_example_interior :
  denR (envM 3 3 0 3 (1/2) (1/2) (1/2) 77) gen_within = 1.
Proof.
  rewrite within_closed. unfold withinR.
  match goal with |- context [Rle_dec ?a 0] => destruct (Rle_dec a 0) as [L|N] end; [reflexivity|].
  exfalso. apply N. unfold kibbleR, kallenR. lra.
Qed.
Example c20_example_exterior :
  denR (envM (6/5) (6/5) 0 3 (1/2) (1/2) (1/2) 77) gen_within = 77.
Proof.
  rewrite within_closed. unfold withinR.
  match goal with |- context [Rle_dec ?a 0] => destruct (Rle_dec a 0) as [L|N] end; [|reflexivity].
  exfalso. revert L. unfold kibbleR, kallenR. lra.
Qed.
