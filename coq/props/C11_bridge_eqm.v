(* C11 — the general tree EqualMassPhaseSpaceFactor(s,m1,m2).doit() at m1 = m2 = m denotes the same as the (s,m,m) tree *)
From AV Require Import DenC.
From AVchk Require Import Gen_C11 C11_base.
From Coq Require Import Lra Lia Psatz.
Open Scope C_scope.

Lemma eqm_general_at_equal_mass s m : (0 < m)%R -> s <> 0%R -> s <> (4 * m ^ 2)%R ->
  (wdC (envE s m) gen_eqm_eq -> wdC (envS s m m) gen_eqm) /\
  denC (envS s m m) gen_eqm = denC (envE s m) gen_eqm_eq.
Proof.
  intros H1 Hs Hs4.
  unfold gen_eqm, gen_eqm_eq, envS, envE. denC_simplR. lift_R. norm_args s m m.
  set (Q := q2R s m m).
  assert (HQ0 : Q <> 0%R).
  { unfold Q, q2R. replace ((s - (m + m) ^ 2) * (s - (m - m) ^ 2) / (4 * s))%R with ((s - 4 * m ^ 2) / 4)%R by (field; lra). lra. }
  rewrite ?(Rabs_Ropp Q).
  replace (Rabs (4 * Q)) with (4 * Rabs Q)%R by (rewrite Rabs_mult, (Rabs_pos_eq 4) by lra; ring).
  assert (HA : (0 < Rabs s)%R) by (apply Rabs_pos_lt; exact Hs).
  assert (HQ : (0 < Rabs Q)%R) by (apply Rabs_pos_lt; exact HQ0).
  rewrite ?(Csqrt_nonneg (4 * Rabs Q)), ?(Csqrt_nonneg (Rabs Q)), ?(Csqrt_nonneg (Rabs s)) by lra.
  rewrite ?sqrt_4x by lra. lift_R.
  assert (HsA : (0 < sqrt (Rabs s))%R) by (apply sqrt_lt_R0; lra).
  assert (HsB : (0 < sqrt (Rabs Q))%R) by (apply sqrt_lt_R0; lra).
  set (A := sqrt (Rabs s)) in *. set (B := sqrt (Rabs Q)) in *.
  replace (0 / 1)%R with 0%R by field.
  repeat match goal with |- context [Rltb ?x s] =>
    lazymatch x with (4 * m ^ 2)%R => fail | _ => replace x with (4 * m ^ 2)%R by (unfold_pows; field) end end.
  pose (rho := (2 * B / A)%R).
  repeat match goal with |- context [Rabs (powZ ?u (-1) * (?v * 1))] =>
    lazymatch u with (1 - rho)%R => fail | _ =>
      replace u with (1 - rho)%R by (unfold rho; unfold_pows; field; lra);
      replace v with (1 + rho)%R by (unfold rho; unfold_pows; field; lra) end end.
  repeat match goal with |- context [atan ?x] =>
    lazymatch x with (/ rho)%R => fail | _ => replace x with (/ rho)%R by (unfold rho; unfold_pows; field; lra) end end.
  destruct (Rlt_dec s 0) as [Hn|Hn]; [|apply Rnot_lt_le in Hn;
    destruct (Rlt_dec (4 * m ^ 2) s) as [Ha|Ha]; [|apply Rnot_lt_le in Ha]];
  decide_rels; resolve_if.
  all: split;
    [ intros W; repeat match goal with H : _ /\ _ |- _ => destruct H end;
      repeat split; try exact I; try assumption; try reflexivity; try (apply RtoC_neq0; try lra); try apply PI_neq0
    | try match goal with |- context [Clog (RtoC ?c)] => abstract_C (Clog (RtoC c)) end;
      lift_R; to_mk; apply mk_eq; unfold_pows; field; repeat split; try apply PI_neq0; lra ].
Qed.
