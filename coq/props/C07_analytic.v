(* C07 — analytic lemmas about the trees regenerated from /repo (Gen_C07):
   per-event meaning of the NumPy code of Phi(p), Theta(p), InvariantMass(p), InvariantMass(p+q). *)
From AV Require Import DenR.
From AVchk Require Import Gen_C07.
From Coq Require Import Lra Lia Psatz.
Open Scope R_scope.

Definition envP (E x y z : R) : env := env_of [("E", E); ("x", x); ("y", y); ("z", z)].
Definition envPQ (E x y z Eq xq yq zq : R) : env :=
  env_of [("E", E); ("x", x); ("y", y); ("z", z); ("Eq", Eq); ("xq", xq); ("yq", yq); ("zq", zq)].


Ltac pw_second :=
  (* the Piecewise of ComplexSqrt takes its real branch *)
  rewrite b2R_Rltb_false by lra;
  destruct (Req_EM_T 0 0) as [_|N0]; [|exfalso; apply N0; reflexivity];
  destruct (Req_EM_T 1 0) as [N1|_]; [exfalso; lra|].

(* ---- Phi(p) = atan2(p_y, p_x) ---- *)
Lemma phi_meaning (t : expr) : t = phi_cse \/ t = phi_nocse -> forall E x y z,
  (x <> 0 \/ y <> 0) ->
  wdR (envP E x y z) t /\ denR (envP E x y z) t = atan2 y x.
Proof.
  intros [->| ->] E x y z H; unfold phi_cse, phi_nocse, envP; den_simpl; repeat split; tauto.
Qed.

(* ---- Theta(p) = acos(p_z / |p|), the acos argument is a cosine ---- *)
Lemma ratio_bound x y z : 0 < x^2 + y^2 + z^2 -> -1 <= z / sqrt (x^2 + y^2 + z^2) <= 1.
Proof.
  intros H. set (n := sqrt (x^2 + y^2 + z^2)).
  assert (Hn : 0 < n) by (apply sqrt_lt_R0; exact H).
  assert (Hn2 : n * n = x^2 + y^2 + z^2) by (apply sqrt_sqrt; lra).
  assert (Hz : z^2 <= n * n) by nra.
  split.
  - apply Rmult_le_reg_r with n; [exact Hn|]. unfold Rdiv. rewrite Rmult_assoc, Rinv_l by lra. nra.
  - apply Rmult_le_reg_r with n; [exact Hn|]. unfold Rdiv. rewrite Rmult_assoc, Rinv_l by lra. nra.
Qed.

Lemma theta_meaning (t : expr) : t = theta_cse \/ t = theta_nocse -> forall E x y z,
  0 < x^2 + y^2 + z^2 ->
  wdR (envP E x y z) t /\
  denR (envP E x y z) t = acos (z / sqrt (x^2 + y^2 + z^2)) /\
  cos (denR (envP E x y z) t) * sqrt (x^2 + y^2 + z^2) = z /\
  0 <= denR (envP E x y z) t <= PI.
Proof.
  intros Ht E x y z H.
  pose proof (ratio_bound x y z H) as Hb.
  assert (Hn : 0 < sqrt (x^2 + y^2 + z^2)) by (apply sqrt_lt_R0; exact H).
  assert (Eq : z * (/ sqrt (x ^ 2 + (y ^ 2 + (z ^ 2 + 0))) ^ 1 * 1) = z / sqrt (x^2 + y^2 + z^2)).
  { replace (x ^ 2 + (y ^ 2 + (z ^ 2 + 0))) with (x^2 + y^2 + z^2) by ring. field. lra. }
  assert (Key : wdR (envP E x y z) t /\ denR (envP E x y z) t = acos (z / sqrt (x^2 + y^2 + z^2))).
  { destruct Ht as [->| ->]; unfold theta_cse, theta_nocse, envP; den_simpl; rewrite Eq;
      (split; [repeat split; try tauto; try lra | reflexivity]). }
  destruct Key as [K1 K2]. split; [exact K1|]. split; [exact K2|]. rewrite K2. split.
  - rewrite cos_acos by exact Hb. field. lra.
  - pose proof (acos_bound (z / sqrt (x^2 + y^2 + z^2))). lra.
Qed.

(* ---- InvariantMass(p) = sqrt(E^2 - |p|^2) for a time-like or light-like momentum ---- *)
Lemma mass_meaning (t : expr) : t = mass_cse \/ t = mass_nocse -> forall E x y z,
  0 <= E^2 - x^2 - y^2 - z^2 ->
  wdR (envP E x y z) t /\ denR (envP E x y z) t = sqrt (E^2 - x^2 - y^2 - z^2).
Proof.
  intros [->| ->] E x y z H; unfold mass_cse, mass_nocse, envP; den_simpl; pw_second;
    (split; [repeat split; try tauto; lra | rewrite pow_1; f_equal; field]).
Qed.

(* ---- InvariantMass(p + q): the Minkowski norm of the SUMMED momenta ---- *)
Lemma mass_sum_meaning (t : expr) : t = mass_sum_cse \/ t = mass_sum_nocse ->
  forall E x y z Eq xq yq zq,
  0 <= (E + Eq)^2 - (x + xq)^2 - (y + yq)^2 - (z + zq)^2 ->
  wdR (envPQ E x y z Eq xq yq zq) t /\
  denR (envPQ E x y z Eq xq yq zq) t = sqrt ((E + Eq)^2 - (x + xq)^2 - (y + yq)^2 - (z + zq)^2).
Proof.
  intros [->| ->] E x y z Eq xq yq zq H; unfold mass_sum_cse, mass_sum_nocse, envPQ; den_simpl;
    pw_second; (split; [repeat split; try tauto; lra | rewrite pow_1; f_equal; field]).
Qed.
