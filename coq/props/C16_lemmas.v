(* C16 — proofs about the hand-written model coq/theories/Cache.v.
   The model is tied to /repo by the correspondence run (runners/C16.py, bridge/hist_C16.py). *)
From Coq Require Import List Arith Bool Lia.
Import ListNotations.
From AV Require Import Cache.

Section Proofs.
Variables (expr key : Type).
Variable expr_eqb : expr -> expr -> bool.
Variable key_eqb : key -> key -> bool.
Variable keyf : expr -> key.
Variable doit : expr -> expr.
Variable picklable : expr -> bool.

(* SymPy's structural equality is a congruence for doit(): equal expressions unfold equally.
   (Trusted link, exercised by the harness on every pair of pool expressions.) *)
Hypothesis eqb_doit : forall a b, expr_eqb a b = true -> doit a = doit b.

Notation Sys := (sys expr key).
Notation PS := (pstate expr key).
Notation Act := (action expr key).
Notation stepR := (step expr key expr_eqb key_eqb keyf doit picklable Robust).
Notation runR := (run expr key expr_eqb key_eqb keyf doit picklable Robust).
Notation do_stepR := (do_step expr key expr_eqb key_eqb keyf doit picklable Robust).
Notation run_toR := (run_to expr key expr_eqb key_eqb keyf doit picklable Robust).
Notation updk := (upd expr key key_eqb).

(* ---------------------------------------------------------------------------------------- *)
(* invariant                                                                                *)
Definition dir_ok (d : key -> option (content expr)) : Prop :=
  forall k a b, d k = Some (Valid a b) -> b = doit a.
Definition no_blocked (d : key -> option (content expr)) : Prop :=
  forall k, d k <> Some Blocked.
Definition proc_ok (p : PS) : Prop :=
  match p with
  | PComputed e _ r | PWriting e _ r | PWritten e _ r => r = doit e
  | PDone e v => v = VExpr (doit e)
  | PRaised _ => False
  | PExists _ _ => False            (* a state of the Pinned variant only *)
  | _ => True
  end.
Definition Inv (s : Sys) : Prop :=
  dir_ok (dir s) /\ no_blocked (dir s) /\ Forall proc_ok (procs s).

Lemma upd_ok : forall d k c, dir_ok d ->
  (forall a b, c = Some (Valid a b) -> b = doit a) -> dir_ok (updk d k c).
Proof.
  unfold dir_ok, upd; intros d k c Hd Hc k' a b H.
  destruct (key_eqb k k'); eauto.
Qed.

Lemma upd_nb : forall d k c, no_blocked d -> c <> Some Blocked -> no_blocked (updk d k c).
Proof.
  unfold no_blocked, upd; intros d k c Hd Hc k'. destruct (key_eqb k k'); auto.
Qed.

Lemma set_nth_Forall : forall (P : PS -> Prop) l i p, Forall P l -> P p -> Forall P (set_nth expr key l i p).
Proof.
  induction l as [|h t IH]; intros i p Hl Hp; simpl.
  - destruct i; constructor.
  - inversion Hl; subst. destruct i; constructor; auto.
Qed.

Lemma nth_Forall : forall (P : PS -> Prop) l i p, Forall P l -> nth_error l i = Some p -> P p.
Proof.
  intros P l i p Hl Hn. rewrite Forall_forall in Hl. apply Hl. eapply nth_error_In; eauto.
Qed.

Ltac inv_split := unfold Inv, setp, setdp, setd; simpl; repeat split.

Lemma do_step_inv : forall s i, Inv s -> Inv (do_stepR s i).
Proof.
  intros s i (Hd & Hb & Hp). unfold do_step.
  destruct (nth_error (procs s) i) as [p|] eqn:Hn; [|repeat split; auto].
  pose proof (nth_Forall _ _ _ _ Hp Hn) as Hok.
  destruct p; simpl in Hok; try contradiction.
  - inv_split; auto. apply set_nth_Forall; simpl; auto.
  - destruct (dir s k) as [c|] eqn:Hk; [destruct c|];
      try (inv_split; auto; apply set_nth_Forall; simpl; auto).
    destruct (expr_eqb src e) eqn:He; inv_split; auto; apply set_nth_Forall; simpl; auto.
    apply Hd in Hk. rewrite Hk. f_equal. apply eqb_doit; auto.
  - inv_split; auto. apply set_nth_Forall; simpl; auto.
  - inv_split; auto. apply set_nth_Forall; simpl; auto.
  - destruct (picklable e); inv_split; auto; apply set_nth_Forall; simpl; subst; auto.
  - destruct (dir s k) as [c|] eqn:Hk; [destruct c|];
      try (exfalso; eapply Hb; eauto; fail);
      (inv_split;
       [apply upd_ok; auto; intros a b E; inversion E; subst; auto
       |apply upd_nb; auto; discriminate
       |apply set_nth_Forall; simpl; auto; subst; auto]).
  - repeat split; auto.
  - repeat split; auto.
Qed.

Lemma run_to_inv : forall fuel s i ph, Inv s -> Inv (run_toR fuel s i ph).
Proof.
  induction fuel; intros s i ph H; simpl; auto.
  destruct (nth_error (procs s) i); auto.
  destruct (at_phase expr key ph p); auto. apply IHfuel. apply do_step_inv; auto.
Qed.

Lemma do_crash_inv : forall s i, Inv s -> Inv (do_crash expr key s i).
Proof.
  intros s i (Hd & Hb & Hp). unfold do_crash.
  destruct (nth_error (procs s) i) as [p|]; [|repeat split; auto].
  destruct p; try (repeat split; auto; fail);
    (inv_split; auto; apply set_nth_Forall; simpl; auto).
Qed.

Lemma setd_inv : forall s k c, Inv s -> c <> Some Blocked ->
  (forall a b, c = Some (Valid a b) -> b = doit a) -> Inv (setd expr key key_eqb s k c).
Proof.
  intros s k c (Hd & Hb & Hp) Hc Hv. inv_split; auto. apply upd_ok; auto. apply upd_nb; auto.
Qed.

Lemma step_inv : forall s a, Inv s -> is_block a = false -> Inv (stepR s a).
Proof.
  intros s a H Hblk. destruct a; simpl in Hblk; try discriminate; cbn [step].
  - destruct H as (Hd & Hb & Hp). inv_split; auto. apply Forall_app; split; auto. repeat constructor.
  - apply do_step_inv; auto.
  - auto.
  - apply do_crash_inv; auto.
  - apply (run_to_inv 8); auto.
  - destruct (dir s k) as [c|]; auto. destruct c; auto; apply setd_inv; auto; discriminate.
  - apply setd_inv; auto; discriminate.
  - apply setd_inv; auto; discriminate.
  - apply setd_inv; auto; discriminate.
  - apply setd_inv; auto; discriminate.
  - apply setd_inv; auto; try discriminate. intros a b E; inversion E; auto.
Qed.

Definition no_block_actions (acts : list Act) : Prop := Forall (fun a => is_block a = false) acts.

Lemma run_inv : forall acts s, Inv s -> no_block_actions acts -> Inv (runR acts s).
Proof.
  induction acts as [|a t IH]; intros s H Hn; simpl; auto.
  inversion Hn; subst. apply IH; auto. apply step_inv; auto.
Qed.

Lemma robust_correct_l : forall acts s,
  Inv s -> no_block_actions acts ->
  let s' := runR acts s in
  Inv s'
  /\ (forall k a b, dir s' k = Some (Valid a b) -> b = doit a)
  /\ (forall i e v, nth_error (procs s') i = Some (PDone e v) -> v = VExpr (doit e))
  /\ (forall i e, nth_error (procs s') i <> Some (PRaised e)).
Proof.
  intros acts s H Hn s'. assert (HI : Inv s') by (apply run_inv; auto).
  split; auto. destruct HI as (Hd & Hb & Hp). repeat split; auto.
  - intros i e v Hi. apply (nth_Forall _ _ _ _ Hp Hi).
  - intros i e Hi. apply (nth_Forall _ _ _ _ Hp Hi).
Qed.

Lemma inv_init : forall d, dir_ok d -> no_blocked d -> Inv (init d).
Proof. intros d H1 H2. repeat split; auto. simpl. constructor. Qed.

(* ---------------------------------------------------------------------------------------- *)
(* progress: nobody can block a call; it is finished after at most 6 steps of its own        *)
Lemma set_nth_same : forall l i (p q : PS), nth_error l i = Some q ->
  nth_error (set_nth expr key l i p) i = Some p.
Proof.
  induction l as [|h t IH]; intros [|i] p q H; simpl in *; try discriminate; eauto.
Qed.

Lemma set_nth_other : forall l i j (p : PS), i <> j ->
  nth_error (set_nth expr key l i p) j = nth_error l j.
Proof.
  induction l as [|h t IH]; intros [|i] [|j] p H; simpl; auto; try congruence.
Qed.

Definition le_proc (p p' : PS) : Prop :=
  pexpr p' = pexpr p /\ rank p' <= rank p /\ (crashed p' = true -> crashed p = true).

Lemma le_proc_refl : forall p, le_proc p p.
Proof. unfold le_proc; auto. Qed.
Lemma le_proc_trans : forall p q r, le_proc p q -> le_proc q r -> le_proc p r.
Proof. unfold le_proc; intros p q r (A & B & C) (D & E & F); repeat split; try congruence; auto; lia. Qed.

(* shape of one step: either the state is final and nothing changes, or exactly the stepping
   process changes, keeps its expression, strictly decreases its rank and is not crashed *)
Lemma do_step_shape : forall s j p, nth_error (procs s) j = Some p ->
  (rank p = 0 /\ do_stepR s j = s)
  \/ (exists q, procs (do_stepR s j) = set_nth expr key (procs s) j q
               /\ pexpr q = pexpr p /\ rank q < rank p /\ crashed q = false).
Proof.
  intros s j p H. unfold do_step. rewrite H.
  destruct p; try (left; split; reflexivity);
    try (right; eexists; split; [reflexivity|simpl; repeat split; auto; lia]).
  - destruct (dir s k) as [c|]; [destruct c|];
      try (right; eexists; split; [reflexivity|simpl; repeat split; auto; lia]).
    destruct (expr_eqb src e);
      right; eexists; (split; [reflexivity|simpl; repeat split; auto; lia]).
  - destruct (dir s k) as [c|]; [destruct c|];
      right; eexists; (split; [reflexivity|simpl; repeat split; auto; lia]).
  - destruct (picklable e);
      right; eexists; (split; [reflexivity|simpl; repeat split; auto; lia]).
  - destruct (dir s k) as [c|]; [destruct c|];
      right; eexists; (split; [reflexivity|simpl; repeat split; auto; lia]).
Qed.

Lemma do_step_mono : forall s i j p, nth_error (procs s) i = Some p ->
  exists p', nth_error (procs (do_stepR s j)) i = Some p' /\ le_proc p p'
             /\ (i = j -> rank p' < rank p \/ rank p = 0).
Proof.
  intros s i j p H.
  destruct (nth_error (procs s) j) as [pj|] eqn:Hj.
  - destruct (do_step_shape s j pj Hj) as [(R0 & E)|(q & E & X & R & C)].
    + rewrite E. exists p; repeat split; auto. intros ->. right. congruence.
    + rewrite E. destruct (Nat.eq_dec j i) as [->|Hne].
      * rewrite (set_nth_same _ _ _ _ Hj). exists q. assert (pj = p) by congruence; subst pj.
        repeat split; auto; try lia. rewrite C; discriminate.
      * rewrite set_nth_other by auto. exists p; repeat split; auto. intros ->; congruence.
  - unfold do_step. rewrite Hj. exists p; repeat split; auto. intros ->; congruence.
Qed.

Lemma run_to_mono : forall fuel s i j ph p, nth_error (procs s) i = Some p ->
  exists p', nth_error (procs (run_toR fuel s j ph)) i = Some p' /\ le_proc p p'.
Proof.
  induction fuel; intros s i j ph p H; simpl.
  - exists p; split; auto using le_proc_refl.
  - destruct (nth_error (procs s) j) as [pj|]; [|exists p; split; auto using le_proc_refl].
    destruct (at_phase expr key ph pj); [exists p; split; auto using le_proc_refl|].
    destruct (do_step_mono s i j p H) as (p1 & H1 & L1 & _).
    destruct (IHfuel (do_stepR s j) i j ph p1 H1) as (p2 & H2 & L2).
    exists p2; split; eauto using le_proc_trans.
Qed.

Lemma step_mono : forall s a i p, nth_error (procs s) i = Some p -> is_crash_of i a = false ->
  exists p', nth_error (procs (stepR s a)) i = Some p' /\ le_proc p p'
             /\ (is_step_of i a = true -> rank p' < rank p \/ rank p = 0).
Proof.
  intros s a i p H Hc.
  destruct a; cbn [step]; simpl is_step_of;
    try (exists p; repeat split; auto; try discriminate;
         try (destruct (dir s k) as [c|]; [destruct c|]; simpl; auto); fail).
  - exists p; repeat split; auto; try discriminate. simpl.
    rewrite nth_error_app1; auto. apply nth_error_Some; congruence.
  - destruct (do_step_mono s i i0 p H) as (p' & A & B & C).
    exists p'; split; [exact A|split; [exact B|]]. intros E; apply Nat.eqb_eq in E; auto.
  - simpl in Hc. apply Nat.eqb_neq in Hc. exists p; repeat split; auto; try discriminate.
    unfold do_crash. destruct (nth_error (procs s) i0) as [q|]; auto.
    destruct q; auto; simpl; rewrite set_nth_other; auto.
  - destruct (run_to_mono 8 s i i0 ph p H) as (p' & A & B).
    exists p'; split; [exact A|split; [exact B|discriminate]].
Qed.

Definition no_crash_of (i : nat) (acts : list Act) : Prop :=
  Forall (fun a => is_crash_of i a = false) acts.
Definition own_steps (i : nat) (acts : list Act) : nat := length (filter (is_step_of i) acts).

Lemma run_mono : forall acts s i p, nth_error (procs s) i = Some p -> no_crash_of i acts ->
  exists p', nth_error (procs (runR acts s)) i = Some p' /\ pexpr p' = pexpr p
             /\ rank p' <= rank p - own_steps i acts /\ (crashed p' = true -> crashed p = true).
Proof.
  induction acts as [|a t IH]; intros s i p H Hn; simpl.
  - exists p; repeat split; auto. unfold own_steps; simpl; lia.
  - inversion Hn; subst.
    destruct (step_mono s a i p H H2) as (p1 & A & (B1 & B2 & B3) & C).
    destruct (IH _ i p1 A H3) as (p2 & D & E & F & G).
    exists p2; repeat split; auto; try congruence.
    unfold own_steps in *; simpl. destruct (is_step_of i a) eqn:Hs; simpl; [|lia].
    destruct (C eq_refl); lia.
Qed.

(* total correctness: a call that is not killed and gets 6 steps of its own returns doit e,
   whatever the other calls, the crashes of others and the environment do in between *)
Lemma robust_total_l : forall acts s i e,
  Inv s -> no_block_actions acts -> nth_error (procs s) i = Some (PStart e) ->
  no_crash_of i acts -> 6 <= own_steps i acts ->
  nth_error (procs (runR acts s)) i = Some (PDone e (VExpr (doit e))).
Proof.
  intros acts s i e HI Hb Hs Hc Hn.
  destruct (run_mono acts s i _ Hs Hc) as (p' & A & B & C & D).
  change (rank (PStart e)) with 6 in C. change (pexpr (PStart e)) with e in B.
  assert (R0 : rank p' = 0) by lia.
  destruct (robust_correct_l acts s HI Hb) as (_ & _ & Hdone & Hraise).
  destruct p'; simpl in R0; try discriminate.
  - simpl in B; subst. rewrite (Hdone _ _ _ A) in A. exact A.
  - exfalso. eapply Hraise; eauto.
  - simpl in D. specialize (D eq_refl). discriminate.
Qed.

End Proofs.

(* ---------------------------------------------------------------------------------------- *)
(* Pinned variant: correct only for sequential, undisturbed use with a key function that is  *)
(* injective (up to doit) on the expressions that were ever used                             *)
Section PinnedProofs.
Variables (expr key : Type).
Variable expr_eqb : expr -> expr -> bool.
Variable key_eqb : key -> key -> bool.
Variable keyf : expr -> key.
Variable doit : expr -> expr.
Variable picklable : expr -> bool.
Hypothesis key_eqb_spec : forall a b, key_eqb a b = true <-> a = b.
Hypothesis all_picklable : forall e, picklable e = true.

Notation PS := (pstate expr key).
Notation runP := (run expr key expr_eqb key_eqb keyf doit picklable Pinned).
Notation do_stepP := (do_step expr key expr_eqb key_eqb keyf doit picklable Pinned).
Notation run_toP := (run_to expr key expr_eqb key_eqb keyf doit picklable Pinned).
Notation updk := (upd expr key key_eqb).

(* every file is the pinned-format unfolding of some expression with that key *)
Definition pinv (d : key -> option (content expr)) : Prop :=
  forall k c, d k = Some c -> exists e, k = keyf e /\ c = Legacy (doit e).

Lemma nth_error_snoc : forall (l : list PS) x, nth_error (l ++ [x]) (length l) = Some x.
Proof. intros. rewrite nth_error_app2 by lia. rewrite Nat.sub_diag. reflexivity. Qed.

Lemma set_nth_snoc : forall (l : list PS) x y, set_nth expr key (l ++ [x]) (length l) y = l ++ [y].
Proof. induction l; intros; simpl; auto. f_equal; auto. Qed.

Lemma key_eqb_refl : forall k, key_eqb k k = true.
Proof. intros; apply key_eqb_spec; auto. Qed.

Lemma upd_same : forall d k c, updk d k c k = c.
Proof. intros; unfold upd. rewrite key_eqb_refl; auto. Qed.

Lemma rt_step : forall f d (l : list PS) p, at_phase expr key AtEnd p = false ->
  run_toP (S f) (mkSys d (l ++ [p])) (length l) AtEnd
  = run_toP f (do_stepP (mkSys d (l ++ [p])) (length l)) (length l) AtEnd.
Proof. intros. cbn [run_to procs]. rewrite nth_error_snoc, H. reflexivity. Qed.

Lemma rt_done : forall f d (l : list PS) p, at_phase expr key AtEnd p = true ->
  run_toP (S f) (mkSys d (l ++ [p])) (length l) AtEnd = mkSys d (l ++ [p]).
Proof. intros. cbn [run_to procs]. rewrite nth_error_snoc, H. reflexivity. Qed.

Ltac one :=
  rewrite rt_step by reflexivity; unfold do_step; cbn [procs dir]; rewrite nth_error_snoc, ?all_picklable.
Ltac fin := unfold setp, setdp; cbn [procs dir]; rewrite set_nth_snoc.

Lemma pinned_call : forall l d e,
  pinv d -> (forall e', keyf e = keyf e' -> doit e = doit e') ->
  exists d', runP (call (length l) e) (mkSys d l) = mkSys d' (l ++ [PDone e (VExpr (doit e))])
             /\ pinv d'.
Proof.
  intros l d e Hd Hinj. unfold call, run. cbn [fold_left step procs dir].
  destruct (d (keyf e)) as [c|] eqn:Hk.
  - destruct (Hd _ _ Hk) as (e' & Ek & Ec). subst c.
    exists d. split; auto.
    one. fin. one. rewrite Hk. fin. one. rewrite Hk. fin.
    rewrite rt_done by reflexivity. rewrite (Hinj _ Ek). reflexivity.
  - exists (updk (updk d (keyf e) (Some Garbage)) (keyf e) (Some (Legacy (doit e)))). split.
    + one. fin. one. rewrite Hk. fin. one. fin. one. rewrite Hk. fin. one. fin.
      rewrite rt_done by reflexivity. reflexivity.
    + intros k c. unfold upd. destruct (key_eqb (keyf e) k) eqn:E.
      * apply key_eqb_spec in E. subst k. intros H; inversion H; subst. eauto.
      * apply Hd.
Qed.

Lemma pinned_correct_partial_l : forall es l d,
  pinv d ->
  (forall e e', In e es -> keyf e = keyf e' -> doit e = doit e') ->
  let s' := runP (seq_calls (length l) es) (mkSys d l) in
  pinv (dir s') /\ procs s' = l ++ map (fun e => PDone e (VExpr (doit e))) es.
Proof.
  induction es as [|e t IH]; intros l d Hd Hinj.
  - simpl. split; auto. rewrite app_nil_r; auto.
  - cbn [seq_calls map]. cbv zeta. unfold run. rewrite fold_left_app. fold (runP (call (length l) e) (mkSys d l)).
    destruct (pinned_call l d e Hd) as (d' & E & Hd'); [intros; apply Hinj; simpl; auto|].
    rewrite E.
    specialize (IH (l ++ [PDone e (VExpr (doit e))]) d' Hd').
    rewrite app_length in IH. simpl in IH. rewrite Nat.add_1_r in IH.
    destruct IH as (A & B); [intros; apply Hinj; simpl; auto|].
    split; auto. unfold run in B. rewrite B. rewrite <- app_assoc. reflexivity.
Qed.

End PinnedProofs.

(* ---------------------------------------------------------------------------------------- *)
(* Pinned variant, interleaved: correct if writes are uninterrupted blocks (nobody reads or is  *)
(* killed inside one), no environment interference, key injective up to doit                  *)
Section PinnedInterleaved.
Variables (expr key : Type).
Variable expr_eqb : expr -> expr -> bool.
Variable key_eqb : key -> key -> bool.
Variable keyf : expr -> key.
Variable doit : expr -> expr.
Variable picklable : expr -> bool.
Hypothesis key_eqb_spec : forall a b, key_eqb a b = true <-> a = b.
Hypothesis key_inj : forall e e', keyf e = keyf e' -> doit e = doit e'.
Hypothesis all_picklable : forall e, picklable e = true.

Notation PS := (pstate expr key).
Notation Sys := (sys expr key).
Notation Act := (action expr key).
Notation runP := (run expr key expr_eqb key_eqb keyf doit picklable Pinned).
Notation stepP := (step expr key expr_eqb key_eqb keyf doit picklable Pinned).
Notation do_stepP := (do_step expr key expr_eqb key_eqb keyf doit picklable Pinned).
Notation updk := (upd expr key key_eqb).
Notation pinv := (pinv expr key keyf doit).

(* schedules in which a write (open-truncate, chunks, last chunk) is one uninterrupted block and
   nobody is killed inside it; everything else interleaves freely *)
Inductive atom :=
| ASpawn (e : expr)
| AStep (i : nat)
| ACrash (i : nat)
| AWrite (i : nat) (nchunks : nat).

Definition in_write (p : PS) : bool :=
  match p with PComputed _ _ _ | PWriting _ _ _ => true | _ => false end.

Definition atom_acts (a : atom) : list Act :=
  match a with
  | ASpawn e => [Spawn e]
  | AStep i => [Step i]
  | ACrash i => [Crash i]
  | AWrite i n => Step i :: repeat (Chunk i) n ++ [Step i]
  end.

Definition atom_ok (s : Sys) (a : atom) : Prop :=
  match a with
  | ASpawn _ => True
  | AStep i => forall p, nth_error (procs s) i = Some p -> in_write p = false
  | ACrash _ => True      (* between blocks nobody is inside a write, so a kill is harmless *)
  | AWrite i _ => exists e k r, nth_error (procs s) i = Some (PComputed e k r)
  end.

Fixpoint sched_ok (s : Sys) (l : list atom) : Prop :=
  match l with
  | [] => True
  | a :: t => atom_ok s a /\ sched_ok (runP (atom_acts a) s) t
  end.

Definition run_atoms (l : list atom) (s : Sys) : Sys :=
  fold_left (fun s a => runP (atom_acts a) s) l s.

Definition pproc_ok (d : key -> option (content expr)) (p : PS) : Prop :=
  match p with
  | PStart _ | PCrashed _ => True
  | PKeyed e k | PMiss e k => k = keyf e
  | PExists e k => k = keyf e /\ d k <> None
  | PComputed e k r => k = keyf e /\ r = doit e
  | PDone e v => v = VExpr (doit e)
  | PWriting _ _ _ | PWritten _ _ _ | PRaised _ => False
  end.

Definition PInvS (s : Sys) : Prop := pinv (dir s) /\ Forall (pproc_ok (dir s)) (procs s).

Lemma pproc_mono : forall d d' p, (forall k, d k <> None -> d' k <> None) -> pproc_ok d p -> pproc_ok d' p.
Proof. intros d d' p H; destruct p; simpl; auto. intros (A & B); split; auto. Qed.

Lemma astep_inv : forall s i, PInvS s ->
  (forall p, nth_error (procs s) i = Some p -> in_write p = false) -> PInvS (do_stepP s i).
Proof.
  intros s i (Hd & Hp) Hg. unfold do_step.
  destruct (nth_error (procs s) i) as [p|] eqn:Hn; [|split; auto].
  pose proof (nth_Forall _ _ _ _ _ _ Hp Hn) as Hok. specialize (Hg _ eq_refl).
  destruct p; simpl in Hok, Hg; try discriminate; try contradiction.
  - split; simpl; auto. apply set_nth_Forall; simpl; auto.
  - destruct (dir s k) as [c|] eqn:Hk; (split; simpl; auto; apply set_nth_Forall; simpl; auto).
    split; auto. congruence.
  - destruct Hok as (Ek & Hne). destruct (dir s k) as [c|] eqn:Hk; [|congruence].
    destruct (Hd _ _ Hk) as (e' & Ek' & Ec). subst c.
    split; simpl; auto. apply set_nth_Forall; simpl; auto. f_equal. symmetry. apply key_inj. congruence.
  - split; simpl; auto. apply set_nth_Forall; simpl; auto.
  - split; auto.
  - split; auto.
Qed.

Lemma acrash_inv : forall s i, PInvS s -> PInvS (do_crash expr key s i).
Proof.
  intros s i (Hd & Hp). unfold do_crash.
  destruct (nth_error (procs s) i) as [p|] eqn:Hn; [|split; auto].
  destruct p; try (split; auto; fail);
    (split; simpl; auto; apply set_nth_Forall; simpl; auto).
Qed.

Lemma set_nth_twice : forall (l : list PS) i a b,
  set_nth expr key (set_nth expr key l i a) i b = set_nth expr key l i b.
Proof. induction l; intros [|i] a0 b; simpl; auto. f_equal; auto. Qed.

(* the chunks of a write block *)
Lemma chunks_run : forall n s i e k r d,
  nth_error (procs s) i = Some (PWriting e k r) ->
  (forall k', dir s k' = updk d k (Some Garbage) k') ->
  let s' := runP (repeat (Chunk i) n) s in
  procs s' = procs s /\ (forall k', dir s' k' = updk d k (Some Garbage) k').
Proof.
  induction n; intros s i e k r d Hn Hd; cbv zeta.
  - simpl; split; auto.
  - assert (E : stepP s (Chunk i) = setd expr key key_eqb s k (Some Garbage)).
    { simpl. unfold do_chunk. rewrite Hn. reflexivity. }
    unfold run in *. cbn [repeat fold_left]. rewrite E.
    destruct (IHn (setd expr key key_eqb s k (Some Garbage)) i e k r d) as (A & B); simpl; auto.
    intros k'. unfold upd. rewrite Hd. unfold upd. destruct (key_eqb k k'); auto.
Qed.

Lemma awrite_inv : forall s i n, PInvS s ->
  (exists e k r, nth_error (procs s) i = Some (PComputed e k r)) ->
  PInvS (runP (atom_acts (AWrite i n)) s).
Proof.
  intros s i n (Hd & Hp) (e & k & r & Hn).
  pose proof (nth_Forall _ _ _ _ _ _ Hp Hn) as (Ek & Er). simpl in Ek, Er.
  unfold atom_acts, run. simpl fold_left. rewrite fold_left_app.
  (* first step: open-truncate *)
  assert (E1 : do_stepP s i = setdp expr key key_eqb s k (Some Garbage) i (PWriting e k r)).
  { unfold do_step. rewrite Hn. destruct (dir s k) as [c|] eqn:Hk; auto.
    destruct (Hd _ _ Hk) as (e' & _ & Ec). subst c. reflexivity. }
  rewrite E1.
  set (s1 := setdp expr key key_eqb s k (Some Garbage) i (PWriting e k r)).
  assert (N1 : nth_error (procs s1) i = Some (PWriting e k r)).
  { unfold s1, setdp; simpl. eapply set_nth_same; eauto. }
  destruct (chunks_run n s1 i e k r (dir s) N1) as (A & B); [intros; reflexivity|].
  fold (runP (repeat (Chunk i) n) s1). set (s2 := runP (repeat (Chunk i) n) s1) in *.
  simpl fold_left.
  assert (E3 : do_stepP s2 i = setdp expr key key_eqb s2 k (Some (Legacy r)) i (PDone e (VExpr r))).
  { unfold do_step. rewrite A, N1, all_picklable. reflexivity. }
  rewrite E3. split; simpl.
  - intros k' c. unfold upd at 1. destruct (key_eqb k k') eqn:E.
    + apply key_eqb_spec in E. subst k'. intros H; inversion H; subst. exists e; split; auto.
    + rewrite B. unfold upd. rewrite E. apply Hd.
  - rewrite A. unfold s1, setdp; simpl.
    assert (Hmono : forall k', dir s k' <> None -> updk (dir s2) k (Some (Legacy r)) k' <> None).
    { intros k' H. unfold upd at 1. destruct (key_eqb k k') eqn:E; [discriminate|].
      rewrite B. unfold upd. rewrite E. auto. }
    rewrite set_nth_twice.
    apply set_nth_Forall; [|simpl; subst; auto].
    eapply Forall_impl; [|exact Hp]. intros p. apply pproc_mono; auto.
Qed.

Lemma atom_inv : forall s a, PInvS s -> atom_ok s a -> PInvS (runP (atom_acts a) s).
Proof.
  intros s a H Hok. destruct a.
  - destruct H as (Hd & Hp). split; simpl; auto. apply Forall_app; split; auto.
  - apply astep_inv; auto.
  - apply acrash_inv; auto.
  - apply awrite_inv; auto.
Qed.

Lemma pinned_interleaved_l : forall l s, PInvS s -> sched_ok s l ->
  let s' := run_atoms l s in
  pinv (dir s')
  /\ (forall i e v, nth_error (procs s') i = Some (PDone e v) -> v = VExpr (doit e))
  /\ (forall i e, nth_error (procs s') i <> Some (PRaised e)).
Proof.
  induction l as [|a t IH]; intros s H Hs; simpl.
  - destruct H as (Hd & Hp). repeat split; auto.
    + intros i e v Hi. apply (nth_Forall _ _ _ _ _ _ Hp Hi).
    + intros i e Hi. apply (nth_Forall _ _ _ _ _ _ Hp Hi).
  - destruct Hs as (Ha & Ht). apply IH; auto. apply atom_inv; auto.
Qed.
End PinnedInterleaved.


(* ---------------------------------------------------------------------------------------- *)
(* concrete schedules (expressions and keys are numbers)                                    *)
Section Witnesses.
Notation nrunv v keyf doit := (run nat nat Nat.eqb Nat.eqb keyf doit (fun _ => true) v).
Notation A := (action nat nat).

(* two different expressions, one key; sequential, nothing crashes *)
Definition w_collision : list A := call 0 0 ++ call 1 1.
(* a writer is killed after a strict prefix; then a fresh call on the same expression *)
Definition w_truncation : list A := [Spawn 0; RunTo 0 AtDump; Chunk 0; Crash 0] ++ call 1 0.
(* two calls on the same expression; the second runs entirely while the first is inside its write *)
Definition w_concurrent : list A := [Spawn 0; Spawn 0; RunTo 0 AtDump; RunTo 1 AtEnd; RunTo 0 AtEnd].

Definition kconst (_ : nat) : nat := 0.
Definition kid (e : nat) : nat := e.
Definition dS (e : nat) : nat := 100 + e.

Lemma pinned_refuted_collision_l :
  nth_error (procs (nrunv Pinned kconst dS w_collision (init empty_dir))) 1 = Some (PDone 1 (VExpr (dS 0)))
  /\ dS 0 <> dS 1.
Proof. split; [vm_compute; reflexivity | discriminate]. Qed.

Lemma pinned_refuted_truncation_l :
  nth_error (procs (nrunv Pinned kid dS w_truncation (init empty_dir))) 1 = Some (PRaised 0).
Proof. vm_compute; reflexivity. Qed.

Lemma pinned_refuted_concurrent_l :
  procs (nrunv Pinned kid dS w_concurrent (init empty_dir)) = [PDone 0 (VExpr (dS 0)); PRaised 0].
Proof. vm_compute; reflexivity. Qed.

(* the same three schedules under the current code *)
Lemma robust_survives_collision_l :
  procs (nrunv Robust kconst dS w_collision (init empty_dir))
  = [PDone 0 (VExpr (dS 0)); PDone 1 (VExpr (dS 1))].
Proof. vm_compute; reflexivity. Qed.
Lemma robust_survives_truncation_l :
  procs (nrunv Robust kid dS w_truncation (init empty_dir)) = [PCrashed 0; PDone 0 (VExpr (dS 0))].
Proof. vm_compute; reflexivity. Qed.
Lemma robust_survives_concurrent_l :
  procs (nrunv Robust kid dS w_concurrent (init empty_dir))
  = [PDone 0 (VExpr (dS 0)); PDone 0 (VExpr (dS 0))].
Proof. vm_compute; reflexivity. Qed.

(* the cache is really used: after one call the file is there, and a second call is served from
   it without passing through the computing states (it is Done after 2 steps of its own) *)
Lemma robust_cache_hit_l :
  let s := nrunv Robust kid dS (call 0 7 ++ [Spawn 7; Step 1; Step 1]) (init empty_dir) in
  dir s 7 = Some (Valid 7 (dS 7)) /\ nth_error (procs s) 1 = Some (PDone 7 (VExpr (dS 7))).
Proof. vm_compute; split; reflexivity. Qed.

(* a directory that satisfies the invariant although it is full of rubbish: a file of another
   expression under key 0, a legacy file, an unloadable file, a loadable non-tuple *)
Definition messy_dir : nat -> option (content nat) :=
  fun k => match k with
           | 0 => Some (Valid 1 (dS 1)) | 1 => Some (Legacy 55) | 2 => Some Garbage
           | 3 => Some Junk | _ => None end.
Lemma messy_dir_ok : dir_ok nat nat dS messy_dir /\ no_blocked nat nat messy_dir.
Proof.
  split.
  - intros k a b. destruct k as [|[|[|[|k]]]]; simpl; try discriminate.
    intros H; inversion H; reflexivity.
  - intros k. destruct k as [|[|[|[|k]]]]; simpl; discriminate.
Qed.

(* a schedule meeting the hypotheses of robust_total: 3 calls on colliding keys, interleaved,
   with a crash of another call, a truncation and a deletion in between *)
Definition busy : list A :=
  [Spawn 0; Spawn 1; Spawn 0; Step 0; Step 1; Step 0; Step 2; EnvTrunc 0; Step 0; Step 1; Step 0;
   Chunk 0; Crash 2; Step 0; Step 1; EnvDelete 0; Step 0; Step 1; Step 1; EnvGarbage 0; Step 1].
Lemma busy_outcome_l :
  procs (nrunv Robust kconst dS busy (init messy_dir))
  = [PDone 0 (VExpr (dS 0)); PDone 1 (VExpr (dS 1)); PCrashed 0].
Proof. vm_compute; reflexivity. Qed.

(* the hypothesis "no Blocked entry" of robust_correct is needed *)
Lemma blocked_raises_l :
  procs (nrunv Robust kid dS ([EnvBlock 0] ++ call 0 0) (init empty_dir)) = [PRaised 0].
Proof. vm_compute; reflexivity. Qed.

(* an interleaved schedule that satisfies the guard of pinned_interleaved_l *)
Definition pin_sched : list (atom nat) :=
  [ASpawn nat 0; ASpawn nat 0; ASpawn nat 1; AStep nat 0; AStep nat 1; AStep nat 0; AStep nat 1; AStep nat 0;
   AStep nat 2; AWrite nat 0 2; AStep nat 1; AStep nat 2; AWrite nat 1 0; AStep nat 2; ACrash nat 2].
Lemma pin_sched_ok_l :
  sched_ok nat nat Nat.eqb Nat.eqb kid dS (fun _ => true) (init empty_dir) pin_sched
  /\ procs (run_atoms nat nat Nat.eqb Nat.eqb kid dS (fun _ => true) pin_sched (init empty_dir))
     = [PDone 0 (VExpr (dS 0)); PDone 0 (VExpr (dS 0)); PCrashed 1].
Proof.
  split; [|vm_compute; reflexivity].
  simpl. repeat split; try (intros p H; inversion H; reflexivity); eauto.
Qed.

(* an expression that cannot be pickled (a lambda as attribute): the current code returns doit e,
   writes nothing, and a later call on a picklable expression with the same key works and is cached;
   the pinned code lets the exception escape and leaves a truncated file under that key *)
Definition unp (e : nat) : bool := negb (Nat.eqb e 0).      (* expression 0 cannot be pickled *)
Definition w_unpicklable : list A := call 0 0 ++ call 1 1 ++ call 2 0 ++ call 3 1.
Lemma robust_unpicklable_l :
  let s := run nat nat Nat.eqb Nat.eqb kconst dS unp Robust (call 0 0) (init empty_dir) in
  procs s = [PDone 0 (VExpr (dS 0))] /\ dir s 0 = None
  /\ procs (run nat nat Nat.eqb Nat.eqb kconst dS unp Robust w_unpicklable (init empty_dir))
     = [PDone 0 (VExpr (dS 0)); PDone 1 (VExpr (dS 1)); PDone 0 (VExpr (dS 0)); PDone 1 (VExpr (dS 1))]
  /\ dir (run nat nat Nat.eqb Nat.eqb kconst dS unp Robust w_unpicklable (init empty_dir)) 0 = Some (Valid 1 (dS 1)).
Proof. vm_compute. repeat split; reflexivity. Qed.
Lemma pinned_refuted_unpicklable_l :
  let s := run nat nat Nat.eqb Nat.eqb kid dS unp Pinned (call 0 0 ++ call 1 0) (init empty_dir) in
  procs s = [PRaised 0; PRaised 0] /\ dir s 0 = Some Garbage.
Proof. vm_compute. split; reflexivity. Qed.
End Witnesses.

(* ---------------------------------------------------------------------------------------- *)
(* selection of the key function from the environment value                                 *)
From Coq Require Import String NArith.
Section HashModeLemmas.
Import HashMode.

Lemma hash_mode_spec_l : forall v n,
  hash_mode v = PyHash n <-> exists s, v = EnvStr s /\ isdigit s = true /\ n = parse_acc 0 s.
Proof.
  intros v n; split.
  - destruct v as [|s]; simpl; [discriminate|].
    destruct (isdigit s) eqn:E; [|discriminate]. intros H; inversion H; subst. eauto.
  - intros (s & -> & E & ->). simpl. rewrite E. reflexivity.
Qed.

Lemma hash_mode_fallback_l : forall v,
  (v = EnvUnset \/ exists s, v = EnvStr s /\ isdigit s = false) <-> hash_mode v = Sha256.
Proof.
  intros v; split.
  - intros [->|(s & -> & E)]; simpl; [reflexivity|rewrite E; reflexivity].
  - destruct v as [|s]; simpl; auto. destruct (isdigit s) eqn:E; [discriminate|]. right; eauto.
Qed.

Lemma hash_mode_examples_l :
  map hash_mode [EnvUnset; EnvStr ""%string; EnvStr "0"%string; EnvStr "1234"%string; EnvStr "4294967295"%string; EnvStr "random"%string;
                 EnvStr "abc"%string; EnvStr " 1"%string; EnvStr "-1"%string; EnvStr "12a"%string]
  = [Sha256; Sha256; PyHash 0%N; PyHash 1234%N; PyHash 4294967295%N; Sha256; Sha256; Sha256; Sha256; Sha256].
Proof. vm_compute. reflexivity. Qed.
End HashModeLemmas.
