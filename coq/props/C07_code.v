(** C07_code.v — theorems about the topology helpers as TRANSLATED from the current source text of
    src/ampform/helicity/decay.py (bridge/trans_helpers.py -> Gen_helpers.v) over the qrules Topology model PyTopo.v.
    ONLY theorem statements here; proofs in Helpers_lemmas.v. *)
From Coq Require Import ZArith List Bool.
From AV Require Import Kin PyTopo.
From AVchk Require Import Gen_helpers Gen_topos Helpers_lemmas.
Import ListNotations.
Open Scope Z_scope.

(** get_sibling_state_id is an involution without fixed points on every topology whose edge ids are distinct
    (no isobar assumption): which states are paired does not depend on the state one starts from. *)
Theorem code_sibling_involutive : forall t s s', wf_ids t ->
  gen_get_sibling_state_id t s = Ok s' -> gen_get_sibling_state_id t s' = Ok s /\ s <> s'.
Proof. exact gen_sibling_involutive. Qed.

(** "the sibling of an opposite helicity state is a helicity state" (docstring of is_opposite_helicity_state):
    whenever the code answers for a state, it answers for the sibling with the two attached final-state tuples
    exchanged, and the answers are opposite as soon as the tuples differ. *)
Theorem code_opposite_helicity_exclusive : forall t s s' b, wf_ids t ->
  gen_get_sibling_state_id t s = Ok s' -> gen_is_opposite_helicity_state t s = Ok b ->
  exists a a', gen_determine_attached_final_state t s = Ok a /\
               gen_determine_attached_final_state t s' = Ok a' /\
               b = tuple_gtb a a' /\
               gen_is_opposite_helicity_state t s' = Ok (tuple_gtb a' a) /\
               (a <> a' -> tuple_gtb a' a = negb b).
Proof. exact gen_opposite_helicity_exclusive. Qed.

(** Instance theorem (re-checked on every run against the topologies qrules creates NOW, plus renumbered variants):
    on each of them the translated helpers agree, at every node, with the hand model Kin.v that the C07 theorems are
    about (attached final states, sibling, opposite-helicity flag, parent), and assert_isobar_topology accepts it. *)
Theorem code_helpers_agree_with_Kin_on_current_topologies :
  forallb agrees_with_Kin current_topologies = true.
Proof. vm_compute. reflexivity. Qed.

Example code_current_topologies_nonvacuous :
  (10 <=? Z.of_nat (length current_topologies)) = true /\
  existsb (fun t => 9 <=? Z.of_nat (length (rt_edges t))) current_topologies = true /\
  forallb (fun t => match gen_is_opposite_helicity_state t (re_id (hd (E 0 None None) (rev (rt_edges t)))) with
                    | Err ENondet | Err EFuel => false | _ => true end) current_topologies = true.
Proof. vm_compute. repeat split; reflexivity. Qed.

Print Assumptions code_sibling_involutive.
Print Assumptions code_opposite_helicity_exclusive.
Print Assumptions code_helpers_agree_with_Kin_on_current_topologies.
