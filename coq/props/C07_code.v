(** C07_code.v — theorems about the topology helpers as TRANSLATED from the current source text of
    src/ampform/helicity/decay.py (bridge/trans_helpers.py -> Gen_helpers.v) over the qrules Topology model PyTopo.v.
    ONLY theorem statements here; proofs in Helpers_lemmas.v. *)
From Coq Require Import ZArith List Bool.
From AV Require Import Kin PyTopo.
From AVchk Require Import Gen_helpers Gen_topos Helpers_lemmas.
Import ListNotations.
Open Scope Z_scope.

(** get_sibling_state_id is an involution without fixed points on every topology whose edge ids are distinct
    (no isobar assumption): which states are paired does not depend on the state one starts from. *)
Theorem code_sibling_involutive : forall t s s', wf_ids t ->
  gen_get_sibling_state_id t s = Ok s' -> gen_get_sibling_state_id t s' = Ok s /\ s <> s'.
Proof. exact gen_sibling_involutive. Qed.

(** "the sibling of an opposite helicity state is a helicity state" (docstring of is_opposite_helicity_state):
    whenever the code answers for a state, it answers for the sibling with the two attached final-state tuples
    exchanged, and the answers are opposite as soon as the tuples differ. *)
Theorem code_opposite_helicity_exclusive : forall t s s' b, wf_ids t ->
  gen_get_sibling_state_id t s = Ok s' -> gen_is_opposite_helicity_state t s = Ok b ->
  exists a a', gen_determine_attached_final_state t s = Ok a /\
               gen_determine_attached_final_state t s' = Ok a' /\
               b = tuple_gtb a a' /\
               gen_is_opposite_helicity_state t s' = Ok (tuple_gtb a' a) /\
               (a <> a' -> tuple_gtb a' a = negb b).
Proof. exact gen_opposite_helicity_exclusive. Qed.

(** list_decay_chain_ids returns the state itself followed by its successive parents up to the edge without parent
    (each link is what the translated get_parent_id answers), for every topology and every fuel that suffices. *)
Theorem code_decay_chain_links : forall fuel t s l,
  gen_list_decay_chain_ids fuel t s = Ok l -> exists tail, l = s :: tail /\ chain_ok t l.
Proof. exact gen_decay_chain_links. Qed.

(** the result of the while loop does not depend on the fuel once it suffices (running out of fuel is never a value) *)
Theorem code_decay_chain_fuel_irrelevant : forall t s l fuel fuel',
  (fuel <= fuel')%nat -> gen_list_decay_chain_ids fuel t s = Ok l -> gen_list_decay_chain_ids fuel' t s = Ok l.
Proof. exact gen_decay_chain_fuel_irrelevant. Qed.

(** __get_boost_chain_ids (the frames a final state is boosted through, in order) is the decay chain reversed with the
    one initial state removed; it is only defined when the topology has exactly one incoming edge. *)
Theorem code_boost_chain_is_reversed_decay_chain : forall fuel t s l,
  gen_get_boost_chain_ids fuel t s = Ok l ->
  exists chain i0, gen_list_decay_chain_ids fuel t s = Ok chain /\
                   topo_incoming_edge_ids t = [i0] /\ py_remove i0 (rev chain) = Ok l.
Proof. exact gen_boost_chain_is_reversed_decay_chain. Qed.

(** UNIVERSAL refinement of the hand model by the translated code: on EVERY topology with distinct edge ids whose isobar
    tree exists (= assert_isobar_topology's two-body shape, read off by Kin.tree_of_topo) and has distinct leaves, at EVERY
    node the translated determine_attached_final_state (qrules' breadth-first walk) returns Kin.att, get_sibling_state_id
    pairs the two children, get_parent_id names the node's own edge and is_opposite_helicity_state returns Kin.is_opp.
    The universal C07 theorems about Kin.v therefore speak about the code of these helpers as it reads now. *)
Theorem code_helpers_refine_Kin : forall t tr,
  wf_ids t -> tree_of_topo t = Some tr -> NoDup (leaves tr) -> tree_agrees t tr.
Proof. exact gen_helpers_refine_Kin. Qed.

(** the hypotheses of the refinement are decidable: for ANY concrete topology, evaluating the boolean [refine_hyps_ok]
    yields the agreement with Kin.v at every node (this is how the theorem is applied to the topologies of a run) *)
Theorem code_refinement_by_computation : forall t, refine_hyps_ok t = true ->
  exists tr, tree_of_topo t = Some tr /\ tree_agrees t tr.
Proof. exact gen_refinement_by_computation. Qed.

(** the decay chain the code walks (and hence, reversed and without the initial state, the chain of frames a momentum is
    boosted through) is the path from the state to the root of the isobar tree, for every topology, every state of the
    tree and every fuel above the length of that path *)
Theorem code_decay_chain_is_tree_path : forall t tr x p fuel, wf_ids t -> tree_of_topo t = Some tr ->
  gen_assert_isobar_topology t = Ok tt -> path_up tr x = Some p -> (length p < fuel)%nat ->
  gen_list_decay_chain_ids fuel t x = Ok p.
Proof. exact gen_decay_chain_is_tree_path. Qed.

(** closed form of __get_boost_chain_ids (kinematics/lorentz.py; the frames compute_boost_chain boosts through, in order):
    the path from the root of the isobar tree down to the state, without the root edge *)
Theorem code_boost_chain_is_tree_path : forall t tr x p fuel, wf_ids t -> tree_of_topo t = Some tr ->
  gen_assert_isobar_topology t = Ok tt -> path_up tr x = Some p -> (length p < fuel)%nat ->
  gen_get_boost_chain_ids fuel t x = Ok (rev (removelast p)).
Proof. exact gen_boost_chain_is_tree_path. Qed.

(** docstring rule 1 of is_opposite_helicity_state, "state 0 is never an opposite helicity state", about the code: on every
    topology with distinct edge ids whose tree has distinct, non-negative final-state ids including 0 (and is more than
    the single edge 0), the translated function answers False for state 0 *)
Theorem code_state_zero_never_opposite : forall t tr, wf_ids t -> tree_of_topo t = Some tr -> NoDup (leaves tr) ->
  (forall x, In x (leaves tr) -> 0 <= x) -> In 0 (leaves tr) -> tr <> Leaf 0 ->
  gen_is_opposite_helicity_state t 0 = Ok false.
Proof. exact gen_state_zero_never_opposite_topo. Qed.

(** Instance theorem (re-checked on every run against the topologies qrules creates NOW, plus renumbered variants):
    on each of them the translated helpers agree, at every node, with the hand model Kin.v that the C07 theorems are
    about (attached final states, sibling, opposite-helicity flag, parent), and assert_isobar_topology accepts it. *)
Theorem code_helpers_agree_with_Kin_on_current_topologies :
  forallb agrees_with_Kin current_topologies = true.
Proof. vm_compute. reflexivity. Qed.

Example code_current_topologies_nonvacuous :
  (10 <=? Z.of_nat (length current_topologies)) = true /\
  existsb (fun t => 9 <=? Z.of_nat (length (rt_edges t))) current_topologies = true /\
  forallb (fun t => match gen_is_opposite_helicity_state t (re_id (hd (E 0 None None) (rev (rt_edges t)))) with
                    | Err ENondet | Err EFuel => false | _ => true end) current_topologies = true.
Proof. vm_compute. repeat split; reflexivity. Qed.

Example code_refinement_hypotheses_hold_on_current_topologies :
  forallb refine_hyps_ok current_topologies = true.
Proof. vm_compute. reflexivity. Qed.

Example code_tree_path_example :
  let t := {| rt_nodes := [0; 1]; rt_edges := [E (-1) None (Some 0); E 0 (Some 0) None; E 3 (Some 0) (Some 1);
                                               E 1 (Some 1) None; E 2 (Some 1) None] |} in
  match tree_of_topo t with
  | Some tr => path_up tr 1 = Some [1; 3; -1] /\ path_up tr 0 = Some [0; -1] /\ gen_assert_isobar_topology t = Ok tt
  | None => False
  end.
Proof. vm_compute. repeat split; reflexivity. Qed.

Example code_decay_chain_example :
  let t := {| rt_nodes := [0; 1]; rt_edges := [E (-1) None (Some 0); E 0 (Some 0) None; E 3 (Some 0) (Some 1);
                                               E 1 (Some 1) None; E 2 (Some 1) None] |} in
  gen_list_decay_chain_ids 8 t 1 = Ok [1; 3; -1] /\ gen_get_boost_chain_ids 8 t 1 = Ok [3; 1] /\
  gen_get_boost_chain_ids 8 t 0 = Ok [0].
Proof. vm_compute. repeat split; reflexivity. Qed.

Print Assumptions code_sibling_involutive.
Print Assumptions code_opposite_helicity_exclusive.
Print Assumptions code_decay_chain_links.
Print Assumptions code_decay_chain_fuel_irrelevant.
Print Assumptions code_boost_chain_is_reversed_decay_chain.
Print Assumptions code_helpers_refine_Kin.
Print Assumptions code_refinement_by_computation.
Print Assumptions code_decay_chain_is_tree_path.
Print Assumptions code_boost_chain_is_tree_path.
Print Assumptions code_state_zero_never_opposite.
Print Assumptions code_helpers_agree_with_Kin_on_current_topologies.
