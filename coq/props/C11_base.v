(* C11_base — shared definitions, tactics and q^2 facts for the C11 lemma files.
   C11 — lemmas about the phase-space-factor trees regenerated from /repo (Gen_C11).
   Square roots and logarithms have SymPy's principal branches (CLib.Csqrt / Clog). *)
From AV Require Import DenC.
From AVchk Require Import Gen_C11.
From Coq Require Import Lra Lia Psatz.
From Coquelicot Require Import Rcomplements.
Open Scope C_scope.

Definition f0 : string -> list C -> C := fun _ _ => 0.
Definition envS (s m1 m2 : R) : envC :=
  envC_of [("s", RtoC s); ("m1", RtoC m1); ("m2", RtoC m2)] f0.
Definition envE (s m : R) : envC := envC_of [("s", RtoC s); ("m", RtoC m)] f0.

Definition q2R (s m1 m2 : R) : R := ((s - (m1+m2)^2) * (s - (m1-m2)^2) / (4*s))%R.
Definition rhoR (s m1 m2 : R) : R := (2 * sqrt (q2R s m1 m2) / sqrt s)%R.

Ltac unfold_pows := cbv [powZ Pos.to_nat Pos.iter_op Nat.add Init.Nat.add].

(* ---------- break-up momentum ---------- *)
Lemma q2_closed s m1 m2 : s <> 0%R -> wdC (envS s m1 m2) gen_q2 /\ denC (envS s m1 m2) gen_q2 = RtoC (q2R s m1 m2).
Proof.
  intros Hs. unfold gen_q2, envS. split.
  - denC_simplR. lift_R. repeat split; try exact I. apply RtoC_neq0. exact Hs.
  - denC_simplR. lift_R. f_equal. unfold q2R. unfold_pows. field. exact Hs.
Qed.
Lemma q2_symmetric s m1 m2 : q2R s m1 m2 = q2R s m2 m1.
Proof. unfold q2R. f_equal. ring. Qed.
Lemma q2_zero_threshold m1 m2 : ((m1+m2)^2 <> 0 -> q2R ((m1+m2)^2) m1 m2 = 0)%R.
Proof. intros H. unfold q2R. field. intros E. apply H. rewrite E. ring. Qed.
Lemma q2_zero_pseudothreshold m1 m2 : ((m1-m2)^2 <> 0 -> q2R ((m1-m2)^2) m1 m2 = 0)%R.
Proof. intros H. unfold q2R. field. intros E. apply H. rewrite E. ring. Qed.

Lemma q2_pos_above s m1 m2 : (0 < m1 -> 0 < m2 -> (m1+m2)^2 < s -> 0 < q2R s m1 m2)%R.
Proof.
  intros H1 H2 Hs. unfold q2R. assert (0 < s)%R by nra.
  apply Rdiv_lt_0_compat; [|lra]. apply Rmult_lt_0_compat; nra.
Qed.
Lemma q2_neg_gap s m1 m2 : (0 < m1 -> 0 < m2 -> 0 < s -> (m1-m2)^2 < s < (m1+m2)^2 -> q2R s m1 m2 < 0)%R.
Proof.
  intros H1 H2 H0 [Ha Hb]. unfold q2R. unfold Rdiv.
  assert (0 < / (4 * s))%R by (apply Rinv_0_lt_compat; lra).
  assert ((s - (m1 + m2) ^ 2) * (s - (m1 - m2) ^ 2) < 0)%R by nra. nra.
Qed.

(* normalise the argument of every square root / absolute value to a multiple of q2R or s *)
Ltac norm_arg x s m1 m2 :=
  first
    [ replace x with (4 * q2R s m1 m2)%R by (unfold q2R; unfold_pows; field; lra)
    | replace x with (- (4 * q2R s m1 m2))%R by (unfold q2R; unfold_pows; field; lra)
    | replace x with (q2R s m1 m2)%R by (unfold q2R; unfold_pows; field; lra)
    | replace x with (- q2R s m1 m2)%R by (unfold q2R; unfold_pows; field; lra) ].

Ltac norm_args s m1 m2 :=
  repeat match goal with
         | |- context [Csqrt (RtoC ?x)] =>
             lazymatch x with
             | (4 * q2R _ _ _)%R => fail | (- (4 * q2R _ _ _))%R => fail
             | (q2R _ _ _)%R => fail | (- q2R _ _ _)%R => fail | s => fail
             | Rabs _ => fail
             | _ => norm_arg x s m1 m2
             end
         | |- context [Rabs ?x] =>
             lazymatch x with
             | (4 * q2R _ _ _)%R => fail | (- (4 * q2R _ _ _))%R => fail
             | (q2R _ _ _)%R => fail | (- q2R _ _ _)%R => fail | s => fail
             | _ => norm_arg x s m1 m2
             end
         | |- context [Rltb ?x ?y] =>
             lazymatch x with
             | (4 * q2R _ _ _)%R => fail | (- (4 * q2R _ _ _))%R => fail
             | (q2R _ _ _)%R => fail | (- q2R _ _ _)%R => fail | s => fail
             | _ => norm_arg x s m1 m2
             end
         | |- context [Rleb ?x ?y] =>
             lazymatch x with
             | (4 * q2R _ _ _)%R => fail | (- (4 * q2R _ _ _))%R => fail
             | (q2R _ _ _)%R => fail | (- q2R _ _ _)%R => fail | s => fail
             | _ => norm_arg x s m1 m2
             end
         end.

Lemma sqrt_4x x : (0 <= x -> sqrt (4 * x) = 2 * sqrt x)%R.
Proof. intros H. rewrite sqrt_mult by lra. replace 4%R with (2*2)%R by ring. rewrite sqrt_square by lra. ring. Qed.


(* ---------- Piecewise / relational plumbing ---------- *)
Lemma Rltb_true a b : (a < b)%R -> Rltb a b = true.
Proof. intros; unfold Rltb; destruct (Rlt_dec a b); [reflexivity|contradiction]. Qed.
Lemma Rltb_false a b : (b <= a)%R -> Rltb a b = false.
Proof. intros; unfold Rltb; destruct (Rlt_dec a b); [lra|reflexivity]. Qed.
Lemma Rleb_true a b : (a <= b)%R -> Rleb a b = true.
Proof. intros; unfold Rleb; destruct (Rle_dec a b); [reflexivity|contradiction]. Qed.
Lemma Rleb_false a b : (b < a)%R -> Rleb a b = false.
Proof. intros; unfold Rleb; destruct (Rle_dec a b); [lra|reflexivity]. Qed.
(* decide every relational node (strict or not) from the hypotheses *)
Ltac decide_rels :=
  repeat match goal with
         | |- context [Rltb ?a ?b] =>
             first [ rewrite (Rltb_true a b) by (lra || nra) | rewrite (Rltb_false a b) by (lra || nra) ]
         | |- context [Rleb ?a ?b] =>
             first [ rewrite (Rleb_true a b) by (lra || nra) | rewrite (Rleb_false a b) by (lra || nra) ]
         end.
Lemma if_true A (X Y : A) : (if Req_EM_T (fst (b2C true)) 0 then X else Y) = Y.
Proof. cbn. destruct (Req_EM_T 1 0); [lra|reflexivity]. Qed.
Lemma if_false A (X Y : A) : (if Req_EM_T (fst (b2C false)) 0 then X else Y) = X.
Proof. cbn. destruct (Req_EM_T 0 0); [reflexivity|lra]. Qed.
Lemma if_one A (X Y : A) : (if Req_EM_T 1 0 then X else Y) = Y.
Proof. destruct (Req_EM_T 1 0); [lra|reflexivity]. Qed.
Ltac resolve_if := rewrite ?if_true, ?if_false, ?if_one.
Ltac wd_solve := repeat split; try exact I; try reflexivity; try (apply RtoC_neq0; try lra).
Lemma CpowZ_1 z : CpowZ z 1 = z. Proof. reflexivity. Qed.
Lemma CpowZ_m1 z : CpowZ z (-1) = / z. Proof. reflexivity. Qed.

(* ---------- explicit cartesian form: [mkC x y] = x + i y, normalised bottom-up ---------- *)
Definition mkC (x y : R) : C := (x, y).
Lemma Ci_mk : Ci = mkC 0 1. Proof. reflexivity. Qed.
Lemma pair_mk (x y : R) : (x, y) = mkC x y. Proof. reflexivity. Qed.
Lemma mk_Rl a x y : RtoC a * mkC x y = mkC (a * x) (a * y).
Proof. unfold mkC, Cmult, RtoC; cbn [fst snd]. f_equal; ring. Qed.
Lemma mk_Rr a x y : mkC x y * RtoC a = mkC (x * a) (y * a).
Proof. unfold mkC, Cmult, RtoC; cbn [fst snd]. f_equal; ring. Qed.
Lemma mk_mult x y x' y' : mkC x y * mkC x' y' = mkC (x * x' - y * y') (x * y' + y * x').
Proof. reflexivity. Qed.
Lemma mk_plus x y x' y' : mkC x y + mkC x' y' = mkC (x + x') (y + y').
Proof. reflexivity. Qed.
Lemma mk_plus_Rl a x y : RtoC a + mkC x y = mkC (a + x) y.
Proof. unfold mkC, Cplus, RtoC; cbn [fst snd]. f_equal; ring. Qed.
Lemma mk_plus_Rr a x y : mkC x y + RtoC a = mkC (x + a) y.
Proof. unfold mkC, Cplus, RtoC; cbn [fst snd]. f_equal; ring. Qed.
Lemma mk_opp x y : - mkC x y = mkC (- x) (- y). Proof. reflexivity. Qed.
Lemma mk_inv x y : / mkC x y = mkC (x / (x * x + y * y)) (- y / (x * x + y * y)).
Proof. unfold mkC, Cinv; cbn [fst snd]. f_equal; f_equal; ring. Qed.
Lemma mk_R a : RtoC a = mkC a 0. Proof. reflexivity. Qed.
Lemma fst_mk x y : fst (mkC x y) = x. Proof. reflexivity. Qed.
Lemma snd_mk x y : snd (mkC x y) = y. Proof. reflexivity. Qed.
Lemma mk_eq x y x' y' : x = x' -> y = y' -> mkC x y = mkC x' y'.
Proof. intros -> ->. reflexivity. Qed.
Global Opaque mkC.
Ltac to_mk :=
  rewrite ?CpowZ_1, ?CpowZ_m1, ?Ci_mk, ?pair_mk;
  repeat first
    [ rewrite mk_Rl | rewrite mk_Rr | rewrite mk_mult | rewrite mk_plus | rewrite mk_plus_Rl
    | rewrite mk_plus_Rr | rewrite mk_opp | rewrite mk_inv ].

Lemma Clog_neg_mk x : (x < 0)%R -> Clog (RtoC x) = mkC (ln (- x)) PI.
Proof. intros H. rewrite Clog_neg by exact H. reflexivity. Qed.
Lemma Csqrt_neg_mk x : (x < 0)%R -> Csqrt (RtoC x) = mkC 0 (sqrt (- x)).
Proof. intros H. rewrite Csqrt_neg by exact H. rewrite Ci_mk, mk_Rr. apply mk_eq; ring. Qed.


(* ---------- real-analysis facts about q^2 above threshold ---------- *)
Definition wR (s m1 m2 : R) : R := (sqrt s * sqrt (4 * q2R s m1 m2))%R.
Lemma wR_sq s m1 m2 : (0 < s -> 0 <= q2R s m1 m2 ->
  wR s m1 m2 * wR s m1 m2 = (s - m1^2 - m2^2)^2 - 4*m1^2*m2^2)%R.
Proof.
  intros Hs Hq. unfold wR.
  replace (sqrt s * sqrt (4 * q2R s m1 m2) * (sqrt s * sqrt (4 * q2R s m1 m2)))%R
    with ((sqrt s * sqrt s) * (sqrt (4 * q2R s m1 m2) * sqrt (4 * q2R s m1 m2)))%R by ring.
  rewrite !sqrt_sqrt by lra. unfold q2R. field. lra.
Qed.
Lemma wR_lt s m1 m2 : (0 < m1 -> 0 < m2 -> (m1+m2)^2 < s -> 0 <= wR s m1 m2 < s - m1^2 - m2^2)%R.
Proof.
  intros H1 H2 Hs. assert (Hs0 : (0 < s)%R) by nra.
  pose proof (q2_pos_above s m1 m2 H1 H2 Hs) as Hq.
  pose proof (wR_sq s m1 m2 Hs0 (Rlt_le _ _ Hq)) as Hw.
  assert (Hw0 : (0 <= wR s m1 m2)%R) by (unfold wR; apply Rmult_le_pos; apply sqrt_pos).
  split; [exact Hw0|].
  assert (HA : (2*m1*m2 < s - m1^2 - m2^2)%R) by nra.
  destruct (Rlt_dec (wR s m1 m2) (s - m1^2 - m2^2)) as [L|N]; [exact L|exfalso].
  apply Rnot_lt_le in N. assert (0 < m1*m2)%R by nra.
  assert ((s - m1^2 - m2^2) * (s - m1^2 - m2^2) <= wR s m1 m2 * wR s m1 m2)%R
    by (apply Rmult_le_compat; lra).
  nra.
Qed.
Lemma two_sqrtq_lt s m1 m2 : (0 < m1 -> 0 < m2 -> (m1+m2)^2 < s -> 2 * sqrt (q2R s m1 m2) < sqrt s)%R.
Proof.
  intros H1 H2 Hs. assert (Hs0 : (0 < s)%R) by nra.
  pose proof (q2_pos_above s m1 m2 H1 H2 Hs) as Hq.
  rewrite <- sqrt_4x by lra. apply sqrt_lt_1; try lra.
  unfold q2R.
  assert ((s - (m1 + m2) ^ 2) * (s - (m1 - m2) ^ 2) < s * s)%R.
  { assert (0 < s - (m1 + m2) ^ 2 < s)%R by nra.
    assert (0 < m1*m2)%R by (apply Rmult_lt_0_compat; lra).
    assert (0 <= (m1-m2)^2)%R by apply pow2_ge_0.
    assert ((m1-m2)^2 = (m1+m2)^2 - 4*(m1*m2))%R by ring.
    assert (0 < s - (m1 - m2) ^ 2 <= s)%R by lra.
    apply Rle_lt_trans with ((s - (m1 + m2) ^ 2) * s)%R;
      [apply Rmult_le_compat_l; lra | apply Rmult_lt_compat_r; lra]. }
  apply Rmult_lt_reg_r with s; [lra|].
  replace (4 * ((s - (m1 + m2) ^ 2) * (s - (m1 - m2) ^ 2) / (4 * s)) * s)%R
    with ((s - (m1 + m2) ^ 2) * (s - (m1 - m2) ^ 2))%R by (field; lra).
  lra.
Qed.
Lemma rho_lt1 s m1 m2 : (0 < m1 -> 0 < m2 -> (m1+m2)^2 < s -> 0 < rhoR s m1 m2 < 1)%R.
Proof.
  intros H1 H2 Hs. assert (Hs0 : (0 < s)%R) by nra.
  pose proof (q2_pos_above s m1 m2 H1 H2 Hs) as Hq.
  pose proof (two_sqrtq_lt s m1 m2 H1 H2 Hs) as Ht.
  unfold rhoR. assert (0 < sqrt s)%R by (apply sqrt_lt_R0; lra).
  assert (0 < sqrt (q2R s m1 m2))%R by (apply sqrt_lt_R0; lra).
  split; [apply Rdiv_lt_0_compat; lra|].
  apply Rlt_div_l; [lra|]. lra.
Qed.


(* ---------- abstracting a complex subterm into cartesian components ---------- *)
Lemma C_is_mk (z : C) : exists x y, z = mkC x y.
Proof. destruct z as [x y]. exists x, y. symmetry. apply pair_mk. Qed.

Ltac abstract_C t :=
  let x := fresh "x" in let y := fresh "y" in let E := fresh "E" in
  destruct (C_is_mk t) as [x [y E]]; rewrite !E; clear E.


