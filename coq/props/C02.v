(* C02 — property theorems (statements only).  Data types, the formula [intensity_sem] and the
   expected tree [intensity_expr] are in coq/theories/Helicity.v.  The correspondence run of this
   check compares [intensity_expr]/[group_expr]/[amp_expr]/[chain_expr], evaluated by vm_compute on
   data extracted independently from the qrules transitions, with the implementation's
   model.expression / components / amplitudes (SymPy ==) on every case. *)
From AV Require Import Helicity Helicity_proofs.
From AV Require Import AcEq AcEq_proofs.
From AVchk Require Import C02_lemmas Tie_C02 C02_tie_lemmas.
Open Scope C_scope.

(* For EVERY reaction data (any number of outer-projection groups, topologies, chains, nodes; any
   spins, LS values, couplings/coefficients, prefactors, lineshapes) and EVERY numerical point
   (environment: angles, parameter values, lineshape values, and ANY functions for WignerD and CG)
   the expected model expression is well defined and equals the helicity formula:
     sum over outer projections of | sum over topologies and chains of
        prefactor * coefficient * prod over nodes of CG * CG * H * conj-D(J,m,l1-l2;phi,theta) * lineshape |^2 *)
Theorem C02_intensity_is_helicity_formula :
  forall (ρ : envC) (gs : list hgroup),
    denC ρ (intensity_expr gs) = intensity_sem ρ gs
    /\ (data_wd ρ gs -> wdC ρ (intensity_expr gs)).   (* defined wherever the assigned lineshapes are *)
Proof. intros ρ gs. split; [apply intensity_expr_denotes_formula|apply wd_intensity_expr]. Qed.

(* each named component equals the corresponding partial sum *)
Theorem C02_intensity_component_is_group_term :
  forall ρ (g : hgroup), denC ρ (group_expr g) = group_sem ρ g.
Proof. exact den_group. Qed.
Theorem C02_amplitude_is_coherent_sum_of_chains :
  forall ρ (chains : list hchain), denC ρ (amp_expr chains) = amp_sem ρ chains.
Proof. exact den_amp. Qed.
Theorem C02_chain_component_is_chain_term :
  forall ρ (c : hchain), denC ρ (chain_expr c) = chain_sem ρ c.
Proof. exact den_chain. Qed.
Theorem C02_node_factor :
  forall ρ (n : hnode), denC ρ (node_expr n) = node_sem ρ n.
Proof. exact den_node. Qed.

(* each incoherent term is a squared modulus: real and non-negative *)
Theorem C02_group_term_real_nonneg :
  forall ρ (g : hgroup), snd (group_sem ρ g) = 0%R /\ (0 <= fst (group_sem ρ g))%R.
Proof. exact group_sem_real_nonneg. Qed.

(* The verified AC-equality checker: whenever it answers true the two trees have the same value at
   every point (for every interpretation of WignerD, CG, lineshapes, ...) *)
Theorem C02_ac_equality_checker_sound :
  forall ρ fuel a b, aceq fuel a b = true -> denC ρ a = denC ρ b.
Proof. exact aceq_sound. Qed.

(* IN-COQ TIE.  For every case regenerated from the current /repo in this run (model.expression of
   each corpus reaction, plus coupling/naming/dynamics variants) and EVERY numerical point, the
   implementation's expression denotes the helicity formula over the independently extracted data. *)
Theorem C02_current_expressions_denote_formula :
  forall name impl data, In (name, (impl, data)) tie_cases ->
  forall ρ, denC ρ impl = intensity_sem ρ data.
Proof. exact tie_case_denotes. Qed.

Example C02_tie_cases_were_generated : (10 <= length tie_cases)%nat.
Proof. exact tie_cases_nonempty. Qed.
Example C02_tie_detects_wrong_wigner_index :
  aceq 40 (intensity_expr ex_model) (intensity_expr (swap_first_node ex_model)) = false
  /\ aceq 40 (intensity_expr ex_model) (intensity_expr ex_model) = true.
Proof. exact tie_detects_wrong_index. Qed.

Example C02_example_shape :
  match intensity_expr ex_model with
  | App HAdd [App HPow [App HAbs [App HAdd [App HAdd [App HMul (Num _ :: Sym "C_f0"%string :: _); _]]]; Num _]; _] => True
  | _ => False
  end.
Proof. exact ex_shape. Qed.

Print Assumptions C02_intensity_is_helicity_formula.
Print Assumptions C02_ac_equality_checker_sound.
Print Assumptions C02_current_expressions_denote_formula.
Print Assumptions C02_intensity_component_is_group_term.
Print Assumptions C02_amplitude_is_coherent_sum_of_chains.
Print Assumptions C02_chain_component_is_chain_term.
Print Assumptions C02_node_factor.
Print Assumptions C02_group_term_real_nonneg.
