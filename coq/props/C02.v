(* C02 — property theorems (statements only).  Data types, the formula [intensity_sem] and the
   expected tree [intensity_expr] are in coq/theories/Helicity.v.  The correspondence run of this
   check compares [intensity_expr]/[group_expr]/[amp_expr]/[chain_expr], evaluated by vm_compute on
   data extracted independently from the qrules transitions, with the implementation's
   model.expression / components / amplitudes (SymPy ==) on every case. *)
From AV Require Import Helicity Helicity_proofs.
From AVchk Require Import C02_lemmas.
Open Scope C_scope.

(* For EVERY reaction data (any number of outer-projection groups, topologies, chains, nodes; any
   spins, LS values, couplings/coefficients, prefactors, lineshapes) and EVERY numerical point
   (environment: angles, parameter values, lineshape values, and ANY functions for WignerD and CG)
   the expected model expression is well defined and equals the helicity formula:
     sum over outer projections of | sum over topologies and chains of
        prefactor * coefficient * prod over nodes of CG * CG * H * conj-D(J,m,l1-l2;phi,theta) * lineshape |^2 *)
Theorem C02_intensity_is_helicity_formula :
  forall (ρ : envC) (gs : list hgroup),
    wdC ρ (intensity_expr gs) /\ denC ρ (intensity_expr gs) = intensity_sem ρ gs.
Proof. intros ρ gs. split; [apply wd_intensity_expr|apply intensity_expr_denotes_formula]. Qed.

(* each named component equals the corresponding partial sum *)
Theorem C02_intensity_component_is_group_term :
  forall ρ (g : hgroup), denC ρ (group_expr g) = group_sem ρ g.
Proof. exact den_group. Qed.
Theorem C02_amplitude_is_coherent_sum_of_chains :
  forall ρ (chains : list hchain), denC ρ (amp_expr chains) = amp_sem ρ chains.
Proof. exact den_amp. Qed.
Theorem C02_chain_component_is_chain_term :
  forall ρ (c : hchain), denC ρ (chain_expr c) = chain_sem ρ c.
Proof. exact den_chain. Qed.
Theorem C02_node_factor :
  forall ρ (n : hnode), denC ρ (node_expr n) = node_sem ρ n.
Proof. exact den_node. Qed.

(* each incoherent term is a squared modulus: real and non-negative *)
Theorem C02_group_term_real_nonneg :
  forall ρ (g : hgroup), snd (group_sem ρ g) = 0%R /\ (0 <= fst (group_sem ρ g))%R.
Proof. exact group_sem_real_nonneg. Qed.

Example C02_example_shape :
  match intensity_expr ex_model with
  | App HAdd [App HPow [App HAbs [App HAdd [App HAdd [App HMul (Num _ :: Sym "C_f0"%string :: _); _]]]; Num _]; _] => True
  | _ => False
  end.
Proof. exact ex_shape. Qed.

Print Assumptions C02_intensity_is_helicity_formula.
Print Assumptions C02_intensity_component_is_group_term.
Print Assumptions C02_amplitude_is_coherent_sum_of_chains.
Print Assumptions C02_chain_component_is_chain_term.
Print Assumptions C02_node_factor.
Print Assumptions C02_group_term_real_nonneg.
