(* C04 — unpolarised intensity is invariant under a global rotation of the event.
   Label: PARTIAL.  What is proved, about what:
   (K) kinematic conventions of the helicity frames, on terms REGENERATED from /repo (Gen_C04):
       the signs and argument orders of Phi, Theta, RotationZMatrix, RotationYMatrix, of the
       angle arguments compute_helicity_angles passes to them, and of the Wigner-D arguments of
       formulate_isobar_wigner_d.
   (A) the algebraic core of invariance over an abstract rotation group with abstract Wigner
       matrices (AV.Rot, Section hypotheses D_mul, D_unit, rng_nodup and - for the cascade - the
       z-rotation hypotheses r_diag, rinv_diag, r_char): one node, two-node cascade, coherent sum
       of covariant chains.
   (B) the bridge from (K) to (A) for ALL proper rotations (stabiliser argument) is in the separate
       chain C04_general.v / C04_general_props.v (C04_frame_covariant_general,
       C04_deeper_frames_invariant_general, C04_boostz_commutes_rotz, C04_cascade_frames_instance,
       C04_cascade_invariant_general_rotation), compiled after this file so that a failure there
       cannot mask the obligations below.
   NOT proved: that the expression returned by formulate() for an arbitrary topology is the
   amp2-cascade of (A) with these frames; that, three and more nodes, and the model as a whole are
   checked on the implementation by bridge/search_C04.py.  That harness REFUTES the multi-topology clause on the current tree
   (known finding multi_topology_unaligned_spinless_not_invariant and the aligned variants): a
   chain whose decaying child is the "opposite helicity" state is not covariant in the sense of
   [covariant], so covariant_chains_invariant does not apply to it. *)
From AV Require Import DenR Mat Rot.
From AVchk Require Import Gen_C04 C04_lemmas.
From Coquelicot Require Import Complex.
Open Scope R_scope.

(* ---- (K) kinematics on regenerated terms ---- *)

(* Phi and Theta are well defined off the z axis and are atan2(py, px), acos(pz/|p|) *)
Theorem C04_phi_theta_values : forall E x y z, offaxis x y ->
  (wdR (envP E x y z) phi_expr /\ wdR (envP E x y z) theta_expr) /\
  PhiR E x y z = atan2 y x /\ ThetaR E x y z = acos (z / norm3 x y z).
Proof. intros E x y z H. split; [exact (phi_theta_wd E x y z H)|]. split; [apply phi_value|apply theta_value; exact H]. Qed.

(* Phi in (-pi, pi], Theta in [0, pi] *)
Theorem C04_phi_theta_ranges : forall E x y z,
  - PI < PhiR E x y z <= PI /\ 0 <= ThetaR E x y z <= PI.
Proof. exact phi_theta_ranges. Qed.

(* compute_helicity_angles multiplies BoostZ . RotationY(-Theta p) . RotationZ(-Phi p) *)
Theorem C04_frame_arguments : forall E x y z,
  frame_factor_kinds = ["BoostZMatrix"; "RotationYMatrix"; "RotationZMatrix"]%string /\
  frameRzArg E x y z = - PhiR E x y z /\ frameRyArg E x y z = - ThetaR E x y z /\
  denR (envP E x y z) level1_phi = PhiR E x y z /\ denR (envP E x y z) level1_theta = ThetaR E x y z.
Proof.
  intros. split; [exact frame_order|]. destruct (frame_args E x y z). destruct (level1_angles E x y z). auto.
Qed.

(* frame_aligns: Ry(-Theta p) Rz(-Phi p) p = (E, 0, 0, |p|) for every p off the z axis *)
Theorem C04_frame_aligns : forall E x y z, offaxis x y ->
  mvec (frameM E x y z) [E; x; y; z] = [E; 0; 0; norm3 x y z] /\ 0 < norm3 x y z.
Proof. intros E x y z H. split; [exact (frame_aligns E x y z H)|exact (norm3_pos x y z H)]. Qed.

(* Ry(-theta) Rz(-phi) = (Rz(phi) Ry(theta))^T = (Rz(phi) Ry(theta))^-1 *)
Theorem C04_frame_is_inverse_euler : forall th ph,
  mmul (Ry (- th)) (Rz (- ph)) = transpose (mmul (Rz ph) (Ry th)) /\
  mmul (mmul (Ry (- th)) (Rz (- ph))) (mmul (Rz ph) (Ry th)) = idM /\
  mmul (mmul (Rz ph) (Ry th)) (mmul (Ry (- th)) (Rz (- ph))) = idM.
Proof. exact frame_is_inverse_euler. Qed.

(* a rotation about z by d leaves Theta unchanged and shifts Phi by d (mod 2 pi) *)
Theorem C04_rotz_shifts_phi : forall d E x y z, offaxis x y ->
  rotz_mom d E x y z = [E; x * cos d - y * sin d; x * sin d + y * cos d; z] /\
  let x' := x * cos d - y * sin d in let y' := x * sin d + y * cos d in
  offaxis x' y' /\ ThetaR E x' y' z = ThetaR E x y z /\
  cos (PhiR E x' y' z) = cos (PhiR E x y z + d) /\ sin (PhiR E x' y' z) = sin (PhiR E x y z + d).
Proof. intros d E x y z H. split; [apply rotz_mom_value|exact (rotz_shifts_phi d E x y z H)]. Qed.

(* ... hence the helicity frame is exactly covariant under z rotations: every deeper-level
   momentum, and with it every deeper-level angle, is unchanged *)
Theorem C04_frame_covariant_z : forall d E x y z, offaxis x y ->
  let x' := x * cos d - y * sin d in let y' := x * sin d + y * cos d in
  mmul (frameM E x' y' z) (Rz d) = frameM E x y z.
Proof. exact frame_covariant_z. Qed.

(* formulate_isobar_wigner_d: D^J_{M, lambda_hel - lambda_opp}(-phi, theta, 0) with phi, theta of one node,
   for all 36 nodes of the J/psi -> 3 pi corpus reaction (rows with M <> lambda difference <> 0 exist) *)
Theorem C04_wigner_convention :
  forallb row_ok wigner_rows = true /\ existsb row_discriminates wigner_rows = true.
Proof. exact wigner_convention. Qed.

(* ---- (A) algebra over abstract Wigner matrices (hypotheses = Section variables of AV.Rot) ---- *)
Open Scope C_scope.

Section Algebra.
  Variables (G J I : Type) (gmul : G -> G -> G) (I_eq_dec : forall a b : I, {a = b} + {a <> b}).
  Variable rng : J -> list I.
  Variable D : J -> G -> I -> I -> C.
  Hypothesis rng_nodup : forall j, NoDup (rng j).
  Hypothesis D_mul : forall j g h m m', In m (rng j) -> In m' (rng j) ->
    D j (gmul g h) m m' = csum (rng j) (fun k => D j g m k * D j h k m').
  Hypothesis D_unit : forall j g m m', In m (rng j) -> In m' (rng j) ->
    csum (rng j) (fun k => Cconj (D j g k m) * D j g k m') = delta I I_eq_dec m m'.

  (* one node: sum_M |sum_l D*^J_{M l}(h g) a_l|^2 = sum_M |sum_l D*^J_{M l}(g) a_l|^2 *)
  Theorem C04_one_node_invariant : forall j a h g,
    csum (rng j) (fun M => norm2 (amp1 G J I rng D j a (gmul h g) M))
    = csum (rng j) (fun M => norm2 (amp1 G J I rng D j a g M)).
  Proof. exact (one_node_invariant G gmul J I I_eq_dec rng rng_nodup D D_mul D_unit). Qed.

  (* coherent sum of covariant chains, incoherent sums over M and over final helicities nu *)
  Theorem C04_covariant_chains_invariant : forall (Ev : Type) (act : G -> Ev -> Ev) (K N : Type) j
      (chains : list K) (nus : list N) (A : K -> N -> Ev -> I -> C),
    (forall c nu, In c chains -> In nu nus -> covariant G J I rng D Ev act j (A c nu)) -> forall h e,
    csum nus (fun nu => csum (rng j) (fun M => norm2 (csum chains (fun c => A c nu (act h e) M))))
    = csum nus (fun nu => csum (rng j) (fun M => norm2 (csum chains (fun c => A c nu e M)))).
  Proof. intros Ev act K N. exact (@covariant_chains_invariant G J I I_eq_dec rng rng_nodup D D_unit Ev act K N). Qed.

  (* two-node cascade with a spinless spectator: the residual z rotation r of the isobar frame is
     compensated by the second-level azimuth; the cascade amplitude is covariant, its
     unpolarised intensity invariant *)
  Theorem C04_cascade_invariant : forall (Jt s : J) (lam : list I) (a2 : I -> I -> C) (r rinv : G),
    (forall l, In l lam -> In l (rng Jt)) -> (forall l, In l lam -> In l (rng s)) ->
    (forall m m', In m (rng Jt) -> In m' (rng Jt) -> m <> m' -> D Jt r m m' = 0) ->
    (forall m m', In m (rng s) -> In m' (rng s) -> m <> m' -> D s rinv m m' = 0) ->
    (forall l, In l lam -> D Jt r l l * D s rinv l l = 1) ->
    forall g h1 h2 (nus : list I), (forall nu, In nu nus -> In nu (rng s)) ->
    (forall nu M, In M (rng Jt) -> In nu (rng s) ->
       amp2 G J I D Jt s lam a2 (gmul g (gmul h1 r)) (gmul rinv h2) nu M
       = csum (rng Jt) (fun k => Cconj (D Jt g M k) * amp2 G J I D Jt s lam a2 h1 h2 nu k)) /\
    csum nus (fun nu => csum (rng Jt) (fun M => norm2 (amp2 G J I D Jt s lam a2 (gmul g (gmul h1 r)) (gmul rinv h2) nu M)))
    = csum nus (fun nu => csum (rng Jt) (fun M => norm2 (amp2 G J I D Jt s lam a2 h1 h2 nu M))).
  Proof.
    intros Jt s lam a2 r rinv H1 H2 H3 H4 H5 g h1 h2 nus Hn. split.
    - intros nu M HM Hnu.
      exact (cascade_covariant G gmul J I rng rng_nodup D D_mul Jt s lam H1 H2 a2 r rinv H3 H4 H5 g h1 h2 nu M HM Hnu).
    - exact (cascade_invariant G gmul J I I_eq_dec rng rng_nodup D D_mul D_unit Jt s lam H1 H2 a2 r rinv H3 H4 H5 g h1 h2 nus Hn).
  Qed.
End Algebra.

(* the squared modulus used above is the real number |z|^2 *)
Theorem C04_norm2_is_modulus : forall z : C, norm2 z = RtoC (Cmod z ^ 2).
Proof. exact norm2_real. Qed.

(* ---- non-vacuity ---- *)
Example C04_offaxis_satisfiable : offaxis 1 0.
Proof. exact offaxis_example. Qed.

(* the algebra's hypotheses hold for a non-diagonal unitary representation (Z2 swapping two projections) *)
Example C04_algebra_hypotheses_satisfiable :
  (forall j : unit, NoDup ((fun _ => [false; true]) j)) /\
  (forall (j : unit) g h m m', In m [false; true] -> In m' [false; true] ->
     z2_D j (xorb g h) m m' = csum [false; true] (fun k => z2_D j g m k * z2_D j h k m')) /\
  (forall (j : unit) g m m', In m [false; true] -> In m' [false; true] ->
     csum [false; true] (fun k => Cconj (z2_D j g k m) * z2_D j g k m') = delta bool Bool.bool_dec m m').
Proof. exact (conj z2_rng_nodup (conj z2_D_mul z2_D_unit)). Qed.

Print Assumptions C04_phi_theta_values.
Print Assumptions C04_phi_theta_ranges.
Print Assumptions C04_frame_arguments.
Print Assumptions C04_frame_aligns.
Print Assumptions C04_frame_is_inverse_euler.
Print Assumptions C04_rotz_shifts_phi.
Print Assumptions C04_frame_covariant_z.
Print Assumptions C04_wigner_convention.
Print Assumptions C04_one_node_invariant.
Print Assumptions C04_covariant_chains_invariant.
Print Assumptions C04_cascade_invariant.
Print Assumptions C04_norm2_is_modulus.
Print Assumptions C04_offaxis_satisfiable.
Print Assumptions C04_algebra_hypotheses_satisfiable.
