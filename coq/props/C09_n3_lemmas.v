(* C09, 3 channels (thorough tier): lemmas about gen_nr_T3, gen_rel_T3, gen_rel_That3 (Gen_C09_n3). *)
From AV Require Import KMat.
From AVchk Require Import Gen_C09_n3.
From Coq Require Import Lra Lia.
Open Scope C_scope.

Definition den3 := cay_den M3 M3one M3add M3mul M3opp M3i.
Definition unitary3 (T : M3) : Prop :=
  let S := smat M3 M3one M3add M3mul M3i T in
  M3mul (M3dag S) S = M3one /\ M3mul S (M3dag S) = M3one.
Definition rho3 (ρ : envC) : M3 := M3diag (csym ρ "rho0") (csym ρ "rho1") (csym ρ "rho2").
Definition sqrt_rho3 (ρ : envC) : M3 :=
  M3diag (Csqrt (csym ρ "rho0")) (Csqrt (csym ρ "rho1")) (Csqrt (csym ρ "rho2")).
Definition sqrt_rho_conj3 (ρ : envC) : M3 :=
  M3diag (Cconj (Csqrt (csym ρ "rho0"))) (Cconj (Csqrt (csym ρ "rho1"))) (Cconj (Csqrt (csym ρ "rho2"))).
Definition Kreal3 (ρ : envC) : Prop :=
  isreal (csym ρ "K[0, 0]") /\ isreal (csym ρ "K[0, 1]") /\ isreal (csym ρ "K[0, 2]") /\
  isreal (csym ρ "K[1, 1]") /\ isreal (csym ρ "K[1, 2]") /\ isreal (csym ρ "K[2, 2]") /\
  csym ρ "K[1, 0]" = csym ρ "K[0, 1]" /\ csym ρ "K[2, 0]" = csym ρ "K[0, 2]" /\
  csym ρ "K[2, 1]" = csym ρ "K[1, 2]".
Definition rho_pos3 (ρ : envC) : Prop :=
  exists x0 x1 x2 : R, (0 < x0)%R /\ (0 < x1)%R /\ (0 < x2)%R /\
    csym ρ "rho0" = RtoC x0 /\ csym ρ "rho1" = RtoC x1 /\ csym ρ "rho2" = RtoC x2.

Ltac start3 H :=
  dens_of H; cbv [denMC m3_of ent nth map K3 den3 rho3 sqrt_rho3 sqrt_rho_conj3 M3diag cay_den sub];
  denC_simpl; cbv [M3mul M3add M3opp M3one M3i b00 b01 b02 b10 b11 b12 b20 b21 b22]; name_dens.

Lemma nr_defining_3 : forall ρ, wdMC ρ gen_nr_T3 ->
  let T := m3_of (denMC ρ gen_nr_T3) in
  M3mul T (den3 (K3 ρ)) = K3 ρ /\ M3mul (den3 (K3 ρ)) T = K3 ρ.
Proof. intros [cs cf] H. unfold gen_nr_T3 in *. start3 H. split; f_equal; fld_close. Qed.

Lemma That_defining_3 : forall ρ, wdMC ρ gen_rel_That3 ->
  let T := m3_of (denMC ρ gen_rel_That3) in
  M3mul T (den3 (M3mul (rho3 ρ) (K3 ρ))) = K3 ρ /\ M3mul (den3 (M3mul (K3 ρ) (rho3 ρ))) T = K3 ρ.
Proof. intros [cs cf] H. unfold gen_rel_That3 in *. start3 H. split; f_equal; fld_close. Qed.

Lemma Trel_factor_3 : forall ρ, wdMC ρ gen_rel_T3 ->
  m3_of (denMC ρ gen_rel_T3)
  = M3mul (M3mul (sqrt_rho_conj3 ρ) (m3_of (denMC ρ gen_rel_That3))) (sqrt_rho3 ρ).
Proof.
  intros [cs cf] H. unfold gen_rel_T3, gen_rel_That3 in *. start3 H. name_atoms cs.
  f_equal; fld_close.
Qed.

Lemma K3_selfadjoint ρ : Kreal3 ρ -> M3dag (K3 ρ) = K3 ρ /\ M3tr (K3 ρ) = K3 ρ.
Proof.
  intros [H0 [H1 [H2 [H3 [H4 [H5 [E1 [E2 E3]]]]]]]].
  unfold K3, M3dag, M3tr; cbn [b00 b01 b02 b10 b11 b12 b20 b21 b22]. rewrite E1, E2, E3.
  rewrite !Cconj_real by assumption. split; reflexivity.
Qed.

Lemma nr_unitary_3 ρ : wdMC ρ gen_nr_T3 -> Kreal3 ρ ->
  let T := m3_of (denMC ρ gen_nr_T3) in unitary3 T /\ M3tr T = T.
Proof.
  intros Hwd HK. destruct (nr_defining_3 ρ Hwd) as [E1 E2]. destruct (K3_selfadjoint ρ HK) as [Kd Kt].
  destruct (cayley_from_defining M3 M3zero M3one M3add M3mul M3opp M3_ring M3i M3_imag M3dag M3tr
              M3_dag M3_dag_i M3_tr M3_tr_i (K3 ρ) _ Kd Kt E1 E2) as [U1 [U2 U3]].
  repeat split; assumption.
Qed.

Lemma Csqrt_sq3 x : (0 <= x)%R -> RtoC (sqrt x) * RtoC (sqrt x) = RtoC x.
Proof. intros H. rewrite <- RtoC_mult, sqrt_sqrt by exact H. reflexivity. Qed.

Lemma rel_unitary_3 ρ : wdMC ρ gen_rel_T3 -> wdMC ρ gen_rel_That3 -> Kreal3 ρ -> rho_pos3 ρ ->
  let T := m3_of (denMC ρ gen_rel_T3) in let Th := m3_of (denMC ρ gen_rel_That3) in
  unitary3 T /\ M3tr T = T /\ M3tr Th = Th.
Proof.
  intros Hwd Hwdh HK [x0 [x1 [x2 [Hx0 [Hx1 [Hx2 [Hr0 [Hr1 Hr2]]]]]]]].
  cbv zeta. rewrite (Trel_factor_3 ρ Hwd). destruct (That_defining_3 ρ Hwdh) as [E1 E2].
  destruct (K3_selfadjoint ρ HK) as [Kd Kt].
  set (Th := m3_of (denMC ρ gen_rel_That3)) in *.
  unfold sqrt_rho_conj3, sqrt_rho3, rho3 in *. rewrite Hr0, Hr1, Hr2 in *.
  rewrite !Csqrt_nonneg by lra. rewrite !Cconj_R.
  set (r := M3diag (RtoC (sqrt x0)) (RtoC (sqrt x1)) (RtoC (sqrt x2))).
  assert (Hrr : M3mul r r = M3diag (RtoC x0) (RtoC x1) (RtoC x2)).
  { unfold r, M3diag, M3mul; cbn [b00 b01 b02 b10 b11 b12 b20 b21 b22].
    f_equal; try ring;
      [rewrite <- (Csqrt_sq3 x0) by lra | rewrite <- (Csqrt_sq3 x1) by lra | rewrite <- (Csqrt_sq3 x2) by lra];
      ring. }
  assert (Hrd : M3dag r = r).
  { unfold r, M3diag, M3dag; cbn [b00 b01 b02 b10 b11 b12 b20 b21 b22]. rewrite !Cconj_R. reflexivity. }
  destruct (inverse_from_defining_rel M3 M3zero M3one M3add M3mul M3opp M3_ring M3i M3_imag
              (M3diag (RtoC x0) (RtoC x1) (RtoC x2)) (K3 ρ) Th E1 E2) as [Y1 [Y2 Y3]].
  rewrite <- Hrr in Y1, Y2.
  destruct (cayley_unitary_rel M3 M3zero M3one M3add M3mul M3opp M3_ring M3i M3_imag M3dag M3tr
              M3_dag M3_dag_i M3_tr M3_tr_i r (K3 ρ) _ Th (M3mul (M3mul r Th) r)
              Hrd eq_refl Kd Kt Y1 Y2) as [U1 [U2 [U3 U4]]].
  - rewrite Hrr. exact Y3.
  - reflexivity.
  - repeat split; assumption.
Qed.
