(* C04 — general-rotation bridge: statements (proofs in C04_general.v; kept apart from C04.v so that a
   failure here cannot mask the obligations of C04.v).
   F(q) := frameM q = RotationY(-Theta q) . RotationZ(-Phi q), Rz a = RotationZMatrix(a), Bz b =
   BoostZMatrix(b), betaR = the boost argument of compute_helicity_angles: all REGENERATED from /repo.
   g ranges over 3x3 proper rotations (AV.Rot3: g^T g = 1, det g = 1), embedded into the Lorentz
   matrices by emb4; momenta are (E; x, y, z).  Every statement carries its domain: p and g.p off the
   z axis (where Phi is defined by the code's atan2 and the frame is not a convention). *)
From AV Require Import DenR Mat Rot Rot3.
From AVchk Require Import Gen_C04 C04_lemmas C04_general.
From Coquelicot Require Import Complex.
Open Scope R_scope.

(* frame_covariant_general: M := F(g.p) . g . F(p)^T is the code's RotationZMatrix(delta) for some delta;
   (i) every other momentum q is carried into the subsystem frame up to that rotation about z;
   (ii) the helicity rotation h(p) = F(p)^T transforms as h(g.p) = g . h(p) . Rz(-delta) *)
Theorem C04_frame_covariant_general : forall (g : M3) E x y z, proper g -> offaxis x y ->
  let p' := mulv g (mkv x y z) in offaxis (vx p') (vy p') ->
  exists delta,
    mmul (mmul (frameM E (vx p') (vy p') (vz p')) (emb4 g)) (transpose (frameM E x y z)) = Rz delta /\
    (forall Eq q, mvec (frameM E (vx p') (vy p') (vz p')) (vec4 Eq (mulv g q))
                  = mvec (Rz delta) (mvec (frameM E x y z) (vec4 Eq q))) /\
    transpose (frameM E (vx p') (vy p') (vz p'))
      = mmul (emb4 g) (mmul (transpose (frameM E x y z)) (Rz (- delta))).
Proof. exact frame_covariant_general. Qed.

(* the same residual rotation as a (cos, sin) pair on the 3x3 blocks *)
Theorem C04_frame_residual_is_z_rotation : forall (g : M3) E x y z, proper g -> offaxis x y ->
  let p' := mulv g (mkv x y z) in offaxis (vx p') (vy p') ->
  exists c s, c ^ 2 + s ^ 2 = 1 /\
    mul3 (mul3 (F3 E (vx p') (vy p') (vz p')) g) (tr3 (F3 E x y z)) = rz3 c s /\
    frameM E x y z = emb4 (F3 E x y z) /\ frameM E (vx p') (vy p') (vz p') = emb4 (F3 E (vx p') (vy p') (vz p')).
Proof. exact frame_residual_is_z_rotation. Qed.

(* the stabiliser argument itself (pure 3x3 algebra) *)
Theorem C04_stabiliser_of_z : forall M : M3, proper M -> mulv M ez = ez ->
  exists c s, c ^ 2 + s ^ 2 = 1 /\ M = rz3 c s.
Proof. exact stabiliser_z. Qed.

(* the z boost of the regenerated BoostZMatrix commutes with the regenerated RotationZMatrix, and the
   boost parameter of the frame is unchanged by a rotation of the event *)
Theorem C04_boostz_commutes_rotz : forall b a,
  mmul (Bz b) (Rz a) = mmul (Rz a) (Bz b) /\
  (forall t u v w, mvec (Bz b) (mvec (Rz a) [t; u; v; w]) = mvec (Rz a) (mvec (Bz b) [t; u; v; w])).
Proof. intros b a. split; [apply boostz_commutes_rotz | intros; apply boostz_commutes_rotz_vec]. Qed.

Theorem C04_beta_invariant : forall (g : M3) E x y z, proper g ->
  let p' := mulv g (mkv x y z) in betaR E (vx p') (vy p') (vz p') = betaR E x y z.
Proof. exact beta_invariant. Qed.

(* deeper_frames_invariant_general: the second-level momentum k = Bz(beta) F(p) q of ANY momentum q
   changes only by the rotation about z by delta; its Theta is unchanged, its Phi shifts by delta, and
   its own helicity frame absorbs the rotation: F(k') . Rz(delta) = F(k) (so third and deeper levels
   are unchanged altogether) *)
Theorem C04_deeper_frames_invariant_general : forall (g : M3) E x y z, proper g -> offaxis x y ->
  let p' := mulv g (mkv x y z) in offaxis (vx p') (vy p') ->
  exists delta,
    mmul (mmul (frameM E (vx p') (vy p') (vz p')) (emb4 g)) (transpose (frameM E x y z)) = Rz delta /\
    forall Eq q, exists kE kx ky kz,
      level2 E x y z Eq q = [kE; kx; ky; kz] /\
      level2 E (vx p') (vy p') (vz p') Eq (mulv g q) = rotz_mom delta kE kx ky kz /\
      (offaxis kx ky ->
       let kx' := kx * cos delta - ky * sin delta in let ky' := kx * sin delta + ky * cos delta in
       level2 E (vx p') (vy p') (vz p') Eq (mulv g q) = [kE; kx'; ky'; kz] /\ offaxis kx' ky' /\
       ThetaR kE kx' ky' kz = ThetaR kE kx ky kz /\
       cos (PhiR kE kx' ky' kz) = cos (PhiR kE kx ky kz + delta) /\
       sin (PhiR kE kx' ky' kz) = sin (PhiR kE kx ky kz + delta) /\
       mmul (frameM kE kx' ky' kz) (Rz delta) = frameM kE kx ky kz).
Proof. exact deeper_frames_invariant_general. Qed.

(* the group elements used below are the regenerated matrices: so3_rz a is RotationZMatrix(a) and
   hel3 q is F(q)^T = RotationZ(Phi q) . RotationY(Theta q), the argument (phi, theta, 0) of the D function *)
Theorem C04_group_elements_are_regenerated : forall a E x y z,
  emb4 (proj1_sig (so3_rz a)) = Rz a /\
  emb4 (proj1_sig (hel3 E x y z)) = transpose (frameM E x y z) /\
  transpose (frameM E x y z) = mmul (Rz (PhiR E x y z)) (Ry (ThetaR E x y z)).
Proof. exact so3_regenerated. Qed.

(* the instance of the abstract cascade that the kinematics provides: for EVERY proper rotation g of the
   event the first-level helicity rotation becomes g . h1 . Rz(-delta) and the second-level one
   Rz(delta) . h2, which are exactly the arguments of Rot.cascade_invariant with r = Rz(-delta),
   rinv = Rz(delta) *)
Theorem C04_cascade_frames_instance : forall (g : SO3) E x y z Eq q, offaxis x y ->
  let p' := mulv (proj1_sig g) (mkv x y z) in offaxis (vx p') (vy p') ->
  forall kE kx ky kz, level2 E x y z Eq q = [kE; kx; ky; kz] -> offaxis kx ky ->
  exists delta kx' ky',
    level2 E (vx p') (vy p') (vz p') Eq (mulv (proj1_sig g) q) = [kE; kx'; ky'; kz] /\
    hel3 E (vx p') (vy p') (vz p') = so3_mul g (so3_mul (hel3 E x y z) (so3_rz (- delta))) /\
    hel3 kE kx' ky' kz = so3_mul (so3_rz delta) (hel3 kE kx ky kz).
Proof. exact cascade_frames_instance. Qed.

(* ... and the consequence: the unpolarised intensity of the two-node cascade formulated with the code's
   frames is invariant under every proper rotation of the event (p; q), under the representation-theory
   hypotheses on the abstract Wigner matrices D over SO(3) (Section hypotheses, see TRUSTED) *)
Section CascadeGeneral.
  Variables (J I : Type) (I_eq_dec : forall a b : I, {a = b} + {a <> b}).
  Variable rng : J -> list I.
  Variable D : J -> SO3 -> I -> I -> C.
  Hypothesis rng_nodup : forall j, NoDup (rng j).
  Hypothesis D_mul : forall j g h m m', In m (rng j) -> In m' (rng j) ->
    D j (so3_mul g h) m m' = csum (rng j) (fun k => (D j g m k * D j h k m')%C).
  Hypothesis D_unit : forall j g m m', In m (rng j) -> In m' (rng j) ->
    csum (rng j) (fun k => (Cconj (D j g k m) * D j g k m')%C) = delta I I_eq_dec m m'.
  Hypothesis D_rz_diag : forall j a m m', In m (rng j) -> In m' (rng j) -> m <> m' ->
    D j (so3_rz a) m m' = RtoC 0.
  Variables Jt s : J.
  Variable lam : list I.
  Hypothesis lam_Jt : forall l, In l lam -> In l (rng Jt).
  Hypothesis lam_s : forall l, In l lam -> In l (rng s).
  Hypothesis D_rz_char : forall a l, In l lam -> (D Jt (so3_rz (- a)) l l * D s (so3_rz a) l l)%C = RtoC 1.
  Variable a2 : I -> I -> C.

  Theorem C04_cascade_invariant_general_rotation : forall (g : SO3) E x y z Eq q (nus : list I),
    offaxis x y ->
    let p' := mulv (proj1_sig g) (mkv x y z) in offaxis (vx p') (vy p') ->
    (forall nu, In nu nus -> In nu (rng s)) ->
    forall kE kx ky kz, level2 E x y z Eq q = [kE; kx; ky; kz] -> offaxis kx ky ->
    exists kx' ky',
      level2 E (vx p') (vy p') (vz p') Eq (mulv (proj1_sig g) q) = [kE; kx'; ky'; kz] /\
      csum nus (fun nu => csum (rng Jt) (fun M =>
         norm2 (amp_event J I D Jt s lam a2 E (vx p') (vy p') (vz p') kE kx' ky' kz nu M)))
      = csum nus (fun nu => csum (rng Jt) (fun M =>
         norm2 (amp_event J I D Jt s lam a2 E x y z kE kx ky kz nu M))).
  Proof.
    exact (cascade_invariant_general_rotation J I I_eq_dec rng D rng_nodup D_mul D_unit D_rz_diag
             Jt s lam lam_Jt lam_s D_rz_char a2).
  Qed.
End CascadeGeneral.

(* compute_wigner_angles (axis-angle alignment): with W the Wigner rotation matrix it slices, the code's
   alpha = atan2(W_zy, W_zx), beta = acos(W_zz), gamma = atan2(W_yz, -W_xz) (REGENERATED trees over the entries
   m_ij of the rotation block) are Z-Y-Z Euler angles of the INVERSE rotation, in the code's own matrices:
   RotationZ(alpha) . RotationY(beta) . RotationZ(gamma) = W^T, for every proper rotation with |W_zz| < 1
   (beta not 0 or pi, where alpha and gamma are separately defined).  Exchanging alpha and gamma, or the
   arguments of an atan2, breaks this. *)
Theorem C04_wigner_euler_angles : forall M : M3, proper M -> -1 < a33 M < 1 ->
  (wdR (envM M) wigner_alpha /\ wdR (envM M) wigner_beta /\ wdR (envM M) wigner_gamma) /\
  (wAlpha M = atan2 (a32 M) (a31 M) /\ wBeta M = acos (a33 M) /\ wGamma M = atan2 (a23 M) (- a13 M)) /\
  mmul (Rz (wAlpha M)) (mmul (Ry (wBeta M)) (Rz (wGamma M))) = transpose (emb4 M).
Proof. exact wigner_euler_full. Qed.

Example C04_wigner_euler_satisfiable : proper quarter_x /\ -1 < a33 quarter_x < 1.
Proof. exact wigner_euler_example. Qed.

(* ---- non-vacuity ---- *)
(* a proper rotation that is NOT about z, with p and g.p off the z axis *)
Example C04_general_rotation_satisfiable :
  proper quarter_x /\
  let p' := mulv quarter_x (mkv 1 1 1) in offaxis 1 1 /\ offaxis (vx p') (vy p') /\ p' = mkv 1 (-1) 1.
Proof. exact (conj quarter_x_proper quarter_x_example). Qed.

Print Assumptions C04_frame_covariant_general.
Print Assumptions C04_frame_residual_is_z_rotation.
Print Assumptions C04_stabiliser_of_z.
Print Assumptions C04_boostz_commutes_rotz.
Print Assumptions C04_beta_invariant.
Print Assumptions C04_deeper_frames_invariant_general.
Print Assumptions C04_group_elements_are_regenerated.
Print Assumptions C04_cascade_frames_instance.
Print Assumptions C04_cascade_invariant_general_rotation.
Print Assumptions C04_general_rotation_satisfiable.
Print Assumptions C04_wigner_euler_angles.
Print Assumptions C04_wigner_euler_satisfiable.
