(* C14_decorator_lemmas.v — the definitions GENERATED from the current text of _decorator.py
   (build/C14/Gen_decorator.v, bridge/trans_decorator.py) are equal to the hand-written specifications of
   coq/theories/PyModel.v; the theorems about the specifications transfer. *)
From Coq Require Import String List Bool Arith Lia Permutation.
From AV Require Import PyModel.
From AVchk Require Import Gen_decorator.
Import ListNotations.
Open Scope string_scope.
Open Scope list_scope.

Lemma gen_hashable_spec o : gen__get_hashable_object o = spec_hashable o.
Proof. destruct o as [|q|k id q|s]; reflexivity. Qed.

Lemma gen_loop_spec st f : gen__extract_field_values_loop1 st f = spec_step st f.
Proof. destruct st as [[d k] m]. reflexivity. Qed.

Lemma fold_ext {A B} (f g : A -> B -> A) : (forall a b, f a b = g a b) -> forall l a, fold_left f l a = fold_left g l a.
Proof. intros H. induction l as [|b l IH]; intros a; cbn; auto. rewrite H. apply IH. Qed.

Lemma gen_extract_spec cls args kw : gen__extract_field_values cls args kw = spec_extract cls args kw.
Proof.
  unfold gen__extract_field_values, spec_extract, cls_fields.
  rewrite (fold_ext _ _ gen_loop_spec). reflexivity.
Qed.

Lemma gen_get_arguments_spec x : gen__get_arguments x = spec_get_arguments x.
Proof. reflexivity. Qed.

Lemma gen_new_spec cls args kw ev : gen_new_method cls args kw ev = spec_new spec_extract cls args kw ev.
Proof.
  unfold gen_new_method, spec_new. rewrite gen_extract_spec.
  destruct (spec_extract cls args kw) as [[d hints]|a l]; reflexivity.
Qed.

(* ---- _get_hashable_object ---- *)
Lemma d_class q : gen__get_hashable_object (PClass q) = KStr q.
Proof. rewrite gen_hashable_spec. reflexivity. Qed.
Lemma d_itself k id q : gen__get_hashable_object (PHash k id q) = KObj (PHash k id q).
Proof. rewrite gen_hashable_spec. reflexivity. Qed.
Lemma d_unhashable s : gen__get_hashable_object (PUnhash s) = KStr s.
Proof. rewrite gen_hashable_spec. reflexivity. Qed.
Lemma d_none : gen__get_hashable_object PNone = gen__get_hashable_object none_type /\
               gen__get_hashable_object PNone = KStr "builtins.NoneType".
Proof. rewrite !gen_hashable_spec. split; reflexivity. Qed.
Lemma d_collisions o1 o2 :
  nkey (gen__get_hashable_object o1) = nkey (gen__get_hashable_object o2) ->
  o1 = o2 \/ (stringly o1 = true /\ stringly o2 = true) \/
  (exists id q q', o1 = PHash KStrK id q /\ o2 = PHash KStrK id q').
Proof. rewrite !gen_hashable_spec. apply spec_hashable_collisions. Qed.
Lemma d_never_identified k id q o :
  k <> KStrK -> nkey (gen__get_hashable_object (PHash k id q)) = nkey (gen__get_hashable_object o) -> o = PHash k id q.
Proof. rewrite !gen_hashable_spec. apply spec_hashable_nonstring_injective. Qed.

(* ---- _extract_field_values ---- *)
Lemma e_shape cls args kw d rest :
  NoDup (names cls) -> gen__extract_field_values cls args kw = Ok (d, rest) ->
  d = combine cls (args ++ map (value_of kw) (skipn (length args) cls)) /\ map fst d = cls.
Proof. rewrite gen_extract_spec. apply spec_extract_ok_shape. Qed.
Lemma e_kw_order cls args kw kw' :
  NoDup (names cls) -> NoDup (map fst kw) -> Permutation kw kw' ->
  result_equiv (gen__extract_field_values cls args kw) (gen__extract_field_values cls args kw').
Proof. rewrite !gen_extract_spec. apply spec_extract_kwargs_order. Qed.
Lemma e_too_many cls args kw : length cls < length args -> gen__extract_field_values cls args kw = Err 0 [].
Proof. rewrite gen_extract_spec. apply spec_extract_too_many. Qed.
Lemma e_missing cls args kw :
  NoDup (names cls) -> length args < length cls ->
  names (filter (is_unfilled kw) (skipn (length args) cls)) <> [] ->
  gen__extract_field_values cls args kw = Err 1 (names (filter (is_unfilled kw) (skipn (length args) cls))).
Proof. intros. rewrite gen_extract_spec. apply spec_extract_missing; auto. Qed.
Lemma e_leftover cls args kw d rest :
  NoDup (names cls) -> NoDup (map fst kw) -> length args <> length cls ->
  gen__extract_field_values cls args kw = Ok (d, rest) -> rest = kw_minus kw (names (skipn (length args) cls)).
Proof. rewrite gen_extract_spec. apply spec_extract_leftover. Qed.

(* ---- _get_arguments / new_method ---- *)
Lemma g_all_fields x :
  gen__get_arguments x = map (fun f => get_attr x (pf_name f)) (i_cls x) /\
  length (gen__get_arguments x) = length (i_cls x).
Proof. rewrite gen_get_arguments_spec. unfold spec_get_arguments, inst_fields. rewrite map_length. auto. Qed.
Lemma n_rebuild cls vals :
  NoDup (names cls) -> length vals = length cls -> Forall2 (fun f v => safe_sympify f v = v) cls vals ->
  gen_new_method cls (gen__get_arguments (mk_inst cls vals)) [] false = Ok (mk_inst cls vals).
Proof. rewrite gen_new_spec, gen_get_arguments_spec. apply spec_rebuild_identity. Qed.

(* ---- non-vacuity: BreakupMomentumSquared-like class, keywords out of order, a default used ---- *)
Definition ex_cls : list pfield :=
  [ {| pf_name := "s"; pf_default := VMissing; pf_sym := true |};
    {| pf_name := "m1"; pf_default := VMissing; pf_sym := true |};
    {| pf_name := "m2"; pf_default := VMissing; pf_sym := true |};
    {| pf_name := "name"; pf_default := VObj PNone; pf_sym := false |} ].
Lemma ex_extract :
  NoDup (names ex_cls) /\
  gen__extract_field_values ex_cls [VSym "s"] [("m2", VRaw "2"); ("m1", VSym "m")] =
    Ok (combine ex_cls [VSym "s"; VSym "m"; VRaw "2"; VObj PNone], []) /\
  gen__extract_field_values ex_cls [VSym "s"] [("m2", VRaw "2")] = Err 1 ["m1"] /\
  gen_new_method ex_cls [VSym "s"] [("m2", VRaw "2"); ("m1", VSym "m")] false =
    Ok (mk_inst ex_cls [VSym "s"; VSym "m"; VSym "2"; VObj PNone]).
Proof.
  split; [repeat constructor; cbn; intuition discriminate|]. repeat split; vm_compute; reflexivity.
Qed.
