(* C08 — lemmas about the matrices regenerated from /repo (Gen_C08):
   *_explicit   = as_explicit() entries,
   *_numpy_cse / *_numpy_nocse = symbolic meaning of the generated NumPy code. *)
From AV Require Import DenR Mat.
From AVchk Require Import Gen_C08.
From Coq Require Import Lra Lia Psatz.
Open Scope R_scope.

Definition envP (E x y z : R) : env := env_of [("E", E); ("x", x); ("y", y); ("z", z)].
Definition envB (b : R) : env := env_of [("b", b)].
Definition envA (a : R) : env := env_of [("a", a)].

Definition timelike (E x y z : R) : Prop := 0 < E /\ 0 < E^2 - x^2 - y^2 - z^2.
Definition moving (x y z : R) : Prop := 0 < x^2 + y^2 + z^2.
Definition massR (E x y z : R) : R := sqrt (E^2 - x^2 - y^2 - z^2).

Lemma sqrt_beta E x y z : 0 < E -> 0 < E^2 - x^2 - y^2 - z^2 ->
  sqrt (1 + - (x^2 + y^2 + z^2) / E^2) = sqrt (E^2 - x^2 - y^2 - z^2) / E.
Proof.
  intros HE Hm.
  replace (1 + - (x^2 + y^2 + z^2) / E^2) with ((E^2 - x^2 - y^2 - z^2) / E^2) by (field; lra).
  rewrite sqrt_div_alt by (apply pow_lt; lra). f_equal.
  replace (E^2) with (E*E) by ring. apply sqrt_square. lra.
Qed.

(* Replace the square root printed by the code by m/E and expose m^2 = E^2-|p|^2. *)
Ltac intro_mass E x y z HE Hm :=
  repeat match goal with
  | |- context [sqrt ?t] =>
      lazymatch t with
      | (E^2 - x^2 - y^2 - z^2) => fail
      | _ => replace (sqrt t) with (sqrt (E^2 - x^2 - y^2 - z^2) / E)
               by (rewrite <- (sqrt_beta E x y z HE Hm); f_equal; field; lra)
      end
  end;
  let m := fresh "m" in
  set (m := sqrt (E^2 - x^2 - y^2 - z^2));
  assert (0 < m) by (apply sqrt_lt_R0; lra);
  assert (m ^ 2 = E^2 - x^2 - y^2 - z^2) by (unfold m; apply pow2_sqrt; lra);
  assert (E ^ 2 = m^2 + x^2 + y^2 + z^2) by lra;
  clearbody m.

Ltac fse := first [ ring | (field_simplify_eq; [|repeat split; lra]) | field_simplify_eq ].

Ltac elimE2 :=
  match goal with
  | HE2 : ?E ^ 2 = _ + _ + _ + _ |- _ => rewrite ?HE2
  end.

Section Boost.
  Variables E x y z : R.
  Hypothesis Ht : timelike E x y z.
  Hypothesis Hp : moving x y z.
  Let B := denM (envP E x y z) boost_explicit.

  Lemma boost_wd : wdM (envP E x y z) boost_explicit.
  Proof.
    destruct Ht as [HE Hm]. unfold moving in Hp.
    unfold boost_explicit, envP. mat_simpl. den_simpl.
    assert (0 < 1 + - (x^2 + y^2 + z^2) / E^2)
      by (replace (1 + - (x^2 + y^2 + z^2) / E^2) with ((E^2 - x^2 - y^2 - z^2) / E^2) by (field; lra);
          apply Rdiv_lt_0_compat; [lra | apply pow_lt; lra]).
    assert (x^2 + (y^2 + (z^2 + 0)) <> 0) by lra.
    assert (E <> 0) by lra.
    repeat split;
      try match goal with
          | |- 0 < ?t => replace t with (1 + - (x^2 + y^2 + z^2) / E^2) by (field; lra); assumption
          end; try assumption; try lra.
  Qed.

  Lemma boost_lorentz : mmul (mmul (transpose B) etaM) B = etaM.
  Proof.
    destruct Ht as [HE Hm]. unfold moving in Hp.
    unfold B, boost_explicit, envP. mat_simpl. den_simpl.
    intro_mass E x y z HE Hm.
    mat_eq; fse; elimE2; ring.
  Qed.

  Lemma boost_rest : mvec B [E; x; y; z] = [massR E x y z; 0; 0; 0].
  Proof.
    destruct Ht as [HE Hm]. unfold moving in Hp.
    unfold B, boost_explicit, envP, massR. mat_simpl. den_simpl.
    intro_mass E x y z HE Hm.
    mat_eq; fse; elimE2; ring.
  Qed.

  Lemma boost_00 : 1 <= entry00 B.
  Proof.
    destruct Ht as [HE Hm]. unfold moving in Hp.
    unfold B, boost_explicit, envP. mat_simpl. den_simpl.
    intro_mass E x y z HE Hm.
    replace (/ (m / E) ^ 1) with (E / m) by (field; lra).
    apply Rmult_le_reg_r with m; [lra|]. replace (E / m * m) with E by (field; lra).
    assert (m^2 <= E^2) by nra. nra.
  Qed.

  Lemma boost_det : det4 B = 1.
  Proof.
    destruct Ht as [HE Hm]. unfold moving in Hp.
    unfold B, boost_explicit, envP. mat_simpl. den_simpl.
    intro_mass E x y z HE Hm.
    fse. elimE2. ring.
  Qed.

  Lemma boost_inverse :
    mmul (denM (envP E (-x) (-y) (-z)) boost_explicit) B = idM.
  Proof.
    destruct Ht as [HE Hm]. unfold moving in Hp.
    unfold B, boost_explicit, envP. mat_simpl. den_simpl.
    replace ((- x) ^ 2) with (x ^ 2) by ring.
    replace ((- y) ^ 2) with (y ^ 2) by ring.
    replace ((- z) ^ 2) with (z ^ 2) by ring.
    intro_mass E x y z HE Hm.
    mat_eq; fse; elimE2; ring.
  Qed.

  (* generated NumPy code = explicit matrix, with and without cse *)
  Lemma boost_numpy_cse_eq : denM (envP E x y z) boost_numpy_cse = B.
  Proof.
    destruct Ht as [HE Hm]. unfold moving in Hp.
    unfold B, boost_numpy_cse, boost_explicit, envP. mat_simpl. den_simpl.
    intro_mass E x y z HE Hm.
    mat_eq; try reflexivity; (field; repeat split; lra).
  Qed.
  Lemma boost_numpy_nocse_eq : denM (envP E x y z) boost_numpy_nocse = B.
  Proof.
    destruct Ht as [HE Hm]. unfold moving in Hp.
    unfold B, boost_numpy_nocse, boost_explicit, envP. mat_simpl. den_simpl.
    intro_mass E x y z HE Hm.
    mat_eq; try reflexivity; (field; repeat split; lra).
  Qed.
End Boost.

(* at rest the code divides by beta^2 = 0: the expression is undefined (nan in NumPy) *)
Lemma boost_undefined_at_rest E : 0 < E -> ~ wdM (envP E 0 0 0) boost_explicit.
Proof.
  intros HE. unfold boost_explicit, envP. mat_simpl. den_simpl. intros H.
  repeat match goal with H : _ /\ _ |- _ => destruct H end.
  repeat match goal with
         | H : ?t <> 0 |- _ =>
             first [ (assert (t = 0) by (field; lra)); contradiction | clear H ]
         end.
Qed.

(* ---------- z boost ---------- *)
Section BoostZ.
  Variable b : R.
  Hypothesis Hb : -1 < b < 1.
  Let Bz := denM (envB b) boostz_explicit.

  Lemma b2_lt_1 : b ^ 2 < 1. Proof. nra. Qed.

  Ltac pick_branch :=
    unfold Rltb, Rleb;
    repeat match goal with
           | |- context [Rlt_dec ?a ?c] => destruct (Rlt_dec a c); [exfalso; nra|]
           | |- context [Rle_dec ?a ?c] => destruct (Rle_dec a c); [exfalso; nra|]
           end; cbn [b2R];
    repeat match goal with
           | |- context [Req_EM_T ?a ?c] => destruct (Req_EM_T a c); [|exfalso; lra]
           end;
    repeat match goal with
           | |- context [Req_EM_T 1 0] => destruct (Req_EM_T 1 0); [exfalso; lra|]
           end.

  Ltac intro_g :=
    let s := fresh "s" in
    repeat match goal with
    | |- context [sqrt ?t] =>
        lazymatch t with (1 - b^2) => fail | _ => replace t with (1 - b^2) by (field; lra) end
    end;
    set (s := sqrt (1 - b^2));
    assert (0 < s) by (apply sqrt_lt_R0; nra);
    assert (s ^ 2 = 1 - b^2) by (unfold s; apply pow2_sqrt; nra);
    clearbody s.

  Lemma boostz_wd : wdM (envB b) boostz_explicit.
  Proof.
    pose proof b2_lt_1 as H2.
    unfold boostz_explicit, envB. mat_simpl. den_simpl.
    repeat match goal with
           | |- _ /\ _ => split
           | |- True => exact I
           | |- context [Req_EM_T ?a ?c] => destruct (Req_EM_T a c)
           end; try exact I; try lra; try nra;
    unfold Rltb, Rleb in *;
    repeat match goal with
           | H : context [Rlt_dec ?a ?c] |- _ => destruct (Rlt_dec a c); cbn [b2R] in H
           end; try lra; try nra.
  Qed.

  Lemma boostz_lorentz : mmul (mmul (transpose Bz) etaM) Bz = etaM.
  Proof.
    pose proof b2_lt_1 as H2.
    unfold Bz, boostz_explicit, envB. mat_simpl. den_simpl. pick_branch. intro_g.
    assert (Hb2 : b ^ 2 = 1 - s ^ 2) by lra.
    mat_eq; fse; rewrite ?Hb2; ring.
  Qed.

  Lemma boostz_det : det4 Bz = 1.
  Proof.
    pose proof b2_lt_1 as H2.
    unfold Bz, boostz_explicit, envB. mat_simpl. den_simpl. pick_branch. intro_g.
    assert (Hb2 : b ^ 2 = 1 - s ^ 2) by lra.
    fse. rewrite ?Hb2. ring.
  Qed.

  Lemma boostz_00 : 1 <= entry00 Bz.
  Proof.
    pose proof b2_lt_1 as H2.
    unfold Bz, boostz_explicit, envB. mat_simpl. den_simpl. pick_branch. intro_g.
    assert (s <= 1) by nra.
    replace (/ s ^ 1) with (/ s) by (field; lra).
    rewrite <- Rinv_1 at 1. apply Rinv_le_contravar; lra.
  Qed.

  Lemma boostz_numpy_cse_eq : denM (envB b) boostz_numpy_cse = Bz.
  Proof.
    pose proof b2_lt_1 as H2.
    unfold Bz, boostz_numpy_cse, boostz_explicit, envB. mat_simpl. den_simpl. pick_branch. intro_g.
    mat_eq; try reflexivity; (field; repeat split; lra).
  Qed.
  Lemma boostz_numpy_nocse_eq : denM (envB b) boostz_numpy_nocse = Bz.
  Proof.
    pose proof b2_lt_1 as H2.
    unfold Bz, boostz_numpy_nocse, boostz_explicit, envB. mat_simpl. den_simpl. pick_branch. intro_g.
    mat_eq; try reflexivity; (field; repeat split; lra).
  Qed.
End BoostZ.

(* the general boost of a momentum along z is the z boost with beta = pz/E *)
Lemma boost_z_direction E z : timelike E 0 0 z -> z <> 0 ->
  denM (envP E 0 0 z) boost_explicit = denM (envB (z / E)) boostz_explicit.
Proof.
  intros [HE Hm] Hz.
  assert (Hb : -1 < z / E < 1).
  { assert (z^2 < E^2) by lra. assert (-E < z < E) by nra.
    split; [apply Rmult_lt_reg_r with E | apply Rmult_lt_reg_r with E]; try lra;
      replace (z / E * E) with z by (field; lra); lra. }
  assert (Hb2 : (z / E) ^ 2 < 1) by nra.
  unfold boost_explicit, boostz_explicit, envP, envB. mat_simpl. den_simpl.
  unfold Rltb, Rleb.
  repeat match goal with
         | |- context [Rlt_dec ?a ?c] => destruct (Rlt_dec a c); [exfalso; nra|]
         end; cbn [b2R].
  repeat match goal with
         | |- context [Req_EM_T ?a ?c] => destruct (Req_EM_T a c); [|exfalso; lra]
         end.
  repeat match goal with
         | |- context [Req_EM_T 1 0] => destruct (Req_EM_T 1 0); [exfalso; lra|]
         end.
  repeat match goal with
  | |- context [sqrt ?t] =>
      lazymatch t with (E^2 - z^2) => fail | _ =>
        replace (sqrt t) with (sqrt (E^2 - z^2) / E)
          by (replace (E^2 - z^2) with (E^2 - 0^2 - 0^2 - z^2) by ring;
              rewrite <- (sqrt_beta E 0 0 z HE Hm); f_equal; field; lra) end
  end.
  set (m := sqrt (E^2 - z^2)).
  assert (0 < m) by (apply sqrt_lt_R0; lra).
  assert (z ^ 2 <> 0) by (apply pow_nonzero; exact Hz).
  mat_eq; try reflexivity; (field; repeat split; lra).
Qed.

(* ---------- rotations ---------- *)
Ltac trig a :=
  let c := fresh "c" in let s := fresh "s" in
  pose proof (sin2_cos2 a) as Hsc; unfold Rsqr in Hsc;
  set (c := cos a) in *; set (s := sin a) in *;
  assert (Hs2 : s ^ 2 = 1 - c ^ 2) by (simpl; lra); clearbody c s.

Lemma roty_wd a : wdM (envA a) roty_explicit.
Proof. unfold roty_explicit, envA. mat_simpl. den_simpl. repeat split. Qed.
Lemma rotz_wd a : wdM (envA a) rotz_explicit.
Proof. unfold rotz_explicit, envA. mat_simpl. den_simpl. repeat split. Qed.

Lemma roty_lorentz a :
  mmul (mmul (transpose (denM (envA a) roty_explicit)) etaM) (denM (envA a) roty_explicit) = etaM.
Proof.
  unfold roty_explicit, envA. mat_simpl. den_simpl. trig a.
  mat_eq; first [ring | nra].
Qed.
Lemma rotz_lorentz a :
  mmul (mmul (transpose (denM (envA a) rotz_explicit)) etaM) (denM (envA a) rotz_explicit) = etaM.
Proof.
  unfold rotz_explicit, envA. mat_simpl. den_simpl. trig a.
  mat_eq; first [ring | nra].
Qed.
Lemma roty_det a : det4 (denM (envA a) roty_explicit) = 1.
Proof.
  unfold roty_explicit, envA. mat_simpl. den_simpl. trig a. first [ring | nra].
Qed.
Lemma rotz_det a : det4 (denM (envA a) rotz_explicit) = 1.
Proof.
  unfold rotz_explicit, envA. mat_simpl. den_simpl. trig a. first [ring | nra].
Qed.
Lemma roty_00 a : entry00 (denM (envA a) roty_explicit) = 1.
Proof. unfold roty_explicit, envA. mat_simpl. den_simpl. field. Qed.
Lemma rotz_00 a : entry00 (denM (envA a) rotz_explicit) = 1.
Proof. unfold rotz_explicit, envA. mat_simpl. den_simpl. field. Qed.

Lemma roty_add a b :
  mmul (denM (envA a) roty_explicit) (denM (envA b) roty_explicit) = denM (envA (a + b)) roty_explicit.
Proof.
  unfold roty_explicit, envA. mat_simpl. den_simpl. rewrite ?cos_plus, ?sin_plus.
  mat_eq; field.
Qed.
Lemma rotz_add a b :
  mmul (denM (envA a) rotz_explicit) (denM (envA b) rotz_explicit) = denM (envA (a + b)) rotz_explicit.
Proof.
  unfold rotz_explicit, envA. mat_simpl. den_simpl. rewrite ?cos_plus, ?sin_plus.
  mat_eq; field.
Qed.
Lemma roty_zero : denM (envA 0) roty_explicit = idM.
Proof.
  unfold roty_explicit, envA. mat_simpl. den_simpl. rewrite ?cos_0, ?sin_0. mat_eq; field.
Qed.
Lemma rotz_zero : denM (envA 0) rotz_explicit = idM.
Proof.
  unfold rotz_explicit, envA. mat_simpl. den_simpl. rewrite ?cos_0, ?sin_0. mat_eq; field.
Qed.
Lemma roty_inverse a : mmul (denM (envA (- a)) roty_explicit) (denM (envA a) roty_explicit) = idM.
Proof. rewrite roty_add. replace (- a + a) with 0 by ring. apply roty_zero. Qed.
Lemma rotz_inverse a : mmul (denM (envA (- a)) rotz_explicit) (denM (envA a) rotz_explicit) = idM.
Proof. rewrite rotz_add. replace (- a + a) with 0 by ring. apply rotz_zero. Qed.

Lemma roty_numpy_eq a :
  denM (envA a) roty_numpy_cse = denM (envA a) roty_explicit /\
  denM (envA a) roty_numpy_nocse = denM (envA a) roty_explicit.
Proof.
  unfold roty_numpy_cse, roty_numpy_nocse, roty_explicit, envA. mat_simpl. den_simpl.
  split; mat_eq; field.
Qed.
Lemma rotz_numpy_eq a :
  denM (envA a) rotz_numpy_cse = denM (envA a) rotz_explicit /\
  denM (envA a) rotz_numpy_nocse = denM (envA a) rotz_explicit.
Proof.
  unfold rotz_numpy_cse, rotz_numpy_nocse, rotz_explicit, envA. mat_simpl. den_simpl.
  split; mat_eq; field.
Qed.

(* rotations with a compound angle argument: the generated code is the rotation by the value of the argument *)
Definition envAC (a c : R) : env := env_of [("a", a); ("c", c)].
Ltac unify_trig_args :=
  repeat match goal with
         | |- ?lhs = ?rhs =>
             match lhs with context [cos ?x] =>
               match rhs with context [cos ?y] => tryif constr_eq x y then fail else (replace x with y by field) end end
         | |- ?lhs = ?rhs =>
             match lhs with context [sin ?x] =>
               match rhs with context [sin ?y] => tryif constr_eq x y then fail else (replace x with y by field) end end
         end.
Ltac compound_entry :=
  rewrite ?cos_neg, ?sin_neg;
  first [ reflexivity | field
        | (unify_trig_args; first [reflexivity | field])
        | (rewrite ?cos_plus, ?sin_plus, ?cos_minus, ?sin_minus; field) ].
Ltac compound_rot :=
  unfold envAC, envA; mat_simpl; den_simpl;
  repeat match goal with |- _ /\ _ => split end;
  mat_eq; compound_entry.
Lemma rot_compound_numpy_eq a c :
  (denM (envAC a c) roty_sum_numpy_cse = denM (envA (a + c)) roty_explicit /\
   denM (envAC a c) roty_sum_numpy_nocse = denM (envA (a + c)) roty_explicit /\
   denM (envAC a c) rotz_sum_numpy_cse = denM (envA (a + c)) rotz_explicit /\
   denM (envAC a c) rotz_sum_numpy_nocse = denM (envA (a + c)) rotz_explicit) /\
  (denM (envAC a c) roty_diff_numpy_cse = denM (envA (a - c)) roty_explicit /\
   denM (envAC a c) roty_diff_numpy_nocse = denM (envA (a - c)) roty_explicit /\
   denM (envAC a c) rotz_diff_numpy_cse = denM (envA (a - c)) rotz_explicit /\
   denM (envAC a c) rotz_diff_numpy_nocse = denM (envA (a - c)) rotz_explicit) /\
  (denM (envAC a c) roty_triple_numpy_cse = denM (envA (3 * a)) roty_explicit /\
   denM (envAC a c) roty_triple_numpy_nocse = denM (envA (3 * a)) roty_explicit /\
   denM (envAC a c) rotz_triple_numpy_cse = denM (envA (3 * a)) rotz_explicit /\
   denM (envAC a c) rotz_triple_numpy_nocse = denM (envA (3 * a)) rotz_explicit) /\
  (denM (envAC a c) roty_neg_numpy_cse = denM (envA (- a)) roty_explicit /\
   denM (envAC a c) roty_neg_numpy_nocse = denM (envA (- a)) roty_explicit /\
   denM (envAC a c) rotz_neg_numpy_cse = denM (envA (- a)) rotz_explicit /\
   denM (envAC a c) rotz_neg_numpy_nocse = denM (envA (- a)) rotz_explicit).
Proof.
  unfold roty_sum_numpy_cse, roty_sum_numpy_nocse, rotz_sum_numpy_cse, rotz_sum_numpy_nocse,
    roty_diff_numpy_cse, roty_diff_numpy_nocse, rotz_diff_numpy_cse, rotz_diff_numpy_nocse,
    roty_triple_numpy_cse, roty_triple_numpy_nocse, rotz_triple_numpy_cse, rotz_triple_numpy_nocse,
    roty_neg_numpy_cse, roty_neg_numpy_nocse, rotz_neg_numpy_cse, rotz_neg_numpy_nocse,
    roty_explicit, rotz_explicit.
  compound_rot.
Qed.

(* ---------- metric and space inversion ---------- *)
Lemma metric_numpy_eq E x y z :
  denM (envP E x y z) metric_numpy = etaM /\ denM (envP E x y z) metric_explicit = etaM.
Proof.
  unfold metric_numpy, metric_explicit, envP. mat_simpl. den_simpl. split; mat_eq; field.
Qed.
Lemma negp_numpy E x y z :
  denV (envP E x y z) negp_cse = [E; -x; -y; -z] /\ denV (envP E x y z) negp_nocse = [E; -x; -y; -z].
Proof.
  unfold negp_cse, negp_nocse, envP. mat_simpl. den_simpl. split; mat_eq; field.
Qed.
