(* C15_lemmas.v — unpickling contract on the regenerated class table. *)
From Coq Require Import String List ZArith QArith Bool.
From AV Require Import Uneval Uneval_proofs.
From AVchk Require Import ClassTable.
Import ListNotations.
Open Scope string_scope.

Definition T := gen_table.
Lemma gen_wf : wf_table T = true.
Proof. vm_compute. reflexivity. Qed.

Definition cBZ := "ampform.kinematics.lorentz.BoostZMatrix".
Definition cAS := "ampform.kinematics.lorentz.ArraySize".
Definition cEN := "ampform.kinematics.lorentz.EuclideanNorm".
Definition cTM := "ampform.kinematics.lorentz.ThreeMomentum".
Definition cEDW := "ampform.dynamics.EnergyDependentWidth".
Definition sy (n : string) : expr := Sym ("Symbol('" ++ n ++ "')").

Lemma l_rebuild_id e : wfi T e = true -> rebuild T Shallow e = e.
Proof. apply rebuild_shallow_id. Qed.

Lemma l_new_idempotent c ci es ats :
  lookup T c = Some ci -> length es = nsym ci -> length ats = nattr ci ->
  new T c (get_arguments T Shallow (Unev c es ats)) = Unev c es ats.
Proof. intros L He Ha. unfold get_arguments. rewrite L. apply new_interleave; auto. Qed.

Lemma l_rebuild_model m : wf_model T m = true -> rebuild_model T Shallow m = m.
Proof. apply rebuild_model_id. Qed.

Lemma neq_of_eqb a b : expr_eqb a b = false -> a <> b.
Proof. intros H E. apply expr_eqb_eq in E. congruence. Qed.

(* BoostZMatrix(b, ArraySize(p0)) -> BoostZMatrix(b, Tuple(p0)) *)
Definition w_bz : expr := Unev cBZ [sy "b"; Unev cAS [sy "p0"] []] [].
Lemma l_deep_refuted :
  wfi T w_bz = true /\ rebuild T Deep w_bz <> w_bz /\
  rebuild T Deep w_bz = Unev cBZ [sy "b"; App "sympy.core.containers.Tuple" [sy "p0"]] [].
Proof.
  split; [vm_compute; reflexivity|]. split; [apply neq_of_eqb; vm_compute; reflexivity | vm_compute; reflexivity].
Qed.

(* EuclideanNorm(ThreeMomentum(p)) -> EuclideanNorm(Tuple(p)) *)
Definition w_en : expr := Unev cEN [Unev cTM [sy "p"] []] [].
Lemma l_deep_refuted2 :
  wfi T w_en = true /\ rebuild T Deep w_en = Unev cEN [App "sympy.core.containers.Tuple" [sy "p"]] [].
Proof. split; vm_compute; reflexivity. Qed.

(* non-vacuity: an instance with non-SymPy attributes (a class and a string) and nested instances *)
Definition w_edw : expr :=
  Unev cEDW [sy "s"; sy "m0"; sy "w0"; sy "ma"; sy "mb"; Num 1; Num 1]
       [ACls "ampform.dynamics.phasespace.PhaseSpaceFactorSWave"; AStr "Gamma"].
Definition w_model : model :=
  {| m_reaction_info := "reaction";
     m_intensity := App "ampform.sympy.PoolSum" [w_edw];
     m_amplitudes := [(sy "A1", w_edw); (sy "A0", w_bz)];
     m_parameter_defaults := [(sy "m0", Num (3 # 2))];
     m_kinematic_variables := [(sy "theta", w_en); (sy "m_12", w_bz)];
     m_components := [("I", w_edw)] |}.
Lemma ex_wf : wfi T w_edw = true /\ wf_model T w_model = true /\
              expr_eqb (rebuild T Shallow w_edw) w_edw = true.
Proof. repeat split; vm_compute; reflexivity. Qed.
