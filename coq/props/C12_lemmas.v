(* C12 — lemmas about the lineshape trees regenerated from /repo (Gen_C12). *)
From AV Require Import DenC Lineshape.
From AVchk Require Import Gen_C12.
From Coq Require Import Lra Lia Psatz QArith.
Open Scope R_scope.
Open Scope C_scope.

Lemma Cmult_neq_l (a b : C) : a * b <> 0 -> a <> 0.
Proof. intros H E. apply H. rewrite E. ring. Qed.
Lemma Cmult_neq_r (a b : C) : a * b <> 0 -> b <> 0.
Proof. intros H E. apply H. rewrite E. ring. Qed.

Ltac split_hyps :=
  repeat match goal with
         | H : _ /\ _ |- _ => destruct H
         | H : True |- _ => clear H
         end.
Ltac neq_factors :=
  repeat match goal with
         | H : ?a * ?b <> 0 |- _ =>
             let H1 := fresh "Hn" in let H2 := fresh "Hn" in
             pose proof (Cmult_neq_l a b H) as H1; pose proof (Cmult_neq_r a b H) as H2; clear H
         end.

(* ---------- energy-dependent width at the pole ---------- *)
Definition env_pole (f : string -> list C -> C) (m0 g0 ma mb L d : C) : envC :=
  envC_of [("s", m0 * m0); ("m0", m0); ("g0", g0); ("ma", ma); ("mb", mb); ("L", L); ("d", d)] f.

Definition width_at_pole (t : expr) : Prop :=
  forall f m0 g0 ma mb L d,
    wdC (env_pole f m0 g0 ma mb L d) t -> denC (env_pole f m0 g0 ma mb L d) t = g0.

Ltac solve_width :=
  unfold width_at_pole, env_pole; intros f m0 g0 ma mb L d; cbn [snd]; denC_simpl;
  intros Hwd; split_hyps; neq_factors; field; repeat split; assumption.

Lemma edw_width_at_pole : Forall (fun nt => width_at_pole (snd nt)) gen_edw.
Proof. unfold gen_edw. repeat constructor; solve_width. Qed.

(* the marker instance: defined exactly when the form factor and the phase-space factor
   do not vanish at the pole *)
Lemma edw_marker_defined (f : string -> list C -> C) (m0 g0 ma mb L d : C) :
  f "FormFactor" [m0 * m0; ma; mb; L; d] <> 0 -> f "rhoX" [m0 * m0; ma; mb] <> 0 ->
  match gen_edw with
  | (_, t) :: _ => wdC (env_pole f m0 g0 ma mb L d) t
  | [] => False
  end.
Proof.
  intros Hff Hrho. unfold gen_edw, env_pole. denC_simpl.
  repeat split; try exact I; try assumption;
    try (apply Cmult_neq_0; assumption).
Qed.

(* ---------- numbers inserted before evaluate() ---------- *)
(* The width tree built from exact numbers that coincide with other arguments (s = d, s = L, ...) is the symbolic
   tree at those values: same definedness, same value, for every interpretation of FormFactor and of the
   phase-space factor and all values of the remaining symbols. *)
Definition inst_env (assign : list (string * Q)) (f : string -> list C -> C) (s m0 g0 ma mb L d : C) : envC :=
  envC_of (map (fun kq => (fst kq, Q2C (snd kq))) assign
           ++ [("s", s); ("m0", m0); ("g0", g0); ("ma", ma); ("mb", mb); ("L", L); ("d", d)]) f.

Definition numeric_first_ok (it : string * list (string * Q) * expr * expr) : Prop :=
  let '(_, assign, sym_tree, num_tree) := it in
  forall f s m0 g0 ma mb L d,
    let ρ := inst_env assign f s m0 g0 ma mb L d in
    (wdC ρ sym_tree <-> wdC ρ num_tree) /\ (wdC ρ sym_tree -> denC ρ num_tree = denC ρ sym_tree).

Ltac solve_numfirst :=
  unfold numeric_first_ok, inst_env; intros f s m0 g0 ma mb L d; cbn [map fst snd app];
  denC_simpl; split;
  [ timeout 20 tauto
  | intros Hwd; first [ reflexivity | timeout 20 (split_hyps; neq_factors; field; repeat split; assumption) ] ].

Lemma edw_numeric_first : Forall numeric_first_ok gen_edw_numeric_first.
Proof. unfold gen_edw_numeric_first. repeat (constructor; [solve_numfirst|]). constructor. Qed.

(* ---------- builder API = function API ---------- *)
Definition same_function (a b : expr) : Prop :=
  forall ρ, (wdC ρ a <-> wdC ρ b) /\ (wdC ρ b -> denC ρ a = denC ρ b).

Lemma same_refl a : same_function a a.
Proof. intros ρ. split; [tauto|reflexivity]. Qed.

Lemma builder_pairs_syntactic :
  forallb (fun p => expr_eqb (snd (fst p)) (snd p)) gen_builder_pairs = true.
Proof. vm_compute. reflexivity. Qed.

Lemma builder_eq_function :
  Forall (fun p => same_function (snd (fst p)) (snd p)) gen_builder_pairs.
Proof.
  apply Forall_forall. intros p Hin.
  pose proof builder_pairs_syntactic as H. rewrite forallb_forall in H.
  specialize (H p Hin). apply expr_eqb_eq in H. rewrite H. apply same_refl.
Qed.

Lemma builder_defaults : gen_builder_defaults_ok = true.
Proof. reflexivity. Qed.

(* ---------- Blatt-Weisskopf: fast polynomial path ---------- *)
Close Scope C_scope.
Open Scope R_scope.
Definition envz (z : R) : env := env_of [("z", z)].

Definition bw_item_ok (it : nat * expr * (Z * list Z)) : Prop :=
  let '(L, t, (c, ds)) := it in
  (length ds = S L /\ last ds 0%Z = 1%Z /\ all_pos ds = true /\ c = sumZ ds /\ (0 < c)%Z) /\
  (forall z, 0 <= z -> wdR (envz z) t /\ denR (envz z) t * horner ds z = IZR c * z ^ L) /\
  (forall z, 0 < z -> bw_rat L c ds z = bw_hankel L z).

Ltac pow_facts z Hz :=
  pose proof (pow_le z 1 Hz); pose proof (pow_le z 2 Hz); pose proof (pow_le z 3 Hz); pose proof (pow_le z 4 Hz); pose proof (pow_le z 5 Hz);
  pose proof (pow_le z 6 Hz); pose proof (pow_le z 7 Hz); pose proof (pow_le z 8 Hz); pose proof (pow_le z 9 Hz);
  pose proof (pow_le z 10 Hz); pose proof (pow_le z 11 Hz); pose proof (pow_le z 12 Hz); pose proof (pow_le z 13 Hz);
  pose proof (pow_le z 14 Hz); pose proof (pow_le z 15 Hz); pose proof (pow_le z 16 Hz); pose proof (pow_le z 17 Hz);
  pose proof (pow_le z 18 Hz); pose proof (pow_le z 19 Hz); pose proof (pow_le z 20 Hz); pose proof (pow_le z 21 Hz); pose proof (pow_le z 22 Hz).

Ltac pos_poly r := apply Rgt_not_eq; ring_simplify; lra.

Ltac bw_item :=
  unfold bw_item_ok; split; [|split];
  [ vm_compute; repeat split; reflexivity
  | let z := fresh "z" in let Hz := fresh "Hz" in
    intros z Hz; unfold envz; pow_facts z Hz; den_simpl; cbn [horner];
    split; [ repeat split; try exact I; lra | field; lra ]
  | let z := fresh "z" in let Hz := fresh "Hz" in
    intros z Hz; unfold bw_rat, bw_hankel, hmod2;
    match goal with |- context [hk_coefs ?L] =>
      let cs := eval vm_compute in (hk_coefs L) in change (hk_coefs L) with cs end;
    cbn [hk_re hk_im Nat.modulo Nat.divmod Nat.sub fst snd horner];
    let Hr := fresh "Hr" in let Hz2 := fresh "Hz2" in let r := fresh "r" in let Er := fresh "Er" in
    assert (Hr : 0 < sqrt z) by (apply sqrt_lt_R0; exact Hz);
    assert (Hz2 : z = (sqrt z)^2) by (symmetry; apply pow2_sqrt; lra);
    remember (sqrt z) as r eqn:Er; rewrite Hz2; clear Hz2 Er Hz;
    assert (Hr0 : 0 <= r) by lra; pow_facts r Hr0;
    field; repeat split; try lra; pos_poly r ].

Lemma bw_all : Forall bw_item_ok gen_bw.
Proof. unfold gen_bw. repeat (apply Forall_cons; [bw_item|]). apply Forall_nil. Qed.

(* what the property asks of B_L^2, derived from an item with the generic lemmas of Lineshape.v *)
Definition bw_props (it : nat * expr * (Z * list Z)) : Prop :=
  let '(L, t, (c, ds)) := it in
  let B := fun z => denR (envz z) t in
  (forall z, 0 <= z -> wdR (envz z) t) /\
  B 1 = 1 /\
  (forall z, 0 <= z -> 0 <= B z <= IZR c) /\
  (forall z, 0 <= z -> B z = z ^ L * bw_residual c ds z) /\
  0 < bw_residual c ds 0 /\
  (forall z, 0 <= z -> continuity_pt (bw_residual c ds) z) /\
  (forall z, 0 < z -> B z = bw_hankel L z).

Lemma bw_item_props it : bw_item_ok it -> bw_props it.
Proof.
  destruct it as [[L t] [c ds]]. unfold bw_item_ok, bw_props.
  intros [[Hlen [Hlast [Hpos [Hc Hc0]]]] [Hden Hhank]].
  assert (Hne : ds <> []) by (destruct ds; [discriminate|discriminate]).
  assert (Hrat : forall z, 0 <= z -> denR (envz z) t = bw_rat L c ds z).
  { intros z Hz. destruct (Hden z Hz) as [_ E]. unfold bw_rat.
    pose proof (horner_pos ds z Hne Hpos Hz) as Hh.
    apply Rmult_eq_reg_r with (horner ds z); [|lra]. rewrite E. field. lra. }
  repeat split.
  - intros z Hz. apply (Hden z Hz).
  - rewrite Hrat by lra. apply bw_rat_one; assumption.
  - rewrite Hrat by assumption. apply (bw_rat_bounded L c ds z Hlen Hlast Hpos Hc0 H).
  - rewrite Hrat by assumption. apply (bw_rat_bounded L c ds z Hlen Hlast Hpos Hc0 H).
  - intros z Hz. rewrite Hrat by assumption. apply bw_rat_threshold.
  - destruct ds as [|d ds']; [contradiction|]. apply bw_residual_0; [assumption|].
    cbn [all_pos forallb] in Hpos. apply andb_true_iff in Hpos as [Hd _]. apply Z.ltb_lt. exact Hd.
  - intros z Hz. apply bw_residual_continuous; assumption.
  - intros z Hz. rewrite Hrat by lra. apply Hhank. exact Hz.
Qed.

Lemma bw_all_props : Forall bw_props gen_bw.
Proof. eapply Forall_impl; [apply bw_item_props | apply bw_all]. Qed.
