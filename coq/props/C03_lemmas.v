(* C03_lemmas.v — proofs for the "equivalently" clause: the Clebsch-Gordan expansion of the
   canonical formalism reverses sign by exactly eta when both daughter helicities of a node are
   reversed.  CG is a Section variable (SymPy's CG(...).doit()); its reflection symmetry is the
   Section hypothesis CG_flip, validated exactly against SymPy for all j <= 3 by the harness. *)
From Coq Require Import ZArith List Reals Lra Lia Bool.
From Coquelicot Require Import Complex.
From AV Require Import Naming Naming_proofs NamingCG.
Import ListNotations.

(* ---------- (-1)^k ---------- *)
Lemma sgn_sq k : (sgn k * sgn k = 1)%R.
Proof. unfold sgn. destruct (Z.even k); lra. Qed.
Lemma sgn_add a b : (sgn a * sgn b = sgn (a + b))%R.
Proof. unfold sgn. rewrite Z.even_add. destruct (Z.even a), (Z.even b); simpl; lra. Qed.
Lemma sgn_congr a b : Z.even (a - b) = true -> sgn a = sgn b.
Proof.
  unfold sgn. rewrite Z.even_sub. destruct (Z.even a), (Z.even b); simpl; intro H; try reflexivity; discriminate.
Qed.
Lemma even_half x : Z.even x = true -> (x = 2 * (x / 2))%Z.
Proof. intro H. apply Z.even_spec in H. destruct H as [k ->]. rewrite Z.mul_comm, Z.div_mul by lia. lia. Qed.
Lemma IZR_pm1_sq z : (z = 1 \/ z = -1)%Z -> (IZR z * IZR z = 1)%R.
Proof. intros [-> | ->]; lra. Qed.

Section Canon.
  Variable CG : Z -> Z -> Z -> Z -> Z -> Z -> R.
  Hypothesis CG_flip : forall j1 m1 j2 m2 J M : Z,
    Z.even (j1 + j2 - J) = true ->
    CG j1 (- m1) j2 (- m2) J (- M) = (sgn ((j1 + j2 - J) / 2) * CG j1 m1 j2 m2 J M)%R.

  Lemma cgprod_flip n L S :
    Z.even (L + S - cg_J n) = true -> Z.even (cg_s1 n + cg_s2 n - S) = true ->
    cgprod CG (flipn n) L S
    = (sgn ((L + S - cg_J n) / 2) * sgn ((cg_s1 n + cg_s2 n - S) / 2) * cgprod CG n L S)%R.
  Proof.
    intros H1 H2. unfold cgprod, flipn, cg_delta. cbn [cg_J cg_s1 cg_s2 cg_l1 cg_l2].
    replace (- cg_l1 n - - cg_l2 n)%Z with (- (cg_l1 n - cg_l2 n))%Z by lia.
    pose proof (CG_flip L 0 S (cg_l1 n - cg_l2 n) (cg_J n) (cg_l1 n - cg_l2 n) H1) as A.
    change (- 0)%Z with 0%Z in A. rewrite A.
    rewrite (CG_flip (cg_s1 n) (cg_l1 n) (cg_s2 n) (- cg_l2 n) S (cg_l1 n - cg_l2 n) H2).
    ring.
  Qed.

  (* the sign of one parity-conserving LS alternative is eta, whatever L and S are *)
  Lemma ls_sign_is_eta n par L S :
    pm1par par -> wf_ls n par L S ->
    (sgn ((L + S - cg_J n) / 2) * sgn ((cg_s1 n + cg_s2 n - S) / 2))%R = eta_formula n par.
  Proof.
    destruct par as [[P P1] P2]. unfold pm1par, wf_ls, eta_formula.
    intros (HP & HP1 & HP2) (E1 & E2 & E3 & HPar).
    assert (E4 : Z.even (cg_J n - cg_s1 n - cg_s2 n) = true).
    { remember (L + S - cg_J n)%Z as x eqn:Hx. remember (cg_s1 n + cg_s2 n - S)%Z as y eqn:Hy.
      replace (cg_J n - cg_s1 n - cg_s2 n)%Z with (L - x - y)%Z by lia.
      rewrite !Z.even_sub, E1, E2, E3. reflexivity. }
    pose proof (even_half _ E1) as D1. pose proof (even_half _ E2) as D2.
    pose proof (even_half _ E3) as D3. pose proof (even_half _ E4) as D4.
    set (l := (L / 2)%Z) in *. set (a := ((L + S - cg_J n) / 2)%Z) in *.
    set (b := ((cg_s1 n + cg_s2 n - S) / 2)%Z) in *.
    set (c := ((cg_J n - cg_s1 n - cg_s2 n) / 2)%Z) in *.
    rewrite HPar.
    transitivity ((IZR P1 * IZR P1) * (IZR P2 * IZR P2) * (sgn l * sgn c))%R.
    - rewrite (IZR_pm1_sq _ HP1), (IZR_pm1_sq _ HP2), !sgn_add.
      rewrite !Rmult_1_l. apply sgn_congr.
      replace (a + b - (l + c))%Z with (2 * (a + b - l))%Z by lia.
      rewrite Z.even_mul. reflexivity.
    - ring.
  Qed.

  Lemma cgprod_flip_eta n par L S :
    pm1par par -> wf_ls n par L S ->
    cgprod CG (flipn n) L S = (eta_formula n par * cgprod CG n L S)%R.
  Proof.
    intros Hp Hw. rewrite <- (ls_sign_is_eta n par L S Hp Hw).
    destruct par as [[P P1] P2]. destruct Hw as (_ & E2 & E3 & _).
    now apply cgprod_flip.
  Qed.

  (* one node, sum over all its LS alternatives, arbitrary complex LS coefficients *)
  Theorem canonical_equivalence_node_proof :
    forall n par (terms : list (C * (Z * Z))),
      pm1par par ->
      Forall (fun t => wf_ls n par (fst (snd t)) (snd (snd t))) terms ->
      node_amp CG (flipn n) terms = Cmult (RtoC (eta_formula n par)) (node_amp CG n terms).
  Proof.
    intros n par terms Hp HF. induction HF as [|t r Ht HF IH]; simpl.
    - ring.
    - rewrite IH. rewrite (cgprod_flip_eta n par _ _ Hp Ht). rewrite RtoC_mult. ring.
  Qed.

  (* chains: any number of nodes, helicities reversed at the nodes flagged in F *)
  Lemma cgchain_flip :
    forall F ns pars ls, wf_chain F ns pars ls ->
      cgchain CG (flip_nodes F ns) ls = (eta_prod F ns pars * cgchain CG ns ls)%R.
  Proof.
    induction F as [|b F IH]; intros ns pars ls Hw.
    - simpl. destruct ns; simpl; ring.
    - destruct ns as [|n ns].
      + simpl. ring.
      + destruct pars as [|p pars]; [simpl in Hw; destruct ls as [|[? ?] ?]; contradiction|].
        destruct ls as [|[L S0] ls]; [simpl in Hw; contradiction|].
        simpl in Hw. destruct Hw as [Hb Hw]. simpl.
        rewrite (IH ns pars ls Hw).
        destruct b.
        * destruct (Hb eq_refl) as [Hwf Hpm]. rewrite (cgprod_flip_eta n p L S0 Hpm Hwf). ring.
        * ring.
  Qed.

  Theorem canonical_equivalence_chain_proof :
    forall F ns pars (terms : list (C * list (Z * Z))),
      Forall (fun t => wf_chain F ns pars (snd t)) terms ->
      chain_amp CG (flip_nodes F ns) terms = Cmult (RtoC (eta_prod F ns pars)) (chain_amp CG ns terms).
  Proof.
    intros F ns pars terms HF. induction HF as [|t r Ht HF IH]; simpl.
    - ring.
    - rewrite IH. rewrite (cgchain_flip F ns pars _ Ht). rewrite RtoC_mult. ring.
  Qed.

  (* the two halves together: if the helicity model multiplies the two chains by factors f1, f2
     (each +-1) with f1 f2 = the eta product over the reversed nodes, then the coefficient values
     the canonical expansion requires of the shared symbol agree:  H(l1)/f1 = H(l2)/f2 *)
  Theorem induced_coefficient_consistent_proof :
    forall F ns pars (terms : list (C * list (Z * Z))) (f1 f2 : Z),
      Forall (fun t => wf_chain F ns pars (snd t)) terms ->
      (f1 = 1 \/ f1 = -1)%Z -> (f2 = 1 \/ f2 = -1)%Z ->
      IZR (f1 * f2) = eta_prod F ns pars ->
      Cmult (RtoC (IZR f2)) (chain_amp CG (flip_nodes F ns) terms)
      = Cmult (RtoC (IZR f1)) (chain_amp CG ns terms).
  Proof.
    intros F ns pars terms f1 f2 HF H1 H2 He.
    rewrite (canonical_equivalence_chain_proof F ns pars terms HF), <- He, mult_IZR, RtoC_mult.
    transitivity (Cmult (RtoC (IZR f2 * IZR f2)) (Cmult (RtoC (IZR f1)) (chain_amp CG ns terms))).
    - rewrite RtoC_mult. ring.
    - rewrite (IZR_pm1_sq _ H2). ring.
  Qed.
End Canon.

(* ---------- non-vacuity ---------- *)
(* CG_flip is satisfiable by a function that is not identically zero and really changes sign *)
Definition toyCG (j1 m1 j2 m2 J M : Z) : R :=
  if Z.even ((j1 + j2 - J) / 2) then 1%R else IZR (Z.sgn M).
Lemma toyCG_flip : forall j1 m1 j2 m2 J M : Z,
  Z.even (j1 + j2 - J) = true ->
  toyCG j1 (- m1) j2 (- m2) J (- M) = (sgn ((j1 + j2 - J) / 2) * toyCG j1 m1 j2 m2 J M)%R.
Proof.
  intros. unfold toyCG, sgn. destruct (Z.even ((j1 + j2 - J) / 2)); [lra|].
  rewrite Z.sgn_opp, opp_IZR. lra.
Qed.
Lemma toyCG_nontrivial : toyCG 2 0 2 2 2 2 = 1%R /\ toyCG 2 0 2 (-2) 2 (-2) = (-1)%R.
Proof. unfold toyCG. simpl. split; reflexivity. Qed.

(* the plan's form of the sign theorem: prefactor times eta over the flipped nodes is the same
   (namely 1) for every chain *)
Lemma prodZ_pm1_sq l : Forall pm1 l -> (prodZ l * prodZ l = 1)%Z.
Proof.
  induction 1 as [|x r Hx HF IH]; simpl; [reflexivity|].
  transitivity ((x * x) * (prodZ r * prodZ r))%Z; [ring|]. rewrite IH.
  destruct Hx as [-> | ->]; reflexivity.
Qed.
Lemma balance_proof :
  forall fl m c1 c2,
    Forall (fun n => pm1 (eta1 n)) c1 -> Forall (fun n => pm1 (eta1 n)) c2 ->
    (prefactor fl m c2 * prodZ (map eta1 (filter (flipped fl m) c2))
     = prefactor fl m c1 * prodZ (map eta1 (filter (flipped fl m) c1)))%Z.
Proof.
  intros fl m c1 c2 H1 H2. rewrite !prefactor_flipped_product_proof.
  assert (A : forall c, Forall (fun n => pm1 (eta1 n)) c ->
              Forall pm1 (map eta1 (filter (flipped fl m) c))).
  { intros c H. apply Forall_forall. intros x Hx. apply in_map_iff in Hx.
    destruct Hx as [n [<- Hn]]. apply filter_In in Hn. destruct Hn as [Hn _].
    rewrite Forall_forall in H. now apply H. }
  rewrite (prodZ_pm1_sq _ (A c1 H1)), (prodZ_pm1_sq _ (A c2 H2)). reflexivity.
Qed.

Example eta_example_jpsi_sigma :
  (* J/psi(1-) -> Sigma~(1750)(1/2+) Sigma+(1/2+): eta = (-1)(+1)(+1)(-1)^(1-1/2-1/2) = -1 *)
  eta_formula (mkCG 2 1 1 1 1) (-1, 1, 1)%Z = (-1)%R
  /\ wf_ls (mkCG 2 1 1 1 1) (-1, 1, 1)%Z 2 0 /\ wf_ls (mkCG 2 1 1 1 1) (-1, 1, 1)%Z 2 2
  /\ pm1par (-1, 1, 1)%Z.
Proof.
  unfold eta_formula, wf_ls, pm1par, sgn. simpl.
  repeat split; try reflexivity; try lra; try (right; reflexivity); try (left; reflexivity).
Qed.
Example eta_example_sigma_kp :
  (* Sigma~(1750)(1/2+) -> K0(0-) p~(1/2-): eta = (+1)(-1)(-1)(-1)^(1/2-0-1/2) = +1 *)
  eta_formula (mkCG 1 0 0 1 1) (1, -1, -1)%Z = 1%R /\ wf_ls (mkCG 1 0 0 1 1) (1, -1, -1)%Z 0 1.
Proof.
  unfold eta_formula, wf_ls, sgn. simpl. repeat split; try reflexivity; lra.
Qed.

(* ---------- assembled statements ---------- *)
Open Scope Z_scope.

Lemma pp_involutive_std_proof :
  forall fl n, (ins_child fl = true -> ppk n = kpp (raw fl n))
            /\ (is_std fl = true -> kpp (kpp (raw fl n)) = raw fl n).
Proof. intros fl n. split; [apply ppk_kpp|apply kpp_invol_raw]. Qed.

Lemma no_coupling_all_proof :
  forall fl ts, is_std fl = false ->
    (forall x y, lookup (register fl ts) x = Some y -> y = x)
    /\ (forall t, prefactor fl (register fl ts) t = 1
               /\ seq_suffix fl (register fl ts) t = map (raw fl) t).
Proof.
  intros fl ts H. split; [now apply no_coupling_proof|intro t; now apply no_coupling_prefactor_proof].
Qed.

Lemma pinned_refuted_proof :
  exists fl ts c1 c2,
    In c1 ts /\ In c2 ts
    /\ seq_suffix fl (register fl ts) c1 = seq_suffix fl (register fl ts) c2
    /\ Forall2 (fun n1 n2 => nd_eta n1 = nd_eta n2 /\ pm1 (eta1 n1)) c1 c2
    /\ prefactor_pinned fl (register fl ts) c1 * prefactor_pinned fl (register fl ts) c2
       <> diff_eta fl c1 c2
    /\ prefactor fl (register fl ts) c1 * prefactor fl (register fl ts) c2 = diff_eta fl c1 c2.
Proof.
  exists wit_fl, wit_ts, (wit_chain 1), (wit_chain (-1)).
  destruct pinned_witness as (A & B & C & D).
  split; [left; reflexivity|]. split; [right; left; reflexivity|]. split; [exact A|].
  split.
  { unfold wit_chain. constructor; [split; [reflexivity|right; reflexivity]|].
    constructor; [split; [reflexivity|left; reflexivity]|constructor]. }
  split; [rewrite B, D; discriminate|rewrite B; exact C].
Qed.

Lemma cg_reflection_satisfiable_proof :
  CG_reflection toyCG /\ toyCG 2 0 2 2 2 2 = 1%R /\ toyCG 2 0 2 (-2) 2 (-2) = (-1)%R.
Proof. split; [exact toyCG_flip|exact toyCG_nontrivial]. Qed.

Lemma coupling_happens_proof :
  let m := register wit_fl wit_ts in
  map (flipped wit_fl m) (wit_chain 1) = [false; false]
  /\ map (flipped wit_fl m) (wit_chain (-1)) = [false; true]
  /\ length m = 3%nat.
Proof. vm_compute. repeat split; reflexivity. Qed.

(* the same two-body decay twice in one chain (chi_c0 -> omega omega, omega -> gamma pi0 twice), both
   occurrences helicity-flipped with IDENTICAL suffixes, eta = -1 each: the product runs over the
   nodes, not over the distinct suffixes, so eta counts twice *)
Definition twin_chain (hw hg : Z) : transition :=
  [ mkNode (wit_state 0 0) (wit_state 1 hw) (wit_state 1 hw) 0 0 (Some 1);
    mkNode (wit_state 1 hw) (wit_state 2 hg) (wit_state 3 0) 2 2 (Some (-1));
    mkNode (wit_state 1 hw) (wit_state 2 hg) (wit_state 3 0) 2 2 (Some (-1)) ].
Definition twin_ts := [twin_chain 2 2; twin_chain (-2) (-2)].
Lemma twin_nodes_proof :
  let m := register wit_fl twin_ts in
  map (flipped wit_fl m) (twin_chain (-2) (-2)) = [true; true; true]
  /\ map (raw wit_fl) (skipn 1 (twin_chain (-2) (-2)))
     = [raw wit_fl (nth 1 (twin_chain (-2) (-2)) (nth 0 (twin_chain 2 2) (mkNode (wit_state 0 0) (wit_state 0 0) (wit_state 0 0) 0 0 None)));
        raw wit_fl (nth 1 (twin_chain (-2) (-2)) (nth 0 (twin_chain 2 2) (mkNode (wit_state 0 0) (wit_state 0 0) (wit_state 0 0) 0 0 None)))]
  /\ prefactor wit_fl m (twin_chain (-2) (-2)) = 1
  /\ seq_suffix wit_fl m (twin_chain (-2) (-2)) = seq_suffix wit_fl m (twin_chain 2 2)
  /\ diff_eta wit_fl (twin_chain 2 2) (twin_chain (-2) (-2)) = 1.
Proof. vm_compute. repeat split; reflexivity. Qed.
