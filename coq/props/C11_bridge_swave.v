(* C11 — the general tree PhaseSpaceFactorSWave(s,m1,m2).doit() at m1 = m2 = m denotes the same as the (s,m,m) tree *)
From AV Require Import DenC.
From AVchk Require Import Gen_C11 C11_base.
From Coq Require Import Lra Lia Psatz.
Open Scope C_scope.

Ltac bridge_finish :=
   lift_R; rewrite ?(CpowZ_1 (Csqrt _));
   match goal with |- context [CpowZ (Csqrt (RtoC ?s)) (-1)] => abstract_C (CpowZ (Csqrt (RtoC s)) (-1)) end;
   match goal with |- context [Csqrt (RtoC ?s)] => abstract_C (Csqrt (RtoC s)) end; to_mk.


Ltac bridge_logs :=
    repeat match goal with |- context [mkC ?a ?b] =>
      lazymatch goal with |- _ /\ _ = ?rhs =>
        lazymatch rhs with context [Clog (mkC ?c ?d)] =>
          lazymatch goal with
          | |- context [Clog (mkC a b)] => idtac
          | |- context [mkC a b <> 0] => idtac
          end;
          lazymatch a with c => fail | _ => idtac end;
          replace (mkC a b) with (mkC c d) by (apply mk_eq; unfold_pows; field; lra) end end end.
Ltac bridge_close m :=
    split;
    [ intros W; repeat match goal with H : _ /\ _ |- _ => destruct H end;
      wd_solve; try assumption; try apply PI_neq0;
      try (unfold_pows; match goal with |- ?x <> 0%R => replace x with 1%R by (field; lra) end; lra)
    | match goal with |- context [Clog (mkC ?c ?d)] => abstract_C (Clog (mkC c d)) end;
      match goal with |- context [Clog (RtoC ?c)] => abstract_C (Clog (RtoC c)) end;
      to_mk; apply mk_eq; unfold_pows; field; repeat split; try apply PI_neq0; lra ].

Lemma swave_general_at_equal_mass s m : (0 < m)%R -> s <> 0%R ->
  (wdC (envE s m) gen_swave_eq -> wdC (envS s m m) gen_swave) /\
  denC (envS s m m) gen_swave = denC (envE s m) gen_swave_eq.
Proof.
  intros H1 Hs.
  unfold gen_swave, gen_swave_eq, envS, envE. denC_simplR. lift_R. norm_args s m m.
  set (Q := q2R s m m).
  destruct (Rtotal_order Q 0) as [HQ|[HQ|HQ]]; decide_rels; resolve_if.
  - replace (- (4 * Q))%R with (4 * - Q)%R by ring.
    rewrite ?(Csqrt_nonneg (4 * - Q)), ?(Csqrt_nonneg (- Q)) by lra. rewrite ?sqrt_4x by lra.
    bridge_finish. bridge_logs. bridge_close m.
  - (* q^2 = 0 (threshold): whichever branch a non-strict variant of the condition selects is 0 *)
    replace (- (4 * Q))%R with (4 * - Q)%R by ring.
    rewrite ?(Csqrt_nonneg (4 * - Q)), ?(Csqrt_nonneg (- Q)), ?(Csqrt_nonneg (4 * Q)), ?(Csqrt_nonneg Q) by lra.
    rewrite ?sqrt_4x by lra. replace (- Q)%R with Q by lra. 
    bridge_finish. bridge_logs. bridge_close m.
  - rewrite ?(Csqrt_nonneg (4 * Q)), ?(Csqrt_nonneg Q) by lra. rewrite ?sqrt_4x by lra.
    bridge_finish. bridge_logs. bridge_close m.
Qed.
