(* C03 — parity partners carry exactly the parity sign of the flipped nodes (statements only).

   Model: coq/theories/Naming.v (registration loop, suffixes, sequential suffix, prefactor; tied to
   /repo by the correspondence run bridge/corr_C03.py on every check) and coq/theories/NamingCG.v
   (Clebsch-Gordan expansion of CanonicalAmplitudeBuilder; the CG arguments are tied the same way).
   Keys abstract the suffix strings; [kpp] reverses both daughter helicities of a key. *)
From Coq Require Import ZArith List Reals Bool.
From Coquelicot Require Import Complex.
From AV Require Import Naming Naming_proofs NamingCG.
From AVchk Require Import C03_lemmas.
Import ListNotations.
Open Scope Z_scope.

(* 1. After registering ANY list of transitions with ANY naming flags, every registered suffix is
      mapped to itself or to its helicity-reversed partner, and representatives are fixed points. *)
Theorem C03_mapping_invariant :
  forall fl ts x y, lookup (register fl ts) x = Some y ->
    (y = x \/ y = kpp x) /\ lookup (register fl ts) y = Some y.
Proof. exact mapping_invariant_proof. Qed.

(* the partner suffix computed by the code IS kpp of the raw suffix when child helicities are
   printed, and kpp is an involution on raw suffixes under the standard flags
   (insert_parent_helicities=False, insert_child_helicities=True, no LS arrow) *)
Theorem C03_pp_involutive_std :
  forall fl n, (ins_child fl = true -> ppk n = kpp (raw fl n))
            /\ (is_std fl = true -> kpp (kpp (raw fl n)) = raw fl n).
Proof. exact pp_involutive_std_proof. Qed.

(* with any other flag combination (no child helicities, or parent helicities, or LS arrows in the
   name) the partner suffix never equals a registered suffix: nothing is coupled, every chain has
   its own coefficient and no prefactor *)
Theorem C03_no_coupling_without_child_helicities :
  forall fl ts, is_std fl = false ->
    (forall x y, lookup (register fl ts) x = Some y -> y = x)
    /\ (forall t, prefactor fl (register fl ts) t = 1
               /\ seq_suffix fl (register fl ts) t = map (raw fl) t).
Proof. exact no_coupling_all_proof. Qed.

(* every parity-constrained node of a registered transition is in the table *)
Theorem C03_registered_complete :
  forall fl ts t n, In t ts -> In n t -> nd_eta n <> None -> lookup (register fl ts) (raw fl n) <> None.
Proof. exact registered_complete_proof. Qed.

(* 2a. the factor the builder multiplies a chain with is the product of eta over exactly the nodes
       whose suffix is mapped to a different one ... *)
Theorem C03_prefactor_is_flipped_product :
  forall fl m t, prefactor fl m t = prodZ (map eta1 (filter (flipped fl m) t)).
Proof. exact prefactor_flipped_product_proof. Qed.

(* 2b. ... and those are exactly the nodes whose coefficient is named after the suffix with both
       daughter helicities reversed (a genuinely different suffix) *)
Theorem C03_flipped_is_reversed :
  forall fl ts n, flipped fl (register fl ts) n = true ->
    is_std fl = true /\ image fl (register fl ts) n = kpp (raw fl n) /\ kpp (raw fl n) <> raw fl n.
Proof. exact flipped_is_reversed_proof. Qed.

(* 2c. the plan's form: prefactor times eta over the flipped nodes is the same for all chains *)
Theorem C03_shared_coefficient_sign_balance :
  forall fl m c1 c2,
    Forall (fun n => pm1 (eta1 n)) c1 -> Forall (fun n => pm1 (eta1 n)) c2 ->
    prefactor fl m c2 * prodZ (map eta1 (filter (flipped fl m) c2))
    = prefactor fl m c1 * prodZ (map eta1 (filter (flipped fl m) c1)).
Proof. exact balance_proof. Qed.

(* 2d. THE PROPERTY (first sentence).  Two chains (any node lists, registered or not) that get the
       same coefficient name, with the same eta = +-1 at corresponding nodes: the product (= ratio)
       of their prefactors is the product of eta over exactly the positions where their suffixes
       differ, and at each such position the two suffixes are helicity-reversed images of one
       another; everywhere else they are equal. *)
Theorem C03_shared_coefficient_sign :
  forall fl ts c1 c2,
    seq_suffix fl (register fl ts) c1 = seq_suffix fl (register fl ts) c2 ->
    Forall2 (fun n1 n2 => nd_eta n1 = nd_eta n2 /\ pm1 (eta1 n1)) c1 c2 ->
    prefactor fl (register fl ts) c1 * prefactor fl (register fl ts) c2 = diff_eta fl c1 c2
    /\ reversed_where_different fl c1 c2.
Proof. exact relative_sign_proof. Qed.

(* the prefactor of the tree before commit 6f1e599 (product over ALL nodes once any is flipped)
   violates 2d: two nodes with eta = (-1, +1), second chain reverses only the second node *)
Theorem C03_shared_coefficient_sign_pinned_refuted :
  exists fl ts c1 c2,
    In c1 ts /\ In c2 ts
    /\ seq_suffix fl (register fl ts) c1 = seq_suffix fl (register fl ts) c2
    /\ Forall2 (fun n1 n2 => nd_eta n1 = nd_eta n2 /\ pm1 (eta1 n1)) c1 c2
    /\ prefactor_pinned fl (register fl ts) c1 * prefactor_pinned fl (register fl ts) c2
       <> diff_eta fl c1 c2
    /\ prefactor fl (register fl ts) c1 * prefactor fl (register fl ts) c2 = diff_eta fl c1 c2.
Proof. exact pinned_refuted_proof. Qed.

(* 3. "Equivalently": the canonical (LS) expansion.  CG is SymPy's Clebsch-Gordan function; its
      reflection symmetry is a hypothesis (validated exactly for all j <= 3 on every run). *)
(* one node, all its parity-conserving LS alternatives, arbitrary complex LS coefficients:
   reversing both daughter helicities multiplies the induced helicity amplitude by
   eta = P P1 P2 (-1)^(J-s1-s2) *)
Theorem C03_canonical_equivalence :
  forall CG, CG_reflection CG ->
  forall n par (terms : list (C * (Z * Z))),
    pm1par par ->
    Forall (fun t => wf_ls n par (fst (snd t)) (snd (snd t))) terms ->
    node_amp CG (flipn n) terms = Cmult (RtoC (eta_formula n par)) (node_amp CG n terms).
Proof. exact canonical_equivalence_node_proof. Qed.

(* chains with any number of nodes: reversing the helicities at the nodes flagged in F multiplies
   the induced coefficient by the product of eta over exactly those nodes *)
Theorem C03_canonical_equivalence_chain :
  forall CG, CG_reflection CG ->
  forall F ns pars (terms : list (C * list (Z * Z))),
    Forall (fun t => wf_chain F ns pars (snd t)) terms ->
    chain_amp CG (flip_nodes F ns) terms = Cmult (RtoC (eta_prod F ns pars)) (chain_amp CG ns terms).
Proof. exact canonical_equivalence_chain_proof. Qed.

(* hence: if the helicity model gives the two chains factors f1, f2 whose product is the eta
   product over the reversed nodes (2d), the values the canonical expansion requires of the
   shared coefficient agree, for every choice of LS coefficients *)
Theorem C03_induced_coefficient_consistent :
  forall CG, CG_reflection CG ->
  forall F ns pars (terms : list (C * list (Z * Z))) (f1 f2 : Z),
    Forall (fun t => wf_chain F ns pars (snd t)) terms ->
    (f1 = 1 \/ f1 = -1) -> (f2 = 1 \/ f2 = -1) ->
    IZR (f1 * f2) = eta_prod F ns pars ->
    Cmult (RtoC (IZR f2)) (chain_amp CG (flip_nodes F ns) terms)
    = Cmult (RtoC (IZR f1)) (chain_amp CG ns terms).
Proof. exact induced_coefficient_consistent_proof. Qed.

(* ---------- non-vacuity ---------- *)
Example C03_CG_reflection_satisfiable :
  CG_reflection toyCG /\ toyCG 2 0 2 2 2 2 = 1%R /\ toyCG 2 0 2 (-2) 2 (-2) = (-1)%R.
Proof. exact cg_reflection_satisfiable_proof. Qed.
Example C03_eta_jpsi_sigma :
  eta_formula (mkCG 2 1 1 1 1) (-1, 1, 1) = (-1)%R
  /\ wf_ls (mkCG 2 1 1 1 1) (-1, 1, 1) 2 0 /\ wf_ls (mkCG 2 1 1 1 1) (-1, 1, 1) 2 2
  /\ pm1par (-1, 1, 1).
Proof. exact eta_example_jpsi_sigma. Qed.
Example C03_eta_sigma_kp :
  eta_formula (mkCG 1 0 0 1 1) (1, -1, -1) = 1%R /\ wf_ls (mkCG 1 0 0 1 1) (1, -1, -1) 0 1.
Proof. exact eta_example_sigma_kp. Qed.
(* the witness chains really are coupled: the second is flipped at its second node only *)
Example C03_coupling_happens :
  let m := register wit_fl wit_ts in
  map (flipped wit_fl m) (wit_chain 1) = [false; false]
  /\ map (flipped wit_fl m) (wit_chain (-1)) = [false; true]
  /\ length m = 3%nat.
Proof. exact coupling_happens_proof. Qed.

(* the same decay twice in one chain, both occurrences flipped with identical suffixes (eta = -1
   each): all three nodes are flipped, the two omega nodes have the same suffix, the prefactor is
   (+1)(-1)(-1) = 1 - a product over distinct suffixes would give -1 *)
Example C03_equal_suffix_nodes_count_twice :
  let m := register wit_fl twin_ts in
  map (flipped wit_fl m) (twin_chain (-2) (-2)) = [true; true; true]
  /\ map (raw wit_fl) (skipn 1 (twin_chain (-2) (-2)))
     = [raw wit_fl (nth 1 (twin_chain (-2) (-2)) (nth 0 (twin_chain 2 2) (mkNode (wit_state 0 0) (wit_state 0 0) (wit_state 0 0) 0 0 None)));
        raw wit_fl (nth 1 (twin_chain (-2) (-2)) (nth 0 (twin_chain 2 2) (mkNode (wit_state 0 0) (wit_state 0 0) (wit_state 0 0) 0 0 None)))]
  /\ prefactor wit_fl m (twin_chain (-2) (-2)) = 1
  /\ seq_suffix wit_fl m (twin_chain (-2) (-2)) = seq_suffix wit_fl m (twin_chain 2 2)
  /\ diff_eta wit_fl (twin_chain 2 2) (twin_chain (-2) (-2)) = 1.
Proof. exact twin_nodes_proof. Qed.

Print Assumptions C03_mapping_invariant.
Print Assumptions C03_pp_involutive_std.
Print Assumptions C03_no_coupling_without_child_helicities.
Print Assumptions C03_registered_complete.
Print Assumptions C03_prefactor_is_flipped_product.
Print Assumptions C03_flipped_is_reversed.
Print Assumptions C03_shared_coefficient_sign_balance.
Print Assumptions C03_shared_coefficient_sign.
Print Assumptions C03_shared_coefficient_sign_pinned_refuted.
Print Assumptions C03_canonical_equivalence.
Print Assumptions C03_canonical_equivalence_chain.
Print Assumptions C03_induced_coefficient_consistent.
Print Assumptions C03_CG_reflection_satisfiable.
Print Assumptions C03_eta_jpsi_sigma.
Print Assumptions C03_eta_sigma_kp.
Print Assumptions C03_coupling_happens.
Print Assumptions C03_equal_suffix_nodes_count_twice.
