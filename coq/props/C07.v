(* C07 — kinematic variables mean what their names say, in every topology.
   Structural part: theorems about the model coq/theories/Kin.v (tied to /repo by the
   correspondence run on every check).  [tree] ranges over ALL isobar decay trees (any number of
   final states, any edge numbering).  Names are structural ([NMass ids], [NAng k sub sup]); values
   are abstract terms (angle kind, summed final-state momenta, chain of helicity frames).
   [decode all n] is what the NAME n says, given the final-state ids [all].

   Clauses of the property and where they are:
   (1) masses: C07_mass_named_correctly; C07_mass_is_minkowski_norm, C07_mass_of_sum_is_minkowski_norm
       (T1: the InvariantMass tree regenerated from /repo);
   (2) angles = documented momentum in documented frames: C07_angles_match_spec (trees without a
       node whose two children both decay), C07_angles_match_spec_refuted (it FAILS otherwise on the
       current code), C07_angles_match_spec_repaired (model of the proposed patch: all trees);
       C07_phi_is_azimuth, C07_theta_is_polar_angle (T1: Phi, Theta trees); the frame matrices are C08's
       subject and are compared numerically with bridge/frames.py here;
   (3) 3-body polar angle = Dalitz closed form: C07_theta_is_dalitz_{12,23,13} in C07_dalitz.v (separate
       chain, proofs in C07_dalitz_lemmas.v; reuses Dpd.v and C19_lemmas.v);
   (4) a name never denotes two quantities: C07_name_says_value, C07_name_determines_value,
       C07_create_expressions_order_independent, C07_fold_update_perm,
       C07_permuted_topologies_consistent; refuted for double-decay nodes:
       C07_name_determines_value_refuted, C07_create_expressions_order_refuted. *)
From AV Require Import DenR Kin.
From AVchk Require Import Gen_C07 C07_lemmas C07_analytic.
From Coq Require Import ZArith List Bool Permutation Reals Lra.
Import ListNotations.
Open Scope Z_scope.

(* (1) every mass entry is (m_ids, InvariantMass(sum p_i, i in ids)) with THE SAME sorted id list on
   both sides, ids = the final states below one edge; every edge has its entry. *)
Theorem C07_mass_named_correctly : forall t,
  (forall n v, In (n, v) (inv_mass_entries t) ->
     exists s, subtree s t /\ ssorted (sort (leaves s)) /\ Permutation (sort (leaves s)) (leaves s) /\
               n = NMass (sort (leaves s)) /\ v = AMass (sort (leaves s))) /\
  (forall s, subtree s t -> In (NMass (sort (leaves s)), AMass (sort (leaves s))) (inv_mass_entries t)).
Proof. exact mass_named_correctly_lemma. Qed.

(* (2) the dictionary compute_helicity_angles returns IS the documented one (as a finite map:
   dictionary overwrite semantics on the left, a plain list of pairs on the right) *)
Theorem C07_angles_match_spec : forall t n v,
  NoDup (leaves t) -> no_double t = true ->
  (get n (helicity_angle_entries t) = Some v <-> In (n, v) (angle_spec t [])).
Proof. intros t n v H1 H2. apply (angles_match_spec_lemma false t n v H1). now right. Qed.

Theorem C07_angles_match_spec_refuted :
  exists t n v, NoDup (leaves t) /\ get n (helicity_angle_entries t) = Some v /\
                ~ In (n, v) (angle_spec t []).
Proof. exact angles_match_spec_refuted_lemma. Qed.

(* model of the PROPOSED repair ([hel true]; not the current code): all trees *)
Theorem C07_angles_match_spec_repaired : forall t n v,
  NoDup (leaves t) ->
  (get n (hel true t [] []) = Some v <-> In (n, v) (angle_spec t [])).
Proof. intros t n v H1. apply (angles_match_spec_lemma true t n v H1). now left. Qed.

(* (4) a variable of one topology denotes what its name says *)
Theorem C07_name_says_value : forall t n v,
  NoDup (leaves t) -> no_double t = true ->
  get n (topology_entries false t) = Some v -> v = decode (sort (leaves t)) n.
Proof. intros t n v H1 H2. apply topology_entries_decode; [exact H1 | now right]. Qed.

Theorem C07_name_determines_value : forall t1 t2 n v1 v2,
  NoDup (leaves t1) -> NoDup (leaves t2) -> sort (leaves t1) = sort (leaves t2) ->
  no_double t1 = true -> no_double t2 = true ->
  get n (topology_entries false t1) = Some v1 -> get n (topology_entries false t2) = Some v2 ->
  v1 = v2.
Proof.
  intros t1 t2 n v1 v2 N1 N2 E O1 O2.
  apply (name_determines_value_lemma false t1 t2 n v1 v2 N1 N2 E); now right.
Qed.

Theorem C07_name_determines_value_refuted :
  exists t1 t2 n v1 v2,
    NoDup (leaves t1) /\ NoDup (leaves t2) /\ leaves t1 = leaves t2 /\
    get n (topology_entries false t1) = Some v1 /\ get n (topology_entries false t2) = Some v2 /\
    v1 <> v2.
Proof. exact name_determines_value_refuted_lemma. Qed.

Theorem C07_name_determines_value_repaired : forall t1 t2 n v1 v2,
  NoDup (leaves t1) -> NoDup (leaves t2) -> sort (leaves t1) = sort (leaves t2) ->
  get n (topology_entries true t1) = Some v1 -> get n (topology_entries true t2) = Some v2 ->
  v1 = v2.
Proof.
  intros t1 t2 n v1 v2 N1 N2 E.
  apply (name_determines_value_lemma true t1 t2 n v1 v2 N1 N2 E); now left.
Qed.

(* folding update over any permutation of pairwise name-consistent dictionaries gives the same map *)
Theorem C07_fold_update_perm : forall ds ds',
  consistent ds -> Permutation ds ds' ->
  forall n, get n (fold_left update ds []) = get n (fold_left update ds' []).
Proof. exact fold_update_perm_lemma. Qed.

(* create_expressions does not depend on the iteration order of the topology set, and every
   variable in the merged dictionary denotes what its name says *)
Theorem C07_create_expressions_order_independent : forall all ts ts',
  Forall (fun t => (NoDup (leaves t) /\ sort (leaves t) = all) /\ no_double t = true) ts ->
  Permutation ts ts' ->
  (forall n, get n (create_expressions ts) = get n (create_expressions ts')) /\
  (forall n v, get n (create_expressions ts) = Some v -> v = decode all n).
Proof.
  intros all ts ts' HF Hp.
  assert (HF' : Forall (fun t => same_final_state all t /\ ok_class false t) ts).
  { eapply Forall_impl; [|exact HF]. cbn. intros t [H1 H2]. split; [exact H1 | now right]. }
  split.
  - exact (create_expressions_perm false all ts ts' HF' Hp).
  - intros n v. exact (create_expressions_decode false all ts n v HF').
Qed.

Theorem C07_create_expressions_order_refuted :
  exists t1 t2 n, NoDup (leaves t1) /\ NoDup (leaves t2) /\ leaves t1 = leaves t2 /\
    get n (create_expressions [t1; t2]) <> get n (create_expressions [t2; t1]).
Proof. exact create_expressions_order_refuted_lemma. Qed.

Theorem C07_create_expressions_order_independent_repaired : forall all ts ts',
  Forall (fun t => NoDup (leaves t) /\ sort (leaves t) = all) ts ->
  Permutation ts ts' ->
  forall n, get n (create_expressions_gen true ts) = get n (create_expressions_gen true ts').
Proof.
  intros all ts ts' HF Hp. apply (create_expressions_perm true all ts ts'); [|exact Hp].
  eapply Forall_impl; [|exact HF]. cbn. intros t H. split; [exact H | now left].
Qed.

(* permutate_registered_topologies: a topology and any of its final-state relabellings, registered
   together in any order, give one well-defined dictionary *)
Theorem C07_permuted_topologies_consistent : forall t (fs : list (Z -> Z)) ts',
  NoDup (leaves t) -> no_double t = true ->
  Forall (fun f => Permutation (map f (leaves t)) (leaves t)) fs ->
  Permutation (t :: map (fun f => relabel_tree f t) fs) ts' ->
  forall n, get n (create_expressions (t :: map (fun f => relabel_tree f t) fs))
          = get n (create_expressions ts').
Proof.
  intros t fs ts' H1 H2. apply (permuted_consistent_lemma false t fs ts' H1). now right.
Qed.

(* ---- HelicityAdapter as a state machine (Kin.hstep / run_history; tied to /repo by histories in the
   correspondence run): create_expressions has no memory, covers every registered topology, and
   register_topology only admits topologies over the same initial and final state ids ---- *)
Theorem C07_create_covers_registered : forall fixed ts t n,
  In t ts ->
  In n (keys (hel fixed t [] [])) \/ In n (keys (inv_mass_entries t)) ->
  In n (keys (create_expressions_gen fixed ts)).
Proof. exact create_covers_lemma. Qed.

Theorem C07_adapter_has_no_memory : forall fixed s ops1 ops2,
  let s1 := fst (run_history fixed s ops1) in
  snd (run_history fixed s (ops1 ++ HCreate :: ops2))
  = snd (run_history fixed s ops1) ++ model_create_gen fixed s1 :: snd (run_history fixed s1 ops2).
Proof. exact run_history_create_lemma. Qed.

Theorem C07_register_guard : forall s e t,
  register_ok (e :: s) t = true ->
  tree_of_topo t <> None /\
  zset_eqb (incoming_ids t) (incoming_ids e) = true /\
  zset_eqb (outgoing_ids t) (outgoing_ids e) = true.
Proof. exact register_guard_lemma. Qed.

(* ---- T1: what the atoms of an abstract term compute, on the trees regenerated from /repo
   (per-event meaning of the generated NumPy code, cse on and off) ---- *)
Theorem C07_mass_is_minkowski_norm : forall t, t = mass_cse \/ t = mass_nocse -> forall E x y z : R,
  (0 <= E^2 - x^2 - y^2 - z^2)%R ->
  wdR (envP E x y z) t /\ denR (envP E x y z) t = sqrt (E^2 - x^2 - y^2 - z^2)%R.
Proof. exact mass_meaning. Qed.

Theorem C07_mass_of_sum_is_minkowski_norm : forall t, t = mass_sum_cse \/ t = mass_sum_nocse ->
  forall E x y z Eq xq yq zq : R,
  (0 <= (E + Eq)^2 - (x + xq)^2 - (y + yq)^2 - (z + zq)^2)%R ->
  wdR (envPQ E x y z Eq xq yq zq) t /\
  denR (envPQ E x y z Eq xq yq zq) t = sqrt ((E + Eq)^2 - (x + xq)^2 - (y + yq)^2 - (z + zq)^2)%R.
Proof. exact mass_sum_meaning. Qed.

Theorem C07_phi_is_azimuth : forall t, t = phi_cse \/ t = phi_nocse -> forall E x y z : R,
  (x <> 0 \/ y <> 0)%R ->
  wdR (envP E x y z) t /\ denR (envP E x y z) t = atan2 y x.
Proof. exact phi_meaning. Qed.

Theorem C07_theta_is_polar_angle : forall t, t = theta_cse \/ t = theta_nocse -> forall E x y z : R,
  (0 < x^2 + y^2 + z^2)%R ->
  wdR (envP E x y z) t /\
  denR (envP E x y z) t = acos (z / sqrt (x^2 + y^2 + z^2))%R /\
  (cos (denR (envP E x y z) t) * sqrt (x^2 + y^2 + z^2) = z)%R /\
  (0 <= denR (envP E x y z) t <= PI)%R.
Proof. exact theta_meaning. Qed.

Example C07_ex_analytic_hyp :
  (0 <= 5^2 - 0^2 - 3^2 - 4^2)%R /\ (0 < 0^2 + 3^2 + 4^2)%R /\ ((0 <> 0 \/ 3 <> 0)%R).
Proof. split; [|split]; [lra | lra | right; lra]. Qed.

(* ---- non-vacuity: the hypotheses are satisfiable and the statements say something ---- *)
Definition three_body : tree := Node (-1) (Leaf 0) (Node 3 (Leaf 1) (Leaf 2)).
Definition five_body : tree :=
  Node (-1) (Node 5 (Leaf 0) (Node 7 (Leaf 3) (Leaf 4))) (Node 6 (Leaf 1) (Leaf 2)).

(* the doctest of compute_helicity_angles: theta_0 = Theta(p1 + p2) *)
Example C07_ex_doctest :
  NoDup (leaves three_body) /\ no_double three_body = true /\
  get (NAng ATheta [0] []) (helicity_angle_entries three_body) = Some (AAng ATheta [1; 2] []) /\
  get (NAng APhi [1] [[1; 2]]) (helicity_angle_entries three_body) = Some (AAng APhi [1] [[1; 2]]).
Proof. split; [nodup|]. vm_compute. auto. Qed.

(* the docstring of get_boost_chain_suffix: edge 3 of the 5-body example is phi_3^34,034 *)
Example C07_ex_five_body :
  NoDup (leaves five_body) /\ no_double five_body = false /\
  get (NAng APhi [3] [[3; 4]; [0; 3; 4]]) (helicity_angle_entries five_body)
    = Some (AAng APhi [3] [[0; 3; 4]; [3; 4]]) /\
  get (NMass [0; 3; 4]) (topology_entries false five_body) = Some (AMass [0; 3; 4]).
Proof. split; [nodup|]. vm_compute. auto. Qed.

(* a two-topology set satisfying the hypotheses of order independence *)
Example C07_ex_order_hyp :
  let ts := [three_body; Node (-1) (Leaf 1) (Node 3 (Leaf 0) (Leaf 2))] in
  Forall (fun t => (NoDup (leaves t) /\ sort (leaves t) = [0; 1; 2]) /\ no_double t = true) ts /\
  length (create_expressions ts) = 14%nat.
Proof.
  cbn zeta. split.
  - repeat constructor; try (vm_compute; reflexivity); try (intros [H|H]; try discriminate; try destruct H as [H|H]; try discriminate; try contradiction); try (intros H; destruct H).
  - vm_compute. reflexivity.
Qed.

Print Assumptions C07_mass_named_correctly.
Print Assumptions C07_angles_match_spec.
Print Assumptions C07_angles_match_spec_refuted.
Print Assumptions C07_angles_match_spec_repaired.
Print Assumptions C07_name_says_value.
Print Assumptions C07_name_determines_value.
Print Assumptions C07_name_determines_value_refuted.
Print Assumptions C07_name_determines_value_repaired.
Print Assumptions C07_fold_update_perm.
Print Assumptions C07_create_expressions_order_independent.
Print Assumptions C07_create_expressions_order_refuted.
Print Assumptions C07_create_expressions_order_independent_repaired.
Print Assumptions C07_permuted_topologies_consistent.
Print Assumptions C07_create_covers_registered.
Print Assumptions C07_adapter_has_no_memory.
Print Assumptions C07_register_guard.
Print Assumptions C07_mass_is_minkowski_norm.
Print Assumptions C07_mass_of_sum_is_minkowski_norm.
Print Assumptions C07_phi_is_azimuth.
Print Assumptions C07_theta_is_polar_angle.
