(** C05 — spin alignment never changes a single-topology intensity; spin ranges run over
    exactly -s..s.

    What is proved (see the comments at each theorem) and what is not:
    * clause "the sums over spin projections run over exactly -s..s in unit steps": theorems 1-4
      about the line-by-line model AV.Spin.spin_range of create_spin_range (all spins), tied to
      the current code by [spin_range_ties_implementation] (exhaustive for s = 0, 1/2, ..., 10).
    * clause "aligned intensity = unaligned intensity at every event": [unitary_mixing] and
      [alignment_preserves_intensity] for ANY number of particles and ANY spins, for every
      amplitude tensor, under the named hypothesis that SymPy's Wigner-D matrices are unitary
      over the complete range (validated exactly for j <= 2 by bridge/search_C05.py, not
      formalised); [corpus_alignment_preserves_intensity] instantiates it for the chain structure
      regenerated from builder.formulate().intensity of every single-topology corpus/synthetic
      reaction x {axis-angle, DPD 1,2,3} whose observed helicity sets are complete.
      The Euler/zeta angles (compute_wigner_angles, formulate_zeta_angle) do not matter for
      this clause: the theorem holds for every value of the angles.  That they are real numbers
      is part of the D-unitarity hypothesis and is exercised numerically only.
    * clause "formulating an aligned model succeeds for every final-state spin incl. massless
      half-integer": [spin_range_never_raises] (the only raising statement in the anchored
      alignment code) + exercised on the implementation by the harness; not a theorem about
      formulate() as a whole.
    * the completeness hypothesis cannot be dropped: [thinned_pool_refuted]; the code's pool for
      a massless particle of integer spin >= 1 is incomplete: [corpus_massless_pools_incomplete]
      (known finding axisangle_massless_integer_spin). *)
From Coq Require Import Reals ZArith List Bool String.
From Coquelicot Require Import Complex.
From AV Require Import Spin Rep Align Align_proofs.
From AVchk Require Import Gen_C05 C05_lemmas.
Import ListNotations.

(** 1. create_spin_range(s) = [-s, -s+1, ..., s] (units of 1/2): s2+1 entries, the k-th is
    -s2+2k, consecutive entries differ by 2 (one unit of spin), symmetric under negation, and
    its members are exactly the x with |x| <= s2 and x = s2 mod 2. *)
Theorem spin_range_spec : spin_range_spec_stmt.
Proof. exact spin_range_spec_proof. Qed.

(** 2. with no_zero_spin=True: half-integer s -> the same complete list (never an error);
    integer s > 0 -> that list without 0; s = 0 -> [0]; in all cases a list is returned. *)
Theorem spin_range_no_zero_spec : spin_range_no_zero_stmt.
Proof. exact spin_range_no_zero_proof. Qed.

(** 3. create_spin_range never raises, whatever spin and flag. *)
Theorem spin_range_never_raises : forall s2 nz, exists l, spin_range s2 nz = Some l.
Proof. exact Spin_proofs.spin_range_total. Qed.

(** 4. the code before commit ed25df5 raised for every half-integer spin (witness s = 1/2). *)
Theorem spin_range_pinned_refuted :
  spin_range_pinned 1 true = None
  /\ forall s2, Nat.odd s2 = true -> spin_range_pinned s2 true = None.
Proof. split; [reflexivity | exact Spin_proofs.spin_range_pinned_raises]. Qed.

(** 5. T2 tie: the CURRENT create_spin_range (table regenerated on every run: s = 0, 1/2, ..., 10
    exhaustively, some larger, dyadic non-half-integers; both flags; None = raised) agrees
    with the model, and the table really covers the box. *)
Theorem spin_range_ties_implementation :
  forallb table_row_ok impl_table = true /\ table_covers_box = true.
Proof. exact table_agrees_proof. Qed.

(** 6. the algebraic heart: any number of particles, any pools; matrices with orthonormal rows
    over the pools leave the summed squared modulus of any amplitude tensor unchanged. *)
Theorem unitary_mixing : forall Us Ps' Ps, unit_all Us Ps' Ps -> forall A : list Z -> C,
  msum Ps (fun x => cnorm2 (msum Ps' (fun a => A a * tprod Us a x)))
  = msum Ps' (fun a => cnorm2 (A a)).
Proof. exact Rep.unitary_mixing. Qed.

(** 7. soundness of the checker: for an aligned amplitude of the shape the builders produce
    (nested sums over primed helicities of A[+-lambda'] times chains of Wigner-D factors), if
    every summed pool and every outer pool is the complete range -s..s, the intensity equals the
    unaligned one, for every amplitude tensor A and every D that is unitary over complete ranges. *)
Theorem alignment_preserves_intensity : forall D : nat -> Z -> Z -> nat -> C,
  D_unitary_m D -> D_unitary_mp D ->
  forall (d : adesc) (A : list Z -> list Z -> C),
  desc_ok d = true -> intensity_aligned D d A = intensity_unaligned d A.
Proof. exact alignment_sound. Qed.

(** 8. the pools that the axis-angle code takes from create_spin_range are complete for every
    particle that is not a massless particle of integer spin >= 1 (uses theorems 1-2). *)
Theorem axisangle_pools_complete : forall c : pchain,
  pc_from_range c = true -> chain_matches_spin_model c = true ->
  pc_massless c = false \/ Nat.odd (pc_s2 c) = true \/ pc_s2 c = 0%nat ->
  list_eqb (pc_outer c) (full_range (pc_s2 c)) = true ->
  link_ok (pc_s2 c) (pc_link c) = true ->
  forallb (fun ql => link_ok (pc_s2 c) (snd ql)) (pc_more c) = true ->
  chain_ok c = true.
Proof. exact axisangle_pools_complete_proof. Qed.

(** 9. T1: for the chain structures regenerated from the current builder.formulate().intensity:
    whenever the observed helicity set of every rotated particle is complete, the aligned
    intensity equals the unaligned one. *)
Theorem corpus_alignment_preserves_intensity : forall D : nat -> Z -> Z -> nat -> C,
  D_unitary_m D -> D_unitary_mp D ->
  forall name d, In (name, d) descs -> outer_incomplete d = false ->
  forall A, intensity_aligned D d A = intensity_unaligned d A.
Proof. exact corpus_preserves_proof. Qed.

(** 10. T1: the summed pools of every regenerated axis-angle structure are what the model of
    create_spin_range returns; and where a massless particle of integer spin >= 1 is rotated, the
    pools are NOT complete (the known finding lives exactly there). *)
Theorem corpus_massless_pools_incomplete : forall name d, In (name, d) descs ->
  desc_matches_spin_model d = true
  /\ (massless_integer d = true -> desc_ok d = false /\ outer_incomplete d = true).
Proof. exact corpus_massless_proof. Qed.

(** 11. the completeness hypothesis of 6/7 is necessary: a matrix unitary on the complete spin-1
    range changes the intensity when the sums run over {-1,+1} only. *)
Theorem thinned_pool_refuted :
  exists U : Z -> Z -> C, unit_on U (full_range 2) (full_range 2) /\
  exists A : Z -> C,
    sumL [(-2)%Z; 2%Z] (fun x => cnorm2 (sumL [(-2)%Z; 2%Z] (fun a => A a * U a x)%C))
    <> sumL [(-2)%Z; 2%Z] (fun a => cnorm2 (A a)).
Proof. exact thinned_pool_refuted_proof. Qed.

(** non-vacuity *)
Example D_hypotheses_satisfiable : exists D, D_unitary_m D /\ D_unitary_mp D.
Proof. exists Did. exact Did_unitary. Qed.

Example corpus_nonvacuous :
  (40 <=? corpus_n_ok)%nat = true /\ (4 <=? corpus_n_massless)%nat = true.
Proof. exact corpus_counts. Qed.

Example spin_range_examples :
  spin_range 1 true = Some [(-1)%Z; 1%Z] /\ spin_range 2 true = Some [(-2)%Z; 2%Z]
  /\ spin_range 2 false = Some [(-2)%Z; 0%Z; 2%Z] /\ spin_range 5 true = Some [(-5)%Z; (-3)%Z; (-1)%Z; 1%Z; 3%Z; 5%Z].
Proof. repeat split. Qed.

Print Assumptions spin_range_spec.
Print Assumptions spin_range_no_zero_spec.
Print Assumptions spin_range_never_raises.
Print Assumptions spin_range_pinned_refuted.
Print Assumptions spin_range_ties_implementation.
Print Assumptions unitary_mixing.
Print Assumptions alignment_preserves_intensity.
Print Assumptions axisangle_pools_complete.
Print Assumptions corpus_alignment_preserves_intensity.
Print Assumptions corpus_massless_pools_incomplete.
Print Assumptions thinned_pool_refuted.
Print Assumptions D_hypotheses_satisfiable.
Print Assumptions corpus_nonvacuous.
Print Assumptions spin_range_examples.
