(* C09 — the phase-space factor at the pole mass: the three variants that the K-matrix unitarity
   theorems allow (PhaseSpaceFactor, PhaseSpaceFactorAbs, PhaseSpaceFactorComplex), regenerated from
   /repo (Gen_C11, produced by bridge/symgen_C11.py), denote the POSITIVE REAL
   rho = 2 sqrt(q^2)/sqrt(s) wherever s > 0 and q^2 > 0, i.e. above the threshold (ma+mb)^2 AND
   below the pseudo-threshold (ma-mb)^2.  Definitions and tactics are C11's (C11_base.v). *)
From AV Require Import DenC.
From AVchk Require Import Gen_C11 C11_base.
From Coq Require Import Lra Lia Psatz.
Open Scope C_scope.

Lemma q2_pos_below_pseudo s m1 m2 : (0 < s -> s < (m1 - m2) ^ 2 -> 0 < m1 -> 0 < m2 -> 0 < q2R s m1 m2)%R.
Proof.
  intros H0 Hs H1 H2. unfold q2R. apply Rdiv_lt_0_compat; [|lra].
  assert ((m1 - m2) ^ 2 < (m1 + m2) ^ 2)%R by nra.
  assert (s - (m1 + m2) ^ 2 < 0)%R by lra. assert (s - (m1 - m2) ^ 2 < 0)%R by lra. nra.
Qed.

Section Outside.
  Variables s m1 m2 : R.
  Hypothesis Hs0 : (0 < s)%R.
  Hypothesis Hq : (0 < q2R s m1 m2)%R.
  Let Hss : (sqrt s <> 0)%R. Proof. apply Rgt_not_eq, sqrt_lt_R0. exact Hs0. Qed.

  Ltac outside_start :=
    pose proof Hs0 as Hs0'; pose proof Hq as Hq'; pose proof Hss as Hss';
    denC_simplR; lift_R; norm_args s m1 m2;
    replace (0 / 1)%R with 0%R by field.

  Lemma rho_pos : (0 < rhoR s m1 m2)%R.
  Proof.
    unfold rhoR. apply Rdiv_lt_0_compat; [|apply sqrt_lt_R0; exact Hs0].
    apply Rmult_lt_0_compat; [lra | apply sqrt_lt_R0; exact Hq].
  Qed.

  Lemma psf_outside : wdC (envS s m1 m2) gen_psf /\ denC (envS s m1 m2) gen_psf = RtoC (rhoR s m1 m2).
  Proof.
    unfold gen_psf, envS. outside_start.
    rewrite ?Csqrt_nonneg by lra. lift_R. split; [wd_solve|].
    f_equal. unfold rhoR. unfold_pows. rewrite ?sqrt_4x by lra. field. assumption.
  Qed.
  Lemma abs_outside : wdC (envS s m1 m2) gen_abs /\ denC (envS s m1 m2) gen_abs = RtoC (rhoR s m1 m2).
  Proof.
    unfold gen_abs, envS. outside_start.
    rewrite ?(Rabs_pos_eq s), ?(Rabs_pos_eq (4 * q2R s m1 m2)) by lra.
    rewrite ?Csqrt_nonneg by lra. lift_R. split; [wd_solve|].
    f_equal. unfold rhoR. unfold_pows. rewrite ?sqrt_4x by lra. field. assumption.
  Qed.
  Lemma cpx_outside : wdC (envS s m1 m2) gen_cpx /\ denC (envS s m1 m2) gen_cpx = RtoC (rhoR s m1 m2).
  Proof.
    unfold gen_cpx, envS. outside_start.
    decide_rels. resolve_if.
    rewrite ?Csqrt_nonneg by lra. lift_R. split; [wd_solve|].
    f_equal. unfold rhoR. unfold_pows. rewrite ?sqrt_4x by lra. field. assumption.
  Qed.
End Outside.

Definition real_positive_rho (t : expr) (s m1 m2 : R) : Prop :=
  wdC (envS s m1 m2) t /\ denC (envS s m1 m2) t = RtoC (rhoR s m1 m2) /\ (0 < rhoR s m1 m2)%R.

Lemma rho_below_pseudothreshold s m1 m2 :
  (0 < m1)%R -> (0 < m2)%R -> (0 < s)%R -> (s < (m1 - m2) ^ 2)%R ->
  real_positive_rho gen_psf s m1 m2 /\ real_positive_rho gen_abs s m1 m2 /\ real_positive_rho gen_cpx s m1 m2.
Proof.
  intros H1 H2 H0 Hs. pose proof (q2_pos_below_pseudo s m1 m2 H0 Hs H1 H2) as Hq.
  pose proof (rho_pos s m1 m2 H0 Hq) as Hr.
  destruct (psf_outside s m1 m2 H0 Hq) as [A1 A2]. destruct (abs_outside s m1 m2 H0 Hq) as [B1 B2].
  destruct (cpx_outside s m1 m2 H0 Hq) as [C1 C2].
  exact (conj (conj A1 (conj A2 Hr)) (conj (conj B1 (conj B2 Hr)) (conj C1 (conj C2 Hr)))).
Qed.

Lemma rho_above_threshold s m1 m2 :
  (0 < m1)%R -> (0 < m2)%R -> ((m1 + m2) ^ 2 < s)%R ->
  real_positive_rho gen_psf s m1 m2 /\ real_positive_rho gen_abs s m1 m2 /\ real_positive_rho gen_cpx s m1 m2.
Proof.
  intros H1 H2 Hs. assert (H0 : (0 < s)%R) by nra.
  pose proof (q2_pos_above s m1 m2 H1 H2 Hs) as Hq.
  pose proof (rho_pos s m1 m2 H0 Hq) as Hr.
  destruct (psf_outside s m1 m2 H0 Hq) as [A1 A2]. destruct (abs_outside s m1 m2 H0 Hq) as [B1 B2].
  destruct (cpx_outside s m1 m2 H0 Hq) as [C1 C2].
  exact (conj (conj A1 (conj A2 Hr)) (conj (conj B1 (conj B2 Hr)) (conj C1 (conj C2 Hr)))).
Qed.

Lemma below_pseudo_example : (0 < 1 /\ 0 < 1/5 /\ 0 < 9/25 /\ 9/25 < (1 - 1/5) ^ 2)%R.
Proof. repeat split; lra. Qed.
