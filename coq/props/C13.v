(* C13 -- dynamics attach to the right decay with the right variables and defaults.

   The theorems are about the Gallina model AV.Selector of DynamicsSelector (__init__, assign,
   __getitem__), TwoBodyDecay.from_transition / is_opposite_helicity_state /
   determine_attached_final_state, get_invariant_mass_symbol, _generate_kinematic_variable_set,
   __formulate_dynamics (parameter-default collision rule) and the parameter tables of the
   library builders.  The model is tied to /repo's current source by the correspondence run of
   ./check C13 (same reactions, same assignment histories, every observable diffed), and the
   side conditions [wf_transition], [chains_covered], [init = inr _] are evaluated by vm_compute
   on every corpus reaction in that run.

   Quantifiers: all reactions (lists of transitions with their identical-particle graphs), all
   selector states, all selections, all assignment histories, all builders ([dynf]/[P] are
   universally quantified), all commutative monoids of amplitude values.

   Not modelled (exercised by the correspondence/search harness only): the Wigner-D/CG factors
   of a chain (abstract [base]/[coef]/[pref] here), the helicity-angle symbols of the variable
   set (C07), SymPy's canonical ordering of products, the order in which formulate() visits
   the chains (taken from the implementation as data). *)
From Coq Require Import String List ZArith QArith Bool Arith Permutation.
From AV Require Import Selector Selector_proofs.
From AVchk Require Import C13_lemmas.
Import ListNotations.
Local Open Scope string_scope.
Local Open Scope list_scope.

(* 1. One assignment changes exactly the decays the selection denotes.
      denotes: by name / by Particle = all keys whose parent particle has that name; by
      TwoBodyDecay / (transition, node) = that one decay (which becomes a key if it was none).
      Every other selection type, and a (transition, node) that is no 1-to-2 decay, raise and
      leave the selector untouched.  [found = false] is the "no resonance with name" warning. *)
Theorem assign_exact : forall ch sel b,
  match assign ch sel b with
  | inr (ch', found) =>
      (forall d, denotes sel d = true ->
         lookup ch' d = match by_name sel with
                        | Some _ => match lookup ch d with Some _ => Some b | None => None end
                        | None => Some b
                        end)
      /\ (forall d, denotes sel d = false -> lookup ch' d = lookup ch d)
      /\ (found = false <->
          (by_name sel <> None /\ forall d b0, lookup ch d = Some b0 -> denotes sel d = false))
  | inl _ => (forall d, denotes sel d = false) /\ step ch (sel, b) = ch
  end.
Proof. exact assign_exact_lemma. Qed.

(* the builder of a decay after a step depends only on its builder before and on the step *)
Theorem assign_pointwise : forall ch sel b d,
  lookup (step ch (sel, b)) d = step1 sel b d (lookup ch d).
Proof. exact lookup_step. Qed.

(* 2. After ANY history the builder of a key is that of the LAST assignment whose selection
      denotes it, else the one it had before (the default, for a freshly built selector). *)
Theorem assign_history_last_wins : forall ch0 h d b0, lookup ch0 d = Some b0 ->
  lookup (run_history ch0 h) d = Some (last_denoting h d b0)
  /\ (((forall sb, In sb h -> denotes (fst sb) d = false) /\ last_denoting h d b0 = b0)
      \/ (exists h1 sel b h2, h = h1 ++ (sel, b) :: h2 /\ denotes sel d = true
            /\ (forall sb, In sb h2 -> denotes (fst sb) d = false) /\ last_denoting h d b0 = b)).
Proof. exact history_last_wins_lemma. Qed.

Theorem history_untouched_unchanged : forall h ch d,
  (forall sb, In sb h -> denotes (fst sb) d = false) -> lookup (run_history ch h) d = lookup ch d.
Proof. exact history_untouched. Qed.

(* every node of every transition and of every identical-particle graph of the reaction is a
   key of the fresh selector with the non-dynamic default, hence after any history: *)
Theorem init_then_history : forall r ch0 h g n d,
  init r = inr ch0 -> (In g (map fst r) \/ In g (flat_map snd r)) -> In n (t_nodes g) ->
  from_transition g n = inr d ->
  lookup (run_history ch0 h) d = Some (last_denoting h d default_builder).
Proof. exact init_history_lemma. Qed.

(* 3. What formulate() does at a node of a chain: the selected builder is applied to the
      node's own resonance and the node's own variable set. *)
Theorem chain_node_dynamics : forall r ch0 chains h t n d,
  init r = inr ch0 -> chains_covered r chains = true -> In t chains -> In n (t_nodes t) ->
  from_transition t n = inr d ->
  node_dynamics (run_history ch0 h) t n =
    inr (Some (last_denoting h d default_builder, parent_particle d, varset_of t d)).
Proof. exact chain_nodes_are_keys. Qed.

(* 4. dynamics_factor: chain amplitude with dynamics = amplitude without * product over the
      nodes of the builders' expressions (any commutative monoid, any builder family). *)
Theorem dynamics_factor : forall (A : Type) (mul : A -> A -> A) (one : A)
    (dynf : builder -> particle -> varset -> A),
  (forall x y z, mul x (mul y z) = mul (mul x y) z) -> (forall x y, mul x y = mul y x) ->
  (forall x, mul x one = x) ->
  forall ch t cs coef pref base,
    chain_calls ch t (t_nodes t) = inr cs -> length base = length (t_nodes t) ->
    amp_with_dynamics A mul one dynf coef pref base cs
    = mul (amp_without_dynamics A mul one coef pref base)
          (prodA A mul one (map (call_factor A one dynf) cs)).
Proof. exact dynamics_factor_lemma. Qed.

Theorem dynamics_factor_chain : forall (A : Type) (mul : A -> A -> A) (one : A)
    (dynf : builder -> particle -> varset -> A),
  (forall x y z, mul x (mul y z) = mul (mul x y) z) -> (forall x y, mul x y = mul y x) ->
  (forall x, mul x one = x) ->
  forall r ch0 chains h t ds coef pref base,
    init r = inr ch0 -> chains_covered r chains = true -> In t chains ->
    decays_of t = inr ds -> length base = length (t_nodes t) ->
    exists cs, chain_calls (run_history ch0 h) t (t_nodes t) = inr cs /\
    amp_with_dynamics A mul one dynf coef pref base cs
    = mul (amp_without_dynamics A mul one coef pref base)
          (prodA A mul one
             (map (fun d => dynf (last_denoting h d default_builder) (parent_particle d) (varset_of t d)) ds)).
Proof. exact dynamics_factor_chain_lemma. Qed.

(* the selector of the pinned tree (before fix 8360f41) registered only the reaction's own
   transitions: a chain added by the identical-particle combinatorics silently lost the
   lineshape of a resonance that the selection denotes.  Kept as the machine-checked record
   of the defect (signature permuted_chain_dynamics_dropped). *)
Theorem dynamics_on_permuted_chain_pinned_refuted :
  exists r chains h sel b t n d ch,
    init_pinned r = inr ch /\ chains_covered r chains = true /\ In t chains /\
    In (sel, b) h /\ from_transition t n = inr d /\ denotes sel d = true /\
    node_dynamics (run_history ch h) t n = inr None.
Proof. exact pinned_refuted_lemma. Qed.

(* 5. varset_is_node_local: the variable set of a node is (m_{leaves(parent)},
      m_{leaves(child1)}, m_{leaves(child2)}, L) with L the interaction's l_magnitude whenever
      there is one, else the parent spin if integer, else None; it is a function of these
      node-local data only. *)
Theorem varset_is_node_local : forall t d,
  v_m (varset_of t d) = mass_name (leaves t (w_id (d_parent d))) /\
  v_ma (varset_of t d) = mass_name (leaves t (w_id (d_c1 d))) /\
  v_mb (varset_of t d) = mass_name (leaves t (w_id (d_c2 d))) /\
  v_L (varset_of t d) =
    match i_l (d_int d) with
    | Some l => Some l
    | None => if Nat.even (p_spin2 (parent_particle d))
              then Some (Nat.div2 (p_spin2 (parent_particle d))) else None
    end /\
  forall t' d',
    leaves t (w_id (d_parent d)) = leaves t' (w_id (d_parent d')) ->
    leaves t (w_id (d_c1 d)) = leaves t' (w_id (d_c1 d')) ->
    leaves t (w_id (d_c2 d)) = leaves t' (w_id (d_c2 d')) ->
    i_l (d_int d) = i_l (d_int d') -> p_spin2 (parent_particle d) = p_spin2 (parent_particle d') ->
    varset_of t d = varset_of t' d'.
Proof. exact varset_node_local_lemma. Qed.

(* the decaying state's mass symbol is built from exactly the final-state particles of the
   node's own two daughters (p_parent = p_child1 + p_child2); child1 is the helicity state;
   parent/children are the edges into/out of this node and L belongs to this node *)
Theorem node_variables_belong_to_node : forall t n d,
  wf_transition t = true -> from_transition t n = inr d ->
  Permutation (leaves t (w_id (d_parent d))) (leaves t (w_id (d_c1 d)) ++ leaves t (w_id (d_c2 d)))
  /\ lex_gt (leaves t (w_id (d_c1 d))) (leaves t (w_id (d_c2 d))) = false
  /\ (exists ep e1 e2, In ep (t_edges t) /\ In e1 (t_edges t) /\ In e2 (t_edges t) /\
        e_to ep = Some n /\ e_from e1 = Some n /\ e_from e2 = Some n /\
        e_id ep = w_id (d_parent d) /\ e_id e1 = w_id (d_c1 d) /\ e_id e2 = w_id (d_c2 d))
  /\ assocZ (t_ints t) n = Some (d_int d).
Proof. exact from_transition_leaves. Qed.

(* 6. parameter defaults, any builders: the default of a name is the value of the LAST
      contribution with that name; a warning is logged iff two contributions of one name
      differ, and every logged warning names two such contributions *)
Theorem defaults_last_wins : forall P ch chains css ds ws,
  formulate P ch chains = inr (css, ds, ws) ->
  exists cs, contribs P (concat css) = Some cs
    /\ (forall k, plookup ds k = last_assoc cs k)
    /\ (ws = [] <-> consistent cs)
    /\ (forall w, In w ws -> good_warning cs w).
Proof. exact formulate_defaults_lemma. Qed.

(* 7. library builders: mass and width defaults are the particle's tabulated values ... *)
Theorem defaults_tabulated : forall ch chains css ds ws,
  formulate lib_params ch chains = inr (css, ds, ws) ->
  ident_determines (call_particles (concat css)) ->
  forall b p vs, In (Some (b, p, vs)) (concat css) -> (b = B_BW \/ b = B_BW_FF \/ b = B_ANALYTIC) ->
    plookup ds (mass_par p) = Some (p_mass p) /\ plookup ds (width_par p) = Some (p_width p).
Proof. exact defaults_tabulated_lemma. Qed.

Theorem builder_returns_tabulated : forall b p vs ps,
  (b = B_BW \/ b = B_BW_FF \/ b = B_ANALYTIC) -> lib_params b p vs = Some ps ->
  In (mass_par p, p_mass p) ps /\ In (width_par p, p_width p) ps.
Proof. exact lib_params_tabulated. Qed.

(* ... and equal-named parameters from different chains carry equal defaults (every value any
   call proposes for a name is the final default of that name, and no warning is logged),
   UNDER the forced hypothesis that particles with equal identifier (latex or name) have equal
   mass and width. *)
Theorem equal_names_equal_defaults : forall ch chains css ds ws,
  formulate lib_params ch chains = inr (css, ds, ws) ->
  ident_determines (call_particles (concat css)) ->
  ws = [] /\
  forall b p vs ps k v, In (Some (b, p, vs)) (concat css) -> lib_params b p vs = Some ps ->
    In (k, v) ps -> plookup ds k = Some v.
Proof. exact equal_names_lemma. Qed.

(* without the hypothesis the clause is false of the model (and of the code: the harness
   replays this): two particles sharing the identifier R^0 *)
Theorem equal_names_without_hypothesis_refuted :
  exists calls ds ws p q,
    collect_params lib_params calls ([], []) = inr (ds, ws) /\ ws <> [] /\
    In (Some (B_BW, p, vsx)) calls /\ In (Some (B_BW, q, vsx)) calls /\
    identifier p = identifier q /\ p_mass p <> p_mass q /\
    plookup ds (mass_par p) = Some (p_mass q).
Proof. exact equal_names_refuted_lemma. Qed.

(* ---- the hypotheses are satisfiable / the statements are not vacuous ---- *)
Example example_reaction_wellformed :
  forallb wf_transition exChains = true /\ chains_covered exR exChains = true
  /\ exists ch, init exR = inr ch /\ length ch = 4%nat.
Proof. exact (conj ex_wf (conj ex_covered ex_init_ok)). Qed.

Example example_assign_by_name_reaches_permuted_chain : exists ch, init exR = inr ch /\
  node_dynamics (run_history ch exH) exG 1 =
    inr (Some (B_BW, pR, mkVarset "m_02" "m_0" "m_2" (Some 1%nat))).
Proof. exact ex_now. Qed.

Example example_error_branches : forall ch,
  assign ch SelOther B_BW = inl ENotImplemented /\ assign ch SelBadTuple B_BW = inl ENotImplemented
  /\ assign ch (SelNode exT 7) B_BW = inl EValue.
Proof. exact ex_errors. Qed.

Example example_unknown_name_flagged : exists ch ch', init exR = inr ch
  /\ assign ch (SelStr "nope") B_BW = inr (ch', false) /\ ch' = ch.
Proof. exact ex_notfound. Qed.

Example example_formulate_tabulated : exists ch css,
  init exR = inr ch /\
  formulate lib_params (run_history ch exH) exChains =
    inr (css, [("m_{R^0}", 3#2); ("\Gamma_{R^0}", 1#10)], [])
  /\ ident_determines (call_particles (concat css)).
Proof. exact ex_formulate. Qed.

Example example_factor_in_Z :
  amp_with_dynamics Z Z.mul 1%Z (fun b _ _ => Z.of_nat b + 2)%Z (Some 5%Z) (Some (-1)%Z) [3; 7]%Z
     [Some (B_BW, pA, vsx); None]
  = (amp_without_dynamics Z Z.mul 1%Z (Some 5%Z) (Some (-1)%Z) [3; 7]%Z * 3)%Z.
Proof. exact ex_factor_Z. Qed.

Print Assumptions assign_exact.
Print Assumptions assign_pointwise.
Print Assumptions assign_history_last_wins.
Print Assumptions history_untouched_unchanged.
Print Assumptions init_then_history.
Print Assumptions chain_node_dynamics.
Print Assumptions dynamics_factor.
Print Assumptions dynamics_factor_chain.
Print Assumptions dynamics_on_permuted_chain_pinned_refuted.
Print Assumptions varset_is_node_local.
Print Assumptions node_variables_belong_to_node.
Print Assumptions defaults_last_wins.
Print Assumptions defaults_tabulated.
Print Assumptions builder_returns_tabulated.
Print Assumptions equal_names_equal_defaults.
Print Assumptions equal_names_without_hypothesis_refuted.
Print Assumptions example_reaction_wellformed.
Print Assumptions example_assign_by_name_reaches_permuted_chain.
Print Assumptions example_error_branches.
Print Assumptions example_unknown_name_flagged.
Print Assumptions example_formulate_tabulated.
Print Assumptions example_factor_in_Z.
