(* C09 — phase-space factor at the pole mass (statements only).  gen_psf, gen_abs, gen_cpx are
   PhaseSpaceFactor / PhaseSpaceFactorAbs / PhaseSpaceFactorComplex (s, m1, m2).doit() with
   ComplexSqrt unfolded, regenerated from /repo on every run by bridge/symgen_C11.py.

   The K-matrix theorems take the EnergyDependentWidth as real and >= 0 (width_real_nonneg); the
   width is Gamma0 rho(s) F(s)^2 / (rho(m_R^2) F(m_R^2)^2), so what they need from the phase space is
   that rho is a positive real at s AND at the pole mass m_R^2.  That holds above the threshold and
   below the pseudo-threshold (both theorems below, all three variants); in the gap between them
   PhaseSpaceFactorComplex is i |rho| (C11_complex_is_i_abs) and the width is imaginary
   (C09_width_not_real_below_threshold_refuted; known finding). *)
From AV Require Import DenC.
From AVchk Require Import Gen_C11 C11_base C09_phsp_lemmas.
Open Scope C_scope.

Theorem C09_rho_real_positive_below_pseudothreshold : forall s m1 m2 : R,
  (0 < m1)%R -> (0 < m2)%R -> (0 < s)%R -> (s < (m1 - m2) ^ 2)%R ->
  real_positive_rho gen_psf s m1 m2 /\ real_positive_rho gen_abs s m1 m2 /\ real_positive_rho gen_cpx s m1 m2.
Proof. exact rho_below_pseudothreshold. Qed.
Theorem C09_rho_real_positive_above_threshold : forall s m1 m2 : R,
  (0 < m1)%R -> (0 < m2)%R -> ((m1 + m2) ^ 2 < s)%R ->
  real_positive_rho gen_psf s m1 m2 /\ real_positive_rho gen_abs s m1 m2 /\ real_positive_rho gen_cpx s m1 m2.
Proof. exact rho_above_threshold. Qed.
Example C09_below_pseudothreshold_premise : (0 < 1 /\ 0 < 1/5 /\ 0 < 9/25 /\ 9/25 < (1 - 1/5) ^ 2)%R.
Proof. exact below_pseudo_example. Qed.

Print Assumptions C09_rho_real_positive_below_pseudothreshold.
Print Assumptions C09_rho_real_positive_above_threshold.
Print Assumptions C09_below_pseudothreshold_premise.
