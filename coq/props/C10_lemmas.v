(* C10 — lemmas about the production vectors regenerated from /repo (Gen_C10). *)
From AV Require Import KMat.
From AVchk Require Import Gen_C10.
From Coq Require Import Lra Lia.
Open Scope C_scope.

(* ---------- vectors ---------- *)
Definition v2_of (l : list C) : C * C := (nth 0 l 0, nth 1 l 0).
Definition M2vec (m : M2) (v : C * C) : C * C :=
  (a00 m * fst v + a01 m * snd v, a10 m * fst v + a11 m * snd v).
Lemma pair_eq {A B} (a a' : A) (b b' : B) : a = a' -> b = b' -> (a, b) = (a', b').
Proof. intros -> ->. reflexivity. Qed.

Definition den1 := cay_den C 1 Cplus Cmult Copp Ci.
Definition den2 := cay_den M2 M2one M2add M2mul M2opp M2i.
Definition P1 (ρ : envC) : C := csym ρ "P[0, 0]".
Definition P2 (ρ : envC) : C * C := (csym ρ "P[0, 0]", csym ρ "P[1, 0]").
Definition wdV (ρ : envC) (l : list expr) : Prop := wdMC ρ [l].
Definition denV (ρ : envC) (l : list expr) : list C := map (denC ρ) l.

(* the code's K-hat = conj(sqrt rho)^-1 K sqrt(rho)^-1 and rho, from the SAME symbols rho_i *)
Definition sr (ρ : envC) (i : string) : C := Csqrt (csym ρ i).
Definition cr (ρ : envC) (i : string) : C := Cconj (Csqrt (csym ρ i)).
Definition Khat1 (ρ : envC) : C := / cr ρ "rho0" * K1 ρ * / sr ρ "rho0".
Definition Khat2 (ρ : envC) : M2 :=
  M2mul (M2mul (M2diag (/ cr ρ "rho0") (/ cr ρ "rho1")) (K2 ρ)) (M2diag (/ sr ρ "rho0") (/ sr ρ "rho1")).
Definition rho2 (ρ : envC) : M2 := M2diag (csym ρ "rho0") (csym ρ "rho1").
(* sqrt(rho) is a square root of rho and invertible, together with its conjugate *)
Definition sqrt_ok (ρ : envC) (i : string) : Prop :=
  sr ρ i * sr ρ i = csym ρ i /\ sr ρ i <> 0 /\ cr ρ i <> 0.

Ltac startV0 H :=
  unfold wdV in H; dens_of H;
  cbv [denV v2_of nth map K1 K2 P1 P2 den1 den2 Khat1 Khat2 rho2 sr cr M2diag M2vec cay_den sub fst snd];
  denC_simpl; cbv [M2mul M2add M2opp M2one M2i a00 a01 a10 a11].
Ltac startV H := startV0 H; name_dens.

(* ---------- 1. F solves the K-matrix equation ---------- *)
Lemma F_solves_nr_1 : forall ρ, wdV ρ gen_nr_F1 ->
  den1 (K1 ρ) * nth 0 (denV ρ gen_nr_F1) 0 = P1 ρ.
Proof. intros [cs cf] H. unfold gen_nr_F1 in *. startV H. fld_close. Qed.

Lemma F_solves_nr_2 : forall ρ, wdV ρ gen_nr_F2 ->
  M2vec (den2 (K2 ρ)) (v2_of (denV ρ gen_nr_F2)) = P2 ρ.
Proof. intros [cs cf] H. unfold gen_nr_F2 in *. startV H. apply pair_eq; fld_close. Qed.

Ltac use_sqrt cs Hs :=
  unfold sqrt_ok, sr, cr in Hs; cbn [csym] in Hs;
  let Hq := fresh "Hq" in let Hn := fresh "Hsn" in let Hc := fresh "Hcn" in
  destruct Hs as [Hq [Hn Hc]].
Ltac mark_sq :=
  repeat match goal with
         | H : ?a * ?a = ?b |- _ => change (DEN (a * a) b) in H
         end.

Lemma F_solves_rel_1 : forall ρ, wdV ρ gen_rel_Fhat1 -> wdV ρ gen_rel_F1 -> sqrt_ok ρ "rho0" ->
  den1 (Khat1 ρ * csym ρ "rho0") * nth 0 (denV ρ gen_rel_Fhat1) 0 = P1 ρ /\
  nth 0 (denV ρ gen_rel_F1) 0 = sr ρ "rho0" * nth 0 (denV ρ gen_rel_Fhat1) 0.
Proof.
  intros [cs cf] H H' Hs. use_sqrt cs Hs. unfold gen_rel_Fhat1, gen_rel_F1 in *.
  unfold wdV in H'. dens_of H'. startV0 H. name_atoms cs. name_dens. mark_sq.
  split; fld_close.
Qed.

Lemma F_solves_rel_2 : forall ρ, wdV ρ gen_rel_Fhat2 -> wdV ρ gen_rel_F2 ->
  sqrt_ok ρ "rho0" -> sqrt_ok ρ "rho1" ->
  M2vec (den2 (M2mul (Khat2 ρ) (rho2 ρ))) (v2_of (denV ρ gen_rel_Fhat2)) = P2 ρ /\
  v2_of (denV ρ gen_rel_F2)
  = (sr ρ "rho0" * nth 0 (denV ρ gen_rel_Fhat2) 0, sr ρ "rho1" * nth 1 (denV ρ gen_rel_Fhat2) 0).
Proof.
  intros [cs cf] H H' Hs0 Hs1. use_sqrt cs Hs0. use_sqrt cs Hs1. unfold gen_rel_Fhat2, gen_rel_F2 in *.
  unfold wdV in H'. dens_of H'. startV0 H. name_atoms cs. name_dens. mark_sq.
  split; apply pair_eq; fld_close.
Qed.

(* sqrt_ok holds for every non-zero real rho (above and below threshold) *)
Lemma sqrt_ok_real ρ i x : csym ρ i = RtoC x -> x <> 0%R -> sqrt_ok ρ i.
Proof.
  intros E Hx. unfold sqrt_ok, sr, cr. rewrite E.
  destruct (Rlt_dec 0 x) as [Hp|Hn].
  - rewrite Csqrt_nonneg by lra. rewrite Cconj_R.
    assert (sqrt x <> 0)%R by (apply Rgt_not_eq, sqrt_lt_R0; lra).
    repeat split; try (apply RtoC_neq0; assumption).
    rewrite <- RtoC_mult, sqrt_sqrt by lra. reflexivity.
  - assert (Hx' : (x < 0)%R) by lra. rewrite Csqrt_neg by exact Hx'.
    assert (Hs : (sqrt (- x) <> 0)%R) by (apply Rgt_not_eq, sqrt_lt_R0; lra).
    repeat split.
    + transitivity (Ci * Ci * (RtoC (sqrt (- x)) * RtoC (sqrt (- x)))); [ring|].
      rewrite <- RtoC_mult, sqrt_sqrt by lra. rewrite Ci2o, RtoC_opp. ring.
    + apply Cmult_neq_0; [apply C_neq0_im; cbn; lra | apply RtoC_neq0; exact Hs].
    + intro E0. apply (f_equal Cconj) in E0. rewrite Cconj_invol, Cconj_0 in E0.
      revert E0. apply Cmult_neq_0; [apply C_neq0_im; cbn; lra | apply RtoC_neq0; exact Hs].
Qed.

(* ---------- 2. only the caller's arguments occur ---------- *)
Definition edw_marker : string := "EnergyDependentWidth[phsp_factor=None.rhoX,name=None]".
Definition edw_default : string :=
  "EnergyDependentWidth[phsp_factor=ampform.dynamics.phasespace.PhaseSpaceFactor,name=None]".
Definition arg_is (args : list expr) (k : nat) (name : string) : bool :=
  match nth_error args k with Some (Sym s) => String.eqb s name | _ => false end.

(* whitelist: the only non-arithmetic nodes are Sum, the marker phase space applied to (s, ., .),
   EnergyDependentWidth carrying the marker phase space with angular momentum Lx and radius dx,
   FormFactor with Lx and dx.  Anything else (the default PhaseSpaceFactor, a width with another
   phase space, literal 0 / 1 in the L / d positions) is rejected. *)
Definition chk_marker (h : head) (args : list expr) : bool :=
  match h with
  | HOther g =>
      if String.eqb g "Sum" then true
      else if String.eqb g "rhoX" then Nat.eqb (length args) 3 && arg_is args 0 "s"
      else if String.eqb g edw_marker
           then Nat.eqb (length args) 7 && arg_is args 0 "s" && arg_is args 5 "Lx" && arg_is args 6 "dx"
      else if String.eqb g "FormFactor"
           then Nat.eqb (length args) 5 && arg_is args 0 "s" && arg_is args 3 "Lx" && arg_is args 4 "dx"
      else false
  | _ => true
  end.
Definition is_head (f : string) (h : head) (_ : list expr) : bool :=
  match h with HOther g => String.eqb g f | _ => false end.
Definition total (p : head -> list expr -> bool) (l : list expr) : nat :=
  fold_right Nat.add 0%nat (map (count_nodes p) l).

Definition item_ok (it : string * (bool * bool) * list expr) : bool :=
  let '(_, (rel, pvec), trees) := it in
  forallb (all_nodes chk_marker) trees &&
  (if rel
   then Nat.ltb 0 (total (is_head edw_marker) trees) && Nat.ltb 0 (total (is_head "rhoX") trees)
        && (if pvec then Nat.ltb 0 (total (is_head "FormFactor") trees) else true)
   else Nat.eqb (total (is_head edw_marker) trees + total (is_head "rhoX") trees
                 + total (is_head "FormFactor") trees) 0) &&
  negb (existsb (occursb "PhaseSpaceFactor") trees) && negb (existsb (occursb edw_default) trees).

Lemma only_callers_arguments : forallb item_ok gen_marked = true.
Proof. vm_compute. reflexivity. Qed.

Lemma marked_tags :
  map (fun it => fst (fst it)) gen_marked =
  ["NonRelativisticKMatrix/-/n=1"; "NonRelativisticKMatrix/-/n=2";
   "NonRelativisticPVector/-/n=1"; "NonRelativisticPVector/-/n=2";
   "RelativisticKMatrix/return_t_hat=False/n=1"; "RelativisticKMatrix/return_t_hat=False/n=2";
   "RelativisticKMatrix/return_t_hat=True/n=1"; "RelativisticKMatrix/return_t_hat=True/n=2";
   "RelativisticPVector/return_f_hat=False/n=1"; "RelativisticPVector/return_f_hat=False/n=2";
   "RelativisticPVector/return_f_hat=True/n=1"; "RelativisticPVector/return_f_hat=True/n=2"].
Proof. vm_compute. reflexivity. Qed.

(* the marker given as a plain FUNCTION, formulated right after a call with another function of the
   same qualified name; widths unfolded one level: only Sum, rhoX(., ., .) and FormFactor(., ., ., Lx, dx)
   occur - no rhoDecoy (the earlier caller's function), no folded width, no phase-space class *)
Definition chk_hist (h : head) (args : list expr) : bool :=
  match h with
  | HOther g =>
      if String.eqb g "Sum" then true
      else if String.eqb g "rhoX" then Nat.eqb (length args) 3
      else if String.eqb g "FormFactor"
           then Nat.eqb (length args) 5 && arg_is args 3 "Lx" && arg_is args 4 "dx"
      else false
  | _ => true
  end.
Definition hist_ok (it : string * list expr) : bool :=
  let trees := snd it in
  forallb (all_nodes chk_hist) trees && Nat.ltb 0 (total (is_head "rhoX") trees)
  && Nat.ltb 0 (total (is_head "FormFactor") trees) && negb (existsb (occursb "rhoDecoy") trees).
Lemma history_only_callers_function :
  forallb hist_ok gen_marked_hist = true /\
  map fst gen_marked_hist =
  ["RelativisticKMatrix/return_t_hat=False/n=1"; "RelativisticKMatrix/return_t_hat=False/n=2";
   "RelativisticKMatrix/return_t_hat=True/n=1"; "RelativisticKMatrix/return_t_hat=True/n=2";
   "RelativisticPVector/return_f_hat=False/n=1"; "RelativisticPVector/return_f_hat=False/n=2";
   "RelativisticPVector/return_f_hat=True/n=1"; "RelativisticPVector/return_f_hat=True/n=2"].
Proof. split; vm_compute; reflexivity. Qed.

(* semantic reading through occurs_sound: the value of every marked result is independent of what
   the default phase-space class (as a node, or inside an EnergyDependentWidth) denotes *)
Definition independent_of (f : string) (e : expr) : Prop :=
  forall ρ ρ', (forall s, csym ρ s = csym ρ' s) ->
               (forall g vs, g <> f -> cfn ρ g vs = cfn ρ' g vs) -> denC ρ e = denC ρ' e.

Lemma default_phsp_irrelevant :
  Forall (fun it => Forall (fun e => independent_of "PhaseSpaceFactor" e /\ independent_of edw_default e)
                      (snd it)) gen_marked.
Proof.
  pose proof only_callers_arguments as H. rewrite forallb_forall in H.
  apply Forall_forall. intros [[tag [rel pv]] trees] Hin. specialize (H _ Hin).
  cbn [snd]. unfold item_ok in H.
  apply andb_true_iff in H as [H H2]. apply andb_true_iff in H as [_ H1].
  apply negb_true_iff in H1, H2.
  apply Forall_forall. intros e He. split; intros ρ ρ' Hs Hf; apply (occurs_sound _ ρ ρ' Hs Hf).
  - destruct (occursb "PhaseSpaceFactor" e) eqn:E; [|reflexivity].
    assert (existsb (occursb "PhaseSpaceFactor") trees = true) by (apply existsb_exists; eauto). congruence.
  - destruct (occursb edw_default e) eqn:E; [|reflexivity].
    assert (existsb (occursb edw_default) trees = true) by (apply existsb_exists; eauto). congruence.
Qed.

(* ---------- 3. one channel, one pole: Breit-Wigner ---------- *)
Definition wd_single (ρ : envC) (e : expr) : Prop := wdMC ρ [[e]].
Ltac start_bw H :=
  unfold wd_single in H; dens_of H; denC_simpl; name_dens.
(* the pole denominator m^2 - s occurs inside other denominators (K = .../(m^2 - s) is itself
   inverted): replace 1/(m^2 - s) by a variable inv with inv * den = 1 and eliminate s, so that
   every remaining denominator is a polynomial in the atoms *)
Ltac inv_inner :=
  match goal with
  | Eden : DEN ?den (?m * ?m + (_ * (?s * _) + _)), Hd : ?den <> _ |- _ =>
      let i := fresh "inv" in
      set (i := / den) in *;
      let Ei := fresh "Einv" in
      assert (Ei : DEN (i * den) 1) by (unfold DEN, i; field; exact Hd);
      clearbody i;
      let Es := fresh "Es" in
      assert (Es : DEN s (m * m - den)) by (unfold DEN in *; rewrite Eden; ring);
      clear Eden
  end.

(* T(n=1, n_R=1) = relativistic_breit_wigner(s, m, gamma^2 Gamma) wherever T is defined *)
Lemma bw_T11 : forall ρ, wd_single ρ gen_bw_T11 -> wd_single ρ gen_bw_gamma ->
  denC ρ gen_bw_T11 = denC ρ gen_bw_gamma.
Proof.
  intros [cs cf] H H'. unfold gen_bw_T11, gen_bw_gamma in *.
  unfold wd_single in H'. dens_of H'. start_bw H. inv_inner. fld_close.
Qed.
Lemma bw_T11_gamma1 : forall ρ, csym ρ "gamma[1, 0]" = 1 ->
  wd_single ρ gen_bw_T11 -> wd_single ρ gen_bw -> denC ρ gen_bw_T11 = denC ρ gen_bw.
Proof.
  intros [cs cf] Hg H H'. cbn [csym] in Hg. unfold gen_bw_T11, gen_bw in *.
  unfold wd_single in H'. dens_of H'. unfold wd_single in H; dens_of H. denC_simpl.
  rewrite Hg in *. name_dens. inv_inner. fld_close.
Qed.
(* F(n=1, n_R=1): gamma F = beta BW(gamma^2 Gamma); with gamma = 1, F = beta BW(Gamma) *)
Lemma bw_F11 : forall ρ, wd_single ρ gen_bw_F11 -> wd_single ρ gen_bw_gamma ->
  csym ρ "gamma[1, 0]" * denC ρ gen_bw_F11 = csym ρ "beta[1]" * denC ρ gen_bw_gamma.
Proof.
  intros [cs cf] H H'. unfold gen_bw_F11, gen_bw_gamma in *.
  unfold wd_single in H'. dens_of H'. start_bw H. cbn [csym]. inv_inner. fld_close.
Qed.
Lemma bw_F11_gamma1 : forall ρ, csym ρ "gamma[1, 0]" = 1 ->
  wd_single ρ gen_bw_F11 -> wd_single ρ gen_bw ->
  denC ρ gen_bw_F11 = csym ρ "beta[1]" * denC ρ gen_bw.
Proof.
  intros [cs cf] Hg H H'. cbn [csym] in Hg. unfold gen_bw_F11, gen_bw in *.
  unfold wd_single in H'. dens_of H'. unfold wd_single in H; dens_of H. denC_simpl. cbn [csym].
  rewrite Hg in *. name_dens. inv_inner. fld_close.
Qed.
(* relativistic F-hat(n=1, n_R=1, gamma=1) = beta * relativistic_breit_wigner_with_ff for a real
   positive phase-space value; EnergyDependentWidth, FormFactor, rhoX are opaque *)
Lemma bw_Fhat11 : forall ρ x, csym ρ "gamma[1, 0]" = 1 ->
  cfn ρ "rhoX" [csym ρ "s"; csym ρ "m_a[0]"; csym ρ "m_b[0]"] = RtoC x -> (0 < x)%R ->
  wd_single ρ gen_bw_Fhat11 -> wd_single ρ gen_bw_ff ->
  denC ρ gen_bw_Fhat11 = csym ρ "beta[1]" * denC ρ gen_bw_ff.
Proof.
  intros [cs cf] x Hg Hx Hx0 H H'. cbn [csym cfn] in Hg, Hx. unfold gen_bw_Fhat11, gen_bw_ff in *.
  unfold wd_single in H'. dens_of H'. unfold wd_single in H; dens_of H. denC_simpl. cbn [csym].
  rewrite Hg, Hx in *. rewrite ?Csqrt_nonneg in * by lra. rewrite ?Cconj_R in *.
  assert (Hr : RtoC (sqrt x) <> 0) by (apply RtoC_neq0, Rgt_not_eq, sqrt_lt_R0; lra).
  set (r := RtoC (sqrt x)) in *. clearbody r.
  repeat match goal with |- context [cf ?h ?vs] => let w := fresh "w" in set (w := cf h vs) in *; clearbody w end.
  name_dens. inv_inner. fld_close.
Qed.

(* ---------- non-vacuity ---------- *)
Definition ex_F : envC :=
  envC_of [("K[0, 0]", RtoC 1); ("K[0, 1]", RtoC 2); ("K[1, 0]", RtoC 2); ("K[1, 1]", RtoC 3);
           ("P[0, 0]", RtoC 1); ("P[1, 0]", RtoC 2); ("rho0", RtoC 1); ("rho1", RtoC 4)]
          (fun _ _ => 1).
Ltac ne_concrete :=
  lift_R;
  first [ apply C_neq0_im; unfold Cplus, Cmult, Copp, Cconj, Ci, RtoC; cbn [fst snd]; lra
        | apply C_neq0_re; unfold Cplus, Cmult, Copp, Cconj, Ci, RtoC; cbn [fst snd]; lra ].
Lemma ex_F_hyps : wdV ex_F gen_nr_F2 /\ sqrt_ok ex_F "rho0" /\ sqrt_ok ex_F "rho1".
Proof.
  split; [|split].
  - unfold ex_F, gen_nr_F2. cbv [wdV wdMC all_wdC]. denC_simpl. repeat split; try exact I; ne_concrete.
  - apply (sqrt_ok_real ex_F "rho0" 1); [reflexivity | lra].
  - apply (sqrt_ok_real ex_F "rho1" 4); [reflexivity | lra].
Qed.

Definition ex_bw : envC :=
  envC_of [("s", RtoC 2); ("m[1]", RtoC 1); ("Gamma[1, 0]", RtoC 1); ("gamma[1, 0]", RtoC 1); ("beta[1]", RtoC 3)]
          (fun _ _ => 1).
Lemma ex_bw_hyps :
  csym ex_bw "gamma[1, 0]" = 1 /\ wd_single ex_bw gen_bw_T11 /\ wd_single ex_bw gen_bw_F11 /\
  wd_single ex_bw gen_bw /\ wd_single ex_bw gen_bw_gamma.
Proof.
  split; [reflexivity|].
  unfold ex_bw, gen_bw_T11, gen_bw_F11, gen_bw, gen_bw_gamma. cbv [wd_single wdMC all_wdC]. denC_simpl.
  repeat split; try exact I; ne_concrete.
Qed.
