(* C01 — property theorems.  Statements only, each closed by [exact] of a lemma.
   [model], [expression], [closure_ok], [gden] are in coq/theories/Closure.v; [gen_models] is the
   list of models regenerated from /repo's current source in this run (build/C01/Gen_C01.v). *)
From AV Require Import Closure Closure_proofs.
From AVchk Require Import Gen_C01 C01_lemmas.
Open Scope string_scope.

(* Generic soundness of the checker: for EVERY model that passes it ... *)

(* ... each free symbol of the full intensity expression is a parameter xor a kinematic variable *)
Theorem C01_symbol_is_parameter_xor_kinematic_variable :
  forall m, closure_ok m = true -> forall s, In s (syms (expression m)) ->
    (In s (params m) /\ ~ In s (map fst (kinvars m))) \/
    (In s (map fst (kinvars m)) /\ ~ In s (params m)).
Proof. exact closure_param_xor_kinvar. Qed.

(* ... every amplitude symbol that the intensity sums over has a definition *)
Theorem C01_amplitude_symbols_defined :
  forall m, closure_ok m = true -> forall s, In s (syms (unfolded m)) -> is_amp s = true ->
    exists t, assoc (amps m) s = Some t.
Proof. exact closure_amplitudes_defined. Qed.

(* ... every kinematic-variable expression depends on parameters and final-state momenta only *)
Theorem C01_kinematic_variables_from_momenta :
  forall m, closure_ok m = true -> forall k e s, In (k, e) (kinvars m) -> In s (syms e) ->
    In s (params m) \/ In s (momenta m).
Proof. exact closure_kinvars_from_momenta. Qed.

(* ... hence, for EVERY value type and EVERY interpretation of numbers and of all function
   heads, the value of the model is determined by four-momenta and parameter values alone *)
Theorem C01_evaluable_from_momenta_and_parameters :
  forall m, closure_ok m = true ->
  forall (V : Type) (N : Q -> V) (F : head -> list V -> V) (ρ1 ρ2 : string -> V),
    (forall s, In s (params m) \/ In s (momenta m) -> ρ1 s = ρ2 s) ->
    gden V N F ρ1 (full_expression m) = gden V N F ρ2 (full_expression m).
Proof. exact closure_evaluable. Qed.

(* The instances: every model formulated from the current source in this run passes. *)
Theorem C01_current_models_closed :
  forall name m, In (name, m) gen_models -> closure_ok m = true.
Proof. exact gen_model_ok. Qed.

Example C01_models_were_generated : (0 < length gen_models)%nat.
Proof. exact gen_models_nonempty. Qed.

Example C01_first_model_is_nontrivial :
  match gen_models with
  | (_, m) :: _ =>
      existsb (fun s => mem s (params m)) (syms (expression m))
      && existsb (fun s => mem s (map fst (kinvars m))) (syms (expression m))
      && existsb is_amp (syms (unfolded m))
  | [] => false
  end = true.
Proof. exact gen_first_model_nontrivial. Qed.

(* negative control (the checker is not vacuous): a custom lineshape with an undefined symbol *)
Example C01_checker_rejects_open_model :
  closure_ok hole_model = false /\ undefined_or_double hole_model <> [].
Proof. exact hole_model_rejected. Qed.

Print Assumptions C01_symbol_is_parameter_xor_kinematic_variable.
Print Assumptions C01_amplitude_symbols_defined.
Print Assumptions C01_kinematic_variables_from_momenta.
Print Assumptions C01_evaluable_from_momenta_and_parameters.
Print Assumptions C01_current_models_closed.
