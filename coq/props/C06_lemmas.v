(* C06 — lemmas.  Skel_C06.v is written on every run by bridge/purity_C06.py from what the
   running implementation was OBSERVED to do (which object define_symbols returns, whether
   formulate() resets its scratch, whether naming setters re-register, whether any
   functools-memoised value was written or went stale). *)
From Coq Require Import List Bool Arith Lia Permutation.
From AV Require Import Purity Purity_proofs.
From AVchk Require Import Skel_C06.
Import ListNotations.

(* ---- the observed skeleton satisfies what formulate_pure assumes ---- *)
Lemma observed_well_behaved : well_behaved observed = true.
Proof. vm_compute. reflexivity. Qed.
Lemma observed_no_write_through_memo : no_write_through_memo observed = true.
Proof. vm_compute. reflexivity. Qed.
Lemma observed_memo_values_stable :
  memo_written_after_insertion = false /\ memo_stale_on_recompute = false.
Proof. split; vm_compute; reflexivity. Qed.

(* ---- the toy instance satisfies the hypotheses of the general theorems ---- *)
Lemma toy_xrepl_ext : forall (f g : nat -> option Toy.tval) e,
  (forall k, f k = g k) -> Toy.t_xrepl f e = Toy.t_xrepl g e.
Proof.
  intros f g e H. unfold Toy.t_xrepl. induction e as [|a e IH]; simpl; auto.
  rewrite H, IH. reflexivity.
Qed.

Lemma toy_compat : forall r t1 t2 k (v1 v2 : Toy.tval),
  dlast Nat.eqb (Toy.t_topo_vars r t1) k = Some v1 ->
  dlast Nat.eqb (Toy.t_topo_vars r t2) k = Some v2 -> v1 = v2.
Proof.
  intros r t1 t2 k v1 v2 H1 H2. unfold dlast, Toy.t_topo_vars in *. simpl in H1, H2.
  destruct (Nat.eqb_spec k (S (S (S (S (S (S (S (S (S (S (S (S (S (S (S (S (S (S (S (S t1)))))))))))))))))))));
  destruct (Nat.eqb_spec k (S (S (S (S (S (S (S (S (S (S (S (S (S (S (S (S (S (S (S (S t2))))))))))))))))))))).
  - assert (t1 = t2) by lia. subst. congruence.
  - subst k. simpl in H2. discriminate.
  - subst k. simpl in H1. discriminate.
  - destruct k as [|[|[|[|k]]]]; simpl in H1, H2; congruence.
Qed.

Definition bt2 (r : nat) : list nat := [0; 1].
Definition po3 (t : nat) : list nat := [0; 1; 2].
Definition dk2 (r sel : nat) : list nat := [2 * sel; 2 * sel + 1].
Notation trun := (Toy.t_run bt2 po3 dk2).
Notation tspec := Toy.t_spec.
Notation tinit := (init Toy.tval (list nat)).

(* DPD model without, then with stable_final_state_ids, on ONE builder *)
Definition witness_ops : list op :=
  [NewBuilder 0; SetConfig 0 (FAlign (DPD 1)); Formulate 0 [];
   SetConfig 0 (FStable (Some [1; 2])); Formulate 0 []].
(* the same through a second builder that shares the reaction *)
Definition witness_ops2 : list op :=
  [NewBuilder 0; NewBuilder 0; SetConfig 0 (FAlign (DPD 1)); SetConfig 1 (FAlign (DPD 1));
   SetConfig 1 (FStable (Some [2; 1])); Formulate 0 [1; 0]; Formulate 1 []].

Lemma toy_pure_all : forall sk ops, well_behaved sk = true ->
  Forall (fun x => snd x = tspec (fst (fst x)) (snd (fst x))) (snd (trun sk tinit ops)).
Proof.
  intros. unfold Toy.t_run, Toy.t_spec.
  apply formulate_pure_thm; [exact toy_xrepl_ext|exact toy_compat|assumption].
Qed.

Lemma refuted_pinned :
  (forall (f g : nat -> option Toy.tval) e, (forall k, f k = g k) -> Toy.t_xrepl f e = Toy.t_xrepl g e)
  /\ (forall r t1 t2 k (v1 v2 : Toy.tval),
        dlast Nat.eqb (Toy.t_topo_vars r t1) k = Some v1 ->
        dlast Nat.eqb (Toy.t_topo_vars r t2) k = Some v2 -> v1 = v2)
  /\ sk_resets Toy.sk_pinned = true /\ sk_reregisters Toy.sk_pinned = true
  /\ exists ops r c m,
       nth_error (snd (trun Toy.sk_pinned tinit ops)) 1 = Some (r, c, m)
       /\ m <> tspec r c
       /\ dget Nat.eqb (m_kin m) 51 = Some [101; 102; 100]
       /\ dget Nat.eqb (m_kin (tspec r c)) 51 = Some [1; 2; 100].
Proof.
  split; [exact toy_xrepl_ext|]. split; [exact toy_compat|].
  split; [reflexivity|]. split; [reflexivity|].
  exists witness_ops. eexists. eexists. eexists.
  split; [vm_compute; reflexivity|].
  split.
  - intro H. apply (f_equal (fun m => dget Nat.eqb (m_kin m) 51)) in H.
    vm_compute in H. discriminate.
  - split; vm_compute; reflexivity.
Qed.

Lemma refuted_two_builders : exists r c m,
  nth_error (snd (trun Toy.sk_pinned tinit witness_ops2)) 1 = Some (r, c, m) /\ m <> tspec r c.
Proof.
  eexists. eexists. eexists. split; [vm_compute; reflexivity|].
  intro H. apply (f_equal (fun m => dget Nat.eqb (m_kin m) 51)) in H. vm_compute in H. discriminate.
Qed.

(* other skeleton defects are also visible to the model *)
Definition sk_noreset : skeleton :=
  {| sk_none := Fresh; sk_axis := Fresh; sk_dpd := MemoCopy; sk_resets := false; sk_reregisters := true |}.
Definition sk_noreregister : skeleton :=
  {| sk_none := Fresh; sk_axis := Fresh; sk_dpd := MemoCopy; sk_resets := true; sk_reregisters := false |}.
Lemma refuted_noreset : exists ops r c m,
  nth_error (snd (trun sk_noreset tinit ops)) 1 = Some (r, c, m) /\ m <> tspec r c.
Proof.
  exists [NewBuilder 0; SetConfig 0 (FHelCoup true); Formulate 0 [];
          SetConfig 0 (FHelCoup false); Formulate 0 []].
  eexists. eexists. eexists. split; [vm_compute; reflexivity|].
  intro H. apply (f_equal (fun m => length (m_pars m))) in H. vm_compute in H. discriminate.
Qed.
Lemma refuted_noreregister : exists ops r c m,
  nth_error (snd (trun sk_noreregister tinit ops)) 0 = Some (r, c, m) /\ m <> tspec r c.
Proof.
  exists [NewBuilder 0; SetNaming 0 NParent true; Formulate 0 []].
  eexists. eexists. eexists. split; [vm_compute; reflexivity|].
  intro H. apply (f_equal (fun m => dget Nat.eqb (m_comps m) 91)) in H. vm_compute in H. discriminate.
Qed.
