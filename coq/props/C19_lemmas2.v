(* C19 — follow-up lemmas: Kallen on structurally equal arguments and the angle expressions
   with equal mass symbols substituted BEFORE doit() (Gen_C19: gen_kallen_*, eqmass_variants).
   C19_lemmas.v is left untouched (it is also compiled by C07). *)
From AV Require Import DenR PhspMath Dpd.
From AVchk Require Import Gen_C19 C19_lemmas.
From Coq Require Import Lra.
Open Scope R_scope.

Ltac kallen_case := unfold envK, kallenR; den_simpl; split; [repeat split; exact I|field].

(* Kallen(...).doit() called with structurally equal / zero / numeric arguments denotes the
   Kallen polynomial at those arguments *)
Lemma kallen_equal_arguments x y z :
  let ρ := envK x y z in
  (wdR ρ gen_kallen_xyy /\ denR ρ gen_kallen_xyy = kallenR x y y) /\
  (wdR ρ gen_kallen_xxz /\ denR ρ gen_kallen_xxz = kallenR x x z) /\
  (wdR ρ gen_kallen_xyx /\ denR ρ gen_kallen_xyx = kallenR x y x) /\
  (wdR ρ gen_kallen_xxx /\ denR ρ gen_kallen_xxx = kallenR x x x) /\
  (wdR ρ gen_kallen_x00 /\ denR ρ gen_kallen_x00 = kallenR x 0 0) /\
  (wdR ρ gen_kallen_0yy /\ denR ρ gen_kallen_0yy = kallenR 0 y y) /\
  (wdR ρ gen_kallen_xy0 /\ denR ρ gen_kallen_xy0 = kallenR x y 0) /\
  (wdR ρ gen_kallen_x0z /\ denR ρ gen_kallen_x0z = kallenR x 0 z) /\
  (wdR ρ gen_kallen_000 /\ denR ρ gen_kallen_000 = kallenR 0 0 0) /\
  (wdR ρ gen_kallen_sq_equal /\ denR ρ gen_kallen_sq_equal = kallenR x (y^2) (y^2)) /\
  (wdR ρ gen_kallen_sq_first /\ denR ρ gen_kallen_sq_first = kallenR (x^2) (x^2) (z^2)) /\
  (wdR ρ gen_kallen_num_44 /\ denR ρ gen_kallen_num_44 = kallenR x 4 4) /\
  (wdR ρ gen_kallen_num_q /\ denR ρ gen_kallen_num_q = kallenR x (1/4) (1/4)) /\
  (wdR ρ gen_kallen_num_11 /\ denR ρ gen_kallen_num_11 = kallenR 1 1 z).
Proof.
  cbv zeta.
  repeat match goal with |- (_ /\ _ = _) /\ _ => split end.
  - unfold gen_kallen_xyy. kallen_case.
  - unfold gen_kallen_xxz. kallen_case.
  - unfold gen_kallen_xyx. kallen_case.
  - unfold gen_kallen_xxx. kallen_case.
  - unfold gen_kallen_x00. kallen_case.
  - unfold gen_kallen_0yy. kallen_case.
  - unfold gen_kallen_xy0. kallen_case.
  - unfold gen_kallen_x0z. kallen_case.
  - unfold gen_kallen_000. kallen_case.
  - unfold gen_kallen_sq_equal. kallen_case.
  - unfold gen_kallen_sq_first. kallen_case.
  - unfold gen_kallen_num_44. kallen_case.
  - unfold gen_kallen_num_q. kallen_case.
  - unfold gen_kallen_num_11. kallen_case.
Qed.

(* environment in which the identified masses are equal; tag as in symgen_C19.py *)
Definition env_tag (tag : nat) (m0 m1 m2 m3 m12 m13 m23 : R) : env :=
  match tag with
  | 0%nat => envD m0 m1 m1 m3 m12 m13 m23      (* m_2 := m_1 *)
  | 1%nat => envD m0 m1 m2 m1 m12 m13 m23      (* m_3 := m_1 *)
  | 2%nat => envD m0 m1 m2 m2 m12 m13 m23      (* m_3 := m_2 *)
  | _ => envD m0 m1 m1 m1 m12 m13 m23          (* m_2 := m_1, m_3 := m_1 *)
  end.

(* substituting equal mass symbols before doit() gives a tree with the same meaning as the
   generic tree evaluated at equal masses (for ALL real masses, wherever the latter is defined) *)
Definition variant_ok (e : nat * expr * expr) : Prop :=
  forall m0 m1 m2 m3 m12 m13 m23,
  wdR (env_tag (fst (fst e)) m0 m1 m2 m3 m12 m13 m23) (snd (fst e)) ->
  wdR (envD m0 m1 m2 m3 m12 m13 m23) (snd e) /\
  denR (envD m0 m1 m2 m3 m12 m13 m23) (snd e)
  = denR (env_tag (fst (fst e)) m0 m1 m2 m3 m12 m13 m23) (snd (fst e)).

Ltac solve_variant :=
  unfold variant_ok; cbn [fst snd]; intros m0 m1 m2 m3 m12 m13 m23 W;
  eapply tree_transfer;
  [ vm_compute; reflexivity | vm_compute; reflexivity
  | vm_compute; reflexivity | vm_compute; reflexivity | vm_compute; reflexivity
  | unfold env_tag, envD; den_simpl; field
  | first [ left; split; unfold env_tag, envD; den_simpl; field
          | right; split; unfold env_tag, envD; den_simpl; field ]
  | exact W ].

Lemma variants_ok : Forall variant_ok eqmass_variants.
Proof.
  unfold eqmass_variants.
  repeat (apply Forall_cons; [solve_variant|]). apply Forall_nil.
Qed.

Lemma variants_count : length eqmass_variants = 72%nat.
Proof. reflexivity. Qed.

(* composed with the geometric theorem, for the pair the equal-mass shortcut would hit:
   theta_12 with m_2 := m_1 substituted before doit() is the helicity angle *)
Lemma theta12_equal_masses : forall E1 x1 y1 z1 E2 x2 y2 z2 E3 x3 y3 z3 m0 m1 m2' m3 m12 m13 m23,
  is_event E1 x1 y1 z1 E2 x2 y2 z2 E3 x3 y3 z3 m0 m1 m1 m3 m12 m13 m23 ->
  interior x2 y2 z2 x3 y3 z3 ->
  wdR (envD m0 m1 m2' m3 m12 m13 m23) gen_scat_1_2_eq0 /\
  denR (envD m0 m1 m2' m3 m12 m13 m23) gen_scat_1_2_eq0
  = acos (- cosf (vadd (V4 E1 x1 y1 z1) (V4 E2 x2 y2 z2)) (V4 E1 x1 y1 z1) (V4 E3 x3 y3 z3)).
Proof.
  assert (V : variant_ok (0%nat, gen_scat_1_2, gen_scat_1_2_eq0)) by solve_variant.
  intros E1 x1 y1 z1 E2 x2 y2 z2 E3 x3 y3 z3 m0 m1 m2' m3 m12 m13 m23 Hev Hint.
  destruct (scat_1_2_ok _ _ _ _ _ _ _ _ _ _ _ _ _ _ _ _ _ _ _ Hev Hint) as (_ & W & D).
  cbv zeta in W, D. cbn [fst snd] in W, D.
  destruct (V m0 m1 m2' m3 m12 m13 m23 W) as [W' D']. cbn [fst snd env_tag] in D'.
  split; [exact W'|]. rewrite D', D. f_equal. ring.
Qed.
