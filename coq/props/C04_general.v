(* C04 — the bridge from the regenerated helicity-frame conventions to the abstract algebra, for
   GENERAL proper rotations (the stabiliser argument).  Proofs; the statements are in
   C04_general_props.v.  F(q) := Ry(-Theta q) . Rz(-Phi q) is [frameM] of C04_lemmas (regenerated). *)
From AV Require Import DenR Mat Rot Rot3 Rot3Euler.
From AVchk Require Import Gen_C04 C04_lemmas.
From Coq Require Import Lra Lia Psatz.
Open Scope R_scope.

Definition envB (b : R) : env := env_of [("b", b)].
Definition Bz (b : R) : mat := denM (envB b) boostz_explicit.
Definition betaR (E x y z : R) : R := denR (envP E x y z) frame_beta.

(* ---------- the regenerated matrices are embeddings of 3x3 rotations ---------- *)
Lemma Rz_emb a : Rz a = emb4 (rz3 (cos a) (sin a)).
Proof. unfold Rz, rotz_explicit, envA, emb4, rz3. mat_simpl. den_simpl. cbn [a11 a12 a13 a21 a22 a23 a31 a32 a33]. mat_eq; field. Qed.
Lemma Ry_emb a : Ry a = emb4 (ry3 (cos a) (sin a)).
Proof. unfold Ry, roty_explicit, envA, emb4, ry3. mat_simpl. den_simpl. cbn [a11 a12 a13 a21 a22 a23 a31 a32 a33]. mat_eq; field. Qed.

Definition F3 (E x y z : R) : M3 :=
  mul3 (ry3 (cos (frameRyArg E x y z)) (sin (frameRyArg E x y z)))
       (rz3 (cos (frameRzArg E x y z)) (sin (frameRzArg E x y z))).

Lemma frameM_emb E x y z : frameM E x y z = emb4 (F3 E x y z).
Proof. unfold frameM, F3. rewrite Ry_emb, Rz_emb, emb4_mul. reflexivity. Qed.

Lemma cs1 a : cos a ^ 2 + sin a ^ 2 = 1.
Proof. pose proof (sin2_cos2 a) as H. unfold Rsqr in H. lra. Qed.

Lemma F3_proper E x y z : proper (F3 E x y z).
Proof. unfold F3. apply proper_mul; [apply proper_ry3 | apply proper_rz3]; apply cs1. Qed.

Lemma F3_aligns E x y z : offaxis x y ->
  mulv (F3 E x y z) (mkv x y z) = scal (norm3 x y z) ez.
Proof.
  intros H. pose proof (frame_aligns E x y z H) as Ha.
  rewrite frameM_emb in Ha. change [E; x; y; z] with (vec4 E (mkv x y z)) in Ha.
  rewrite emb4_vec in Ha. unfold vec4 in Ha.
  destruct (mulv (F3 E x y z) (mkv x y z)) as [a b c]. cbn [vx vy vz] in Ha.
  injection Ha as -> -> ->. unfold scal, ez. cbn [vx vy vz]. f_equal; ring.
Qed.

Lemma norm3_dot x y z : norm3 x y z = sqrt (dot3 (mkv x y z) (mkv x y z)).
Proof. unfold norm3, dot3. cbn [vx vy vz]. f_equal. ring. Qed.

Lemma v3_eta v : mkv (vx v) (vy v) (vz v) = v.
Proof. destruct v; reflexivity. Qed.

(* ---------- the stabiliser argument ---------- *)
Section General.
  Variables (g : M3) (E x y z : R).
  Hypothesis Hg : proper g.
  Let p := mkv x y z.
  Let p' := mulv g p.
  Hypothesis Hoff : offaxis x y.
  Hypothesis Hoff' : offaxis (vx p') (vy p').
  Let A := F3 E (vx p') (vy p') (vz p').
  Let B := F3 E x y z.

  Definition resid : M3 := mul3 (mul3 A g) (tr3 B).

  Lemma norm_preserved : norm3 (vx p') (vy p') (vz p') = norm3 x y z.
  Proof.
    rewrite !norm3_dot. f_equal.
    rewrite (v3_eta p'). unfold p'. apply orth_norm. apply Hg.
  Qed.

  Lemma resid_proper : proper resid.
  Proof.
    unfold resid. apply proper_mul; [apply proper_mul; [apply F3_proper | exact Hg] |].
    apply proper_tr. apply F3_proper.
  Qed.

  Lemma Bt_ez : mulv (tr3 B) ez = scal (/ norm3 x y z) p.
  Proof.
    pose proof (norm3_pos x y z Hoff) as Hn.
    pose proof (F3_aligns E x y z Hoff) as Ha. fold B p in Ha.
    assert (Hp : p = scal (norm3 x y z) (mulv (tr3 B) ez)).
    { rewrite <- mulv_scal, <- Ha, <- mulv_mul.
      destruct (F3_proper E x y z) as [Ho _]. fold B in Ho. unfold orth in Ho. rewrite Ho, mulv_id. reflexivity. }
    rewrite Hp at 1. rewrite scal_scal. replace (/ norm3 x y z * norm3 x y z) with 1 by (field; lra).
    rewrite scal_1. reflexivity.
  Qed.

  Lemma resid_fixes_z : mulv resid ez = ez.
  Proof.
    pose proof (norm3_pos x y z Hoff) as Hn.
    unfold resid. rewrite !mulv_mul, Bt_ez, !mulv_scal. fold p'.
    rewrite <- (v3_eta p'). unfold A. rewrite (F3_aligns E (vx p') (vy p') (vz p') Hoff'), norm_preserved, scal_scal.
    replace (/ norm3 x y z * norm3 x y z) with 1 by (field; lra). apply scal_1.
  Qed.

  Lemma resid_is_rz : exists c s, c ^ 2 + s ^ 2 = 1 /\ resid = rz3 c s.
  Proof. apply stabiliser_z; [exact resid_proper | exact resid_fixes_z]. Qed.

  (* F(g p) . g = resid . F(p)   and   F(g p)^T = g . F(p)^T . resid^T *)
  Lemma resid_intertwines : mul3 A g = mul3 resid B.
  Proof.
    unfold resid. rewrite mul3_assoc.
    destruct (F3_proper E x y z) as [Ho _]. fold B in Ho. unfold orth in Ho. rewrite Ho, mul3_id_r. reflexivity.
  Qed.
  Lemma frame_transposed : tr3 A = mul3 g (mul3 (tr3 B) (tr3 resid)).
  Proof.
    pose proof (proper_right_inverse A (F3_proper _ _ _ _)) as HA.
    assert (Hr : mul3 (tr3 A) resid = mul3 g (tr3 B)).
    { unfold resid. rewrite <- !mul3_assoc.
      destruct (F3_proper E (vx p') (vy p') (vz p')) as [Ho _]. fold A in Ho. unfold orth in Ho.
      rewrite Ho, mul3_id_l. reflexivity. }
    rewrite <- mul3_assoc, <- Hr, mul3_assoc.
    rewrite (proper_right_inverse resid resid_proper), mul3_id_r. reflexivity.
  Qed.
End General.

(* cos/sin pair -> angle *)
Lemma angle_of_pair c s : c ^ 2 + s ^ 2 = 1 -> cos (atan2 s c) = c /\ sin (atan2 s c) = s.
Proof.
  intros H. destruct (atan2_cos_sin s c) as [Hc Hs]; [lra|].
  rewrite H, sqrt_1 in Hc, Hs. split; [rewrite Hc | rewrite Hs]; field.
Qed.

(* ---------- frame_covariant_general, on the regenerated 4x4 matrices ---------- *)
Theorem frame_covariant_general (g : M3) E x y z : proper g -> offaxis x y ->
  let p' := mulv g (mkv x y z) in offaxis (vx p') (vy p') ->
  exists delta,
    (* M = F(g p) . g . F(p)^T is the rotation about z by delta *)
    mmul (mmul (frameM E (vx p') (vy p') (vz p')) (emb4 g)) (transpose (frameM E x y z)) = Rz delta /\
    (* (i) every other momentum q is carried into the subsystem frame up to that z rotation *)
    (forall Eq q, mvec (frameM E (vx p') (vy p') (vz p')) (vec4 Eq (mulv g q))
                  = mvec (Rz delta) (mvec (frameM E x y z) (vec4 Eq q))) /\
    (* (ii) the helicity rotation h(p) = F(p)^T = Rz(Phi) Ry(Theta) transforms as h(g p) = g . h(p) . Rz(-delta) *)
    transpose (frameM E (vx p') (vy p') (vz p'))
      = mmul (emb4 g) (mmul (transpose (frameM E x y z)) (Rz (- delta))).
Proof.
  intros Hg Hoff p' Hoff'.
  destruct (resid_is_rz g E x y z Hg Hoff Hoff') as (c & s & Hcs & Hres).
  destruct (angle_of_pair c s Hcs) as [Hc Hs].
  exists (atan2 s c). rewrite !frameM_emb, !Rz_emb, cos_neg, sin_neg, Hc, Hs.
  fold p'. repeat split.
  - rewrite emb4_tr, !emb4_mul. f_equal. unfold resid in Hres. fold p' in Hres. exact Hres.
  - intros Eq q. rewrite !emb4_vec. f_equal. rewrite <- Hres, <- !mulv_mul. f_equal.
    pose proof (resid_intertwines g E x y z) as Hi. fold p' in Hi. exact Hi.
  - rewrite !emb4_tr, !emb4_mul. f_equal.
    pose proof (frame_transposed g E x y z Hg) as Ht. fold p' in Ht. rewrite Ht, Hres, rz3_tr. reflexivity.
Qed.

Lemma frame_residual_is_z_rotation : forall (g : M3) E x y z, proper g -> offaxis x y ->
  let p' := mulv g (mkv x y z) in offaxis (vx p') (vy p') ->
  exists c s, c ^ 2 + s ^ 2 = 1 /\
    mul3 (mul3 (F3 E (vx p') (vy p') (vz p')) g) (tr3 (F3 E x y z)) = rz3 c s /\
    frameM E x y z = emb4 (F3 E x y z) /\ frameM E (vx p') (vy p') (vz p') = emb4 (F3 E (vx p') (vy p') (vz p')).
Proof.
  intros g E x y z Hg Hoff p' Hoff'.
  destruct (resid_is_rz g E x y z Hg Hoff Hoff') as (c & s & H1 & H2).
  exists c, s. split; [exact H1|]. split; [exact H2|]. split; apply frameM_emb.
Qed.

(* ---------- the z boost commutes with rotations about z (regenerated BoostZMatrix) ---------- *)
Ltac abstract_piecewise :=
  repeat match goal with
         | |- context [if ?c then ?u else ?v] =>
             let G := fresh "G" in set (G := if c then u else v) in *; clearbody G
         end.

Lemma boostz_commutes_rotz b a : mmul (Bz b) (Rz a) = mmul (Rz a) (Bz b).
Proof.
  unfold Bz, Rz, boostz_explicit, rotz_explicit, envB, envA. mat_simpl. den_simpl.
  abstract_piecewise. mat_eq; field.
Qed.
Lemma boostz_commutes_rotz_vec b a t u v w :
  mvec (Bz b) (mvec (Rz a) [t; u; v; w]) = mvec (Rz a) (mvec (Bz b) [t; u; v; w]).
Proof.
  unfold Bz, Rz, boostz_explicit, rotz_explicit, envB, envA. mat_simpl. den_simpl.
  abstract_piecewise. mat_eq; field.
Qed.
Lemma boostz_keeps_transverse b t u v w :
  exists k0 k3, mvec (Bz b) [t; u; v; w] = [k0; u; v; k3].
Proof.
  unfold Bz, boostz_explicit, envB. mat_simpl. den_simpl. abstract_piecewise.
  eexists. eexists. mat_eq; try reflexivity; field.
Qed.

(* the boost parameter of the frame depends only on E and |p|: unchanged by the rotation *)
Lemma beta_invariant (g : M3) E x y z : proper g ->
  let p' := mulv g (mkv x y z) in betaR E (vx p') (vy p') (vz p') = betaR E x y z.
Proof.
  intros Hg p'. pose proof (norm_preserved g x y z Hg) as Hn. fold p' in Hn.
  unfold norm3 in Hn. unfold betaR, frame_beta, envP. den_simpl.
  replace (vx p' ^ 2 + (vy p' ^ 2 + (vz p' ^ 2 + 0))) with (vx p' ^ 2 + vy p' ^ 2 + vz p' ^ 2) by ring.
  replace (x ^ 2 + (y ^ 2 + (z ^ 2 + 0))) with (x ^ 2 + y ^ 2 + z ^ 2) by ring.
  rewrite Hn. reflexivity.
Qed.

(* ---------- second-level momenta and angles under a general rotation ---------- *)
Definition level2 (E x y z Eq : R) (q : V3) : list R :=
  mvec (Bz (betaR E x y z)) (mvec (frameM E x y z) (vec4 Eq q)).

Lemma deeper_frames_for_delta (g : M3) E x y z delta : proper g ->
  let p' := mulv g (mkv x y z) in
  (forall Eq q, mvec (frameM E (vx p') (vy p') (vz p')) (vec4 Eq (mulv g q))
                = mvec (Rz delta) (mvec (frameM E x y z) (vec4 Eq q))) ->
  forall Eq q, exists kE kx ky kz,
      level2 E x y z Eq q = [kE; kx; ky; kz] /\
      level2 E (vx p') (vy p') (vz p') Eq (mulv g q) = rotz_mom delta kE kx ky kz /\
      (offaxis kx ky ->
       let kx' := kx * cos delta - ky * sin delta in let ky' := kx * sin delta + ky * cos delta in
       level2 E (vx p') (vy p') (vz p') Eq (mulv g q) = [kE; kx'; ky'; kz] /\ offaxis kx' ky' /\
       ThetaR kE kx' ky' kz = ThetaR kE kx ky kz /\
       cos (PhiR kE kx' ky' kz) = cos (PhiR kE kx ky kz + delta) /\
       sin (PhiR kE kx' ky' kz) = sin (PhiR kE kx ky kz + delta) /\
       (* the second-level helicity frame only picks up the inverse z rotation *)
       mmul (frameM kE kx' ky' kz) (Rz delta) = frameM kE kx ky kz).
Proof.
  intros Hg p' Hq Eq q.
  unfold level2. pose proof (beta_invariant g E x y z Hg) as Hb. cbv zeta in Hb. fold p' in Hb. rewrite Hb, Hq.
  remember (mvec (frameM E x y z) (vec4 Eq q)) as f eqn:Hf.
  assert (exists t u v w, f = [t; u; v; w]) as (t & u & v & w & ->).
  { subst f. rewrite frameM_emb, emb4_vec. unfold vec4. eauto. }
  rewrite boostz_commutes_rotz_vec.
  destruct (boostz_keeps_transverse (betaR E x y z) t u v w) as (k0 & k3 & Hk). rewrite Hk.
  exists k0, u, v, k3. split; [reflexivity|]. split; [reflexivity|].
  intros Hoffk. unfold rotz_mom.
  pose proof (rotz_shifts_phi delta k0 u v k3 Hoffk) as Hr. cbv zeta in Hr. destruct Hr as (Ho & Ht & Hc & Hs).
  split; [exact (rotz_mom_value delta k0 u v k3)|]. repeat split; try assumption.
  exact (frame_covariant_z delta k0 u v k3 Hoffk).
Qed.

Theorem deeper_frames_invariant_general (g : M3) E x y z : proper g -> offaxis x y ->
  let p' := mulv g (mkv x y z) in offaxis (vx p') (vy p') ->
  exists delta,
    mmul (mmul (frameM E (vx p') (vy p') (vz p')) (emb4 g)) (transpose (frameM E x y z)) = Rz delta /\
    forall Eq q, exists kE kx ky kz,
      level2 E x y z Eq q = [kE; kx; ky; kz] /\
      level2 E (vx p') (vy p') (vz p') Eq (mulv g q) = rotz_mom delta kE kx ky kz /\
      (offaxis kx ky ->
       let kx' := kx * cos delta - ky * sin delta in let ky' := kx * sin delta + ky * cos delta in
       level2 E (vx p') (vy p') (vz p') Eq (mulv g q) = [kE; kx'; ky'; kz] /\ offaxis kx' ky' /\
       ThetaR kE kx' ky' kz = ThetaR kE kx ky kz /\
       cos (PhiR kE kx' ky' kz) = cos (PhiR kE kx ky kz + delta) /\
       sin (PhiR kE kx' ky' kz) = sin (PhiR kE kx ky kz + delta) /\
       mmul (frameM kE kx' ky' kz) (Rz delta) = frameM kE kx ky kz).
Proof.
  intros Hg Hoff p' Hoff'.
  destruct (frame_covariant_general g E x y z Hg Hoff Hoff') as (delta & HM & Hq & _). fold p' in HM, Hq.
  exists delta. split; [exact HM|]. exact (deeper_frames_for_delta g E x y z delta Hg Hq).
Qed.

(* ---------- the instance of the abstract cascade (AV.Rot) this provides ---------- *)
From Coquelicot Require Import Complex.
From Coq Require Import Classical_Prop.

(* the group G of the abstract algebra is instantiated with the proper rotations *)
Definition SO3 : Type := { A : M3 | proper A }.
Definition so3_mul (a b : SO3) : SO3 :=
  exist _ (mul3 (proj1_sig a) (proj1_sig b)) (proper_mul _ _ (proj2_sig a) (proj2_sig b)).
Lemma so3_eq (a b : SO3) : proj1_sig a = proj1_sig b -> a = b.
Proof. destruct a as [A HA], b as [B HB]. cbn. intros ->. f_equal. apply proof_irrelevance. Qed.
(* rotation about z by a, and the helicity rotation h(q) = F(q)^T = Rz(Phi q) Ry(Theta q) *)
Definition so3_rz (a : R) : SO3 := exist _ (rz3 (cos a) (sin a)) (proper_rz3 _ _ (cs1 a)).
Definition hel3 (E x y z : R) : SO3 :=
  exist _ (tr3 (F3 E x y z)) (proper_tr _ (F3_proper E x y z)).

(* ... which are the regenerated matrices *)
Lemma so3_regenerated a E x y z :
  emb4 (proj1_sig (so3_rz a)) = Rz a /\
  emb4 (proj1_sig (hel3 E x y z)) = transpose (frameM E x y z) /\
  transpose (frameM E x y z) = mmul (Rz (PhiR E x y z)) (Ry (ThetaR E x y z)).
Proof.
  split; [symmetry; apply Rz_emb|]. split.
  - cbn [proj1_sig hel3]. rewrite frameM_emb, emb4_tr. reflexivity.
  - unfold frameM. destruct (frame_args E x y z) as [-> ->].
    destruct (frame_is_inverse_euler (ThetaR E x y z) (PhiR E x y z)) as (Ht & _ & _).
    rewrite Ht. rewrite !Rz_emb, !Ry_emb, emb4_mul, emb4_tr, emb4_tr, tr3_tr3. reflexivity.
Qed.

Lemma hel3_second_level d kE kx ky kz : offaxis kx ky ->
  hel3 kE (kx * cos d - ky * sin d) (kx * sin d + ky * cos d) kz = so3_mul (so3_rz d) (hel3 kE kx ky kz).
Proof.
  intros H. apply so3_eq. cbn [proj1_sig hel3 so3_mul so3_rz].
  pose proof (frame_covariant_z d kE kx ky kz H) as Hc. cbv zeta in Hc.
  rewrite !frameM_emb, Rz_emb, emb4_mul in Hc. apply emb4_inj in Hc.
  rewrite <- Hc, tr3_mul, <- mul3_assoc.
  rewrite <- (tr3_tr3 (rz3 (cos d) (sin d))) at 1.
  assert (Hp : proper (tr3 (rz3 (cos d) (sin d)))) by (apply proper_tr, proper_rz3, cs1).
  destruct Hp as [Ho _]. unfold orth in Ho. rewrite Ho, mul3_id_l. reflexivity.
Qed.

Lemma hel3_first_level (g : SO3) E x y z : offaxis x y ->
  let p' := mulv (proj1_sig g) (mkv x y z) in offaxis (vx p') (vy p') ->
  exists delta,
    hel3 E (vx p') (vy p') (vz p') = so3_mul g (so3_mul (hel3 E x y z) (so3_rz (- delta))) /\
    (forall Eq q, mvec (frameM E (vx p') (vy p') (vz p')) (vec4 Eq (mulv (proj1_sig g) q))
                  = mvec (Rz delta) (mvec (frameM E x y z) (vec4 Eq q))).
Proof.
  intros Hoff p' Hoff'. destruct g as [g Hg]. cbn [proj1_sig] in *.
  destruct (frame_covariant_general g E x y z Hg Hoff Hoff') as (dl & _ & Hq & Hh). fold p' in Hq, Hh.
  exists dl. split; [|exact Hq].
  apply so3_eq. cbn [proj1_sig hel3 so3_mul so3_rz].
  rewrite !frameM_emb, !emb4_tr, Rz_emb, !emb4_mul in Hh. apply emb4_inj in Hh. exact Hh.
Qed.

Lemma cascade_frames_instance : forall (g : SO3) E x y z Eq q, offaxis x y ->
  let p' := mulv (proj1_sig g) (mkv x y z) in offaxis (vx p') (vy p') ->
  forall kE kx ky kz, level2 E x y z Eq q = [kE; kx; ky; kz] -> offaxis kx ky ->
  exists delta kx' ky',
    level2 E (vx p') (vy p') (vz p') Eq (mulv (proj1_sig g) q) = [kE; kx'; ky'; kz] /\
    hel3 E (vx p') (vy p') (vz p') = so3_mul g (so3_mul (hel3 E x y z) (so3_rz (- delta))) /\
    hel3 kE kx' ky' kz = so3_mul (so3_rz delta) (hel3 kE kx ky kz).
Proof.
  intros g E x y z Eq q Hoff p' Hoff' kE kx ky kz Hk Hoffk.
  destruct (hel3_first_level g E x y z Hoff Hoff') as (dl & Hh & Hq). fold p' in Hh, Hq.
  destruct (deeper_frames_for_delta (proj1_sig g) E x y z dl (proj2_sig g) Hq Eq q)
    as (kE0 & kx0 & ky0 & kz0 & Hk0 & _ & Hrest). fold p' in Hrest.
  rewrite Hk in Hk0. injection Hk0 as <- <- <- <-.
  destruct (Hrest Hoffk) as (Hk' & _).
  exists dl, (kx * cos dl - ky * sin dl), (kx * sin dl + ky * cos dl).
  split; [exact Hk'|]. split; [exact Hh|]. exact (hel3_second_level dl kE kx ky kz Hoffk).
Qed.

Section CascadeInstance.
  Variables (J I : Type) (I_eq_dec : forall a b : I, {a = b} + {a <> b}).
  Variable rng : J -> list I.
  Variable D : J -> SO3 -> I -> I -> C.
  Hypothesis rng_nodup : forall j, NoDup (rng j).
  Hypothesis D_mul : forall j g h m m', In m (rng j) -> In m' (rng j) ->
    D j (so3_mul g h) m m' = csum (rng j) (fun k => (D j g m k * D j h k m')%C).
  Hypothesis D_unit : forall j g m m', In m (rng j) -> In m' (rng j) ->
    csum (rng j) (fun k => (Cconj (D j g k m) * D j g k m')%C) = delta I I_eq_dec m m'.
  (* Wigner matrices of a rotation about z are diagonal, with a character that does not depend on the spin *)
  Hypothesis D_rz_diag : forall j a m m', In m (rng j) -> In m' (rng j) -> m <> m' ->
    D j (so3_rz a) m m' = RtoC 0.
  Variables Jt s : J.
  Variable lam : list I.
  Hypothesis lam_Jt : forall l, In l lam -> In l (rng Jt).
  Hypothesis lam_s : forall l, In l lam -> In l (rng s).
  Hypothesis D_rz_char : forall a l, In l lam -> (D Jt (so3_rz (- a)) l l * D s (so3_rz a) l l)%C = RtoC 1.
  Variable a2 : I -> I -> C.

  (* the two-node amplitude formulated with the code's frames, for the event (p; q) *)
  Definition amp_event (E x y z kE kx ky kz : R) (nu M : I) : C :=
    amp2 SO3 J I D Jt s lam a2 (hel3 E x y z) (hel3 kE kx ky kz) nu M.

  Theorem cascade_invariant_general_rotation (g : SO3) E x y z Eq q (nus : list I) :
    offaxis x y ->
    let p' := mulv (proj1_sig g) (mkv x y z) in offaxis (vx p') (vy p') ->
    (forall nu, In nu nus -> In nu (rng s)) ->
    forall kE kx ky kz, level2 E x y z Eq q = [kE; kx; ky; kz] -> offaxis kx ky ->
    exists kx' ky',
      level2 E (vx p') (vy p') (vz p') Eq (mulv (proj1_sig g) q) = [kE; kx'; ky'; kz] /\
      csum nus (fun nu => csum (rng Jt) (fun M => norm2 (amp_event E (vx p') (vy p') (vz p') kE kx' ky' kz nu M)))
      = csum nus (fun nu => csum (rng Jt) (fun M => norm2 (amp_event E x y z kE kx ky kz nu M))).
  Proof.
    intros Hoff p' Hoff' Hnus kE kx ky kz Hk Hoffk.
    destruct (hel3_first_level g E x y z Hoff Hoff') as (dl & Hh & Hq). fold p' in Hh, Hq.
    destruct (deeper_frames_for_delta (proj1_sig g) E x y z dl (proj2_sig g) Hq Eq q)
      as (kE0 & kx0 & ky0 & kz0 & Hk0 & _ & Hrest).
    fold p' in Hrest.
    rewrite Hk in Hk0. injection Hk0 as <- <- <- <-.
    destruct (Hrest Hoffk) as (Hk' & _ & _ & _ & _ & _).
    exists (kx * cos dl - ky * sin dl), (kx * sin dl + ky * cos dl). split; [exact Hk'|].
    unfold amp_event. rewrite Hh, (hel3_second_level dl kE kx ky kz Hoffk).
    apply (cascade_invariant SO3 so3_mul J I I_eq_dec rng rng_nodup D D_mul D_unit Jt s lam lam_Jt lam_s a2
             (so3_rz (- dl)) (so3_rz dl)).
    - intros m m' Hm Hm' Hne. apply D_rz_diag; assumption.
    - intros m m' Hm Hm' Hne. apply D_rz_diag; assumption.
    - intros l Hl. apply D_rz_char. exact Hl.
    - exact Hnus.
  Qed.
End CascadeInstance.

(* ---------- non-vacuity ---------- *)
(* a proper rotation that is not about z (a quarter turn about x), p and g p off the z axis *)
Definition quarter_x : M3 := mk3 1 0 0 0 0 (-1) 0 1 0.
Lemma quarter_x_proper : proper quarter_x.
Proof. split; [unfold orth|]; unfold quarter_x; m3; [f_equal; ring | ring]. Qed.
Lemma quarter_x_example :
  let p' := mulv quarter_x (mkv 1 1 1) in offaxis 1 1 /\ offaxis (vx p') (vy p') /\ p' = mkv 1 (-1) 1.
Proof. cbv zeta. unfold quarter_x, mulv, offaxis. cbn [a11 a12 a13 a21 a22 a23 a31 a32 a33 vx vy vz]. repeat split; try lra. f_equal; ring. Qed.
(* the hypotheses of CascadeInstance are consistent (trivial representation; the true Wigner matrices are
   trusted to satisfy them, see TRUSTED) *)
Lemma cascade_instance_hypotheses_satisfiable :
  let D := fun (_ : unit) (_ : SO3) (_ _ : unit) => RtoC 1 in
  let rng := fun _ : unit => [tt] in
  (forall j, NoDup (rng j)) /\
  (forall j g h m m', In m (rng j) -> In m' (rng j) ->
     D j (so3_mul g h) m m' = csum (rng j) (fun k => (D j g m k * D j h k m')%C)) /\
  (forall j g m m', In m (rng j) -> In m' (rng j) ->
     csum (rng j) (fun k => (Cconj (D j g k m) * D j g k m')%C)
     = delta unit (fun a b : unit => match a, b with tt, tt => left eq_refl end) m m') /\
  (forall j a m m', In m (rng j) -> In m' (rng j) -> m <> m' -> D j (so3_rz a) m m' = RtoC 0) /\
  (forall a l, In l [tt] -> (D tt (so3_rz (- a)) l l * D tt (so3_rz a) l l)%C = RtoC 1).
Proof.
  cbv zeta. repeat split.
  - intros _. repeat constructor. intros [].
  - intros. cbn. ring.
  - intros j g [] [] _ _. unfold delta. cbn. rewrite Cconj_1. ring.
  - intros j a [] [] _ _ H. exfalso. apply H. reflexivity.
  - intros. ring.
Qed.

(* ---------- Euler angles of the Wigner rotation (compute_wigner_angles, regenerated trees) ---------- *)

Definition envM (M : M3) : env :=
  env_of [("m11", a11 M); ("m12", a12 M); ("m13", a13 M); ("m21", a21 M); ("m22", a22 M); ("m23", a23 M);
          ("m31", a31 M); ("m32", a32 M); ("m33", a33 M)].
Definition wAlpha (M : M3) : R := denR (envM M) wigner_alpha.
Definition wBeta (M : M3) : R := denR (envM M) wigner_beta.
Definition wGamma (M : M3) : R := denR (envM M) wigner_gamma.

Lemma wigner_angle_values M :
  wAlpha M = atan2 (a32 M) (a31 M) /\ wBeta M = acos (a33 M) /\ wGamma M = atan2 (a23 M) (- a13 M).
Proof.
  unfold wAlpha, wBeta, wGamma, wigner_alpha, wigner_beta, wigner_gamma, envM. den_simpl.
  repeat split. f_equal. field.
Qed.

Lemma wigner_angles_wd M : proper M -> -1 < a33 M < 1 ->
  wdR (envM M) wigner_alpha /\ wdR (envM M) wigner_beta /\ wdR (envM M) wigner_gamma.
Proof.
  intros HM H33.
  pose proof (proper_right_inverse M HM) as Hr. destruct HM as [Ho Hd]. unfold orth in Ho.
  destruct M as [m11 m12 m13 m21 m22 m23 m31 m32 m33].
  unfold tr3, mul3, id3 in *. cbn [a11 a12 a13 a21 a22 a23 a31 a32 a33] in *.
  injection Ho as O11 O12 O13 O21 O22 O23 O31 O32 O33.
  injection Hr as R11 R12 R13 R21 R22 R23 R31 R32 R33.
  unfold wigner_alpha, wigner_beta, wigner_gamma, envM. den_simpl.
  cbn [a11 a12 a13 a21 a22 a23 a31 a32 a33] in *.
  assert (m33 * m33 < 1) by nra.
  assert (Ha : m32 <> 0 \/ m31 <> 0).
  { destruct (Req_dec m32 0) as [E2|]; [right|left; assumption]. intros E1. subst. nra. }
  assert (Hg : m23 <> 0 \/ -1 / 1 * (m13 * 1) <> 0).
  { destruct (Req_dec m23 0) as [E2|]; [right|left; assumption]. intros E1.
    assert (m13 = 0) by lra. subst. nra. }
  repeat split; try assumption; lra.
Qed.

(* Rz(alpha) Ry(beta) Rz(gamma), with the code's alpha, beta, gamma and the code's rotation matrices,
   is the transpose (= inverse) of the rotation the angles were read from *)
Theorem wigner_euler_reconstructs M : proper M -> -1 < a33 M < 1 ->
  mmul (Rz (wAlpha M)) (mmul (Ry (wBeta M)) (Rz (wGamma M))) = transpose (emb4 M).
Proof.
  intros HM H33.
  destruct (wigner_angle_values M) as (Ea & Eb & Eg). rewrite Ea, Eb, Eg.
  pose proof (proper_right_inverse M HM) as Hr. pose proof HM as [Ho Hd]. unfold orth in Ho.
  set (s := sqrt (1 - a33 M ^ 2)).
  assert (H1 : 0 < 1 - a33 M ^ 2) by nra.
  assert (Hs : 0 < s) by (apply sqrt_lt_R0; exact H1).
  assert (Hs2 : s ^ 2 = 1 - a33 M ^ 2) by (unfold s; apply pow2_sqrt; lra).
  assert (Hrow : a31 M ^ 2 + a32 M ^ 2 = 1 - a33 M ^ 2).
  { destruct M as [m11 m12 m13 m21 m22 m23 m31 m32 m33]. unfold tr3, mul3, id3 in Hr.
    cbn [a11 a12 a13 a21 a22 a23 a31 a32 a33] in *. injection Hr as _ _ _ _ _ _ _ _ R33. nra. }
  assert (Hcol : (- a13 M) ^ 2 + a23 M ^ 2 = 1 - a33 M ^ 2).
  { destruct M as [m11 m12 m13 m21 m22 m23 m31 m32 m33]. unfold tr3, mul3, id3 in Ho.
    cbn [a11 a12 a13 a21 a22 a23 a31 a32 a33] in *. injection Ho as _ _ _ _ _ _ _ _ O33. nra. }
  destruct (atan2_cos_sin (a32 M) (a31 M)) as [Hca Hsa]; [lra|].
  destruct (atan2_cos_sin (a23 M) (- a13 M)) as [Hcg Hsg]; [lra|].
  rewrite Hrow in Hca, Hsa. rewrite Hcol in Hcg, Hsg. fold s in Hca, Hsa, Hcg, Hsg.
  rewrite !Rz_emb, Ry_emb, !emb4_mul, emb4_tr. f_equal.
  rewrite Hca, Hsa, Hcg, Hsg, cos_acos by lra.
  rewrite sin_acos by lra. unfold Rsqr. replace (1 - a33 M * a33 M) with (1 - a33 M ^ 2) by ring. fold s.
  apply euler_zyz_of_transpose; assumption.
Qed.

(* non-vacuity: a quarter turn about x has m33 = 0 *)
Lemma wigner_euler_example : proper quarter_x /\ -1 < a33 quarter_x < 1.
Proof. split; [exact quarter_x_proper | unfold quarter_x; cbn [a33]; lra]. Qed.

Lemma wigner_euler_full M : proper M -> -1 < a33 M < 1 ->
  (wdR (envM M) wigner_alpha /\ wdR (envM M) wigner_beta /\ wdR (envM M) wigner_gamma) /\
  (wAlpha M = atan2 (a32 M) (a31 M) /\ wBeta M = acos (a33 M) /\ wGamma M = atan2 (a23 M) (- a13 M)) /\
  mmul (Rz (wAlpha M)) (mmul (Ry (wBeta M)) (Rz (wGamma M))) = transpose (emb4 M).
Proof.
  intros HM H. split; [exact (wigner_angles_wd M HM H)|]. split; [exact (wigner_angle_values M)|].
  exact (wigner_euler_reconstructs M HM H).
Qed.
