(* C12 — property theorems (statements only). *)
From AV Require Import DenC Lineshape.
From AVchk Require Import Gen_C12 C12_lemmas.

(* For every phase-space factor (the first entry is an uninterpreted function symbol, the
   others the library's five classes as opaque nodes), every form factor, angular momentum,
   radius and masses: wherever the width expression is defined at s = m0^2 it equals Gamma0. *)
Theorem C12_width_at_pole : Forall (fun nt => width_at_pole (snd nt)) gen_edw.
Proof. exact edw_width_at_pole. Qed.
Theorem C12_width_defined_iff_nonvanishing :
  forall (f : string -> list C -> C) (m0 g0 ma mb L d : C),
  f "FormFactor" [(m0 * m0)%C; ma; mb; L; d] <> RtoC 0 -> f "rhoX" [(m0 * m0)%C; ma; mb] <> RtoC 0 ->
  match gen_edw with
  | (_, t) :: _ => wdC (env_pole f m0 g0 ma mb L d) t
  | [] => False
  end.
Proof. exact edw_marker_defined. Qed.

(* numbers inserted into EnergyDependentWidth BEFORE evaluate() (five instantiations in which s coincides with the
   radius and/or L, six phase-space factors): the tree is the symbolic tree at those values *)
Theorem C12_width_numbers_before_evaluate : Forall numeric_first_ok gen_edw_numeric_first.
Proof. exact edw_numeric_first. Qed.
Theorem C12_width_numbers_before_evaluate_covered : length gen_edw_numeric_first = 30%nat.
Proof. reflexivity. Qed.

(* Blatt-Weisskopf, integer L = 0..10 (the lambdified fast path): defined for z>=0, 1 at z=1,
   bounded, z^L times a continuous residual that is positive at 0, equal to the
   Hankel-function definition for z>0. *)
Theorem C12_blatt_weisskopf : Forall bw_props gen_bw.
Proof. exact bw_all_props. Qed.
Theorem C12_blatt_weisskopf_range : map (fun it => fst (fst it)) gen_bw = seq 0 11.
Proof. vm_compute. reflexivity. Qed.
Theorem C12_hankel_norm_at_one : forall L, hmod2 L 1 <> 0%R -> bw_hankel L 1 = 1%R.
Proof. exact hankel_norm_at_one. Qed.

(* builder classes = public lineshape functions, all flag combinations x phase-space factors *)
Theorem C12_builder_eq_function :
  Forall (fun p => same_function (snd (fst p)) (snd p)) gen_builder_pairs.
Proof. exact builder_eq_function. Qed.
Theorem C12_builder_pairs_covered : length gen_builder_pairs = 17%nat /\ length gen_edw = 6%nat.
Proof. split; reflexivity. Qed.
Theorem C12_builder_defaults : gen_builder_defaults_ok = true.
Proof. exact builder_defaults. Qed.

Print Assumptions C12_width_at_pole.
Print Assumptions C12_width_defined_iff_nonvanishing.
Print Assumptions C12_width_numbers_before_evaluate.
Print Assumptions C12_width_numbers_before_evaluate_covered.
Print Assumptions C12_blatt_weisskopf.
Print Assumptions C12_blatt_weisskopf_range.
Print Assumptions C12_hankel_norm_at_one.
Print Assumptions C12_builder_eq_function.
Print Assumptions C12_builder_pairs_covered.
Print Assumptions C12_builder_defaults.
