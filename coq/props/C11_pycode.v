(* C11 — the pure-Python (`math` backend) code text printed for ComplexSqrt by the current source,
   parsed back with Python's grammar (Gen_C11py): it denotes the principal square root with
   +i sqrt(-x) on the negative axis, for a symbol and for compound (sum/difference/product)
   arguments; PhaseSpaceFactorComplex = i PhaseSpaceFactorAbs in the gap for the printed code. *)
From AV Require Import DenC.
From AVchk Require Import Gen_C11 Gen_C11py C11_base.
From Coq Require Import Lra Lia Psatz.
Open Scope C_scope.

Definition envX (x : R) : envC := envC_of [("x", RtoC x)] f0.
Definition envAB (a b : R) : envC := envC_of [("a", RtoC a); ("b", RtoC b)] f0.

(* normalise every sqrt / relational argument to v or -v, then split on the sign of v *)
Ltac norm_v v :=
  replace (0 / 1)%R with 0%R by field;
  repeat match goal with
         | |- context [Csqrt (RtoC ?x)] =>
             lazymatch x with v => fail | (- v)%R => fail
             | _ => first [ replace x with v by (unfold_pows; field) | replace x with (- v)%R by (unfold_pows; field) ] end
         | |- context [Rltb ?x 0] =>
             lazymatch x with v => fail | (- v)%R => fail
             | _ => first [ replace x with v by (unfold_pows; field) | replace x with (- v)%R by (unfold_pows; field) ] end
         | |- context [Rleb ?x 0] =>
             lazymatch x with v => fail | (- v)%R => fail
             | _ => first [ replace x with v by (unfold_pows; field) | replace x with (- v)%R by (unfold_pows; field) ] end
         | |- context [Rltb 0 ?x] =>
             lazymatch x with v => fail | (- v)%R => fail
             | _ => first [ replace x with v by (unfold_pows; field) | replace x with (- v)%R by (unfold_pows; field) ] end
         end.

Ltac py_csqrt v :=
  denC_simplR; lift_R; norm_v v;
  destruct (Rtotal_order v 0) as [Hv|[Hv|Hv]]; decide_rels; resolve_if;
  [ rewrite ?(Csqrt_nonneg (- v)) by lra; rewrite (Csqrt_neg_mk v) by lra; lift_R; to_mk;
    split; [wd_solve | apply mk_eq; unfold_pows; ring]
  | rewrite ?Hv, ?Ropp_0; rewrite ?(Csqrt_nonneg 0) by lra; rewrite ?sqrt_0; lift_R; to_mk;
    split; [wd_solve | rewrite ?(mk_R 0); try apply mk_eq; unfold_pows; try ring; try reflexivity]
  | rewrite ?(Csqrt_nonneg v) by lra; lift_R;
    split; [wd_solve | f_equal; unfold_pows; ring] ].

Lemma py_csqrt_sym x : wdC (envX x) gen_py_csqrt_sym /\ denC (envX x) gen_py_csqrt_sym = Csqrt (RtoC x).
Proof. unfold gen_py_csqrt_sym, envX. py_csqrt x. Qed.
Lemma py_csqrt_sum a b :
  wdC (envAB a b) gen_py_csqrt_sum /\ denC (envAB a b) gen_py_csqrt_sum = Csqrt (RtoC (a + b)).
Proof. unfold gen_py_csqrt_sum, envAB. py_csqrt (a + b)%R. Qed.
Lemma py_csqrt_diff a b :
  wdC (envAB a b) gen_py_csqrt_diff /\ denC (envAB a b) gen_py_csqrt_diff = Csqrt (RtoC (a - b)).
Proof. unfold gen_py_csqrt_diff, envAB. py_csqrt (a - b)%R. Qed.
Lemma py_csqrt_prod a b :
  wdC (envAB a b) gen_py_csqrt_prod /\ denC (envAB a b) gen_py_csqrt_prod = Csqrt (RtoC (a * b)).
Proof. unfold gen_py_csqrt_prod, envAB. py_csqrt (a * b)%R. Qed.

(* printed PhaseSpaceFactorComplex = i * printed PhaseSpaceFactorAbs between pseudo-threshold and threshold *)
Lemma py_cpx_is_i_abs s m1 m2 : (0 < m1)%R -> (0 < m2)%R -> ((m1-m2)^2 < s < (m1+m2)^2)%R ->
  wdC (envS s m1 m2) gen_py_cpx /\ wdC (envS s m1 m2) gen_py_abs /\
  denC (envS s m1 m2) gen_py_cpx = Ci * denC (envS s m1 m2) gen_py_abs.
Proof.
  intros H1 H2 Hs. assert (Hs0 : (0 < s)%R) by (pose proof (pow2_ge_0 (m1 - m2)); lra).
  pose proof (q2_neg_gap s m1 m2 H1 H2 Hs0 Hs) as Hq.
  assert (sqrt s <> 0)%R by (apply Rgt_not_eq, sqrt_lt_R0; lra).
  unfold gen_py_cpx, gen_py_abs, envS. denC_simplR. lift_R. norm_args s m1 m2.
  replace (0 / 1)%R with 0%R by field. decide_rels. resolve_if.
  rewrite ?(Rabs_pos_eq s) by lra.
  rewrite ?(Rabs_left (4 * q2R s m1 m2)), ?(Rabs_left (q2R s m1 m2)) by lra.
  rewrite ?Csqrt_nonneg by lra. lift_R. to_mk.
  split; [wd_solve | split; [wd_solve | apply mk_eq; unfold_pows; rewrite ?sqrt_4x by lra;
    replace (- (4 * q2R s m1 m2))%R with (4 * - q2R s m1 m2)%R by ring; rewrite ?sqrt_4x by lra; field; assumption]].
Qed.

Definition dRp (s m : R) : R := (m^2 - s/4)%R.
Lemma py_cpx_is_i_abs_mm s m : (0 < m)%R -> (0 < s < 4 * m ^ 2)%R ->
  wdC (envE s m) gen_py_cpx_mm /\ wdC (envE s m) gen_py_abs_mm /\
  denC (envE s m) gen_py_cpx_mm = Ci * denC (envE s m) gen_py_abs_mm.
Proof.
  intros H1 Hs. assert (Hd : (0 < dRp s m)%R) by (unfold dRp; nra).
  assert (sqrt s <> 0)%R by (apply Rgt_not_eq, sqrt_lt_R0; lra).
  unfold gen_py_cpx_mm, gen_py_abs_mm, envE. denC_simplR. lift_R.
  replace (0 / 1)%R with 0%R by field.
  repeat match goal with
         | |- context [Csqrt (RtoC ?x)] =>
             lazymatch x with dRp _ _ => fail | (- dRp _ _)%R => fail | s => fail | Rabs _ => fail
             | _ => first [ replace x with (dRp s m) by (unfold dRp; unfold_pows; field)
                          | replace x with (- dRp s m)%R by (unfold dRp; unfold_pows; field) ] end
         | |- context [Rabs ?x] =>
             lazymatch x with dRp _ _ => fail | (- dRp _ _)%R => fail | s => fail
             | _ => first [ replace x with (dRp s m) by (unfold dRp; unfold_pows; field)
                          | replace x with (- dRp s m)%R by (unfold dRp; unfold_pows; field) ] end
         | |- context [Rltb ?y ?x] =>
             lazymatch x with dRp _ _ => fail | (- dRp _ _)%R => fail | 0%R => fail
             | _ => first [ replace x with (dRp s m) by (unfold dRp; unfold_pows; field)
                          | replace x with (- dRp s m)%R by (unfold dRp; unfold_pows; field) ] end
         | |- context [Rltb ?x 0] =>
             lazymatch x with dRp _ _ => fail | (- dRp _ _)%R => fail
             | _ => first [ replace x with (dRp s m) by (unfold dRp; unfold_pows; field)
                          | replace x with (- dRp s m)%R by (unfold dRp; unfold_pows; field) ] end
         end.
  decide_rels. resolve_if.
  rewrite ?(Rabs_pos_eq s), ?(Rabs_pos_eq (dRp s m)), ?(Rabs_left (- dRp s m)), ?Ropp_involutive by lra.
  rewrite ?Csqrt_nonneg by lra. lift_R. to_mk.
  split; [wd_solve | split; [wd_solve | apply mk_eq; unfold_pows; field; assumption]].
Qed.
