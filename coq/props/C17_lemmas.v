(* C17_lemmas.v — proofs about the hand-written model AV.Rename (rename_symbols). *)
From Coq Require Import Ascii Permutation Lia.
From AV Require Import Ast Rename.
Open Scope string_scope.
Open Scope list_scope.

(* ------------------------------------------------------------------ strings / symbols *)
Definition suffix_ok (a : string) : Prop := a = "" \/ exists t, a = String bar t.

Lemma mk_name_assum s : mk_sym (name_of s) (assum_of s) = s.
Proof.
  unfold mk_sym. induction s as [|c t IH]; cbn; auto.
  destruct (Ascii.eqb c bar); cbn; auto. now rewrite IH.
Qed.

Lemma assum_of_ok s : suffix_ok (assum_of s).
Proof.
  induction s as [|c t IH]; cbn; [now left|].
  destruct (Ascii.eqb c bar) eqn:E; auto. apply Ascii.eqb_eq in E. subst. right. eauto.
Qed.

Lemma name_of_mk n a : no_bar n = true -> suffix_ok a -> name_of (mk_sym n a) = n.
Proof.
  unfold mk_sym. induction n as [|c t IH]; cbn; intros Hn Ha.
  - destruct Ha as [->|[t ->]]; cbn; auto.
  - apply andb_true_iff in Hn as [H1 H2]. destruct (Ascii.eqb c bar); [discriminate|].
    now rewrite IH.
Qed.

Lemma assum_of_mk n a : no_bar n = true -> suffix_ok a -> assum_of (mk_sym n a) = a.
Proof.
  unfold mk_sym. induction n as [|c t IH]; cbn; intros Hn Ha.
  - destruct Ha as [->|[t ->]]; cbn; auto.
  - apply andb_true_iff in Hn as [H1 H2]. destruct (Ascii.eqb c bar); [discriminate|]. auto.
Qed.

Definition wf_map (r : list (string * string)) : Prop :=
  Forall (fun p => no_bar (snd p) = true) r.

Lemma rget_In r x n : rget r x = Some n -> exists k, In (k, n) r.
Proof.
  induction r as [|[k v] t IH]; cbn; [discriminate|].
  destruct (rget t x) eqn:E.
  - intros H. inversion H; subst. destruct (IH eq_refl) as [k' Hk]. eauto.
  - destruct (String.eqb k x); [|discriminate]. intros H. inversion H; subst. eauto.
Qed.

Lemma wf_map_rget r x n : wf_map r -> rget r x = Some n -> no_bar n = true.
Proof.
  intros W H. destruct (rget_In _ _ _ H) as [k Hk].
  unfold wf_map in W. rewrite Forall_forall in W. exact (W _ Hk).
Qed.

Lemma ren_assum r s : wf_map r -> assum_of (ren r s) = assum_of s.
Proof.
  intros W. unfold ren. destruct (rget r (name_of s)) eqn:E; auto.
  apply assum_of_mk; [eapply wf_map_rget; eauto | apply assum_of_ok].
Qed.

Lemma ren_name r s n : wf_map r -> rget r (name_of s) = Some n -> name_of (ren r s) = n.
Proof.
  intros W E. unfold ren. rewrite E.
  apply name_of_mk; [eapply wf_map_rget; eauto | apply assum_of_ok].
Qed.

Lemma ren_untouched r s : rget r (name_of s) = None -> ren r s = s.
Proof. intros E. unfold ren. now rewrite E. Qed.

Lemma sigma_in r col s : mem s col = true -> sigma r col s = ren r s.
Proof. intros H. unfold sigma. now rewrite H. Qed.

Lemma sigma_out r col s : mem s col = false -> sigma r col s = s.
Proof. intros H. unfold sigma. now rewrite H. Qed.

Lemma sigma_assum r col s : wf_map r -> assum_of (sigma r col s) = assum_of s.
Proof. intros W. unfold sigma. destruct (mem s col); auto using ren_assum. Qed.

Lemma sigma_untouched r col s : rget r (name_of s) = None -> sigma r col s = s.
Proof. intros E. unfold sigma. destruct (mem s col); auto using ren_untouched. Qed.

Lemma mem_In s l : mem s l = true <-> In s l.
Proof.
  unfold mem. rewrite existsb_exists. split.
  - intros [x [H1 H2]]. apply String.eqb_eq in H2. now subst.
  - intros H. exists s. split; auto. apply String.eqb_refl.
Qed.

Lemma mem_app s l1 l2 : mem s (l1 ++ l2) = mem s l1 || mem s l2.
Proof. unfold mem. apply existsb_app. Qed.

(* ------------------------------------------------------------------ xreplace *)
Lemma in_syms_arg h args a s : In a args -> In s (syms a) -> In s (syms (App h args)).
Proof. intros Ha Hs. cbn. apply in_flat_map. eauto. Qed.

Lemma xr_ext sg tau e : forall b,
  (forall s, In s (syms e) -> mem s b = false -> sg s = tau s) -> xr sg b e = xr tau b e.
Proof.
  induction e as [s|q|h args IH] using expr_ind'; intros b H; cbn; auto.
  - destruct (mem s b) eqn:E; auto. rewrite (H s); cbn; auto.
  - f_equal. apply map_ext_in. intros a Ha. rewrite Forall_forall in IH.
    apply (IH a Ha). intros s Hs Hm. rewrite mem_app in Hm. apply orb_false_iff in Hm as [_ Hm].
    apply H; auto. eapply in_syms_arg; eauto.
Qed.

Lemma xr_id sg e : forall b,
  (forall s, In s (syms e) -> mem s b = false -> sg s = s) -> xr sg b e = e.
Proof.
  induction e as [s|q|h args IH] using expr_ind'; intros b H; cbn; auto.
  - destruct (mem s b) eqn:E; auto. rewrite (H s); cbn; auto.
  - f_equal. transitivity (map (fun x : expr => x) args); [|apply map_id]. apply map_ext_in. intros a Ha.
    rewrite Forall_forall in IH. apply (IH a Ha). intros s Hs Hm. rewrite mem_app in Hm.
    apply orb_false_iff in Hm as [_ Hm]. apply H; auto. eapply in_syms_arg; eauto.
Qed.

(* PoolSum-free trees: [xr sg []] is the plain homomorphic substitution *)
Definition nb (e : expr) : bool := negb (has_head is_poolsum e).

Lemma nb_App h args : nb (App h args) = true ->
  is_poolsum h = false /\ forall a, In a args -> nb a = true.
Proof.
  unfold nb. cbn. intros H. apply negb_true_iff in H. apply orb_false_iff in H as [H1 H2].
  split; auto. intros a Ha. apply negb_true_iff.
  destruct (has_head is_poolsum a) eqn:E; auto.
  assert (existsb (has_head is_poolsum) args = true) by (apply existsb_exists; eauto). congruence.
Qed.

Lemma binders_nil h args : is_poolsum h = false -> binders h args = [].
Proof. intros H. unfold binders. now rewrite H. Qed.

Lemma xr_nb sg e : nb e = true -> nb (xr sg [] e) = true.
Proof.
  induction e as [s|q|h args IH] using expr_ind'; intros H; cbn; auto.
  destruct (nb_App _ _ H) as [Hh Ha]. rewrite binders_nil by auto. cbn [app].
  unfold nb. cbn. rewrite Hh. cbn. apply negb_true_iff.
  destruct (existsb _ _) eqn:E; auto. apply existsb_exists in E as [x [Hx1 Hx2]].
  apply in_map_iff in Hx1 as [a [<- Ha']]. rewrite Forall_forall in IH.
  specialize (IH a Ha' (Ha a Ha')). unfold nb in IH. rewrite Hx2 in IH. discriminate.
Qed.

Lemma fs_xr sg e : nb e = true -> fs [] (xr sg [] e) = map sg (fs [] e).
Proof.
  induction e as [s|q|h args IH] using expr_ind'; intros H; cbn; auto.
  destruct (nb_App _ _ H) as [Hh Ha].
  assert (Hb : binders h (map (xr sg (binders h args ++ [])) args) = []) by now apply binders_nil.
  rewrite Hb. rewrite binders_nil by auto. cbn [app].
  rewrite Forall_forall in IH. clear Hb H.
  induction args as [|a t IHt]; cbn; auto. rewrite map_app. f_equal.
  - apply IH; [left; reflexivity | apply Ha; left; reflexivity].
  - apply IHt; intros; [apply IH | apply Ha]; try (right; assumption); auto.
Qed.

Lemma xr_comp sg tau e : nb e = true ->
  xr tau [] (xr sg [] e) = xr (fun s => tau (sg s)) [] e.
Proof.
  induction e as [s|q|h args IH] using expr_ind'; intros H; cbn; auto.
  destruct (nb_App _ _ H) as [Hh Ha].
  assert (Hb : binders h (map (xr sg (binders h args ++ [])) args) = []) by now apply binders_nil.
  rewrite Hb. rewrite binders_nil by auto. cbn [app]. f_equal. rewrite map_map.
  apply map_ext_in. intros a Ha'. rewrite Forall_forall in IH. auto.
Qed.

(* ------------------------------------------------------------------ semantics *)
Section Den.
  Variable V : Type.
  Variable qval : Q -> V.
  Variable interp : head -> list V -> V.

  Fixpoint den (rho : string -> V) (e : expr) : V :=
    match e with
    | Sym s => rho s
    | Num q => qval q
    | App h args => interp h (map (den rho) args)
    end.

  Lemma den_ext rho rho' e : (forall s, In s (syms e) -> rho s = rho' s) -> den rho e = den rho' e.
  Proof.
    induction e as [s|q|h args IH] using expr_ind'; intros H; cbn; auto.
    - apply H. cbn. auto.
    - f_equal. apply map_ext_in. intros a Ha. rewrite Forall_forall in IH. apply IH; auto.
      intros s Hs. apply H. eapply in_syms_arg; eauto.
  Qed.

  Lemma den_xr sg rho e : nb e = true -> den rho (xr sg [] e) = den (fun s => rho (sg s)) e.
  Proof.
    induction e as [s|q|h args IH] using expr_ind'; intros H; cbn; auto.
    destruct (nb_App _ _ H) as [Hh Ha]. rewrite binders_nil by auto. cbn [app]. f_equal.
    rewrite map_map. apply map_ext_in. intros a Ha'. rewrite Forall_forall in IH. auto.
  Qed.

  Lemma den_merge sg rho e a b c :
    nb e = true -> sg a = c -> sg b = c -> (forall s, s <> a -> s <> b -> sg s = s) ->
    den rho (xr sg [] e)
    = den (fun s => if String.eqb s a then rho c else if String.eqb s b then rho c else rho s) e.
  Proof.
    intros H Ha Hb Ho. rewrite den_xr by auto. apply den_ext. intros s _.
    destruct (String.eqb_spec s a) as [->|Na]; [now rewrite Ha|].
    destruct (String.eqb_spec s b) as [->|Nb]; [now rewrite Hb|]. now rewrite Ho.
  Qed.
End Den.

(* ------------------------------------------------------------------ dictionaries, sorting *)
Section DictLemmas.
  Context {K V : Type} (eqb : K -> K -> bool).
  Hypothesis eqb_spec : forall a b, reflect (a = b) (eqb a b).

  Lemma dupd_fresh k (v : V) d : ~ In k (map fst d) -> dupd eqb k v d = d ++ [(k, v)].
  Proof.
    induction d as [|[k' v'] t IH]; cbn; auto. intros H.
    destruct (eqb_spec k k') as [->|N]; [exfalso; auto|]. rewrite IH; auto.
  Qed.

  Lemma dupd_keys k (v : V) d x : In x (map fst (dupd eqb k v d)) <-> x = k \/ In x (map fst d).
  Proof.
    induction d as [|[k' v'] t IH]; cbn.
    - intuition.
    - destruct (eqb_spec k k') as [->|N]; cbn; [intuition|]. rewrite IH. intuition.
  Qed.

  Lemma fold_dupd_nodup (l acc : list (K * V)) :
    NoDup (map fst (acc ++ l)) ->
    fold_left (fun d kv => dupd eqb (fst kv) (snd kv) d) l acc = acc ++ l.
  Proof.
    revert acc. induction l as [|[k v] t IH]; intros acc H; cbn.
    - now rewrite app_nil_r.
    - rewrite dupd_fresh.
      + rewrite IH; rewrite <- app_assoc; auto.
      + rewrite map_app in H. cbn in H. apply NoDup_remove_2 in H. intros C. apply H.
        apply in_or_app. now left.
  Qed.

  Lemma dict_of_nodup (l : list (K * V)) : NoDup (map fst l) -> dict_of eqb l = l.
  Proof. intros H. unfold dict_of. now rewrite fold_dupd_nodup. Qed.

  Lemma fold_dupd_keys (l acc : list (K * V)) x :
    In x (map fst (fold_left (fun d kv => dupd eqb (fst kv) (snd kv) d) l acc))
    <-> In x (map fst acc) \/ In x (map fst l).
  Proof.
    revert acc. induction l as [|[k v] t IH]; intros acc; cbn; [intuition|].
    rewrite IH, dupd_keys. intuition.
  Qed.

  Lemma dict_of_keys (l : list (K * V)) x : In x (map fst (dict_of eqb l)) <-> In x (map fst l).
  Proof. unfold dict_of. rewrite fold_dupd_keys. cbn. intuition. Qed.

  Lemma dget_map_vals (f : V -> V) k (l : list (K * V)) :
    dget eqb k (map (fun kv => (fst kv, f (snd kv))) l) = option_map f (dget eqb k l).
  Proof. induction l as [|[k' v] t IH]; cbn; auto. destruct (eqb k k'); auto. Qed.
End DictLemmas.

Section SortLemmas.
  Context {A : Type} (rk : A -> nat).

  Fixpoint sorted (l : list A) : Prop :=
    match l with
    | x :: ((y :: _) as t) => (rk x <= rk y)%nat /\ sorted t
    | _ => True
    end.

  Lemma isort_sorted l : sorted l -> isort rk l = l.
  Proof.
    induction l as [|x t IH]; cbn; auto. destruct t as [|y t']; [reflexivity|].
    intros [H1 H2]. unfold isort in IH. cbn in IH. unfold isort. cbn. rewrite (IH H2). cbn.
    apply Nat.leb_le in H1. now rewrite H1.
  Qed.

  Lemma ins_perm x l : Permutation (ins rk x l) (x :: l).
  Proof.
    induction l as [|y t IH]; cbn; auto. destruct (Nat.leb (rk x) (rk y)); auto.
    rewrite IH. apply perm_swap.
  Qed.

  Lemma isort_perm l : Permutation (isort rk l) l.
  Proof. induction l as [|x t IH]; cbn; auto. rewrite ins_perm. now constructor. Qed.
End SortLemmas.

(* ------------------------------------------------------------------ the model *)
Section Model.
  Variable unfold : expr -> expr.
  Variable nrank : string -> nat.
  Variable arank : expr -> nat.

  Notation rename := (rename unfold nrank arank).
  Notation expression := (expression unfold).
  Notation collect := (collect unfold).
  Notation sigma_of := (sigma_of unfold).

  (* what the attrs converters of HelicityModel establish for every instance *)
  Record wf_model (m : model) : Prop := {
    wf_amp_keys : NoDup (map fst (amplitudes m));
    wf_amp_sorted : sorted (fun kv : expr * expr => arank (fst kv)) (amplitudes m);
    wf_par_keys : NoDup (map fst (parameter_defaults m));
    wf_kin_keys : NoDup (map fst (kinematic_variables m));
    wf_kin_sorted : sorted (fun kv : string * expr => nrank (name_of (fst kv))) (kinematic_variables m);
    wf_comp_keys : NoDup (map fst (components m));
    wf_comp_sorted : sorted (fun kv : string * expr => nrank (fst kv)) (components m)
  }.

  Definition map_vals {K} (f : expr -> expr) (l : list (K * expr)) : list (K * expr) :=
    map (fun kv => (fst kv, f (snd kv))) l.

  Lemma map_vals_keys {K} f (l : list (K * expr)) : map fst (map_vals f l) = map fst l.
  Proof. unfold map_vals. rewrite map_map. apply map_ext. auto. Qed.

  Lemma sorted_map_vals {K} (rk : K -> nat) f (l : list (K * expr)) :
    sorted (fun kv : K * expr => rk (fst kv)) l ->
    sorted (fun kv : K * expr => rk (fst kv)) (map_vals f l).
  Proof.
    induction l as [|x t IH]; [cbn; auto|]. destruct t as [|y t']; [cbn; auto|].
    intros [H1 H2]. specialize (IH H2). split; [exact H1 | exact IH].
  Qed.

  (* 1. every attribute is the original with sigma applied (by unfolding), in the form
        that does not mention dict/sort when the converters' invariants hold *)
  Lemma rename_attrs m r : r <> [] -> wf_model m ->
    let sg := sigma_of m r in
    intensity (rename m r) = xr sg [] (intensity m)
    /\ amplitudes (rename m r) = map_vals (xr sg []) (amplitudes m)
    /\ components (rename m r) = map_vals (xr sg []) (components m)
    /\ parameter_defaults (rename m r)
       = dict_of expr_eqb (map (fun kv => (kmap sg (fst kv), snd kv)) (parameter_defaults m))
    /\ kinematic_variables (rename m r)
       = order_symbol_mapping nrank
           (dict_of String.eqb
              (map (fun kv => (sg (fst kv), xr sg [] (snd kv))) (kinematic_variables m))).
  Proof.
    intros Hr W sg. destruct r as [|p r']; [congruence|]. cbn.
    repeat split.
    - unfold order_amplitudes. fold (map_vals (xr (sigma_of m (p :: r')) []) (amplitudes m)).
      rewrite (dict_of_nodup expr_eqb expr_eqb_spec).
      + apply isort_sorted. apply sorted_map_vals. apply W.
      + rewrite map_vals_keys. apply W.
    - unfold order_component_mapping.
      fold (map_vals (xr (sigma_of m (p :: r')) []) (components m)).
      rewrite (dict_of_nodup String.eqb String.eqb_spec).
      + apply isort_sorted. apply sorted_map_vals. apply W.
      + rewrite map_vals_keys. apply W.
  Qed.

  (* kinematic variables when the map does not identify two of them: a permutation of the
     re-keyed, xreplaced definitions (nothing is lost) *)
  Lemma rename_kinvars_perm m r : r <> [] ->
    let sg := sigma_of m r in
    NoDup (map (fun kv => sg (fst kv)) (kinematic_variables m)) ->
    Permutation (kinematic_variables (rename m r))
                (map (fun kv => (sg (fst kv), xr sg [] (snd kv))) (kinematic_variables m)).
  Proof.
    intros Hr sg H. destruct r as [|p r']; [congruence|]. cbn. unfold order_symbol_mapping.
    rewrite isort_perm. rewrite (dict_of_nodup String.eqb String.eqb_spec); auto.
    rewrite map_map. cbn. exact H.
  Qed.

  (* expression of the renamed model, when the intensity only mentions private symbols *)
  Lemma subst_xr sg amps U :
    nb U = true -> (forall s, In s (syms U) -> sg s = s) ->
    subst (map_vals (xr sg []) amps) U = xr sg [] (subst amps U).
  Proof.
    induction U as [s|q|h args IH] using expr_ind'; intros Hn Hf.
    - cbn [subst]. unfold map_vals. rewrite dget_map_vals.
      destruct (dget expr_eqb (Sym s) amps); cbn; auto. rewrite Hf; cbn; auto.
    - cbn [subst]. unfold map_vals. rewrite dget_map_vals.
      destruct (dget expr_eqb (Num q) amps); cbn; auto.
    - cbn [subst]. unfold map_vals at 1. rewrite dget_map_vals.
      destruct (dget expr_eqb (App h args) amps); cbn [option_map]; auto.
      destruct (nb_App _ _ Hn) as [Hh Ha]. cbn [xr]. rewrite binders_nil by auto. cbn [app].
      f_equal. rewrite map_map. apply map_ext_in. intros a Ha'. rewrite Forall_forall in IH.
      apply IH; auto. intros s Hs. apply Hf. eapply in_syms_arg; eauto.
  Qed.

  Lemma rename_expression m r : r <> [] -> wf_model m ->
    let sg := sigma_of m r in
    (forall s, In s (syms (intensity m)) -> sg s = s) ->
    (forall s, In s (syms (unfold (intensity m))) -> sg s = s) ->
    nb (unfold (intensity m)) = true ->
    expression (rename m r) = xr sg [] (expression m).
  Proof.
    intros Hr W sg H1 H2 Hn. destruct (rename_attrs m r Hr W) as [Hi [Ha _]].
    unfold Rename.expression. rewrite Hi, Ha. fold sg.
    rewrite (xr_id sg (intensity m) []) by (intros; auto).
    apply subst_xr; auto.
  Qed.

  Lemma model_eq (m m' : model) :
    intensity m = intensity m' -> amplitudes m = amplitudes m' ->
    parameter_defaults m = parameter_defaults m' ->
    kinematic_variables m = kinematic_variables m' -> components m = components m' -> m = m'.
  Proof. destruct m, m'; cbn; congruence. Qed.

  (* identity cases *)
  Lemma rename_empty m : rename m [] = m.
  Proof. reflexivity. Qed.

  Lemma map_vals_id {K} f (l : list (K * expr)) :
    (forall kv, In kv l -> f (snd kv) = snd kv) -> map_vals f l = l.
  Proof.
    intros H. unfold map_vals. transitivity (map (fun x : K * expr => x) l); [|apply map_id]. apply map_ext_in.
    intros [k v] Hkv. cbn. f_equal. exact (H _ Hkv).
  Qed.

  Lemma rename_unknown_noop m r : wf_model m ->
    (forall s, In s (collect m) -> rget r (name_of s) = None) -> rename m r = m.
  Proof.
    intros W H. destruct r as [|p r']; [reflexivity|].
    assert (Hs : forall s, sigma_of m (p :: r') s = s).
    { intros s. unfold Rename.sigma_of, sigma. destruct (mem s (collect m)) eqn:E; auto.
      apply ren_untouched, H, mem_In, E. }
    assert (Hx : forall e, xr (sigma_of m (p :: r')) [] e = e) by (intros; apply xr_id; auto).
    destruct (rename_attrs m (p :: r') ltac:(discriminate) W) as [Hi [Ha [Hc [Hp Hk]]]].
    apply model_eq.
    - rewrite Hi. apply Hx.
    - rewrite Ha. apply map_vals_id. auto.
    - rewrite Hp. replace (map _ (parameter_defaults m)) with (parameter_defaults m).
      + apply (dict_of_nodup expr_eqb expr_eqb_spec). apply W.
      + symmetry. transitivity (map (fun x : expr * string => x) (parameter_defaults m)); [|apply map_id].
        apply map_ext. intros [k v]. cbn. f_equal. destruct k; cbn; auto. now rewrite Hs.
    - rewrite Hk. replace (map _ (kinematic_variables m)) with (kinematic_variables m).
      + rewrite (dict_of_nodup String.eqb String.eqb_spec) by apply W.
        apply isort_sorted. apply W.
      + symmetry. transitivity (map (fun x : string * expr => x) (kinematic_variables m)); [|apply map_id].
        apply map_ext. intros [k v]. cbn. now rewrite Hs, Hx.
    - rewrite Hc. apply map_vals_id. auto.
  Qed.

  (* untouched: an attribute value that mentions no renamed name is unchanged *)
  Lemma rename_untouched_value m r e b :
    (forall s, In s (syms e) -> rget r (name_of s) = None) -> xr (sigma_of m r) b e = e.
  Proof. intros H. apply xr_id. intros s Hs _. apply sigma_untouched. auto. Qed.

  (* closure *)
  Lemma existsb_keys {K V} (p : K -> bool) (l l' : list (K * V)) :
    (forall x, In x (map fst l) <-> In x (map fst l')) ->
    existsb (fun kv => p (fst kv)) l = existsb (fun kv => p (fst kv)) l'.
  Proof.
    intros H. apply eq_true_iff_eq. rewrite !existsb_exists. split.
    - intros [[k v] [H1 H2]]. assert (Hk : In k (map fst l')) by (apply H, in_map_iff; exists (k, v); auto).
      apply in_map_iff in Hk as [[k' v'] [<- Hk]]. exists (k', v'). auto.
    - intros [[k v] [H1 H2]]. assert (Hk : In k (map fst l)) by (apply H, in_map_iff; exists (k, v); auto).
      apply in_map_iff in Hk as [[k' v'] [<- Hk]]. exists (k', v'). auto.
  Qed.

  Lemma is_par_rename m r t : r <> [] ->
    is_par (rename m r) t = true <->
    exists k, In k (map fst (parameter_defaults m)) /\ kmap (sigma_of m r) k = Sym t.
  Proof.
    intros Hr. destruct r as [|p r']; [congruence|]. unfold is_par. cbn.
    rewrite (existsb_keys (fun k => expr_eqb k (Sym t)) _
               (map (fun kv => (kmap (sigma_of m (p :: r')) (fst kv), snd kv)) (parameter_defaults m)))
      by (intros x; apply (dict_of_keys expr_eqb expr_eqb_spec)).
    rewrite existsb_exists. split.
    - intros [[k v] [H1 H2]]. apply in_map_iff in H1 as [[k0 v0] [E Hin]]. inversion E; subst.
      cbn in H2. apply expr_eqb_eq in H2. exists k0. split; auto.
      apply in_map_iff. eexists. split; [|exact Hin]. reflexivity.
    - intros [k [H1 H2]]. apply in_map_iff in H1 as [[k0 v0] [<- Hin]].
      exists (kmap (sigma_of m (p :: r')) k0, v0). split.
      + apply in_map_iff. exists (k0, v0). auto.
      + cbn in *. rewrite H2. apply expr_eqb_refl.
  Qed.

  Lemma is_kin_rename m r t : r <> [] ->
    is_kin (rename m r) t = true <->
    exists k, In k (map fst (kinematic_variables m)) /\ sigma_of m r k = t.
  Proof.
    intros Hr. destruct r as [|p r']; [congruence|]. unfold is_kin. cbn.
    set (sg := sigma_of m (p :: r')).
    rewrite (existsb_keys (fun k => String.eqb k t) _
               (map (fun kv => (sg (fst kv), xr sg [] (snd kv))) (kinematic_variables m))).
    2:{ intros x. unfold order_symbol_mapping. split; intros Hx.
        - apply (dict_of_keys String.eqb String.eqb_spec).
          eapply Permutation_in; [|exact Hx]. apply Permutation_map, isort_perm.
        - apply (dict_of_keys String.eqb String.eqb_spec) in Hx.
          eapply Permutation_in; [|exact Hx]. apply Permutation_map, Permutation_sym, isort_perm. }
    rewrite existsb_exists. split.
    - intros [[k v] [H1 H2]]. apply in_map_iff in H1 as [[k0 v0] [E Hin]]. inversion E; subst.
      cbn in H2. apply String.eqb_eq in H2. exists k0. split; auto.
      apply in_map_iff. eexists. split; [|exact Hin]. reflexivity.
    - intros [k [H1 H2]]. apply in_map_iff in H1 as [[k0 v0] [<- Hin]].
      exists (sg k0, xr sg [] v0). split.
      + apply in_map_iff. exists (k0, v0). auto.
      + cbn in *. rewrite H2. apply String.eqb_refl.
  Qed.

  Lemma is_par_In m s : is_par m s = true <-> In (Sym s) (map fst (parameter_defaults m)).
  Proof.
    unfold is_par. rewrite existsb_exists. split.
    - intros [[k v] [H1 H2]]. cbn in H2. apply expr_eqb_eq in H2. subst.
      apply in_map_iff. exists (Sym s, v). auto.
    - intros H. apply in_map_iff in H as [[k v] [E Hin]]. cbn in E. subst.
      exists (Sym s, v). split; auto. apply expr_eqb_refl.
  Qed.

  Lemma is_kin_In m s : is_kin m s = true <-> In s (map fst (kinematic_variables m)).
  Proof.
    unfold is_kin. rewrite existsb_exists. split.
    - intros [[k v] [H1 H2]]. cbn in H2. apply String.eqb_eq in H2. subst.
      apply in_map_iff. eexists. split; [|exact H1]. reflexivity.
    - intros H. apply in_map_iff in H as [[k v] [E Hin]]. cbn in E. subst.
      exists (s, v). split; auto. apply String.eqb_refl.
  Qed.

  Lemma rename_preserves_closure m r :
    r <> [] ->
    let sg := sigma_of m r in
    expression (rename m r) = xr sg [] (expression m) ->
    nb (expression m) = true ->
    (* the map does not identify a parameter with a kinematic variable *)
    (forall p k, is_par m p = true -> is_kin m k = true -> p <> k -> sg p <> sg k) ->
    closed unfold m = true -> closed unfold (rename m r) = true.
  Proof.
    intros Hr sg HE Hn Hnm Hc. unfold closed in *. rewrite HE, fs_xr by auto.
    rewrite forallb_forall in *. intros t Ht. apply in_map_iff in Ht as [s [<- Hs]].
    specialize (Hc s Hs).
    destruct (is_par m s) eqn:P, (is_kin m s) eqn:Kn; cbn in Hc; try discriminate.
    - (* parameter *)
      assert (P' : is_par (rename m r) (sg s) = true).
      { apply is_par_rename; auto. exists (Sym s). split; [now apply is_par_In|reflexivity]. }
      assert (K' : is_kin (rename m r) (sg s) = false).
      { destruct (is_kin (rename m r) (sg s)) eqn:E; auto. apply is_kin_rename in E as [k [Hk1 Hk2]]; auto.
        exfalso. apply (Hnm s k); auto; [now apply is_kin_In|].
        intros ->. apply is_kin_In in Hk1. congruence. }
      now rewrite P', K'.
    - (* kinematic variable *)
      assert (K' : is_kin (rename m r) (sg s) = true).
      { apply is_kin_rename; auto. exists s. split; [now apply is_kin_In|reflexivity]. }
      assert (P' : is_par (rename m r) (sg s) = false).
      { destruct (is_par (rename m r) (sg s)) eqn:E; auto. apply is_par_rename in E as [k [Hk1 Hk2]]; auto.
        exfalso. destruct k as [p|q|h a]; cbn in Hk2; try discriminate. inversion Hk2 as [Hk3].
        apply (Hnm p s); auto; [now apply is_par_In|].
        intros ->. apply is_par_In in Hk1. congruence. }
      now rewrite P', K'.
  Qed.

  (* composition of two renames on a value (PoolSum-free): the composite symbol map *)
  Lemma rename_compose_value m r1 r2 e : nb e = true ->
    xr (sigma_of (rename m r1) r2) [] (xr (sigma_of m r1) [] e)
    = xr (fun s => sigma_of (rename m r1) r2 (sigma_of m r1 s)) [] e.
  Proof. apply xr_comp. Qed.

  Lemma rename_compose_components m r1 r2 :
    r1 <> [] -> r2 <> [] -> wf_model m -> wf_model (rename m r1) ->
    (forall kv, In kv (components m) -> nb (snd kv) = true) ->
    components (rename (rename m r1) r2)
    = map_vals (xr (fun s => sigma_of (rename m r1) r2 (sigma_of m r1 s)) []) (components m).
  Proof.
    intros H1 H2 W W' Hn.
    destruct (rename_attrs (rename m r1) r2 H2 W') as [_ [_ [Hc _]]].
    destruct (rename_attrs m r1 H1 W) as [_ [_ [Hc1 _]]].
    rewrite Hc, Hc1. unfold map_vals. rewrite map_map. apply map_ext_in.
    intros [k v] Hkv. cbn. f_equal. apply xr_comp. apply (Hn _ Hkv).
  Qed.
End Model.

(* composition at the level of one symbol: the second map acts on the NEW name, the
   assumptions ride along *)
Lemma ren_compose r1 r2 s n1 :
  wf_map r1 -> rget r1 (name_of s) = Some n1 ->
  ren r2 (ren r1 s) = match rget r2 n1 with
                      | Some n2 => mk_sym n2 (assum_of s)
                      | None => mk_sym n1 (assum_of s)
                      end.
Proof.
  intros W E. unfold ren at 1. rewrite (ren_name r1 s n1 W E), (ren_assum r1 s W).
  unfold ren. rewrite E. reflexivity.
Qed.

(* ------------------------------------------------------------------ witnesses *)
Definition idu (e : expr) : expr := e.
Definition z1 (s : string) : nat := 0%nat.
Definition z2 (e : expr) : nat := 0%nat.

Definition A0 : expr := App HIndexed [App (HOther "IndexedBase") [Sym "A|1"]; Num (0 # 1)].
Definition toy : model :=
  Model (App (HOther "PoolSum") [App HPow [App HAbs [A0]; Num (2 # 1)];
                                 App HTuple [Sym "i|2"; App HTuple [Num (0 # 1)]]])
        [(A0, App HMul [Sym "g"; Sym "m|3"; App HCos [Sym "k|3"]; Sym "j|3"])]
        [(Sym "g", "(1+0j)"); (Sym "m|3", "0.98")]
        [("j|3", App (HOther "Phi") [Sym "q"]); ("k|3", App (HOther "Theta") [Sym "p"])]
        [("c", App HMul [Sym "g"; Sym "m|3"])].
(* PoolSum over one value evaluates to its body *)
Definition toy_unfold (e : expr) : expr :=
  match e with App (HOther _) (body :: _) => body | _ => e end.

Lemma toy_wf : wf_model z1 z2 toy.
Proof.
  constructor; cbn;
    repeat match goal with
           | |- NoDup [] => constructor
           | |- NoDup (_ :: _) => constructor; [cbn; intuition discriminate|]
           end; cbn; auto.
Qed.

Lemma toy_closed : closed toy_unfold toy = true /\ in_domain toy_unfold toy = true.
Proof. split; vm_compute; reflexivity. Qed.

(* the hypotheses of rename_expression / rename_preserves_closure hold for a concrete rename *)
Definition toy_r : list (string * string) := [("g", "h"); ("k", "kk"); ("m", "g")].

Lemma forallb_fix sg l : forallb (fun s => String.eqb (sg s) s) l = true -> forall s, In s l -> sg s = s.
Proof. intros H s Hs. rewrite forallb_forall in H. apply String.eqb_eq. auto. Qed.

Lemma toy_hyps :
  wf_map toy_r
  /\ (forall s, In s (syms (intensity toy)) -> sigma_of toy_unfold toy toy_r s = s)
  /\ (forall s, In s (syms (toy_unfold (intensity toy))) -> sigma_of toy_unfold toy toy_r s = s)
  /\ nb (toy_unfold (intensity toy)) = true
  /\ nb (expression toy_unfold toy) = true
  /\ (forall p k, is_par toy p = true -> is_kin toy k = true -> p <> k ->
        sigma_of toy_unfold toy toy_r p <> sigma_of toy_unfold toy toy_r k).
Proof.
  split; [repeat constructor|]. split; [apply forallb_fix; vm_compute; reflexivity|].
  split; [apply forallb_fix; vm_compute; reflexivity|]. split; [vm_compute; reflexivity|].
  split; [vm_compute; reflexivity|].
  intros p k Hp Hk _. apply is_par_In in Hp. apply is_kin_In in Hk. cbn in Hp, Hk.
  destruct Hp as [Hp|[Hp|[]]]; inversion Hp; subst; destruct Hk as [<-|[<-|[]]];
    vm_compute; discriminate.
Qed.

Lemma toy_result :
  Rename.rename toy_unfold z1 z2 toy toy_r =
  Model (intensity toy)
        [(A0, App HMul [Sym "h"; Sym "g|3"; App HCos [Sym "kk|3"]; Sym "j|3"])]
        [(Sym "h", "(1+0j)"); (Sym "g|3", "0.98")]
        [("j|3", App (HOther "Phi") [Sym "q"]); ("kk|3", App (HOther "Theta") [Sym "p"])]
        [("c", App HMul [Sym "h"; Sym "g|3"])].
Proof. vm_compute. reflexivity. Qed.

Lemma rename_semantics_l unfold nrank arank m r :
  r <> [] -> wf_model nrank arank m ->
  let sg := sigma_of unfold m r in
  (forall s, In s (syms (intensity m)) -> sg s = s) ->
  (forall s, In s (syms (unfold (intensity m))) -> sg s = s) ->
  nb (unfold (intensity m)) = true ->
  nb (expression unfold m) = true ->
  forall (V : Type) (qval : Q -> V) (interp : head -> list V -> V) (rho : string -> V),
    den V qval interp rho (expression unfold (Rename.rename unfold nrank arank m r))
    = den V qval interp (fun s => rho (sg s)) (expression unfold m).
Proof.
  intros Hr W sg H1 H2 Hn He V qval interp rho.
  rewrite (rename_expression unfold nrank arank m r Hr W H1 H2 Hn). apply den_xr. exact He.
Qed.

Lemma merge_kin_par_refuted :
  exists m r, wf_model z1 z2 m /\ closed toy_unfold m = true
              /\ closed toy_unfold (Rename.rename toy_unfold z1 z2 m r) = false.
Proof. exists toy, [("k", "m")]. split; [apply toy_wf|]. split; vm_compute; reflexivity. Qed.

Lemma merge_kin_kin_refuted :
  exists m r, wf_model z1 z2 m
              /\ (length (kinematic_variables (Rename.rename toy_unfold z1 z2 m r))
                  < length (kinematic_variables m))%nat
              /\ ~ Permutation (kinematic_variables (Rename.rename toy_unfold z1 z2 m r))
                     (map (fun kv => (sigma_of toy_unfold m r (fst kv),
                                      xr (sigma_of toy_unfold m r) [] (snd kv)))
                          (kinematic_variables m)).
Proof.
  exists toy, [("j", "k")]. split; [apply toy_wf|]. split; [vm_compute; auto|].
  intros P. apply Permutation_length in P. vm_compute in P. discriminate.
Qed.
