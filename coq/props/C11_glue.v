(* C11 — combines the (s,m,m)-tree identity (C11_lemmas) with the two bridge lemmas. *)
From AV Require Import DenC.
From AVchk Require Import Gen_C11 C11_lemmas C11_bridge_swave C11_bridge_eqm.
Open Scope C_scope.

Lemma equalmass_eq_swave_general s m : (0 < m)%R -> s <> 0%R -> s <> (4 * m ^ 2)%R ->
  wdC (envS s m m) gen_eqm /\ wdC (envS s m m) gen_swave /\
  denC (envS s m m) gen_eqm = denC (envS s m m) gen_swave.
Proof.
  intros Hm H0 H4.
  destruct (equalmass_eq_swave_all s m Hm H0 H4) as [W1 [W2 E]].
  destruct (eqm_general_at_equal_mass s m Hm H0 H4) as [I1 E1].
  destruct (swave_general_at_equal_mass s m Hm H0) as [I2 E2].
  split; [exact (I1 W1)|split; [exact (I2 W2)|]]. rewrite E1, E2. exact E.
Qed.
