(* C16 — cached unfolding equals doit() whatever the cache has seen.
   Statements only; proofs in C16_lemmas.v; model in coq/theories/Cache.v (hand-written, tied to
   /repo/src/ampform/sympy/__init__.py by the correspondence run of runners/C16.py).

   Reading guide.  [keyf] (get_readable_hash) and [doit] are universally quantified: every
   statement about the Robust variant holds for every key function — any hash seed, a key that
   identifies expressions which print identically, even a constant one.  [expr_eqb] is SymPy's
   [==]; the only thing assumed about it is that equal expressions unfold equally.  A schedule
   [acts] is an arbitrary list of actions: Spawn (a new call, so any number of calls), Step /
   Chunk / RunTo of any call in any order (all interleavings), Crash of any call at any point
   (in particular after any strict prefix of its write), and environment actions that truncate,
   delete or replace any cache file by unloadable bytes, loadable junk, a pinned-format file or a
   correct file of ANOTHER expression.  Excluded by hypothesis: a directory entry "<key>.pkl"
   that is not a regular file ([EnvBlock], see C16_blocked_entry_raises), and a forged file
   (a 2-tuple (src, res) with res <> doit src) in the initial directory ([dir_ok]). *)
From Coq Require Import List Arith.
Import ListNotations.
From AV Require Import Cache.
From AVchk Require Import C16_lemmas.

Section C16.
Variables (expr key : Type).
Variable expr_eqb : expr -> expr -> bool.
Variable key_eqb : key -> key -> bool.
Variable keyf : expr -> key.
Variable doit : expr -> expr.
Variable picklable : expr -> bool.
Hypothesis eqb_doit : forall a b, expr_eqb a b = true -> doit a = doit b.

Notation runR := (run expr key expr_eqb key_eqb keyf doit picklable Robust).
Notation runP := (run expr key expr_eqb key_eqb keyf doit picklable Pinned).

(* Robust (= current code): from any directory without forged files, after ANY schedule:
   the directory is still free of forged files, every call that has returned has returned
   an expression equal to doit e, and no call has raised. *)
Theorem C16_robust_correct : forall (d : key -> option (content expr)) (acts : list (action expr key)),
  dir_ok expr key doit d -> no_blocked expr key d -> no_block_actions expr key acts ->
  let s' := runR acts (init d) in
  dir_ok expr key doit (dir s')
  /\ (forall i e v, nth_error (procs s') i = Some (PDone e v) -> v = VExpr (doit e))
  /\ (forall i e, nth_error (procs s') i <> Some (PRaised e)).
Proof.
  intros d acts H1 H2 H3 s'.
  destruct (robust_correct_l expr key expr_eqb key_eqb keyf doit picklable eqb_doit acts (init d)
              (inv_init expr key doit d H1 H2) H3) as (_ & A & B & C).
  repeat split; auto.
Qed.

(* the invariant is inductive: preserved by every single action from every state *)
Theorem C16_robust_invariant_step : forall s a,
  Inv expr key doit s -> is_block a = false ->
  Inv expr key doit (step expr key expr_eqb key_eqb keyf doit picklable Robust s a).
Proof. exact (step_inv expr key expr_eqb key_eqb keyf doit picklable eqb_doit). Qed.

(* total correctness / no blocking: a call on e that is not itself killed and is scheduled for
   6 steps returns doit e — whatever the other calls do, whichever of them are killed, whatever
   happens to the files in between *)
Theorem C16_robust_total : forall s acts i e,
  Inv expr key doit s -> no_block_actions expr key acts ->
  nth_error (procs s) i = Some (PStart e) ->
  no_crash_of expr key i acts -> 6 <= own_steps expr key i acts ->
  nth_error (procs (runR acts s)) i = Some (PDone e (VExpr (doit e))).
Proof.
  intros; apply (robust_total_l expr key expr_eqb key_eqb keyf doit picklable eqb_doit); auto.
Qed.

(* Pinned (the code before 7aad13b) — PARTIAL, sequential form: correct for undisturbed calls
   one after the other on a directory written by itself, if the key function is injective up to
   doit on the expressions USED (a weaker injectivity than in the interleaved form below). *)
Theorem C16_pinned_correct_partial :
  (forall a b, key_eqb a b = true <-> a = b) ->
  (forall e, picklable e = true) ->
  forall es l d,
  pinv expr key keyf doit d ->
  (forall e e', In e es -> keyf e = keyf e' -> doit e = doit e') ->
  let s' := runP (seq_calls (length l) es) (mkSys d l) in
  pinv expr key keyf doit (dir s') /\ procs s' = l ++ map (fun e => PDone e (VExpr (doit e))) es.
Proof.
  intros Hk Hp; exact (pinned_correct_partial_l expr key expr_eqb key_eqb keyf doit picklable Hk Hp).
Qed.

(* Pinned, interleaved — PARTIAL: calls may interleave freely and be killed, PROVIDED every write
   (open-truncate, chunks, last chunk) is an uninterrupted block [AWrite] — so no read overlaps a
   write and nobody is killed inside one —, nothing else touches the directory, and the key
   function is injective up to doit.  These are the hypotheses the proof forces; each one is
   necessary (refutations below).  [PInvS]: the directory holds only pinned-format files of
   expressions with that key, nobody is inside a write. *)
Theorem C16_pinned_correct_interleaved_partial :
  (forall a b, key_eqb a b = true <-> a = b) ->
  (forall e e', keyf e = keyf e' -> doit e = doit e') ->
  (forall e, picklable e = true) ->
  forall (l : list (atom expr)) s,
  PInvS expr key keyf doit s -> sched_ok expr key expr_eqb key_eqb keyf doit picklable s l ->
  let s' := run_atoms expr key expr_eqb key_eqb keyf doit picklable l s in
  pinv expr key keyf doit (dir s')
  /\ (forall i e v, nth_error (procs s') i = Some (PDone e v) -> v = VExpr (doit e))
  /\ (forall i e, nth_error (procs s') i <> Some (PRaised e)).
Proof. exact (pinned_interleaved_l expr key expr_eqb key_eqb keyf doit picklable). Qed.
End C16.

(* ---- refutations of the pinned variant (vm_compute witnesses), numbers as expressions ---- *)
Notation nrunv v keyf doit := (run nat nat Nat.eqb Nat.eqb keyf doit (fun _ => true) v).

(* two expressions with different unfoldings and one key, called one after the other, nothing
   crashes: the second call returns the unfolding of the first *)
Theorem C16_pinned_refuted_collision :
  exists (keyf doit : nat -> nat) acts,
    acts = call 0 0 ++ call 1 1 /\ doit 0 <> doit 1 /\
    nth_error (procs (nrunv Pinned keyf doit acts (init empty_dir))) 1 = Some (PDone 1 (VExpr (doit 0))).
Proof.
  exists kconst, dS, w_collision. destruct pinned_refuted_collision_l. repeat split; auto.
Qed.

(* injective key; a writer is killed after a strict prefix; the next call on that expression raises *)
Theorem C16_pinned_refuted_truncation :
  exists (doit : nat -> nat) acts,
    acts = [Spawn 0; RunTo 0 AtDump; Chunk 0; Crash 0] ++ call 1 0 /\
    nth_error (procs (nrunv Pinned (fun e => e) doit acts (init empty_dir))) 1 = Some (PRaised 0).
Proof. exists dS, w_truncation. split; [reflexivity | exact pinned_refuted_truncation_l]. Qed.

(* injective key, nobody is killed: a call scheduled while another one is inside its write raises *)
Theorem C16_pinned_refuted_concurrent :
  exists (doit : nat -> nat) acts,
    acts = [Spawn 0; Spawn 0; RunTo 0 AtDump; RunTo 1 AtEnd; RunTo 0 AtEnd] /\
    procs (nrunv Pinned (fun e => e) doit acts (init empty_dir)) = [PDone 0 (VExpr (doit 0)); PRaised 0].
Proof. exists dS, w_concurrent. split; [reflexivity | exact pinned_refuted_concurrent_l]. Qed.

(* every expression can be pickled in the hypotheses above because the pinned code lets the
   PicklingError escape (and leaves a truncated file, so the next call on that key raises too) *)
Theorem C16_pinned_refuted_unpicklable :
  let s := run nat nat Nat.eqb Nat.eqb kid dS unp Pinned (call 0 0 ++ call 1 0) (init empty_dir) in
  procs s = [PRaised 0; PRaised 0] /\ dir s 0 = Some Garbage.
Proof. exact pinned_refuted_unpicklable_l. Qed.

(* ---- non-vacuity ---- *)
(* [picklable] is not constrained in the Robust theorems: an expression that cannot be pickled
   (number 0 here) gets doit e, nothing is written; the picklable expression 1 with the SAME key is
   served and cached before and after *)
Example C16_robust_unpicklable_returns :
  let s := run nat nat Nat.eqb Nat.eqb kconst dS unp Robust (call 0 0) (init empty_dir) in
  procs s = [PDone 0 (VExpr (dS 0))] /\ dir s 0 = None
  /\ procs (run nat nat Nat.eqb Nat.eqb kconst dS unp Robust w_unpicklable (init empty_dir))
     = [PDone 0 (VExpr (dS 0)); PDone 1 (VExpr (dS 1)); PDone 0 (VExpr (dS 0)); PDone 1 (VExpr (dS 1))]
  /\ dir (run nat nat Nat.eqb Nat.eqb kconst dS unp Robust w_unpicklable (init empty_dir)) 0 = Some (Valid 1 (dS 1)).
Proof. exact robust_unpicklable_l. Qed.

(* the same three schedules under the current code *)
Example C16_robust_survives_collision :
  procs (nrunv Robust kconst dS w_collision (init empty_dir)) = [PDone 0 (VExpr (dS 0)); PDone 1 (VExpr (dS 1))].
Proof. exact robust_survives_collision_l. Qed.
Example C16_robust_survives_truncation :
  procs (nrunv Robust kid dS w_truncation (init empty_dir)) = [PCrashed 0; PDone 0 (VExpr (dS 0))].
Proof. exact robust_survives_truncation_l. Qed.
Example C16_robust_survives_concurrent :
  procs (nrunv Robust kid dS w_concurrent (init empty_dir)) = [PDone 0 (VExpr (dS 0)); PDone 0 (VExpr (dS 0))].
Proof. exact robust_survives_concurrent_l. Qed.

(* the cache is used: the file appears, and the next call is Done after 2 steps (no recomputation) *)
Example C16_robust_cache_hit :
  let s := nrunv Robust kid dS (call 0 7 ++ [Spawn 7; Step 1; Step 1]) (init empty_dir) in
  dir s 7 = Some (Valid 7 (dS 7)) /\ nth_error (procs s) 1 = Some (PDone 7 (VExpr (dS 7))).
Proof. exact robust_cache_hit_l. Qed.

(* hypotheses of C16_robust_correct are satisfiable by a directory full of rubbish
   (file of another expression under the same key, legacy file, unloadable file, junk) *)
Example C16_messy_directory_admissible :
  dir_ok nat nat dS messy_dir /\ no_blocked nat nat messy_dir.
Proof. exact messy_dir_ok. Qed.

(* hypotheses of C16_robust_total are satisfiable: three interleaved calls on ONE key over that
   directory, one of them killed inside its write, a truncation, a deletion, garbage *)
Example C16_busy_schedule_admissible :
  no_block_actions nat nat busy /\ no_crash_of nat nat 0 busy /\ 6 <= own_steps nat nat 0 busy
  /\ procs (nrunv Robust kconst dS busy (init messy_dir))
     = [PDone 0 (VExpr (dS 0)); PDone 1 (VExpr (dS 1)); PCrashed 0].
Proof.
  repeat split; try exact busy_outcome_l; try (repeat constructor).
Qed.

(* hypotheses of C16_pinned_correct_interleaved_partial are satisfiable by a genuinely
   interleaved schedule (two calls on one expression, a third call killed) *)
Example C16_pinned_interleaved_admissible :
  sched_ok nat nat Nat.eqb Nat.eqb kid dS (fun _ => true) (init empty_dir) pin_sched
  /\ procs (run_atoms nat nat Nat.eqb Nat.eqb kid dS (fun _ => true) pin_sched (init empty_dir))
     = [PDone 0 (VExpr (dS 0)); PDone 0 (VExpr (dS 0)); PCrashed 1].
Proof. exact pin_sched_ok_l. Qed.

(* the exclusion of non-file entries is necessary: if "<key>.pkl" is a directory the call raises *)
Example C16_blocked_entry_raises :
  procs (nrunv Robust kid dS ([EnvBlock 0] ++ call 0 0) (init empty_dir)) = [PRaised 0].
Proof. exact blocked_raises_l. Qed.

From Coq Require Import String NArith.
(* ---- the key function in use is selected by the value of PYTHONHASHSEED at call time ---- *)
(* the selection is a total function of the environment value (a Gallina function: it cannot raise);
   python-hash mode exactly for non-empty strings of digits, sha256 for everything else:
   unset, "", "random", any other string *)
Theorem C16_hash_mode_spec : forall v n,
  HashMode.hash_mode v = HashMode.PyHash n
  <-> exists s, v = HashMode.EnvStr s /\ HashMode.isdigit s = true /\ n = HashMode.parse_acc 0 s.
Proof. exact hash_mode_spec_l. Qed.
Theorem C16_hash_mode_fallback : forall v,
  (v = HashMode.EnvUnset \/ exists s, v = HashMode.EnvStr s /\ HashMode.isdigit s = false)
  <-> HashMode.hash_mode v = HashMode.Sha256.
Proof. exact hash_mode_fallback_l. Qed.

(* whatever the environment value, whatever key function each mode stands for: correctness *)
Theorem C16_robust_correct_any_env :
  forall (expr key : Type) (expr_eqb : expr -> expr -> bool) (key_eqb : key -> key -> bool)
         (key_of : HashMode.keymode -> expr -> key) (doit : expr -> expr) (picklable : expr -> bool)
         (v : HashMode.envval),
  (forall a b, expr_eqb a b = true -> doit a = doit b) ->
  forall d acts, dir_ok expr key doit d -> no_blocked expr key d -> no_block_actions expr key acts ->
  let s' := run expr key expr_eqb key_eqb (key_of (HashMode.hash_mode v)) doit picklable Robust acts (init d) in
  dir_ok expr key doit (dir s')
  /\ (forall i e w, nth_error (procs s') i = Some (PDone e w) -> w = VExpr (doit e))
  /\ (forall i e, nth_error (procs s') i <> Some (PRaised e)).
Proof.
  intros expr key expr_eqb key_eqb key_of doit picklable v H d acts.
  exact (C16_robust_correct expr key expr_eqb key_eqb (key_of (HashMode.hash_mode v)) doit picklable H d acts).
Qed.

Example C16_hash_mode_examples :
  map HashMode.hash_mode
    [HashMode.EnvUnset; HashMode.EnvStr ""%string; HashMode.EnvStr "0"%string; HashMode.EnvStr "1234"%string;
     HashMode.EnvStr "4294967295"%string; HashMode.EnvStr "random"%string; HashMode.EnvStr "abc"%string; HashMode.EnvStr " 1"%string;
     HashMode.EnvStr "-1"%string; HashMode.EnvStr "12a"%string]
  = [HashMode.Sha256; HashMode.Sha256; HashMode.PyHash 0%N; HashMode.PyHash 1234%N; HashMode.PyHash 4294967295%N;
     HashMode.Sha256; HashMode.Sha256; HashMode.Sha256; HashMode.Sha256; HashMode.Sha256].
Proof. exact hash_mode_examples_l. Qed.

Print Assumptions C16_robust_correct.
Print Assumptions C16_robust_invariant_step.
Print Assumptions C16_robust_total.
Print Assumptions C16_pinned_correct_partial.
Print Assumptions C16_pinned_correct_interleaved_partial.
Print Assumptions C16_pinned_refuted_collision.
Print Assumptions C16_pinned_refuted_truncation.
Print Assumptions C16_pinned_refuted_concurrent.
Print Assumptions C16_robust_survives_collision.
Print Assumptions C16_robust_survives_truncation.
Print Assumptions C16_robust_survives_concurrent.
Print Assumptions C16_robust_cache_hit.
Print Assumptions C16_messy_directory_admissible.
Print Assumptions C16_busy_schedule_admissible.
Print Assumptions C16_pinned_interleaved_admissible.
Print Assumptions C16_blocked_entry_raises.
Print Assumptions C16_pinned_refuted_unpicklable.
Print Assumptions C16_robust_unpicklable_returns.
Print Assumptions C16_hash_mode_spec.
Print Assumptions C16_hash_mode_fallback.
Print Assumptions C16_robust_correct_any_env.
Print Assumptions C16_hash_mode_examples.
