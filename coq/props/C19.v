(* C19 — Dalitz-plot-decomposition angles satisfy their geometry and identities.
   Only statements; each is closed by [exact] of a lemma of C19_lemmas.v, which is about the
   trees regenerated in this run from /repo (Gen_C19: formulate_scattering_angle,
   formulate_theta_hat_angle, formulate_zeta_angle on ALL index tuples in {0..3}^2 / {0..3}^3,
   after .doit() of the Kallen nodes; a raised exception is an [inr "Class"] table entry).

   Vocabulary (C19_lemmas.v / theories/Dpd.v, independent of the code):
     is_event ...   momenta p1,p2,p3 with E_i > 0, sum of three-momenta 0, m0 = E1+E2+E3,
                    m_i^2 = p_i^2, m_jk^2 = (p_j+p_k)^2   (parent rest frame)
     interior ...   p2 x p3 <> 0  (the momenta are not collinear  <=>  Kibble < 0, see C20)
     pmom i         p_i (i = 0: the parent),   psub k = sum of the two momenta other than p_k
     cos3 a b       a.b/(|a||b|) of the three-momenta in the frame of the components
     cosf u a b     [(a.u)(b.u) - u^2 (a.b)] / sqrt(..)sqrt(..): the cosine of the angle between
                    the three-momenta of a and b in the rest frame of u, written with Lorentz
                    invariants (theorems C19_cosf_... below)
     tsign, zsign   the sign conventions of the DPD paper as implemented:
                    theta-hat_{i(j)} > 0 for (i,j) = (1,2),(2,3),(3,1);
                    zeta^i_{j(k)} > 0 iff j = i+1 or k = i+2 (cyclically), i in {1,2,3}. *)
From AV Require Import DenR PhspMath Dpd.
From AVchk Require Import Gen_C19 Gen_C19_dpd C19_lemmas C19_lemmas2 C19_lemmas3.
Open Scope R_scope.

(* ---------- which tuples raise (all 16 / 16 / 64 tuples) ---------- *)
Theorem C19_scattering_error_branches : forall i j, (i < 4)%nat -> (j < 4)%nat ->
  exists r, lookup2 scat_tab i j = Some r /\ ((exists s, r = inr s) <-> scat_raises i j = true).
Proof. exact scat_errors. Qed.

Theorem C19_theta_hat_error_branches : forall i j, (i < 4)%nat -> (j < 4)%nat ->
  raises (lookup2 that_tab i j) = that_raises i j.
Proof. exact that_errors. Qed.

(* zeta: error branches; zeta^0_{j(k)} IS theta-hat_{j(k)}; zeta^i_{j(0)} IS zeta^i_{j(i)};
   zeta^i_{j(j)} IS 0 — syntactic identities of the returned expressions, for all tuples *)
Theorem C19_zeta_ref0_eq_refi_diag_zero_all_tuples :
  forall i j k, (i < 4)%nat -> (j < 4)%nat -> (k < 4)%nat ->
  raises (lookup3 zeta_tab i j k) = zeta_raises i j k /\
  (i = 0%nat -> lookup3 zeta_tab i j k = lookup2 that_tab j k) /\
  (k = 0%nat -> i <> 0%nat -> lookup3 zeta_tab i j k = lookup3 zeta_tab i j i) /\
  (j = k -> zeta_raises i j k = false -> lookup3 zeta_tab i j k = Some (inl (Num 0))).
Proof. exact zeta_struct. Qed.

Theorem C19_theta_hat_diag_zero : forall i, (1 <= i <= 3)%nat ->
  lookup2 that_tab i i = Some (inl (Num 0)).
Proof. exact that_diag. Qed.

(* antisymmetry holds in EVERY environment (one tree is -1 times the other) *)
Theorem C19_theta_hat_antisym : forall i j ρ, (1 <= i <= 3)%nat -> (1 <= j <= 3)%nat -> i <> j ->
  exists x y, lookup2 that_tab i j = Some (inl x) /\ lookup2 that_tab j i = Some (inl y) /\
              denR ρ x = - denR ρ y /\ (wdR ρ x <-> wdR ρ y).
Proof. exact that_antisym. Qed.

Theorem C19_zeta_antisym : forall i j k ρ,
  (i < 4)%nat -> (1 <= j <= 3)%nat -> (1 <= k <= 3)%nat -> j <> k ->
  exists x y, lookup3 zeta_tab i j k = Some (inl x) /\ lookup3 zeta_tab i k j = Some (inl y) /\
              denR ρ x = - denR ρ y /\ (wdR ρ x <-> wdR ρ y).
Proof. exact zeta_antisym. Qed.

(* the Kallen function that .doit() unfolds inside every angle *)
Theorem C19_kallen_definition : forall x y z,
  wdR (envK x y z) gen_kallen /\ denR (envK x y z) gen_kallen = kallenR x y z.
Proof. exact kallen_closed. Qed.

(* ---------- meaning of cosf ---------- *)
Theorem C19_cosf_is_rest_frame_cosine : forall u a b,
  vx u = 0 -> vy u = 0 -> vz u = 0 -> vE u <> 0 -> 0 < sdot a a -> 0 < sdot b b ->
  cosf u a b = cos3 a b.
Proof. exact cosf_rest. Qed.

Theorem C19_cosf_lorentz_invariant : forall u a b u' a' b',
  mdot u' u' = mdot u u -> mdot a' u' = mdot a u -> mdot b' u' = mdot b u ->
  mdot a' a' = mdot a a -> mdot b' b' = mdot b b -> mdot a' b' = mdot a b ->
  cosf u' a' b' = cosf u a b.
Proof. exact cosf_invariant. Qed.

Theorem C19_cos3_in_range : forall a b, 0 < sdot a a -> 0 < sdot b b -> -1 <= cos3 a b <= 1.
Proof. exact cos3_range. Qed.

(* ---------- theta-hat_{i(j)} = +-(angle between p_i and p_j in the parent rest frame) ------- *)
Theorem C19_theta_hat_geometric :
  forall E1 x1 y1 z1 E2 x2 y2 z2 E3 x3 y3 z3 m0 m1 m2 m3 m12 m13 m23,
  is_event E1 x1 y1 z1 E2 x2 y2 z2 E3 x3 y3 z3 m0 m1 m2 m3 m12 m13 m23 ->
  interior x2 y2 z2 x3 y3 z3 ->
  forall i j, (1 <= i <= 3)%nat -> (1 <= j <= 3)%nat -> i <> j ->
  exists t, lookup2 that_tab i j = Some (inl t) /\
    wdR (envD m0 m1 m2 m3 m12 m13 m23) t /\
    denR (envD m0 m1 m2 m3 m12 m13 m23) t
    = tsign i j * acos (cos3 (pmom (V4 E1 x1 y1 z1) (V4 E2 x2 y2 z2) (V4 E3 x3 y3 z3) i)
                             (pmom (V4 E1 x1 y1 z1) (V4 E2 x2 y2 z2) (V4 E3 x3 y3 z3) j)).
Proof. exact that_geometric. Qed.

(* ---------- theta_ij = angle, in the rest frame of (ij) = subsystem k, between particle i and
   the direction OPPOSITE to the spectator k (= opposite to the parent): the helicity angle --- *)
Theorem C19_scattering_geometric :
  forall E1 x1 y1 z1 E2 x2 y2 z2 E3 x3 y3 z3 m0 m1 m2 m3 m12 m13 m23,
  is_event E1 x1 y1 z1 E2 x2 y2 z2 E3 x3 y3 z3 m0 m1 m2 m3 m12 m13 m23 ->
  interior x2 y2 z2 x3 y3 z3 ->
  forall i j, (1 <= i <= 3)%nat -> (1 <= j <= 3)%nat -> i <> j ->
  exists t, lookup2 scat_tab i j = Some (inl t) /\
    wdR (envD m0 m1 m2 m3 m12 m13 m23) t /\
    denR (envD m0 m1 m2 m3 m12 m13 m23) t
    = acos (- cosf (psub (V4 E1 x1 y1 z1) (V4 E2 x2 y2 z2) (V4 E3 x3 y3 z3) (third i j))
                   (pmom (V4 E1 x1 y1 z1) (V4 E2 x2 y2 z2) (V4 E3 x3 y3 z3) i)
                   (pmom (V4 E1 x1 y1 z1) (V4 E2 x2 y2 z2) (V4 E3 x3 y3 z3) (third i j))).
Proof. exact scat_geometric. Qed.

Theorem C19_scattering_sum_pi :
  forall E1 x1 y1 z1 E2 x2 y2 z2 E3 x3 y3 z3 m0 m1 m2 m3 m12 m13 m23,
  is_event E1 x1 y1 z1 E2 x2 y2 z2 E3 x3 y3 z3 m0 m1 m2 m3 m12 m13 m23 ->
  interior x2 y2 z2 x3 y3 z3 ->
  forall i j, (1 <= i <= 3)%nat -> (1 <= j <= 3)%nat -> i <> j ->
  exists t1 t2, lookup2 scat_tab i j = Some (inl t1) /\ lookup2 scat_tab j i = Some (inl t2) /\
    wdR (envD m0 m1 m2 m3 m12 m13 m23) t1 /\ wdR (envD m0 m1 m2 m3 m12 m13 m23) t2 /\
    denR (envD m0 m1 m2 m3 m12 m13 m23) t1 + denR (envD m0 m1 m2 m3 m12 m13 m23) t2 = PI.
Proof. exact scat_sum_pi. Qed.

(* ---------- zeta^i_{j(k)}, i in {1,2,3}: +-(angle, in the rest frame of particle i, between the
   momenta of subsystems (j) and (k)) ---------- *)
Theorem C19_zeta_geometric :
  forall E1 x1 y1 z1 E2 x2 y2 z2 E3 x3 y3 z3 m0 m1 m2 m3 m12 m13 m23,
  is_event E1 x1 y1 z1 E2 x2 y2 z2 E3 x3 y3 z3 m0 m1 m2 m3 m12 m13 m23 ->
  interior x2 y2 z2 x3 y3 z3 ->
  forall i j k, (1 <= i <= 3)%nat -> (1 <= j <= 3)%nat -> (1 <= k <= 3)%nat -> j <> k ->
  exists t, lookup3 zeta_tab i j k = Some (inl t) /\
    wdR (envD m0 m1 m2 m3 m12 m13 m23) t /\
    denR (envD m0 m1 m2 m3 m12 m13 m23) t
    = zsign i j k * acos (cosf (pmom (V4 E1 x1 y1 z1) (V4 E2 x2 y2 z2) (V4 E3 x3 y3 z3) i)
                               (psub (V4 E1 x1 y1 z1) (V4 E2 x2 y2 z2) (V4 E3 x3 y3 z3) j)
                               (psub (V4 E1 x1 y1 z1) (V4 E2 x2 y2 z2) (V4 E3 x3 y3 z3) k)).
Proof. exact zeta_geometric. Qed.

(* ---------- the sum rule zeta^i_{j(k)} = zeta^i_{j(i)} + zeta^i_{i(k)} at the level of the
   ANGLES, for all six orderings of {i,j,k} = {1,2,3} (cyclic and anti-cyclic) ---------- *)
Theorem C19_zeta_sum_rule :
  forall E1 x1 y1 z1 E2 x2 y2 z2 E3 x3 y3 z3 m0 m1 m2 m3 m12 m13 m23,
  is_event E1 x1 y1 z1 E2 x2 y2 z2 E3 x3 y3 z3 m0 m1 m2 m3 m12 m13 m23 ->
  interior x2 y2 z2 x3 y3 z3 ->
  forall i j k, (1 <= i <= 3)%nat -> (1 <= j <= 3)%nat -> (1 <= k <= 3)%nat ->
  i <> j -> i <> k -> j <> k ->
  exists t1 t2 t3,
    lookup3 zeta_tab i j k = Some (inl t1) /\ lookup3 zeta_tab i j i = Some (inl t2) /\
    lookup3 zeta_tab i i k = Some (inl t3) /\
    wdR (envD m0 m1 m2 m3 m12 m13 m23) t1 /\ wdR (envD m0 m1 m2 m3 m12 m13 m23) t2 /\
    wdR (envD m0 m1 m2 m3 m12 m13 m23) t3 /\
    denR (envD m0 m1 m2 m3 m12 m13 m23) t1
    = denR (envD m0 m1 m2 m3 m12 m13 m23) t2 + denR (envD m0 m1 m2 m3 m12 m13 m23) t3.
Proof. exact zeta_sum_rule. Qed.

(* ---------- massless rotated particle (m_i = 0): the arccos argument is identically 1, no
   Wigner rotation ---------- *)
Theorem C19_zeta_massless_zero :
  forall E1 x1 y1 z1 E2 x2 y2 z2 E3 x3 y3 z3 m0 m1 m2 m3 m12 m13 m23,
  is_event E1 x1 y1 z1 E2 x2 y2 z2 E3 x3 y3 z3 m0 m1 m2 m3 m12 m13 m23 ->
  interior x2 y2 z2 x3 y3 z3 ->
  forall i j k, (1 <= i <= 3)%nat -> (1 <= j <= 3)%nat -> (1 <= k <= 3)%nat -> j <> k ->
  mdot (pmom (V4 E1 x1 y1 z1) (V4 E2 x2 y2 z2) (V4 E3 x3 y3 z3) i)
       (pmom (V4 E1 x1 y1 z1) (V4 E2 x2 y2 z2) (V4 E3 x3 y3 z3) i) = 0 ->
  exists t, lookup3 zeta_tab i j k = Some (inl t) /\
            wdR (envD m0 m1 m2 m3 m12 m13 m23) t /\ denR (envD m0 m1 m2 m3 m12 m13 m23) t = 0.
Proof. exact zeta_massless_zero. Qed.

(* ---------- every generated expression is well defined at every interior point: all arccosine
   arguments in [-1,1], all square roots of positive numbers, no division by zero ---------- *)
Theorem C19_acos_args_in_range_scattering :
  forall E1 x1 y1 z1 E2 x2 y2 z2 E3 x3 y3 z3 m0 m1 m2 m3 m12 m13 m23,
  is_event E1 x1 y1 z1 E2 x2 y2 z2 E3 x3 y3 z3 m0 m1 m2 m3 m12 m13 m23 ->
  interior x2 y2 z2 x3 y3 z3 ->
  forall i j t, (i < 4)%nat -> (j < 4)%nat ->
  lookup2 scat_tab i j = Some (inl t) -> wdR (envD m0 m1 m2 m3 m12 m13 m23) t.
Proof. exact scat_all_wd. Qed.

Theorem C19_acos_args_in_range_theta_hat :
  forall E1 x1 y1 z1 E2 x2 y2 z2 E3 x3 y3 z3 m0 m1 m2 m3 m12 m13 m23,
  is_event E1 x1 y1 z1 E2 x2 y2 z2 E3 x3 y3 z3 m0 m1 m2 m3 m12 m13 m23 ->
  interior x2 y2 z2 x3 y3 z3 ->
  forall i j t, (i < 4)%nat -> (j < 4)%nat ->
  lookup2 that_tab i j = Some (inl t) -> wdR (envD m0 m1 m2 m3 m12 m13 m23) t.
Proof. exact that_all_wd. Qed.

Theorem C19_acos_args_in_range_zeta :
  forall E1 x1 y1 z1 E2 x2 y2 z2 E3 x3 y3 z3 m0 m1 m2 m3 m12 m13 m23,
  is_event E1 x1 y1 z1 E2 x2 y2 z2 E3 x3 y3 z3 m0 m1 m2 m3 m12 m13 m23 ->
  interior x2 y2 z2 x3 y3 z3 ->
  forall i j k t, (i < 4)%nat -> (j < 4)%nat -> (k < 4)%nat ->
  lookup3 zeta_tab i j k = Some (inl t) -> wdR (envD m0 m1 m2 m3 m12 m13 m23) t.
Proof. exact zeta_all_wd. Qed.

(* ---------- evaluation routes that substitute masses BEFORE doit() ----------
   Kallen(...).doit() called with structurally equal, zero or numeric arguments (what happens when
   equal fixed masses are substituted into the still unevaluated angle expression) denotes the
   Kallen polynomial at those arguments. *)
Theorem C19_kallen_equal_arguments : forall x y z,
  let ρ := envK x y z in
  (wdR ρ gen_kallen_xyy /\ denR ρ gen_kallen_xyy = kallenR x y y) /\
  (wdR ρ gen_kallen_xxz /\ denR ρ gen_kallen_xxz = kallenR x x z) /\
  (wdR ρ gen_kallen_xyx /\ denR ρ gen_kallen_xyx = kallenR x y x) /\
  (wdR ρ gen_kallen_xxx /\ denR ρ gen_kallen_xxx = kallenR x x x) /\
  (wdR ρ gen_kallen_x00 /\ denR ρ gen_kallen_x00 = kallenR x 0 0) /\
  (wdR ρ gen_kallen_0yy /\ denR ρ gen_kallen_0yy = kallenR 0 y y) /\
  (wdR ρ gen_kallen_xy0 /\ denR ρ gen_kallen_xy0 = kallenR x y 0) /\
  (wdR ρ gen_kallen_x0z /\ denR ρ gen_kallen_x0z = kallenR x 0 z) /\
  (wdR ρ gen_kallen_000 /\ denR ρ gen_kallen_000 = kallenR 0 0 0) /\
  (wdR ρ gen_kallen_sq_equal /\ denR ρ gen_kallen_sq_equal = kallenR x (y^2) (y^2)) /\
  (wdR ρ gen_kallen_sq_first /\ denR ρ gen_kallen_sq_first = kallenR (x^2) (x^2) (z^2)) /\
  (wdR ρ gen_kallen_num_44 /\ denR ρ gen_kallen_num_44 = kallenR x 4 4) /\
  (wdR ρ gen_kallen_num_q /\ denR ρ gen_kallen_num_q = kallenR x (1/4) (1/4)) /\
  (wdR ρ gen_kallen_num_11 /\ denR ρ gen_kallen_num_11 = kallenR 1 1 z).
Proof. exact kallen_equal_arguments. Qed.

(* The builders create their mass symbols themselves, so equal symbols can only be introduced by
   substitution into the returned (unevaluated) expression.  For each of the 18 distinct arccosines
   and each identification m_2:=m_1 | m_3:=m_1 | m_3:=m_2 | m_2,m_3:=m_1 (72 regenerated trees
   `raw.xreplace(..).doit()`): the tree is well defined and has the same value as the generic tree
   at equal masses, for ALL real masses at which the latter is defined.  Together with the
   geometric theorems (which allow equal masses) this is "substitute, then doit" = the geometry. *)
Theorem C19_equal_mass_substitution_all :
  length eqmass_variants = 72%nat /\
  Forall (fun e : nat * expr * expr =>
    forall m0 m1 m2 m3 m12 m13 m23,
    wdR (env_tag (fst (fst e)) m0 m1 m2 m3 m12 m13 m23) (snd (fst e)) ->
    wdR (envD m0 m1 m2 m3 m12 m13 m23) (snd e) /\
    denR (envD m0 m1 m2 m3 m12 m13 m23) (snd e)
    = denR (env_tag (fst (fst e)) m0 m1 m2 m3 m12 m13 m23) (snd (fst e))) eqmass_variants.
Proof. exact (conj variants_count variants_ok). Qed.

(* composed instance: theta_12 with m_2 := m_1 substituted before doit() is the helicity angle *)
Theorem C19_theta12_equal_masses_substituted :
  forall E1 x1 y1 z1 E2 x2 y2 z2 E3 x3 y3 z3 m0 m1 m2' m3 m12 m13 m23,
  is_event E1 x1 y1 z1 E2 x2 y2 z2 E3 x3 y3 z3 m0 m1 m1 m3 m12 m13 m23 ->
  interior x2 y2 z2 x3 y3 z3 ->
  wdR (envD m0 m1 m2' m3 m12 m13 m23) gen_scat_1_2_eq0 /\
  denR (envD m0 m1 m2' m3 m12 m13 m23) gen_scat_1_2_eq0
  = acos (- cosf (vadd (V4 E1 x1 y1 z1) (V4 E2 x2 y2 z2)) (V4 E1 x1 y1 z1) (V4 E3 x3 y3 z3)).
Proof. exact theta12_equal_masses. Qed.

(* ---------- builder side: what HelicityAmplitudeBuilder.formulate() substitutes for the mass
   symbols of the DPD angles.  Over the regenerated lattice (2 corpus reactions x {all transitions,
   each single-subsystem thinning} x reference subsystems 1,2,3 x option sets default / scalar_m0 /
   stable ids / both): every mass kinematic variable m_S is InvariantMass(ArraySum(..)) over EXACTLY
   the momenta named in S (m_0: p1,p2,p3), and every mass parameter default (only m_i, m_0, m_123
   may be parameters) is the mass of the particle it names. ---------- *)
Theorem C19_dpd_model_mass_definitions :
  (Nat.ltb 0 (length dpd_mass_defs) = true /\ forallb mass_def_ok dpd_mass_defs = true) /\
  (forall id digits t, In (id, digits, t) dpd_mass_defs -> t = invariant_mass_of (named_ids digits)).
Proof. exact (conj dpd_mass_defs_ok dpd_mass_defs_spec). Qed.

Theorem C19_dpd_model_mass_parameters :
  Nat.ltb 0 (length dpd_mass_params) = true /\ forallb mass_param_ok dpd_mass_params = true.
Proof. exact dpd_mass_params_ok. Qed.

(* ---------- the hypotheses are satisfiable: a concrete interior event (one massless particle) *)
Example C19_event_exists :
  is_event (3/2) (-1) (-1) 0  1 1 0 0  (5/4) 0 1 0
           (15/4) (1/2) 0 (3/4) (sqrt (21/4)) (sqrt (105/16)) (sqrt (49/16))
  /\ interior 1 0 0 0 1 0.
Proof. exact example_event. Qed.

Print Assumptions C19_scattering_error_branches.
Print Assumptions C19_theta_hat_error_branches.
Print Assumptions C19_zeta_ref0_eq_refi_diag_zero_all_tuples.
Print Assumptions C19_theta_hat_diag_zero.
Print Assumptions C19_theta_hat_antisym.
Print Assumptions C19_zeta_antisym.
Print Assumptions C19_kallen_definition.
Print Assumptions C19_cosf_is_rest_frame_cosine.
Print Assumptions C19_cosf_lorentz_invariant.
Print Assumptions C19_cos3_in_range.
Print Assumptions C19_theta_hat_geometric.
Print Assumptions C19_scattering_geometric.
Print Assumptions C19_scattering_sum_pi.
Print Assumptions C19_zeta_geometric.
Print Assumptions C19_zeta_sum_rule.
Print Assumptions C19_zeta_massless_zero.
Print Assumptions C19_acos_args_in_range_scattering.
Print Assumptions C19_acos_args_in_range_theta_hat.
Print Assumptions C19_acos_args_in_range_zeta.
Print Assumptions C19_kallen_equal_arguments.
Print Assumptions C19_equal_mass_substitution_all.
Print Assumptions C19_theta12_equal_masses_substituted.
Print Assumptions C19_dpd_model_mass_definitions.
Print Assumptions C19_dpd_model_mass_parameters.
Print Assumptions C19_event_exists.
