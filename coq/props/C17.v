(* C17 — HelicityModel.rename_symbols is a consistent renaming of the whole model.

   The statements are about AV.Rename.rename (coq/theories/Rename.v), a hand-written copy of
   the method, tied to /repo's current source by the correspondence run of runners/C17.py on
   every check.  Symbols are strings "name|assumptions" (identity = name + assumptions).
   Section variables of the model: [unfold] (PoolSum unfolding of the intensity), [nrank]
   (natural-sort rank of a name), [arank] (natural-sort rank of an amplitude key).

   sg := sigma_of unfold m r  is the method's symbol_mapping as a total function: a collected
   symbol whose name is in the map gets the new name and keeps its assumptions; every other
   symbol is fixed.  [xr sg []] is Basic.xreplace with that mapping (PoolSum indices bound).
   [wf_model] = what the attrs converters of HelicityModel establish (unique keys; amplitudes,
   kinematic variables, components in natural sort order).

   Clauses of the property and where they are:
     every attribute = original with the map applied ........ rename_is_xreplace,
        rename_kinematic_variables_complete, rename_expression_is_xreplace
     assumptions preserved .................................. rename_preserves_assumptions, rename_new_name
     unrelated symbols untouched ............................ rename_untouched, rename_untouched_value
     original unchanged ..................................... by construction here (functional model);
        on the implementation: digest before/after in bridge/corr_C17.py and search_C17.py
     carried-over values give the original intensity ........ rename_semantics
     two parameters -> one name couples them, nothing else .. rename_merge_couples
     C01 closure survives ................................... rename_preserves_closure (forced hypothesis:
        no parameter is identified with a kinematic variable) ; refuted without it:
        rename_merges_kinvar_with_parameter_refuted ; two kinematic variables identified:
        rename_merges_two_kinvars_refuted
     empty / unknown names .................................. rename_empty, rename_unknown_noop
     repeated renames ....................................... rename_compose (full model equality
        rename (rename m r1) r2 = rename m (compose r1 r2) under the side conditions the faithful
        model forces), rename_compose_symbol_full (per symbol, unconditional up to wf_map),
        rename_compose_uncollected_refuted / rename_compose_double_merge_refuted (the equality is
        FALSE without the collected-set condition resp. without injectivity on parameters),
        rename_compose_partial, rename_compose_symbol (older, weaker forms)
   rename_semantics / rename_merge_couples are for PoolSum-free expressions ([nb]);
   rename_semantics_poolsum / rename_merge_couples_poolsum extend them to expressions with PoolSum
   nodes under [binder_safe] (no bound index is renamed, no symbol is renamed onto a bound index),
   with [denB] summing over the pools; [denB] agrees with [den] on PoolSum-free trees
   (poolsum_semantics_extends).  rename_preserves_closure is still for PoolSum-free expressions. *)
From Coq Require Import Permutation.
From AV Require Import Ast Rename.
From AVchk Require Import C17_lemmas C17_lemmas2.
Open Scope string_scope.
Open Scope list_scope.

Theorem rename_is_xreplace :
  forall unfold nrank arank m r, r <> [] -> wf_model nrank arank m ->
  let sg := sigma_of unfold m r in
  intensity (rename unfold nrank arank m r) = xr sg [] (intensity m)
  /\ amplitudes (rename unfold nrank arank m r) = map_vals (xr sg []) (amplitudes m)
  /\ components (rename unfold nrank arank m r) = map_vals (xr sg []) (components m)
  /\ parameter_defaults (rename unfold nrank arank m r)
     = dict_of expr_eqb (map (fun kv => (kmap sg (fst kv), snd kv)) (parameter_defaults m))
  /\ kinematic_variables (rename unfold nrank arank m r)
     = order_symbol_mapping nrank
         (dict_of String.eqb
            (map (fun kv => (sg (fst kv), xr sg [] (snd kv))) (kinematic_variables m))).
Proof. exact rename_attrs. Qed.

(* no two kinematic variables identified => every definition survives, re-keyed and xreplaced *)
Theorem rename_kinematic_variables_complete :
  forall unfold nrank arank m r, r <> [] ->
  let sg := sigma_of unfold m r in
  NoDup (map (fun kv => sg (fst kv)) (kinematic_variables m)) ->
  Permutation (kinematic_variables (rename unfold nrank arank m r))
              (map (fun kv => (sg (fst kv), xr sg [] (snd kv))) (kinematic_variables m)).
Proof. exact rename_kinvars_perm. Qed.

(* intensity mentions only private symbols (amplitude labels, summation indices): the
   expression of the renamed model is the xreplaced expression *)
Theorem rename_expression_is_xreplace :
  forall unfold nrank arank m r, r <> [] -> wf_model nrank arank m ->
  let sg := sigma_of unfold m r in
  (forall s, In s (syms (intensity m)) -> sg s = s) ->
  (forall s, In s (syms (unfold (intensity m))) -> sg s = s) ->
  nb (unfold (intensity m)) = true ->
  expression unfold (rename unfold nrank arank m r) = xr sg [] (expression unfold m).
Proof. exact rename_expression. Qed.

Theorem rename_preserves_assumptions :
  forall r col s, wf_map r -> assum_of (sigma r col s) = assum_of s.
Proof. exact sigma_assum. Qed.

Theorem rename_new_name :
  forall r s n, wf_map r -> rget r (name_of s) = Some n -> name_of (ren r s) = n.
Proof. exact ren_name. Qed.

Theorem rename_untouched :
  forall r col s, rget r (name_of s) = None -> sigma r col s = s.
Proof. exact sigma_untouched. Qed.

Theorem rename_untouched_value :
  forall unfold m r e b,
  (forall s, In s (syms e) -> rget r (name_of s) = None) -> xr (sigma_of unfold m r) b e = e.
Proof. exact rename_untouched_value. Qed.

Theorem rename_empty : forall unfold nrank arank m, rename unfold nrank arank m [] = m.
Proof. exact rename_empty. Qed.

Theorem rename_unknown_noop :
  forall unfold nrank arank m r, wf_model nrank arank m ->
  (forall s, In s (collect unfold m) -> rget r (name_of s) = None) ->
  rename unfold nrank arank m r = m.
Proof. exact rename_unknown_noop. Qed.

Theorem rename_semantics :
  forall unfold nrank arank m r,
  r <> [] -> wf_model nrank arank m ->
  let sg := sigma_of unfold m r in
  (forall s, In s (syms (intensity m)) -> sg s = s) ->
  (forall s, In s (syms (unfold (intensity m))) -> sg s = s) ->
  nb (unfold (intensity m)) = true ->
  nb (expression unfold m) = true ->
  forall (V : Type) (qval : Q -> V) (interp : head -> list V -> V) (rho : string -> V),
    den V qval interp rho (expression unfold (rename unfold nrank arank m r))
    = den V qval interp (fun s => rho (sg s)) (expression unfold m).
Proof. exact rename_semantics_l. Qed.

(* a map that sends a and b to c and fixes the rest: the renamed tree at rho is the original
   at rho[a := rho c, b := rho c] *)
Theorem rename_merge_couples :
  forall (V : Type) (qval : Q -> V) (interp : head -> list V -> V) sg rho e a b c,
  nb e = true -> sg a = c -> sg b = c -> (forall s, s <> a -> s <> b -> sg s = s) ->
  den V qval interp rho (xr sg [] e)
  = den V qval interp
      (fun s => if String.eqb s a then rho c else if String.eqb s b then rho c else rho s) e.
Proof. exact den_merge. Qed.

Theorem rename_preserves_closure :
  forall unfold nrank arank m r, r <> [] ->
  let sg := sigma_of unfold m r in
  expression unfold (rename unfold nrank arank m r) = xr sg [] (expression unfold m) ->
  nb (expression unfold m) = true ->
  (forall p k, is_par m p = true -> is_kin m k = true -> p <> k -> sg p <> sg k) ->
  closed unfold m = true -> closed unfold (rename unfold nrank arank m r) = true.
Proof. exact rename_preserves_closure. Qed.

(* KNOWN FINDING (a): identifying a kinematic variable with a parameter is accepted and
   yields a symbol that is both *)
Theorem rename_merges_kinvar_with_parameter_refuted :
  exists m r, wf_model z1 z2 m /\ closed toy_unfold m = true
              /\ closed toy_unfold (rename toy_unfold z1 z2 m r) = false.
Proof. exact merge_kin_par_refuted. Qed.

(* KNOWN FINDING (b): identifying two kinematic variables drops one definition *)
Theorem rename_merges_two_kinvars_refuted :
  exists m r, wf_model z1 z2 m
    /\ (length (kinematic_variables (rename toy_unfold z1 z2 m r))
        < length (kinematic_variables m))%nat
    /\ ~ Permutation (kinematic_variables (rename toy_unfold z1 z2 m r))
           (map (fun kv => (sigma_of toy_unfold m r (fst kv),
                            xr (sigma_of toy_unfold m r) [] (snd kv)))
                (kinematic_variables m)).
Proof. exact merge_kin_kin_refuted. Qed.

Theorem rename_compose_partial :
  forall unfold nrank arank m r1 r2,
  r1 <> [] -> r2 <> [] -> wf_model nrank arank m -> wf_model nrank arank (rename unfold nrank arank m r1) ->
  (forall kv, In kv (components m) -> nb (snd kv) = true) ->
  components (rename unfold nrank arank (rename unfold nrank arank m r1) r2)
  = map_vals (xr (fun s => sigma_of unfold (rename unfold nrank arank m r1) r2 (sigma_of unfold m r1 s)) [])
             (components m).
Proof. exact rename_compose_components. Qed.

Theorem rename_compose_symbol :
  forall r1 r2 s n1, wf_map r1 -> rget r1 (name_of s) = Some n1 ->
  ren r2 (ren r1 s) = match rget r2 n1 with
                      | Some n2 => mk_sym n2 (assum_of s)
                      | None => mk_sym n1 (assum_of s)
                      end.
Proof. exact ren_compose. Qed.

(* non-vacuity: a concrete model satisfying every hypothesis used above, and its rename *)
Example toy_is_wellformed : wf_model z1 z2 toy.
Proof. exact toy_wf. Qed.

Example toy_is_closed : closed toy_unfold toy = true /\ in_domain toy_unfold toy = true.
Proof. exact toy_closed. Qed.

Example toy_satisfies_hypotheses :
  wf_map toy_r
  /\ (forall s, In s (syms (intensity toy)) -> sigma_of toy_unfold toy toy_r s = s)
  /\ (forall s, In s (syms (toy_unfold (intensity toy))) -> sigma_of toy_unfold toy toy_r s = s)
  /\ nb (toy_unfold (intensity toy)) = true
  /\ nb (expression toy_unfold toy) = true
  /\ (forall p k, is_par toy p = true -> is_kin toy k = true -> p <> k ->
        sigma_of toy_unfold toy toy_r p <> sigma_of toy_unfold toy toy_r k).
Proof. exact toy_hyps. Qed.

Example toy_rename_computes :
  rename toy_unfold z1 z2 toy toy_r =
  Model (intensity toy)
        [(A0, App HMul [Sym "h"; Sym "g|3"; App HCos [Sym "kk|3"]; Sym "j|3"])]
        [(Sym "h", "(1+0j)"); (Sym "g|3", "0.98")]
        [("j|3", App (HOther "Phi") [Sym "q"]); ("kk|3", App (HOther "Theta") [Sym "p"])]
        [("c", App HMul [Sym "h"; Sym "g|3"])].
Proof. exact toy_result. Qed.


(* ---------------------------------------------------------------- semantics with PoolSum nodes *)
(* denB rho (PoolSum body (i1, vals1) ... ) = sum over v1 in vals1, ... of denB rho[i1:=v1,...] body,
   the values being evaluated in the outer environment; every other node is compositional. *)
Theorem rename_semantics_poolsum :
  forall unfold nrank arank m r,
  r <> [] -> wf_model nrank arank m ->
  let sg := sigma_of unfold m r in
  (forall s, In s (syms (intensity m)) -> sg s = s) ->
  (forall s, In s (syms (unfold (intensity m))) -> sg s = s) ->
  nb (unfold (intensity m)) = true ->
  binder_safe sg (expression unfold m) ->
  forall (V : Type) (qval : Q -> V) (interp : head -> list V -> V) (vzero : V) (vadd : V -> V -> V)
         (rho : string -> V),
    denB V qval interp vzero vadd rho (expression unfold (rename unfold nrank arank m r))
    = denB V qval interp vzero vadd (fun s => rho (sg s)) (expression unfold m).
Proof. exact rename_semantics_poolsum_l. Qed.

Theorem xreplace_semantics_poolsum :
  forall (V : Type) (qval : Q -> V) (interp : head -> list V -> V) (vzero : V) (vadd : V -> V -> V)
         sg rho e,
  binder_safe sg e ->
  denB V qval interp vzero vadd rho (xr sg [] e)
  = denB V qval interp vzero vadd (fun s => rho (sg s)) e.
Proof. exact denB_xr. Qed.

Theorem rename_merge_couples_poolsum :
  forall (V : Type) (qval : Q -> V) (interp : head -> list V -> V) (vzero : V) (vadd : V -> V -> V)
         sg rho e a b c,
  binder_safe sg e -> sg a = c -> sg b = c -> (forall s, s <> a -> s <> b -> sg s = s) ->
  denB V qval interp vzero vadd rho (xr sg [] e)
  = denB V qval interp vzero vadd
      (fun s => if String.eqb s a then rho c else if String.eqb s b then rho c else rho s) e.
Proof. exact denB_merge. Qed.

Theorem poolsum_semantics_extends :
  forall (V : Type) (qval : Q -> V) (interp : head -> list V -> V) (vzero : V) (vadd : V -> V -> V) rho e,
  nb e = true -> denB V qval interp vzero vadd rho e = den V qval interp rho e.
Proof. exact denB_nb. Qed.

Example poolsum_toy_is_binder_safe : binder_safe ps_sg ps_toy.
Proof. exact ps_toy_safe. Qed.

(* sum_{i in {1,2}} x*i at x = 5, before and after renaming x -> y *)
Example poolsum_toy_value :
  denB Z (fun q => Qnum q) zinterp 0%Z Z.add (fun s => if String.eqb s "y" then 5%Z else 0%Z)
       (xr ps_sg [] ps_toy) = 15%Z
  /\ denB Z (fun q => Qnum q) zinterp 0%Z Z.add (fun s => if String.eqb s "x" then 5%Z else 0%Z) ps_toy = 15%Z.
Proof. exact ps_toy_value. Qed.

(* ---------------------------------------------------------------- composition of two renames *)
(* compose r1 r2 : n |-> r2*(r1*(n)) for n in dom r1 ++ dom r2 (r* = r extended by the identity) *)
Theorem rename_compose_symbol_full :
  forall r1 r2 s, wf_map r1 -> ren r2 (ren r1 s) = ren (compose r1 r2) s.
Proof. exact ren_comp. Qed.

Theorem rename_compose :
  forall unfold nrank arank m r1 r2,
  r1 <> [] -> r2 <> [] -> wf_map r1 ->
  wf_model nrank arank m -> wf_model nrank arank (rename unfold nrank arank m r1) ->
  let s1 := sigma_of unfold m r1 in
  let s2 := sigma_of unfold (rename unfold nrank arank m r1) r2 in
  let sc := sigma_of unfold m (compose r1 r2) in
  (* collected-set conditions: a symbol of the model is collected after r1 iff it was before *)
  (forall s, In s (occ m) -> mem s (collect unfold m) = false ->
     mem s (collect unfold (rename unfold nrank arank m r1)) = false) ->
  (forall s, In s (occ m) -> mem s (collect unfold m) = true ->
     mem (ren r1 s) (collect unfold (rename unfold nrank arank m r1)) = true) ->
  (* the intensity mentions only private symbols *)
  (forall s, In s (syms (intensity m)) -> s1 s = s /\ s2 s = s) ->
  (* the second map renames no bound summation index *)
  (forall e i, In e (values m) -> In i (all_binders e) -> s2 i = i) ->
  (* injectivity: r1 merges no parameters and no kinematic variables, the composite merges no
     kinematic variables, and the final kinematic-variable names have distinct sort ranks *)
  NoDup (map (fun kv => kmap s1 (fst kv)) (parameter_defaults m)) ->
  NoDup (map (fun kv => s1 (fst kv)) (kinematic_variables m)) ->
  NoDup (map (fun kv => sc (fst kv)) (kinematic_variables m)) ->
  (forall a b, In a (kinematic_variables m) -> In b (kinematic_variables m) ->
     nrank (name_of (sc (fst a))) = nrank (name_of (sc (fst b))) -> sc (fst a) = sc (fst b)) ->
  rename unfold nrank arank (rename unfold nrank arank m r1) r2
  = rename unfold nrank arank m (compose r1 r2).
Proof. exact rename_compose_l. Qed.

Theorem rename_compose_uncollected_refuted :
  exists m r1 r2, wf_model z1 z2 m /\ wf_map r1 /\ r1 <> [] /\ r2 <> []
    /\ rename toy_unfold z1 z2 (rename toy_unfold z1 z2 m r1) r2
       <> rename toy_unfold z1 z2 m (compose r1 r2).
Proof. exact compose_uncollected_refuted. Qed.

Theorem rename_compose_double_merge_refuted :
  exists m r1 r2, wf_model z1 z2 m /\ wf_map r1 /\ r1 <> [] /\ r2 <> []
    /\ (forall s, In s (occ m) -> mem s (collect toy_unfold m) = true \/ In s (syms (intensity m)))
    /\ rename toy_unfold z1 z2 (rename toy_unfold z1 z2 m r1) r2
       <> rename toy_unfold z1 z2 m (compose r1 r2).
Proof. exact compose_double_merge_refuted. Qed.

Example compose_toy_wellformed :
  wf_model frank z2 toy /\ wf_model frank z2 (rename toy_unfold frank z2 toy c_r1).
Proof. exact (conj toy_wf_frank toy1_wf_frank). Qed.

Example compose_toy_hypotheses :
  let m := toy in
  let s1 := sigma_of toy_unfold m c_r1 in
  let s2 := sigma_of toy_unfold (rename toy_unfold frank z2 m c_r1) c_r2 in
  let sc := sigma_of toy_unfold m (compose c_r1 c_r2) in
  wf_map c_r1
  /\ (forall s, In s (occ m) -> mem s (collect toy_unfold m) = false ->
        mem s (collect toy_unfold (rename toy_unfold frank z2 m c_r1)) = false)
  /\ (forall s, In s (occ m) -> mem s (collect toy_unfold m) = true ->
        mem (ren c_r1 s) (collect toy_unfold (rename toy_unfold frank z2 m c_r1)) = true)
  /\ (forall s, In s (syms (intensity m)) -> s1 s = s /\ s2 s = s)
  /\ (forall e i, In e (values m) -> In i (all_binders e) -> s2 i = i)
  /\ NoDup (map (fun kv => kmap s1 (fst kv)) (parameter_defaults m))
  /\ NoDup (map (fun kv => s1 (fst kv)) (kinematic_variables m))
  /\ NoDup (map (fun kv => sc (fst kv)) (kinematic_variables m))
  /\ (forall a b, In a (kinematic_variables m) -> In b (kinematic_variables m) ->
        frank (name_of (sc (fst a))) = frank (name_of (sc (fst b))) -> sc (fst a) = sc (fst b)).
Proof. exact toy_compose_hyps. Qed.

Example compose_toy_value :
  rename toy_unfold frank z2 (rename toy_unfold frank z2 toy c_r1) c_r2
  = Model (intensity toy)
          [(A0, App HMul [Sym "g2"; Sym "m|3"; App HCos [Sym "k|3"]; Sym "i|3"])]
          [(Sym "g2", "(1+0j)"); (Sym "m|3", "0.98")]
          [("i|3", App (HOther "Phi") [Sym "q"]); ("k|3", App (HOther "Theta") [Sym "p"])]
          [("c", App HMul [Sym "g2"; Sym "m|3"])].
Proof. exact toy_compose_value. Qed.

Print Assumptions rename_is_xreplace.
Print Assumptions rename_kinematic_variables_complete.
Print Assumptions rename_expression_is_xreplace.
Print Assumptions rename_preserves_assumptions.
Print Assumptions rename_new_name.
Print Assumptions rename_untouched.
Print Assumptions rename_untouched_value.
Print Assumptions rename_empty.
Print Assumptions rename_unknown_noop.
Print Assumptions rename_semantics.
Print Assumptions rename_merge_couples.
Print Assumptions rename_preserves_closure.
Print Assumptions rename_merges_kinvar_with_parameter_refuted.
Print Assumptions rename_merges_two_kinvars_refuted.
Print Assumptions rename_compose_partial.
Print Assumptions rename_compose_symbol.
Print Assumptions toy_is_wellformed.
Print Assumptions toy_is_closed.
Print Assumptions toy_satisfies_hypotheses.
Print Assumptions toy_rename_computes.
Print Assumptions rename_semantics_poolsum.
Print Assumptions xreplace_semantics_poolsum.
Print Assumptions rename_merge_couples_poolsum.
Print Assumptions poolsum_semantics_extends.
Print Assumptions poolsum_toy_is_binder_safe.
Print Assumptions poolsum_toy_value.
Print Assumptions rename_compose_symbol_full.
Print Assumptions rename_compose.
Print Assumptions rename_compose_uncollected_refuted.
Print Assumptions rename_compose_double_merge_refuted.
Print Assumptions compose_toy_wellformed.
Print Assumptions compose_toy_hypotheses.
Print Assumptions compose_toy_value.
