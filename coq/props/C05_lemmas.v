(** C05 — lemmas.  The models live in AV.Spin (create_spin_range), AV.Align (aligned amplitude
    structure); the mathematics in AV.Rep; [Gen_C05] is regenerated from /repo on every run. *)
From Coq Require Import Reals ZArith List Bool String Lia Lra Permutation.
From Coquelicot Require Import Complex.
From AV Require Import Spin Spin_proofs Rep Align Align_proofs.
From AVchk Require Import Gen_C05.
Import ListNotations.

(** * 1. spin ranges *)
Definition spin_range_spec_stmt : Prop := forall s2 : nat,
  spin_range s2 false = Some (full_range s2)
  /\ List.length (full_range s2) = S s2
  /\ (forall k, (k <= s2)%nat -> nth k (full_range s2) 0%Z = (- Z.of_nat s2 + 2 * Z.of_nat k)%Z)
  /\ (forall k, (S k <= s2)%nat -> nth (S k) (full_range s2) 0%Z = (nth k (full_range s2) 0%Z + 2)%Z)
  /\ map Z.opp (full_range s2) = rev (full_range s2)
  /\ (forall x, In x (full_range s2) <->
        (- Z.of_nat s2 <= x <= Z.of_nat s2)%Z /\ Z.even (x + Z.of_nat s2) = true).

Lemma spin_range_spec_proof : spin_range_spec_stmt.
Proof.
  intros s2. split; [apply spin_range_false_spec|]. split; [apply full_range_length|].
  split; [apply full_range_nth|]. split; [apply full_range_step|].
  split; [apply full_range_sym|]. apply full_range_In.
Qed.

Definition spin_range_no_zero_stmt : Prop := forall s2 : nat,
  (Nat.odd s2 = true -> spin_range s2 true = Some (full_range s2))
  /\ (Nat.even s2 = true -> (0 < s2)%nat ->
        spin_range s2 true = Some (filter (fun y => negb (y =? 0)%Z) (full_range s2)))
  /\ (s2 = 0%nat -> spin_range s2 true = Some [0%Z])
  /\ (exists l, spin_range s2 true = Some l).

Lemma spin_range_no_zero_proof : spin_range_no_zero_stmt.
Proof.
  intros s2. split; [apply spin_range_nozero_odd|]. split; [apply spin_range_nozero_even|].
  split; [intros ->; reflexivity|]. apply spin_range_total.
Qed.

(** T2: the table produced by the CURRENT create_spin_range agrees with the model *)
Definition table_row_ok (row : (Z * Z * bool) * option (list Z)) : bool :=
  let '((u, n, nz), r) := row in
  match spin_range_u u n nz, r with
  | Some a, Some b => list_eqb a b
  | None, None => true
  | _, _ => false
  end.
Definition table_has (u n : Z) (nz : bool) : bool :=
  existsb (fun row => let '((u', n', nz'), _) := row in (u =? u')%Z && (n =? n')%Z && Bool.eqb nz nz')
          impl_table.
Definition table_covers_box : bool :=
  forallb (fun n => table_has 2 (Z.of_nat n) false && table_has 2 (Z.of_nat n) true) (seq 0 21).

Lemma table_agrees_proof : forallb table_row_ok impl_table = true /\ table_covers_box = true.
Proof. split; vm_compute; reflexivity. Qed.

(** * 2. completeness of the pools the code takes from create_spin_range *)
Lemma list_eqb_refl l : list_eqb l l = true.
Proof. induction l; simpl; auto. now rewrite Z.eqb_refl. Qed.

Lemma spin_range_complete s2 ml :
  ml = false \/ Nat.odd s2 = true \/ s2 = 0%nat -> spin_range s2 ml = Some (full_range s2).
Proof.
  intros [ -> | [ H | -> ] ].
  - apply spin_range_false_spec.
  - destruct ml; [now apply spin_range_nozero_odd|apply spin_range_false_spec].
  - destruct ml; reflexivity.
Qed.

Lemma axisangle_pools_complete_proof (c : pchain) :
  pc_from_range c = true -> chain_matches_spin_model c = true ->
  pc_massless c = false \/ Nat.odd (pc_s2 c) = true \/ pc_s2 c = 0%nat ->
  list_eqb (pc_outer c) (full_range (pc_s2 c)) = true ->
  link_ok (pc_s2 c) (pc_link c) = true ->
  forallb (fun ql => link_ok (pc_s2 c) (snd ql)) (pc_more c) = true ->
  chain_ok c = true.
Proof.
  intros Hfr Hm Hcase Hout Hl Hls. unfold chain_matches_spin_model in Hm.
  rewrite Hfr in Hm. simpl in Hm. rewrite (spin_range_complete _ _ Hcase) in Hm. simpl in Hm.
  apply andb_prop in Hm. destruct Hm as (Hf & Hmore).
  unfold chain_ok. rewrite Hout, Hf, Hl. simpl.
  rewrite forallb_forall in *. intros ql Hin. now rewrite (Hmore _ Hin), (Hls _ Hin).
Qed.

(** * 3. the regenerated corpus *)
Definition corpus_explained : bool :=
  forallb (fun nd => desc_ok (snd nd) || outer_incomplete (snd nd)) descs.
Definition corpus_model : bool := forallb (fun nd => desc_matches_spin_model (snd nd)) descs.
Definition corpus_massless : bool :=
  forallb (fun nd => negb (massless_integer (snd nd)) || negb (desc_ok (snd nd))) descs.
Definition corpus_n_ok : nat := List.length (filter (fun nd => desc_ok (snd nd)) descs).
Definition corpus_n_massless : nat := List.length (filter (fun nd => massless_integer (snd nd)) descs).

Lemma corpus_checks : corpus_explained = true /\ corpus_model = true /\ corpus_massless = true.
Proof. repeat split; vm_compute; reflexivity. Qed.

Lemma corpus_counts : (40 <=? corpus_n_ok)%nat = true /\ (4 <=? corpus_n_massless)%nat = true.
Proof. split; vm_compute; reflexivity. Qed.

Lemma corpus_preserves_proof (D : nat -> Z -> Z -> nat -> C) :
  D_unitary_m D -> D_unitary_mp D ->
  forall name d, In (name, d) descs -> outer_incomplete d = false ->
  forall A, intensity_aligned D d A = intensity_unaligned d A.
Proof.
  intros H1 H2 name d Hin Hinc A. apply alignment_sound; auto.
  destruct corpus_checks as (He & _). unfold corpus_explained in He.
  rewrite forallb_forall in He. specialize (He _ Hin). simpl in He.
  rewrite Hinc in He. now rewrite orb_false_r in He.
Qed.

Lemma corpus_massless_proof : forall name d, In (name, d) descs ->
  (desc_matches_spin_model d = true)
  /\ (massless_integer d = true -> desc_ok d = false /\ outer_incomplete d = true).
Proof.
  intros name d Hin. destruct corpus_checks as (He & Hm & Hz).
  unfold corpus_explained, corpus_model, corpus_massless in *.
  rewrite forallb_forall in He, Hm, Hz.
  specialize (He _ Hin). specialize (Hm _ Hin). specialize (Hz _ Hin). simpl in *.
  split; auto. intros Hml. rewrite Hml in Hz. simpl in Hz.
  destruct (desc_ok d); [discriminate|]. simpl in He. auto.
Qed.

(** * 4. the completeness hypothesis cannot be dropped: a matrix that is unitary on the complete
    spin-1 range does not preserve the intensity when the sums run over {-1, +1} only *)
Open Scope R_scope.
Open Scope C_scope.
Definition shiftU (a x : Z) : C :=
  delta (if (a =? -2)%Z then 0%Z else if (a =? 0)%Z then 2%Z else (-2)%Z) x.

Lemma thinned_pool_refuted_proof :
  exists U : Z -> Z -> C, unit_on U (full_range 2) (full_range 2) /\
  exists A : Z -> C,
    sumL [(-2)%Z; 2%Z] (fun x => cnorm2 (sumL [(-2)%Z; 2%Z] (fun a => A a * U a x)))
    <> sumL [(-2)%Z; 2%Z] (fun a => cnorm2 (A a)).
Proof.
  exists shiftU. split.
  - intros a b Ha Hb. simpl in Ha, Hb.
    destruct Ha as [<-|[<-|[<-|[]]]]; destruct Hb as [<-|[<-|[<-|[]]]];
      unfold shiftU, delta, full_range; simpl; rewrite ?Cconj_1, ?Cconj_0; ring.
  - exists (fun _ => 1). unfold shiftU, delta, cnorm2. simpl.
    rewrite ?Cconj_plus, ?Cconj_mult, ?Cconj_1, ?Cconj_0.
    intros H. apply (f_equal fst) in H. simpl in H. lra.
Qed.

(** * 5. non-vacuity: the unitarity hypotheses are satisfiable (identity rotation) *)
Definition Did (j2 : nat) (m mp : Z) (ang : nat) : C := delta m mp.

Lemma delta_sym a b : delta a b = delta b a.
Proof. unfold delta. rewrite Z.eqb_sym. reflexivity. Qed.
Lemma Cconj_delta a b : Cconj (delta a b) = delta a b.
Proof. unfold delta. destruct (a =? b)%Z; [apply Cconj_1|apply Cconj_0]. Qed.

Lemma Did_unitary : D_unitary_m Did /\ D_unitary_mp Did.
Proof.
  split; intros j2 ang a b Ha Hb; unfold Did.
  - transitivity (sumL (full_range j2) (fun m => delta a m * delta m b)).
    + apply sumL_ext. intros m. now rewrite Cconj_delta, (delta_sym m a).
    + rewrite sumL_delta; auto. apply full_range_NoDup.
  - transitivity (sumL (full_range j2) (fun m => delta a m * delta b m)).
    + apply sumL_ext. intros m. now rewrite Cconj_delta.
    + rewrite sumL_delta; auto; [apply delta_sym|apply full_range_NoDup].
Qed.
