(* C07 — proofs about the hand-written model coq/theories/Kin.v (structural part).
   The analytic part (InvariantMass, Phi, Theta trees regenerated from /repo) is in
   C07_analytic.v. *)
From AV Require Import Kin.
From Coq Require Import ZArith List Bool Lia Permutation.
Import ListNotations.
Open Scope Z_scope.

(* ------------------------------------------------------------------ decidable equalities *)
Lemma lZ_eqb_eq a : forall b, lZ_eqb a b = true <-> a = b.
Proof.
  induction a as [|x a IH]; intros [|y b]; cbn; split; intros H; try discriminate; auto.
  - apply andb_true_iff in H as [H1 H2]. apply Z.eqb_eq in H1. apply IH in H2. now subst.
  - injection H as -> ->. rewrite Z.eqb_refl. cbn. now apply IH.
Qed.

Lemma llZ_eqb_eq a : forall b, llZ_eqb a b = true <-> a = b.
Proof.
  induction a as [|x a IH]; intros [|y b]; cbn; split; intros H; try discriminate; auto.
  - apply andb_true_iff in H as [H1 H2]. apply lZ_eqb_eq in H1. apply IH in H2. now subst.
  - injection H as -> ->. apply andb_true_iff. split; [now apply lZ_eqb_eq | now apply IH].
Qed.

Lemma vname_eqb_eq a b : vname_eqb a b = true <-> a = b.
Proof.
  destruct a as [x|k s p], b as [y|k' s' p']; cbn; split; intros H; try discriminate.
  - apply lZ_eqb_eq in H. now subst.
  - injection H as ->. now apply lZ_eqb_eq.
  - apply andb_true_iff in H as [H H3]. apply andb_true_iff in H as [H1 H2].
    apply lZ_eqb_eq in H2. apply llZ_eqb_eq in H3. subst.
    destruct k, k'; cbn in H1; try discriminate; reflexivity.
  - injection H as -> -> ->. repeat (apply andb_true_iff; split).
    + destruct k'; reflexivity.
    + now apply lZ_eqb_eq.
    + now apply llZ_eqb_eq.
Qed.

Lemma vname_eqb_refl a : vname_eqb a a = true.
Proof. now apply vname_eqb_eq. Qed.

(* ------------------------------------------------------------------ dictionaries *)
Definition keys (d : dict) : list vname := map fst d.

Lemma get_In n v d : get n d = Some v -> In (n, v) d.
Proof.
  induction d as [|[k x] d IH]; cbn; [discriminate|].
  destruct (vname_eqb n k) eqn:E.
  - intros [= ->]. apply vname_eqb_eq in E. subst. now left.
  - intros H. right. auto.
Qed.

Lemma get_key n d : In n (keys d) -> exists v, get n d = Some v.
Proof.
  induction d as [|[k x] d IH]; cbn; [tauto|].
  intros [->|H].
  - rewrite vname_eqb_refl. eauto.
  - destruct (vname_eqb n k); eauto.
Qed.

Lemma In_keys n v (d : dict) : In (n, v) d -> In n (keys d).
Proof. intros H. apply (in_map fst) in H. exact H. Qed.

Lemma In_upd n v k x d : In (n, v) (upd k x d) -> (n, v) = (k, x) \/ In (n, v) d.
Proof.
  induction d as [|[k' x'] d IH]; cbn.
  - intros [H|[]]. now left.
  - destruct (vname_eqb k k') eqn:E.
    + apply vname_eqb_eq in E. subst k'. intros [H|H]; [now left | right; now right].
    + intros [H|H]; [right; now left|]. destruct (IH H); [now left | right; now right].
Qed.

Lemma key_upd_new k x d : In k (keys (upd k x d)).
Proof.
  induction d as [|[k' x'] d IH]; cbn; [now left|].
  destruct (vname_eqb k k') eqn:E; cbn.
  - apply vname_eqb_eq in E. now left.
  - now right.
Qed.

Lemma key_upd_old n k x d : In n (keys d) -> In n (keys (upd k x d)).
Proof.
  induction d as [|[k' x'] d IH]; cbn; [tauto|].
  destruct (vname_eqb k k'); cbn; intros [H|H]; auto.
Qed.

Lemma In_update n v l : forall d, In (n, v) (update d l) -> In (n, v) l \/ In (n, v) d.
Proof.
  unfold update. induction l as [|[k x] l IH]; cbn; intros d H; [now right|].
  apply IH in H as [H|H]; [left; now right|].
  apply In_upd in H as [H|H]; [left; now left | now right].
Qed.

Lemma key_update_l n l : forall d, In n (keys d) -> In n (keys (update d l)).
Proof.
  unfold update. induction l as [|[k x] l IH]; cbn; intros d H; [exact H|].
  apply IH. now apply key_upd_old.
Qed.

Lemma key_update_r n l : forall d, In n (keys l) -> In n (keys (update d l)).
Proof.
  unfold update. induction l as [|[k x] l IH]; cbn; intros d H; [tauto|].
  destruct H as [->|H]; [|now apply IH].
  apply (key_update_l n l). apply key_upd_new.
Qed.

(* folding update over a list of dictionaries *)
Lemma In_fold_update n v ds : forall d0,
  In (n, v) (fold_left update ds d0) -> In (n, v) d0 \/ exists d, In d ds /\ In (n, v) d.
Proof.
  induction ds as [|d ds IH]; cbn; intros d0 H; [now left|].
  apply IH in H as [H|(d' & H1 & H2)].
  - apply In_update in H as [H|H]; [right; exists d; split; [now left|exact H] | now left].
  - right. exists d'. split; [now right | exact H2].
Qed.

Lemma key_fold_update n ds : forall d0,
  (In n (keys d0) \/ exists d, In d ds /\ In n (keys d)) -> In n (keys (fold_left update ds d0)).
Proof.
  induction ds as [|d ds IH]; cbn; intros d0 H.
  - destruct H as [H|(d & [] & _)]. exact H.
  - apply IH. destruct H as [H|(d' & [->|H1] & H2)].
    + left. now apply key_update_l.
    + left. now apply key_update_r.
    + right. exists d'. now split.
Qed.

Definition consistent (ds : list dict) : Prop :=
  forall d1 d2, In d1 ds -> In d2 ds ->
  forall n v1 v2, In (n, v1) d1 -> In (n, v2) d2 -> v1 = v2.

Lemma fold_update_perm_lemma ds ds' :
  consistent ds -> Permutation ds ds' ->
  forall n, get n (fold_left update ds []) = get n (fold_left update ds' []).
Proof.
  intros Hc Hp n.
  destruct (get n (fold_left update ds [])) as [v|] eqn:E1;
  destruct (get n (fold_left update ds' [])) as [v'|] eqn:E2; auto.
  - apply get_In, In_fold_update in E1 as [[]|(d & Hd & Hv)].
    apply get_In, In_fold_update in E2 as [[]|(d' & Hd' & Hv')].
    f_equal. assert (Hd'' : In d' ds) by (eapply Permutation_in; [symmetry; exact Hp | exact Hd']).
    exact (Hc d d' Hd Hd'' n v v' Hv Hv').
  - exfalso. apply get_In, In_fold_update in E1 as [[]|(d & Hd & Hv)].
    assert (K : In n (keys (fold_left update ds' []))).
    { apply key_fold_update. right. exists d. split.
      - eapply Permutation_in; eauto.
      - eapply In_keys; eauto. }
    apply get_key in K as [w K]. congruence.
  - exfalso. apply get_In, In_fold_update in E2 as [[]|(d & Hd & Hv)].
    assert (K : In n (keys (fold_left update ds []))).
    { apply key_fold_update. right. exists d. split.
      - eapply Permutation_in; [symmetry; exact Hp | exact Hd].
      - eapply In_keys; eauto. }
    apply get_key in K as [w K]. congruence.
Qed.

(* ------------------------------------------------------------------ sorting *)
Fixpoint ssorted (l : list Z) : Prop :=
  match l with [] => True | x :: l' => Forall (Z.le x) l' /\ ssorted l' end.

Lemma Forall_insert (P : Z -> Prop) x l : P x -> Forall P l -> Forall P (insert x l).
Proof.
  intros Hx. induction l as [|y l IH]; cbn; intros H.
  - constructor; auto.
  - inversion H; subst. destruct (x <=? y); constructor; auto.
Qed.

Lemma insert_sorted x l : ssorted l -> ssorted (insert x l).
Proof.
  induction l as [|y l IH]; cbn; [intros _; split; [constructor|exact I]|].
  intros [H1 H2]. destruct (x <=? y) eqn:E.
  - apply Z.leb_le in E. cbn. split; [|split; assumption].
    constructor; [exact E|]. eapply Forall_impl; [|exact H1]. cbn. intros; lia.
  - apply Z.leb_gt in E. cbn. split; [|now apply IH].
    apply Forall_insert; [lia | exact H1].
Qed.

Lemma sort_sorted l : ssorted (sort l).
Proof. induction l; cbn; [exact I | now apply insert_sorted]. Qed.

Lemma insert_le_all x m : Forall (Z.le x) m -> insert x m = x :: m.
Proof.
  destruct m as [|y m]; cbn; [reflexivity|]. intros H. inversion H; subst.
  destruct (x <=? y) eqn:E; [reflexivity|]. apply Z.leb_gt in E. lia.
Qed.

Lemma sort_idem l : ssorted l -> sort l = l.
Proof.
  induction l as [|x l IH]; cbn; [reflexivity|]. intros [H1 H2].
  rewrite IH by assumption. now apply insert_le_all.
Qed.

Lemma length_insert x l : length (insert x l) = S (length l).
Proof. induction l as [|y l IH]; cbn; [reflexivity|]. destruct (x <=? y); cbn; auto. Qed.

Lemma length_sort l : length (sort l) = length l.
Proof. induction l; cbn; [reflexivity|]. now rewrite length_insert, IHl. Qed.

Lemma Forall_filter (P : Z -> Prop) f l : Forall P l -> Forall P (filter f l).
Proof.
  induction l as [|y l IH]; cbn; intros H; [constructor|].
  inversion H; subst. destruct (f y); auto.
Qed.

Lemma filter_insert_sorted f x l : ssorted l ->
  filter f (insert x l) = if f x then insert x (filter f l) else filter f l.
Proof.
  induction l as [|y l IH]; cbn; intros Hs.
  - destruct (f x); reflexivity.
  - destruct Hs as [H1 H2]. destruct (x <=? y) eqn:E.
    + apply Z.leb_le in E. cbn. destruct (f x) eqn:Fx; [|reflexivity].
      symmetry. apply insert_le_all.
      assert (Forall (Z.le x) (y :: l)).
      { constructor; [exact E|]. eapply Forall_impl; [|exact H1]. cbn; intros; lia. }
      apply (Forall_filter _ f) in H. exact H.
    + cbn. rewrite IH by assumption. destruct (f y) eqn:Fy, (f x) eqn:Fx; cbn; try reflexivity.
      now rewrite E.
Qed.

Lemma filter_sort f l : filter f (sort l) = sort (filter f l).
Proof.
  induction l as [|x l IH]; cbn; [reflexivity|].
  rewrite filter_insert_sorted by apply sort_sorted. rewrite IH.
  destruct (f x); reflexivity.
Qed.

Lemma insert_perm x l : Permutation (insert x l) (x :: l).
Proof.
  induction l as [|y l IH]; cbn; [reflexivity|].
  destruct (x <=? y); [reflexivity|]. rewrite IH. apply perm_swap.
Qed.

Lemma sort_perm l : Permutation (sort l) l.
Proof. induction l; cbn; [reflexivity|]. rewrite insert_perm. now constructor. Qed.

Lemma sorted_perm_eq l : forall l', ssorted l -> ssorted l' -> Permutation l l' -> l = l'.
Proof.
  induction l as [|x l IH]; intros l' Hs Hs' Hp.
  - apply Permutation_nil in Hp. now subst.
  - destruct l' as [|y l']; [apply Permutation_sym, Permutation_nil in Hp; discriminate|].
    destruct Hs as [H1 H2], Hs' as [H1' H2'].
    assert (x = y).
    { assert (In x (y :: l')) by (eapply Permutation_in; [exact Hp | now left]).
      assert (In y (x :: l)) by (eapply Permutation_in; [symmetry; exact Hp | now left]).
      rewrite Forall_forall in H1, H1'.
      destruct H as [->|H]; [reflexivity|]. destruct H0 as [->|H0]; [reflexivity|].
      specialize (H1 _ H0). specialize (H1' _ H). lia. }
    subst y. f_equal. apply IH; auto. eapply Permutation_cons_inv; exact Hp.
Qed.

Lemma sort_perm_eq l l' : Permutation l l' -> sort l = sort l'.
Proof.
  intros H. apply sorted_perm_eq; try apply sort_sorted.
  rewrite (sort_perm l), (sort_perm l'). exact H.
Qed.

(* ------------------------------------------------------------------ tuples *)
Lemma lex_asym a : forall b, lex_ltb a b = true -> lex_ltb b a = false.
Proof.
  induction a as [|x a IH]; intros [|y b]; cbn; try discriminate; auto.
  destruct (x <? y) eqn:E1, (y <? x) eqn:E2; try discriminate; auto.
  apply Z.ltb_lt in E1, E2. lia.
Qed.

Lemma lex_total a : forall b, lex_ltb a b = false -> lex_ltb b a = false -> a = b.
Proof.
  induction a as [|x a IH]; intros [|y b]; cbn; try discriminate; auto.
  destruct (x <? y) eqn:E1, (y <? x) eqn:E2; try discriminate.
  intros H1 H2. apply Z.ltb_ge in E1, E2. assert (x = y) by lia. subst. f_equal. auto.
Qed.

(* ------------------------------------------------------------------ trees *)
Lemma att_eq t : att t = sort (leaves t).
Proof. destruct t; reflexivity. Qed.

Lemma att_sorted t : ssorted (att t).
Proof. rewrite att_eq. apply sort_sorted. Qed.

Lemma leaves_len t : (1 <= length (leaves t))%nat.
Proof. induction t; cbn; [lia|]. rewrite app_length. lia. Qed.

Lemma att_node_len i a b : (1 <? Z.of_nat (length (att (Node i a b)))) = true.
Proof.
  apply Z.ltb_lt. rewrite att_eq, length_sort. cbn. rewrite app_length.
  pose proof (leaves_len a). pose proof (leaves_len b). lia.
Qed.

Inductive subtree : tree -> tree -> Prop :=
| st_refl t : subtree t t
| st_l s i a b : subtree s a -> subtree s (Node i a b)
| st_r s i a b : subtree s b -> subtree s (Node i a b).

(* ------------------------------------------------------------------ masses *)
Lemma mass_entries_sound t n v :
  In (n, v) (inv_mass_entries t) ->
  exists s, subtree s t /\ n = NMass (sort (leaves s)) /\ v = AMass (sort (leaves s)).
Proof.
  induction t as [i|i a IHa b IHb]; cbn.
  - intros [H|[]]. injection H as <- <-. exists (Leaf i). repeat split. constructor.
  - intros [H|H].
    + injection H as <- <-. exists (Node i a b). split; [constructor|].
      rewrite sort_idem by apply sort_sorted. now split.
    + apply in_app_or in H as [H|H].
      * destruct (IHa H) as (s & Hs & E). exists s. split; [now apply st_l | exact E].
      * destruct (IHb H) as (s & Hs & E). exists s. split; [now apply st_r | exact E].
Qed.

Lemma mass_entries_complete t s :
  subtree s t -> In (NMass (sort (leaves s)), AMass (sort (leaves s))) (inv_mass_entries t).
Proof.
  induction 1 as [t|s i a b H IH|s i a b H IH].
  - destruct t; cbn; left; [reflexivity|]. now rewrite sort_idem by apply sort_sorted.
  - cbn. right. apply in_or_app. now left.
  - cbn. right. apply in_or_app. now right.
Qed.

Lemma mass_decode all t n v : In (n, v) (inv_mass_entries t) -> v = decode all n.
Proof. intros H. apply mass_entries_sound in H as (s & _ & -> & ->). reflexivity. Qed.

(* ------------------------------------------------------------------ angles: code -> spec *)
Lemma In_reg n v nm anc ids fr d :
  In (n, v) (reg nm anc ids fr d) ->
  In (n, v) d \/ exists k, n = NAng k nm anc /\ v = AAng k ids fr.
Proof.
  unfold reg. intros H. apply In_upd in H as [H|H].
  - injection H as -> ->. right. now exists ATheta.
  - apply In_upd in H as [H|H]; [|now left].
    injection H as -> ->. right. now exists APhi.
Qed.

Lemma keys_reg_new k nm anc ids fr d : In (NAng k nm anc) (keys (reg nm anc ids fr d)).
Proof.
  unfold reg. destruct k.
  - apply key_upd_old, key_upd_new.
  - apply key_upd_new.
Qed.

Lemma keys_reg_old n nm anc ids fr d : In n (keys d) -> In n (keys (reg nm anc ids fr d)).
Proof. intros H. unfold reg. now apply key_upd_old, key_upd_old. Qed.

Lemma In_step fixed anc fr c s rc d n v :
  In (n, v) (step fixed anc fr c s rc d) ->
  In (n, v) d \/
  (is_leaf c = false /\
   (In (n, v) rc \/
    ((fixed && is_opp c s && negb (is_leaf s)) = false /\
     exists k, n = NAng k (att (if is_opp c s then s else c)) anc /\ v = AAng k (att c) fr))).
Proof.
  unfold step. destruct (is_leaf c); [now left|].
  destruct (1 <? Z.of_nat (length (att c))); [|now left].
  intros H. apply In_update in H as [H|H]; [right; split; [reflexivity | now left]|].
  destruct (fixed && is_opp c s && negb (is_leaf s)) eqn:E; [now left|].
  apply In_reg in H as [H|H]; [now left|]. right. split; [reflexivity|]. right. now split.
Qed.

Lemma keys_step_old fixed anc fr c s rc d n :
  In n (keys d) -> In n (keys (step fixed anc fr c s rc d)).
Proof.
  intros H. unfold step. destruct (is_leaf c); [exact H|].
  destruct (1 <? Z.of_nat (length (att c))); [|exact H].
  apply key_update_l. destruct (fixed && is_opp c s && negb (is_leaf s)); [exact H|].
  now apply keys_reg_old.
Qed.

Lemma keys_step_rec fixed anc fr i a b s rc d n :
  In n (keys rc) -> In n (keys (step fixed anc fr (Node i a b) s rc d)).
Proof.
  intros H. unfold step. cbn [is_leaf]. rewrite att_node_len. now apply key_update_r.
Qed.

Lemma keys_step_reg fixed anc fr i a b s rc d k :
  (fixed && is_opp (Node i a b) s && negb (is_leaf s)) = false ->
  In (NAng k (att (if is_opp (Node i a b) s then s else Node i a b)) anc)
     (keys (step fixed anc fr (Node i a b) s rc d)).
Proof.
  intros E. unfold step. cbn [is_leaf]. rewrite att_node_len, E.
  apply key_update_l, keys_reg_new.
Qed.

(* the pair the spec lists for a node *)
Definition spec_own (a b : tree) (anc : list (list Z)) (k : ang) : vname * aterm :=
  (NAng k (att (hel_child a b)) anc,
   AAng k (att (spec_target (hel_child a b) (opp_child a b))) (rev anc)).

Lemma spec_own_in i a b anc k : In (spec_own a b anc k) (angle_spec (Node i a b) anc).
Proof. cbn. destruct k; [now left | right; now left]. Qed.

(* what one loop pass for child c registers is the spec's pair, whenever it registers at all
   and (no sibling decays, or the repaired code is modelled) *)
Lemma step_entry_a fixed a b :
  is_leaf a = false ->
  (fixed && is_opp a b && negb (is_leaf b)) = false ->
  fixed = true \/ is_leaf b = true ->
  att (if is_opp a b then b else a) = att (hel_child a b) /\
  att a = att (spec_target (hel_child a b) (opp_child a b)).
Proof.
  unfold is_opp, hel_child, opp_child. intros La E Hc.
  destruct (lex_ltb (att b) (att a)) eqn:L.
  - split; [reflexivity|]. destruct a; [discriminate|].
    destruct b; [reflexivity|]. exfalso. destruct Hc as [->|Hc]; cbn in *; discriminate.
  - split; [reflexivity|]. destruct a; [discriminate|]. destruct b; reflexivity.
Qed.

Lemma step_entry_b fixed a b :
  is_leaf b = false ->
  (fixed && is_opp b a && negb (is_leaf a)) = false ->
  fixed = true \/ is_leaf a = true ->
  att (if is_opp b a then a else b) = att (hel_child a b) /\
  att b = att (spec_target (hel_child a b) (opp_child a b)).
Proof.
  unfold is_opp, hel_child, opp_child. intros Lb E Hc.
  destruct (lex_ltb (att a) (att b)) eqn:L.
  - rewrite (lex_asym _ _ L). split; [reflexivity|]. destruct b; [discriminate|].
    destruct a; [reflexivity|]. exfalso. destruct Hc as [->|Hc]; cbn in *; discriminate.
  - destruct (lex_ltb (att b) (att a)) eqn:L'.
    + split; [reflexivity|]. destruct b; [discriminate|]. destruct a; reflexivity.
    + pose proof (lex_total _ _ L L') as Eq. split; [now rewrite Eq|].
      destruct b; [discriminate|]. destruct a; [reflexivity|]. cbn [spec_target]. now rewrite Eq.
Qed.

Lemma leafleaf_entry a b :
  let c0 := if eid a <? eid b then a else b in
  let c1 := if eid a <? eid b then b else a in
  att (if is_opp c0 c1 then c1 else c0) = att (hel_child a b).
Proof.
  cbn. unfold is_opp, hel_child. destruct (eid a <? eid b); [reflexivity|].
  destruct (lex_ltb (att a) (att b)) eqn:L.
  - now rewrite (lex_asym _ _ L).
  - destruct (lex_ltb (att b) (att a)) eqn:L'; [reflexivity|]. now rewrite (lex_total _ _ L L').
Qed.

Definition ok_class (fixed : bool) (t : tree) : Prop := fixed = true \/ no_double t = true.

Lemma ok_class_node fixed i a b :
  ok_class fixed (Node i a b) ->
  ok_class fixed a /\ ok_class fixed b /\
  (is_leaf a = false -> fixed = true \/ is_leaf b = true) /\
  (is_leaf b = false -> fixed = true \/ is_leaf a = true).
Proof.
  unfold ok_class. intros [->|H]; [repeat split; auto|].
  cbn in H. apply andb_true_iff in H as [H Hb]. apply andb_true_iff in H as [H Ha].
  repeat split; auto; intros L; right; rewrite L in H; cbn in H;
    destruct (is_leaf a), (is_leaf b); cbn in *; try discriminate; reflexivity.
Qed.

Lemma In_leafleaf anc fr a b n v :
  In (n, v) (leafleaf anc fr a b) ->
  is_leaf a = true /\ is_leaf b = true /\
  exists k, n = NAng k (att (hel_child a b)) anc /\ v = AAng k (att (hel_child a b)) fr.
Proof.
  unfold leafleaf. destruct (is_leaf a && is_leaf b) eqn:LL; [|intros []].
  apply andb_true_iff in LL as [La Lb]. intros H.
  apply In_reg in H as [[]|(k & -> & ->)].
  pose proof (leafleaf_entry a b) as E. cbn in E. rewrite E. repeat split; auto. now exists k.
Qed.

Lemma node_body_sound fixed i a b anc ra rb n v :
  ok_class fixed (Node i a b) ->
  (In (n, v) ra -> In (n, v) (angle_spec a (att a :: anc))) ->
  (In (n, v) rb -> In (n, v) (angle_spec b (att b :: anc))) ->
  In (n, v) (node_body fixed anc (rev anc) a b ra rb) -> In (n, v) (angle_spec (Node i a b) anc).
Proof.
  intros Hok IHa IHb.
  destruct (ok_class_node _ _ _ _ Hok) as (Hoa & Hob & Hca & Hcb).
  assert (Hd0 : In (n, v) (leafleaf anc (rev anc) a b) -> In (n, v) (angle_spec (Node i a b) anc)).
  { intros H. apply In_leafleaf in H as (La & Lb & k & -> & ->).
    replace (AAng k (att (hel_child a b)) (rev anc)) with (snd (spec_own a b anc k)).
    - change (NAng k (att (hel_child a b)) anc) with (fst (spec_own a b anc k)).
      rewrite <- surjective_pairing. apply spec_own_in.
    - cbn. unfold hel_child, opp_child. destruct (lex_ltb (att b) (att a));
        destruct a, b; try discriminate; reflexivity. }
  assert (Hra : In (n, v) ra -> In (n, v) (angle_spec (Node i a b) anc)).
  { intros H. cbn. right; right. apply in_or_app. left. auto. }
  assert (Hrb : In (n, v) rb -> In (n, v) (angle_spec (Node i a b) anc)).
  { intros H. cbn. right; right. apply in_or_app. right. auto. }
  assert (Hsa : forall d, In (n, v) (step fixed anc (rev anc) a b ra d) ->
                          In (n, v) d \/ In (n, v) (angle_spec (Node i a b) anc)).
  { intros d H. apply In_step in H as [H|(La & [H|(E & k & -> & ->)])]; auto.
    right. destruct (step_entry_a fixed a b La E (Hca La)) as [E1 E2]. rewrite E1, E2.
    apply (spec_own_in i a b anc k). }
  assert (Hsb : forall d, In (n, v) (step fixed anc (rev anc) b a rb d) ->
                          In (n, v) d \/ In (n, v) (angle_spec (Node i a b) anc)).
  { intros d H. apply In_step in H as [H|(Lb & [H|(E & k & -> & ->)])]; auto.
    right. destruct (step_entry_b fixed a b Lb E (Hcb Lb)) as [E1 E2]. rewrite E1, E2.
    apply (spec_own_in i a b anc k). }
  unfold node_body. destruct (eid a <? eid b); intros H.
  - apply Hsb in H as [H|H]; auto. apply Hsa in H as [H|H]; auto.
  - apply Hsa in H as [H|H]; auto. apply Hsb in H as [H|H]; auto.
Qed.

Lemma hel_sound fixed t : forall anc n v,
  ok_class fixed t ->
  In (n, v) (hel fixed t anc (rev anc)) -> In (n, v) (angle_spec t anc).
Proof.
  induction t as [i|i a IHa b IHb]; intros anc n v Hok; [cbn; tauto|].
  destruct (ok_class_node _ _ _ _ Hok) as (Hoa & Hob & _).
  cbn [hel]. apply node_body_sound; auto.
Qed.

(* ------------------------------------------------------------------ angles: spec keys are registered *)
Lemma hel_child_cases a b :
  (hel_child a b = a /\ opp_child a b = b /\ is_opp a b = false) \/
  (hel_child a b = b /\ opp_child a b = a /\ is_opp b a = false /\ is_opp a b = true).
Proof.
  unfold hel_child, opp_child, is_opp. destruct (lex_ltb (att b) (att a)) eqn:L.
  - right. repeat split; auto. now apply lex_asym.
  - left. repeat split; auto.
Qed.

Lemma node_body_complete fixed i a b anc fr ra rb n :
  (In n (keys (angle_spec a (att a :: anc))) -> In n (keys ra)) ->
  (In n (keys (angle_spec b (att b :: anc))) -> In n (keys rb)) ->
  In n (keys (angle_spec (Node i a b) anc)) -> In n (keys (node_body fixed anc fr a b ra rb)).
Proof.
  intros IHa IHb.
  set (d0 := leafleaf anc fr a b).
  assert (Goal : In n (keys d0) \/
                 (forall d, In n (keys (step fixed anc fr a b ra d))) \/
                 (forall d, In n (keys (step fixed anc fr b a rb d))) ->
                 In n (keys (node_body fixed anc fr a b ra rb))).
  { unfold node_body. fold d0. intros [H|[H|H]]; destruct (eid a <? eid b);
      try (apply keys_step_old; apply keys_step_old; exact H);
      try (apply keys_step_old; apply H); try apply H. }
  intros Hn. apply Goal. clear Goal.
  assert (Hsub : In n (keys (angle_spec a (att a :: anc))) \/ In n (keys (angle_spec b (att b :: anc))) ->
                 (forall d, In n (keys (step fixed anc fr a b ra d))) \/
                 (forall d, In n (keys (step fixed anc fr b a rb d)))).
  { intros [H|H].
    - left. intros d. destruct a; [destruct H|]. apply keys_step_rec. now apply IHa.
    - right. intros d. destruct b; [destruct H|]. apply keys_step_rec. now apply IHb. }
  assert (Hown : forall k, n = NAng k (att (hel_child a b)) anc ->
                 In n (keys d0) \/
                 (forall d, In n (keys (step fixed anc fr a b ra d))) \/
                 (forall d, In n (keys (step fixed anc fr b a rb d)))).
  { intros k ->.
    destruct (is_leaf a && is_leaf b) eqn:LL.
    - left. unfold d0, leafleaf. rewrite LL.
      pose proof (leafleaf_entry a b) as E. cbn in E. rewrite <- E. apply keys_reg_new.
    - right.
      destruct (hel_child_cases a b) as [(Eh & Eo & Op)|(Eh & Eo & Op & Op')]; rewrite Eh.
      + (* a is the helicity child *)
        destruct a as [ia|ia a1 a2].
        * (* a final: b decays and registers under a's name *)
          destruct b as [ib|ib b1 b2]; [discriminate|]. right. intros d.
          pose proof (keys_step_reg fixed anc fr ib b1 b2 (Leaf ia) rb d k) as K.
          cbn [is_leaf negb] in K. rewrite andb_false_r in K. specialize (K eq_refl).
          destruct (is_opp (Node ib b1 b2) (Leaf ia)) eqn:O; [exact K|].
          unfold is_opp in O, Op. rewrite <- (lex_total _ _ Op O). exact K.
        * left. intros d.
          pose proof (keys_step_reg fixed anc fr ia a1 a2 b ra d k) as K.
          rewrite Op in K. rewrite andb_false_r in K. cbn [andb] in K. apply K. reflexivity.
      + (* b is the helicity child *)
        destruct b as [ib|ib b1 b2].
        * destruct a as [ia|ia a1 a2]; [discriminate|]. left. intros d.
          pose proof (keys_step_reg fixed anc fr ia a1 a2 (Leaf ib) ra d k) as K.
          rewrite Op' in K. cbn [is_leaf negb] in K. rewrite andb_false_r in K. apply K. reflexivity.
        * right. intros d.
          pose proof (keys_step_reg fixed anc fr ib b1 b2 a rb d k) as K.
          rewrite Op in K. rewrite andb_false_r in K. cbn [andb] in K. apply K. reflexivity. }
  cbn in Hn. destruct Hn as [Hn|[Hn|Hn]].
  - apply (Hown APhi). now rewrite <- Hn.
  - apply (Hown ATheta). now rewrite <- Hn.
  - right. apply Hsub. rewrite map_app in Hn. apply in_app_or in Hn. exact Hn.
Qed.

Lemma hel_complete fixed t : forall anc fr n,
  In n (keys (angle_spec t anc)) -> In n (keys (hel fixed t anc fr)).
Proof.
  induction t as [i|i a IHa b IHb]; intros anc fr n; [cbn; tauto|].
  cbn [hel]. apply node_body_complete; auto.
Qed.

(* ------------------------------------------------------------------ what a name says *)
Lemma zmem_single x i : negb (zmem x [i]) = negb (x =? i).
Proof. unfold zmem. cbn. now rewrite orb_false_r. Qed.

Lemma filter_notin i l : ~ In i l -> filter (fun x => negb (zmem x [i])) l = l.
Proof.
  induction l as [|y l IH]; cbn; [reflexivity|]. intros H.
  rewrite orb_false_r. destruct (y =? i) eqn:E.
  - apply Z.eqb_eq in E. subst. exfalso. apply H. now left.
  - cbn. f_equal. apply IH. intros K. apply H. now right.
Qed.

Lemma filter_self i : filter (fun x => negb (zmem x [i])) [i] = [].
Proof. cbn. now rewrite Z.eqb_refl. Qed.

(* the entry the spec lists for a node decodes from its name *)
Lemma len3 a i b1 b2 (l := leaves a ++ leaves (Node i b1 b2)) : (2 <? Z.of_nat (length (sort l))) = true.
Proof.
  apply Z.ltb_lt. unfold l. rewrite length_sort, app_length. cbn [leaves]. rewrite app_length.
  pose proof (leaves_len a). pose proof (leaves_len b1). pose proof (leaves_len b2). lia.
Qed.
Lemma len3' a i b1 b2 (l := leaves (Node i b1 b2) ++ leaves a) : (2 <? Z.of_nat (length (sort l))) = true.
Proof.
  apply Z.ltb_lt. unfold l. rewrite length_sort, app_length. cbn [leaves]. rewrite app_length.
  pose proof (leaves_len a). pose proof (leaves_len b1). pose proof (leaves_len b2). lia.
Qed.
Lemma att_node_ne1 i a b : (Z.of_nat (length (att (Node i a b))) =? 1) = false.
Proof. apply Z.eqb_neq. pose proof (att_node_len i a b) as K. apply Z.ltb_lt in K. lia. Qed.

Lemma spec_own_decode all i a b anc k :
  NoDup (leaves (Node i a b)) ->
  parent_ids all anc = sort (leaves (Node i a b)) ->
  snd (spec_own a b anc k) = decode all (fst (spec_own a b anc k)).
Proof.
  intros Hnd Hp. unfold spec_own. cbn [fst snd decode]. rewrite Hp. f_equal.
  cbn [leaves] in *.
  unfold hel_child, opp_child.
  destruct (lex_ltb (att b) (att a)).
  - (* helicity child b *)
    destruct b as [ib|ib b1 b2].
    + destruct a as [ia|ia a1 a2].
      * rewrite length_sort. reflexivity.
      * change (spec_target (Leaf ib) (Node ia a1 a2)) with (Node ia a1 a2).
        change (att (Leaf ib)) with [ib].
        change (Z.of_nat (length [ib]) =? 1) with true. cbn [andb].
        rewrite (len3' (Leaf ib) ia a1 a2).
        rewrite filter_sort, filter_app.
        change (leaves (Leaf ib)) with [ib] in *.
        rewrite filter_self, app_nil_r, filter_notin; [reflexivity|].
        intros K. rewrite NoDup_Add in Hnd; [|apply Add_app]. rewrite app_nil_r in Hnd. tauto.
    + change (spec_target (Node ib b1 b2) a) with (Node ib b1 b2).
      now rewrite att_node_ne1.
  - (* helicity child a *)
    destruct a as [ia|ia a1 a2].
    + destruct b as [ib|ib b1 b2].
      * rewrite length_sort. reflexivity.
      * change (spec_target (Leaf ia) (Node ib b1 b2)) with (Node ib b1 b2).
        change (att (Leaf ia)) with [ia].
        change (Z.of_nat (length [ia]) =? 1) with true. cbn [andb].
        rewrite (len3 (Leaf ia) ib b1 b2).
        rewrite filter_sort, filter_app.
        change (leaves (Leaf ia)) with [ia] in *.
        rewrite filter_self, filter_notin; [reflexivity|].
        intros K. cbn in Hnd. inversion Hnd; subst. tauto.
    + replace (spec_target (Node ia a1 a2) b) with (Node ia a1 a2) by (destruct b; reflexivity).
      now rewrite att_node_ne1.
Qed.

Lemma NoDup_app_l {A} (l l' : list A) : NoDup (l ++ l') -> NoDup l.
Proof.
  induction l as [|x l IH]; cbn; intros H; [constructor|].
  inversion H; subst. constructor; [|auto]. intros K. apply H2. apply in_or_app. now left.
Qed.

Lemma NoDup_app_r {A} (l l' : list A) : NoDup (l ++ l') -> NoDup l'.
Proof. induction l as [|x l IH]; cbn; intros H; [exact H|]. inversion H; auto. Qed.

Lemma spec_decode all t : forall anc n v,
  NoDup (leaves t) ->
  parent_ids all anc = sort (leaves t) ->
  In (n, v) (angle_spec t anc) -> v = decode all n.
Proof.
  induction t as [i|i a IHa b IHb]; intros anc n v Hnd Hp; [cbn; tauto|].
  cbn [angle_spec]. intros [H|[H|H]].
  - pose proof (spec_own_decode all i a b anc APhi Hnd Hp) as E. unfold spec_own in E. cbn [fst snd] in E.
    injection H as <- <-. exact E.
  - pose proof (spec_own_decode all i a b anc ATheta Hnd Hp) as E. unfold spec_own in E. cbn [fst snd] in E.
    injection H as <- <-. exact E.
  - cbn [leaves] in Hnd. apply in_app_or in H as [H|H].
    + apply (IHa (att a :: anc)); auto; [now apply NoDup_app_l in Hnd | cbn; apply att_eq].
    + apply (IHb (att b :: anc)); auto; [now apply NoDup_app_r in Hnd | cbn; apply att_eq].
Qed.

(* all variables one topology contributes *)
Definition topology_entries (fixed : bool) (t : tree) : dict :=
  update (hel fixed t [] []) (inv_mass_entries t).

Lemma entries_decode fixed t n v :
  NoDup (leaves t) -> ok_class fixed t ->
  In (n, v) (hel fixed t [] []) \/ In (n, v) (inv_mass_entries t) ->
  v = decode (sort (leaves t)) n.
Proof.
  intros Hnd Hok [H|H].
  - apply (hel_sound fixed t [] n v Hok) in H.
    exact (spec_decode (sort (leaves t)) t [] n v Hnd eq_refl H).
  - eapply mass_decode; eauto.
Qed.

Lemma topology_entries_decode fixed t n v :
  NoDup (leaves t) -> ok_class fixed t ->
  get n (topology_entries fixed t) = Some v -> v = decode (sort (leaves t)) n.
Proof.
  intros Hnd Hok H. apply get_In in H. unfold topology_entries in H.
  apply In_update in H. eapply entries_decode; eauto. tauto.
Qed.

(* code = spec, as finite maps *)
Lemma angles_match_spec_lemma fixed t n v :
  NoDup (leaves t) -> ok_class fixed t ->
  (get n (hel fixed t [] []) = Some v <-> In (n, v) (angle_spec t [])).
Proof.
  intros Hnd Hok. split.
  - intros H. apply get_In in H. now apply (hel_sound fixed t [] n v Hok).
  - intros H. assert (K : In n (keys (hel fixed t [] []))).
    { apply hel_complete. eapply In_keys; eauto. }
    apply get_key in K as [w K]. rewrite K. f_equal.
    apply get_In in K. apply (hel_sound fixed t [] n w Hok) in K.
    rewrite (spec_decode (sort (leaves t)) t [] n v Hnd eq_refl H).
    now rewrite (spec_decode (sort (leaves t)) t [] n w Hnd eq_refl K).
Qed.

(* ------------------------------------------------------------------ create_expressions *)
Definition dicts_of (fixed : bool) (ts : list tree) : list dict :=
  flat_map (fun t => [hel fixed t [] []; inv_mass_entries t]) ts.

Lemma create_expressions_fold fixed ts : forall d0,
  fold_left (add_topology fixed) ts d0 = fold_left update (dicts_of fixed ts) d0.
Proof. induction ts as [|t ts IH]; cbn; intros d0; [reflexivity|]. apply IH. Qed.

Definition same_final_state (all : list Z) (t : tree) : Prop :=
  NoDup (leaves t) /\ sort (leaves t) = all.

Lemma dicts_consistent fixed all ts :
  Forall (fun t => same_final_state all t /\ ok_class fixed t) ts -> consistent (dicts_of fixed ts).
Proof.
  intros HF d1 d2 H1 H2 n v1 v2 Hv1 Hv2.
  assert (K : forall d v, In d (dicts_of fixed ts) -> In (n, v) d -> v = decode all n).
  { intros d v Hd Hv. unfold dicts_of in Hd. apply in_flat_map in Hd as (t & Ht & Hd).
    rewrite Forall_forall in HF. destruct (HF t Ht) as ((Hnd & <-) & Hok).
    apply (entries_decode fixed t n v Hnd Hok).
    destruct Hd as [<-|[<-|[]]]; [now left | now right]. }
  rewrite (K d1 v1 H1 Hv1). now rewrite (K d2 v2 H2 Hv2).
Qed.

Lemma create_expressions_perm fixed all ts ts' :
  Forall (fun t => same_final_state all t /\ ok_class fixed t) ts ->
  Permutation ts ts' ->
  forall n, get n (create_expressions_gen fixed ts) = get n (create_expressions_gen fixed ts').
Proof.
  intros HF Hp n. unfold create_expressions_gen. rewrite !create_expressions_fold.
  apply fold_update_perm_lemma.
  - eapply dicts_consistent; eauto.
  - unfold dicts_of. now apply Permutation_flat_map.
Qed.

Lemma create_expressions_decode fixed all ts n v :
  Forall (fun t => same_final_state all t /\ ok_class fixed t) ts ->
  get n (create_expressions_gen fixed ts) = Some v -> v = decode all n.
Proof.
  intros HF H. unfold create_expressions_gen in H. rewrite create_expressions_fold in H.
  apply get_In, In_fold_update in H as [[]|(d & Hd & Hv)].
  unfold dicts_of in Hd. apply in_flat_map in Hd as (t & Ht & Hd).
  rewrite Forall_forall in HF. destruct (HF t Ht) as ((Hnd & <-) & Hok).
  apply (entries_decode fixed t n v Hnd Hok).
  destruct Hd as [<-|[<-|[]]]; [now left | now right].
Qed.

(* ------------------------------------------------------------------ relabelling of final states *)
Lemma leaves_relabel f t : leaves (relabel_tree f t) = map f (leaves t).
Proof. induction t; cbn; [reflexivity|]. now rewrite map_app, IHt1, IHt2. Qed.

Lemma is_leaf_relabel f t : is_leaf (relabel_tree f t) = is_leaf t.
Proof. destruct t; reflexivity. Qed.

Lemma no_double_relabel f t : no_double (relabel_tree f t) = no_double t.
Proof. induction t; cbn; [reflexivity|]. now rewrite !is_leaf_relabel, IHt1, IHt2. Qed.

Lemma relabel_same_final_state f t :
  NoDup (leaves t) -> Permutation (map f (leaves t)) (leaves t) ->
  same_final_state (sort (leaves t)) (relabel_tree f t).
Proof.
  intros Hnd Hp. unfold same_final_state. rewrite leaves_relabel. split.
  - eapply Permutation_NoDup; [symmetry; exact Hp | exact Hnd].
  - now apply sort_perm_eq.
Qed.

(* ------------------------------------------------------------------ the refuting witness *)
Definition wit1 : tree := Node (-1) (Node 4 (Leaf 0) (Leaf 1)) (Node 5 (Leaf 2) (Leaf 3)).
Definition wit2 : tree := Node (-1) (Node 5 (Leaf 0) (Leaf 1)) (Node 4 (Leaf 2) (Leaf 3)).
Definition phi_01 : vname := NAng APhi [0; 1] [].

Lemma NoDup_dec_true (l : list Z) :
  (fix nd (l : list Z) : bool :=
     match l with [] => true | x :: l' => negb (zmem x l') && nd l' end) l = true -> NoDup l.
Proof.
  induction l as [|x l IH]; intros H; [constructor|].
  apply andb_true_iff in H as [H1 H2]. constructor; [|now apply IH].
  intros K. apply negb_true_iff in H1. unfold zmem in H1.
  assert (existsb (Z.eqb x) l = true) by (apply existsb_exists; exists x; split; [exact K | apply Z.eqb_refl]).
  congruence.
Qed.
Ltac nodup := apply NoDup_dec_true; vm_compute; reflexivity.

(* ---- final forms used by C07.v ---- *)
Lemma mass_named_correctly_lemma t :
  (forall n v, In (n, v) (inv_mass_entries t) ->
     exists s, subtree s t /\ ssorted (sort (leaves s)) /\ Permutation (sort (leaves s)) (leaves s) /\
               n = NMass (sort (leaves s)) /\ v = AMass (sort (leaves s))) /\
  (forall s, subtree s t -> In (NMass (sort (leaves s)), AMass (sort (leaves s))) (inv_mass_entries t)).
Proof.
  split.
  - intros n v H. apply mass_entries_sound in H as (s & Hs & -> & ->).
    exists s. repeat split; auto using sort_sorted, sort_perm.
  - apply mass_entries_complete.
Qed.

Lemma angles_match_spec_refuted_lemma :
  exists t n v, NoDup (leaves t) /\ get n (helicity_angle_entries t) = Some v /\
                ~ In (n, v) (angle_spec t []).
Proof.
  exists wit1, phi_01, (AAng APhi [2; 3] []). split; [nodup|]. split; [vm_compute; reflexivity|].
  intros H. apply (spec_decode (sort (leaves wit1)) wit1 [] _ _) in H; [|nodup|reflexivity].
  vm_compute in H. discriminate.
Qed.

Lemma name_determines_value_lemma fixed t1 t2 n v1 v2 :
  NoDup (leaves t1) -> NoDup (leaves t2) -> sort (leaves t1) = sort (leaves t2) ->
  ok_class fixed t1 -> ok_class fixed t2 ->
  get n (topology_entries fixed t1) = Some v1 -> get n (topology_entries fixed t2) = Some v2 ->
  v1 = v2.
Proof.
  intros N1 N2 E O1 O2 H1 H2.
  rewrite (topology_entries_decode fixed t1 n v1 N1 O1 H1).
  rewrite (topology_entries_decode fixed t2 n v2 N2 O2 H2). now rewrite E.
Qed.

Lemma name_determines_value_refuted_lemma :
  exists t1 t2 n v1 v2,
    NoDup (leaves t1) /\ NoDup (leaves t2) /\ leaves t1 = leaves t2 /\
    get n (topology_entries false t1) = Some v1 /\ get n (topology_entries false t2) = Some v2 /\
    v1 <> v2.
Proof.
  exists wit1, wit2, phi_01, (AAng APhi [2; 3] []), (AAng APhi [0; 1] []).
  repeat split; try nodup; try (vm_compute; reflexivity). discriminate.
Qed.

Lemma create_expressions_order_refuted_lemma :
  exists t1 t2 n, NoDup (leaves t1) /\ NoDup (leaves t2) /\ leaves t1 = leaves t2 /\
    get n (create_expressions [t1; t2]) <> get n (create_expressions [t2; t1]).
Proof.
  exists wit1, wit2, phi_01. repeat split; try nodup. vm_compute. discriminate.
Qed.

Lemma permuted_consistent_lemma fixed t (fs : list (Z -> Z)) ts' :
  NoDup (leaves t) -> ok_class fixed t ->
  Forall (fun f => Permutation (map f (leaves t)) (leaves t)) fs ->
  Permutation (t :: map (fun f => relabel_tree f t) fs) ts' ->
  forall n, get n (create_expressions_gen fixed (t :: map (fun f => relabel_tree f t) fs))
          = get n (create_expressions_gen fixed ts').
Proof.
  intros Hnd Hok HF Hp. apply (create_expressions_perm fixed (sort (leaves t))); [|exact Hp].
  constructor.
  - split; [split; [exact Hnd | reflexivity] | exact Hok].
  - rewrite Forall_forall in *. intros t' Ht'. apply in_map_iff in Ht' as (f & <- & Hf). split.
    + apply relabel_same_final_state; auto.
    + destruct Hok as [->|Hok]; [now left | right]. now rewrite no_double_relabel.
Qed.

(* ------------------------------------------------------------------ adapter histories *)
Lemma create_covers_lemma fixed ts t n :
  In t ts ->
  In n (keys (hel fixed t [] [])) \/ In n (keys (inv_mass_entries t)) ->
  In n (keys (create_expressions_gen fixed ts)).
Proof.
  intros Ht Hn. unfold create_expressions_gen. rewrite create_expressions_fold.
  apply key_fold_update. right. destruct Hn as [Hn|Hn].
  - exists (hel fixed t [] []). split; [|exact Hn].
    unfold dicts_of. apply in_flat_map. exists t. split; [exact Ht | now left].
  - exists (inv_mass_entries t). split; [|exact Hn].
    unfold dicts_of. apply in_flat_map. exists t. split; [exact Ht | right; now left].
Qed.

(* create_expressions observes the registered set and nothing else, and leaves it alone *)
Lemma hstep_create_lemma fixed s : hstep fixed s HCreate = (s, model_create_gen fixed s).
Proof. reflexivity. Qed.

Lemma run_history_create_lemma fixed s ops1 ops2 :
  let s1 := fst (run_history fixed s ops1) in
  snd (run_history fixed s (ops1 ++ HCreate :: ops2))
  = snd (run_history fixed s ops1) ++ model_create_gen fixed s1 :: snd (run_history fixed s1 ops2).
Proof.
  revert s. induction ops1 as [|o ops1 IH]; intros s; cbn [app run_history].
  - cbn [hstep fst snd]. destruct (run_history fixed s ops2). reflexivity.
  - destruct (hstep fixed s o) as [sa r]. specialize (IH sa). cbv zeta in IH.
    destruct (run_history fixed sa (ops1 ++ HCreate :: ops2)) as [sb rs] eqn:E1.
    destruct (run_history fixed sa ops1) as [sc rs1] eqn:E2. cbn [fst snd] in *.
    now rewrite IH.
Qed.

Lemma register_guard_lemma s e t :
  register_ok (e :: s) t = true ->
  tree_of_topo t <> None /\
  zset_eqb (incoming_ids t) (incoming_ids e) = true /\
  zset_eqb (outgoing_ids t) (outgoing_ids e) = true.
Proof.
  unfold register_ok. destruct (tree_of_topo t); [|discriminate].
  intros H. apply andb_true_iff in H. split; [discriminate | exact H].
Qed.

Lemma register_rejected_lemma fixed s t :
  register_ok s t = false -> fst (hstep fixed s (HRegister t)) = s.
Proof. intros H. cbn [hstep]. now rewrite H. Qed.
