(* C02 — lemmas: everything is proved once and for all in coq/theories/Helicity_proofs.v; this file
   adds a concrete non-trivial instance (non-vacuity) evaluated by computation. *)
From AV Require Import Helicity Helicity_proofs.
Open Scope string_scope.

(* J/psi(+1) -> gamma(+1) f0, f0 -> pi0 pi0 in the canonical basis, with a lineshape on the f0 *)
Definition ex_n0 : hnode :=
  {| nJ := 2; nM := 2; na_s := 0; na_l := 0; nb_s := 2; nb_l := -2; nphi := "phi_0"; ntheta := "theta_0";
     nLS := Some (0%Z, 2%Z); nH := None; ndyn := None |}.
Definition ex_n1 : hnode :=
  {| nJ := 0; nM := 0; na_s := 0; na_l := 0; nb_s := 0; nb_l := 0; nphi := "phi_1^12"; ntheta := "theta_1^12";
     nLS := Some (0%Z, 0%Z); nH := None; ndyn := Some (Sym "BW_f0") |}.
Definition ex_chain : hchain := {| cC := Some "C_f0"; cpref := Some (-1 # 1); cnodes := [ex_n0; ex_n1] |}.
Definition ex_model : list hgroup := [[[ex_chain; ex_chain]]; [[ex_chain]]].

Lemma ex_shape :
  match intensity_expr ex_model with
  | App HAdd [App HPow [App HAbs [App HAdd [App HAdd [App HMul (Num _ :: Sym "C_f0" :: _); _]]]; Num _]; _] => True
  | _ => False
  end.
Proof. vm_compute. exact I. Qed.
