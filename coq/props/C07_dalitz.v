(* C07 clause 3 — in three-body decays the polar helicity angle equals the closed-form
   Dalitz-variable expression the library itself provides.  (Separate from C07.v so that a failure
   here cannot mask the other obligations; proofs in C07_dalitz_lemmas.v.)

   Both sides are trees regenerated from /repo on every run:
     hel_theta_<a>_<ab>_{cse,nocse}  theta_<a>^<ab> of compute_helicity_angles for the topology (ab)c
                                     (Theta of p_a after BoostZ(beta).Ry(-Theta P).Rz(-Phi P), P = p_a+p_b),
                                     through the generated NumPy code, env [envMom] = momentum components;
     gen_scat_<a>_<b>                formulate_scattering_angle(a, b), env [envD] = masses m_0..m_23.
   [dalitz_ok th sc sel], for every event in the rest frame of the parent ([is_event]: E_i > 0,
   p_1+p_2+p_3 = 0, m_i^2 = p_i^2 >= 0, m_jk^2 = (p_j+p_k)^2), interior (momenta not collinear) and
   with the subsystem (ab) not exactly along z  (0 < (x_a+x_b)^2 + (y_a+y_b)^2):
     both trees are well defined (no 0/0, no sqrt of a negative, acos argument in [-1,1]),
     they have the SAME value,
     that value is acos (- cosf (p_a+p_b) p_a p_c), cosf = the Lorentz-invariant Gram cosine that
     C19 proved to be the rest-frame Euclidean cosine (C19_cosf_is_rest_frame_cosine), and
     cos(theta) = - cosf, within [-1, 1].
   All three isobar pairs x cse on/off.  Not covered: the subsystem exactly along z (the code's
   known finding angle_nan_subsystem_along_z: 0/0 there), collinear momenta (boundary). *)
From Coq Require Import Reals Lra.
From AV Require Import DenR Dpd.
From AVchk Require Import Gen_C07_dalitz Gen_C19 C19_lemmas C07_dalitz_lemmas.
Open Scope R_scope.

Theorem C07_theta_is_dalitz_12 : forall th, th = hel_theta_1_12_cse \/ th = hel_theta_1_12_nocse ->
  dalitz_ok th gen_scat_1_2 (fun p1 p2 p3 => (p1, p2, p3)).
Proof. intros th [->| ->]; [exact dalitz_12_cse | exact dalitz_12_nocse]. Qed.

Theorem C07_theta_is_dalitz_23 : forall th, th = hel_theta_2_23_cse \/ th = hel_theta_2_23_nocse ->
  dalitz_ok th gen_scat_2_3 (fun p1 p2 p3 => (p2, p3, p1)).
Proof. intros th [->| ->]; [exact dalitz_23_cse | exact dalitz_23_nocse]. Qed.

Theorem C07_theta_is_dalitz_13 : forall th, th = hel_theta_1_13_cse \/ th = hel_theta_1_13_nocse ->
  dalitz_ok th gen_scat_1_3 (fun p1 p2 p3 => (p1, p3, p2)).
Proof. intros th [->| ->]; [exact dalitz_13_cse | exact dalitz_13_nocse]. Qed.

(* the (12) case spelled out *)
Theorem C07_theta_is_dalitz_12_explicit :
  forall E1 x1 y1 z1 E2 x2 y2 z2 E3 x3 y3 z3 m0 m1 m2 m3 m12 m13 m23 : R,
  let p1 := V4 E1 x1 y1 z1 in let p2 := V4 E2 x2 y2 z2 in let p3 := V4 E3 x3 y3 z3 in
  0 < E1 -> 0 < E2 -> 0 < E3 ->
  x1 + x2 + x3 = 0 -> y1 + y2 + y3 = 0 -> z1 + z2 + z3 = 0 ->
  m0 = E1 + E2 + E3 ->
  m1^2 = mdot p1 p1 -> m2^2 = mdot p2 p2 -> m3^2 = mdot p3 p3 ->
  m12^2 = mdot (vadd p1 p2) (vadd p1 p2) -> m13^2 = mdot (vadd p1 p3) (vadd p1 p3) ->
  m23^2 = mdot (vadd p2 p3) (vadd p2 p3) ->
  0 < cross2 (V4 0 x2 y2 z2) (V4 0 x3 y3 z3) ->            (* not collinear *)
  0 < (x1 + x2)^2 + (y1 + y2)^2 ->                           (* (12) not along z *)
  wdR (envMom E1 x1 y1 z1 E2 x2 y2 z2 E3 x3 y3 z3) hel_theta_1_12_cse /\
  wdR (envD m0 m1 m2 m3 m12 m13 m23) gen_scat_1_2 /\
  denR (envMom E1 x1 y1 z1 E2 x2 y2 z2 E3 x3 y3 z3) hel_theta_1_12_cse
  = denR (envD m0 m1 m2 m3 m12 m13 m23) gen_scat_1_2 /\
  cos (denR (envMom E1 x1 y1 z1 E2 x2 y2 z2 E3 x3 y3 z3) hel_theta_1_12_cse)
  = - cosf (vadd p1 p2) p1 p3.
Proof.
  intros E1 x1 y1 z1 E2 x2 y2 z2 E3 x3 y3 z3 m0 m1 m2 m3 m12 m13 m23 p1 p2 p3
         H1 H2 H3 H4 H5 H6 H7 H8 H9 H10 H11 H12 H13 Hint Hz. subst p1 p2 p3.
  assert (Hev : is_event E1 x1 y1 z1 E2 x2 y2 z2 E3 x3 y3 z3 m0 m1 m2 m3 m12 m13 m23)
    by (unfold is_event; cbv zeta; repeat split; assumption).
  destruct (dalitz_12_cse _ _ _ _ _ _ _ _ _ _ _ _ _ _ _ _ _ _ _ Hev Hint Hz) as (W1 & W2 & D1 & _ & D3 & _).
  cbv zeta in W1, W2, D1, D3. cbn [fst snd] in W1, W2, D1, D3.
  split; [exact W1|]. split; [exact W2|]. split; [exact D1|exact D3].
Qed.

(* non-vacuity: an event satisfying every hypothesis *)
Example C07_dalitz_hypotheses_satisfiable :
  is_event 2 1 0 0  2 0 1 0  3 (-1) (-1) 0  7 (sqrt 3) (sqrt 3) (sqrt 7) (sqrt 14) (sqrt 24) (sqrt 24) /\
  interior 0 1 0 (-1) (-1) 0 /\ 0 < (1 + 0)^2 + (0 + 1)^2.
Proof.
  split; [|split].
  - unfold is_event. cbv zeta. v4_unfold. rewrite !pow2_sqrt by lra. repeat split; lra.
  - unfold interior. v4_unfold. lra.
  - lra.
Qed.

Print Assumptions C07_theta_is_dalitz_12.
Print Assumptions C07_theta_is_dalitz_23.
Print Assumptions C07_theta_is_dalitz_13.
Print Assumptions C07_theta_is_dalitz_12_explicit.
