(* C20 — property theorems.  Only statements, each closed by [exact] of a lemma from
   C20_lemmas.v (which is about the trees regenerated from /repo in this run). *)
From AV Require Import DenR PhspMath.
From AVchk Require Import Gen_C20 C20_lemmas.
Open Scope R_scope.

(* Källén: value, total symmetry, factorisation *)
Theorem C20_kallen_defined : forall x y z, wdR (envK x y z) gen_kallen.
Proof. exact kallen_wd. Qed.
Theorem C20_kallen_symmetric_xy : forall x y z,
  denR (envK x y z) gen_kallen = denR (envK y x z) gen_kallen.
Proof. exact kallen_sym_xy. Qed.
Theorem C20_kallen_symmetric_yz : forall x y z,
  denR (envK x y z) gen_kallen = denR (envK x z y) gen_kallen.
Proof. exact kallen_sym_yz. Qed.
Theorem C20_kallen_symmetric_cyc : forall x y z,
  denR (envK x y z) gen_kallen = denR (envK y z x) gen_kallen.
Proof. exact kallen_sym_cyc. Qed.
Theorem C20_kallen_factor : forall x y z, 0 <= y -> 0 <= z ->
  denR (envK x y z) gen_kallen = (x - (sqrt y + sqrt z)^2) * (x - (sqrt y - sqrt z)^2).
Proof. exact kallen_factor. Qed.

(* third Mandelstam variable of an event, any frame *)
(* the same functions with literal zeros inserted BEFORE doit() (massless particles, sigma = 0 in any slot):
   no value-inspecting shortcut changes the function *)
Theorem C20_kallen_vanishing_arguments : forall x y z,
  denR (envK x y z) gen_kallen_x0 = kallenR 0 y z /\
  denR (envK x y z) gen_kallen_y0 = kallenR x 0 z /\
  denR (envK x y z) gen_kallen_z0 = kallenR x y 0 /\
  denR (envK x y z) gen_kallen_xy0 = kallenR 0 0 z /\
  denR (envK x y z) gen_kallen_float0 = kallenR 0 y z.
Proof. exact kallen_zero_args. Qed.
Theorem C20_kibble_massless_particles : forall s1 s2 s3 m0 m1 m2 m3 o,
  denR (envM s1 s2 s3 m0 m1 m2 m3 o) gen_kibble_m1_0 =
    kallenR (kallenR s2 (m2^2) (m0^2)) (kallenR s3 (m3^2) (m0^2)) (kallenR s1 0 (m0^2)) /\
  denR (envM s1 s2 s3 m0 m1 m2 m3 o) gen_kibble_m2_0 =
    kallenR (kallenR s2 0 (m0^2)) (kallenR s3 (m3^2) (m0^2)) (kallenR s1 (m1^2) (m0^2)) /\
  denR (envM s1 s2 s3 m0 m1 m2 m3 o) gen_kibble_m3_0 =
    kallenR (kallenR s2 (m2^2) (m0^2)) (kallenR s3 0 (m0^2)) (kallenR s1 (m1^2) (m0^2)) /\
  denR (envM s1 s2 s3 m0 m1 m2 m3 o) gen_kibble_s1_0 =
    kallenR (kallenR s2 0 (m0^2)) (kallenR s3 0 (m0^2)) (kallenR 0 (m1^2) (m0^2)).
Proof. exact kibble_massless. Qed.

(* Kallen / Kibble constructed through keywords in shuffled order denote the same functions (bound by name) *)
Theorem C20_keyword_construction : forall s1 s2 s3 m0 m1 m2 m3 o x y z,
  denR (envK x y z) gen_kallen_kw = kallenR x y z /\
  denR (envM s1 s2 s3 m0 m1 m2 m3 o) gen_kibble_kw_masses_first = denR (envM s1 s2 s3 m0 m1 m2 m3 o) gen_kibble /\
  denR (envM s1 s2 s3 m0 m1 m2 m3 o) gen_kibble_kw_mixed = denR (envM s1 s2 s3 m0 m1 m2 m3 o) gen_kibble /\
  denR (envM s1 s2 s3 m0 m1 m2 m3 o) gen_kibble_kw_reversed = denR (envM s1 s2 s3 m0 m1 m2 m3 o) gen_kibble.
Proof. exact keyword_construction. Qed.

Theorem C20_third_mandelstam_event :
  forall E1 x1 y1 z1 E2 x2 y2 z2 E3 x3 y3 z3 m0 m1 m2 m3 s3 o,
  m1^2 = mink E1 x1 y1 z1 -> m2^2 = mink E2 x2 y2 z2 -> m3^2 = mink E3 x3 y3 z3 ->
  m0^2 = mink (E1+E2+E3) (x1+x2+x3) (y1+y2+y3) (z1+z2+z3) ->
  denR (envM (mink (E2+E3) (x2+x3) (y2+y3) (z2+z3))
             (mink (E1+E3) (x1+x3) (y1+y3) (z1+z3)) s3 m0 m1 m2 m3 o) gen_third
  = mink (E1+E2) (x1+x2) (y1+y2) (z1+z2).
Proof. exact third_mandelstam_event. Qed.

(* Kibble <= 0 and indicator = 1 on every physical event (parent at rest) *)
Theorem C20_kibble_event_nonpos :
  forall E1 x1 y1 z1 E2 x2 y2 z2 E3 x3 y3 z3 m0 m1 m2 m3 o,
  x1 + x2 + x3 = 0 -> y1 + y2 + y3 = 0 -> z1 + z2 + z3 = 0 ->
  m1^2 = mink E1 x1 y1 z1 -> m2^2 = mink E2 x2 y2 z2 -> m3^2 = mink E3 x3 y3 z3 ->
  m0 = E1 + E2 + E3 ->
  denR (envM (mink (E2+E3) (x2+x3) (y2+y3) (z2+z3))
             (mink (E1+E3) (x1+x3) (y1+y3) (z1+z3))
             (mink (E1+E2) (x1+x2) (y1+y2) (z1+z2)) m0 m1 m2 m3 o) gen_kibble <= 0.
Proof. exact kibble_event_nonpos. Qed.

Theorem C20_indicator_defined : forall s1 s2 s3 m0 m1 m2 m3 o,
  wdR (envM s1 s2 s3 m0 m1 m2 m3 o) gen_within.
Proof. exact within_wd. Qed.

Theorem C20_indicator_one_on_events :
  forall E1 x1 y1 z1 E2 x2 y2 z2 E3 x3 y3 z3 m0 m1 m2 m3 s3 o,
  x1 + x2 + x3 = 0 -> y1 + y2 + y3 = 0 -> z1 + z2 + z3 = 0 ->
  m1^2 = mink E1 x1 y1 z1 -> m2^2 = mink E2 x2 y2 z2 -> m3^2 = mink E3 x3 y3 z3 ->
  m0 = E1 + E2 + E3 ->
  denR (envM (mink (E2+E3) (x2+x3) (y2+y3) (z2+z3))
             (mink (E1+E3) (x1+x3) (y1+y3) (z1+z3)) s3 m0 m1 m2 m3 o) gen_within = 1.
Proof. exact within_event. Qed.

(* inside the bounding box the indicator is 1 exactly between the PDG Dalitz limits,
   and otherwise the caller's outside value *)
Theorem C20_indicator_iff_dalitz_limits : forall s1 s2 s3 m0 m1 m2 m3 o,
  0 <= m1 -> 0 <= m2 -> 0 <= m3 -> m1 + m2 + m3 < m0 -> 0 < s1 ->
  (m2 + m3)^2 <= s1 <= (m0 - m1)^2 ->
  (s2lo s1 m0 m1 m2 m3 <= s2 <= s2hi s1 m0 m1 m2 m3 ->
     denR (envM s1 s2 s3 m0 m1 m2 m3 o) gen_within = 1) /\
  (~ (s2lo s1 m0 m1 m2 m3 <= s2 <= s2hi s1 m0 m1 m2 m3) ->
     denR (envM s1 s2 s3 m0 m1 m2 m3 o) gen_within = o).
Proof. exact within_iff_dalitz_limits. Qed.

Print Assumptions C20_keyword_construction.
Print Assumptions C20_kallen_vanishing_arguments.
Print Assumptions C20_kibble_massless_particles.
Print Assumptions C20_kallen_defined.
Print Assumptions C20_kallen_symmetric_xy.
Print Assumptions C20_kallen_symmetric_yz.
Print Assumptions C20_kallen_symmetric_cyc.
Print Assumptions C20_kallen_factor.
Print Assumptions C20_third_mandelstam_event.
Print Assumptions C20_kibble_event_nonpos.
Print Assumptions C20_indicator_defined.
Print Assumptions C20_indicator_one_on_events.
Print Assumptions C20_indicator_iff_dalitz_limits.
