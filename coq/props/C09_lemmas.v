(* C09 — lemmas about the T-matrices and pole parametrisations regenerated from /repo (Gen_C09). *)
From AV Require Import KMat.
From AVchk Require Import Gen_C09.
From Coq Require Import Lra Lia.
Open Scope C_scope.

(* ---------- the statements, per matrix size ---------- *)
Definition den1 := cay_den C 1 Cplus Cmult Copp Ci.
Definition den2 := cay_den M2 M2one M2add M2mul M2opp M2i.
Definition unitary1 (T : C) : Prop :=
  let S := smat C 1 Cplus Cmult Ci T in Cconj S * S = 1 /\ S * Cconj S = 1.
Definition unitary2 (T : M2) : Prop :=
  let S := smat M2 M2one M2add M2mul M2i T in
  M2mul (M2dag S) S = M2one /\ M2mul S (M2dag S) = M2one.

Definition rho1 (ρ : envC) : C := csym ρ "rho0".
Definition rho2 (ρ : envC) : M2 := M2diag (csym ρ "rho0") (csym ρ "rho1").
Definition sqrt_rho2 (ρ : envC) : M2 := M2diag (Csqrt (csym ρ "rho0")) (Csqrt (csym ρ "rho1")).
Definition sqrt_rho_conj2 (ρ : envC) : M2 :=
  M2diag (Cconj (Csqrt (csym ρ "rho0"))) (Cconj (Csqrt (csym ρ "rho1"))).

Definition Kreal1 (ρ : envC) : Prop := isreal (csym ρ "K[0, 0]").
Definition Kreal2 (ρ : envC) : Prop :=
  isreal (csym ρ "K[0, 0]") /\ isreal (csym ρ "K[0, 1]") /\ isreal (csym ρ "K[1, 1]")
  /\ csym ρ "K[1, 0]" = csym ρ "K[0, 1]".
Definition rho_pos1 (ρ : envC) : Prop := exists x0 : R, (0 < x0)%R /\ csym ρ "rho0" = RtoC x0.
Definition rho_pos2 (ρ : envC) : Prop :=
  exists x0 x1 : R, (0 < x0)%R /\ (0 < x1)%R /\ csym ρ "rho0" = RtoC x0 /\ csym ρ "rho1" = RtoC x1.

(* ---------- defining equations of the generated matrices ---------- *)
Ltac start1 H :=
  dens_of H; cbv [denMC m1_of ent nth map K1 den1 rho1 cay_den sub]; denC_simpl; name_dens.
Ltac start2 H :=
  dens_of H; cbv [denMC m2_of ent nth map K2 den2 rho2 sqrt_rho2 sqrt_rho_conj2 M2diag cay_den sub];
  denC_simpl; cbv [M2mul M2add M2opp M2one M2i a00 a01 a10 a11]; name_dens.

Lemma nr_defining_1 : forall ρ, wdMC ρ gen_nr_T1 ->
  let T := m1_of (denMC ρ gen_nr_T1) in T * den1 (K1 ρ) = K1 ρ /\ den1 (K1 ρ) * T = K1 ρ.
Proof. intros [cs cf] H. unfold gen_nr_T1 in *. start1 H. split; fld_close. Qed.

Lemma nr_defining_2 : forall ρ, wdMC ρ gen_nr_T2 ->
  let T := m2_of (denMC ρ gen_nr_T2) in
  M2mul T (den2 (K2 ρ)) = K2 ρ /\ M2mul (den2 (K2 ρ)) T = K2 ρ.
Proof. intros [cs cf] H. unfold gen_nr_T2 in *. start2 H. split; f_equal; fld_close. Qed.

(* relativistic T-hat, in the code's convention: That (1 - i rho K) = K, (1 - i K rho) That = K *)
Lemma That_defining_1 : forall ρ, wdMC ρ gen_rel_That1 ->
  let T := m1_of (denMC ρ gen_rel_That1) in
  T * den1 (rho1 ρ * K1 ρ) = K1 ρ /\ den1 (K1 ρ * rho1 ρ) * T = K1 ρ.
Proof. intros [cs cf] H. unfold gen_rel_That1 in *. start1 H. split; fld_close. Qed.

Lemma That_defining_2 : forall ρ, wdMC ρ gen_rel_That2 ->
  let T := m2_of (denMC ρ gen_rel_That2) in
  M2mul T (den2 (M2mul (rho2 ρ) (K2 ρ))) = K2 ρ /\ M2mul (den2 (M2mul (K2 ρ) (rho2 ρ))) T = K2 ρ.
Proof. intros [cs cf] H. unfold gen_rel_That2 in *. start2 H. split; f_equal; fld_close. Qed.

(* T = conj(sqrt rho) That sqrt rho, entry by entry, between the two independently generated
   matrices (return_t_hat = False / True) *)
Lemma Trel_factor_1 : forall ρ, wdMC ρ gen_rel_T1 ->
  m1_of (denMC ρ gen_rel_T1)
  = Cconj (Csqrt (rho1 ρ)) * m1_of (denMC ρ gen_rel_That1) * Csqrt (rho1 ρ).
Proof.
  intros [cs cf] H. unfold gen_rel_T1, gen_rel_That1 in *. start1 H. name_atoms cs. fld_close.
Qed.

Lemma Trel_factor_2 : forall ρ, wdMC ρ gen_rel_T2 ->
  m2_of (denMC ρ gen_rel_T2)
  = M2mul (M2mul (sqrt_rho_conj2 ρ) (m2_of (denMC ρ gen_rel_That2))) (sqrt_rho2 ρ).
Proof.
  intros [cs cf] H. unfold gen_rel_T2, gen_rel_That2 in *. start2 H. name_atoms cs.
  f_equal; fld_close.
Qed.

(* ---------- unitarity and symmetry from the abstract theorem ---------- *)
Lemma K1_selfadjoint ρ : Kreal1 ρ -> Cconj (K1 ρ) = K1 ρ.
Proof. intros H. apply Cconj_real. exact H. Qed.
Lemma K2_selfadjoint ρ : Kreal2 ρ -> M2dag (K2 ρ) = K2 ρ /\ M2tr (K2 ρ) = K2 ρ.
Proof.
  intros [H0 [H1 [H2 E]]]. unfold K2, M2dag, M2tr; cbn [a00 a01 a10 a11]. rewrite E.
  rewrite !Cconj_real by assumption. split; reflexivity.
Qed.

Lemma nr_unitary_1 ρ : wdMC ρ gen_nr_T1 -> Kreal1 ρ -> unitary1 (m1_of (denMC ρ gen_nr_T1)).
Proof.
  intros Hwd HK. destruct (nr_defining_1 ρ Hwd) as [E1 E2].
  destruct (cayley_from_defining C 0 1 Cplus Cmult Copp M1_ring Ci M1_imag Cconj (fun x => x)
              M1_dag Cconj_Ci M1_tr eq_refl (K1 ρ) _ (K1_selfadjoint ρ HK) eq_refl E1 E2)
    as [U1 [U2 _]].
  split; assumption.
Qed.

Lemma nr_unitary_2 ρ : wdMC ρ gen_nr_T2 -> Kreal2 ρ ->
  let T := m2_of (denMC ρ gen_nr_T2) in unitary2 T /\ M2tr T = T.
Proof.
  intros Hwd HK. destruct (nr_defining_2 ρ Hwd) as [E1 E2]. destruct (K2_selfadjoint ρ HK) as [Kd Kt].
  destruct (cayley_from_defining M2 M2zero M2one M2add M2mul M2opp M2_ring M2i M2_imag M2dag M2tr
              M2_dag M2_dag_i M2_tr M2_tr_i (K2 ρ) _ Kd Kt E1 E2) as [U1 [U2 U3]].
  repeat split; assumption.
Qed.

Lemma Csqrt_sq x : (0 <= x)%R -> RtoC (sqrt x) * RtoC (sqrt x) = RtoC x.
Proof. intros H. rewrite <- RtoC_mult, sqrt_sqrt by exact H. reflexivity. Qed.

Lemma rel_unitary_1 ρ : wdMC ρ gen_rel_T1 -> wdMC ρ gen_rel_That1 -> Kreal1 ρ -> rho_pos1 ρ ->
  unitary1 (m1_of (denMC ρ gen_rel_T1)).
Proof.
  intros Hwd Hwdh HK [x0 [Hx0 Hr]].
  rewrite (Trel_factor_1 ρ Hwd). destruct (That_defining_1 ρ Hwdh) as [E1 E2].
  set (Th := m1_of (denMC ρ gen_rel_That1)) in *. unfold rho1 in *. rewrite Hr in *.
  rewrite Csqrt_nonneg by lra. rewrite Cconj_R.
  set (r := RtoC (sqrt x0)).
  assert (Hrr : r * r = RtoC x0) by (apply Csqrt_sq; lra).
  destruct (inverse_from_defining_rel C 0 1 Cplus Cmult Copp M1_ring Ci M1_imag (RtoC x0) (K1 ρ) Th E1 E2)
    as [Y1 [Y2 Y3]].
  rewrite <- Hrr in Y1, Y2.
  destruct (cayley_unitary_rel C 0 1 Cplus Cmult Copp M1_ring Ci M1_imag Cconj (fun x => x)
              M1_dag Cconj_Ci M1_tr eq_refl r (K1 ρ) _ Th (r * Th * r)
              (Cconj_R _) eq_refl (K1_selfadjoint ρ HK) eq_refl Y1 Y2) as [U1 [U2 _]].
  - rewrite Hrr. exact Y3.
  - reflexivity.
  - split; assumption.
Qed.

Lemma rel_unitary_2 ρ : wdMC ρ gen_rel_T2 -> wdMC ρ gen_rel_That2 -> Kreal2 ρ -> rho_pos2 ρ ->
  let T := m2_of (denMC ρ gen_rel_T2) in let Th := m2_of (denMC ρ gen_rel_That2) in
  unitary2 T /\ M2tr T = T /\ M2tr Th = Th.
Proof.
  intros Hwd Hwdh HK [x0 [x1 [Hx0 [Hx1 [Hr0 Hr1]]]]].
  cbv zeta. rewrite (Trel_factor_2 ρ Hwd). destruct (That_defining_2 ρ Hwdh) as [E1 E2].
  destruct (K2_selfadjoint ρ HK) as [Kd Kt].
  set (Th := m2_of (denMC ρ gen_rel_That2)) in *.
  unfold sqrt_rho_conj2, sqrt_rho2, rho2 in *. rewrite Hr0, Hr1 in *.
  rewrite !Csqrt_nonneg by lra. rewrite !Cconj_R.
  set (r := M2diag (RtoC (sqrt x0)) (RtoC (sqrt x1))).
  assert (Hrr : M2mul r r = M2diag (RtoC x0) (RtoC x1)).
  { unfold r, M2diag, M2mul; cbn [a00 a01 a10 a11].
    f_equal; try ring; [rewrite <- (Csqrt_sq x0) by lra | rewrite <- (Csqrt_sq x1) by lra]; ring. }
  assert (Hrd : M2dag r = r).
  { unfold r, M2diag, M2dag; cbn [a00 a01 a10 a11]. rewrite !Cconj_R. reflexivity. }
  destruct (inverse_from_defining_rel M2 M2zero M2one M2add M2mul M2opp M2_ring M2i M2_imag
              (M2diag (RtoC x0) (RtoC x1)) (K2 ρ) Th E1 E2) as [Y1 [Y2 Y3]].
  rewrite <- Hrr in Y1, Y2.
  destruct (cayley_unitary_rel M2 M2zero M2one M2add M2mul M2opp M2_ring M2i M2_imag M2dag M2tr
              M2_dag M2_dag_i M2_tr M2_tr_i r (K2 ρ) _ Th (M2mul (M2mul r Th) r)
              Hrd eq_refl Kd Kt Y1 Y2) as [U1 [U2 [U3 U4]]].
  - rewrite Hrr. exact Y3.
  - reflexivity.
  - repeat split; assumption.
Qed.

(* ---------- the pole parametrisations: K_ij = K_ji real, for every number of poles ---------- *)
Section Param.
  Variables (s : R) (m : nat -> R) (G g : nat -> nat -> R) (ma mb : nat -> R) (L d : R).
  Variable f : string -> list C -> C.

  Definition pole_env (r : nat) : envC :=
    envC_of [("s", RtoC s); ("m[R]", RtoC (m r));
             ("Gamma[R, 0]", RtoC (G r 0)); ("Gamma[R, 1]", RtoC (G r 1)); ("Gamma[R, 2]", RtoC (G r 2));
             ("gamma[R, 0]", RtoC (g r 0)); ("gamma[R, 1]", RtoC (g r 1)); ("gamma[R, 2]", RtoC (g r 2));
             ("m_a[0]", RtoC (ma 0)); ("m_a[1]", RtoC (ma 1)); ("m_a[2]", RtoC (ma 2));
             ("m_b[0]", RtoC (mb 0)); ("m_b[1]", RtoC (mb 1)); ("m_b[2]", RtoC (mb 2));
             ("L", RtoC L); ("d", RtoC d); ("R", RtoC (INR r))] f.

  Definition real_params (n : nat) : Prop :=
    forall r, (1 <= r <= n)%nat ->
      (0 <= m r)%R /\ ((m r) ^ 2 <> s)%R /\ forall c, (0 <= G r c)%R.

  (* every opaque function node of the summand (the EnergyDependentWidth) is real and >= 0 *)
  Definition width_real_nonneg : Prop :=
    forall h vs, exists w : R, (0 <= w)%R /\ f h vs = RtoC w.

  Definition real_symmetric (n : nat) (it : (nat * nat) * expr * expr) : Prop :=
    let '(_, tij, tji) := it in
    wd_pole_sum pole_env n tij /\
    exists x : R, den_pole_sum pole_env n tij = RtoC x /\ den_pole_sum pole_env n tji = RtoC x.

  Ltac use_widths Hw :=
    repeat match goal with
           | |- context [f ?h ?vs] =>
               let w := fresh "w" in let Hw0 := fresh "Hw0" in let E := fresh "E" in
               destruct (Hw h vs) as [w [Hw0 E]]; rewrite !E; clear E
           end.

  Ltac summand Hp Hw :=
    let r := fresh "r" in let Hr := fresh "Hr" in
    intros r Hr; destruct (Hp r Hr) as [Hm [Hms HG]];
    pose proof (HG 0%nat); pose proof (HG 1%nat); pose proof (HG 2%nat);
    assert ((m r * m r + - (1) * s)%R <> 0%R) by (intro; apply Hms; lra);
    unfold pole_env.

  Ltac ne_pole :=
    first [ assumption
          | match goal with
            | Hne : (_ ^ 2)%R <> _ |- _ =>
                let E := fresh "E" in intro E; apply Hne; first [lra | nra]
            end ].
  Ltac upow := cbv [powZ Pos.to_nat Pos.iter_op Nat.add Init.Nat.add].

  Ltac item Hp Hw :=
    unfold real_symmetric, wd_pole_sum, den_pole_sum; cbn [sum_parts String.eqb Ascii.eqb Bool.eqb];
    split;
    [ split; [reflexivity|]; summand Hp Hw; denC_simplR; lift_R; upow;
      repeat split; try exact I; try (apply RtoC_neq0; ne_pole)
    | apply sum_poles_real_ext; summand Hp Hw; denC_simplR; use_widths Hw;
      rewrite ?Csqrt_nonneg by assumption; lift_R; upow;
      eexists; split; [reflexivity | f_equal; field; ne_pole] ].

  Lemma nr_param_real_symmetric n :
    real_params n -> Forall (real_symmetric n) gen_nr_param.
  Proof.
    intros Hp. assert (Hw : width_real_nonneg -> True) by auto.
    unfold gen_nr_param. repeat (apply Forall_cons; [item Hp Hw|]). apply Forall_nil.
  Qed.

  Lemma rel_param_real_symmetric n :
    real_params n -> width_real_nonneg -> Forall (real_symmetric n) gen_rel_param.
  Proof.
    intros Hp Hw.
    unfold gen_rel_param. repeat (apply Forall_cons; [item Hp Hw|]). apply Forall_nil.
  Qed.
End Param.

(* ---------- end to end: K given by the library's parametrisation, any number of poles ---------- *)
Definition param_entry (l : list ((nat * nat) * expr * expr)) (i j : nat) : expr :=
  match find (fun it => Nat.eqb (fst (fst (fst it))) i && Nat.eqb (snd (fst (fst it))) j) l with
  | Some (_, t, _) => t
  | None => Num 0
  end.

Definition K_bound (pe : nat -> envC) (n : nat) (l : list ((nat * nat) * expr * expr)) (ρ : envC) : Prop :=
  csym ρ "K[0, 0]" = den_pole_sum pe n (param_entry l 0 0) /\
  csym ρ "K[0, 1]" = den_pole_sum pe n (param_entry l 0 1) /\
  csym ρ "K[1, 0]" = den_pole_sum pe n (param_entry l 1 0) /\
  csym ρ "K[1, 1]" = den_pole_sum pe n (param_entry l 1 1).

Lemma Kreal2_of_items pe n l ρ :
  K_bound pe n l ρ ->
  (exists x, den_pole_sum pe n (param_entry l 0 0) = RtoC x) ->
  (exists x, den_pole_sum pe n (param_entry l 0 1) = RtoC x /\ den_pole_sum pe n (param_entry l 1 0) = RtoC x) ->
  (exists x, den_pole_sum pe n (param_entry l 1 1) = RtoC x) ->
  Kreal2 ρ.
Proof.
  intros [B00 [B01 [B10 B11]]] [x0 E0] [x1 [E1 E1']] [x2 E2].
  unfold Kreal2. rewrite B00, B01, B10, B11, E0, E1, E1', E2. repeat split; reflexivity.
Qed.

Lemma nr_param_Kreal2 s m G g ma mb L d f n ρ :
  real_params s m G n ->
  K_bound (pole_env s m G g ma mb L d f) n gen_nr_param ρ -> Kreal2 ρ.
Proof.
  intros Hp HB. pose proof (nr_param_real_symmetric s m G g ma mb L d f n Hp) as F.
  unfold gen_nr_param in F, HB.
  pose proof (Forall_inv F) as I00.
  pose proof (Forall_inv (Forall_inv_tail F)) as I01.
  pose proof (Forall_inv (Forall_inv_tail (Forall_inv_tail (Forall_inv_tail (Forall_inv_tail F))))) as I11.
  clear F. eapply Kreal2_of_items; [exact HB | ..]; cbv [param_entry find fst snd Nat.eqb andb].
  - destruct I00 as [_ [x [E _]]]. exists x. exact E.
  - destruct I01 as [_ [x [E E']]]. exists x. split; [exact E | exact E'].
  - destruct I11 as [_ [x [E _]]]. exists x. exact E.
Qed.

Lemma rel_param_Kreal2 s m G g ma mb L d f n ρ :
  real_params s m G n -> width_real_nonneg f ->
  K_bound (pole_env s m G g ma mb L d f) n gen_rel_param ρ -> Kreal2 ρ.
Proof.
  intros Hp Hw HB. pose proof (rel_param_real_symmetric s m G g ma mb L d f n Hp Hw) as F.
  unfold gen_rel_param in F, HB.
  pose proof (Forall_inv F) as I00.
  pose proof (Forall_inv (Forall_inv_tail F)) as I01.
  pose proof (Forall_inv (Forall_inv_tail (Forall_inv_tail (Forall_inv_tail (Forall_inv_tail F))))) as I11.
  clear F. eapply Kreal2_of_items; [exact HB | ..]; cbv [param_entry find fst snd Nat.eqb andb].
  - destruct I00 as [_ [x [E _]]]. exists x. exact E.
  - destruct I01 as [_ [x [E E']]]. exists x. split; [exact E | exact E'].
  - destruct I11 as [_ [x [E _]]]. exists x. exact E.
Qed.

(* ---------- a concrete point: 2 channels, 2 poles ---------- *)
Definition ex_s : R := 2.
Definition ex_m (r : nat) : R := match r with 1%nat => 1 | _ => 3 end.
Definition ex_G (r c : nat) : R := 1.
Definition ex_g (r c : nat) : R := match r, c with 1%nat, 0%nat => 1 | 1%nat, _ => 2 | _, 0%nat => 3 | _, _ => 1 end.
Definition ex_f (h : string) (vs : list C) : C := 1.
Definition ex_pe := pole_env ex_s ex_m ex_G ex_g (fun _ => 0%R) (fun _ => 0%R) 0 1 ex_f.

Lemma ex_real_params : real_params ex_s ex_m ex_G 2.
Proof.
  intros r Hr. assert (r = 1 \/ r = 2)%nat as [-> | ->] by lia; unfold ex_m, ex_s, ex_G; cbn [pow];
    repeat split; intros; lra.
Qed.
Lemma ex_width : width_real_nonneg ex_f.
Proof. intros h vs. exists 1%R. split; [lra | reflexivity]. Qed.

(* K = [[1, 2], [2, 3]] makes every denominator of the generated 2x2 T-matrices non-zero *)
Definition ex_K : envC :=
  envC_of [("K[0, 0]", RtoC 1); ("K[0, 1]", RtoC 2); ("K[1, 0]", RtoC 2); ("K[1, 1]", RtoC 3);
           ("rho0", RtoC 1); ("rho1", RtoC 4)] ex_f.

Ltac ne_concrete :=
  lift_R;
  first [ apply C_neq0_im; unfold Cplus, Cmult, Copp, Cconj, Ci, RtoC; cbn [fst snd]; lra
        | apply C_neq0_re; unfold Cplus, Cmult, Copp, Cconj, Ci, RtoC; cbn [fst snd]; lra ].

Lemma ex_K_hyps :
  wdMC ex_K gen_nr_T2 /\ wdMC ex_K gen_rel_That2 /\ wdMC ex_K gen_rel_T2 /\ Kreal2 ex_K /\ rho_pos2 ex_K.
Proof.
  unfold ex_K. split; [|split; [|split; [|split]]].
  - unfold gen_nr_T2. cbv [wdMC all_wdC]. denC_simpl. repeat split; try exact I; ne_concrete.
  - unfold gen_rel_That2. cbv [wdMC all_wdC]. denC_simpl. repeat split; try exact I; ne_concrete.
  - unfold gen_rel_T2. cbv [wdMC all_wdC]. denC_simpl. repeat split; try exact I; ne_concrete.
  - unfold Kreal2, envC_of, isreal; cbn. repeat split; reflexivity.
  - exists 1%R, 4%R. cbn. repeat split; lra.
Qed.

(* the K symbols bound to the example's pole sums: the hypotheses of the end-to-end theorems hold *)
Lemma ex_param_hyps :
  real_params ex_s ex_m ex_G 2 /\ width_real_nonneg ex_f /\
  Forall (real_symmetric ex_s ex_m ex_G ex_g (fun _ => 0%R) (fun _ => 0%R) 0 1 ex_f 2) gen_nr_param /\
  Forall (real_symmetric ex_s ex_m ex_G ex_g (fun _ => 0%R) (fun _ => 0%R) 0 1 ex_f 2) gen_rel_param.
Proof.
  pose proof ex_real_params as Hp. pose proof ex_width as Hw.
  split; [exact Hp | split; [exact Hw | split]].
  - apply nr_param_real_symmetric. exact Hp.
  - apply rel_param_real_symmetric; assumption.
Qed.

Lemma nr_unitary_library_2 s m G g ma mb L d f n ρ :
  real_params s m G n -> K_bound (pole_env s m G g ma mb L d f) n gen_nr_param ρ ->
  wdMC ρ gen_nr_T2 ->
  let T := m2_of (denMC ρ gen_nr_T2) in unitary2 T /\ M2tr T = T.
Proof. intros Hp HB Hwd. apply nr_unitary_2; [exact Hwd | eapply nr_param_Kreal2; eauto]. Qed.

Lemma rel_unitary_library_2 s m G g ma mb L d f n ρ :
  real_params s m G n -> width_real_nonneg f ->
  K_bound (pole_env s m G g ma mb L d f) n gen_rel_param ρ ->
  wdMC ρ gen_rel_T2 -> wdMC ρ gen_rel_That2 -> rho_pos2 ρ ->
  let T := m2_of (denMC ρ gen_rel_T2) in let Th := m2_of (denMC ρ gen_rel_That2) in
  unitary2 T /\ M2tr T = T /\ M2tr Th = Th.
Proof.
  intros Hp Hw HB Hwd Hwdh Hr. apply rel_unitary_2; try assumption. eapply rel_param_Kreal2; eauto.
Qed.

Lemma param_index_ok :
  map (fun it => fst (fst it)) gen_nr_param
    = [(0,0);(0,1);(0,2);(1,0);(1,1);(1,2);(2,0);(2,1);(2,2)]%nat /\
  map (fun it => fst (fst it)) gen_rel_param
    = [(0,0);(0,1);(0,2);(1,0);(1,1);(1,2);(2,0);(2,1);(2,2)]%nat.
Proof. split; reflexivity. Qed.

(* ---------- argument forwarding of RelativisticKMatrix.formulate (marker arguments) ---------- *)
Definition edw_marker : string := "EnergyDependentWidth[phsp_factor=None.rhoX,name=None]".
Definition edw_default : string :=
  "EnergyDependentWidth[phsp_factor=ampform.dynamics.phasespace.PhaseSpaceFactor,name=None]".
Definition arg_is (args : list expr) (k : nat) (name : string) : bool :=
  match nth_error args k with Some (Sym s) => String.eqb s name | _ => false end.
(* whitelist: Sum, rhoX(s, ., .), EnergyDependentWidth carrying rhoX with (Lx, dx); nothing else *)
Definition chk_marker (h : head) (args : list expr) : bool :=
  match h with
  | HOther g =>
      if String.eqb g "Sum" then true
      else if String.eqb g "rhoX" then Nat.eqb (length args) 3 && arg_is args 0 "s"
      else if String.eqb g edw_marker
           then Nat.eqb (length args) 7 && arg_is args 0 "s" && arg_is args 5 "Lx" && arg_is args 6 "dx"
      else false
  | _ => true
  end.
Definition is_head (f : string) (h : head) (_ : list expr) : bool :=
  match h with HOther g => String.eqb g f | _ => false end.
Definition total (p : head -> list expr -> bool) (l : list expr) : nat :=
  fold_right Nat.add 0%nat (map (count_nodes p) l).
Definition marked_ok (it : string * list expr) : bool :=
  let trees := snd it in
  forallb (all_nodes chk_marker) trees
  && Nat.ltb 0 (total (is_head edw_marker) trees) && Nat.ltb 0 (total (is_head "rhoX") trees)
  && negb (existsb (occursb "PhaseSpaceFactor") trees) && negb (existsb (occursb edw_default) trees).

Lemma formulate_only_callers_arguments :
  forallb marked_ok gen_marked_rel = true /\
  map fst gen_marked_rel
  = ["return_t_hat=False/n=1"; "return_t_hat=False/n=2"; "return_t_hat=True/n=1"; "return_t_hat=True/n=2"].
Proof. split; vm_compute; reflexivity. Qed.

(* the marker given as a plain FUNCTION, formulated right after a call with another function of the
   same qualified name; widths unfolded one level: only Sum, rhoX(., ., .) and FormFactor(., ., ., Lx, dx)
   occur - no rhoDecoy (the earlier caller's function), no width left folded, no phase-space class *)
Definition chk_hist (h : head) (args : list expr) : bool :=
  match h with
  | HOther g =>
      if String.eqb g "Sum" then true
      else if String.eqb g "rhoX" then Nat.eqb (length args) 3
      else if String.eqb g "FormFactor"
           then Nat.eqb (length args) 5 && arg_is args 3 "Lx" && arg_is args 4 "dx"
      else false
  | _ => true
  end.
Definition hist_ok (it : string * list expr) : bool :=
  let trees := snd it in
  forallb (all_nodes chk_hist) trees && Nat.ltb 0 (total (is_head "rhoX") trees)
  && Nat.ltb 0 (total (is_head "FormFactor") trees) && negb (existsb (occursb "rhoDecoy") trees).
Lemma formulate_history_only_callers_function :
  forallb hist_ok gen_marked_hist = true /\
  map fst gen_marked_hist
  = ["return_t_hat=False/n=1"; "return_t_hat=False/n=2"; "return_t_hat=True/n=1"; "return_t_hat=True/n=2"].
Proof. split; vm_compute; reflexivity. Qed.

(* ---------- the width below threshold: what width_real_nonneg excludes ---------- *)
(* gen_edw is EnergyDependentWidth(s, m0, g0, ma, mb, L, d, phsp_factor=rhoX).evaluate():
   Gamma(s) = g0 rho(s) F(s)^2 / (rho(m0^2) F(m0^2)^2).  If the phase-space factor is real at s but
   purely imaginary at the pole mass (a pole below the channel's threshold, for PhaseSpaceFactor and
   PhaseSpaceFactorComplex), the width is a non-zero purely imaginary number: not real. *)
Definition env_edw (f : string -> list C -> C) (s m0 g0 ma mb L d : R) : envC :=
  envC_of [("s", RtoC s); ("m0", RtoC m0); ("g0", RtoC g0); ("ma", RtoC ma); ("mb", RtoC mb);
           ("L", RtoC L); ("d", RtoC d)] f.

Lemma width_imaginary_below_threshold f s m0 g0 ma mb L d a b p q :
  g0 <> 0%R -> a <> 0%R -> b <> 0%R -> p <> 0%R -> q <> 0%R ->
  f "rhoX" [RtoC s; RtoC ma; RtoC mb] = RtoC a ->
  f "rhoX" [RtoC m0 * RtoC m0; RtoC ma; RtoC mb] = Ci * RtoC b ->
  f "FormFactor" [RtoC s; RtoC ma; RtoC mb; RtoC L; RtoC d] = RtoC p ->
  f "FormFactor" [RtoC m0 * RtoC m0; RtoC ma; RtoC mb; RtoC L; RtoC d] = RtoC q ->
  wdC (env_edw f s m0 g0 ma mb L d) gen_edw /\
  exists y : R, y <> 0%R /\ denC (env_edw f s m0 g0 ma mb L d) gen_edw = Ci * RtoC y.
Proof.
  intros Hg Ha Hb Hp Hq Ea Eb Ep Eq.
  assert (HCi : Ci <> 0) by (apply C_neq0_im; cbn; lra).
  assert (Hb' : RtoC b <> 0) by (apply RtoC_neq0; exact Hb).
  assert (Hq' : RtoC q <> 0) by (apply RtoC_neq0; exact Hq).
  unfold gen_edw, env_edw. denC_simpl. rewrite Ea, Eb, Ep, Eq. split.
  - repeat split; try exact I; try assumption; try (apply Cmult_neq_0; assumption).
  - exists (- (g0 * (p * p) * a) / (q * q * b))%R. split.
    + unfold Rdiv. apply Rmult_integral_contrapositive_currified.
      * apply Ropp_neq_0_compat. repeat apply Rmult_integral_contrapositive_currified; assumption.
      * apply Rinv_neq_0_compat. repeat apply Rmult_integral_contrapositive_currified; assumption.
    + rewrite <- Cdiv_R, RtoC_opp, !RtoC_mult. field [Ci2o]. repeat split; assumption.
Qed.

Lemma imaginary_not_real y : y <> 0%R -> ~ isreal (Ci * RtoC y).
Proof. intros Hy H. rewrite re_Ci_mult in H. unfold isreal in H. cbn in H. contradiction. Qed.
