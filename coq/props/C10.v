(* C10 — production vectors solve the K-matrix equation and honour their arguments:
   property theorems (statements only).  gen_nr_F<n>, gen_rel_F<n>, gen_rel_Fhat<n>, gen_marked,
   gen_bw_* are regenerated from /repo on every run (bridge/symgen_C10.py). *)
From AV Require Import KMat.
From AVchk Require Import Gen_C10 C10_lemmas.
Open Scope C_scope.

(* ---- 1. (1 - iK) F = P, entrywise, wherever the generated F is defined (K, P arbitrary complex) ---- *)
Theorem C10_F_solves_nr_1 : forall ρ, wdV ρ gen_nr_F1 ->
  den1 (K1 ρ) * nth 0 (denV ρ gen_nr_F1) 0 = P1 ρ.
Proof. exact F_solves_nr_1. Qed.
Theorem C10_F_solves_nr_2 : forall ρ, wdV ρ gen_nr_F2 ->
  M2vec (den2 (K2 ρ)) (v2_of (denV ρ gen_nr_F2)) = P2 ρ.
Proof. exact F_solves_nr_2. Qed.

(* relativistic, in the code's convention: K-hat = conj(sqrt rho)^-1 K sqrt(rho)^-1,
   (1 - i K-hat rho) F-hat = P and F = sqrt(rho) F-hat, with the SAME symbols rho_i in K-hat, in rho
   and in sqrt(rho); rho_i any complex number whose principal square root behaves (sqrt_ok). *)
Theorem C10_F_solves_rel_1 : forall ρ, wdV ρ gen_rel_Fhat1 -> wdV ρ gen_rel_F1 -> sqrt_ok ρ "rho0" ->
  den1 (Khat1 ρ * csym ρ "rho0") * nth 0 (denV ρ gen_rel_Fhat1) 0 = P1 ρ /\
  nth 0 (denV ρ gen_rel_F1) 0 = sr ρ "rho0" * nth 0 (denV ρ gen_rel_Fhat1) 0.
Proof. exact F_solves_rel_1. Qed.
Theorem C10_F_solves_rel_2 : forall ρ, wdV ρ gen_rel_Fhat2 -> wdV ρ gen_rel_F2 ->
  sqrt_ok ρ "rho0" -> sqrt_ok ρ "rho1" ->
  M2vec (den2 (M2mul (Khat2 ρ) (rho2 ρ))) (v2_of (denV ρ gen_rel_Fhat2)) = P2 ρ /\
  v2_of (denV ρ gen_rel_F2)
  = (sr ρ "rho0" * nth 0 (denV ρ gen_rel_Fhat2) 0, sr ρ "rho1" * nth 1 (denV ρ gen_rel_Fhat2) 0).
Proof. exact F_solves_rel_2. Qed.
Theorem C10_sqrt_ok_for_real_rho : forall ρ i x, csym ρ i = RtoC x -> x <> 0%R -> sqrt_ok ρ i.
Proof. exact sqrt_ok_real. Qed.

(* ---- 2. only the caller's arguments: all four classes, both flags, n = 1, 2, symbolic n_poles,
        built with phsp_factor = rhoX, angular_momentum = Lx, meson_radius = dx ---- *)
Theorem C10_only_callers_arguments : forallb item_ok gen_marked = true.
Proof. exact only_callers_arguments. Qed.
Theorem C10_marked_configurations :
  map (fun it => fst (fst it)) gen_marked =
  ["NonRelativisticKMatrix/-/n=1"; "NonRelativisticKMatrix/-/n=2";
   "NonRelativisticPVector/-/n=1"; "NonRelativisticPVector/-/n=2";
   "RelativisticKMatrix/return_t_hat=False/n=1"; "RelativisticKMatrix/return_t_hat=False/n=2";
   "RelativisticKMatrix/return_t_hat=True/n=1"; "RelativisticKMatrix/return_t_hat=True/n=2";
   "RelativisticPVector/return_f_hat=False/n=1"; "RelativisticPVector/return_f_hat=False/n=2";
   "RelativisticPVector/return_f_hat=True/n=1"; "RelativisticPVector/return_f_hat=True/n=2"]%string.
Proof. exact marked_tags. Qed.
(* the same when the phase space is a plain FUNCTION and formulate was called before, in the same
   process, with ANOTHER function of the same qualified name (closures of one factory): after
   unfolding the widths one level only the caller's function rhoX occurs, never the earlier rhoDecoy *)
Theorem C10_history_only_callers_function :
  forallb hist_ok gen_marked_hist = true /\
  map fst gen_marked_hist =
  ["RelativisticKMatrix/return_t_hat=False/n=1"; "RelativisticKMatrix/return_t_hat=False/n=2";
   "RelativisticKMatrix/return_t_hat=True/n=1"; "RelativisticKMatrix/return_t_hat=True/n=2";
   "RelativisticPVector/return_f_hat=False/n=1"; "RelativisticPVector/return_f_hat=False/n=2";
   "RelativisticPVector/return_f_hat=True/n=1"; "RelativisticPVector/return_f_hat=True/n=2"]%string.
Proof. exact history_only_callers_function. Qed.
(* generic soundness of the syntactic check *)
Theorem C10_occurs_sound : forall (f : string) ρ ρ',
  (forall s, csym ρ s = csym ρ' s) -> (forall g vs, g <> f -> cfn ρ g vs = cfn ρ' g vs) ->
  forall e, occursb f e = false -> denC ρ e = denC ρ' e.
Proof. exact occurs_sound. Qed.
Theorem C10_default_phsp_irrelevant :
  Forall (fun it => Forall (fun e => independent_of "PhaseSpaceFactor" e /\ independent_of edw_default e)
                      (snd it)) gen_marked.
Proof. exact default_phsp_irrelevant. Qed.

(* ---- 3. one channel, one pole ---- *)
Theorem C10_one_channel_one_pole_T_is_BW : forall ρ,
  wd_single ρ gen_bw_T11 -> wd_single ρ gen_bw_gamma -> denC ρ gen_bw_T11 = denC ρ gen_bw_gamma.
Proof. exact bw_T11. Qed.
Theorem C10_one_channel_one_pole_T_is_BW_gamma1 : forall ρ, csym ρ "gamma[1, 0]" = 1 ->
  wd_single ρ gen_bw_T11 -> wd_single ρ gen_bw -> denC ρ gen_bw_T11 = denC ρ gen_bw.
Proof. exact bw_T11_gamma1. Qed.
Theorem C10_one_channel_one_pole_F_is_beta_BW : forall ρ,
  wd_single ρ gen_bw_F11 -> wd_single ρ gen_bw_gamma ->
  csym ρ "gamma[1, 0]" * denC ρ gen_bw_F11 = csym ρ "beta[1]" * denC ρ gen_bw_gamma.
Proof. exact bw_F11. Qed.
Theorem C10_one_channel_one_pole_F_is_beta_BW_gamma1 : forall ρ, csym ρ "gamma[1, 0]" = 1 ->
  wd_single ρ gen_bw_F11 -> wd_single ρ gen_bw -> denC ρ gen_bw_F11 = csym ρ "beta[1]" * denC ρ gen_bw.
Proof. exact bw_F11_gamma1. Qed.
Theorem C10_one_channel_one_pole_Fhat_is_beta_BW_ff : forall ρ x, csym ρ "gamma[1, 0]" = 1 ->
  cfn ρ "rhoX" [csym ρ "s"; csym ρ "m_a[0]"; csym ρ "m_b[0]"] = RtoC x -> (0 < x)%R ->
  wd_single ρ gen_bw_Fhat11 -> wd_single ρ gen_bw_ff ->
  denC ρ gen_bw_Fhat11 = csym ρ "beta[1]" * denC ρ gen_bw_ff.
Proof. exact bw_Fhat11. Qed.

(* ---- the hypotheses are satisfiable ---- *)
Example C10_example_point : wdV ex_F gen_nr_F2 /\ sqrt_ok ex_F "rho0" /\ sqrt_ok ex_F "rho1".
Proof. exact ex_F_hyps. Qed.

Example C10_example_breit_wigner_point :
  csym ex_bw "gamma[1, 0]" = 1 /\ wd_single ex_bw gen_bw_T11 /\ wd_single ex_bw gen_bw_F11 /\
  wd_single ex_bw gen_bw /\ wd_single ex_bw gen_bw_gamma.
Proof. exact ex_bw_hyps. Qed.

Print Assumptions C10_F_solves_nr_1.
Print Assumptions C10_F_solves_nr_2.
Print Assumptions C10_F_solves_rel_1.
Print Assumptions C10_F_solves_rel_2.
Print Assumptions C10_sqrt_ok_for_real_rho.
Print Assumptions C10_only_callers_arguments.
Print Assumptions C10_marked_configurations.
Print Assumptions C10_history_only_callers_function.
Print Assumptions C10_occurs_sound.
Print Assumptions C10_default_phsp_irrelevant.
Print Assumptions C10_one_channel_one_pole_T_is_BW.
Print Assumptions C10_one_channel_one_pole_T_is_BW_gamma1.
Print Assumptions C10_one_channel_one_pole_F_is_beta_BW.
Print Assumptions C10_one_channel_one_pole_F_is_beta_BW_gamma1.
Print Assumptions C10_one_channel_one_pole_Fhat_is_beta_BW_ff.
Print Assumptions C10_example_point.
Print Assumptions C10_example_breit_wigner_point.
