(** Helpers_lemmas.v — proofs about the definitions that bridge/trans_helpers.py TRANSLATES from the current source
    text (Gen_helpers.v).  A change of the source changes these proof obligations. *)
From Coq Require Import ZArith List Bool Lia Permutation Sorted.
From AV Require Import Kin PyTopo Spin Spin_proofs.
From AVchk Require Import Gen_helpers.
Import ListNotations.
Open Scope Z_scope.
Lemma memZ_same x l : PyTopo.memZ x l = Spin.memZ x l.
Proof. reflexivity. Qed.

Lemma py_remove_first x l :
  py_remove x l = match remove_first x l with Some t => Ok t | None => Err EValue end.
Proof.
  induction l as [|y t IH]; simpl; [reflexivity|].
  destruct (y =? x); [reflexivity|]. rewrite IH. destruct (remove_first x t); reflexivity.
Qed.

(* the generated while loop, with enough fuel, appends exactly Spin.spin_loop *)
Lemma gen_loop_spec u sm nz hi : 0 < u -> forall (fuel : nat) p acc,
  (Z.to_nat (hi - p + 1) < fuel)%nat ->
  exists p', gen_create_spin_range_loop1 u fuel sm nz hi p acc = Ok (p', acc ++ spin_loop fuel p hi u).
Proof.
  intros Hu. induction fuel as [|f IH]; intros p acc Hf; [lia|].
  cbn [gen_create_spin_range_loop1 spin_loop].
  destruct (p <=? hi) eqn:Hle.
  - apply Z.leb_le in Hle.
    destruct (p =? - (0 * u)) eqn:E; cbn [bind]; replace (1 * u) with u by lia.
    + apply Z.eqb_eq in E. assert (Hz : p = 0) by lia. subst p.
      destruct (IH (0 + u) (acc ++ [0])) as [p' Hp']; [lia|].
      exists p'. rewrite Hp', <- app_assoc. reflexivity.
    + destruct (IH (p + u) (acc ++ [p])) as [p' Hp']; [lia|].
      exists p'. rewrite Hp', <- app_assoc. reflexivity.
  - exists p. rewrite app_nil_r. reflexivity.
Qed.

Theorem gen_create_spin_range_is_model u n nz : 0 < u -> 0 <= n ->
  gen_create_spin_range u (Z.to_nat (2 * n) + 2) n nz
  = match spin_range_u u n nz with Some l => Ok l | None => Err EValue end.
Proof.
  intros Hu Hn. unfold gen_create_spin_range, spin_range_u, spin_projections.
  destruct (gen_loop_spec u n nz n Hu (Z.to_nat (2 * n) + 2) (- n) []) as [p' Hp']; [lia|].
  rewrite Hp'. cbn [bind app].
  set (l := spin_loop (Z.to_nat (2 * n) + 2) (- n) n u).
  replace (0 * u) with 0 by lia.
  replace (1 <? lenZ l) with (1 <? length l)%nat.
  2:{ unfold lenZ. destruct (Nat.ltb_spec 1 (length l)); destruct (Z.ltb_spec 1 (Z.of_nat (length l))); lia. }
  rewrite memZ_same.
  destruct (nz && (1 <? length l)%nat && Spin.memZ 0 l); cbn [bind]; [|reflexivity].
  rewrite py_remove_first. destruct (remove_first 0 l); reflexivity.
Qed.

(* ---------------------------------------------------------------- sets as strictly sorted lists *)
Lemma insert_perm x l : Permutation (Kin.insert x l) (x :: l).
Proof.
  induction l as [|y l IH]; simpl; [reflexivity|].
  destruct (x <=? y); [reflexivity|]. rewrite IH. apply perm_swap.
Qed.
Lemma sort_perm l : Permutation (Kin.sort l) l.
Proof. induction l as [|x l IH]; simpl; [reflexivity|]. rewrite insert_perm. now constructor. Qed.

Lemma insert_sorted x l : StronglySorted Z.le l -> StronglySorted Z.le (Kin.insert x l).
Proof.
  induction 1 as [|y l Hs IH Hall]; simpl; [repeat constructor|].
  destruct (Z.leb_spec x y).
  - constructor; [constructor; assumption|]. constructor; [assumption|].
    eapply Forall_impl; [|exact Hall]. intros z Hz. lia.
  - constructor; [assumption|].
    eapply Permutation_Forall; [symmetry; apply insert_perm|].
    constructor; [lia|assumption].
Qed.
Lemma sort_sorted l : StronglySorted Z.le (Kin.sort l).
Proof. induction l; simpl; [constructor|now apply insert_sorted]. Qed.

Lemma dedup_In x l : In x (dedup_sorted l) <-> In x l.
Proof.
  induction l as [|y t IH]; [reflexivity|].
  cbn [dedup_sorted]. destruct t as [|z t']; [reflexivity|].
  destruct (Z.eqb_spec y z) as [->|Hne].
  - rewrite IH. simpl. tauto.
  - simpl in *. rewrite IH. tauto.
Qed.
Lemma dedup_strict l : StronglySorted Z.le l -> StronglySorted Z.lt (dedup_sorted l).
Proof.
  induction 1 as [|y t Hs IH Hall]; [constructor|].
  cbn [dedup_sorted]. destruct t as [|z t']; [repeat constructor|].
  destruct (Z.eqb_spec y z) as [->|Hne]; [exact IH|].
  constructor; [exact IH|].
  apply Forall_forall. intros w Hw.
  rewrite Forall_forall in Hall.
  assert (Hyz : y <= z) by (apply Hall; now left).
  apply (proj1 (dedup_In w (z :: t'))) in Hw. simpl in Hw. destruct Hw as [Hw|Hw]; [subst w; lia|].
  inversion Hs as [|? ? _ Hz]; subst. rewrite Forall_forall in Hz. specialize (Hz w Hw). lia.
Qed.

Lemma set_of_In x l : In x (set_of l) <-> In x l.
Proof.
  unfold set_of. rewrite dedup_In. split; intros H.
  - eapply Permutation_in; [apply sort_perm|exact H].
  - eapply Permutation_in; [symmetry; apply sort_perm|exact H].
Qed.
Lemma set_of_NoDup l : NoDup (set_of l).
Proof.
  unfold set_of. pose proof (dedup_strict _ (sort_sorted l)) as H.
  induction H as [|y t Hs IH Hall]; constructor; [|exact IH].
  intros Hin. rewrite Forall_forall in Hall. specialize (Hall y Hin). lia.
Qed.

(* ---------------------------------------------------------------- removing from a two-element set *)
Lemma remove_pair s s' l : NoDup l -> py_remove s l = Ok [s'] -> py_remove s' l = Ok [s] /\ In s' l /\ s <> s'.
Proof.
  intros Hnd H. destruct l as [|y t]; [discriminate|]. cbn [py_remove] in H.
  destruct (Z.eqb_spec y s) as [->|Hys].
  - injection H as ->. inversion Hnd as [|? ? Hni _]; subst.
    assert (s <> s') by (intros ->; apply Hni; now left).
    cbn [py_remove]. destruct (Z.eqb_spec s s'); [contradiction|].
    destruct (Z.eqb_spec s' s'); [|contradiction]. cbn [bind]. repeat split; auto. right; now left.
  - destruct (py_remove s t) as [t'|] eqn:Ht; [|discriminate]. cbn [bind] in H. injection H as -> ->.
    destruct t as [|z t2]; [discriminate|]. cbn [py_remove] in Ht.
    destruct (Z.eqb_spec z s) as [->|Hzs].
    + injection Ht as ->. cbn [py_remove]. destruct (Z.eqb_spec s' s'); [|contradiction].
      repeat split; auto. now left.
    + destruct (py_remove s t2); [|discriminate]. discriminate.
Qed.

(* ---------------------------------------------------------------- edge lookup with unique ids *)
Definition wf_ids (t : rtopo) : Prop := NoDup (map re_id (rt_edges t)).

Lemma topo_edge_in_unique es e : NoDup (map re_id es) -> In e es -> topo_edge_in es (re_id e) = Ok e.
Proof.
  induction es as [|x es IH]; intros Hnd Hin; [contradiction|].
  cbn [topo_edge_in]. simpl in Hnd. inversion Hnd as [|? ? Hni Hnd']; subst.
  destruct Hin as [->|Hin].
  - now rewrite Z.eqb_refl.
  - destruct (Z.eqb_spec (re_id x) (re_id e)) as [E|_]; [|now apply IH].
    exfalso. apply Hni. rewrite E. now apply in_map.
Qed.

Lemma topo_edge_in_id es i e : topo_edge_in es i = Ok e -> re_id e = i /\ In e es.
Proof.
  induction es as [|x es IH]; [discriminate|]. cbn [topo_edge_in].
  destruct (Z.eqb_spec (re_id x) i) as [E|_].
  - intros [= ->]. split; [assumption|now left].
  - intros H. destruct (IH H). split; [assumption|now right].
Qed.

Lemma outgoing_member t n i : In i (topo_outgoing t n) ->
  exists e, In e (rt_edges t) /\ re_id e = i /\ re_orig e = Some n.
Proof.
  unfold topo_outgoing. rewrite set_of_In, in_map_iff. intros (e & Hid & Hin).
  unfold outgoing_from in Hin. apply filter_In in Hin. destruct Hin as [Hin Ho].
  exists e. repeat split; auto.
  destruct (re_orig e) as [m|]; [|discriminate]. simpl in Ho. apply Z.eqb_eq in Ho. now subst.
Qed.

(* ---------------------------------------------------------------- get_sibling_state_id is an involution *)
Theorem gen_sibling_involutive t s s' : wf_ids t ->
  gen_get_sibling_state_id t s = Ok s' -> gen_get_sibling_state_id t s' = Ok s /\ s <> s'.
Proof.
  intros Hwf. unfold gen_get_sibling_state_id.
  destruct (topo_edge t s) as [e|] eqn:He; [|discriminate]. cbn [bind].
  destruct (re_orig e) as [n|] eqn:Ho; [|discriminate].
  destruct (py_remove s (topo_outgoing t n)) as [r|] eqn:Hr; [|discriminate]. cbn [bind].
  destruct (negb (lenZ r =? 1)) eqn:Hlen; [discriminate|].
  destruct r as [|x [|y r]]; try discriminate. cbn [py_next_iter bind]. intros [= ->].
  destruct (remove_pair s s' _ (set_of_NoDup _) Hr) as (Hr' & Hin & Hne).
  destruct (outgoing_member t n s' Hin) as (e' & Hin' & Hid' & Ho').
  unfold topo_edge. rewrite <- Hid', (topo_edge_in_unique _ e' Hwf Hin'). cbn [bind].
  fold (topo_outgoing t n) in Hr'. rewrite Ho', Hid', Hr'. cbn [bind lenZ length]. simpl. split; [reflexivity|exact Hne].
Qed.

(* ---------------------------------------------------------------- exactly one of two siblings is the opposite-helicity state *)
Lemma lex_asym a : forall b, lex_ltb a b = true -> lex_ltb b a = false.
Proof.
  induction a as [|x a IH]; intros [|y b]; simpl; try congruence.
  destruct (Z.ltb_spec x y); destruct (Z.ltb_spec y x); try lia; try congruence. apply IH.
Qed.
Lemma lex_total a : forall b, lex_ltb a b = false -> lex_ltb b a = false -> a = b.
Proof.
  induction a as [|x a IH]; intros [|y b]; simpl; try congruence.
  destruct (Z.ltb_spec x y); destruct (Z.ltb_spec y x); try lia; try congruence.
  intros H1 H2. f_equal; [lia|now apply IH].
Qed.

Theorem gen_opposite_helicity_exclusive t s s' b : wf_ids t ->
  gen_get_sibling_state_id t s = Ok s' -> gen_is_opposite_helicity_state t s = Ok b ->
  exists a a', gen_determine_attached_final_state t s = Ok a /\
               gen_determine_attached_final_state t s' = Ok a' /\
               b = tuple_gtb a a' /\
               gen_is_opposite_helicity_state t s' = Ok (tuple_gtb a' a) /\
               (a <> a' -> tuple_gtb a' a = negb b).
Proof.
  intros Hwf Hs Hb. destruct (gen_sibling_involutive t s s' Hwf Hs) as [Hs' _].
  unfold gen_is_opposite_helicity_state in *. rewrite Hs in Hb. rewrite Hs'. cbn [bind] in *.
  destruct (gen_determine_attached_final_state t s) as [a|]; [|discriminate]. cbn [bind] in *.
  destruct (gen_determine_attached_final_state t s') as [a'|]; [|discriminate]. cbn [bind] in *.
  injection Hb as <-. exists a, a'. repeat split; auto.
  intros Hne. unfold tuple_gtb.
  destruct (lex_ltb a' a) eqn:E1; destruct (lex_ltb a a') eqn:E2; try reflexivity.
  - rewrite (lex_asym _ _ E1) in E2. discriminate.
  - exfalso. apply Hne. symmetry. now apply lex_total.
Qed.

(* ---------------------------------------------------------------- corollaries for half-integer spins *)
Definition spin_fuel (s2 : nat) : nat := (Z.to_nat (2 * Z.of_nat s2) + 2)%nat.

Lemma gen_spin_range_half s2 nz :
  gen_create_spin_range 2 (spin_fuel s2) (Z.of_nat s2) nz
  = match spin_range s2 nz with Some l => Ok l | None => Err EValue end.
Proof. unfold spin_fuel, spin_range. apply gen_create_spin_range_is_model; lia. Qed.

Lemma gen_spin_range_full s2 : gen_create_spin_range 2 (spin_fuel s2) (Z.of_nat s2) false = Ok (full_range s2).
Proof. rewrite gen_spin_range_half, spin_range_false_spec. reflexivity. Qed.

Lemma gen_spin_range_total s2 nz : exists l, gen_create_spin_range 2 (spin_fuel s2) (Z.of_nat s2) nz = Ok l.
Proof. rewrite gen_spin_range_half. destruct (spin_range_total s2 nz) as [l ->]. now exists l. Qed.

(* ---------------------------------------------------------------- list_decay_chain_ids: a chain of parent links *)
Fixpoint chain_ok (t : rtopo) (l : list Z) : Prop :=
  match l with
  | [] => False
  | a :: r => match r with
              | [] => gen_get_parent_id t a = Ok None
              | b :: _ => gen_get_parent_id t a = Ok (Some b) /\ chain_ok t r
              end
  end.

Lemma gen_chain_loop_spec t s0 : forall (fuel : nat) acc cur res c',
  gen_list_decay_chain_ids_loop1 fuel t s0 acc (Some cur) = Ok (res, c') ->
  c' = None /\ exists tail, res = acc ++ cur :: tail /\ chain_ok t (cur :: tail).
Proof.
  induction fuel as [|f IH]; intros acc cur res c' H; [discriminate|].
  cbn [gen_list_decay_chain_ids_loop1] in H.
  destruct (gen_get_parent_id t cur) as [[p|]|] eqn:Hp; cbn [bind] in H; [| |discriminate].
  - destruct (IH _ _ _ _ H) as (-> & tail & -> & Hc). split; [reflexivity|].
    exists (p :: tail). rewrite <- app_assoc. split; [reflexivity|].
    cbn [chain_ok]. split; [exact Hp|exact Hc].
  - destruct f as [|f']; [discriminate|]. cbn [gen_list_decay_chain_ids_loop1] in H.
    injection H as <- <-. split; [reflexivity|]. exists []. split; [reflexivity|exact Hp].
Qed.

Theorem gen_decay_chain_links fuel t s l :
  gen_list_decay_chain_ids fuel t s = Ok l -> exists tail, l = s :: tail /\ chain_ok t l.
Proof.
  unfold gen_list_decay_chain_ids. destruct (gen_assert_isobar_topology t); [|discriminate]. cbn [bind].
  destruct (gen_list_decay_chain_ids_loop1 fuel t s [] (Some s)) as [[res c']|] eqn:H; [|discriminate].
  cbn [bind]. intros [= <-]. destruct (gen_chain_loop_spec _ _ _ _ _ _ _ H) as (_ & tail & -> & Hc).
  exists tail. split; [reflexivity|exact Hc].
Qed.

(* more fuel never changes a result *)
Lemma gen_chain_loop_mono t s0 : forall (fuel : nat) acc cur r,
  gen_list_decay_chain_ids_loop1 fuel t s0 acc cur = Ok r ->
  gen_list_decay_chain_ids_loop1 (S fuel) t s0 acc cur = Ok r.
Proof.
  induction fuel as [|f IH]; intros acc cur r H; [discriminate|].
  cbn [gen_list_decay_chain_ids_loop1] in H.
  change (gen_list_decay_chain_ids_loop1 (S (S f)) t s0 acc cur) with
    (match cur with
     | Some c => let parent_list := acc ++ [c] in
                 bind (gen_get_parent_id t c) (fun t2_ => let current_id := t2_ in
                   gen_list_decay_chain_ids_loop1 (S f) t s0 parent_list current_id)
     | None => Ok (acc, cur)
     end).
  destruct cur as [c|]; [|exact H].
  cbv zeta in *. destruct (gen_get_parent_id t c) as [q|]; [|discriminate]. cbn [bind] in *.
  apply IH. exact H.
Qed.

Theorem gen_decay_chain_fuel_irrelevant t s l : forall fuel fuel',
  (fuel <= fuel')%nat -> gen_list_decay_chain_ids fuel t s = Ok l -> gen_list_decay_chain_ids fuel' t s = Ok l.
Proof.
  intros fuel fuel' Hle. induction Hle as [|m Hle IH]; [auto|].
  intros H. specialize (IH H). unfold gen_list_decay_chain_ids in *.
  destruct (gen_assert_isobar_topology t); [|discriminate]. cbn [bind] in *.
  destruct (gen_list_decay_chain_ids_loop1 m t s [] (Some s)) as [r|] eqn:E; [|discriminate].
  rewrite (gen_chain_loop_mono _ _ _ _ _ _ E). exact IH.
Qed.

(* __get_boost_chain_ids = the decay chain reversed, without the initial state *)
Theorem gen_boost_chain_is_reversed_decay_chain fuel t s l :
  gen_get_boost_chain_ids fuel t s = Ok l ->
  exists chain i0, gen_list_decay_chain_ids fuel t s = Ok chain /\
                   topo_incoming_edge_ids t = [i0] /\ py_remove i0 (rev chain) = Ok l.
Proof.
  unfold gen_get_boost_chain_ids.
  destruct (gen_list_decay_chain_ids fuel t s) as [chain|]; [|discriminate]. cbn [bind].
  destruct (topo_incoming_edge_ids t) as [|i0 [|i1 r]]; try discriminate. cbn [py_next_iter bind].
  destruct (py_remove i0 (rev chain)) as [l'|] eqn:E; [|discriminate]. cbn [bind]. intros [= <-].
  exists chain, i0. repeat split; auto.
Qed.

(* ---------------------------------------------------------------- agreement with the hand model Kin.v on given topologies *)
Definition rb (r : res bool) (b : bool) : bool := res_eqb Bool.eqb r (Ok b).
Definition rl (r : res (list Z)) (l : list Z) : bool := res_eqb Kin.lZ_eqb r (Ok l).
Definition rz (r : res Z) (z : Z) : bool := res_eqb Z.eqb r (Ok z).

Fixpoint agrees_tree (t : rtopo) (tr : tree) : bool :=
  rl (gen_determine_attached_final_state t (eid tr)) (att tr) &&
  match tr with
  | Leaf _ => true
  | Node _ a b =>
      rz (gen_get_sibling_state_id t (eid a)) (eid b) && rz (gen_get_sibling_state_id t (eid b)) (eid a) &&
      rb (gen_is_opposite_helicity_state t (eid a)) (is_opp a b) &&
      rb (gen_is_opposite_helicity_state t (eid b)) (is_opp b a) &&
      res_eqb Kin.oZ_eqb (gen_get_parent_id t (eid a)) (Ok (Some (eid tr))) &&
      res_eqb Kin.oZ_eqb (gen_get_parent_id t (eid b)) (Ok (Some (eid tr))) &&
      agrees_tree t a && agrees_tree t b
  end.
Definition agrees_with_Kin (t : rtopo) : bool :=
  match tree_of_topo t with
  | None => false
  | Some tr => res_eqb unit_eqb (gen_assert_isobar_topology t) (Ok tt) && agrees_tree t tr
  end.

(* ---------------------------------------------------------------- refinement: graph-level code vs the isobar tree *)
Inductive embeds (es : list redge) : redge -> tree -> Prop :=
| emb_leaf e : In e es -> re_end e = None -> embeds es e (Leaf (re_id e))
| emb_node e n p c1 c2 a b : In e es -> re_end e = Some n ->
    ingoing_to es n = [p] -> outgoing_from es n = [c1; c2] ->
    embeds es c1 a -> embeds es c2 b -> embeds es e (Node (re_id e) a b).

Lemma embeds_eid es e tr : embeds es e tr -> eid tr = re_id e.
Proof. destruct 1; reflexivity. Qed.

Lemma outgoing_In es n c : In c (outgoing_from es n) -> In c es /\ re_orig c = Some n.
Proof.
  unfold outgoing_from. rewrite filter_In. intros [Hin Ho]. split; [exact Hin|].
  destruct (re_orig c) as [m|]; [|discriminate]. simpl in Ho. apply Z.eqb_eq in Ho. now subst.
Qed.

Lemma build_embeds es : forall f e tr, In e es -> build f es e = Some tr -> embeds es e tr.
Proof.
  induction f as [|f IH]; intros e tr Hin H; [discriminate|].
  cbn [build] in H. destruct (re_end e) as [n|] eqn:He.
  - destruct (ingoing_to es n) as [|p [|? ?]] eqn:Hi; try discriminate.
    destruct (outgoing_from es n) as [|c1 [|c2 [|? ?]]] eqn:Ho; try discriminate.
    destruct (build f es c1) as [a|] eqn:Ha; [|discriminate].
    destruct (build f es c2) as [b|] eqn:Hb; [|discriminate].
    injection H as <-.
    assert (H1 : In c1 es) by (apply (outgoing_In es n); rewrite Ho; now left).
    assert (H2 : In c2 es) by (apply (outgoing_In es n); rewrite Ho; right; now left).
    eapply emb_node; eauto.
  - injection H as <-. now apply emb_leaf.
Qed.

Lemma tree_of_topo_embeds t tr : tree_of_topo t = Some tr ->
  exists e0, In e0 (rt_edges t) /\ re_orig e0 = None /\ embeds (rt_edges t) e0 tr.
Proof.
  unfold tree_of_topo.
  destruct (filter (fun e => oZ_eqb (re_orig e) None) (rt_edges t)) as [|e0 [|? ?]] eqn:Hf; try discriminate.
  assert (Hin : In e0 (filter (fun e => oZ_eqb (re_orig e) None) (rt_edges t))) by (rewrite Hf; now left).
  apply filter_In in Hin. destruct Hin as [Hin Ho].
  destruct (re_end e0) eqn:He; [|discriminate]. intros H.
  exists e0. repeat split; auto.
  - destruct (re_orig e0); [discriminate|reflexivity].
  - eapply build_embeds; eauto.
Qed.

(* ids of a filtered sublist stay distinct *)
Lemma NoDup_map_filter (f : redge -> bool) es : NoDup (map re_id es) -> NoDup (map re_id (filter f es)).
Proof.
  induction es as [|x es IH]; simpl; intros H; [constructor|].
  inversion H as [|? ? Hni Hnd]; subst. destruct (f x); simpl; [|now apply IH].
  constructor; [|now apply IH]. intros Hin. apply Hni.
  apply in_map_iff in Hin. destruct Hin as (y & Hy & Hyin). apply filter_In in Hyin.
  apply in_map_iff. exists y. tauto.
Qed.

Lemma set_of_pair x y : x <> y -> py_remove x (set_of [x; y]) = Ok [y] /\ py_remove y (set_of [x; y]) = Ok [x].
Proof.
  intros Hne. unfold set_of. cbn [Kin.sort Kin.insert].
  destruct (Z.leb_spec x y) as [Hle|Hgt]; cbn [dedup_sorted].
  - destruct (Z.eqb_spec x y); [contradiction|]. cbn [py_remove].
    rewrite Z.eqb_refl. destruct (Z.eqb_spec x y); [contradiction|]. rewrite Z.eqb_refl. cbn [bind]. split; reflexivity.
  - destruct (Z.eqb_spec y x); [congruence|]. cbn [py_remove].
    rewrite Z.eqb_refl. destruct (Z.eqb_spec y x); [congruence|]. rewrite Z.eqb_refl. cbn [bind]. split; reflexivity.
Qed.

(* the two edges leaving a two-body node are each other's sibling, and the edge entering it is their parent *)
Theorem gen_node_links t n p c1 c2 : wf_ids t ->
  ingoing_to (rt_edges t) n = [p] -> outgoing_from (rt_edges t) n = [c1; c2] ->
  gen_get_sibling_state_id t (re_id c1) = Ok (re_id c2) /\ gen_get_sibling_state_id t (re_id c2) = Ok (re_id c1) /\
  gen_get_parent_id t (re_id c1) = Ok (Some (re_id p)) /\ gen_get_parent_id t (re_id c2) = Ok (Some (re_id p)).
Proof.
  intros Hwf Hi Ho.
  assert (H1 : In c1 (rt_edges t) /\ re_orig c1 = Some n) by (apply outgoing_In; rewrite Ho; now left).
  assert (H2 : In c2 (rt_edges t) /\ re_orig c2 = Some n) by (apply outgoing_In; rewrite Ho; right; now left).
  destruct H1 as [I1 O1], H2 as [I2 O2].
  assert (Hne : re_id c1 <> re_id c2).
  { pose proof (NoDup_map_filter (fun e => oZ_eqb (re_orig e) (Some n)) _ Hwf) as Hnd.
    fold (outgoing_from (rt_edges t) n) in Hnd. rewrite Ho in Hnd. simpl in Hnd.
    inversion Hnd as [|? ? Hni _]; subst. intros E. apply Hni. now left. }
  assert (Hout : topo_outgoing t n = set_of [re_id c1; re_id c2]) by (unfold topo_outgoing; now rewrite Ho).
  assert (Hing : topo_ingoing t n = [re_id p]) by (unfold topo_ingoing; now rewrite Hi).
  destruct (set_of_pair _ _ Hne) as [R1 R2].
  unfold gen_get_sibling_state_id, gen_get_parent_id, topo_edge.
  rewrite (topo_edge_in_unique _ c1 Hwf I1), (topo_edge_in_unique _ c2 Hwf I2). cbn [bind].
  rewrite O1, O2, Hout, R1, R2, Hing. cbn. repeat split; reflexivity.
Qed.

Fixpoint tree_links (t : rtopo) (tr : tree) : Prop :=
  match tr with
  | Leaf _ => True
  | Node i a b =>
      gen_get_sibling_state_id t (eid a) = Ok (eid b) /\ gen_get_sibling_state_id t (eid b) = Ok (eid a) /\
      gen_get_parent_id t (eid a) = Ok (Some i) /\ gen_get_parent_id t (eid b) = Ok (Some i) /\
      tree_links t a /\ tree_links t b
  end.

Lemma embeds_links t : wf_ids t -> forall e tr, embeds (rt_edges t) e tr -> tree_links t tr.
Proof.
  intros Hwf e tr H. induction H as [e Hin He | e n p c1 c2 a b Hin He Hi Ho Ha IHa Hb IHb]; [exact I|].
  cbn [tree_links]. rewrite (embeds_eid _ _ _ Ha), (embeds_eid _ _ _ Hb).
  assert (Hp : p = e).
  { assert (Hm : In e (ingoing_to (rt_edges t) n)).
    { unfold ingoing_to. apply filter_In. split; [exact Hin|]. rewrite He. simpl. apply Z.eqb_refl. }
    rewrite Hi in Hm. destruct Hm as [->|[]]. reflexivity. }
  subst p. destruct (gen_node_links t n e c1 c2 Hwf Hi Ho) as (S1 & S2 & P1 & P2).
  repeat split; assumption.
Qed.

(** every node of the isobar tree read off a topology with distinct edge ids: the translated code pairs exactly its
    two children as siblings and names the node's own edge as their parent *)
Theorem gen_links_refine_tree t tr : wf_ids t -> tree_of_topo t = Some tr -> tree_links t tr.
Proof.
  intros Hwf H. destruct (tree_of_topo_embeds _ _ H) as (e0 & _ & _ & He). eapply embeds_links; eauto.
Qed.

(** the opposite-helicity flag of the code is the tuple comparison of whatever the code attaches to the two siblings *)
Theorem gen_opposite_is_tuple_comparison t x y ax ay :
  gen_get_sibling_state_id t x = Ok y -> gen_determine_attached_final_state t x = Ok ax ->
  gen_determine_attached_final_state t y = Ok ay -> gen_is_opposite_helicity_state t x = Ok (lex_ltb ay ax).
Proof.
  intros Hs Hx Hy. unfold gen_is_opposite_helicity_state. rewrite Hs. cbn [bind]. rewrite Hx. cbn [bind].
  rewrite Hy. reflexivity.
Qed.

Fixpoint height (tr : tree) : nat :=
  match tr with Leaf _ => O | Node _ a b => S (Nat.max (height a) (height b)) end.

Lemma build_height es : forall f e tr, build f es e = Some tr -> (height tr < f)%nat.
Proof.
  induction f as [|f IH]; intros e tr H; [discriminate|].
  cbn [build] in H. destruct (re_end e) as [n|].
  - destruct (ingoing_to es n) as [|p [|? ?]]; try discriminate.
    destruct (outgoing_from es n) as [|c1 [|c2 [|? ?]]]; try discriminate.
    destruct (build f es c1) as [a|] eqn:Ha; [|discriminate].
    destruct (build f es c2) as [b|] eqn:Hb; [|discriminate].
    injection H as <-. apply IH in Ha. apply IH in Hb. cbn [height]. lia.
  - injection H as <-. cbn [height]. lia.
Qed.

Lemma wf_edge_eq es e e' : NoDup (map re_id es) -> In e es -> In e' es -> re_id e = re_id e' -> e = e'.
Proof.
  intros Hnd H1 H2 Hid.
  pose proof (topo_edge_in_unique es e Hnd H1) as A. pose proof (topo_edge_in_unique es e' Hnd H2) as B.
  rewrite Hid in A. rewrite A in B. now injection B.
Qed.

Lemma embeds_fun es e : forall tr, embeds es e tr -> forall tr', embeds es e tr' -> tr = tr'.
Proof.
  intros tr H. induction H as [e Hin He | e n p c1 c2 a b Hin He Hi Ho Ha IHa Hb IHb]; intros tr' H'.
  - inversion H' as [? ? ? | ? n' ? ? ? ? ? ? He']; subst; [reflexivity|congruence].
  - inversion H' as [? ? He' | ? n' p' d1 d2 a' b' ? He' Hi' Ho' Ha' Hb']; subst; [congruence|].
    assert (n' = n) by congruence. subst n'. rewrite Ho in Ho'. injection Ho' as <- <-.
    f_equal; [now apply IHa|now apply IHb].
Qed.

Lemma memZ_In x l : memZ x l = true <-> In x l.
Proof.
  unfold memZ. rewrite existsb_exists. split.
  - intros (y & Hy & E). apply Z.eqb_eq in E. now subst.
  - intros H. exists x. split; [exact H|apply Z.eqb_refl].
Qed.

Lemma is_final_spec t e : wf_ids t -> In e (rt_edges t) ->
  (memZ (re_id e) (topo_outgoing_edge_ids t) = true <-> re_end e = None).
Proof.
  intros Hwf Hin. rewrite memZ_In. unfold topo_outgoing_edge_ids. rewrite set_of_In, in_map_iff. split.
  - intros (e' & Hid & Hf). apply filter_In in Hf. destruct Hf as [Hin' Hend].
    assert (e' = e) by (eapply wf_edge_eq; eauto). subst e'.
    destruct (re_end e); [discriminate|reflexivity].
  - intros He. exists e. split; [reflexivity|]. apply filter_In. split; [exact Hin|]. now rewrite He.
Qed.

Definition frontier_ok (t : rtopo) (fuel : nat) (ids : list Z) : Prop :=
  forall i, In i ids -> exists e tr, In e (rt_edges t) /\ re_id e = i /\ embeds (rt_edges t) e tr /\ (height tr < fuel)%nat.

Lemma next_level_spec t e n c1 c2 : wf_ids t -> In e (rt_edges t) -> re_end e = Some n ->
  outgoing_from (rt_edges t) n = [c1; c2] ->
  forall j, In j (next_level t (re_id e)) <-> j = re_id c1 \/ j = re_id c2.
Proof.
  intros Hwf Hin He Ho j. unfold next_level, topo_edge. rewrite (topo_edge_in_unique _ e Hwf Hin), He.
  unfold topo_outgoing. rewrite Ho, set_of_In. simpl. intuition.
Qed.

Lemma bfs_spec t : wf_ids t -> forall fuel ids, frontier_ok t fuel ids ->
  forall x, In x (orig_fs fuel t ids) <->
            exists i e tr, In i ids /\ In e (rt_edges t) /\ re_id e = i /\ embeds (rt_edges t) e tr /\ In x (leaves tr).
Proof.
  intros Hwf. induction fuel as [|f IH]; intros ids Hok x.
  - cbn [orig_fs]. split; [contradiction|]. intros (i & e & tr & Hi & _).
    destruct (Hok i Hi) as (? & ? & _ & _ & _ & Hh). lia.
  - cbn [orig_fs]. destruct ids as [|i0 ids0] eqn:Hids.
    { split; [contradiction|]. intros (i & e & tr & [] & _). }
    rewrite <- Hids in *. clear Hids i0 ids0.
    set (fs := topo_outgoing_edge_ids t).
    assert (Hok' : frontier_ok t f (flat_map (next_level t) (filter (fun i => negb (memZ i fs)) ids))).
    { intros j Hj. apply in_flat_map in Hj. destruct Hj as (i & Hi & Hj). apply filter_In in Hi.
      destruct Hi as [Hi Hnf]. destruct (Hok i Hi) as (e & tr & Hin & Hid & Hemb & Hh). subst i.
      inversion Hemb as [? ? He | ? n p c1 c2 a b ? He Hing Ho Ha Hb]; subst.
      - exfalso. apply (is_final_spec t e Hwf Hin) in He. unfold fs in Hnf. rewrite He in Hnf. discriminate.
      - apply (next_level_spec t e n c1 c2 Hwf Hin He Ho) in Hj. cbn [height] in Hh.
        destruct (outgoing_In (rt_edges t) n c1) as [I1 _]; [rewrite Ho; now left|].
        destruct (outgoing_In (rt_edges t) n c2) as [I2 _]; [rewrite Ho; right; now left|].
        destruct Hj as [->| ->]; [exists c1, a|exists c2, b]; repeat split; auto; lia. }
    rewrite in_app_iff, (IH _ Hok' x). split.
    + intros [Hx|(j & e' & tr' & Hj & Hin' & Hid' & Hemb' & Hx)].
      * apply filter_In in Hx. destruct Hx as [Hx Hfin]. destruct (Hok x Hx) as (e & tr & Hin & Hid & Hemb & _).
        exists x, e, tr. repeat split; auto. subst x. apply (is_final_spec t e Hwf Hin) in Hfin.
        inversion Hemb; subst; [now left|congruence].
      * apply in_flat_map in Hj. destruct Hj as (i & Hi & Hj). apply filter_In in Hi. destruct Hi as [Hi Hnf].
        destruct (Hok i Hi) as (e & tr & Hin & Hid & Hemb & _). subst i.
        inversion Hemb as [? ? He | ? n p c1 c2 a b ? He Hing Ho Ha Hb]; subst.
        -- exfalso. apply (is_final_spec t e Hwf Hin) in He. unfold fs in Hnf. rewrite He in Hnf. discriminate.
        -- exists (re_id e), e, (Node (re_id e) a b). repeat split; auto.
           apply (next_level_spec t e n c1 c2 Hwf Hin He Ho) in Hj.
           destruct (outgoing_In (rt_edges t) n c1) as [I1 _]; [rewrite Ho; now left|].
           destruct (outgoing_In (rt_edges t) n c2) as [I2 _]; [rewrite Ho; right; now left|].
           cbn [leaves]. apply in_app_iff.
           destruct Hj as [Hj|Hj].
           ++ left. assert (e' = c1) by (eapply wf_edge_eq; eauto). subst e'.
              now rewrite (embeds_fun _ _ _ Ha _ Hemb').
           ++ right. assert (e' = c2) by (eapply wf_edge_eq; eauto). subst e'.
              now rewrite (embeds_fun _ _ _ Hb _ Hemb').
    + intros (i & e & tr & Hi & Hin & Hid & Hemb & Hx). subst i.
      inversion Hemb as [? ? He | ? n p c1 c2 a b ? He Hing Ho Ha Hb]; subst.
      * left. cbn [leaves] in Hx. destruct Hx as [<-|[]]. apply filter_In. split; [exact Hi|].
        now apply (is_final_spec t e Hwf Hin).
      * right. cbn [leaves] in Hx. apply in_app_iff in Hx.
        destruct (outgoing_In (rt_edges t) n c1) as [I1 _]; [rewrite Ho; now left|].
        destruct (outgoing_In (rt_edges t) n c2) as [I2 _]; [rewrite Ho; right; now left|].
        assert (Hnf : negb (memZ (re_id e) fs) = true).
        { destruct (memZ (re_id e) fs) eqn:E; [|reflexivity].
          apply (is_final_spec t e Hwf Hin) in E. congruence. }
        assert (Hfl : forall c, c = c1 \/ c = c2 ->
                  In (re_id c) (flat_map (next_level t) (filter (fun i => negb (memZ i fs)) ids))).
        { intros c Hc. apply in_flat_map. exists (re_id e). split; [apply filter_In; now split|].
          apply (next_level_spec t e n c1 c2 Hwf Hin He Ho). destruct Hc as [->| ->]; auto. }
        destruct Hx as [Hx|Hx]; [exists (re_id c1), c1, a|exists (re_id c2), c2, b]; repeat split; auto.
Qed.

Lemma sorted_perm_eq : forall l l', StronglySorted Z.le l -> StronglySorted Z.le l' -> Permutation l l' -> l = l'.
Proof.
  induction l as [|x l IH]; intros l' Hs Hs' Hp.
  - apply Permutation_nil in Hp. now subst.
  - destruct l' as [|y l']; [apply Permutation_sym, Permutation_nil in Hp; discriminate|].
    inversion Hs as [|? ? Hs1 Hx]; subst. inversion Hs' as [|? ? Hs2 Hy]; subst.
    rewrite Forall_forall in Hx, Hy.
    assert (x = y).
    { assert (A : In y (x :: l)) by (eapply Permutation_in; [symmetry; exact Hp|now left]).
      assert (B : In x (y :: l')) by (eapply Permutation_in; [exact Hp|now left]).
      destruct A as [->|A]; [reflexivity|]. destruct B as [->|B]; [reflexivity|].
      specialize (Hx _ A). specialize (Hy _ B). lia. }
    subst y. f_equal. apply IH; auto. eapply Permutation_cons_inv; eauto.
Qed.

Lemma NoDup_app_l (l m : list Z) : NoDup (l ++ m) -> NoDup l.
Proof.
  induction l as [|x l IH]; simpl; intros H; [constructor|].
  inversion H as [|? ? Hni Hnd]; subst. constructor; [|now apply IH].
  intros Hin. apply Hni. apply in_app_iff. now left.
Qed.
Lemma NoDup_app_r (l m : list Z) : NoDup (l ++ m) -> NoDup m.
Proof. induction l as [|x l IH]; simpl; intros H; [exact H|]. inversion H; subst. now apply IH. Qed.

Lemma set_sort_eq L M : (forall x, In x L <-> In x M) -> NoDup M -> Kin.sort (set_of L) = Kin.sort M.
Proof.
  intros Hiff Hnd. apply sorted_perm_eq; try apply sort_sorted.
  rewrite !sort_perm. apply NoDup_Permutation; [apply set_of_NoDup|exact Hnd|].
  intros x. rewrite set_of_In. apply Hiff.
Qed.

(** determine_attached_final_state of the code = sorted leaves of the subtree, at every embedded edge *)
Theorem gen_att_refines t e tr : wf_ids t -> embeds (rt_edges t) e tr -> NoDup (leaves tr) ->
  (height tr <= length (rt_edges t))%nat ->
  gen_determine_attached_final_state t (re_id e) = Ok (att tr).
Proof.
  intros Hwf Hemb Hnd Hh. unfold gen_determine_attached_final_state, topo_edge.
  inversion Hemb as [? Hin He | ? n p c1 c2 a b Hin He Hing Ho Ha Hb]; subst;
    rewrite (topo_edge_in_unique _ e Hwf Hin); cbn [bind]; rewrite He; [reflexivity|].
  cbn [att]. f_equal. unfold topo_originating_fs. apply set_sort_eq; [|exact Hnd].
  destruct (outgoing_In (rt_edges t) n c1) as [I1 _]; [rewrite Ho; now left|].
  destruct (outgoing_In (rt_edges t) n c2) as [I2 _]; [rewrite Ho; right; now left|].
  assert (Hout : forall j, In j (topo_outgoing t n) <-> j = re_id c1 \/ j = re_id c2).
  { intros j. unfold topo_outgoing. rewrite Ho, set_of_In. simpl. intuition. }
  cbn [height] in Hh.
  assert (Hok : frontier_ok t (S (length (rt_edges t))) (topo_outgoing t n)).
  { intros j Hj. apply Hout in Hj. destruct Hj as [->| ->]; [exists c1, a|exists c2, b]; repeat split; auto; lia. }
  intros x. rewrite (bfs_spec t Hwf _ _ Hok x). cbn [leaves]. rewrite in_app_iff. split.
  - intros (i & e' & tr' & Hi & Hin' & Hid' & Hemb' & Hx). apply Hout in Hi. subst i.
    destruct Hi as [Hi|Hi].
    + left. assert (e' = c1) by (eapply wf_edge_eq; eauto). subst e'. now rewrite (embeds_fun _ _ _ Ha _ Hemb').
    + right. assert (e' = c2) by (eapply wf_edge_eq; eauto). subst e'. now rewrite (embeds_fun _ _ _ Hb _ Hemb').
  - intros [Hx|Hx]; [exists (re_id c1), c1, a|exists (re_id c2), c2, b]; repeat split; auto; apply Hout; auto.
Qed.

(* the whole tree *)
Fixpoint tree_agrees (t : rtopo) (tr : tree) : Prop :=
  gen_determine_attached_final_state t (eid tr) = Ok (att tr) /\
  match tr with
  | Leaf _ => True
  | Node i a b =>
      gen_get_sibling_state_id t (eid a) = Ok (eid b) /\ gen_get_sibling_state_id t (eid b) = Ok (eid a) /\
      gen_get_parent_id t (eid a) = Ok (Some i) /\ gen_get_parent_id t (eid b) = Ok (Some i) /\
      gen_is_opposite_helicity_state t (eid a) = Ok (is_opp a b) /\
      gen_is_opposite_helicity_state t (eid b) = Ok (is_opp b a) /\
      tree_agrees t a /\ tree_agrees t b
  end.

Lemma tree_agrees_att t tr : tree_agrees t tr -> gen_determine_attached_final_state t (eid tr) = Ok (att tr).
Proof. destruct tr; cbn [tree_agrees]; tauto. Qed.

Lemma embeds_agrees t : wf_ids t -> forall e tr, embeds (rt_edges t) e tr -> NoDup (leaves tr) ->
  (height tr <= length (rt_edges t))%nat -> tree_agrees t tr.
Proof.
  intros Hwf e tr H. induction H as [e Hin He | e n p c1 c2 a b Hin He Hi Ho Ha IHa Hb IHb]; intros Hnd Hh.
  - cbn [tree_agrees eid]. split; [|exact I].
    apply (gen_att_refines t e (Leaf (re_id e)) Hwf); auto. now apply emb_leaf.
  - assert (Hemb : embeds (rt_edges t) e (Node (re_id e) a b)) by (eapply emb_node; eauto).
    cbn [leaves] in Hnd. cbn [height] in Hh.
    assert (Hna : NoDup (leaves a)) by (eapply NoDup_app_l; eauto).
    assert (Hnb : NoDup (leaves b)) by (eapply NoDup_app_r; eauto).
    specialize (IHa Hna ltac:(lia)). specialize (IHb Hnb ltac:(lia)).
    pose proof (embeds_links t Hwf _ _ Hemb) as L. cbn [tree_links] in L.
    destruct L as (S1 & S2 & P1 & P2 & _ & _).
    pose proof (tree_agrees_att _ _ IHa) as Aa. pose proof (tree_agrees_att _ _ IHb) as Ab.
    cbn [tree_agrees]. split; [|repeat split; auto].
    + change (eid (Node (re_id e) a b)) with (re_id e).
      apply (gen_att_refines t e _ Hwf Hemb); cbn [leaves height]; auto.
    + unfold is_opp. now apply gen_opposite_is_tuple_comparison with (y := eid b).
    + unfold is_opp. now apply gen_opposite_is_tuple_comparison with (y := eid a).
Qed.

(** UNIVERSAL refinement: on every topology with distinct edge ids whose isobar tree [tree_of_topo] exists and has
    distinct leaves, the translated helpers agree with the hand model Kin.v at every node. *)
Theorem gen_helpers_refine_Kin t tr : wf_ids t -> tree_of_topo t = Some tr -> NoDup (leaves tr) -> tree_agrees t tr.
Proof.
  intros Hwf H Hnd. destruct (tree_of_topo_embeds _ _ H) as (e0 & Hin & _ & Hemb).
  apply (embeds_agrees t Hwf e0 tr Hemb Hnd).
  unfold tree_of_topo in H.
  destruct (filter (fun e => oZ_eqb (re_orig e) None) (rt_edges t)) as [|x [|? ?]]; try discriminate.
  destruct (re_end x); [|discriminate]. apply build_height in H. lia.
Qed.

(* ---------------------------------------------------------------- the decay chain is the path to the root of the tree *)
Fixpoint path_up (tr : tree) (x : Z) : option (list Z) :=
  match tr with
  | Leaf i => if i =? x then Some [i] else None
  | Node i a b =>
      if i =? x then Some [i] else
      match path_up a x with
      | Some p => Some (p ++ [i])
      | None => match path_up b x with Some p => Some (p ++ [i]) | None => None end
      end
  end.

Fixpoint linked (t : rtopo) (l : list Z) : Prop :=
  match l with
  | [] => False
  | a :: r => match r with [] => True | b :: _ => gen_get_parent_id t a = Ok (Some b) /\ linked t r end
  end.

Lemma linked_snoc t : forall l i, linked t l -> gen_get_parent_id t (last l 0) = Ok (Some i) -> linked t (l ++ [i]).
Proof.
  induction l as [|a r IH]; intros i Hl Hp; [contradiction|].
  destruct r as [|b r'].
  - cbn in *. split; [exact Hp|exact I].
  - cbn [linked] in Hl. destruct Hl as [H1 H2].
    change ((a :: b :: r') ++ [i]) with (a :: ((b :: r') ++ [i])).
    assert (Hx : linked t ((b :: r') ++ [i])) by (apply IH; [exact H2|exact Hp]).
    cbn [linked app] in *. split; [exact H1|exact Hx].
Qed.

Lemma last_snoc (l : list Z) i : last (l ++ [i]) 0 = i.
Proof. induction l as [|a [|b r] IH]; cbn in *; auto. Qed.

Lemma path_up_spec t : forall tr x p, tree_links t tr -> path_up tr x = Some p ->
  hd 0 p = x /\ last p 0 = eid tr /\ linked t p.
Proof.
  induction tr as [i | i a IHa b IHb]; intros x p Hl H; cbn [path_up] in H.
  - destruct (Z.eqb_spec i x); [|discriminate]. injection H as <-. subst. cbn. auto.
  - destruct (Z.eqb_spec i x); [injection H as <-; subst; cbn; auto|].
    cbn [tree_links] in Hl. destruct Hl as (_ & _ & Pa & Pb & La & Lb).
    destruct (path_up a x) as [pa|] eqn:Ea.
    + injection H as <-. destruct (IHa x pa La Ea) as (Hh & Hla & Hlk).
      repeat split.
      * destruct pa; [contradiction|exact Hh].
      * apply last_snoc.
      * apply linked_snoc; [exact Hlk|]. rewrite Hla. exact Pa.
    + destruct (path_up b x) as [pb|] eqn:Eb; [|discriminate]. injection H as <-.
      destruct (IHb x pb Lb Eb) as (Hh & Hlb & Hlk).
      repeat split.
      * destruct pb; [contradiction|exact Hh].
      * apply last_snoc.
      * apply linked_snoc; [exact Hlk|]. rewrite Hlb. exact Pb.
Qed.

Lemma linked_chain_ok t : forall l, linked t l -> gen_get_parent_id t (last l 0) = Ok None -> chain_ok t l.
Proof.
  induction l as [|a r IH]; intros Hl Hp; [contradiction|].
  destruct r as [|b r']; [exact Hp|].
  cbn [linked] in Hl. destruct Hl as [H1 H2]. cbn [chain_ok]. split; [exact H1|].
  apply IH; [exact H2|exact Hp].
Qed.

(* with enough fuel the translated loop returns THE chain *)
Lemma gen_chain_loop_complete t s0 : forall l x, chain_ok t (x :: l) -> forall fuel acc,
  (length l + 1 < fuel)%nat -> gen_list_decay_chain_ids_loop1 fuel t s0 acc (Some x) = Ok (acc ++ x :: l, None).
Proof.
  induction l as [|y l IH]; intros x Hc fuel acc Hf.
  - destruct fuel as [|[|f]]; try (cbn in Hf; lia). cbn [chain_ok] in Hc.
    cbn [gen_list_decay_chain_ids_loop1]. rewrite Hc. cbn [bind]. reflexivity.
  - destruct fuel as [|f]; [lia|]. cbn [chain_ok] in Hc. destruct Hc as [Hp Hc].
    cbn [gen_list_decay_chain_ids_loop1]. rewrite Hp. cbn [bind].
    rewrite (IH y Hc f (acc ++ [x])) by (cbn [length] in Hf; lia).
    rewrite <- app_assoc. reflexivity.
Qed.

Theorem gen_decay_chain_is_tree_path t tr x p fuel : wf_ids t -> tree_of_topo t = Some tr ->
  gen_assert_isobar_topology t = Ok tt -> path_up tr x = Some p -> (length p < fuel)%nat ->
  gen_list_decay_chain_ids fuel t x = Ok p.
Proof.
  intros Hwf Ht Ha Hp Hf.
  destruct (tree_of_topo_embeds _ _ Ht) as (e0 & Hin & Ho & Hemb).
  pose proof (embeds_links t Hwf _ _ Hemb) as Hl.
  destruct (path_up_spec t tr x p Hl Hp) as (Hh & Hla & Hlk).
  assert (Hroot : gen_get_parent_id t (eid tr) = Ok None).
  { rewrite (embeds_eid _ _ _ Hemb). unfold gen_get_parent_id, topo_edge.
    rewrite (topo_edge_in_unique _ e0 Hwf Hin). cbn [bind]. now rewrite Ho. }
  assert (Hc : chain_ok t p) by (apply linked_chain_ok; [exact Hlk|now rewrite Hla]).
  destruct p as [|x' l]; [contradiction|]. cbn in Hh. subst x'.
  unfold gen_list_decay_chain_ids. rewrite Ha. cbn [bind].
  rewrite (gen_chain_loop_complete t x l x Hc fuel []) by (cbn [length] in Hf; lia).
  reflexivity.
Qed.

(* ---------------------------------------------------------------- three-body helpers (DPD): spectator and decay products *)
Lemma lZ_eqb_eq : forall a b, Kin.lZ_eqb a b = true -> a = b.
Proof.
  induction a as [|x a IH]; intros [|y b]; simpl; try discriminate; [reflexivity|].
  intros H. apply andb_prop in H. destruct H as [H1 H2]. apply Z.eqb_eq in H1. subst. f_equal. now apply IH.
Qed.

Lemma memZ_In' x l : PyTopo.memZ x l = true <-> In x l.
Proof.
  unfold PyTopo.memZ. rewrite existsb_exists. split.
  - intros (y & Hy & E). apply Z.eqb_eq in E. now subst.
  - intros H. exists x. split; [exact H|apply Z.eqb_refl].
Qed.

Theorem gen_spectator_spec t s : gen_get_spectator_id t = Ok s ->
  topo_incoming_edge_ids t = [0] /\ topo_outgoing_edge_ids t = [1; 2; 3] /\
  In s [1; 2; 3] /\ ~ In s (topo_outgoing t 1) /\
  (forall x, In x [1; 2; 3] -> ~ In x (topo_outgoing t 1) -> x = s) /\
  gen_get_decay_product_ids t = Ok (Kin.sort (topo_outgoing t 1)).
Proof.
  unfold gen_get_spectator_id, gen_get_decay_product_ids, gen_assert_three_body_decay.
  cbv zeta.
  destruct (negb (lenZ (topo_incoming_edge_ids t) =? 1) || negb (lenZ (topo_outgoing_edge_ids t) =? 3)); [discriminate|].
  destruct (Kin.lZ_eqb (topo_incoming_edge_ids t) (set_of [0])) eqn:E0; [|discriminate].
  destruct (Kin.lZ_eqb (topo_outgoing_edge_ids t) (set_of [1; 2; 3])) eqn:E1; [|discriminate].
  cbn [negb orb bind]. apply lZ_eqb_eq in E0. apply lZ_eqb_eq in E1.
  change (set_of [0]) with [0] in E0. change (set_of [1; 2; 3]) with [1; 2; 3] in E1.
  rewrite E1. intros H.
  destruct (set_diff [1; 2; 3] (topo_outgoing t 1)) as [|y [|z r]] eqn:Ed; try discriminate.
  cbn [py_next_iter bind] in H. injection H as <-.
  assert (Hs : forall x, In x [y] <-> In x [1; 2; 3] /\ ~ In x (topo_outgoing t 1)).
  { intros x. rewrite <- Ed. unfold set_diff. rewrite filter_In. rewrite negb_true_iff.
    split; intros [A B]; split; auto.
    - intros C. apply memZ_In' in C. congruence.
    - destruct (PyTopo.memZ x (topo_outgoing t 1)) eqn:M; [|reflexivity]. apply memZ_In' in M. contradiction. }
  destruct (proj1 (Hs y) (or_introl eq_refl)) as [A B].
  repeat split; auto.
  intros x Hx Hn. destruct (proj2 (Hs x) (conj Hx Hn)) as [->|[]]. reflexivity.
Qed.

(* decidable form of the hypotheses, for the non-vacuity example *)
Fixpoint nodupb (l : list Z) : bool := match l with [] => true | x :: r => negb (memZ x r) && nodupb r end.
Definition refine_hyps_ok (t : rtopo) : bool :=
  nodupb (map re_id (rt_edges t)) && match tree_of_topo t with Some tr => nodupb (leaves tr) | None => false end.

Lemma nodupb_NoDup l : nodupb l = true -> NoDup l.
Proof.
  induction l as [|x r IH]; cbn [nodupb]; intros H; [constructor|].
  apply andb_prop in H. destruct H as [H1 H2]. constructor; [|now apply IH].
  intros Hin. apply negb_true_iff in H1.
  assert (E : PyTopo.memZ x r = true).
  { unfold PyTopo.memZ. apply existsb_exists. exists x. split; [exact Hin|apply Z.eqb_refl]. }
  unfold PyTopo.memZ, Spin.memZ in *. congruence.
Qed.

(** the hypotheses of the refinement are decidable: for a concrete topology the agreement follows by evaluating a boolean *)
Theorem gen_refinement_by_computation t : refine_hyps_ok t = true ->
  exists tr, tree_of_topo t = Some tr /\ tree_agrees t tr.
Proof.
  unfold refine_hyps_ok. intros H. apply andb_prop in H. destruct H as [H1 H2].
  destruct (tree_of_topo t) as [tr|] eqn:E; [|discriminate].
  exists tr. split; [reflexivity|].
  apply gen_helpers_refine_Kin; [exact (nodupb_NoDup _ H1)|exact E|exact (nodupb_NoDup _ H2)].
Qed.

Lemma rev_last_head (p : list Z) : p <> [] -> rev p = last p 0 :: rev (removelast p).
Proof.
  intros Hne. rewrite (app_removelast_last 0 Hne) at 1. rewrite rev_app_distr. reflexivity.
Qed.

(** closed form of __get_boost_chain_ids on the isobar tree: the path from the root to the state, top-down, without the
    root edge (the initial state) *)
Theorem gen_boost_chain_is_tree_path t tr x p fuel : wf_ids t -> tree_of_topo t = Some tr ->
  gen_assert_isobar_topology t = Ok tt -> path_up tr x = Some p -> (length p < fuel)%nat ->
  gen_get_boost_chain_ids fuel t x = Ok (rev (removelast p)).
Proof.
  intros Hwf Ht Ha Hp Hf.
  pose proof (gen_decay_chain_is_tree_path t tr x p fuel Hwf Ht Ha Hp Hf) as Hc.
  destruct (tree_of_topo_embeds _ _ Ht) as (e0 & Hin & Ho & Hemb).
  pose proof (embeds_links t Hwf _ _ Hemb) as Hl.
  destruct (path_up_spec t tr x p Hl Hp) as (_ & Hla & Hlk).
  assert (Hne : p <> []) by (destruct p; [contradiction|discriminate]).
  assert (Hinc : topo_incoming_edge_ids t = [eid tr]).
  { unfold topo_incoming_edge_ids. unfold tree_of_topo in Ht.
    destruct (filter (fun e => oZ_eqb (re_orig e) None) (rt_edges t)) as [|y [|? ?]] eqn:Hfl; try discriminate.
    destruct (re_end y) eqn:Hey; [|discriminate].
    assert (Hy : embeds (rt_edges t) y tr).
    { eapply build_embeds; [|exact Ht].
      assert (In y (filter (fun e => oZ_eqb (re_orig e) None) (rt_edges t))) by (rewrite Hfl; now left).
      apply filter_In in H. tauto. }
    rewrite (embeds_eid _ _ _ Hy). reflexivity. }
  unfold gen_get_boost_chain_ids. rewrite Hc. cbn [bind]. rewrite Hinc. cbn [py_next_iter bind].
  rewrite (rev_last_head p Hne), Hla. cbn [py_remove]. rewrite Z.eqb_refl. reflexivity.
Qed.

Lemma att_perm tr : Permutation (att tr) (leaves tr).
Proof. destruct tr; cbn [att leaves]; [reflexivity|apply sort_perm]. Qed.

Lemma leaves_nonempty tr : leaves tr <> [].
Proof.
  induction tr as [i|i a IHa b IHb]; cbn [leaves]; [discriminate|].
  destruct (leaves a); [contradiction|discriminate].
Qed.

Lemma tree_eq_leaf0 (tr : tree) : tr = Leaf 0 \/ tr <> Leaf 0.
Proof. destruct tr as [i|i a b]; [destruct (Z.eq_dec i 0) as [->|]; [now left|right; congruence]|right; discriminate]. Qed.

Lemma is_opp_leaf0 s : (forall x, In x (leaves s) -> 0 < x) -> is_opp (Leaf 0) s = false.
Proof.
  intros Hpos. unfold is_opp. cbn [att].
  assert (Hall : forall x, In x (att s) -> 0 < x).
  { intros x Hx. apply Hpos. eapply Permutation_in; [apply att_perm|exact Hx]. }
  destruct (att s) as [|h r] eqn:E.
  - exfalso. apply (leaves_nonempty s). apply Permutation_nil. rewrite <- E. apply att_perm.
  - cbn [lex_ltb]. specialize (Hall h (or_introl eq_refl)).
    destruct (Z.ltb_spec h 0); [lia|]. destruct (Z.ltb_spec 0 h); [reflexivity|lia].
Qed.

(** docstring rule 1 of is_opposite_helicity_state ("state 0 is never an opposite helicity state"), for the code *)
Theorem gen_state_zero_never_opposite t : forall tr, tree_agrees t tr -> NoDup (leaves tr) ->
  (forall x, In x (leaves tr) -> 0 <= x) -> In 0 (leaves tr) -> tr <> Leaf 0 ->
  gen_is_opposite_helicity_state t 0 = Ok false.
Proof.
  induction tr as [i|i a IHa b IHb]; intros Hag Hnd Hpos Hin Hne.
  - cbn [leaves] in Hin. destruct Hin as [->|[]]. contradiction.
  - cbn [tree_agrees] in Hag. destruct Hag as (_ & _ & _ & _ & _ & Oa & Ob & Aa & Ab).
    cbn [leaves] in *.
    assert (Hna : NoDup (leaves a)) by (eapply NoDup_app_l; eauto).
    assert (Hnb : NoDup (leaves b)) by (eapply NoDup_app_r; eauto).
    assert (Hdis : forall x, In x (leaves a) -> In x (leaves b) -> False).
    { intros x Ha Hb. revert Hnd. clear -Ha Hb. induction (leaves a) as [|y l IH]; [contradiction|].
      simpl. intros H. inversion H as [|? ? Hni Hnd]; subst. destruct Ha as [->|Ha]; [|now apply IH].
      apply Hni. apply in_app_iff. now right. }
    apply in_app_iff in Hin.
    destruct (tree_eq_leaf0 a) as [Ea|Ea]; [| destruct (tree_eq_leaf0 b) as [Eb|Eb]].
    + subst a. cbn [eid] in Oa. rewrite Oa. f_equal. apply is_opp_leaf0.
      intros x Hx. assert (0 <= x) by (apply Hpos; apply in_app_iff; now right).
      assert (x <> 0) by (intros ->; apply (Hdis 0); [now left|exact Hx]). lia.
    + subst b. cbn [eid] in Ob. rewrite Ob. f_equal. apply is_opp_leaf0.
      intros x Hx. assert (0 <= x) by (apply Hpos; apply in_app_iff; now left).
      assert (x <> 0) by (intros ->; apply (Hdis 0); [exact Hx|now left]). lia.
    + destruct Hin as [Hin|Hin].
      * apply IHa; auto. intros x Hx. apply Hpos. apply in_app_iff. now left.
      * apply IHb; auto. intros x Hx. apply Hpos. apply in_app_iff. now right.
Qed.

Theorem gen_state_zero_never_opposite_topo t tr : wf_ids t -> tree_of_topo t = Some tr -> NoDup (leaves tr) ->
  (forall x, In x (leaves tr) -> 0 <= x) -> In 0 (leaves tr) -> tr <> Leaf 0 ->
  gen_is_opposite_helicity_state t 0 = Ok false.
Proof.
  intros Hwf Ht Hnd. apply gen_state_zero_never_opposite; [|exact Hnd].
  exact (gen_helpers_refine_Kin t tr Hwf Ht Hnd).
Qed.

Lemma spin_loop_fuel hi u : 0 < u -> forall (f1 f2 : nat) p,
  (Z.to_nat (hi - p + 1) < f1)%nat -> (Z.to_nat (hi - p + 1) < f2)%nat -> spin_loop f1 p hi u = spin_loop f2 p hi u.
Proof.
  intros Hu. induction f1 as [|f1 IH]; intros f2 p H1 H2; [lia|].
  destruct f2 as [|f2]; [lia|]. cbn [spin_loop].
  destruct (Z.leb_spec p hi); [|reflexivity]. f_equal. apply IH; lia.
Qed.

(** more fuel than 2n+2 never changes what the translated create_spin_range returns *)
Theorem gen_spin_range_fuel_irrelevant u n nz fuel : 0 < u -> 0 <= n -> (Z.to_nat (2 * n) + 2 <= fuel)%nat ->
  gen_create_spin_range u fuel n nz = gen_create_spin_range u (Z.to_nat (2 * n) + 2) n nz.
Proof.
  intros Hu Hn Hf. unfold gen_create_spin_range.
  destruct (gen_loop_spec u n nz n Hu fuel (- n) []) as [p1 H1]; [lia|].
  destruct (gen_loop_spec u n nz n Hu (Z.to_nat (2 * n) + 2) (- n) []) as [p2 H2]; [lia|].
  rewrite H1, H2. cbn [bind app].
  rewrite (spin_loop_fuel n u Hu fuel (Z.to_nat (2 * n) + 2) (- n)) by lia. reflexivity.
Qed.
