(** Helpers_lemmas.v — proofs about the definitions that bridge/trans_helpers.py TRANSLATES from the current source
    text (Gen_helpers.v).  A change of the source changes these proof obligations. *)
From Coq Require Import ZArith List Bool Lia Permutation Sorted.
From AV Require Import Kin PyTopo Spin Spin_proofs.
From AVchk Require Import Gen_helpers.
Import ListNotations.
Open Scope Z_scope.
Lemma memZ_same x l : PyTopo.memZ x l = Spin.memZ x l.
Proof. reflexivity. Qed.

Lemma py_remove_first x l :
  py_remove x l = match remove_first x l with Some t => Ok t | None => Err EValue end.
Proof.
  induction l as [|y t IH]; simpl; [reflexivity|].
  destruct (y =? x); [reflexivity|]. rewrite IH. destruct (remove_first x t); reflexivity.
Qed.

(* the generated while loop, with enough fuel, appends exactly Spin.spin_loop *)
Lemma gen_loop_spec u sm nz hi : 0 < u -> forall (fuel : nat) p acc,
  (Z.to_nat (hi - p + 1) < fuel)%nat ->
  exists p', gen_create_spin_range_loop1 u fuel sm nz hi p acc = Ok (p', acc ++ spin_loop fuel p hi u).
Proof.
  intros Hu. induction fuel as [|f IH]; intros p acc Hf; [lia|].
  cbn [gen_create_spin_range_loop1 spin_loop].
  destruct (p <=? hi) eqn:Hle.
  - apply Z.leb_le in Hle.
    destruct (p =? - (0 * u)) eqn:E; cbn [bind]; replace (1 * u) with u by lia.
    + apply Z.eqb_eq in E. assert (Hz : p = 0) by lia. subst p.
      destruct (IH (0 + u) (acc ++ [0])) as [p' Hp']; [lia|].
      exists p'. rewrite Hp', <- app_assoc. reflexivity.
    + destruct (IH (p + u) (acc ++ [p])) as [p' Hp']; [lia|].
      exists p'. rewrite Hp', <- app_assoc. reflexivity.
  - exists p. rewrite app_nil_r. reflexivity.
Qed.

Theorem gen_create_spin_range_is_model u n nz : 0 < u -> 0 <= n ->
  gen_create_spin_range u (Z.to_nat (2 * n) + 2) n nz
  = match spin_range_u u n nz with Some l => Ok l | None => Err EValue end.
Proof.
  intros Hu Hn. unfold gen_create_spin_range, spin_range_u, spin_projections.
  destruct (gen_loop_spec u n nz n Hu (Z.to_nat (2 * n) + 2) (- n) []) as [p' Hp']; [lia|].
  rewrite Hp'. cbn [bind app].
  set (l := spin_loop (Z.to_nat (2 * n) + 2) (- n) n u).
  replace (0 * u) with 0 by lia.
  replace (1 <? lenZ l) with (1 <? length l)%nat.
  2:{ unfold lenZ. destruct (Nat.ltb_spec 1 (length l)); destruct (Z.ltb_spec 1 (Z.of_nat (length l))); lia. }
  rewrite memZ_same.
  destruct (nz && (1 <? length l)%nat && Spin.memZ 0 l); cbn [bind]; [|reflexivity].
  rewrite py_remove_first. destruct (remove_first 0 l); reflexivity.
Qed.

(* ---------------------------------------------------------------- sets as strictly sorted lists *)
Lemma insert_perm x l : Permutation (Kin.insert x l) (x :: l).
Proof.
  induction l as [|y l IH]; simpl; [reflexivity|].
  destruct (x <=? y); [reflexivity|]. rewrite IH. apply perm_swap.
Qed.
Lemma sort_perm l : Permutation (Kin.sort l) l.
Proof. induction l as [|x l IH]; simpl; [reflexivity|]. rewrite insert_perm. now constructor. Qed.

Lemma insert_sorted x l : StronglySorted Z.le l -> StronglySorted Z.le (Kin.insert x l).
Proof.
  induction 1 as [|y l Hs IH Hall]; simpl; [repeat constructor|].
  destruct (Z.leb_spec x y).
  - constructor; [constructor; assumption|]. constructor; [assumption|].
    eapply Forall_impl; [|exact Hall]. intros z Hz. lia.
  - constructor; [assumption|].
    eapply Permutation_Forall; [symmetry; apply insert_perm|].
    constructor; [lia|assumption].
Qed.
Lemma sort_sorted l : StronglySorted Z.le (Kin.sort l).
Proof. induction l; simpl; [constructor|now apply insert_sorted]. Qed.

Lemma dedup_In x l : In x (dedup_sorted l) <-> In x l.
Proof.
  induction l as [|y t IH]; [reflexivity|].
  cbn [dedup_sorted]. destruct t as [|z t']; [reflexivity|].
  destruct (Z.eqb_spec y z) as [->|Hne].
  - rewrite IH. simpl. tauto.
  - simpl in *. rewrite IH. tauto.
Qed.
Lemma dedup_strict l : StronglySorted Z.le l -> StronglySorted Z.lt (dedup_sorted l).
Proof.
  induction 1 as [|y t Hs IH Hall]; [constructor|].
  cbn [dedup_sorted]. destruct t as [|z t']; [repeat constructor|].
  destruct (Z.eqb_spec y z) as [->|Hne]; [exact IH|].
  constructor; [exact IH|].
  apply Forall_forall. intros w Hw.
  rewrite Forall_forall in Hall.
  assert (Hyz : y <= z) by (apply Hall; now left).
  apply (proj1 (dedup_In w (z :: t'))) in Hw. simpl in Hw. destruct Hw as [Hw|Hw]; [subst w; lia|].
  inversion Hs as [|? ? _ Hz]; subst. rewrite Forall_forall in Hz. specialize (Hz w Hw). lia.
Qed.

Lemma set_of_In x l : In x (set_of l) <-> In x l.
Proof.
  unfold set_of. rewrite dedup_In. split; intros H.
  - eapply Permutation_in; [apply sort_perm|exact H].
  - eapply Permutation_in; [symmetry; apply sort_perm|exact H].
Qed.
Lemma set_of_NoDup l : NoDup (set_of l).
Proof.
  unfold set_of. pose proof (dedup_strict _ (sort_sorted l)) as H.
  induction H as [|y t Hs IH Hall]; constructor; [|exact IH].
  intros Hin. rewrite Forall_forall in Hall. specialize (Hall y Hin). lia.
Qed.

(* ---------------------------------------------------------------- removing from a two-element set *)
Lemma remove_pair s s' l : NoDup l -> py_remove s l = Ok [s'] -> py_remove s' l = Ok [s] /\ In s' l /\ s <> s'.
Proof.
  intros Hnd H. destruct l as [|y t]; [discriminate|]. cbn [py_remove] in H.
  destruct (Z.eqb_spec y s) as [->|Hys].
  - injection H as ->. inversion Hnd as [|? ? Hni _]; subst.
    assert (s <> s') by (intros ->; apply Hni; now left).
    cbn [py_remove]. destruct (Z.eqb_spec s s'); [contradiction|].
    destruct (Z.eqb_spec s' s'); [|contradiction]. cbn [bind]. repeat split; auto. right; now left.
  - destruct (py_remove s t) as [t'|] eqn:Ht; [|discriminate]. cbn [bind] in H. injection H as -> ->.
    destruct t as [|z t2]; [discriminate|]. cbn [py_remove] in Ht.
    destruct (Z.eqb_spec z s) as [->|Hzs].
    + injection Ht as ->. cbn [py_remove]. destruct (Z.eqb_spec s' s'); [|contradiction].
      repeat split; auto. now left.
    + destruct (py_remove s t2); [|discriminate]. discriminate.
Qed.

(* ---------------------------------------------------------------- edge lookup with unique ids *)
Definition wf_ids (t : rtopo) : Prop := NoDup (map re_id (rt_edges t)).

Lemma topo_edge_in_unique es e : NoDup (map re_id es) -> In e es -> topo_edge_in es (re_id e) = Ok e.
Proof.
  induction es as [|x es IH]; intros Hnd Hin; [contradiction|].
  cbn [topo_edge_in]. simpl in Hnd. inversion Hnd as [|? ? Hni Hnd']; subst.
  destruct Hin as [->|Hin].
  - now rewrite Z.eqb_refl.
  - destruct (Z.eqb_spec (re_id x) (re_id e)) as [E|_]; [|now apply IH].
    exfalso. apply Hni. rewrite E. now apply in_map.
Qed.

Lemma topo_edge_in_id es i e : topo_edge_in es i = Ok e -> re_id e = i /\ In e es.
Proof.
  induction es as [|x es IH]; [discriminate|]. cbn [topo_edge_in].
  destruct (Z.eqb_spec (re_id x) i) as [E|_].
  - intros [= ->]. split; [assumption|now left].
  - intros H. destruct (IH H). split; [assumption|now right].
Qed.

Lemma outgoing_member t n i : In i (topo_outgoing t n) ->
  exists e, In e (rt_edges t) /\ re_id e = i /\ re_orig e = Some n.
Proof.
  unfold topo_outgoing. rewrite set_of_In, in_map_iff. intros (e & Hid & Hin).
  unfold outgoing_from in Hin. apply filter_In in Hin. destruct Hin as [Hin Ho].
  exists e. repeat split; auto.
  destruct (re_orig e) as [m|]; [|discriminate]. simpl in Ho. apply Z.eqb_eq in Ho. now subst.
Qed.

(* ---------------------------------------------------------------- get_sibling_state_id is an involution *)
Theorem gen_sibling_involutive t s s' : wf_ids t ->
  gen_get_sibling_state_id t s = Ok s' -> gen_get_sibling_state_id t s' = Ok s /\ s <> s'.
Proof.
  intros Hwf. unfold gen_get_sibling_state_id.
  destruct (topo_edge t s) as [e|] eqn:He; [|discriminate]. cbn [bind].
  destruct (re_orig e) as [n|] eqn:Ho; [|discriminate].
  destruct (py_remove s (topo_outgoing t n)) as [r|] eqn:Hr; [|discriminate]. cbn [bind].
  destruct (negb (lenZ r =? 1)) eqn:Hlen; [discriminate|].
  destruct r as [|x [|y r]]; try discriminate. cbn [py_next_iter bind]. intros [= ->].
  destruct (remove_pair s s' _ (set_of_NoDup _) Hr) as (Hr' & Hin & Hne).
  destruct (outgoing_member t n s' Hin) as (e' & Hin' & Hid' & Ho').
  unfold topo_edge. rewrite <- Hid', (topo_edge_in_unique _ e' Hwf Hin'). cbn [bind].
  fold (topo_outgoing t n) in Hr'. rewrite Ho', Hid', Hr'. cbn [bind lenZ length]. simpl. split; [reflexivity|exact Hne].
Qed.

(* ---------------------------------------------------------------- exactly one of two siblings is the opposite-helicity state *)
Lemma lex_asym a : forall b, lex_ltb a b = true -> lex_ltb b a = false.
Proof.
  induction a as [|x a IH]; intros [|y b]; simpl; try congruence.
  destruct (Z.ltb_spec x y); destruct (Z.ltb_spec y x); try lia; try congruence. apply IH.
Qed.
Lemma lex_total a : forall b, lex_ltb a b = false -> lex_ltb b a = false -> a = b.
Proof.
  induction a as [|x a IH]; intros [|y b]; simpl; try congruence.
  destruct (Z.ltb_spec x y); destruct (Z.ltb_spec y x); try lia; try congruence.
  intros H1 H2. f_equal; [lia|now apply IH].
Qed.

Theorem gen_opposite_helicity_exclusive t s s' b : wf_ids t ->
  gen_get_sibling_state_id t s = Ok s' -> gen_is_opposite_helicity_state t s = Ok b ->
  exists a a', gen_determine_attached_final_state t s = Ok a /\
               gen_determine_attached_final_state t s' = Ok a' /\
               b = tuple_gtb a a' /\
               gen_is_opposite_helicity_state t s' = Ok (tuple_gtb a' a) /\
               (a <> a' -> tuple_gtb a' a = negb b).
Proof.
  intros Hwf Hs Hb. destruct (gen_sibling_involutive t s s' Hwf Hs) as [Hs' _].
  unfold gen_is_opposite_helicity_state in *. rewrite Hs in Hb. rewrite Hs'. cbn [bind] in *.
  destruct (gen_determine_attached_final_state t s) as [a|]; [|discriminate]. cbn [bind] in *.
  destruct (gen_determine_attached_final_state t s') as [a'|]; [|discriminate]. cbn [bind] in *.
  injection Hb as <-. exists a, a'. repeat split; auto.
  intros Hne. unfold tuple_gtb.
  destruct (lex_ltb a' a) eqn:E1; destruct (lex_ltb a a') eqn:E2; try reflexivity.
  - rewrite (lex_asym _ _ E1) in E2. discriminate.
  - exfalso. apply Hne. symmetry. now apply lex_total.
Qed.

(* ---------------------------------------------------------------- corollaries for half-integer spins *)
Definition spin_fuel (s2 : nat) : nat := (Z.to_nat (2 * Z.of_nat s2) + 2)%nat.

Lemma gen_spin_range_half s2 nz :
  gen_create_spin_range 2 (spin_fuel s2) (Z.of_nat s2) nz
  = match spin_range s2 nz with Some l => Ok l | None => Err EValue end.
Proof. unfold spin_fuel, spin_range. apply gen_create_spin_range_is_model; lia. Qed.

Lemma gen_spin_range_full s2 : gen_create_spin_range 2 (spin_fuel s2) (Z.of_nat s2) false = Ok (full_range s2).
Proof. rewrite gen_spin_range_half, spin_range_false_spec. reflexivity. Qed.

Lemma gen_spin_range_total s2 nz : exists l, gen_create_spin_range 2 (spin_fuel s2) (Z.of_nat s2) nz = Ok l.
Proof. rewrite gen_spin_range_half. destruct (spin_range_total s2 nz) as [l ->]. now exists l. Qed.

(* ---------------------------------------------------------------- list_decay_chain_ids: a chain of parent links *)
Fixpoint chain_ok (t : rtopo) (l : list Z) : Prop :=
  match l with
  | [] => False
  | a :: r => match r with
              | [] => gen_get_parent_id t a = Ok None
              | b :: _ => gen_get_parent_id t a = Ok (Some b) /\ chain_ok t r
              end
  end.

Lemma gen_chain_loop_spec t s0 : forall (fuel : nat) acc cur res c',
  gen_list_decay_chain_ids_loop1 fuel t s0 acc (Some cur) = Ok (res, c') ->
  c' = None /\ exists tail, res = acc ++ cur :: tail /\ chain_ok t (cur :: tail).
Proof.
  induction fuel as [|f IH]; intros acc cur res c' H; [discriminate|].
  cbn [gen_list_decay_chain_ids_loop1] in H.
  destruct (gen_get_parent_id t cur) as [[p|]|] eqn:Hp; cbn [bind] in H; [| |discriminate].
  - destruct (IH _ _ _ _ H) as (-> & tail & -> & Hc). split; [reflexivity|].
    exists (p :: tail). rewrite <- app_assoc. split; [reflexivity|].
    cbn [chain_ok]. split; [exact Hp|exact Hc].
  - destruct f as [|f']; [discriminate|]. cbn [gen_list_decay_chain_ids_loop1] in H.
    injection H as <- <-. split; [reflexivity|]. exists []. split; [reflexivity|exact Hp].
Qed.

Theorem gen_decay_chain_links fuel t s l :
  gen_list_decay_chain_ids fuel t s = Ok l -> exists tail, l = s :: tail /\ chain_ok t l.
Proof.
  unfold gen_list_decay_chain_ids. destruct (gen_assert_isobar_topology t); [|discriminate]. cbn [bind].
  destruct (gen_list_decay_chain_ids_loop1 fuel t s [] (Some s)) as [[res c']|] eqn:H; [|discriminate].
  cbn [bind]. intros [= <-]. destruct (gen_chain_loop_spec _ _ _ _ _ _ _ H) as (_ & tail & -> & Hc).
  exists tail. split; [reflexivity|exact Hc].
Qed.

(* more fuel never changes a result *)
Lemma gen_chain_loop_mono t s0 : forall (fuel : nat) acc cur r,
  gen_list_decay_chain_ids_loop1 fuel t s0 acc cur = Ok r ->
  gen_list_decay_chain_ids_loop1 (S fuel) t s0 acc cur = Ok r.
Proof.
  induction fuel as [|f IH]; intros acc cur r H; [discriminate|].
  cbn [gen_list_decay_chain_ids_loop1] in H.
  change (gen_list_decay_chain_ids_loop1 (S (S f)) t s0 acc cur) with
    (match cur with
     | Some c => let parent_list := acc ++ [c] in
                 bind (gen_get_parent_id t c) (fun t2_ => let current_id := t2_ in
                   gen_list_decay_chain_ids_loop1 (S f) t s0 parent_list current_id)
     | None => Ok (acc, cur)
     end).
  destruct cur as [c|]; [|exact H].
  cbv zeta in *. destruct (gen_get_parent_id t c) as [q|]; [|discriminate]. cbn [bind] in *.
  apply IH. exact H.
Qed.

Theorem gen_decay_chain_fuel_irrelevant t s l : forall fuel fuel',
  (fuel <= fuel')%nat -> gen_list_decay_chain_ids fuel t s = Ok l -> gen_list_decay_chain_ids fuel' t s = Ok l.
Proof.
  intros fuel fuel' Hle. induction Hle as [|m Hle IH]; [auto|].
  intros H. specialize (IH H). unfold gen_list_decay_chain_ids in *.
  destruct (gen_assert_isobar_topology t); [|discriminate]. cbn [bind] in *.
  destruct (gen_list_decay_chain_ids_loop1 m t s [] (Some s)) as [r|] eqn:E; [|discriminate].
  rewrite (gen_chain_loop_mono _ _ _ _ _ _ E). exact IH.
Qed.

(* __get_boost_chain_ids = the decay chain reversed, without the initial state *)
Theorem gen_boost_chain_is_reversed_decay_chain fuel t s l :
  gen_get_boost_chain_ids fuel t s = Ok l ->
  exists chain i0, gen_list_decay_chain_ids fuel t s = Ok chain /\
                   topo_incoming_edge_ids t = [i0] /\ py_remove i0 (rev chain) = Ok l.
Proof.
  unfold gen_get_boost_chain_ids.
  destruct (gen_list_decay_chain_ids fuel t s) as [chain|]; [|discriminate]. cbn [bind].
  destruct (topo_incoming_edge_ids t) as [|i0 [|i1 r]]; try discriminate. cbn [py_next_iter bind].
  destruct (py_remove i0 (rev chain)) as [l'|] eqn:E; [|discriminate]. cbn [bind]. intros [= <-].
  exists chain, i0. repeat split; auto.
Qed.

(* ---------------------------------------------------------------- agreement with the hand model Kin.v on given topologies *)
Definition rb (r : res bool) (b : bool) : bool := res_eqb Bool.eqb r (Ok b).
Definition rl (r : res (list Z)) (l : list Z) : bool := res_eqb Kin.lZ_eqb r (Ok l).
Definition rz (r : res Z) (z : Z) : bool := res_eqb Z.eqb r (Ok z).

Fixpoint agrees_tree (t : rtopo) (tr : tree) : bool :=
  rl (gen_determine_attached_final_state t (eid tr)) (att tr) &&
  match tr with
  | Leaf _ => true
  | Node _ a b =>
      rz (gen_get_sibling_state_id t (eid a)) (eid b) && rz (gen_get_sibling_state_id t (eid b)) (eid a) &&
      rb (gen_is_opposite_helicity_state t (eid a)) (is_opp a b) &&
      rb (gen_is_opposite_helicity_state t (eid b)) (is_opp b a) &&
      res_eqb Kin.oZ_eqb (gen_get_parent_id t (eid a)) (Ok (Some (eid tr))) &&
      res_eqb Kin.oZ_eqb (gen_get_parent_id t (eid b)) (Ok (Some (eid tr))) &&
      agrees_tree t a && agrees_tree t b
  end.
Definition agrees_with_Kin (t : rtopo) : bool :=
  match tree_of_topo t with
  | None => false
  | Some tr => res_eqb unit_eqb (gen_assert_isobar_topology t) (Ok tt) && agrees_tree t tr
  end.
