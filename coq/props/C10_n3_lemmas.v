(* C10, 3 channels (thorough tier), non-relativistic P-vector only: SymPy does not finish the
   symbolic inverse of RelativisticPVector for 3 channels within 50 minutes. *)
From AV Require Import KMat.
From AVchk Require Import Gen_C10_n3.
Open Scope C_scope.

Definition v3_of (l : list C) : C * C * C := (nth 0 l 0, nth 1 l 0, nth 2 l 0).
Definition M3vec (m : M3) (v : C * C * C) : C * C * C :=
  let '(x, y, z) := v in
  (b00 m * x + b01 m * y + b02 m * z, b10 m * x + b11 m * y + b12 m * z, b20 m * x + b21 m * y + b22 m * z).
Lemma triple_eq {A} (a a' b b' c c' : A) : a = a' -> b = b' -> c = c' -> (a, b, c) = (a', b', c').
Proof. intros -> -> ->. reflexivity. Qed.
Definition den3 := cay_den M3 M3one M3add M3mul M3opp M3i.
Definition P3 (ρ : envC) : C * C * C := (csym ρ "P[0, 0]", csym ρ "P[1, 0]", csym ρ "P[2, 0]").
Definition wdV (ρ : envC) (l : list expr) : Prop := wdMC ρ [l].
Definition denV (ρ : envC) (l : list expr) : list C := map (denC ρ) l.

Lemma F_solves_nr_3 : forall ρ, wdV ρ gen_nr_F3 ->
  M3vec (den3 (K3 ρ)) (v3_of (denV ρ gen_nr_F3)) = P3 ρ.
Proof.
  intros [cs cf] H. unfold gen_nr_F3 in *. unfold wdV in H. dens_of H.
  cbv [denV v3_of nth map K3 P3 den3 M3vec cay_den sub]. denC_simpl.
  cbv [M3mul M3add M3opp M3one M3i b00 b01 b02 b10 b11 b12 b20 b21 b22]. name_dens.
  apply triple_eq; fld_close.
Qed.
