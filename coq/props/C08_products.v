(* C08 — the NumPy code generated for MatrixMultiplication / ArrayMultiplication chains
   (regenerated and symbolically executed on every run: Gen_C08prod) computes the ORDERED
   matrix product of its operands, every operand exactly once. *)
From AV Require Import DenR Mat.
From AVchk Require Import Gen_C08prod.
From Coq Require Import Lra.
Open Scope R_scope.

Fixpoint mprod (ms : list mat) : mat :=
  match ms with
  | [] => []
  | [m] => m
  | m :: r => mmul m (mprod r)
  end.

Definition matrix_product_ok (c : list (list expr) * list (list (list expr))) : Prop :=
  forall ρ, denM ρ (fst c) = mprod (map (denM ρ) (snd c)).
Definition array_product_ok (c : list expr * list (list (list expr)) * list expr) : Prop :=
  forall ρ, denV ρ (fst (fst c)) = mvec (mprod (map (denM ρ) (snd (fst c)))) (denV ρ (snd c)).

(* the operands are generic: pairwise distinct symbols, so that every tuple of real matrices is
   the denotation of the operands in some environment *)
Fixpoint sym_names (l : list expr) : option (list string) :=
  match l with
  | [] => Some []
  | Sym s :: r => option_map (cons s) (sym_names r)
  | _ => None
  end.
Fixpoint nodupb (l : list string) : bool :=
  match l with
  | [] => true
  | s :: r => negb (existsb (String.eqb s) r) && nodupb r
  end.
Definition generic_operands (ops : list (list (list expr))) (v : list expr) : bool :=
  match sym_names (concat (concat ops) ++ v) with
  | Some names => nodupb names
  | None => false
  end.

Ltac prod_case :=
  intro ρ; cbn [fst snd map mprod];
  cbv [denM denV mmul mvec transpose map combine dot fold_right fst snd];
  cbv [denR appR map fold_right hd0 hd1];
  mat_eq; ring.

Lemma matrix_products_ok : Forall matrix_product_ok gen_matrix_products.
Proof. unfold gen_matrix_products. repeat (constructor; [prod_case|]). constructor. Qed.
Lemma array_products_ok : Forall array_product_ok gen_array_products.
Proof. unfold gen_array_products. repeat (constructor; [prod_case|]). constructor. Qed.

Lemma matrix_products_generic :
  forallb (fun c => generic_operands (snd c) []) gen_matrix_products = true.
Proof. vm_compute. reflexivity. Qed.
Lemma array_products_generic :
  forallb (fun c => generic_operands (snd (fst c)) (snd c)) gen_array_products = true.
Proof. vm_compute. reflexivity. Qed.

(* which chain lengths are covered (operands per case) *)
Definition chain_lengths_m := map (fun c => length (snd c)) gen_matrix_products.
Definition chain_lengths_a := map (fun c => S (length (snd (fst c)))) gen_array_products.
