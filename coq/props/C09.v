(* C09 — K-matrix amplitudes are unitary and symmetric: property theorems (statements only).
   The T-matrices gen_nr_T<n>, gen_rel_T<n>, gen_rel_That<n> and the pole parametrisations
   gen_nr_param, gen_rel_param are regenerated from /repo on every run (bridge/symgen_C09.py). *)
From AV Require Import KMat.
From AVchk Require Import Gen_C09 C09_lemmas.
Open Scope C_scope.

(* ---- 1. the algebra, for ALL matrix sizes at once: any ring with an anti-involution and a
        central imaginary unit (n x n complex matrices with conjugate-transpose / transpose) ---- *)
Theorem C09_cayley_unitary_all_n :
  forall (A : Type) (zero one : A) (add mul : A -> A -> A) (opp : A -> A),
  ring_ax A zero one add mul opp -> forall ii : A, imag_ax A one mul opp ii ->
  forall dag : A -> A, antiinv_ax A one add mul dag -> dag ii = opp ii ->
  forall K X T : A, dag K = K ->
  mul (cay_den A one add mul opp ii K) X = one -> mul X (cay_den A one add mul opp ii K) = one ->
  T = mul K X ->
  mul (dag (smat A one add mul ii T)) (smat A one add mul ii T) = one /\
  mul (smat A one add mul ii T) (dag (smat A one add mul ii T)) = one.
Proof. exact cayley_unitary. Qed.

Theorem C09_cayley_symmetric_all_n :
  forall (A : Type) (zero one : A) (add mul : A -> A -> A) (opp : A -> A),
  ring_ax A zero one add mul opp -> forall ii : A, imag_ax A one mul opp ii ->
  forall tr : A -> A, antiinv_ax A one add mul tr -> tr ii = ii ->
  forall K X T : A, tr K = K ->
  mul (cay_den A one add mul opp ii K) X = one -> mul X (cay_den A one add mul opp ii K) = one ->
  T = mul K X -> tr T = T.
Proof. exact cayley_symmetric. Qed.

(* relativistic convention of RelativisticKMatrix: That = Khat (1 - i rho Khat)^-1,
   T = r That r with rho = r r, r self-adjoint and symmetric *)
Theorem C09_cayley_unitary_rel_all_n :
  forall (A : Type) (zero one : A) (add mul : A -> A -> A) (opp : A -> A),
  ring_ax A zero one add mul opp -> forall ii : A, imag_ax A one mul opp ii ->
  forall dag tr : A -> A, antiinv_ax A one add mul dag -> dag ii = opp ii ->
  antiinv_ax A one add mul tr -> tr ii = ii ->
  forall r Kh Y That T : A, dag r = r -> tr r = r -> dag Kh = Kh -> tr Kh = Kh ->
  mul (cay_den A one add mul opp ii (mul (mul r r) Kh)) Y = one ->
  mul Y (cay_den A one add mul opp ii (mul (mul r r) Kh)) = one ->
  That = mul Kh Y -> T = mul (mul r That) r ->
  mul (dag (smat A one add mul ii T)) (smat A one add mul ii T) = one /\
  mul (smat A one add mul ii T) (dag (smat A one add mul ii T)) = one /\ tr T = T /\ tr That = That.
Proof. exact cayley_unitary_rel. Qed.

(* the hypotheses of the abstract theorems are satisfiable: 1x1, 2x2, 3x3 complex matrices *)
Example C09_matrix_rings_are_instances :
  (ring_ax C 0 1 Cplus Cmult Copp /\ imag_ax C 1 Cmult Copp Ci /\ antiinv_ax C 1 Cplus Cmult Cconj) /\
  (ring_ax M2 M2zero M2one M2add M2mul M2opp /\ imag_ax M2 M2one M2mul M2opp M2i /\
   antiinv_ax M2 M2one M2add M2mul M2dag /\ antiinv_ax M2 M2one M2add M2mul M2tr /\
   M2dag M2i = M2opp M2i /\ M2tr M2i = M2i) /\
  (ring_ax M3 M3zero M3one M3add M3mul M3opp /\ imag_ax M3 M3one M3mul M3opp M3i /\
   antiinv_ax M3 M3one M3add M3mul M3dag /\ antiinv_ax M3 M3one M3add M3mul M3tr /\
   M3dag M3i = M3opp M3i /\ M3tr M3i = M3i).
Proof.
  exact (conj (conj M1_ring (conj M1_imag M1_dag))
         (conj (conj M2_ring (conj M2_imag (conj M2_dag (conj M2_tr (conj M2_dag_i M2_tr_i)))))
               (conj M3_ring (conj M3_imag (conj M3_dag (conj M3_tr (conj M3_dag_i M3_tr_i))))))).
Qed.

(* ---- 2. the regenerated matrices satisfy the defining equations wherever they are defined
        (K arbitrary complex here): T (1 - iK) = K and (1 - iK) T = K ---- *)
Theorem C09_Tgen_defining_eq_1 : forall ρ, wdMC ρ gen_nr_T1 ->
  let T := m1_of (denMC ρ gen_nr_T1) in T * den1 (K1 ρ) = K1 ρ /\ den1 (K1 ρ) * T = K1 ρ.
Proof. exact nr_defining_1. Qed.
Theorem C09_Tgen_defining_eq_2 : forall ρ, wdMC ρ gen_nr_T2 ->
  let T := m2_of (denMC ρ gen_nr_T2) in
  M2mul T (den2 (K2 ρ)) = K2 ρ /\ M2mul (den2 (K2 ρ)) T = K2 ρ.
Proof. exact nr_defining_2. Qed.
Theorem C09_That_defining_eq_1 : forall ρ, wdMC ρ gen_rel_That1 ->
  let T := m1_of (denMC ρ gen_rel_That1) in
  T * den1 (rho1 ρ * K1 ρ) = K1 ρ /\ den1 (K1 ρ * rho1 ρ) * T = K1 ρ.
Proof. exact That_defining_1. Qed.
Theorem C09_That_defining_eq_2 : forall ρ, wdMC ρ gen_rel_That2 ->
  let T := m2_of (denMC ρ gen_rel_That2) in
  M2mul T (den2 (M2mul (rho2 ρ) (K2 ρ))) = K2 ρ /\ M2mul (den2 (M2mul (K2 ρ) (rho2 ρ))) T = K2 ρ.
Proof. exact That_defining_2. Qed.
(* T = conj(sqrt rho) That sqrt rho with the SAME rho symbols (any complex rho) *)
Theorem C09_Trel_factor_1 : forall ρ, wdMC ρ gen_rel_T1 ->
  m1_of (denMC ρ gen_rel_T1) = Cconj (Csqrt (rho1 ρ)) * m1_of (denMC ρ gen_rel_That1) * Csqrt (rho1 ρ).
Proof. exact Trel_factor_1. Qed.
Theorem C09_Trel_factor_2 : forall ρ, wdMC ρ gen_rel_T2 ->
  m2_of (denMC ρ gen_rel_T2)
  = M2mul (M2mul (sqrt_rho_conj2 ρ) (m2_of (denMC ρ gen_rel_That2))) (sqrt_rho2 ρ).
Proof. exact Trel_factor_2. Qed.

(* ---- 2b. hence, for K real symmetric (and rho_i > 0): S = 1 + 2iT unitary, T symmetric ---- *)
Theorem C09_Tgen_unitary_1 : forall ρ, wdMC ρ gen_nr_T1 -> Kreal1 ρ ->
  unitary1 (m1_of (denMC ρ gen_nr_T1)).
Proof. exact nr_unitary_1. Qed.
Theorem C09_Tgen_unitary_symmetric_2 : forall ρ, wdMC ρ gen_nr_T2 -> Kreal2 ρ ->
  let T := m2_of (denMC ρ gen_nr_T2) in unitary2 T /\ M2tr T = T.
Proof. exact nr_unitary_2. Qed.
Theorem C09_Trel_unitary_1 : forall ρ, wdMC ρ gen_rel_T1 -> wdMC ρ gen_rel_That1 ->
  Kreal1 ρ -> rho_pos1 ρ -> unitary1 (m1_of (denMC ρ gen_rel_T1)).
Proof. exact rel_unitary_1. Qed.
Theorem C09_Trel_unitary_symmetric_2 : forall ρ, wdMC ρ gen_rel_T2 -> wdMC ρ gen_rel_That2 ->
  Kreal2 ρ -> rho_pos2 ρ ->
  let T := m2_of (denMC ρ gen_rel_T2) in let Th := m2_of (denMC ρ gen_rel_That2) in
  unitary2 T /\ M2tr T = T /\ M2tr Th = Th.
Proof. exact rel_unitary_2. Qed.

(* ---- 3. the pole parametrisations, for EVERY number of poles n: with real masses >= 0, real
        residue constants, widths >= 0, s <> m_R^2 the generated Sum over (R, 1, n_poles) is defined,
        real, and K_ij = K_ji; for the relativistic one the EnergyDependentWidth node is an opaque
        function assumed real and >= 0 (width_real_nonneg). Channel indices 0..2. ---- *)
Theorem C09_K_param_real_symmetric_nr :
  forall s m G g ma mb L d f n, real_params s m G n ->
  Forall (real_symmetric s m G g ma mb L d f n) gen_nr_param.
Proof. exact nr_param_real_symmetric. Qed.
Theorem C09_K_param_real_symmetric_rel :
  forall s m G g ma mb L d f n, real_params s m G n -> width_real_nonneg f ->
  Forall (real_symmetric s m G g ma mb L d f n) gen_rel_param.
Proof. exact rel_param_real_symmetric. Qed.
Theorem C09_K_param_entries_covered :
  map (fun it => fst (fst it)) gen_nr_param
    = [(0,0);(0,1);(0,2);(1,0);(1,1);(1,2);(2,0);(2,1);(2,2)]%nat /\
  map (fun it => fst (fst it)) gen_rel_param
    = [(0,0);(0,1);(0,2);(1,0);(1,1);(1,2);(2,0);(2,1);(2,2)]%nat.
Proof. exact param_index_ok. Qed.

(* ---- end to end, 2 channels, any number of poles: K symbols bound to the library's own
        parametrisation ---- *)
Theorem C09_unitary_with_library_K_nr_2 :
  forall s m G g ma mb L d f n ρ,
  real_params s m G n -> K_bound (pole_env s m G g ma mb L d f) n gen_nr_param ρ ->
  wdMC ρ gen_nr_T2 ->
  let T := m2_of (denMC ρ gen_nr_T2) in unitary2 T /\ M2tr T = T.
Proof. exact nr_unitary_library_2. Qed.
Theorem C09_unitary_with_library_K_rel_2 :
  forall s m G g ma mb L d f n ρ,
  real_params s m G n -> width_real_nonneg f ->
  K_bound (pole_env s m G g ma mb L d f) n gen_rel_param ρ ->
  wdMC ρ gen_rel_T2 -> wdMC ρ gen_rel_That2 -> rho_pos2 ρ ->
  let T := m2_of (denMC ρ gen_rel_T2) in let Th := m2_of (denMC ρ gen_rel_That2) in
  unitary2 T /\ M2tr T = T /\ M2tr Th = Th.
Proof. exact rel_unitary_library_2. Qed.

(* ---- 3b. RelativisticKMatrix.formulate forwards the caller's phsp_factor, angular_momentum and
        meson_radius: in the results built with marker arguments (rhoX, Lx, dx; both flags, n = 1, 2,
        symbolic n_poles) every EnergyDependentWidth carries rhoX, Lx, dx, every phase-space node is
        rhoX(s, ., .), and the default PhaseSpaceFactor occurs nowhere ---- *)
Theorem C09_formulate_only_callers_arguments :
  forallb marked_ok gen_marked_rel = true /\
  map fst gen_marked_rel
  = ["return_t_hat=False/n=1"; "return_t_hat=False/n=2"; "return_t_hat=True/n=1"; "return_t_hat=True/n=2"]%string.
Proof. exact formulate_only_callers_arguments. Qed.

(* the same when the phase space is a plain FUNCTION and formulate was called before, in the same
   process, with ANOTHER function of the same qualified name (closures of one factory): after
   unfolding the widths one level only the caller's function rhoX occurs, never the earlier rhoDecoy *)
Theorem C09_formulate_history_only_callers_function :
  forallb hist_ok gen_marked_hist = true /\
  map fst gen_marked_hist
  = ["return_t_hat=False/n=1"; "return_t_hat=False/n=2"; "return_t_hat=True/n=1"; "return_t_hat=True/n=2"]%string.
Proof. exact formulate_history_only_callers_function. Qed.

(* ---- 3c. LIMIT OF THE UNITARITY THEOREMS.  They assume K real symmetric, which for the
        relativistic parametrisation rests on width_real_nonneg: every EnergyDependentWidth real and
        >= 0.  That hypothesis FAILS for a pole below a channel's threshold with PhaseSpaceFactor (the
        default) and PhaseSpaceFactorComplex: the width is normalised with rho(m_R^2), which is purely
        imaginary there.  On the regenerated width tree: if rho is real at s and purely imaginary at
        m0^2, the width is a non-zero purely imaginary number.  Then K is complex and S is not unitary
        although all parameters are real and s is above all thresholds (known finding
        kmatrix_subthreshold_pole_not_unitary, reproduced by bridge/search_C09.py on every run;
        PhaseSpaceFactorAbs with L = 0 stays unitary). ---- *)
Theorem C09_width_not_real_below_threshold_refuted :
  forall f s m0 g0 ma mb L d a b p q,
  g0 <> 0%R -> a <> 0%R -> b <> 0%R -> p <> 0%R -> q <> 0%R ->
  f "rhoX"%string [RtoC s; RtoC ma; RtoC mb] = RtoC a ->
  f "rhoX"%string [RtoC m0 * RtoC m0; RtoC ma; RtoC mb] = Ci * RtoC b ->
  f "FormFactor"%string [RtoC s; RtoC ma; RtoC mb; RtoC L; RtoC d] = RtoC p ->
  f "FormFactor"%string [RtoC m0 * RtoC m0; RtoC ma; RtoC mb; RtoC L; RtoC d] = RtoC q ->
  wdC (env_edw f s m0 g0 ma mb L d) gen_edw /\
  exists y : R, y <> 0%R /\ denC (env_edw f s m0 g0 ma mb L d) gen_edw = Ci * RtoC y.
Proof. exact width_imaginary_below_threshold. Qed.
Theorem C09_imaginary_is_not_real : forall y, y <> 0%R -> ~ isreal (Ci * RtoC y).
Proof. exact imaginary_not_real. Qed.

(* ---- 4. the hypotheses are satisfiable: a concrete 2-channel point K = [[1,2],[2,3]],
        rho = (1, 4), and a concrete 2-pole parameter set ---- *)
Example C09_example_point :
  wdMC ex_K gen_nr_T2 /\ wdMC ex_K gen_rel_That2 /\ wdMC ex_K gen_rel_T2 /\ Kreal2 ex_K /\ rho_pos2 ex_K.
Proof. exact ex_K_hyps. Qed.
Example C09_example_two_poles :
  real_params ex_s ex_m ex_G 2 /\ width_real_nonneg ex_f /\
  Forall (real_symmetric ex_s ex_m ex_G ex_g (fun _ => 0%R) (fun _ => 0%R) 0 1 ex_f 2) gen_nr_param /\
  Forall (real_symmetric ex_s ex_m ex_G ex_g (fun _ => 0%R) (fun _ => 0%R) 0 1 ex_f 2) gen_rel_param.
Proof. exact ex_param_hyps. Qed.

Print Assumptions C09_cayley_unitary_all_n.
Print Assumptions C09_cayley_symmetric_all_n.
Print Assumptions C09_cayley_unitary_rel_all_n.
Print Assumptions C09_matrix_rings_are_instances.
Print Assumptions C09_Tgen_defining_eq_1.
Print Assumptions C09_Tgen_defining_eq_2.
Print Assumptions C09_That_defining_eq_1.
Print Assumptions C09_That_defining_eq_2.
Print Assumptions C09_Trel_factor_1.
Print Assumptions C09_Trel_factor_2.
Print Assumptions C09_Tgen_unitary_1.
Print Assumptions C09_Tgen_unitary_symmetric_2.
Print Assumptions C09_Trel_unitary_1.
Print Assumptions C09_Trel_unitary_symmetric_2.
Print Assumptions C09_K_param_real_symmetric_nr.
Print Assumptions C09_K_param_real_symmetric_rel.
Print Assumptions C09_K_param_entries_covered.
Print Assumptions C09_formulate_only_callers_arguments.
Print Assumptions C09_formulate_history_only_callers_function.
Print Assumptions C09_width_not_real_below_threshold_refuted.
Print Assumptions C09_imaginary_is_not_real.
Print Assumptions C09_unitary_with_library_K_nr_2.
Print Assumptions C09_unitary_with_library_K_rel_2.
Print Assumptions C09_example_point.
Print Assumptions C09_example_two_poles.
