(* C18 — PoolSum denotes the finite sum over its index pools.
   Model: coq/theories/PoolSum.v (hand-written mirror of ampform.sympy.PoolSum and of the
   unfolding loop of HelicityModel.expression), tied to /repo by the correspondence run of
   runners/C18.py.  [den] interprets Add/Mul/Pow/function symbols in ANY structure [A : alg]
   whose sum has a right unit (every commutative ring; Pow and functions uninterpreted), and
     den r (PSum b [(i1,P1);..;(in,Pn)]) = SUM_{(v1..vn) in P1 x .. x Pn, row-major} den r[i1:=v1..in:=vn] b
   (theorem [poolsum_meaning]).  [wf e] is the hypothesis "values closed": in every PoolSum node
   the index symbols are distinct, pools are non-empty, and the pool values contain no PoolSum
   and no symbol used as a summation index by the node or inside its summand.
   All statements are for ANY summand, ANY number of indices, ANY nesting depth, pools with
   singletons and duplicates. *)
From Coq Require Import String List ZArith Bool Reals.
From AV Require Import PoolSum PoolSum_proofs.
From AVchk Require Import C18_lemmas.
Import ListNotations.
Open Scope string_scope.
Open Scope list_scope.

(* what a PoolSum means *)
Theorem poolsum_meaning : forall (A : alg) (r : string -> V A) b idx,
  den r (PSum b idx) =
  vsum (map (fun c => den (bind r (combine (names idx) (map (den r) c))) b) (product (pools idx))).
Proof. exact den_PSum. Qed.

(* the pools are LISTS of values: a repeated value, or two values that a substitution makes coincide,
   is summed over once per occurrence *)
Example pool_values_count_with_multiplicity :
  wf repeated_value /\
  evaluate repeated_value = Add [Pow (Sym "x") (Num 1 1); Pow (Sym "x") (Num 1 1)] /\
  forall (A : alg) (r : string -> V A),
    den r repeated_value =
    vadd A (vpow A (r "x") (vnum A 1 1)) (vadd A (vpow A (r "x") (vnum A 1 1)) (vzero A)).
Proof. exact repeated_value_ok. Qed.

Example pool_values_merged_by_substitution :
  wf merged_values /\
  subs1 "a" (Sym "b") merged_values = PSum (Pow (Sym "x") (Sym "i")) [("i", [Sym "b"; Sym "b"])] /\
  doit (subs1 "a" (Sym "b") merged_values) = Add [Pow (Sym "x") (Sym "b"); Pow (Sym "x") (Sym "b")].
Proof. exact merged_values_ok. Qed.

(* evaluate(): Add over itertools.product of the SEQUENTIALLY substituted summand is that sum *)
Theorem evaluate_is_sum : forall (A : alg) e (r : string -> V A),
  wf e -> den r (evaluate e) = den r e.
Proof. exact evaluate_den. Qed.

(* doit() (deep): same value, and no PoolSum is left, at any nesting depth *)
Theorem doit_is_sum : forall (A : alg) (r : string -> V A) e,
  wf e -> den r (doit e) = den r e /\ psum_freeb (doit e) = true.
Proof. exact doit_is_sum_l. Qed.

(* free_symbols = (symbols of the summand and of the pool values) minus the indices *)
Theorem free_symbols_spec : forall b idx s,
  In s (free_symbols (PSum b idx)) <->
  (In s (free_symbols b) \/ exists p v, In p idx /\ In v (snd p) /\ In s (free_symbols v))
  /\ ~ In s (names idx).
Proof. exact free_symbols_PSum. Qed.

(* ... and they are the symbols the value depends on *)
Theorem free_symbols_sound : forall (A : alg) (r r' : string -> V A) e,
  wf e -> (forall s, In s (free_symbols e) -> r s = r' s) -> den r e = den r' e.
Proof. exact C18_lemmas.free_symbols_sound. Qed.

(* substituting a summation index leaves the node syntactically unchanged (subs and xreplace) *)
Theorem subs_bound_noop : forall x v b idx,
  In x (names idx) -> subs1 x v (PSum b idx) = PSum b idx.
Proof. exact subs1_bound_noop. Qed.

Theorem subs_list_bound_noop : forall sg b idx,
  (forall k v, In (k, v) sg -> In k (names idx)) -> subs_seq sg (PSum b idx) = PSum b idx.
Proof. exact subs_seq_bound_noop. Qed.

Theorem xreplace_bound_noop : forall sg b idx,
  (forall k v, In (k, v) sg -> In k (names idx)) ->
  xreplace (map (fun kv => (Sym (fst kv), snd kv)) sg) (PSum b idx) = PSum b idx.
Proof. exact PoolSum_proofs.xreplace_bound_noop. Qed.

(* substituting a (capture-free) value commutes with evaluate() / doit(), and both equal the
   sum read with x := [[v]] *)
Theorem subs_free_commutes : forall (A : alg) (r : string -> V A) x v b idx,
  wf (PSum b idx) -> psum_freeb v = true ->
  (forall s, In s (fv v) -> ~ In s (binders (PSum b idx))) ->
  den r (evaluate (subs1 x v (PSum b idx))) = den r (subs1 x v (evaluate (PSum b idx))) /\
  den r (subs1 x v (evaluate (PSum b idx))) = den (upd r x (den r v)) (PSum b idx).
Proof. exact subs_evaluate_commute. Qed.

Theorem subs_free_commutes_doit : forall (A : alg) (r : string -> V A) x v e,
  wf e -> psum_freeb v = true -> (forall s, In s (fv v) -> ~ In s (binders e)) ->
  den r (doit (subs1 x v e)) = den r (subs1 x v (doit e)) /\
  den r (subs1 x v (doit e)) = den (upd r x (den r v)) e.
Proof. exact subs_doit_commute. Qed.

(* instance: a symbol FREE at this level and bound in a nested sum is substituted at this level only
   (PoolSum(j*PoolSum(x*i+j,(j,(1,2))),(i,(3,4))).subs(j,7)), and the result evaluates to the sum read
   with j := 7; a depth-3 nest whose outer index is used at depth 2 and re-bound at depth 3 evaluates
   to a PoolSum-free expression that mentions no index *)
Example subs_free_here_bound_deeper :
  wf free_here_bound_deeper /\
  subs1 "j" (Num 7 1) free_here_bound_deeper =
    PSum (Mul [Num 7 1; PSum (Add [Mul [Sym "x"; Sym "i"]; Sym "j"]) [("j", [Num 1 1; Num 2 1])]])
         [("i", [Num 3 1; Num 4 1])] /\
  forall (A : alg) (r : string -> V A),
    den r (doit (subs1 "j" (Num 7 1) free_here_bound_deeper)) =
    den (upd r "j" (vnum A 7 1)) free_here_bound_deeper.
Proof. exact free_here_bound_deeper_ok. Qed.

Example doit_depth3_rebound_index :
  wf depth3_rebound /\ psum_freeb (doit depth3_rebound) = true /\
  mem "i" (free_symbols (doit depth3_rebound)) = false /\
  mem "j" (free_symbols (doit depth3_rebound)) = false.
Proof. exact depth3_rebound_ok. Qed.

(* cleanup(): value unchanged if every index occurs in the summand ... *)
Theorem cleanup_preserves_if_used : forall (A : alg) (r : string -> V A) b idx,
  wf (PSum b idx) -> (forall i, In i (names idx) -> In i (free_symbols b)) ->
  den r (cleanup (PSum b idx)) = den r (PSum b idx).
Proof. exact cleanup_if_used. Qed.

(* ... more precisely: unchanged unless some index that does NOT occur in the summand has a
   pool of size <> 1 *)
Theorem cleanup_preserves_unless_unused_nonsingleton : forall (A : alg) b idx (r : string -> V A),
  wf (PSum b idx) ->
  (forall p, In p idx -> In (fst p) (free_symbols b) \/ length (snd p) = 1) ->
  den r (cleanup (PSum b idx)) = den r (PSum b idx).
Proof. exact cleanup_den. Qed.

(* the index test of cleanup is on the ORIGINAL summand: PoolSum(x*i*j + y, (i,(0,)), (j,(1,2,3))) keeps
   the sum over j although i := 0 cancels every j (the value stays 3*y) *)
Example cleanup_tests_original_summand :
  wf cancel_case /\
  cleanup cancel_case =
    PSum (Add [Mul [Sym "x"; Num 0 1; Sym "j"]; Sym "y"]) [("j", [Num 1 1; Num 2 1; Num 3 1])] /\
  forall (A : alg) (r : string -> V A), den r (cleanup cancel_case) = den r cancel_case.
Proof. exact cancel_case_ok. Qed.

(* "cleanup() never changes the value" is FALSE of the faithful model: PoolSum(x,(i,(0,1,2)))
   is cleaned up to x, the sum is 3x  (known finding cleanup_drops_unused_index) *)
Theorem cleanup_changes_value_refuted :
  exists (A : alg) (r : string -> V A) (e : expr), wf e /\ den r (cleanup e) <> den r e.
Proof. exact cleanup_refuted. Qed.

Example cleanup_doctest : cleanup (PSum (Sym "x") [("i", [Num 0 1; Num 1 1; Num 2 1])]) = Sym "x".
Proof. exact cleanup_doctest_unused. Qed.

(* shadowed nested index: PoolSum(PoolSum(f(i),(i,(1,2))),(i,(5,))) is f(1)+f(2) *)
Theorem shadowed_index_inner_wins :
  wf shadow_nest /\
  doit shadow_nest = Add [Add [Fn "f" [Num 1 1]; Fn "f" [Num 2 1]]] /\
  forall (A : alg) (r : string -> V A),
    den r shadow_nest =
    vadd A (vadd A (vfun A "f" [vnum A 1 1]) (vadd A (vfun A "f" [vnum A 2 1]) (vzero A))) (vzero A).
Proof. exact (conj eq_refl (conj shadow_doit shadow_value)). Qed.

(* HelicityModel.expression = unfold_poolsums (intensity.evaluate()) keeps the value ... *)
Theorem expression_unfolding_preserves_value : forall (A : alg) e (r : string -> V A),
  wf e -> den r (model_expression e) = den r e.
Proof. exact model_expression_den. Qed.

(* ... leaves no PoolSum whenever the intensity nests PoolSums at most 2 deep (the builder shape
   PoolSum(|sum_t PoolSum(..)|^2, ..)), but is incomplete from nesting depth 3 on *)
Theorem expression_unfolding_complete_depth2 : forall b idx,
  wf (PSum b idx) -> depth (PSum b idx) <= 2 -> psum_freeb (model_expression (PSum b idx)) = true.
Proof. exact model_expression_complete. Qed.

Theorem unfold_poolsums_complete_depth1 : forall e,
  wf e -> depth e <= 1 -> psum_freeb (unfold_poolsums e) = true.
Proof. exact unfold_flat_complete. Qed.

Example expression_unfolding_builder_shape :
  wf builder_nest /\ psum_freeb (model_expression builder_nest) = true.
Proof. exact builder_nest_ok. Qed.

Example expression_unfolding_depth3_incomplete :
  wf nest3 /\ psum_freeb (model_expression nest3) = false.
Proof. exact nest3_incomplete. Qed.

(* the hypothesis "distinct index symbols" is needed: the code builds a dict *)
Example evaluate_duplicate_index_outside_hypothesis :
  wfb dup_index = false /\
  exists (A : alg) (r : string -> V A), den r (evaluate dup_index) <> den r dup_index.
Proof. exact (conj eq_refl dup_index_refuted). Qed.

Print Assumptions poolsum_meaning.
Print Assumptions pool_values_count_with_multiplicity.
Print Assumptions pool_values_merged_by_substitution.
Print Assumptions cleanup_tests_original_summand.
Print Assumptions evaluate_is_sum.
Print Assumptions doit_is_sum.
Print Assumptions free_symbols_spec.
Print Assumptions free_symbols_sound.
Print Assumptions subs_bound_noop.
Print Assumptions subs_list_bound_noop.
Print Assumptions xreplace_bound_noop.
Print Assumptions subs_free_commutes.
Print Assumptions subs_free_commutes_doit.
Print Assumptions subs_free_here_bound_deeper.
Print Assumptions doit_depth3_rebound_index.
Print Assumptions cleanup_preserves_if_used.
Print Assumptions cleanup_preserves_unless_unused_nonsingleton.
Print Assumptions cleanup_changes_value_refuted.
Print Assumptions cleanup_doctest.
Print Assumptions shadowed_index_inner_wins.
Print Assumptions expression_unfolding_preserves_value.
Print Assumptions expression_unfolding_complete_depth2.
Print Assumptions unfold_poolsums_complete_depth1.
Print Assumptions expression_unfolding_builder_shape.
Print Assumptions expression_unfolding_depth3_incomplete.
Print Assumptions evaluate_duplicate_index_outside_hypothesis.
