(* C11 — lemmas about the phase-space-factor trees regenerated from /repo (Gen_C11): above
   threshold, gap, equal masses (three regimes), threshold limit.  Shared tactics: C11_base. *)
From AV Require Import DenC.
From AVchk Require Import Gen_C11.
From AVchk Require Export C11_base.
From Coq Require Import Lra Lia Psatz.
From Coquelicot Require Import Rcomplements.
Open Scope C_scope.

(* ---------- above threshold ---------- *)
Section Above.
  Variables s m1 m2 : R.
  Hypothesis H1 : (0 < m1)%R.
  Hypothesis H2 : (0 < m2)%R.
  Hypothesis Hs : ((m1+m2)^2 < s)%R.
  Let Hs0 : (0 < s)%R. Proof. nra. Qed.
  Let Hq : (0 < q2R s m1 m2)%R. Proof. apply q2_pos_above; assumption. Qed.
  Let Hss : (sqrt s <> 0)%R. Proof. apply Rgt_not_eq, sqrt_lt_R0. exact Hs0. Qed.

  Ltac above_start :=
    pose proof Hs0 as Hs0'; pose proof Hq as Hq'; pose proof Hss as Hss';
    denC_simplR; lift_R; norm_args s m1 m2;
    replace (0 / 1)%R with 0%R by field.

  Lemma psf_above : wdC (envS s m1 m2) gen_psf /\ denC (envS s m1 m2) gen_psf = RtoC (rhoR s m1 m2).
  Proof.
    unfold gen_psf, envS. above_start.
    rewrite ?Csqrt_nonneg by lra. lift_R. split; [wd_solve|].
    f_equal. unfold rhoR. unfold_pows. rewrite ?sqrt_4x by lra. field. assumption.
  Qed.

  Lemma abs_above : wdC (envS s m1 m2) gen_abs /\ denC (envS s m1 m2) gen_abs = RtoC (rhoR s m1 m2).
  Proof.
    unfold gen_abs, envS. above_start.
    rewrite ?(Rabs_pos_eq s), ?(Rabs_pos_eq (4 * q2R s m1 m2)) by lra.
    rewrite ?Csqrt_nonneg by lra. lift_R. split; [wd_solve|].
    f_equal. unfold rhoR. unfold_pows. rewrite ?sqrt_4x by lra. field. assumption.
  Qed.

  Lemma cpx_above : wdC (envS s m1 m2) gen_cpx /\ denC (envS s m1 m2) gen_cpx = RtoC (rhoR s m1 m2).
  Proof.
    unfold gen_cpx, envS. above_start.
    decide_rels. resolve_if.
    rewrite ?Csqrt_nonneg by lra. lift_R. split; [wd_solve|].
    f_equal. unfold rhoR. unfold_pows. rewrite ?sqrt_4x by lra. field. assumption.
  Qed.

  Lemma swave_above : wdC (envS s m1 m2) gen_swave /\ fst (denC (envS s m1 m2) gen_swave) = rhoR s m1 m2.
  Proof.
    pose proof (wR_lt s m1 m2 H1 H2 Hs) as [Hw0 Hlt].
    assert (HA : (2*m1*m2 < s - m1^2 - m2^2)%R) by nra.
    unfold gen_swave, envS. above_start.
    decide_rels. resolve_if.
    rewrite ?Csqrt_nonneg by lra. lift_R.
    repeat match goal with |- context [Clog (RtoC ?x)] =>
      first [ replace x with (m1 / m2)%R by (unfold_pows; field; lra)
            | replace x with (- ((s - m1^2 - m2^2 - wR s m1 m2) / (2*m1*m2)))%R
                by (unfold wR; unfold_pows; field; lra) ];
      lazymatch goal with
      | |- context [Clog (RtoC (m1 / m2)%R)] =>
          rewrite (Clog_pos (m1 / m2)) by (apply Rdiv_lt_0_compat; lra)
      | |- _ => rewrite Clog_neg_mk by (apply Ropp_lt_gt_0_contravar, Rdiv_lt_0_compat; nra)
      end
    end.
    lift_R. to_mk. rewrite fst_mk. split.
    - wd_solve.
      + apply PI_neq0.
      + apply Rgt_not_eq, Rdiv_lt_0_compat; lra.
      + apply Rlt_not_eq, Ropp_lt_gt_0_contravar, Rdiv_lt_0_compat; nra.
    - unfold rhoR. unfold_pows. rewrite ?sqrt_4x by lra. field. repeat split; try assumption; try apply PI_neq0; lra.
  Qed.

  Lemma eqm_above : wdC (envS s m1 m2) gen_eqm /\ fst (denC (envS s m1 m2) gen_eqm) = rhoR s m1 m2.
  Proof.
    pose proof (rho_lt1 s m1 m2 H1 H2 Hs) as Hr.
    pose proof (two_sqrtq_lt s m1 m2 H1 H2 Hs) as Ht.
    unfold gen_eqm, envS. above_start.
    rewrite ?(Rabs_pos_eq s), ?(Rabs_pos_eq (4 * q2R s m1 m2)) by lra.
    rewrite ?Csqrt_nonneg by lra. lift_R. rewrite ?sqrt_4x by lra.
    repeat match goal with
           | |- context [Rltb ?x s] =>
               lazymatch x with ((m1+m2)^2)%R => fail | _ => replace x with ((m1+m2)^2)%R by (unfold_pows; ring) end
           | |- context [Rleb ?x s] =>
               lazymatch x with ((m1+m2)^2)%R => fail | _ => replace x with ((m1+m2)^2)%R by (unfold_pows; ring) end
           end.
    decide_rels. resolve_if.
    repeat match goal with |- context [Rabs ?x] =>
      replace x with ((1 + rhoR s m1 m2) / (1 - rhoR s m1 m2))%R
        by (unfold rhoR; unfold_pows; field; split; lra);
      rewrite (Rabs_pos_eq ((1 + rhoR s m1 m2) / (1 - rhoR s m1 m2)))
        by (apply Rlt_le, Rdiv_lt_0_compat; lra)
    end.
    rewrite Clog_pos by (apply Rdiv_lt_0_compat; lra). lift_R. to_mk. rewrite fst_mk. split.
    - wd_solve.
      + apply PI_neq0.
      + match goal with |- ?x <> 0%R =>
          replace x with (1 - rhoR s m1 m2)%R by (unfold rhoR; unfold_pows; field; lra) end. lra.
      + apply Rgt_not_eq, Rdiv_lt_0_compat; lra.
    - unfold rhoR. unfold_pows. field. repeat split; try assumption; try apply PI_neq0; lra.
  Qed.
End Above.

(* ---------- between pseudo-threshold and threshold ---------- *)
Section Gap.
  Variables s m1 m2 : R.
  Hypothesis H1 : (0 < m1)%R.
  Hypothesis H2 : (0 < m2)%R.
  Hypothesis Hs : ((m1-m2)^2 < s < (m1+m2)^2)%R.

  Lemma gap_s_pos : (0 < s)%R.
  Proof. pose proof (pow2_ge_0 (m1 - m2)). lra. Qed.

  Lemma cpx_is_i_abs :
    wdC (envS s m1 m2) gen_cpx /\ wdC (envS s m1 m2) gen_abs /\
    denC (envS s m1 m2) gen_cpx = Ci * denC (envS s m1 m2) gen_abs.
  Proof.
    pose proof gap_s_pos as Hs0. pose proof (q2_neg_gap s m1 m2 H1 H2 Hs0 Hs) as Hq.
    assert (sqrt s <> 0)%R by (apply Rgt_not_eq, sqrt_lt_R0; lra).
    unfold gen_cpx, gen_abs, envS. denC_simplR. lift_R. norm_args s m1 m2.
    replace (0 / 1)%R with 0%R by field. decide_rels. resolve_if.
    rewrite ?(Rabs_pos_eq s) by lra. rewrite ?(Rabs_left (4 * q2R s m1 m2)) by lra.
    rewrite ?Csqrt_nonneg by lra. lift_R. to_mk.
    split; [wd_solve | split; [wd_solve | apply mk_eq; unfold_pows; field; assumption]].
  Qed.
End Gap.

(* ---------- half-angle: Arg of a unimodular number ---------- *)
Open Scope R_scope.
Lemma atan_double_small t : 0 < t < 1 -> atan (2 * t / (1 - t * t)) = 2 * atan t.
Proof.
  intros [H0 H1].
  assert (Hb : 0 < atan t < PI / 4).
  { split. rewrite <- atan_0. apply atan_increasing; lra. rewrite <- atan_1. apply atan_increasing; lra. }
  assert (Hc : cos (atan t) <> 0) by (apply Rgt_not_eq, cos_gt_0; lra).
  assert (Hc2 : cos (atan t + atan t) <> 0) by (apply Rgt_not_eq, cos_gt_0; lra).
  replace (2 * atan t) with (atan t + atan t) by ring.
  rewrite <- (atan_tan (atan t + atan t)) by lra.
  f_equal. rewrite tan_plus; rewrite ?tan_atan; try assumption.
  - field. nra.
  - nra.
Qed.

Lemma atan2_halfangle t : 0 < t ->
  atan2 (2 * t / (1 + t * t)) ((1 - t * t) / (1 + t * t)) = 2 * atan t.
Proof.
  intros H0. assert (Hp : 0 < 1 + t * t) by nra.
  assert (Hy : 0 < 2 * t / (1 + t * t)) by (apply Rdiv_lt_0_compat; lra).
  unfold atan2.
  destruct (Rlt_dec 0 ((1 - t * t) / (1 + t * t))) as [Hx|Hx].
  - assert (t < 1).
    { destruct (Rlt_dec t 1); [assumption|exfalso]. 
      assert ((1 - t * t) / (1 + t * t) <= 0); [|lra].
      unfold Rdiv. rewrite <- (Rmult_0_l (/ (1 + t*t))). apply Rmult_le_compat_r; [apply Rlt_le, Rinv_0_lt_compat; lra | nra]. }
    rewrite <- atan_double_small by lra. f_equal. field. split; nra.
  - destruct (Rlt_dec ((1 - t * t) / (1 + t * t)) 0) as [Hx'|Hx'].
    + assert (1 < t).
      { destruct (Rlt_dec 1 t); [assumption|exfalso].
        assert (0 <= (1 - t * t) / (1 + t * t)); [|lra].
        apply Rcomplements.Rdiv_le_0_compat; nra. }
      destruct (Rle_dec 0 (2 * t / (1 + t * t))) as [_|N]; [|lra].
      assert (Hi : 0 < / t < 1).
      { split. apply Rinv_0_lt_compat; lra. rewrite <- Rinv_1. apply Rinv_lt_contravar; lra. }
      replace (2 * t / (1 + t * t) / ((1 - t * t) / (1 + t * t))) with (- (2 * / t / (1 - / t * / t))) by (field; repeat split; nra).
      rewrite atan_opp, atan_double_small, atan_inv by lra. field.
    + assert (t = 1).
      { assert (E : (1 - t * t) / (1 + t * t) = 0) by lra.
        apply (f_equal (fun z => z * (1 + t * t))) in E. unfold Rdiv in E. rewrite Rmult_assoc, Rinv_l, Rmult_0_l in E by lra. nra. }
      subst t. destruct (Rlt_dec 0 (2 * 1 / (1 + 1 * 1))); [|lra]. rewrite atan_1. field.
Qed.

Lemma Clog_unit_halfangle t : 0 < t ->
  Clog (mkC ((1 - t * t) / (1 + t * t)) (2 * t / (1 + t * t))) = mkC 0 (2 * atan t).
Proof.
  intros H0. assert (Hp : 0 < 1 + t * t) by nra.
  rewrite <- (pair_mk ((1 - t * t) / (1 + t * t))). unfold Clog, Carg, Cmod. cbn [fst snd].
  rewrite atan2_halfangle by exact H0.
  replace (((1 - t * t) / (1 + t * t)) ^ 2 + (2 * t / (1 + t * t)) ^ 2) with 1 by (field; lra).
  rewrite sqrt_1, ln_1. apply pair_mk.
Qed.

Open Scope C_scope.

(* ---------- equal masses: EqualMassPhaseSpaceFactor = PhaseSpaceFactorSWave ---------- *)
Definition dR (s m : R) : R := (m^2 - s/4)%R.
Ltac norm_d x s m :=
  first [ replace x with (dR s m) by (unfold dR; unfold_pows; field)
        | replace x with (- dR s m)%R by (unfold dR; unfold_pows; field) ].
Ltac norm_eq s m :=
  replace (0 / 1)%R with 0%R by field;
  repeat match goal with
         | |- context [Csqrt (RtoC ?x)] =>
             lazymatch x with
             | dR _ _ => fail | (- dR _ _)%R => fail | s => fail | Rabs _ => fail
             | _ => norm_d x s m
             end
         | |- context [Rabs ?x] =>
             lazymatch x with
             | dR _ _ => fail | (- dR _ _)%R => fail | s => fail
             | _ => norm_d x s m
             end
         | |- context [Rltb 0 ?x] =>
             lazymatch x with
             | dR _ _ => fail 
             | _ => norm_d x s m
             end
         | |- context [Rltb ?x s] =>
             lazymatch x with
             | (4 * m^2)%R => fail 
             | _ => replace x with (4 * m^2)%R by (unfold_pows; field)
             end
         | |- context [Rleb 0 ?x] =>
             lazymatch x with
             | dR _ _ => fail | s => fail
             | _ => norm_d x s m
             end
         | |- context [Rleb ?x 0] =>
             lazymatch x with
             | dR _ _ => fail | (- dR _ _)%R => fail | s => fail
             | _ => norm_d x s m
             end
         | |- context [Rltb ?x 0] =>
             lazymatch x with
             | dR _ _ => fail | (- dR _ _)%R => fail | s => fail
             | _ => norm_d x s m
             end
         | |- context [Rleb ?x s] =>
             lazymatch x with
             | (4 * m^2)%R => fail 
             | _ => replace x with (4 * m^2)%R by (unfold_pows; field)
             end
         end.

Lemma mk_neq0_re x y : x <> 0%R -> mkC x y <> 0.
Proof. intros H E. apply (f_equal fst) in E. rewrite fst_mk in E. cbn in E. contradiction. Qed.
Lemma mk_neq0_im x y : y <> 0%R -> mkC x y <> 0.
Proof. intros H E. apply (f_equal snd) in E. rewrite snd_mk in E. cbn in E. contradiction. Qed.

Lemma div_neq0 a b : a <> 0%R -> b <> 0%R -> (a / b)%R <> 0%R.
Proof. intros Ha Hb. unfold Rdiv. apply Rmult_integral_contrapositive_currified; [exact Ha|apply Rinv_neq_0_compat; exact Hb]. Qed.

Definition eq_stmt (s m : R) : Prop :=
  wdC (envE s m) gen_eqm_eq /\ wdC (envE s m) gen_swave_eq /\
  denC (envE s m) gen_eqm_eq = denC (envE s m) gen_swave_eq.

Lemma eqm_eq_swave_neg s m : (0 < m)%R -> (s < 0)%R -> eq_stmt s m.
Proof.
  intros H1 Hs. assert (Hd : (0 < dR s m)%R) by (unfold dR; nra).
  unfold eq_stmt, gen_swave_eq, gen_eqm_eq, envE. denC_simplR. lift_R. norm_eq s m.
  decide_rels. resolve_if.
  rewrite ?(Rabs_left s), ?(Rabs_pos_eq (dR s m)) by lra.
  rewrite ?(Csqrt_nonneg (dR s m)), ?(Csqrt_nonneg (- s)) by lra. rewrite ?(Csqrt_neg_mk s) by lra.
  lift_R. to_mk.
  assert (HA : (0 < sqrt (- s))%R) by (apply sqrt_lt_R0; lra).
  assert (HB : (sqrt (- s) < 2 * sqrt (dR s m))%R).
  { rewrite <- sqrt_4x by lra. apply sqrt_lt_1; unfold dR; nra. }
  assert (Es : s = (- (sqrt (- s) * sqrt (- s)))%R) by (rewrite sqrt_sqrt; lra).
  assert (Em : (m ^ 2 = sqrt (dR s m) * sqrt (dR s m) - sqrt (- s) * sqrt (- s) / 4)%R).
  { rewrite !sqrt_sqrt by lra. unfold dR. field. }
  remember (sqrt (- s)) as A. remember (sqrt (dR s m)) as B.
  pose (r := ((A + 2 * B) / (2 * B - A))%R).
  assert (Hr : (0 < r)%R) by (apply Rdiv_lt_0_compat; lra).
  repeat match goal with |- context [mkC ?x ?y] =>
    lazymatch goal with
    | |- context [Clog (mkC x y)] => replace (mkC x y) with (RtoC (/ r))
    | |- context [mkC x y <> 0] => replace (mkC x y) with (RtoC (/ r))
    end; [|
    rewrite mk_R; apply mk_eq;
     [ unfold r; unfold_pows; rewrite Em; rewrite Es; field; repeat split; nra | ring ] ]
  end.
  repeat match goal with |- context [Rabs ?x] =>
    lazymatch x with (- r)%R => fail | _ => replace x with (- r)%R by (unfold r; unfold_pows; field; split; lra) end end.
  rewrite ?Rabs_Ropp, ?(Rabs_pos_eq r) by lra.
  rewrite !Clog_pos by (try apply Rinv_0_lt_compat; lra). rewrite ln_Rinv by lra.
  lift_R. to_mk.
  split; [|split].
  3: apply mk_eq; unfold_pows; field; repeat split; try apply PI_neq0; lra.
  all: wd_solve; try apply PI_neq0; try (apply Rinv_neq_0_compat; lra).
  all: match goal with |- ?x <> 0%R =>
         replace x with ((A - 2 * B) / A)%R by (unfold_pows; field; lra) end; apply div_neq0; lra.
Qed.

Lemma eqm_eq_swave_above s m : (0 < m)%R -> (4 * m ^ 2 < s)%R -> eq_stmt s m.
Proof.
  intros H1 Hs. assert (Hd : (dR s m < 0)%R) by (unfold dR; nra). assert (Hs0 : (0 < s)%R) by nra.
  unfold eq_stmt, gen_swave_eq, gen_eqm_eq, envE. denC_simplR. lift_R. norm_eq s m.
  decide_rels. resolve_if.
  rewrite ?(Rabs_pos_eq s), ?(Rabs_left (dR s m)) by lra.
  rewrite ?(Csqrt_nonneg (- dR s m)), ?(Csqrt_nonneg s) by lra.
  lift_R.
  assert (HB : (0 < sqrt (- dR s m))%R) by (apply sqrt_lt_R0; lra).
  assert (HA : (2 * sqrt (- dR s m) < sqrt s)%R).
  { rewrite <- sqrt_4x by lra. apply sqrt_lt_1; unfold dR; nra. }
  assert (Es : s = (sqrt s * sqrt s)%R) by (rewrite sqrt_sqrt; lra).
  assert (Em : (m ^ 2 = sqrt s * sqrt s / 4 - sqrt (- dR s m) * sqrt (- dR s m))%R).
  { rewrite !sqrt_sqrt by lra. unfold dR. field. }
  remember (sqrt s) as A. remember (sqrt (- dR s m)) as B.
  pose (r := ((A + 2 * B) / (A - 2 * B))%R).
  assert (Hr : (0 < r)%R) by (apply Rdiv_lt_0_compat; lra).
  repeat match goal with |- context [Rabs ?x] =>
    lazymatch x with r => fail | _ => replace x with r by (unfold r; unfold_pows; field; split; lra) end end.
  rewrite ?(Rabs_pos_eq r) by lra.
  repeat match goal with |- context [Clog (RtoC ?x)] =>
    lazymatch x with r => fail | (- / r)%R => fail | _ =>
    replace x with (- / r)%R by (unfold r; unfold_pows; rewrite Em; rewrite Es; field; repeat split; nra) end end.
  assert (0 < / r)%R by (apply Rinv_0_lt_compat; lra).
  rewrite ?(Clog_neg_mk (- / r)) by lra. rewrite ?(Clog_pos r) by lra. rewrite Ropp_involutive, ln_Rinv by lra.
  lift_R. to_mk.
  split; [|split].
  3: apply mk_eq; unfold_pows; field; repeat split; try apply PI_neq0; lra.
  all: wd_solve; try apply PI_neq0.
  all: match goal with |- ?x <> 0%R =>
         replace x with ((A - 2 * B) / A)%R by (unfold_pows; field; lra) end; apply div_neq0; lra.
Qed.

Lemma eqm_eq_swave_mid s m : (0 < m)%R -> (0 < s < 4 * m ^ 2)%R -> eq_stmt s m.
Proof.
  intros H1 Hs. assert (Hd : (0 < dR s m)%R) by (unfold dR; nra). assert (Hs0 : (0 < s)%R) by nra.
  unfold eq_stmt, gen_swave_eq, gen_eqm_eq, envE. denC_simplR. lift_R. norm_eq s m.
  decide_rels. resolve_if.
  rewrite ?(Rabs_pos_eq s), ?(Rabs_pos_eq (dR s m)) by lra.
  rewrite ?(Csqrt_nonneg (dR s m)), ?(Csqrt_nonneg s) by lra.
  lift_R.
  assert (HB : (0 < sqrt (dR s m))%R) by (apply sqrt_lt_R0; lra).
  assert (HA : (0 < sqrt s)%R) by (apply sqrt_lt_R0; lra).
  assert (Es : s = (sqrt s * sqrt s)%R) by (rewrite sqrt_sqrt; lra).
  assert (Em : (m ^ 2 = sqrt s * sqrt s / 4 + sqrt (dR s m) * sqrt (dR s m))%R).
  { rewrite !sqrt_sqrt by lra. unfold dR. field. }
  remember (sqrt s) as A. remember (sqrt (dR s m)) as B.
  pose (t := (A / (2 * B))%R).
  assert (Ht : (0 < t)%R) by (apply Rdiv_lt_0_compat; lra). to_mk.
  repeat match goal with |- context [mkC ?x ?y] =>
    lazymatch goal with
    | |- context [Clog (mkC x y)] => idtac
    | |- context [mkC x y <> 0] => idtac
    end;
    lazymatch x with ((1 - t * t) / (1 + t * t))%R => fail | _ => idtac end;
    replace x with ((1 - t * t) / (1 + t * t))%R
      by (unfold t; unfold_pows; rewrite Em; rewrite Es; field; repeat split; nra);
    replace y with (2 * t / (1 + t * t))%R
      by (unfold t; unfold_pows; rewrite Em; field; repeat split; nra)
  end.
  rewrite Clog_unit_halfangle by exact Ht.
  repeat match goal with |- context [atan ?x] =>
    lazymatch x with t => fail | _ => replace x with t by (unfold t; unfold_pows; field; lra) end end.
  to_mk.
  split; [|split].
  3: apply mk_eq; unfold_pows; field; repeat split; try apply PI_neq0; lra.
  all: wd_solve; try apply PI_neq0.
  all: apply mk_neq0_im, div_neq0; nra.
Qed.

(* ---------- closed forms near threshold, value at threshold, limit ---------- *)
Lemma eqm_mid_closed s m : (0 < m)%R -> (0 < s < 4 * m ^ 2)%R ->
  denC (envE s m) gen_eqm_eq =
  mkC 0 (4 / PI * (sqrt (dR s m) / sqrt s) * atan (sqrt s / (2 * sqrt (dR s m)))).
Proof.
  intros H1 Hs. assert (Hd : (0 < dR s m)%R) by (unfold dR; nra). assert (Hs0 : (0 < s)%R) by nra.
  unfold gen_eqm_eq, envE. denC_simplR. lift_R. norm_eq s m.
  decide_rels. resolve_if.
  rewrite ?(Rabs_pos_eq s), ?(Rabs_pos_eq (dR s m)) by lra.
  rewrite ?(Csqrt_nonneg (dR s m)), ?(Csqrt_nonneg s) by lra.
  lift_R.
  assert (HB : (0 < sqrt (dR s m))%R) by (apply sqrt_lt_R0; lra).
  assert (HA : (0 < sqrt s)%R) by (apply sqrt_lt_R0; lra).
  repeat match goal with |- context [atan ?x] =>
    lazymatch x with (sqrt s / (2 * sqrt (dR s m)))%R => fail
    | _ => replace x with (sqrt s / (2 * sqrt (dR s m)))%R by (unfold_pows; field; lra) end end.
  to_mk. apply mk_eq; unfold_pows; field; repeat split; try apply PI_neq0; lra.
Qed.

Lemma eqm_above_closed s m : (0 < m)%R -> (4 * m ^ 2 < s)%R ->
  denC (envE s m) gen_eqm_eq =
  mkC (2 * sqrt (- dR s m) / sqrt s)
      (2 / PI * (sqrt (- dR s m) / sqrt s) *
       ln ((sqrt s + 2 * sqrt (- dR s m)) / (sqrt s - 2 * sqrt (- dR s m)))).
Proof.
  intros H1 Hs. assert (Hd : (dR s m < 0)%R) by (unfold dR; nra). assert (Hs0 : (0 < s)%R) by nra.
  unfold gen_eqm_eq, envE. denC_simplR. lift_R. norm_eq s m.
  decide_rels. resolve_if.
  rewrite ?(Rabs_pos_eq s), ?(Rabs_left (dR s m)) by lra.
  rewrite ?(Csqrt_nonneg (- dR s m)), ?(Csqrt_nonneg s) by lra.
  lift_R.
  assert (HB : (0 < sqrt (- dR s m))%R) by (apply sqrt_lt_R0; lra).
  assert (HA : (2 * sqrt (- dR s m) < sqrt s)%R).
  { rewrite <- sqrt_4x by lra. apply sqrt_lt_1; unfold dR; nra. }
  set (r := ((sqrt s + 2 * sqrt (- dR s m)) / (sqrt s - 2 * sqrt (- dR s m)))%R).
  assert (Hr : (0 < r)%R) by (apply Rdiv_lt_0_compat; lra).
  repeat match goal with |- context [Rabs ?x] =>
    lazymatch x with r => fail | _ => replace x with r by (unfold r; unfold_pows; field; split; lra) end end.
  rewrite ?(Rabs_pos_eq r) by lra. rewrite ?(Clog_pos r) by lra.
  lift_R. to_mk. apply mk_eq; unfold_pows; field; repeat split; try apply PI_neq0; lra.
Qed.

Lemma eqm_undefined_at_threshold m : (0 < m)%R -> ~ wdC (envE (4 * m ^ 2) m) gen_eqm_eq.
Proof.
  intros H1. unfold gen_eqm_eq, envE. denC_simplR. lift_R. norm_eq (4 * m ^ 2)%R m.
  decide_rels. resolve_if.
  intros W.
  repeat match goal with H : _ /\ _ |- _ => destruct H end.
  match goal with H : _ <> _ |- _ =>
    apply H; replace (dR (4 * m ^ 2) m) with 0%R by (unfold dR; field); rewrite Rabs_R0; reflexivity end.
Qed.

Lemma swave_at_threshold m : (0 < m)%R ->
  wdC (envE (4 * m ^ 2) m) gen_swave_eq /\ denC (envE (4 * m ^ 2) m) gen_swave_eq = 0.
Proof.
  intros H1. unfold gen_swave_eq, envE. denC_simplR. lift_R. norm_eq (4 * m ^ 2)%R m.
  replace (dR (4 * m ^ 2) m) with 0%R by (unfold dR; field).
  decide_rels. resolve_if. rewrite ?Ropp_0.
  rewrite ?(Csqrt_nonneg 0), ?(Csqrt_nonneg (4 * m ^ 2)) by nra. rewrite sqrt_0. lift_R.
  assert (Hs : (sqrt (4 * m ^ 2) <> 0)%R) by (apply Rgt_not_eq, sqrt_lt_R0; nra).
  to_mk.
  repeat match goal with
  | |- context [Clog (mkC ?x ?y)] =>
      replace (mkC x y) with (RtoC (-1)) by (rewrite mk_R; apply mk_eq; unfold_pows; field; lra)
  | |- context [mkC ?x ?y <> 0] =>
      replace (mkC x y) with (RtoC (-1)) by (rewrite mk_R; apply mk_eq; unfold_pows; field; lra)
  | |- context [Clog (RtoC ?x)] =>
      lazymatch x with (-1)%R => fail | _ => replace x with (-1)%R by (unfold_pows; field; lra) end
  end.
  rewrite Clog_neg_mk by lra. to_mk. split.
  - wd_solve; try apply PI_neq0; nra.
  - rewrite (mk_R 0). apply mk_eq; unfold_pows; field; repeat split; try exact Hs; try apply PI_neq0; lra.
Qed.

Open Scope R_scope.
Lemma Cmod_mk_le x y : Cmod (mkC x y) <= Rabs x + Rabs y.
Proof.
  rewrite <- pair_mk. unfold Cmod. cbn [fst snd].
  rewrite <- (sqrt_Rsqr (Rabs x + Rabs y)) by (pose proof (Rabs_pos x); pose proof (Rabs_pos y); lra).
  apply sqrt_le_1_alt. unfold Rsqr.
  pose proof (Rabs_pos x); pose proof (Rabs_pos y).
  replace (x ^ 2) with (Rabs x * Rabs x) by (rewrite <- Rabs_mult; rewrite Rabs_pos_eq; nra).
  replace (y ^ 2) with (Rabs y * Rabs y) by (rewrite <- Rabs_mult; rewrite Rabs_pos_eq; nra).
  nra.
Qed.

Lemma ln_lt_minus1 x : 1 < x -> ln x < x - 1.
Proof.
  intros H. rewrite <- (ln_exp (x - 1)). apply ln_increasing; [lra|].
  pose proof (exp_ineq1 (x - 1)). lra.
Qed.

Lemma eqm_mid_bound s m : 0 < m -> 3 * m ^ 2 < s < 4 * m ^ 2 ->
  Cmod (denC (envE s m) gen_eqm_eq) <= 2 * sqrt (Rabs (s - 4 * m ^ 2)) / m.
Proof.
  intros H1 Hs. rewrite eqm_mid_closed by (try assumption; nra).
  assert (Hd : 0 < dR s m) by (unfold dR; nra).
  assert (HB : 0 < sqrt (dR s m)) by (apply sqrt_lt_R0; lra).
  assert (HA : m < sqrt s).
  { rewrite <- (sqrt_pow2 m) by lra. apply sqrt_lt_1; nra. }
  replace (Rabs (s - 4 * m ^ 2)) with (4 * dR s m) by (rewrite Rabs_left by lra; unfold dR; field).
  rewrite sqrt_4x by lra.
  eapply Rle_trans; [apply Cmod_mk_le|]. rewrite Rabs_R0, Rplus_0_l.
  set (B := sqrt (dR s m)) in *. set (A := sqrt s) in *.
  assert (Ht : 0 < A / (2 * B)) by (apply Rdiv_lt_0_compat; lra).
  assert (Hat : 0 < atan (A / (2 * B)) < PI / 2).
  { split; [rewrite <- atan_0; apply atan_increasing; lra | apply atan_bound]. }
  pose proof PI_RGT_0 as Hpi.
  assert (HBA : 0 < B / A) by (apply Rdiv_lt_0_compat; lra).
  assert (HK : 0 < 4 / PI * (B / A)).
  { apply Rmult_lt_0_compat; [apply Rdiv_lt_0_compat; lra | lra]. }
  rewrite Rabs_pos_eq by (apply Rlt_le, Rmult_lt_0_compat; lra).
  apply Rle_trans with (4 / PI * (B / A) * (PI / 2)).
  { apply Rmult_le_compat_l; lra. }
  replace (4 / PI * (B / A) * (PI / 2)) with (2 * B * / A) by (field; split; lra).
  apply Rlt_le. unfold Rdiv. apply Rle_lt_trans with (2 * (2 * B) * / A).
  { apply Rmult_le_compat_r; [apply Rlt_le, Rinv_0_lt_compat; lra | lra]. }
  apply Rmult_lt_compat_l; [lra|]. apply Rinv_lt_contravar; [nra|lra].
Qed.

Lemma eqm_above_bound s m : 0 < m -> 4 * m ^ 2 < s < 4 * m ^ 2 + m ^ 2 / 4 ->
  Cmod (denC (envE s m) gen_eqm_eq) <= 2 * sqrt (Rabs (s - 4 * m ^ 2)) / m.
Proof.
  intros H1 Hs. rewrite eqm_above_closed by (try assumption; nra).
  assert (Hd : 0 < - dR s m) by (unfold dR; nra).
  assert (HB : 0 < sqrt (- dR s m)) by (apply sqrt_lt_R0; lra).
  assert (HA : 2 * m < sqrt s).
  { replace (2 * m) with (sqrt ((2 * m) ^ 2)) by (apply sqrt_pow2; lra). apply sqrt_lt_1; nra. }
  assert (HB2 : 2 * sqrt (- dR s m) < m / 2).
  { rewrite <- sqrt_4x by lra. replace (m / 2) with (sqrt ((m / 2) ^ 2)) by (apply sqrt_pow2; lra).
    apply sqrt_lt_1; unfold dR; nra. }
  replace (Rabs (s - 4 * m ^ 2)) with (4 * - dR s m) by (rewrite Rabs_pos_eq by lra; unfold dR; field).
  rewrite sqrt_4x by lra.
  eapply Rle_trans; [apply Cmod_mk_le|].
  set (B := sqrt (- dR s m)) in *. set (A := sqrt s) in *.
  pose proof PI2_1 as Hpi.
  set (rho := 2 * B / A).
  assert (Hrho : 0 < rho < 1 / 2).
  { unfold rho. split; [apply Rdiv_lt_0_compat; lra|]. apply Rlt_div_l; lra. }
  assert (Er : (A + 2 * B) / (A - 2 * B) = (1 + rho) / (1 - rho)) by (unfold rho; field; split; lra).
  rewrite Er.
  assert (Hr1 : 1 < (1 + rho) / (1 - rho)) by (apply Rlt_div_r; lra).
  assert (Hln : 0 < ln ((1 + rho) / (1 - rho)) < 2).
  { split. rewrite <- ln_1. apply ln_increasing; lra.
    eapply Rlt_trans; [apply ln_lt_minus1; exact Hr1|].
    assert ((1 + rho) / (1 - rho) < 3); [apply Rlt_div_l; lra | lra]. }
  replace (2 * B / A) with rho by reflexivity.
  replace (2 / PI * (B / A)) with (rho / PI) by (unfold rho; field; split; lra).
  assert (0 < rho / PI) by (apply Rdiv_lt_0_compat; lra).
  rewrite (Rabs_pos_eq rho) by lra.
  rewrite Rabs_pos_eq by (apply Rlt_le, Rmult_lt_0_compat; lra).
  apply Rle_trans with (rho + rho / PI * 2).
  { apply Rplus_le_compat_l, Rmult_le_compat_l; lra. }
  apply Rle_trans with (2 * rho).
  { replace (rho / PI * 2) with (rho * (2 / PI)) by (field; lra).
    assert (2 / PI < 1) by (apply Rlt_div_l; lra). nra. }
  unfold rho. unfold Rdiv. apply Rlt_le.
  replace (2 * (2 * B * / A)) with (2 * (2 * B) * / A) by ring.
  apply Rmult_lt_compat_l; [lra|]. apply Rinv_lt_contravar; [nra|lra].
Qed.

Lemma eq_stmt_near s m : 0 < m -> s <> 4 * m ^ 2 -> 0 < s -> eq_stmt s m.
Proof.
  intros H1 Hne Hs. destruct (Rlt_dec s (4 * m ^ 2)).
  - apply eqm_eq_swave_mid; [assumption|lra].
  - apply eqm_eq_swave_above; [assumption|lra].
Qed.

Lemma eqm_near_bound s m : 0 < m -> s <> 4 * m ^ 2 -> Rabs (s - 4 * m ^ 2) < m ^ 2 / 4 ->
  eq_stmt s m /\ Cmod (denC (envE s m) gen_eqm_eq) <= 2 * sqrt (Rabs (s - 4 * m ^ 2)) / m.
Proof.
  intros H1 Hne Hd. assert (Hm : 0 < m ^ 2) by nra.
  apply Rabs_def2 in Hd. split; [apply eq_stmt_near; try assumption; lra|].
  destruct (Rlt_dec s (4 * m ^ 2)).
  - apply eqm_mid_bound; [assumption|lra].
  - apply eqm_above_bound; [assumption|lra].
Qed.

Lemma limit_at_threshold m eps : 0 < m -> 0 < eps ->
  exists delta, 0 < delta /\ forall s, s <> 4 * m ^ 2 -> Rabs (s - 4 * m ^ 2) < delta ->
    (wdC (envE s m) gen_eqm_eq /\ Cmod (denC (envE s m) gen_eqm_eq) < eps) /\
    (wdC (envE s m) gen_swave_eq /\ Cmod (denC (envE s m) gen_swave_eq) < eps).
Proof.
  intros H1 He. assert (Hm : 0 < m ^ 2) by nra.
  exists (Rmin (m ^ 2 / 4) ((eps * m / 2) ^ 2)). split.
  { apply Rmin_pos; [lra|]. apply pow_lt. apply Rdiv_lt_0_compat; nra. }
  intros s Hne Hd.
  assert (Hd1 : Rabs (s - 4 * m ^ 2) < m ^ 2 / 4) by (eapply Rlt_le_trans; [exact Hd|apply Rmin_l]).
  assert (Hd2 : Rabs (s - 4 * m ^ 2) < (eps * m / 2) ^ 2) by (eapply Rlt_le_trans; [exact Hd|apply Rmin_r]).
  destruct (eqm_near_bound s m H1 Hne Hd1) as [[W1 [W2 E]] Hb].
  assert (Hlt : Cmod (denC (envE s m) gen_eqm_eq) < eps).
  { eapply Rle_lt_trans; [exact Hb|].
    assert (sqrt (Rabs (s - 4 * m ^ 2)) < eps * m / 2).
    { rewrite <- (sqrt_pow2 (eps * m / 2)) by (apply Rlt_le, Rdiv_lt_0_compat; nra).
      apply sqrt_lt_1; [apply Rabs_pos | apply pow2_ge_0 | exact Hd2]. }
    apply Rlt_div_l; [lra|]. lra. }
  split; [split; assumption | split; [assumption | rewrite <- E; exact Hlt]].
Qed.


(* ---------- statements in terms of the regenerated q^2 tree ---------- *)
Open Scope C_scope.
Lemma q2_fst s m1 m2 : s <> 0%R -> fst (denC (envS s m1 m2) gen_q2) = q2R s m1 m2.
Proof. intros H. destruct (q2_closed s m1 m2 H) as [_ E]. rewrite E. reflexivity. Qed.

Lemma q2_symmetric_gen s m1 m2 : s <> 0%R ->
  wdC (envS s m1 m2) gen_q2 /\ wdC (envS s m2 m1) gen_q2 /\
  denC (envS s m1 m2) gen_q2 = denC (envS s m2 m1) gen_q2.
Proof.
  intros H. destruct (q2_closed s m1 m2 H) as [W1 E1]. destruct (q2_closed s m2 m1 H) as [W2 E2].
  split; [exact W1|split; [exact W2|]]. rewrite E1, E2, q2_symmetric. reflexivity.
Qed.
Lemma q2_zero_threshold_gen m1 m2 : (0 < m1)%R -> (0 < m2)%R ->
  wdC (envS ((m1 + m2) ^ 2) m1 m2) gen_q2 /\ denC (envS ((m1 + m2) ^ 2) m1 m2) gen_q2 = 0.
Proof.
  intros H1 H2. assert (H : ((m1 + m2) ^ 2 <> 0)%R) by (apply Rgt_not_eq; nra).
  destruct (q2_closed _ m1 m2 H) as [W E]. split; [exact W|]. rewrite E, q2_zero_threshold by exact H. reflexivity.
Qed.
Lemma q2_zero_pseudothreshold_gen m1 m2 : m1 <> m2 ->
  wdC (envS ((m1 - m2) ^ 2) m1 m2) gen_q2 /\ denC (envS ((m1 - m2) ^ 2) m1 m2) gen_q2 = 0.
Proof.
  intros Hne. assert (H : ((m1 - m2) ^ 2 <> 0)%R).
  { apply Rgt_not_eq. assert (m1 - m2 <> 0)%R by lra. nra. }
  destruct (q2_closed _ m1 m2 H) as [W E]. split; [exact W|]. rewrite E, q2_zero_pseudothreshold by exact H. reflexivity.
Qed.
Lemma q2_undefined_at_zero m1 m2 : ~ wdC (envS 0 m1 m2) gen_q2.
Proof.
  unfold gen_q2, envS. denC_simplR. intros W.
  repeat match goal with H : _ /\ _ |- _ => destruct H end.
  match goal with H : _ <> _ |- _ => apply H; reflexivity end.
Qed.

Definition re_above_stmt (X : expr) (s m1 m2 : R) : Prop :=
  wdC (envS s m1 m2) X /\ wdC (envS s m1 m2) gen_q2 /\
  fst (denC (envS s m1 m2) X) = (2 * sqrt (fst (denC (envS s m1 m2) gen_q2)) / sqrt s)%R.

Section AboveStmt.
  Variables s m1 m2 : R.
  Hypothesis H1 : (0 < m1)%R.
  Hypothesis H2 : (0 < m2)%R.
  Hypothesis Hs : ((m1+m2)^2 < s)%R.
  Let Hs0 : (s <> 0)%R. Proof. apply Rgt_not_eq. nra. Qed.

  Lemma re_above_real X : wdC (envS s m1 m2) X /\ denC (envS s m1 m2) X = RtoC (rhoR s m1 m2) ->
    re_above_stmt X s m1 m2 /\ snd (denC (envS s m1 m2) X) = 0%R.
  Proof.
    intros [W E]. destruct (q2_closed s m1 m2 Hs0) as [Wq _].
    unfold re_above_stmt. rewrite q2_fst by exact Hs0. rewrite E.
    split; [split; [exact W|split; [exact Wq|reflexivity]]|reflexivity].
  Qed.
  Lemma re_above_cpx X : wdC (envS s m1 m2) X /\ fst (denC (envS s m1 m2) X) = rhoR s m1 m2 ->
    re_above_stmt X s m1 m2.
  Proof.
    intros [W E]. destruct (q2_closed s m1 m2 Hs0) as [Wq _].
    unfold re_above_stmt. rewrite q2_fst by exact Hs0. rewrite E.
    split; [exact W|split; [exact Wq|reflexivity]].
  Qed.
End AboveStmt.

Lemma re_above_psf_stmt s m1 m2 : (0 < m1)%R -> (0 < m2)%R -> ((m1 + m2) ^ 2 < s)%R ->
  re_above_stmt gen_psf s m1 m2 /\ snd (denC (envS s m1 m2) gen_psf) = 0%R.
Proof. intros H1 H2 Hs. apply re_above_real; try assumption. apply psf_above; assumption. Qed.
Lemma re_above_abs_stmt s m1 m2 : (0 < m1)%R -> (0 < m2)%R -> ((m1 + m2) ^ 2 < s)%R ->
  re_above_stmt gen_abs s m1 m2 /\ snd (denC (envS s m1 m2) gen_abs) = 0%R.
Proof. intros H1 H2 Hs. apply re_above_real; try assumption. apply abs_above; assumption. Qed.
Lemma re_above_cpx_stmt s m1 m2 : (0 < m1)%R -> (0 < m2)%R -> ((m1 + m2) ^ 2 < s)%R ->
  re_above_stmt gen_cpx s m1 m2 /\ snd (denC (envS s m1 m2) gen_cpx) = 0%R.
Proof. intros H1 H2 Hs. apply re_above_real; try assumption. apply cpx_above; assumption. Qed.
Lemma re_above_swave_stmt s m1 m2 : (0 < m1)%R -> (0 < m2)%R -> ((m1 + m2) ^ 2 < s)%R ->
  re_above_stmt gen_swave s m1 m2.
Proof. intros H1 H2 Hs. apply re_above_cpx; try assumption. apply swave_above; assumption. Qed.
Lemma re_above_eqm_stmt s m1 m2 : (0 < m1)%R -> (0 < m2)%R -> ((m1 + m2) ^ 2 < s)%R ->
  re_above_stmt gen_eqm s m1 m2.
Proof. intros H1 H2 Hs. apply re_above_cpx; try assumption. apply eqm_above; assumption. Qed.
Lemma equalmass_eq_swave_all s m : (0 < m)%R -> s <> 0%R -> s <> (4 * m ^ 2)%R -> eq_stmt s m.
Proof.
  intros Hm H0 H4. destruct (Rlt_dec s 0) as [Hn|Hn].
  - exact (eqm_eq_swave_neg s m Hm Hn).
  - apply eq_stmt_near; try assumption. lra.
Qed.
