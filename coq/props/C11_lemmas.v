(* C11 — lemmas about the phase-space-factor trees regenerated from /repo (Gen_C11).
   Square roots and logarithms have SymPy's principal branches (CLib.Csqrt / Clog). *)
From AV Require Import DenC.
From AVchk Require Import Gen_C11.
From Coq Require Import Lra Lia Psatz.
Open Scope C_scope.

Definition f0 : string -> list C -> C := fun _ _ => 0.
Definition envS (s m1 m2 : R) : envC :=
  envC_of [("s", RtoC s); ("m1", RtoC m1); ("m2", RtoC m2)] f0.
Definition envE (s m : R) : envC := envC_of [("s", RtoC s); ("m", RtoC m)] f0.

Definition q2R (s m1 m2 : R) : R := ((s - (m1+m2)^2) * (s - (m1-m2)^2) / (4*s))%R.
Definition rhoR (s m1 m2 : R) : R := (2 * sqrt (q2R s m1 m2) / sqrt s)%R.

Ltac unfold_pows := cbv [powZ Pos.to_nat Pos.iter_op Nat.add Init.Nat.add].

(* ---------- break-up momentum ---------- *)
Lemma q2_closed s m1 m2 : s <> 0%R -> wdC (envS s m1 m2) gen_q2 /\ denC (envS s m1 m2) gen_q2 = RtoC (q2R s m1 m2).
Proof.
  intros Hs. unfold gen_q2, envS. split.
  - denC_simplR. lift_R. repeat split; try exact I. apply RtoC_neq0. exact Hs.
  - denC_simplR. lift_R. f_equal. unfold q2R. unfold_pows. field. exact Hs.
Qed.
Lemma q2_symmetric s m1 m2 : q2R s m1 m2 = q2R s m2 m1.
Proof. unfold q2R. f_equal. ring. Qed.
Lemma q2_zero_threshold m1 m2 : ((m1+m2)^2 <> 0 -> q2R ((m1+m2)^2) m1 m2 = 0)%R.
Proof. intros H. unfold q2R. field. intros E. apply H. rewrite E. ring. Qed.
Lemma q2_zero_pseudothreshold m1 m2 : ((m1-m2)^2 <> 0 -> q2R ((m1-m2)^2) m1 m2 = 0)%R.
Proof. intros H. unfold q2R. field. intros E. apply H. rewrite E. ring. Qed.

Lemma q2_pos_above s m1 m2 : (0 < m1 -> 0 < m2 -> (m1+m2)^2 < s -> 0 < q2R s m1 m2)%R.
Proof.
  intros H1 H2 Hs. unfold q2R. assert (0 < s)%R by nra.
  apply Rdiv_lt_0_compat; [|lra]. apply Rmult_lt_0_compat; nra.
Qed.
Lemma q2_neg_gap s m1 m2 : (0 < m1 -> 0 < m2 -> 0 < s -> (m1-m2)^2 < s < (m1+m2)^2 -> q2R s m1 m2 < 0)%R.
Proof.
  intros H1 H2 H0 [Ha Hb]. unfold q2R. unfold Rdiv.
  assert (0 < / (4 * s))%R by (apply Rinv_0_lt_compat; lra).
  assert ((s - (m1 + m2) ^ 2) * (s - (m1 - m2) ^ 2) < 0)%R by nra. nra.
Qed.

(* normalise the argument of every square root / absolute value to a multiple of q2R or s *)
Ltac norm_arg x s m1 m2 :=
  first
    [ replace x with (4 * q2R s m1 m2)%R by (unfold q2R; unfold_pows; field; lra)
    | replace x with (- (4 * q2R s m1 m2))%R by (unfold q2R; unfold_pows; field; lra)
    | replace x with (q2R s m1 m2)%R by (unfold q2R; unfold_pows; field; lra)
    | replace x with (- q2R s m1 m2)%R by (unfold q2R; unfold_pows; field; lra) ].

Ltac norm_args s m1 m2 :=
  repeat match goal with
         | |- context [Csqrt (RtoC ?x)] =>
             lazymatch x with
             | (4 * q2R _ _ _)%R => fail | (- (4 * q2R _ _ _))%R => fail
             | (q2R _ _ _)%R => fail | (- q2R _ _ _)%R => fail | s => fail
             | Rabs _ => fail
             | _ => norm_arg x s m1 m2
             end
         | |- context [Rabs ?x] =>
             lazymatch x with
             | (4 * q2R _ _ _)%R => fail | (- (4 * q2R _ _ _))%R => fail
             | (q2R _ _ _)%R => fail | (- q2R _ _ _)%R => fail | s => fail
             | _ => norm_arg x s m1 m2
             end
         | |- context [Rltb ?x ?y] =>
             lazymatch x with
             | (4 * q2R _ _ _)%R => fail | (- (4 * q2R _ _ _))%R => fail
             | (q2R _ _ _)%R => fail | (- q2R _ _ _)%R => fail | s => fail
             | _ => norm_arg x s m1 m2
             end
         end.

Lemma sqrt_4x x : (0 <= x -> sqrt (4 * x) = 2 * sqrt x)%R.
Proof. intros H. rewrite sqrt_mult by lra. replace 4%R with (2*2)%R by ring. rewrite sqrt_square by lra. ring. Qed.

(* ---------- above threshold: the three real variants ---------- *)
Section Above.
  Variables s m1 m2 : R.
  Hypothesis H1 : (0 < m1)%R.
  Hypothesis H2 : (0 < m2)%R.
  Hypothesis Hs : ((m1+m2)^2 < s)%R.
  Let Hs0 : (0 < s)%R. Proof. nra. Qed.
  Let Hq : (0 < q2R s m1 m2)%R. Proof. apply q2_pos_above; assumption. Qed.

  Lemma psf_above : denC (envS s m1 m2) gen_psf = RtoC (rhoR s m1 m2).
  Proof.
    pose proof Hs0 as Hs0'. pose proof Hq as Hq'.
    unfold gen_psf, envS. denC_simplR. lift_R. norm_args s m1 m2.
    rewrite ?Csqrt_nonneg by lra. lift_R. f_equal. unfold rhoR. unfold_pows.
    rewrite ?sqrt_4x by lra. assert (sqrt s <> 0)%R by (apply Rgt_not_eq, sqrt_lt_R0; lra).
    field. assumption.
  Qed.
End Above.
