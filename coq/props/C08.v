(* C08 — property theorems (statements only; proofs are in C08_lemmas.v, about the
   matrices regenerated from /repo in this run). *)
From AV Require Import DenR Mat.
From AVchk Require Import Gen_C08 C08_lemmas Gen_C08prod C08_products.
Open Scope R_scope.

(* general boost: for every time-like p with non-zero three-momentum *)
Theorem C08_boost_defined : forall E x y z, timelike E x y z -> moving x y z ->
  wdM (envP E x y z) boost_explicit.
Proof. exact boost_wd. Qed.
Theorem C08_boost_lorentz : forall E x y z, timelike E x y z -> moving x y z ->
  let B := denM (envP E x y z) boost_explicit in mmul (mmul (transpose B) etaM) B = etaM.
Proof. exact boost_lorentz. Qed.
Theorem C08_boost_det : forall E x y z, timelike E x y z -> moving x y z ->
  det4 (denM (envP E x y z) boost_explicit) = 1.
Proof. exact boost_det. Qed.
Theorem C08_boost_00 : forall E x y z, timelike E x y z -> moving x y z ->
  1 <= entry00 (denM (envP E x y z) boost_explicit).
Proof. exact boost_00. Qed.
Theorem C08_boost_rest : forall E x y z, timelike E x y z -> moving x y z ->
  mvec (denM (envP E x y z) boost_explicit) [E; x; y; z] = [massR E x y z; 0; 0; 0].
Proof. exact boost_rest. Qed.
Theorem C08_boost_inverse : forall E x y z, timelike E x y z -> moving x y z ->
  mmul (denM (envP E (-x) (-y) (-z)) boost_explicit) (denM (envP E x y z) boost_explicit) = idM.
Proof. exact boost_inverse. Qed.
Theorem C08_boost_undefined_at_rest : forall E, 0 < E -> ~ wdM (envP E 0 0 0) boost_explicit.
Proof. exact boost_undefined_at_rest. Qed.
Theorem C08_boost_z_direction : forall E z, timelike E 0 0 z -> z <> 0 ->
  denM (envP E 0 0 z) boost_explicit = denM (envB (z / E)) boostz_explicit.
Proof. exact boost_z_direction. Qed.
Theorem C08_boost_numpy_cse : forall E x y z, timelike E x y z -> moving x y z ->
  denM (envP E x y z) boost_numpy_cse = denM (envP E x y z) boost_explicit.
Proof. intros; apply boost_numpy_cse_eq; assumption. Qed.
Theorem C08_boost_numpy_nocse : forall E x y z, timelike E x y z -> moving x y z ->
  denM (envP E x y z) boost_numpy_nocse = denM (envP E x y z) boost_explicit.
Proof. intros; apply boost_numpy_nocse_eq; assumption. Qed.

(* z boost: |beta| < 1 *)
Theorem C08_boostz_defined : forall b, -1 < b < 1 -> wdM (envB b) boostz_explicit.
Proof. exact boostz_wd. Qed.
Theorem C08_boostz_lorentz : forall b, -1 < b < 1 ->
  let B := denM (envB b) boostz_explicit in mmul (mmul (transpose B) etaM) B = etaM.
Proof. exact boostz_lorentz. Qed.
Theorem C08_boostz_det : forall b, -1 < b < 1 -> det4 (denM (envB b) boostz_explicit) = 1.
Proof. exact boostz_det. Qed.
Theorem C08_boostz_00 : forall b, -1 < b < 1 -> 1 <= entry00 (denM (envB b) boostz_explicit).
Proof. exact boostz_00. Qed.
Theorem C08_boostz_numpy_cse : forall b, -1 < b < 1 ->
  denM (envB b) boostz_numpy_cse = denM (envB b) boostz_explicit.
Proof. exact boostz_numpy_cse_eq. Qed.
Theorem C08_boostz_numpy_nocse : forall b, -1 < b < 1 ->
  denM (envB b) boostz_numpy_nocse = denM (envB b) boostz_explicit.
Proof. exact boostz_numpy_nocse_eq. Qed.

(* rotations: every angle *)
Theorem C08_roty_defined : forall a, wdM (envA a) roty_explicit.
Proof. exact roty_wd. Qed.
Theorem C08_rotz_defined : forall a, wdM (envA a) rotz_explicit.
Proof. exact rotz_wd. Qed.
Theorem C08_roty_lorentz : forall a,
  mmul (mmul (transpose (denM (envA a) roty_explicit)) etaM) (denM (envA a) roty_explicit) = etaM.
Proof. exact roty_lorentz. Qed.
Theorem C08_rotz_lorentz : forall a,
  mmul (mmul (transpose (denM (envA a) rotz_explicit)) etaM) (denM (envA a) rotz_explicit) = etaM.
Proof. exact rotz_lorentz. Qed.
Theorem C08_roty_det : forall a, det4 (denM (envA a) roty_explicit) = 1.
Proof. exact roty_det. Qed.
Theorem C08_rotz_det : forall a, det4 (denM (envA a) rotz_explicit) = 1.
Proof. exact rotz_det. Qed.
Theorem C08_roty_00 : forall a, entry00 (denM (envA a) roty_explicit) = 1.
Proof. exact roty_00. Qed.
Theorem C08_rotz_00 : forall a, entry00 (denM (envA a) rotz_explicit) = 1.
Proof. exact rotz_00. Qed.
Theorem C08_roty_additive : forall a b,
  mmul (denM (envA a) roty_explicit) (denM (envA b) roty_explicit) = denM (envA (a + b)) roty_explicit.
Proof. exact roty_add. Qed.
Theorem C08_rotz_additive : forall a b,
  mmul (denM (envA a) rotz_explicit) (denM (envA b) rotz_explicit) = denM (envA (a + b)) rotz_explicit.
Proof. exact rotz_add. Qed.
Theorem C08_roty_inverse : forall a,
  mmul (denM (envA (- a)) roty_explicit) (denM (envA a) roty_explicit) = idM.
Proof. exact roty_inverse. Qed.
Theorem C08_rotz_inverse : forall a,
  mmul (denM (envA (- a)) rotz_explicit) (denM (envA a) rotz_explicit) = idM.
Proof. exact rotz_inverse. Qed.
Theorem C08_roty_numpy : forall a,
  denM (envA a) roty_numpy_cse = denM (envA a) roty_explicit /\
  denM (envA a) roty_numpy_nocse = denM (envA a) roty_explicit.
Proof. exact roty_numpy_eq. Qed.
Theorem C08_rotz_numpy : forall a,
  denM (envA a) rotz_numpy_cse = denM (envA a) rotz_explicit /\
  denM (envA a) rotz_numpy_nocse = denM (envA a) rotz_explicit.
Proof. exact rotz_numpy_eq. Qed.

(* rotations whose angle argument is a compound expression (a+c, a-c, 3a, -a): the generated code
   (cse on and off) is the rotation matrix at the value of the argument *)
Theorem C08_rotation_compound_angle_numpy : forall a c,
  (denM (envAC a c) roty_sum_numpy_cse = denM (envA (a + c)) roty_explicit /\
   denM (envAC a c) roty_sum_numpy_nocse = denM (envA (a + c)) roty_explicit /\
   denM (envAC a c) rotz_sum_numpy_cse = denM (envA (a + c)) rotz_explicit /\
   denM (envAC a c) rotz_sum_numpy_nocse = denM (envA (a + c)) rotz_explicit) /\
  (denM (envAC a c) roty_diff_numpy_cse = denM (envA (a - c)) roty_explicit /\
   denM (envAC a c) roty_diff_numpy_nocse = denM (envA (a - c)) roty_explicit /\
   denM (envAC a c) rotz_diff_numpy_cse = denM (envA (a - c)) rotz_explicit /\
   denM (envAC a c) rotz_diff_numpy_nocse = denM (envA (a - c)) rotz_explicit) /\
  (denM (envAC a c) roty_triple_numpy_cse = denM (envA (3 * a)) roty_explicit /\
   denM (envAC a c) roty_triple_numpy_nocse = denM (envA (3 * a)) roty_explicit /\
   denM (envAC a c) rotz_triple_numpy_cse = denM (envA (3 * a)) rotz_explicit /\
   denM (envAC a c) rotz_triple_numpy_nocse = denM (envA (3 * a)) rotz_explicit) /\
  (denM (envAC a c) roty_neg_numpy_cse = denM (envA (- a)) roty_explicit /\
   denM (envAC a c) roty_neg_numpy_nocse = denM (envA (- a)) roty_explicit /\
   denM (envAC a c) rotz_neg_numpy_cse = denM (envA (- a)) rotz_explicit /\
   denM (envAC a c) rotz_neg_numpy_nocse = denM (envA (- a)) rotz_explicit).
Proof. exact rot_compound_numpy_eq. Qed.

(* metric and space inversion as generated NumPy code *)
Theorem C08_metric_numpy : forall E x y z,
  denM (envP E x y z) metric_numpy = etaM /\ denM (envP E x y z) metric_explicit = etaM.
Proof. exact metric_numpy_eq. Qed.
Theorem C08_negative_momentum_numpy : forall E x y z,
  denV (envP E x y z) negp_cse = [E; -x; -y; -z] /\ denV (envP E x y z) negp_nocse = [E; -x; -y; -z].
Proof. exact negp_numpy. Qed.

(* non-vacuity: p = (2, 1/10, 1/5, 3/10) is time-like and moving; beta = 1/2 *)
Example C08_example_premises : timelike 2 (1/10) (1/5) (3/10) /\ moving (1/10) (1/5) (3/10) /\ -1 < 1/2 < 1.
Proof. unfold timelike, moving. repeat split; lra. Qed.

(* Products: the NumPy code generated for MatrixMultiplication / ArrayMultiplication chains of k generic
   operands (k up to 5 in the quick tier, 7 in the thorough tier; cse on and off) is the ordered matrix
   product of all operands, for every environment (= all real matrices, the operands being distinct symbols). *)
Theorem C08_matrix_product_code : Forall matrix_product_ok gen_matrix_products.
Proof. exact matrix_products_ok. Qed.
Theorem C08_array_product_code : Forall array_product_ok gen_array_products.
Proof. exact array_products_ok. Qed.
Theorem C08_product_operands_generic :
  forallb (fun c => generic_operands (snd c) []) gen_matrix_products = true /\
  forallb (fun c => generic_operands (snd (fst c)) (snd c)) gen_array_products = true.
Proof. split; [exact matrix_products_generic | exact array_products_generic]. Qed.
Theorem C08_product_chain_lengths_covered :
  forallb (fun k => existsb (Nat.eqb k) chain_lengths_m) [1; 2; 3; 4; 5]%nat = true /\
  forallb (fun k => existsb (Nat.eqb k) chain_lengths_a) [2; 3; 4; 5]%nat = true.
Proof. split; vm_compute; reflexivity. Qed.

Print Assumptions C08_boost_defined.
Print Assumptions C08_matrix_product_code.
Print Assumptions C08_array_product_code.
Print Assumptions C08_product_operands_generic.
Print Assumptions C08_product_chain_lengths_covered.
Print Assumptions C08_boost_lorentz.
Print Assumptions C08_boost_det.
Print Assumptions C08_boost_00.
Print Assumptions C08_boost_rest.
Print Assumptions C08_boost_inverse.
Print Assumptions C08_boost_undefined_at_rest.
Print Assumptions C08_boost_z_direction.
Print Assumptions C08_boost_numpy_cse.
Print Assumptions C08_boost_numpy_nocse.
Print Assumptions C08_boostz_defined.
Print Assumptions C08_boostz_lorentz.
Print Assumptions C08_boostz_det.
Print Assumptions C08_boostz_00.
Print Assumptions C08_boostz_numpy_cse.
Print Assumptions C08_boostz_numpy_nocse.
Print Assumptions C08_roty_defined.
Print Assumptions C08_rotz_defined.
Print Assumptions C08_roty_lorentz.
Print Assumptions C08_rotz_lorentz.
Print Assumptions C08_roty_det.
Print Assumptions C08_rotz_det.
Print Assumptions C08_roty_00.
Print Assumptions C08_rotz_00.
Print Assumptions C08_roty_additive.
Print Assumptions C08_rotz_additive.
Print Assumptions C08_roty_inverse.
Print Assumptions C08_rotz_inverse.
Print Assumptions C08_roty_numpy.
Print Assumptions C08_rotz_numpy.
Print Assumptions C08_rotation_compound_angle_numpy.
Print Assumptions C08_metric_numpy.
Print Assumptions C08_negative_momentum_numpy.
Print Assumptions C08_example_premises.
