(* C04 — lemmas about the helicity-frame conventions regenerated from /repo (Gen_C04). *)
From AV Require Import DenR Mat Rot.
From AVchk Require Import Gen_C04.
From Coq Require Import Lra Lia Psatz Nsatz.
Open Scope R_scope.

Definition envP (E x y z : R) : env := env_of [("E", E); ("x", x); ("y", y); ("z", z)].
Definition envA (a : R) : env := env_of [("a", a)].

Ltac num_norm :=
  unfold Rdiv; rewrite ?Rinv_1, ?Rmult_1_r, ?Rmult_1_l, ?Rmult_0_l, ?Rmult_0_r, ?Rplus_0_r, ?Rplus_0_l.

Definition offaxis (x y : R) : Prop := 0 < x^2 + y^2.
Definition norm3 (x y z : R) : R := sqrt (x^2 + y^2 + z^2).

(* the code's angles, rotation matrices and frame arguments, as real functions *)
Definition PhiR (E x y z : R) : R := denR (envP E x y z) phi_expr.
Definition ThetaR (E x y z : R) : R := denR (envP E x y z) theta_expr.
Definition Rz (a : R) : mat := denM (envA a) rotz_explicit.
Definition Ry (a : R) : mat := denM (envA a) roty_explicit.
Definition frameRzArg (E x y z : R) : R := denR (envP E x y z) frame_rotz_arg.
Definition frameRyArg (E x y z : R) : R := denR (envP E x y z) frame_roty_arg.
(* the rotation part of the helicity frame of compute_helicity_angles, factors in the code's order
   (frame_order below): RotationY(frame_roty_arg) . RotationZ(frame_rotz_arg) *)
Definition frameM (E x y z : R) : mat := mmul (Ry (frameRyArg E x y z)) (Rz (frameRzArg E x y z)).

Lemma norm3_pos x y z : offaxis x y -> 0 < norm3 x y z.
Proof. unfold offaxis, norm3. intros. apply sqrt_lt_R0. nra. Qed.
Lemma norm3_sq x y z : norm3 x y z ^ 2 = x^2 + y^2 + z^2.
Proof. unfold norm3. apply pow2_sqrt. nra. Qed.

Lemma cosine_in_range x y z : offaxis x y -> -1 < z / norm3 x y z < 1.
Proof.
  intros H. pose proof (norm3_pos x y z H) as Hr. pose proof (norm3_sq x y z) as Hs.
  unfold offaxis in H. set (r := norm3 x y z) in *.
  assert (z^2 < r^2) by lra.
  split.
  - apply Rmult_lt_reg_r with r; [lra|]. replace (z / r * r) with z by (field; lra). nra.
  - apply Rmult_lt_reg_r with r; [lra|]. replace (z / r * r) with z by (field; lra). nra.
Qed.

Lemma phi_value E x y z : PhiR E x y z = atan2 y x.
Proof. unfold PhiR, phi_expr, envP. den_simpl. reflexivity. Qed.

Lemma theta_value E x y z : offaxis x y -> ThetaR E x y z = acos (z / norm3 x y z).
Proof.
  intros H. pose proof (norm3_pos x y z H).
  unfold ThetaR, theta_expr, envP, norm3 in *. den_simpl. f_equal.
  replace (x ^ 2 + (y ^ 2 + (z ^ 2 + 0))) with (x^2 + y^2 + z^2) by ring. field. lra.
Qed.

Lemma phi_theta_wd E x y z : offaxis x y ->
  wdR (envP E x y z) phi_expr /\ wdR (envP E x y z) theta_expr.
Proof.
  intros H. pose proof (norm3_pos x y z H) as Hr. pose proof (cosine_in_range x y z H) as Hc.
  unfold offaxis, norm3 in *.
  unfold phi_expr, theta_expr, envP. den_simpl.
  replace (x ^ 2 + (y ^ 2 + (z ^ 2 + 0))) with (x^2 + y^2 + z^2) by ring.
  assert (Hxy : y <> 0 \/ x <> 0).
  { destruct (Req_dec y 0) as [->|]; [right|left; assumption]. intros ->. lra. }
  repeat split; try assumption; try lra; try nra.
  - replace (z * (/ sqrt (x^2 + y^2 + z^2) ^ 1 * 1)) with (z / sqrt (x^2 + y^2 + z^2)) by (field; lra). lra.
  - replace (z * (/ sqrt (x^2 + y^2 + z^2) ^ 1 * 1)) with (z / sqrt (x^2 + y^2 + z^2)) by (field; lra). lra.
Qed.

Lemma frame_args E x y z :
  frameRzArg E x y z = - PhiR E x y z /\ frameRyArg E x y z = - ThetaR E x y z.
Proof.
  unfold frameRzArg, frameRyArg, PhiR, ThetaR, frame_rotz_arg, frame_roty_arg, phi_expr, theta_expr, envP.
  den_simpl. split; field.
Qed.

Lemma frame_order : frame_factor_kinds = ["BoostZMatrix"; "RotationYMatrix"; "RotationZMatrix"]%string.
Proof. reflexivity. Qed.

Lemma level1_angles E x y z :
  denR (envP E x y z) level1_phi = PhiR E x y z /\ denR (envP E x y z) level1_theta = ThetaR E x y z.
Proof. unfold PhiR, ThetaR, level1_phi, level1_theta, phi_expr, theta_expr, envP. den_simpl. split; reflexivity. Qed.

(* cos/sin of the code's angles *)
Lemma cos_sin_phi E x y z : offaxis x y ->
  cos (PhiR E x y z) = x / sqrt (x^2 + y^2) /\ sin (PhiR E x y z) = y / sqrt (x^2 + y^2).
Proof. intros H. rewrite phi_value. apply atan2_cos_sin. exact H. Qed.

Lemma cos_sin_theta E x y z : offaxis x y ->
  cos (ThetaR E x y z) = z / norm3 x y z /\ sin (ThetaR E x y z) = sqrt (x^2 + y^2) / norm3 x y z.
Proof.
  intros H. rewrite theta_value by exact H.
  pose proof (cosine_in_range x y z H) as Hc. pose proof (norm3_pos x y z H) as Hr.
  pose proof (norm3_sq x y z) as Hs.
  split; [apply cos_acos; lra|]. rewrite sin_acos by lra. unfold Rsqr.
  replace (1 - z / norm3 x y z * (z / norm3 x y z)) with ((x^2 + y^2) / (norm3 x y z ^ 2)) by (field_simplify_eq; [rewrite Hs; ring | lra]).
  rewrite sqrt_div_alt by (apply pow_lt; lra). f_equal.
  replace (norm3 x y z ^ 2) with (norm3 x y z * norm3 x y z) by ring. apply sqrt_square. lra.
Qed.

(* frame_aligns: the code's rotation, applied to the subsystem's own momentum, puts it on +z *)
Lemma frame_aligns E x y z : offaxis x y ->
  mvec (frameM E x y z) [E; x; y; z] = [E; 0; 0; norm3 x y z].
Proof.
  intros H. unfold frameM. destruct (frame_args E x y z) as [-> ->].
  destruct (cos_sin_phi E x y z H) as [Hcp Hsp]. destruct (cos_sin_theta E x y z H) as [Hct Hst].
  pose proof (norm3_pos x y z H) as Hr. pose proof (norm3_sq x y z) as Hs.
  assert (Hrho : 0 < sqrt (x^2 + y^2)) by (apply sqrt_lt_R0; exact H).
  assert (Hrho2 : sqrt (x^2 + y^2) ^ 2 = x^2 + y^2) by (apply pow2_sqrt; unfold offaxis in H; lra).
  unfold Ry, Rz, roty_explicit, rotz_explicit, envA. mat_simpl. den_simpl.
  rewrite ?cos_neg, ?sin_neg, Hcp, Hsp, Hct, Hst.
  set (r := norm3 x y z) in *. set (rho := sqrt (x^2 + y^2)) in *.
  num_norm. mat_eq.
  - ring.
  - apply Rmult_eq_reg_r with (rho * r); [|nra].
    transitivity (z * (x^2 + y^2) - z * rho^2); [field; lra | rewrite Hrho2; ring].
  - field; lra.
  - transitivity ((x^2 + y^2 + z^2) / r); [field; lra|].
    rewrite <- Hs. field; lra.
Qed.

(* the same proof obligation with the conventions altered must fail; e.g. with Rz(+Phi) the x
   component becomes (x^2 - y^2) z / (rho r) - ..., see the mutants in the report. *)

Lemma frame_is_inverse_euler th ph :
  mmul (Ry (- th)) (Rz (- ph)) = transpose (mmul (Rz ph) (Ry th)) /\
  mmul (mmul (Ry (- th)) (Rz (- ph))) (mmul (Rz ph) (Ry th)) = idM /\
  mmul (mmul (Rz ph) (Ry th)) (mmul (Ry (- th)) (Rz (- ph))) = idM.
Proof.
  unfold Ry, Rz, roty_explicit, rotz_explicit, envA. mat_simpl. den_simpl.
  rewrite ?cos_neg, ?sin_neg.
  pose proof (sin2_cos2 th) as H1. pose proof (sin2_cos2 ph) as H2. unfold Rsqr in *.
  set (ct := cos th) in *. set (st := sin th) in *. set (cp := cos ph) in *. set (sp := sin ph) in *.
  clearbody ct st cp sp. num_norm.
  repeat split; mat_eq; try ring; nsatz.
Qed.

Lemma phi_theta_ranges E x y z :
  - PI < PhiR E x y z <= PI /\ 0 <= ThetaR E x y z <= PI.
Proof.
  split.
  - rewrite phi_value. apply atan2_range.
  - unfold ThetaR, theta_expr, envP. den_simpl. apply acos_bound.
Qed.

(* a rotation of the momentum about z by d (the code's own active RotationZMatrix) *)
Definition rotz_mom (d E x y z : R) : list R := mvec (Rz d) [E; x; y; z].

Lemma rotz_mom_value d E x y z :
  rotz_mom d E x y z = [E; x * cos d - y * sin d; x * sin d + y * cos d; z].
Proof.
  unfold rotz_mom, Rz, rotz_explicit, envA. mat_simpl. den_simpl. mat_eq; field.
Qed.

Lemma rotz_shifts_phi d E x y z : offaxis x y ->
  let x' := x * cos d - y * sin d in let y' := x * sin d + y * cos d in
  offaxis x' y' /\
  ThetaR E x' y' z = ThetaR E x y z /\
  cos (PhiR E x' y' z) = cos (PhiR E x y z + d) /\
  sin (PhiR E x' y' z) = sin (PhiR E x y z + d).
Proof.
  intros H x' y'.
  pose proof (sin2_cos2 d) as Hd. unfold Rsqr in Hd.
  assert (Hxy : x'^2 + y'^2 = x^2 + y^2) by (unfold x', y'; nra).
  assert (H' : offaxis x' y') by (unfold offaxis in *; lra).
  split; [exact H'|].
  split.
  - rewrite !theta_value by assumption. unfold norm3.
    replace (x'^2 + y'^2 + z^2) with (x^2 + y^2 + z^2) by lra. reflexivity.
  - destruct (cos_sin_phi E x' y' z H') as [-> ->]. rewrite cos_plus, sin_plus.
    destruct (cos_sin_phi E x y z H) as [-> ->]. rewrite Hxy.
    assert (0 < sqrt (x^2 + y^2)) by (apply sqrt_lt_R0; exact H).
    unfold x', y'. split; field; lra.
Qed.

(* consequence: for g = a z rotation the helicity frame is exactly covariant,
   frame(g p) . g = frame(p): all deeper-level momenta (hence angles) are unchanged *)
Lemma frame_covariant_z d E x y z : offaxis x y ->
  let x' := x * cos d - y * sin d in let y' := x * sin d + y * cos d in
  mmul (frameM E x' y' z) (Rz d) = frameM E x y z.
Proof.
  intros H x' y'.
  destruct (rotz_shifts_phi d E x y z H) as (H' & Ht & Hc & Hs). fold x' y' in H', Ht, Hc, Hs.
  unfold frameM. destruct (frame_args E x' y' z) as [-> ->]. destruct (frame_args E x y z) as [-> ->].
  rewrite Ht. unfold Ry, Rz, roty_explicit, rotz_explicit, envA. mat_simpl. den_simpl.
  rewrite ?cos_neg, ?sin_neg, Hc, Hs, cos_plus, sin_plus.
  pose proof (sin2_cos2 d) as Hd. unfold Rsqr in Hd.
  set (cd := cos d) in *. set (sd := sin d) in *.
  set (cp := cos (PhiR E x y z)). set (sp := sin (PhiR E x y z)).
  set (ct := cos (ThetaR E x y z)). set (st := sin (ThetaR E x y z)).
  clearbody cd sd cp sp ct st. num_norm.
  mat_eq; try ring; nsatz.
Qed.

(* which angle feeds which index of the Wigner D *)
Definition row_ok (r : list expr) : bool :=
  match r with
  | [dj; dm; dmp; j; m; dl; al; be; ga; sfx] =>
      expr_eqb dj j && expr_eqb dm m && expr_eqb dmp dl
      && expr_eqb al (Num ((-1) # 1)) && expr_eqb be (Num (1 # 1)) && expr_eqb ga (Num (0 # 1))
      && expr_eqb sfx (Num (1 # 1))
  | _ => false
  end.
Definition row_discriminates (r : list expr) : bool :=
  match r with
  | [dj; dm; dmp; j; m; dl; al; be; ga; sfx] =>
      negb (expr_eqb m dl) && negb (expr_eqb dl (Num (0 # 1)))
  | _ => false
  end.

Lemma wigner_convention :
  forallb row_ok wigner_rows = true /\ existsb row_discriminates wigner_rows = true.
Proof. split; vm_compute; reflexivity. Qed.

(* ---------- non-vacuity: a concrete off-axis momentum, and an instance of Rot.v's Section ---------- *)
Lemma offaxis_example : offaxis 1 0.
Proof. unfold offaxis. lra. Qed.

(* the Section hypotheses of Rot.v are satisfiable by a non-diagonal unitary representation:
   G = Z2 acting on two projections by the swap *)
From Coquelicot Require Import Complex.
Definition z2_D (_ : unit) (g m m' : bool) : C := if Bool.eqb m' (xorb g m) then RtoC 1 else RtoC 0.
Lemma z2_rng_nodup : forall j : unit, NoDup ((fun _ => [false; true]) j).
Proof. intros j. cbn. repeat constructor; cbn; intuition congruence. Qed.
Lemma z2_D_mul : forall (j : unit) g h m m', In m [false; true] -> In m' [false; true] ->
  z2_D j (xorb g h) m m' = csum [false; true] (fun k => (z2_D j g m k * z2_D j h k m')%C).
Proof. intros j g h m m' _ _; destruct j, g, h, m, m'; cbn; ring. Qed.
Lemma z2_D_unit : forall (j : unit) g m m', In m [false; true] -> In m' [false; true] ->
  csum [false; true] (fun k => (Cconj (z2_D j g k m) * z2_D j g k m')%C) = delta bool Bool.bool_dec m m'.
Proof.
  intros j g m m' _ _; destruct j, g, m, m'; unfold delta; cbn; rewrite ?Cconj_1, ?Cconj_0;
    repeat match goal with |- context [Bool.bool_dec ?a ?b] => destruct (Bool.bool_dec a b); try congruence end; ring.
Qed.
