(* C13_lemmas.v -- proofs of the C13 theorems about the model coq/theories/Selector.v
   (lemmas in coq/theories/Selector_proofs.v).  The model is tied to /repo by the
   correspondence run (bridge/corr_C13.py). *)
From Coq Require Import String List ZArith QArith Bool Arith Lia Permutation.
From AV Require Import Selector Selector_proofs.
Import ListNotations.
Local Open Scope string_scope.
Local Open Scope list_scope.

(* ------------------------------------------------------------------ assign *)
Lemma assign_exact_lemma : forall ch sel b,
  match assign ch sel b with
  | inr (ch', found) =>
      (forall d, denotes sel d = true ->
         lookup ch' d = match by_name sel with
                        | Some _ => match lookup ch d with Some _ => Some b | None => None end
                        | None => Some b
                        end)
      /\ (forall d, denotes sel d = false -> lookup ch' d = lookup ch d)
      /\ (found = false <->
          (by_name sel <> None /\ forall d b0, lookup ch d = Some b0 -> denotes sel d = false))
  | inl _ => (forall d, denotes sel d = false) /\ step ch (sel, b) = ch
  end.
Proof.
  intros ch sel b. destruct (assign ch sel b) as [e|[ch' f]] eqn:E.
  - eapply assign_error_denotes_nothing; eauto.
  - split; [|split].
    + intros d Hd. destruct (assign_exact_l _ _ _ _ _ E d) as [A _]. specialize (A Hd).
      destruct (by_name sel); auto.
    + intros d Hd. destruct (assign_exact_l _ _ _ _ _ E d) as [_ B]. auto.
    + eapply assign_found_flag; eauto.
Qed.

Lemma history_last_wins_lemma : forall ch0 h d b0, lookup ch0 d = Some b0 ->
  lookup (run_history ch0 h) d = Some (last_denoting h d b0)
  /\ (((forall sb, In sb h -> denotes (fst sb) d = false) /\ last_denoting h d b0 = b0)
      \/ (exists h1 sel b h2, h = h1 ++ (sel, b) :: h2 /\ denotes sel d = true
            /\ (forall sb, In sb h2 -> denotes (fst sb) d = false) /\ last_denoting h d b0 = b)).
Proof.
  intros. split.
  - rewrite lookup_run_history, H. apply history_fold_key.
  - apply last_denoting_spec.
Qed.

Lemma init_history_lemma : forall r ch0 h g n d,
  init r = inr ch0 -> (In g (map fst r) \/ In g (flat_map snd r)) -> In n (t_nodes g) ->
  from_transition g n = inr d ->
  lookup (run_history ch0 h) d = Some (last_denoting h d default_builder).
Proof.
  intros r ch0 h g n d Hi Hg Hn Hd. destruct (init_covers _ _ Hi) as [_ Hk].
  apply history_last_wins_lemma. eapply Hk; eauto.
Qed.

(* ------------------------------------------------------------------ chains *)
Lemma chain_calls_keys : forall r ch0 chains h t,
  init r = inr ch0 -> chains_covered r chains = true -> In t chains ->
  forall ns, incl ns (t_nodes t) -> forall ds, decays_of_nodes t ns = inr ds ->
  chain_calls (run_history ch0 h) t ns =
    inr (map (fun d => Some (last_denoting h d default_builder, parent_particle d, varset_of t d)) ds).
Proof.
  intros r ch0 chains h t Hi Hc Ht. induction ns as [|n ns IH]; intros Hincl ds Hd; simpl in *.
  - inversion Hd; reflexivity.
  - destruct (from_transition t n) as [e|d] eqn:E; [discriminate|].
    destruct (decays_of_nodes t ns) as [e|ds'] eqn:E'; [discriminate|]. inversion Hd; subst.
    rewrite (chain_nodes_are_keys r ch0 chains h t n d Hi Hc Ht (Hincl n (or_introl eq_refl)) E).
    rewrite (IH (fun x Hx => Hincl x (or_intror Hx)) ds' eq_refl). reflexivity.
Qed.

Section Factor.
  Variable A : Type.
  Variable mul : A -> A -> A.
  Variable one : A.
  Variable dynf : builder -> particle -> varset -> A.
  Hypothesis mul_assoc : forall x y z, mul x (mul y z) = mul (mul x y) z.
  Hypothesis mul_comm : forall x y, mul x y = mul y x.
  Hypothesis mul_one : forall x, mul x one = x.

  Lemma dynamics_factor_lemma : forall ch t cs coef pref base,
    chain_calls ch t (t_nodes t) = inr cs -> length base = length (t_nodes t) ->
    amp_with_dynamics A mul one dynf coef pref base cs
    = mul (amp_without_dynamics A mul one coef pref base)
          (prodA A mul one (map (call_factor A one dynf) cs)).
  Proof.
    intros. apply dynamics_factor_l; auto. rewrite (chain_calls_length _ _ _ _ H). auto.
  Qed.

  Lemma dynamics_factor_chain_lemma : forall r ch0 chains h t ds coef pref base,
    init r = inr ch0 -> chains_covered r chains = true -> In t chains ->
    decays_of t = inr ds -> length base = length (t_nodes t) ->
    exists cs, chain_calls (run_history ch0 h) t (t_nodes t) = inr cs /\
    amp_with_dynamics A mul one dynf coef pref base cs
    = mul (amp_without_dynamics A mul one coef pref base)
          (prodA A mul one
             (map (fun d => dynf (last_denoting h d default_builder) (parent_particle d) (varset_of t d)) ds)).
  Proof.
    intros r ch0 chains h t ds coef pref base Hi Hc Ht Hd Hl.
    pose proof (chain_calls_keys r ch0 chains h t Hi Hc Ht (t_nodes t) (fun x Hx => Hx) ds Hd) as Hcs.
    eexists; split; [exact Hcs|].
    rewrite (dynamics_factor_lemma _ _ _ coef pref base Hcs Hl). f_equal.
    rewrite map_map. reflexivity.
  Qed.
End Factor.

(* ------------------------------------------------------------------ defaults *)
Lemma formulate_defaults_lemma : forall P ch chains css ds ws,
  formulate P ch chains = inr (css, ds, ws) ->
  exists cs, contribs P (concat css) = Some cs
    /\ (forall k, plookup ds k = last_assoc cs k)
    /\ (ws = [] <-> consistent cs)
    /\ (forall w, In w ws -> good_warning cs w).
Proof.
  intros P ch chains css ds ws H. unfold formulate in H.
  destruct (all_calls ch chains) as [e|css'] eqn:Ea; [discriminate|].
  destruct (collect_params P (concat css') ([], [])) as [e|[ds' ws']] eqn:Ec; [discriminate|].
  inversion H; subst; clear H.
  destruct (collect_contribs _ _ _ _ Ec) as (cs & Hcs & Hst).
  exists cs. split; auto.
  assert (Hd : ds = fst (fold_left add_param cs ([], []))) by (rewrite <- Hst; reflexivity).
  assert (Hw : ws = snd (fold_left add_param cs ([], []))) by (rewrite <- Hst; reflexivity).
  split; [|split].
  - intros k. rewrite Hd, defaults_last_wins_l. simpl. destruct (last_assoc cs k); reflexivity.
  - rewrite Hw. apply no_warning_iff_consistent.
  - rewrite Hw. apply warnings_sound.
Qed.

Lemma equal_names_lemma : forall ch chains css ds ws,
  formulate lib_params ch chains = inr (css, ds, ws) ->
  ident_determines (call_particles (concat css)) ->
  ws = [] /\
  forall b p vs ps k v, In (Some (b, p, vs)) (concat css) -> lib_params b p vs = Some ps ->
    In (k, v) ps -> plookup ds k = Some v.
Proof.
  intros ch chains css ds ws H Hid.
  destruct (formulate_defaults_lemma _ _ _ _ _ _ H) as (cs & Hcs & Hl & Hw & _).
  pose proof (lib_contribs_consistent _ _ Hid Hcs) as Hc.
  split; [apply Hw; auto|].
  intros b p vs ps k v Hin Hp Hk. rewrite Hl.
  pose proof (contribs_of_call _ _ _ _ _ _ _ _ _ Hcs Hin Hp Hk) as Hin'.
  destruct (in_last_assoc _ _ _ Hin') as [v' E]. rewrite E. f_equal.
  symmetry. eapply Hc; eauto. apply last_assoc_in; auto.
Qed.

Lemma defaults_tabulated_lemma : forall ch chains css ds ws,
  formulate lib_params ch chains = inr (css, ds, ws) ->
  ident_determines (call_particles (concat css)) ->
  forall b p vs, In (Some (b, p, vs)) (concat css) -> (b = B_BW \/ b = B_BW_FF \/ b = B_ANALYTIC) ->
    plookup ds (mass_par p) = Some (p_mass p) /\ plookup ds (width_par p) = Some (p_width p).
Proof.
  intros ch chains css ds ws H Hid b p vs Hin Hb.
  destruct (equal_names_lemma _ _ _ _ _ H Hid) as [_ Hall].
  (* the call did not raise, because formulate succeeded *)
  destruct (formulate_defaults_lemma _ _ _ _ _ _ H) as (cs & Hcs & _).
  assert (exists ps, lib_params b p vs = Some ps) as [ps Hp].
  { clear - Hcs Hin. revert cs Hcs. induction (concat css) as [|[[[b0 p0] vs0]|] r IH]; intros cs Hcs; simpl in *.
    - contradiction.
    - destruct (lib_params b0 p0 vs0) as [ps0|] eqn:E0; [|discriminate].
      destruct (contribs lib_params r) as [cs'|] eqn:Er; [|discriminate].
      destruct Hin as [E | Hin]; [inversion E; subst; eauto | eapply IH; eauto].
    - destruct Hin as [E | Hin]; [discriminate | eapply IH; eauto]. }
  destruct (lib_params_tabulated _ _ _ _ Hb Hp) as [Hm Hw].
  split; eapply Hall; eauto.
Qed.

(* ------------------------------------------------------------------ a concrete reaction *)
(* A -> R y, R -> x y with two identical y: transition T (R -> x[0] y[1], bachelor y[2]) and
   the graph G that _perform_combinatorics adds (R -> x[0] y[2], bachelor y[1]). *)
Definition pA := mkParticle "A" (Some "A^0") (3#1) (1#100) 0 "pid=1".
Definition pR := mkParticle "R" (Some "R^0") (3#2) (1#10) 2 "pid=2".
Definition pR' := mkParticle "R2" (Some "R^0") (7#4) (1#5) 2 "pid=5".   (* same latex as R *)
Definition px := mkParticle "x" None (1#2) 0 0 "pid=3".
Definition py := mkParticle "y" (Some "") (1#7) 0 0 "pid=4".
Definition iN := mkInt None "(None, None, None, None)".
Definition iL := mkInt (Some 1%nat) "(0, 1, 0, None)".
Definition states_ex := [(-1, mkState pA 0); (0, mkState px 0); (1, mkState py 0);
                         (2, mkState py 0); (3, mkState pR 0)]%Z.
Definition exT := mkTr [0; 1]%Z
  [mkEdge (-1) None (Some 0); mkEdge 3 (Some 0) (Some 1); mkEdge 2 (Some 0) None;
   mkEdge 0 (Some 1) None; mkEdge 1 (Some 1) None]%Z states_ex [(0, iN); (1, iL)]%Z.
Definition exG := mkTr [0; 1]%Z
  [mkEdge (-1) None (Some 0); mkEdge 3 (Some 0) (Some 1); mkEdge 1 (Some 0) None;
   mkEdge 0 (Some 1) None; mkEdge 2 (Some 1) None]%Z states_ex [(0, iN); (1, iL)]%Z.
Definition exR : reaction := [(exT, [exT; exG])].
Definition exChains := [exT; exG].
Definition exH : hist := [(SelStr "R", B_BW); (SelOther, B_FF); (SelStr "nope", B_FF)].

Definition dG1 : decay :=
  mkDecay (mkSwid 3 (mkState pR 0)) (mkSwid 0 (mkState px 0)) (mkSwid 2 (mkState py 0)) iL.

Lemma ex_wf : forallb wf_transition exChains = true.
Proof. vm_compute. reflexivity. Qed.
Lemma ex_covered : chains_covered exR exChains = true.
Proof. vm_compute. reflexivity. Qed.
Lemma ex_init_ok : exists ch, init exR = inr ch /\ length ch = 4%nat.
Proof. eexists. split; vm_compute; reflexivity. Qed.
Lemma ex_G_decay : from_transition exG 1 = inr dG1.
Proof. vm_compute. reflexivity. Qed.

(* with the current __init__ the permuted chain's R node gets the builder assigned by name *)
Lemma ex_now : exists ch, init exR = inr ch /\
  node_dynamics (run_history ch exH) exG 1 =
    inr (Some (B_BW, pR, mkVarset "m_02" "m_0" "m_2" (Some 1%nat))).
Proof. eexists. split; vm_compute; reflexivity. Qed.

(* the pinned __init__ (before commit 8360f41): same input, the factor is dropped *)
Lemma ex_pinned_dropped : exists ch, init_pinned exR = inr ch /\
  chains_covered exR exChains = true /\ In exG exChains /\
  from_transition exG 1 = inr dG1 /\ denotes (SelStr "R") dG1 = true /\
  node_dynamics (run_history ch exH) exG 1 = inr None.
Proof. eexists. repeat split; try (vm_compute; reflexivity). right; left; reflexivity. Qed.

(* error branches leave the selector alone; unknown names are flagged *)
Lemma ex_errors : forall ch,
  assign ch SelOther B_BW = inl ENotImplemented /\ assign ch SelBadTuple B_BW = inl ENotImplemented
  /\ assign ch (SelNode exT 7) B_BW = inl EValue.
Proof. intros; repeat split. Qed.
Lemma ex_notfound : exists ch ch', init exR = inr ch /\ assign ch (SelStr "nope") B_BW = inr (ch', false)
  /\ ch' = ch.
Proof. eexists. eexists. repeat split; vm_compute; reflexivity. Qed.

(* formulate on the example with library builders: tabulated defaults, no warning *)
Lemma ex_formulate : exists ch css,
  init exR = inr ch /\
  formulate lib_params (run_history ch exH) exChains =
    inr (css, [("m_{R^0}", 3#2); ("\Gamma_{R^0}", 1#10)], [])
  /\ ident_determines (call_particles (concat css)).
Proof.
  eexists. eexists. split; [vm_compute; reflexivity|]. split; [vm_compute; reflexivity|].
  intros p q Hp Hq Hi. cbv in Hp, Hq.
  repeat match goal with H : _ \/ _ |- _ => destruct H | H : False |- _ => destruct H end;
    subst; first [split; reflexivity | cbv in Hi; discriminate].
Qed.

(* the forced hypothesis is needed: two particles that share the identifier R^0 with
   different masses give a warning and the later value wins *)
Definition vsx := mkVarset "m_01" "m_0" "m_1" (Some 1%nat).
Lemma ex_identifier_collision :
  collect_params lib_params [Some (B_BW, pR, vsx); Some (B_BW, pR', vsx)] ([], []) =
  inr ([("m_{R^0}", 7#4); ("\Gamma_{R^0}", 1#5)],
       [("m_{R^0}", 7#4, 3#2); ("\Gamma_{R^0}", 1#5, 1#10)])
  /\ identifier pR = identifier pR' /\ p_mass pR <> p_mass pR'.
Proof. split; [vm_compute; reflexivity|]. split; [reflexivity|discriminate]. Qed.

(* the amplitude identity is not vacuous: complex numbers / any commutative monoid, e.g. Z *)
Lemma ex_factor_Z :
  amp_with_dynamics Z Z.mul 1%Z (fun b _ _ => Z.of_nat b + 2)%Z (Some 5%Z) (Some (-1)%Z) [3; 7]%Z
     [Some (B_BW, pA, vsx); None]
  = (amp_without_dynamics Z Z.mul 1%Z (Some 5%Z) (Some (-1)%Z) [3; 7]%Z * 3)%Z.
Proof. vm_compute. reflexivity. Qed.

Lemma pinned_refuted_lemma :
  exists r chains h sel b t n d ch,
    init_pinned r = inr ch /\ chains_covered r chains = true /\ In t chains /\
    In (sel, b) h /\ from_transition t n = inr d /\ denotes sel d = true /\
    node_dynamics (run_history ch h) t n = inr None.
Proof.
  destruct ex_pinned_dropped as (ch & A & B & C & D & E & F).
  exists exR, exChains, exH, (SelStr "R"), B_BW, exG, 1%Z, dG1, ch.
  repeat split; auto. left; reflexivity.
Qed.

Lemma varset_node_local_lemma : forall t d,
  v_m (varset_of t d) = mass_name (leaves t (w_id (d_parent d))) /\
  v_ma (varset_of t d) = mass_name (leaves t (w_id (d_c1 d))) /\
  v_mb (varset_of t d) = mass_name (leaves t (w_id (d_c2 d))) /\
  v_L (varset_of t d) =
    match i_l (d_int d) with
    | Some l => Some l
    | None => if Nat.even (p_spin2 (parent_particle d))
              then Some (Nat.div2 (p_spin2 (parent_particle d))) else None
    end /\
  forall t' d',
    leaves t (w_id (d_parent d)) = leaves t' (w_id (d_parent d')) ->
    leaves t (w_id (d_c1 d)) = leaves t' (w_id (d_c1 d')) ->
    leaves t (w_id (d_c2 d)) = leaves t' (w_id (d_c2 d')) ->
    i_l (d_int d) = i_l (d_int d') -> p_spin2 (parent_particle d) = p_spin2 (parent_particle d') ->
    varset_of t d = varset_of t' d'.
Proof.
  intros t d. destruct (varset_names t d) as (A & B & C).
  split; [exact A|]. split; [exact B|]. split; [exact C|]. split; [apply varset_L|].
  intros; apply varset_local; auto.
Qed.

Lemma equal_names_refuted_lemma :
  exists calls ds ws p q,
    collect_params lib_params calls ([], []) = inr (ds, ws) /\ ws <> [] /\
    In (Some (B_BW, p, vsx)) calls /\ In (Some (B_BW, q, vsx)) calls /\
    identifier p = identifier q /\ p_mass p <> p_mass q /\
    plookup ds (mass_par p) = Some (p_mass q).
Proof.
  destruct ex_identifier_collision as (A & B & C).
  eexists _, _, _, pR, pR'. split; [exact A|].
  split; [discriminate|]. split; [left; reflexivity|]. split; [right; left; reflexivity|].
  split; [exact B|]. split; [exact C|]. vm_compute. reflexivity.
Qed.
