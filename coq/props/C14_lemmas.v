(* C14_lemmas.v — instantiation of the generic theorems (coq/theories/Uneval_proofs.v) on the class
   table regenerated from /repo on this run (build/C14/ClassTable.v), and the concrete witnesses. *)
From Coq Require Import String List ZArith QArith Bool.
From AV Require Import Uneval Uneval_proofs.
From AVchk Require Import ClassTable.
Import ListNotations.
Open Scope string_scope.

Definition T := gen_table.

Lemma gen_wf : wf_table T = true.
Proof. vm_compute. reflexivity. Qed.

Lemma gen_nonempty : Nat.ltb 20 (length T) = true.
Proof. vm_compute. reflexivity. Qed.

(* ---- names used by the witnesses ---- *)
Definition cPSF := "ampform.dynamics.phasespace.PhaseSpaceFactor".
Definition cBMS := "ampform.dynamics.phasespace.BreakupMomentumSquared".
Definition cBW := "ampform.dynamics.form_factor.BlattWeisskopfSquared".
Definition cKallen := "ampform.kinematics.phasespace.Kallen".
Definition cBZ := "ampform.kinematics.lorentz.BoostZMatrix".
Definition cAS := "ampform.kinematics.lorentz.ArraySize".
Definition sy (n : string) : expr := Sym ("Symbol('" ++ n ++ "')").
Definition sn (n : string) : string := "Symbol('" ++ n ++ "')".

(* PhaseSpaceFactor(BreakupMomentumSquared(s, m1, m2), m1, m2).xreplace({m1: x}) *)
Definition w_nested : expr :=
  Unev cPSF [Unev cBMS [sy "s"; sy "m1"; sy "m2"] [ANone]; sy "m1"; sy "m2"] [ANone].
Definition w_map : smap := [(sn "m1", sy "x")].

Lemma l_commute s n e :
  avoids T s = true -> images_ok T s = true -> wfi T e = true -> stableF T s n e = true ->
  doitF T n (xreplace T Shallow (rule_of s) [] e) = sub s (doitF T n e) /\
  (wfi T (doitF T n e) = true ->
   doitF T n (xreplace T Shallow (rule_of s) [] e) = xreplace T Shallow (rule_of s) [] (doitF T n e)).
Proof. intros. apply xreplace_doit_commute_gen; auto using gen_wf. Qed.

Lemma l_subs_commute x w n e :
  avoids T [(x, w)] = true -> images_ok T [(x, w)] = true -> wfi T e = true -> stableF T [(x, w)] n e = true ->
  doitF T n (subs1 T Shallow (Sym x) w e) = sub [(x, w)] (doitF T n e).
Proof.
  intros A I W S. rewrite subs1_shallow_is_substitution by exact W.
  rewrite <- (xreplace_shallow_is_substitution T [(x, w)] e W).
  apply (l_commute [(x, w)] n e A I W S).
Qed.

Lemma l_reaches s e : wfi T e = true -> xreplace T Shallow (rule_of s) [] e = sub s e.
Proof. apply xreplace_shallow_is_substitution. Qed.

Lemma l_reaches_subs x w e : wfi T e = true -> subs1 T Shallow (Sym x) w e = sub [(x, w)] e.
Proof. apply subs1_shallow_is_substitution. Qed.

Lemma neq_of_eqb a b : expr_eqb a b = false -> a <> b.
Proof. intros H E. apply expr_eqb_eq in E. congruence. Qed.

Lemma l_deep_refuted :
  exists e s, wfi T e = true /\ xreplace T Deep (rule_of s) [] e <> sub s e /\
              (* the nested argument has become a Tuple and still mentions m1 *)
              xreplace T Deep (rule_of s) [] e =
              Unev cPSF [App "sympy.core.containers.Tuple" [sy "s"; sy "m1"; sy "m2"; App "py:None" []];
                         sy "x"; sy "m2"] [ANone].
Proof.
  exists w_nested, w_map. split; [vm_compute; reflexivity|]. split.
  - apply neq_of_eqb. vm_compute. reflexivity.
  - vm_compute. reflexivity.
Qed.

Lemma l_eq_iff_content a b : eqb a b = true <-> content a = content b.
Proof. apply eqb_iff_content. Qed.

Lemma l_hash (H : cexpr -> Z) a b : eqb a b = true -> H (content a) = H (content b).
Proof. intros E. apply eqb_iff_content in E. rewrite E. reflexivity. Qed.

Lemma l_eq_iff_equal S a b :
  conv_inj_on S -> incl (attrs_of a) S -> incl (attrs_of b) S -> (eqb a b = true <-> a = b).
Proof.
  intros Hi Ia Ib. rewrite eqb_iff_content. split; [apply (content_inj S Hi); auto | intros ->; reflexivity].
Qed.

(* None / strings that are neither "builtins.NoneType" nor a class name / callables: no collision *)
Lemma conv_inj_example : conv_inj_on [ANone; AStr "rho"; AObj "uneval_ir.pool_function"].
Proof.
  intros a b Ha Hb E. cbn in Ha, Hb.
  repeat (destruct Ha as [<-|Ha]; [repeat (destruct Hb as [<-|Hb]; [first [reflexivity | discriminate E]|]); contradiction|]).
  contradiction.
Qed.

Definition w_coll_a : expr := Unev cBMS [sy "s"; Num 1; Num 2] [AStr "builtins.NoneType"].
Definition w_coll_b : expr := Unev cBMS [sy "s"; Num 1; Num 2] [ANone].

Lemma l_collision :
  wfi T w_coll_a = true /\ wfi T w_coll_b = true /\ eqb w_coll_a w_coll_b = true /\ w_coll_a <> w_coll_b.
Proof.
  repeat split; try (vm_compute; reflexivity). apply neq_of_eqb. vm_compute. reflexivity.
Qed.

Lemma l_func_args c ci args attrs :
  lookup T c = Some ci -> all_sympy ci = true -> wfi T (Unev c args attrs) = true ->
  func T (Unev c args attrs) (args_of (Unev c args attrs)) = Unev c args attrs.
Proof. apply func_args_id. Qed.

(* ---- non-vacuity ---- *)
Definition fuel := 12%nat.
Definition w_num_map : smap := [(sn "m1", Num (3 # 2)); (sn "s", sy "t")].

Lemma ex_hyps_satisfiable :
  avoids T w_num_map = true /\ images_ok T w_num_map = true /\ wfi T w_nested = true /\
  stableF T w_num_map fuel w_nested = true /\ wfi T (doitF T fuel w_nested) = true /\
  unfolded T (doitF T fuel w_nested) = true /\
  expr_eqb (doitF T fuel w_nested) w_nested = false.
Proof. repeat split; vm_compute; reflexivity. Qed.

(* the guard side condition is necessary: L -> 2 switches BlattWeisskopfSquared from the Hankel
   formula to the polynomial; stableF detects it and the two sides are different trees *)
Definition w_bw : expr := Unev cBW [sy "z"; sy "L"] [].
Definition w_bw_map : smap := [(sn "L", Num 2)].
Lemma ex_guard_needed :
  wfi T w_bw = true /\ avoids T w_bw_map = true /\ images_ok T w_bw_map = true /\
  stableF T w_bw_map fuel w_bw = false /\
  expr_eqb (doitF T fuel (xreplace T Shallow (rule_of w_bw_map) [] w_bw))
           (sub w_bw_map (doitF T fuel w_bw)) = false.
Proof. repeat split; vm_compute; reflexivity. Qed.

Lemma ex_all_sympy_class : exists ci, lookup T cKallen = Some ci /\ all_sympy ci = true.
Proof. eexists. split; vm_compute; reflexivity. Qed.

(* ---- keyword construction: the stored arguments follow the DECLARATION order of the fields, whatever
   the order in which the caller wrote the keywords (_extract_field_values iterates the fields) ---- *)
From Coq Require Import Permutation.

Fixpoint kw_get (kw : list (string * val)) (n : string) : option val :=
  match kw with
  | [] => None
  | (k, v) :: kw' => if String.eqb k n then Some v else kw_get kw' n
  end.

(* positional prefix [pos], then for every remaining field its keyword, else its default *)
Fixpoint extract (fs : list field) (pos : list val) (kw : list (string * val)) : option (list val) :=
  match fs, pos with
  | [], [] => Some []
  | [], _ :: _ => None
  | f :: fs', v :: pos' => option_map (cons v) (extract fs' pos' kw)
  | f :: fs', [] =>
      match kw_get kw (fname f), fdef f with
      | Some v, _ => option_map (cons v) (extract fs' [] kw)
      | None, DE e => option_map (cons (VE e)) (extract fs' [] kw)
      | None, DA a => option_map (cons (VA a)) (extract fs' [] kw)
      | None, DNone => None
      end
  end.

Definition new_kw (c : string) (pos : list val) (kw : list (string * val)) : expr :=
  match lookup T c with
  | None => err "class"
  | Some ci => match extract (cfields ci) pos kw with
               | Some vs => new T c vs
               | None => err "arguments"
               end
  end.

Lemma kw_get_perm kw kw' n :
  NoDup (map fst kw) -> Permutation kw kw' -> kw_get kw n = kw_get kw' n.
Proof.
  intros ND P. induction P as [| [k v] l l' P IH | [k1 v1] [k2 v2] l | l l' l'' P1 IH1 P2 IH2].
  - reflexivity.
  - cbn in *. inversion ND; subst. rewrite IH; auto.
  - cbn in *. inversion ND as [|? ? Hin ND']; subst.
    destruct (String.eqb k1 n) eqn:E1, (String.eqb k2 n) eqn:E2; auto.
    apply String.eqb_eq in E1, E2. subst. exfalso. apply Hin. left. reflexivity.
  - rewrite IH1 by exact ND. apply IH2.
    eapply Permutation_NoDup; [apply Permutation_map; exact P1 | exact ND].
Qed.

Lemma extract_perm fs : forall pos kw kw',
  NoDup (map fst kw) -> Permutation kw kw' -> extract fs pos kw = extract fs pos kw'.
Proof.
  induction fs as [|f fs IH]; intros [|v pos] kw kw' ND P; cbn; auto.
  - rewrite (kw_get_perm kw kw' (fname f) ND P), (IH [] kw kw' ND P). reflexivity.
  - rewrite (IH pos kw kw' ND P). reflexivity.
Qed.

Lemma l_kw_order c pos kw kw' :
  NoDup (map fst kw) -> Permutation kw kw' -> new_kw c pos kw = new_kw c pos kw'.
Proof.
  intros ND P. unfold new_kw. destruct (lookup T c); auto. rewrite (extract_perm _ pos kw kw' ND P). reflexivity.
Qed.

(* BoostZMatrix(n_events=n, beta=b) = BoostZMatrix(beta=b, n_events=n) = BoostZMatrix(b, n); args = (b, n) *)
Lemma ex_kw_order :
  new_kw cBZ [] [("n_events", VE (sy "n")); ("beta", VE (sy "b"))] = Unev cBZ [sy "b"; sy "n"] [] /\
  new_kw cBZ [VE (sy "b")] [("n_events", VE (sy "n"))] = Unev cBZ [sy "b"; sy "n"] [].
Proof. split; vm_compute; reflexivity. Qed.
