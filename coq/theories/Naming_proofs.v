(* Naming_proofs.v — theorems about the model in Naming.v (independent of /repo). *)
From Coq Require Import ZArith List Bool Lia.
From AV Require Import Naming.
Import ListNotations.
Open Scope Z_scope.

(* ---------- decidable key equality ---------- *)
Lemma oZ_eqb_eq a b : oZ_eqb a b = true <-> a = b.
Proof.
  destruct a, b; simpl; split; intro H; try discriminate; try reflexivity.
  - apply Z.eqb_eq in H. now subst.
  - inversion H. apply Z.eqb_refl.
Qed.
Lemma part_eqb_eq a b : part_eqb a b = true <-> a = b.
Proof.
  destruct a as [a1 a2], b as [b1 b2]. unfold part_eqb. simpl.
  rewrite andb_true_iff, Z.eqb_eq, oZ_eqb_eq. split.
  - intros [-> ->]. reflexivity.
  - intro H. inversion H. auto.
Qed.
Lemma arrow_eqb_eq a b : arrow_eqb a b = true <-> a = b.
Proof.
  destruct a as [[a1 a2]|], b as [[b1 b2]|]; simpl; split; intro H; try discriminate; try reflexivity.
  - apply andb_true_iff in H. destruct H as [H1 H2]. apply Z.eqb_eq in H1, H2. now subst.
  - inversion H. now rewrite !Z.eqb_refl.
Qed.
Lemma key_eqb_eq a b : key_eqb a b = true <-> a = b.
Proof.
  destruct a, b. unfold key_eqb. simpl.
  rewrite !andb_true_iff, !part_eqb_eq, arrow_eqb_eq. split.
  - intros [[[-> ->] ->] ->]. reflexivity.
  - intro H. inversion H. auto.
Qed.
Lemma key_eqb_refl a : key_eqb a a = true.
Proof. now apply key_eqb_eq. Qed.
Lemma key_eqb_neq a b : key_eqb a b = false <-> a <> b.
Proof.
  split.
  - intros H E. apply key_eqb_eq in E. congruence.
  - intro H. destruct (key_eqb a b) eqn:E; auto. apply key_eqb_eq in E. contradiction.
Qed.
Lemma key_eq_dec (a b : key) : {a = b} + {a <> b}.
Proof.
  destruct (key_eqb a b) eqn:E.
  - left. now apply key_eqb_eq.
  - right. now apply key_eqb_neq.
Qed.

(* ---------- dict lemmas ---------- *)
Lemma lookup_upd_same m k v : lookup (upd m k v) k = Some v.
Proof.
  induction m as [|[k' v'] r IH]; simpl.
  - now rewrite key_eqb_refl.
  - destruct (key_eqb k' k) eqn:E; simpl.
    + now rewrite key_eqb_refl.
    + now rewrite E.
Qed.
Lemma lookup_upd_other m k v k' : k' <> k -> lookup (upd m k v) k' = lookup m k'.
Proof.
  intro N. induction m as [|[k0 v0] r IH]; simpl.
  - destruct (key_eqb k k') eqn:E; auto. apply key_eqb_eq in E. congruence.
  - destruct (key_eqb k0 k) eqn:E; simpl.
    + apply key_eqb_eq in E. subst k0.
      destruct (key_eqb k k') eqn:E'; auto. apply key_eqb_eq in E'. congruence.
    + destruct (key_eqb k0 k'); auto.
Qed.

(* ---------- the parity-partner operation on keys ---------- *)
(* reverse both daughter helicities; drop the parent helicity and the LS arrow
   (this is what pp_par_name_suffix does to the printed suffix) *)
Definition kpp (k : key) : key :=
  mkKey (fst (k_parent k), None) None
        (fst (k_c1 k), option_map Z.opp (snd (k_c1 k)))
        (fst (k_c2 k), option_map Z.opp (snd (k_c2 k))).

(* the naming flags of HelicityAmplitudeBuilder's default generator: the only ones under which a
   partner suffix can coincide with a registered suffix *)
Definition is_std (fl : flags) : bool := negb (ins_parent fl) && ins_child fl && negb (ins_ls fl).

Lemma ppk_kpp fl n : ins_child fl = true -> ppk n = kpp (raw fl n).
Proof.
  intro H. unfold ppk, raw, kpp. destruct (sorted_children n) as [c1 c2]. simpl.
  unfold str_part, str_part_pp. rewrite H. reflexivity.
Qed.

Lemma kpp_invol_raw fl n : is_std fl = true -> kpp (kpp (raw fl n)) = raw fl n.
Proof.
  unfold is_std. destruct fl as [a b c]. simpl. intro H.
  destruct a, b, c; try discriminate.
  unfold raw, kpp. destruct (sorted_children n) as [c1 c2]. simpl.
  unfold str_part. simpl. now rewrite !Z.opp_involutive.
Qed.

(* with any other flags a partner suffix has a different shape from every raw suffix *)
Lemma ppk_not_raw fl n n' : is_std fl = false -> ppk n <> raw fl n'.
Proof.
  unfold is_std. destruct fl as [a b c]. simpl. intros H E.
  unfold ppk, raw in E.
  destruct (sorted_children n) as [c1 c2], (sorted_children n') as [d1 d2]. simpl in E.
  unfold str_part, str_part_pp in E.
  destruct a, b, c; simpl in *; try discriminate.
Qed.

(* ---------- the registration invariant ---------- *)
Definition Inv (fl : flags) (m : mapping) : Prop :=
  forall x y, lookup m x = Some y ->
    (exists n, x = raw fl n) /\
    (y = x \/ (is_std fl = true /\ y = kpp x)) /\
    lookup m y = Some y.

Lemma inv_nil fl : Inv fl [].
Proof. intros x y H. discriminate. Qed.

Lemma inv_add_self fl m n :
  Inv fl m -> lookup m (raw fl n) = None -> Inv fl (upd m (raw fl n) (raw fl n)).
Proof.
  intros I Hr x y H.
  destruct (key_eq_dec x (raw fl n)) as [->|N].
  - rewrite lookup_upd_same in H. inversion H; subst y.
    split; [eauto|]. split; [now left|]. apply lookup_upd_same.
  - rewrite lookup_upd_other in H by exact N.
    destruct (I _ _ H) as (A & B & C). split; [exact A|]. split; [exact B|].
    destruct (key_eq_dec y (raw fl n)) as [->|N']; [apply lookup_upd_same|].
    now rewrite lookup_upd_other.
Qed.

Lemma inv_step fl m n : Inv fl m -> Inv fl (reg_node fl m n).
Proof.
  intros I. unfold reg_node.
  destruct (nd_eta n); [|exact I].
  destruct (lookup m (raw fl n)) eqn:Hr; [exact I|].
  destruct (lookup m (ppk n)) as [k|] eqn:Hp; [|now apply inv_add_self].
  destruct (I _ _ Hp) as [[n' Hn'] [Hk Hkk]].
  destruct (is_std fl) eqn:Hs; [|exfalso; eapply ppk_not_raw; eauto].
  assert (Hc : ins_child fl = true).
  { unfold is_std in Hs. destruct (ins_child fl); auto. now rewrite andb_false_r in Hs. }
  assert (Hpp : ppk n = kpp (raw fl n)) by now apply ppk_kpp.
  assert (Hinv : kpp (ppk n) = raw fl n) by (rewrite Hpp; now apply kpp_invol_raw).
  assert (k = ppk n).
  { destruct Hk as [|[_ Hk]]; auto. exfalso. rewrite Hinv in Hk. subst k. congruence. }
  subst k.
  assert (Hne : ppk n <> raw fl n) by (intro E; rewrite E in Hp; congruence).
  (* images registered so far are never the new raw suffix *)
  assert (Himg : forall x y, lookup m x = Some y -> y <> raw fl n).
  { intros x y H E. destruct (I _ _ H) as (_ & _ & C). subst y. congruence. }
  destruct (key_eqb (ppk n) (prio fl n)).
  - (* mapping[raw] = partner *)
    intros x y H.
    destruct (key_eq_dec x (raw fl n)) as [->|N].
    + rewrite lookup_upd_same in H. inversion H; subst y.
      split; [eauto|]. split; [right; split; [exact Hs|exact Hpp]|].
      now rewrite lookup_upd_other.
    + rewrite lookup_upd_other in H by exact N.
      destruct (I _ _ H) as (A & B & C). split; [exact A|]. split; [exact B|].
      rewrite lookup_upd_other; [exact C|]. eapply Himg; eauto.
  - (* mapping[partner] = raw ; mapping[raw] = raw *)
    intros x y H.
    destruct (key_eq_dec x (raw fl n)) as [->|N].
    + rewrite lookup_upd_same in H. inversion H; subst y.
      split; [eauto|]. split; [now left|]. apply lookup_upd_same.
    + rewrite lookup_upd_other in H by exact N.
      destruct (key_eq_dec x (ppk n)) as [->|N2].
      * rewrite lookup_upd_same in H. inversion H; subst y.
        split; [eauto|]. split; [right; split; [exact Hs|now rewrite Hinv]|].
        apply lookup_upd_same.
      * rewrite lookup_upd_other in H by exact N2.
        destruct (I _ _ H) as (A & B & C). split; [exact A|]. split; [exact B|].
        assert (y <> raw fl n) by (eapply Himg; eauto).
        rewrite lookup_upd_other by assumption.
        rewrite lookup_upd_other; [exact C|].
        (* y = partner would force x = raw by involution *)
        intro E. subst y. destruct B as [B|[_ B]]; [congruence|].
        destruct A as [n2 ->]. apply N.
        rewrite <- (kpp_invol_raw fl n2 Hs), <- B. exact Hinv.
Qed.

Lemma inv_transition fl t : forall m, Inv fl m -> Inv fl (reg_transition fl m t).
Proof.
  unfold reg_transition. induction t as [|n t IH]; simpl; intros m I; [exact I|].
  apply IH. now apply inv_step.
Qed.

Lemma inv_fold fl ts : forall m, Inv fl m -> Inv fl (fold_left (reg_transition fl) ts m).
Proof.
  induction ts as [|t ts IH]; simpl; intros m I; [exact I|].
  apply IH. now apply inv_transition.
Qed.

Theorem inv_register fl ts : Inv fl (register fl ts).
Proof. apply inv_fold, inv_nil. Qed.

(* ---------- consequences ---------- *)
Theorem mapping_invariant_proof :
  forall fl ts x y, lookup (register fl ts) x = Some y ->
    (y = x \/ y = kpp x) /\ lookup (register fl ts) y = Some y.
Proof.
  intros fl ts x y H. destruct (inv_register fl ts _ _ H) as (_ & B & C).
  split; [|exact C]. destruct B as [B|[_ B]]; auto.
Qed.

Theorem no_coupling_proof :
  forall fl ts, is_std fl = false ->
    forall x y, lookup (register fl ts) x = Some y -> y = x.
Proof.
  intros fl ts Hs x y H. destruct (inv_register fl ts _ _ H) as (_ & B & _).
  destruct B as [B|[B _]]; [exact B|congruence].
Qed.

Lemma flipped_false_nonstd fl ts n : is_std fl = false -> flipped fl (register fl ts) n = false.
Proof.
  intro Hs. unfold flipped. destruct (lookup _ _) eqn:H; auto.
  apply (no_coupling_proof fl ts Hs) in H. subst k. now rewrite key_eqb_refl.
Qed.

Lemma pref_fold_one fl m t :
  (forall n, In n t -> flipped fl m n = false) -> forall a, fold_left (pref_step fl m) t a = a.
Proof.
  induction t as [|n t IH]; simpl; intros H a; auto.
  rewrite IH by (intros; apply H; auto).
  unfold pref_step. destruct (nd_eta n); auto. rewrite H; auto.
Qed.

Theorem no_coupling_prefactor_proof :
  forall fl ts t, is_std fl = false ->
    prefactor fl (register fl ts) t = 1 /\ seq_suffix fl (register fl ts) t = map (raw fl) t.
Proof.
  intros fl ts t Hs. split.
  - unfold prefactor. apply pref_fold_one. intros. now apply flipped_false_nonstd.
  - unfold seq_suffix. apply map_ext. intro n. unfold image.
    destruct (lookup _ _) eqn:H; auto. now apply (no_coupling_proof fl ts Hs) in H.
Qed.

(* every parity-constrained node of a registered transition has its suffix in the table *)
Lemma lookup_upd_mono m k v x : lookup m x <> None -> lookup (upd m k v) x <> None.
Proof.
  intro H. destruct (key_eq_dec x k) as [->|N].
  - rewrite lookup_upd_same. discriminate.
  - now rewrite lookup_upd_other.
Qed.
Lemma reg_node_mono fl m n x : lookup m x <> None -> lookup (reg_node fl m n) x <> None.
Proof.
  intro H. unfold reg_node. destruct (nd_eta n); auto.
  destruct (lookup m (raw fl n)); auto.
  destruct (lookup m (ppk n)); [destruct (key_eqb _ _)|]; repeat apply lookup_upd_mono; auto.
Qed.
Lemma reg_node_self fl m n : nd_eta n <> None -> lookup (reg_node fl m n) (raw fl n) <> None.
Proof.
  intro H. unfold reg_node. destruct (nd_eta n); [|congruence].
  destruct (lookup m (raw fl n)) eqn:E; [congruence|].
  destruct (lookup m (ppk n)); [destruct (key_eqb _ _)|]; rewrite lookup_upd_same; discriminate.
Qed.
Lemma reg_transition_mono fl t : forall m x, lookup m x <> None -> lookup (reg_transition fl m t) x <> None.
Proof.
  unfold reg_transition. induction t as [|n t IH]; simpl; intros; auto. apply IH. now apply reg_node_mono.
Qed.
Lemma reg_fold_mono fl ts : forall m x, lookup m x <> None -> lookup (fold_left (reg_transition fl) ts m) x <> None.
Proof.
  induction ts as [|t ts IH]; simpl; intros; auto. apply IH. now apply reg_transition_mono.
Qed.
Lemma reg_transition_complete fl t : forall m n, In n t -> nd_eta n <> None ->
  lookup (reg_transition fl m t) (raw fl n) <> None.
Proof.
  unfold reg_transition. induction t as [|a t IH]; simpl; intros m n Hin He; [contradiction|].
  destruct Hin as [->|Hin].
  - apply (reg_transition_mono fl t). now apply reg_node_self.
  - now apply IH.
Qed.
Theorem registered_complete_proof :
  forall fl ts t n, In t ts -> In n t -> nd_eta n <> None -> lookup (register fl ts) (raw fl n) <> None.
Proof.
  intros fl ts. unfold register. generalize (@nil (key * key)).
  induction ts as [|a ts IH]; simpl; intros m t n Ht Hn He; [contradiction|].
  destruct Ht as [->|Ht].
  - apply reg_fold_mono. now apply reg_transition_complete.
  - eapply IH; eauto.
Qed.

(* ---------- prefactor = product over the flipped nodes ---------- *)
Definition eta1 (n : node) : Z := match nd_eta n with Some e => e | None => 1 end.
Definition contrib (fl : flags) (m : mapping) (n : node) : Z :=
  if flipped fl m n then eta1 n else 1.
Fixpoint prodZ (l : list Z) : Z := match l with [] => 1 | x :: r => x * prodZ r end.

Lemma pref_step_contrib fl m a n : pref_step fl m a n = a * contrib fl m n.
Proof.
  unfold pref_step, contrib, eta1. destruct (nd_eta n); destruct (flipped fl m n); lia.
Qed.
Lemma pref_fold fl m t : forall a, fold_left (pref_step fl m) t a = a * prodZ (map (contrib fl m) t).
Proof.
  induction t as [|n t IH]; simpl; intro a; [lia|]. rewrite IH, pref_step_contrib. ring.
Qed.
Lemma prodZ_filter fl m t :
  prodZ (map (contrib fl m) t) = prodZ (map eta1 (filter (flipped fl m) t)).
Proof.
  induction t as [|n t IH]; [reflexivity|]. cbn [map filter prodZ]. unfold contrib at 1.
  destruct (flipped fl m n); cbn [map prodZ]; rewrite IH; ring.
Qed.

(* the chain's factor is the product of eta over exactly its flipped nodes *)
Theorem prefactor_flipped_product_proof :
  forall fl m t, prefactor fl m t = prodZ (map eta1 (filter (flipped fl m) t)).
Proof.
  intros. unfold prefactor. rewrite pref_fold, prodZ_filter. lia.
Qed.

(* a flipped node is one whose coefficient is named after the suffix with both daughter
   helicities reversed (and this only happens with the standard flags) *)
Theorem flipped_is_reversed_proof :
  forall fl ts n, flipped fl (register fl ts) n = true ->
    is_std fl = true /\ image fl (register fl ts) n = kpp (raw fl n) /\ kpp (raw fl n) <> raw fl n.
Proof.
  intros fl ts n H. unfold flipped in H. unfold image.
  destruct (lookup (register fl ts) (raw fl n)) as [v|] eqn:E; [|discriminate].
  apply negb_true_iff, key_eqb_neq in H.
  destruct (inv_register fl ts _ _ E) as (_ & B & _).
  destruct B as [B|[Hs B]]; [congruence|]. subst v. auto.
Qed.

(* ---------- relative sign of two chains that share a coefficient ---------- *)
Definition pm1 (z : Z) : Prop := z = 1 \/ z = -1.

(* eta over the positions where the two chains' raw suffixes differ *)
Fixpoint diff_eta (fl : flags) (c1 c2 : transition) : Z :=
  match c1, c2 with
  | n1 :: r1, n2 :: r2 =>
      (if key_eqb (raw fl n1) (raw fl n2) then 1 else eta1 n1) * diff_eta fl r1 r2
  | _, _ => 1
  end.

(* at every position the suffixes agree or are helicity-reversed images of one another *)
Fixpoint reversed_where_different (fl : flags) (c1 c2 : transition) : Prop :=
  match c1, c2 with
  | n1 :: r1, n2 :: r2 =>
      (raw fl n1 = raw fl n2 \/ (raw fl n2 = kpp (raw fl n1) /\ raw fl n1 = kpp (raw fl n2)))
      /\ reversed_where_different fl r1 r2
  | [], [] => True
  | _, _ => False
  end.

Lemma image_cases fl ts n :
  image fl (register fl ts) n = raw fl n /\ flipped fl (register fl ts) n = false
  \/ is_std fl = true /\ image fl (register fl ts) n = kpp (raw fl n)
     /\ kpp (raw fl n) <> raw fl n /\ flipped fl (register fl ts) n = true.
Proof.
  destruct (flipped fl (register fl ts) n) eqn:F.
  - right. destruct (flipped_is_reversed_proof fl ts n F) as (A & B & C). auto.
  - left. split; auto. unfold flipped in F. unfold image.
    destruct (lookup _ _); auto. apply negb_false_iff, key_eqb_eq in F. exact F.
Qed.

Theorem relative_sign_proof :
  forall fl ts c1 c2,
    seq_suffix fl (register fl ts) c1 = seq_suffix fl (register fl ts) c2 ->
    Forall2 (fun n1 n2 => nd_eta n1 = nd_eta n2 /\ pm1 (eta1 n1)) c1 c2 ->
    prefactor fl (register fl ts) c1 * prefactor fl (register fl ts) c2 = diff_eta fl c1 c2
    /\ reversed_where_different fl c1 c2.
Proof.
  intros fl ts c1 c2 Hs HF. unfold prefactor. rewrite !pref_fold, !Z.mul_1_l.
  set (m := register fl ts) in *.
  revert Hs. induction HF as [|n1 n2 r1 r2 [He Hpm] HF IH]; simpl; intro Hs; [split; auto|].
  inversion Hs as [[Hi Hr]]. destruct (IH Hr) as [IH1 IH2]. clear IH.
  assert (E12 : eta1 n2 = eta1 n1) by (unfold eta1; now rewrite He).
  assert (Hsq : eta1 n1 * eta1 n1 = 1) by (destruct Hpm as [->| ->]; reflexivity).
  change (contrib fl m n1) with (if flipped fl m n1 then eta1 n1 else 1).
  change (contrib fl m n2) with (if flipped fl m n2 then eta1 n2 else 1). rewrite E12.
  destruct (image_cases fl ts n1) as [[I1 F1]|(S1 & I1 & N1 & F1)];
  destruct (image_cases fl ts n2) as [[I2 F2]|(S2 & I2 & N2 & F2)];
  fold m in I1, F1, I2, F2; rewrite F1, F2; rewrite I1, I2 in Hi; cbv iota.
  - rewrite Hi, key_eqb_refl. split; [rewrite <- IH1; ring|split; auto].
  - assert (D : key_eqb (raw fl n1) (raw fl n2) = false) by (apply key_eqb_neq; congruence).
    rewrite D. split; [rewrite <- IH1; ring|]. split; auto. right. split.
    + rewrite Hi. now rewrite kpp_invol_raw.
    + exact Hi.
  - assert (D : key_eqb (raw fl n1) (raw fl n2) = false) by (apply key_eqb_neq; congruence).
    rewrite D. split; [rewrite <- IH1; ring|]. split; auto. right. split.
    + now rewrite Hi.
    + rewrite <- Hi. now rewrite kpp_invol_raw.
  - assert (E : raw fl n1 = raw fl n2).
    { rewrite <- (kpp_invol_raw fl n1 S1), <- (kpp_invol_raw fl n2 S2). now rewrite Hi. }
    rewrite E, key_eqb_refl. split; [|split; auto].
    rewrite <- IH1.
    transitivity ((eta1 n1 * eta1 n1) * (prodZ (map (contrib fl m) r1) * prodZ (map (contrib fl m) r2))); [ring|].
    rewrite Hsq. ring.
Qed.

(* ---------- the pre-fix prefactor is refuted ---------- *)
Definition wit_fl := mkFlags false true false.
Definition wit_state (pid h : Z) := mkState pid pid h.
(* top node eta = -1, second node eta = +1; the second chain flips only the second node *)
Definition wit_chain (h : Z) : transition :=
  [ mkNode (wit_state 0 2) (wit_state 1 1) (wit_state 2 1) 2 0 (Some (-1));
    mkNode (wit_state 1 1) (wit_state 3 0) (wit_state 4 h) 0 1 (Some 1) ].
Definition wit_ts := [wit_chain 1; wit_chain (-1)].

Lemma pinned_witness :
  let m := register wit_fl wit_ts in
  seq_suffix wit_fl m (wit_chain 1) = seq_suffix wit_fl m (wit_chain (-1))
  /\ diff_eta wit_fl (wit_chain 1) (wit_chain (-1)) = 1
  /\ prefactor wit_fl m (wit_chain 1) * prefactor wit_fl m (wit_chain (-1)) = 1
  /\ prefactor_pinned wit_fl m (wit_chain 1) * prefactor_pinned wit_fl m (wit_chain (-1)) = -1.
Proof. vm_compute. repeat split; reflexivity. Qed.
