(* Rot3.v — 3x3 real matrices, independent of /repo: the matrix algebra and the stabiliser
   argument used by C04's general-rotation bridge (coq/props/C04_general.v).
   A proper rotation that fixes the z axis is a rotation about z. *)
From Coq Require Import Reals Lra Psatz.
From AV Require Import DenR Mat.
Open Scope R_scope.

Record V3 := mkv { vx : R; vy : R; vz : R }.
Record M3 := mk3 { a11 : R; a12 : R; a13 : R; a21 : R; a22 : R; a23 : R; a31 : R; a32 : R; a33 : R }.

Definition id3 : M3 := mk3 1 0 0 0 1 0 0 0 1.
Definition tr3 (A : M3) : M3 :=
  mk3 (a11 A) (a21 A) (a31 A) (a12 A) (a22 A) (a32 A) (a13 A) (a23 A) (a33 A).
Definition mul3 (A B : M3) : M3 :=
  mk3 (a11 A * a11 B + a12 A * a21 B + a13 A * a31 B) (a11 A * a12 B + a12 A * a22 B + a13 A * a32 B)
      (a11 A * a13 B + a12 A * a23 B + a13 A * a33 B)
      (a21 A * a11 B + a22 A * a21 B + a23 A * a31 B) (a21 A * a12 B + a22 A * a22 B + a23 A * a32 B)
      (a21 A * a13 B + a22 A * a23 B + a23 A * a33 B)
      (a31 A * a11 B + a32 A * a21 B + a33 A * a31 B) (a31 A * a12 B + a32 A * a22 B + a33 A * a32 B)
      (a31 A * a13 B + a32 A * a23 B + a33 A * a33 B).
Definition mulv (A : M3) (v : V3) : V3 :=
  mkv (a11 A * vx v + a12 A * vy v + a13 A * vz v)
      (a21 A * vx v + a22 A * vy v + a23 A * vz v)
      (a31 A * vx v + a32 A * vy v + a33 A * vz v).
Definition scal (k : R) (v : V3) : V3 := mkv (k * vx v) (k * vy v) (k * vz v).
Definition dot3 (u v : V3) : R := vx u * vx v + vy u * vy v + vz u * vz v.
Definition det3m (A : M3) : R :=
  det3 (a11 A) (a12 A) (a13 A) (a21 A) (a22 A) (a23 A) (a31 A) (a32 A) (a33 A).
Definition ez : V3 := mkv 0 0 1.

(* rotations about z and y given by a (cos, sin) pair, in the layout of ampform's
   RotationZMatrix / RotationYMatrix (active rotations) *)
Definition rz3 (c s : R) : M3 := mk3 c (- s) 0 s c 0 0 0 1.
Definition ry3 (c s : R) : M3 := mk3 c 0 s 0 1 0 (- s) 0 c.

Definition orth (A : M3) : Prop := mul3 (tr3 A) A = id3.
Definition proper (A : M3) : Prop := orth A /\ det3m A = 1.

Ltac m3 := repeat match goal with A : M3 |- _ => destruct A end;
           repeat match goal with v : V3 |- _ => destruct v end;
           unfold mul3, tr3, mulv, scal, dot3, det3m, det3, id3, rz3, ry3, ez; cbn [a11 a12 a13 a21 a22 a23 a31 a32 a33 vx vy vz].

Lemma mul3_assoc A B C : mul3 (mul3 A B) C = mul3 A (mul3 B C).
Proof. m3. f_equal; ring. Qed.
Lemma mul3_id_l A : mul3 id3 A = A.
Proof. m3. f_equal; ring. Qed.
Lemma mul3_id_r A : mul3 A id3 = A.
Proof. m3. f_equal; ring. Qed.
Lemma tr3_mul A B : tr3 (mul3 A B) = mul3 (tr3 B) (tr3 A).
Proof. m3. f_equal; ring. Qed.
Lemma tr3_tr3 A : tr3 (tr3 A) = A.
Proof. m3. reflexivity. Qed.
Lemma tr3_id : tr3 id3 = id3.
Proof. reflexivity. Qed.
Lemma det3m_mul A B : det3m (mul3 A B) = det3m A * det3m B.
Proof. m3. ring. Qed.
Lemma det3m_tr A : det3m (tr3 A) = det3m A.
Proof. m3. ring. Qed.
Lemma det3m_id : det3m id3 = 1.
Proof. m3. ring. Qed.
Lemma mulv_mul A B v : mulv (mul3 A B) v = mulv A (mulv B v).
Proof. m3. f_equal; ring. Qed.
Lemma mulv_id v : mulv id3 v = v.
Proof. m3. f_equal; ring. Qed.
Lemma mulv_scal A k v : mulv A (scal k v) = scal k (mulv A v).
Proof. m3. f_equal; ring. Qed.
Lemma scal_scal k l v : scal k (scal l v) = scal (k * l) v.
Proof. m3. f_equal; ring. Qed.
Lemma scal_1 v : scal 1 v = v.
Proof. m3. f_equal; ring. Qed.
Lemma dot3_mulv A u v : dot3 (mulv A u) (mulv A v) = dot3 u (mulv (mul3 (tr3 A) A) v).
Proof. m3. ring. Qed.

Lemma orth_norm A v : orth A -> dot3 (mulv A v) (mulv A v) = dot3 v v.
Proof. intros H. rewrite dot3_mulv, H, mulv_id. reflexivity. Qed.

(* for a proper rotation the left inverse A^T is also a right inverse: A A^T = 1.  Proved through the
   adjugate: A adj(A) = det(A) 1, hence A^T = A^T A adj(A) = adj(A) when A^T A = 1 and det A = 1. *)
Definition adj3 (A : M3) : M3 :=
  mk3 (a22 A * a33 A - a23 A * a32 A) (a13 A * a32 A - a12 A * a33 A) (a12 A * a23 A - a13 A * a22 A)
      (a23 A * a31 A - a21 A * a33 A) (a11 A * a33 A - a13 A * a31 A) (a13 A * a21 A - a11 A * a23 A)
      (a21 A * a32 A - a22 A * a31 A) (a12 A * a31 A - a11 A * a32 A) (a11 A * a22 A - a12 A * a21 A).
Definition smul3 (k : R) (A : M3) : M3 :=
  mk3 (k * a11 A) (k * a12 A) (k * a13 A) (k * a21 A) (k * a22 A) (k * a23 A) (k * a31 A) (k * a32 A) (k * a33 A).
Lemma adj3_r A : mul3 A (adj3 A) = smul3 (det3m A) id3.
Proof. destruct A. unfold mul3, adj3, smul3, det3m, det3, id3. cbn [a11 a12 a13 a21 a22 a23 a31 a32 a33]. f_equal; ring. Qed.
Lemma smul3_mul_r k A B : mul3 A (smul3 k B) = smul3 k (mul3 A B).
Proof. destruct A, B. unfold mul3, smul3. cbn [a11 a12 a13 a21 a22 a23 a31 a32 a33]. f_equal; ring. Qed.
Lemma smul3_mul_l k A B : mul3 (smul3 k A) B = smul3 k (mul3 A B).
Proof. destruct A, B. unfold mul3, smul3. cbn [a11 a12 a13 a21 a22 a23 a31 a32 a33]. f_equal; ring. Qed.
Lemma smul3_smul3 k l A : smul3 k (smul3 l A) = smul3 (k * l) A.
Proof. destruct A. unfold smul3. cbn [a11 a12 a13 a21 a22 a23 a31 a32 a33]. f_equal; ring. Qed.
Lemma smul3_1 A : smul3 1 A = A.
Proof. destruct A. unfold smul3. cbn [a11 a12 a13 a21 a22 a23 a31 a32 a33]. f_equal; ring. Qed.

Lemma proper_right_inverse A : proper A -> mul3 A (tr3 A) = id3.
Proof.
  intros [Ho Hd]. unfold orth in Ho.
  (* tr3 A = tr3 A * (A * adj A) = (tr3 A * A) * adj A = adj A  (det = 1) *)
  assert (Ht : tr3 A = adj3 A).
  { rewrite <- (mul3_id_r (tr3 A)). rewrite <- (smul3_1 id3), <- Hd, <- adj3_r.
    rewrite <- mul3_assoc, Ho, mul3_id_l. reflexivity. }
  rewrite Ht, adj3_r, Hd, smul3_1. reflexivity.
Qed.

Lemma proper_mul A B : proper A -> proper B -> proper (mul3 A B).
Proof.
  intros [HA dA] [HB dB]. split.
  - unfold orth in *. rewrite tr3_mul, mul3_assoc, <- (mul3_assoc (tr3 A)), HA, mul3_id_l. exact HB.
  - rewrite det3m_mul, dA, dB. ring.
Qed.
Lemma proper_tr A : proper A -> proper (tr3 A).
Proof.
  intros H. split.
  - unfold orth. rewrite tr3_tr3. apply proper_right_inverse. exact H.
  - rewrite det3m_tr. apply H.
Qed.
Lemma proper_id : proper id3.
Proof. split; [unfold orth; rewrite tr3_id; apply mul3_id_l | apply det3m_id]. Qed.

Lemma proper_rz3 c s : c ^ 2 + s ^ 2 = 1 -> proper (rz3 c s).
Proof. intros H. split; [unfold orth|]; m3; [f_equal; nra | nra]. Qed.
Lemma proper_ry3 c s : c ^ 2 + s ^ 2 = 1 -> proper (ry3 c s).
Proof. intros H. split; [unfold orth|]; m3; [f_equal; nra | nra]. Qed.

(* ---------- the stabiliser of the z axis ---------- *)
Theorem stabiliser_z M : proper M -> mulv M ez = ez ->
  exists c s, c ^ 2 + s ^ 2 = 1 /\ M = rz3 c s.
Proof.
  intros [Ho Hd] Hz. destruct M as [m11 m12 m13 m21 m22 m23 m31 m32 m33].
  unfold orth, mul3, tr3, id3 in Ho. cbn [a11 a12 a13 a21 a22 a23 a31 a32 a33] in Ho.
  unfold mulv, ez in Hz. cbn [a11 a12 a13 a21 a22 a23 a31 a32 a33 vx vy vz] in Hz.
  unfold det3m, det3 in Hd. cbn [a11 a12 a13 a21 a22 a23 a31 a32 a33] in Hd.
  injection Hz as H13 H23 H33. injection Ho as O11 O12 O13 O21 O22 O23 O31 O32 O33.
  assert (m13 = 0) by lra. assert (m23 = 0) by lra. assert (m33 = 1) by lra. subst m13 m23 m33.
  assert (m31 = 0) by lra. assert (m32 = 0) by lra. subst m31 m32.
  assert (Hsq : (m11 - m22) ^ 2 + (m12 + m21) ^ 2 = 0) by nra.
  assert (m11 - m22 = 0 /\ m12 + m21 = 0) as [E1 E2].
  { assert (0 <= (m11 - m22) ^ 2) by nra. assert (0 <= (m12 + m21) ^ 2) by nra. split; nra. }
  exists m11, m21. split; [nra|]. unfold rz3. f_equal; lra.
Qed.

(* a rotation about z acts on the (cos, sin) of an azimuth by addition: delta = atan2 s c *)
Lemma rz3_mul c s c' s' : mul3 (rz3 c s) (rz3 c' s') = rz3 (c * c' - s * s') (s * c' + c * s').
Proof. m3. f_equal; ring. Qed.
Lemma rz3_tr c s : tr3 (rz3 c s) = rz3 c (- s).
Proof. m3. f_equal; ring. Qed.

(* ---------- embedding into the 4x4 Lorentz matrices of Mat.v ---------- *)
Definition emb4 (A : M3) : mat :=
  [[1; 0; 0; 0]; [0; a11 A; a12 A; a13 A]; [0; a21 A; a22 A; a23 A]; [0; a31 A; a32 A; a33 A]].
Definition vec4 (E : R) (v : V3) : list R := [E; vx v; vy v; vz v].

Lemma emb4_mul A B : mmul (emb4 A) (emb4 B) = emb4 (mul3 A B).
Proof. destruct A, B. unfold emb4, mul3. mat_simpl. cbn [a11 a12 a13 a21 a22 a23 a31 a32 a33]. mat_eq; ring. Qed.
Lemma emb4_tr A : transpose (emb4 A) = emb4 (tr3 A).
Proof. destruct A. reflexivity. Qed.
Lemma emb4_vec A E v : mvec (emb4 A) (vec4 E v) = vec4 E (mulv A v).
Proof. destruct A, v. unfold emb4, vec4, mulv. mat_simpl. cbn [a11 a12 a13 a21 a22 a23 a31 a32 a33 vx vy vz]. mat_eq; ring. Qed.
Lemma emb4_id : emb4 id3 = idM.
Proof. reflexivity. Qed.
Lemma emb4_inj A B : emb4 A = emb4 B -> A = B.
Proof. destruct A, B. unfold emb4. cbn [a11 a12 a13 a21 a22 a23 a31 a32 a33]. intros H. injection H. intros; subst. reflexivity. Qed.
