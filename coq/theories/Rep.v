(** Finite sums over index pools and the algebra of "unitary mixing" (pure mathematics, no
    model of code): mixing the components of a multi-index amplitude with matrices that are
    unitary on the index pools does not change the summed squared modulus.  Any number of
    particles, any pools. *)
From Coq Require Import Reals ZArith List Lia Permutation.
From Coquelicot Require Import Complex.
Import ListNotations.
Open Scope R_scope.
Open Scope C_scope.

Definition sumL (l : list Z) (f : Z -> C) : C := fold_right (fun x acc => f x + acc) 0 l.

(** sum over all multi-indices of a list of pools (first pool = outermost sum) *)
Fixpoint msum (pools : list (list Z)) (F : list Z -> C) : C :=
  match pools with
  | [] => F []
  | p :: ps => sumL p (fun x => msum ps (fun xs => F (x :: xs)))
  end.

Definition cnorm2 (z : C) : C := z * Cconj z.
Definition delta (a b : Z) : C := if Z.eqb a b then 1 else 0.

(** [U] (rows indexed by the inner pool [P'], columns by the outer pool [P]) has orthonormal
    rows:  sum_{x in P} U a x * conj (U b x) = delta a b  for a, b in P'. *)
Definition unit_on (U : Z -> Z -> C) (P' P : list Z) : Prop :=
  forall a b, In a P' -> In b P' -> sumL P (fun x => U a x * Cconj (U b x)) = delta a b.

(** ** conjugation *)
Lemma Cconj_plus (a b : C) : Cconj (a + b) = Cconj a + Cconj b.
Proof. apply injective_projections; simpl; ring. Qed.
Lemma Cconj_mult (a b : C) : Cconj (a * b) = Cconj a * Cconj b.
Proof. apply injective_projections; simpl; ring. Qed.
Lemma Cconj_0 : Cconj 0 = 0.
Proof. apply injective_projections; simpl; ring. Qed.
Lemma Cconj_1 : Cconj 1 = 1.
Proof. apply injective_projections; simpl; ring. Qed.
Lemma Cconj_invol (a : C) : Cconj (Cconj a) = a.
Proof. apply injective_projections; simpl; ring. Qed.

(** ** sumL *)
Lemma sumL_ext_in l f g : (forall x, In x l -> f x = g x) -> sumL l f = sumL l g.
Proof.
  induction l as [|y t IH]; simpl; intros H; auto.
  rewrite (H y) by auto. f_equal. apply IH. intros; apply H; auto.
Qed.
Lemma sumL_ext l f g : (forall x, f x = g x) -> sumL l f = sumL l g.
Proof. intros H. apply sumL_ext_in. auto. Qed.
Lemma sumL_zero l : sumL l (fun _ => 0) = 0.
Proof. induction l; simpl; auto. rewrite IHl. ring. Qed.
Lemma sumL_plus l f g : sumL l (fun x => f x + g x) = sumL l f + sumL l g.
Proof. induction l; simpl; [ring|]. rewrite IHl. ring. Qed.
Lemma sumL_scal l c f : sumL l (fun x => c * f x) = c * sumL l f.
Proof. induction l; simpl; [ring|]. rewrite IHl. ring. Qed.
Lemma sumL_scal_r l c f : sumL l (fun x => f x * c) = sumL l f * c.
Proof. induction l; simpl; [ring|]. rewrite IHl. ring. Qed.
Lemma sumL_conj l f : Cconj (sumL l f) = sumL l (fun x => Cconj (f x)).
Proof. induction l; simpl; [apply Cconj_0|]. now rewrite Cconj_plus, IHl. Qed.
Lemma sumL_swap l1 l2 (f : Z -> Z -> C) :
  sumL l1 (fun x => sumL l2 (fun y => f x y)) = sumL l2 (fun y => sumL l1 (fun x => f x y)).
Proof.
  induction l1 as [|a t IH]; simpl.
  - now rewrite sumL_zero.
  - rewrite IH. now rewrite <- sumL_plus.
Qed.
Lemma sumL_app l1 l2 f : sumL (l1 ++ l2) f = sumL l1 f + sumL l2 f.
Proof. induction l1; simpl; [ring|]. rewrite IHl1. ring. Qed.
Lemma sumL_perm l l' f : Permutation l l' -> sumL l f = sumL l' f.
Proof.
  induction 1; simpl; auto.
  - now rewrite IHPermutation.
  - ring.
  - congruence.
Qed.
Lemma sumL_map (g : Z -> Z) l f : sumL (map g l) f = sumL l (fun x => f (g x)).
Proof. induction l; simpl; auto. now rewrite IHl. Qed.

Lemma delta_refl a : delta a a = 1.
Proof. unfold delta. now rewrite Z.eqb_refl. Qed.
Lemma delta_neq a b : a <> b -> delta a b = 0.
Proof. unfold delta. intros H. destruct (Z.eqb_spec a b); tauto. Qed.

Lemma sumL_delta_notin l a f : ~ In a l -> sumL l (fun b => delta a b * f b) = 0.
Proof.
  induction l as [|y t IH]; simpl; intros H; auto.
  rewrite IH by tauto. rewrite delta_neq by (intros ->; tauto). ring.
Qed.
Lemma sumL_delta l a f : NoDup l -> In a l -> sumL l (fun b => delta a b * f b) = f a.
Proof.
  induction 1 as [|y t Hy Hnd IH]; simpl; [tauto|]. intros [->|Hin].
  - rewrite delta_refl, sumL_delta_notin by auto. ring.
  - rewrite IH by auto. rewrite delta_neq by (intros ->; tauto). ring.
Qed.

(** ** msum *)
Lemma msum_ext ps : forall F G, (forall xs, F xs = G xs) -> msum ps F = msum ps G.
Proof.
  induction ps as [|p ps IH]; simpl; intros F G H; auto.
  apply sumL_ext. intros x. apply IH. intros xs. apply H.
Qed.
Lemma msum_ext_len ps : forall F G,
  (forall xs, length xs = length ps -> F xs = G xs) -> msum ps F = msum ps G.
Proof.
  induction ps as [|p ps IH]; simpl; intros F G H.
  - now apply H.
  - apply sumL_ext. intros x. apply IH. intros xs Hl. apply H. simpl. now rewrite Hl.
Qed.
Lemma msum_scal ps : forall c F, msum ps (fun xs => c * F xs) = c * msum ps F.
Proof.
  induction ps as [|p ps IH]; simpl; intros c F; auto.
  rewrite <- sumL_scal. apply sumL_ext. intros x. apply IH.
Qed.
Lemma msum_sumL_swap ps : forall l (F : Z -> list Z -> C),
  sumL l (fun x => msum ps (fun xs => F x xs)) = msum ps (fun xs => sumL l (fun x => F x xs)).
Proof.
  induction ps as [|p ps IH]; simpl; intros l F; auto.
  rewrite sumL_swap. apply sumL_ext. intros y. apply IH.
Qed.

(** ** one particle *)
Lemma cnorm2_sumL l g :
  cnorm2 (sumL l g) = sumL l (fun a => sumL l (fun b => g a * Cconj (g b))).
Proof.
  unfold cnorm2. rewrite sumL_conj, <- sumL_scal_r. apply sumL_ext. intros a.
  now rewrite sumL_scal.
Qed.

Lemma mix1 U P' P (B : Z -> C) : unit_on U P' P -> NoDup P' ->
  sumL P (fun x => cnorm2 (sumL P' (fun a => B a * U a x))) = sumL P' (fun a => cnorm2 (B a)).
Proof.
  intros HU Hnd.
  transitivity (sumL P (fun x => sumL P' (fun a => sumL P' (fun b =>
                 (B a * Cconj (B b)) * (U a x * Cconj (U b x)))))).
  { apply sumL_ext. intros x. rewrite cnorm2_sumL. apply sumL_ext. intros a.
    apply sumL_ext. intros b. rewrite Cconj_mult. ring. }
  rewrite sumL_swap. apply sumL_ext_in. intros a Ha.
  rewrite sumL_swap.
  transitivity (sumL P' (fun b => delta a b * (B a * Cconj (B b)))).
  { apply sumL_ext_in. intros b Hb. rewrite sumL_scal, (HU a b Ha Hb). ring. }
  rewrite sumL_delta by auto. reflexivity.
Qed.

(** ** products of mixing matrices *)
Definition mcomp (Q : list Z) (U V : Z -> Z -> C) : Z -> Z -> C :=
  fun a x => sumL Q (fun q => U a q * V q x).

Lemma unit_on_compose U V P' Q P : unit_on U P' Q -> unit_on V Q P -> NoDup Q ->
  unit_on (mcomp Q U V) P' P.
Proof.
  intros HU HV Hnd a b Ha Hb. unfold mcomp.
  transitivity (sumL P (fun x => sumL Q (fun q => sumL Q (fun r =>
                 (U a q * Cconj (U b r)) * (V q x * Cconj (V r x)))))).
  { apply sumL_ext. intros x. rewrite sumL_conj, <- sumL_scal_r. apply sumL_ext. intros q.
    rewrite <- sumL_scal. apply sumL_ext. intros r. rewrite Cconj_mult. ring. }
  rewrite sumL_swap.
  transitivity (sumL Q (fun q => U a q * Cconj (U b q))); [|apply HU; auto].
  apply sumL_ext_in. intros q Hq. rewrite sumL_swap.
  transitivity (sumL Q (fun r => delta q r * (U a q * Cconj (U b r)))).
  { apply sumL_ext_in. intros r Hr. rewrite sumL_scal, (HV q r Hq Hr). ring. }
  now rewrite sumL_delta by auto.
Qed.

(** reindexing the rows by an injective map (e.g. negation of the helicity) *)
Lemma unit_on_reindex (g : Z -> Z) U P' P :
  (forall a b, In a P' -> In b P' -> g a = g b -> a = b) ->
  unit_on U (map g P') P -> unit_on (fun a x => U (g a) x) P' P.
Proof.
  intros Hg HU a b Ha Hb. rewrite (HU (g a) (g b)) by (apply in_map; auto).
  unfold delta. destruct (Z.eqb_spec a b) as [->|Hn].
  - now rewrite Z.eqb_refl.
  - destruct (Z.eqb_spec (g a) (g b)) as [He|]; auto. elim Hn. auto.
Qed.

(** ** any number of particles *)
Fixpoint tprod (Us : list (Z -> Z -> C)) (a x : list Z) : C :=
  match Us, a, x with
  | U :: Us', ai :: a', xi :: x' => U ai xi * tprod Us' a' x'
  | _, _, _ => 1
  end.

Inductive unit_all : list (Z -> Z -> C) -> list (list Z) -> list (list Z) -> Prop :=
| ua_nil : unit_all [] [] []
| ua_cons U Us P' Ps' P Ps :
    unit_on U P' P -> NoDup P' -> unit_all Us Ps' Ps ->
    unit_all (U :: Us) (P' :: Ps') (P :: Ps).

Theorem unitary_mixing Us Ps' Ps : unit_all Us Ps' Ps -> forall A : list Z -> C,
  msum Ps (fun x => cnorm2 (msum Ps' (fun a => A a * tprod Us a x)))
  = msum Ps' (fun a => cnorm2 (A a)).
Proof.
  induction 1 as [|U Us P' Ps' P Ps HU Hnd Hall IH]; intros A.
  - simpl. now rewrite Cmult_1_r.
  - simpl.
    set (B := fun (a0 : Z) (xs : list Z) => msum Ps' (fun a' => A (a0 :: a') * tprod Us a' xs)).
    transitivity (sumL P (fun x0 => msum Ps (fun xs =>
                   cnorm2 (sumL P' (fun a0 => B a0 xs * U a0 x0))))).
    { apply sumL_ext. intros x0. apply msum_ext. intros xs. f_equal.
      apply sumL_ext. intros a0. unfold B.
      rewrite Cmult_comm, <- msum_scal. apply msum_ext. intros a'. ring. }
    rewrite msum_sumL_swap.
    transitivity (msum Ps (fun xs => sumL P' (fun a0 => cnorm2 (B a0 xs)))).
    { apply msum_ext. intros xs. apply (mix1 U P' P (fun a0 => B a0 xs)); auto. }
    rewrite <- msum_sumL_swap. apply sumL_ext. intros a0. unfold B.
    apply (IH (fun a' => A (a0 :: a'))).
Qed.
