(* Naming.v — hand-written model of ampform's parity-partner bookkeeping (property C03).

   Mirrors, in /repo/src/ampform/helicity:
     naming.py   HelicityAmplitudeNameGenerator._register_amplitude_coefficients
                 .__register_amplitude_coefficient_name, .__generate_amplitude_coefficient_couple,
                 .generate_two_body_decay_suffix / ._get_coefficient_components (also the
                 CanonicalAmplitudeNameGenerator override with the LS arrow),
                 .generate_sequential_amplitude_suffix, _state_to_str
     decay.py    get_helicity_info / get_sorted_states (children sorted by particle name, stable)
     __init__.py HelicityAmplitudeBuilder.__generate_amplitude_prefactor (current tree) and the
                 pre-fix variant (get_prefactor = product over ALL nodes, applied when any node is
                 a mapped partner).

   Strings are abstracted to a decidable key type.  A coefficient suffix string
       <parent>[_{hel}] <arrow> <child1>[_{hel}] <child2>[_{hel}]
   is represented by (parent particle id, optional helicity), optional (L,S) of the LS arrow,
   and the same pair for both children.  Helicities / spins are integers in units of 1/2.
   That key equality coincides with string equality on the inputs that are used is CHECKED by the
   correspondence run (bridge/corr_C03.py: key <-> real string must be a bijection on every
   reaction of the corpus), not assumed silently.  No proofs in this file. *)
From Coq Require Import ZArith List Bool.
Import ListNotations.
Open Scope Z_scope.

(* ---------- data ---------- *)
Record state := mkState {
  st_pid  : Z;   (* particle identity (index of the particle name) *)
  st_rank : Z;   (* rank of the particle NAME in Python's string order (get_sorted_states) *)
  st_hel  : Z    (* 2 * spin projection *)
}.

Record node := mkNode {
  nd_parent : state;
  nd_ca : state;          (* outgoing edges in edge-id order, as iterated by the code *)
  nd_cb : state;
  nd_l : Z;               (* 2 * l_magnitude *)
  nd_s : Z;               (* 2 * s_magnitude *)
  nd_eta : option Z       (* InteractionProperties.parity_prefactor: None, Some 1, Some (-1) *)
}.

Definition transition := list node.      (* nodes in the order of transition.topology.nodes *)

Record flags := mkFlags {
  ins_parent : bool;      (* naming.insert_parent_helicities *)
  ins_child  : bool;      (* naming.insert_child_helicities *)
  ins_ls     : bool       (* CanonicalAmplitudeNameGenerator with insert_ls_combinations *)
}.

(* ---------- keys (abstract suffix strings) ---------- *)
Definition part := (Z * option Z)%type.
Record key := mkKey {
  k_parent : part;
  k_arrow  : option (Z * Z);
  k_c1 : part;
  k_c2 : part
}.

Definition oZ_eqb (a b : option Z) : bool :=
  match a, b with
  | Some x, Some y => x =? y
  | None, None => true
  | _, _ => false
  end.
Definition part_eqb (a b : part) : bool := (fst a =? fst b) && oZ_eqb (snd a) (snd b).
Definition arrow_eqb (a b : option (Z * Z)) : bool :=
  match a, b with
  | Some (x1, x2), Some (y1, y2) => (x1 =? y1) && (x2 =? y2)
  | None, None => true
  | _, _ => false
  end.
Definition key_eqb (a b : key) : bool :=
  part_eqb (k_parent a) (k_parent b) && arrow_eqb (k_arrow a) (k_arrow b)
  && part_eqb (k_c1 a) (k_c1 b) && part_eqb (k_c2 a) (k_c2 b).

(* ---------- the three suffixes of a node ---------- *)
(* get_sorted_states: sorted(states, key=name) is stable: swap only when strictly smaller *)
Definition sorted_children (n : node) : state * state :=
  if st_rank (nd_cb n) <? st_rank (nd_ca n) then (nd_cb n, nd_ca n) else (nd_ca n, nd_cb n).

(* _state_to_str(state, use_helicity) *)
Definition str_part (use_helicity : bool) (s : state) : part :=
  (st_pid s, if use_helicity then Some (st_hel s) else None).
(* _state_to_str(state, make_parity_partner=True): helicity always printed, negated *)
Definition str_part_pp (s : state) : part := (st_pid s, Some (- st_hel s)).

(* generate_two_body_decay_suffix *)
Definition raw (fl : flags) (n : node) : key :=
  let (c1, c2) := sorted_children n in
  mkKey (str_part (ins_parent fl) (nd_parent n))
        (if ins_ls fl then Some (nd_l n, nd_s n) else None)
        (str_part (ins_child fl) c1) (str_part (ins_child fl) c2).

(* pp_par_name_suffix: parent without helicity, plain arrow, both children negated *)
Definition ppk (n : node) : key :=
  let (c1, c2) := sorted_children n in
  mkKey (str_part false (nd_parent n)) None (str_part_pp c1) (str_part_pp c2).

Definition prio (fl : flags) (n : node) : key :=
  let (c1, c2) := sorted_children n in
  if (st_hel c1 <? 0) || ((st_hel c1 =? 0) && (st_hel c2 <? 0)) then ppk n else raw fl n.

(* ---------- the mapping (a Python dict: update in place or append) ---------- *)
Definition mapping := list (key * key).

Fixpoint lookup (m : mapping) (k : key) : option key :=
  match m with
  | [] => None
  | (k', v) :: r => if key_eqb k' k then Some v else lookup r k
  end.

Fixpoint upd (m : mapping) (k v : key) : mapping :=
  match m with
  | [] => [(k, v)]
  | (k', v') :: r => if key_eqb k' k then (k, v) :: r else (k', v') :: upd r k v
  end.

(* one iteration of the loop body of __register_amplitude_coefficient_name *)
Definition reg_node (fl : flags) (m : mapping) (n : node) : mapping :=
  let r := raw fl n in
  let p := ppk n in
  let q := prio fl n in
  match nd_eta n with
  | None => m                                  (* continue (after the suffixes are computed) *)
  | Some _ =>
    match lookup m r with
    | Some _ => m
    | None =>
      match lookup m p with
      | Some _ =>
          if key_eqb p q then upd m r p
          else upd (upd m p r) r r
      | None => upd m r r
      end
    end
  end.

Definition reg_transition (fl : flags) (m : mapping) (t : transition) : mapping :=
  fold_left (reg_node fl) t m.

Definition register (fl : flags) (ts : list transition) : mapping :=
  fold_left (reg_transition fl) ts [].

(* ---------- users of the mapping ---------- *)
Definition image (fl : flags) (m : mapping) (n : node) : key :=
  match lookup m (raw fl n) with
  | Some v => v
  | None => raw fl n
  end.

(* generate_sequential_amplitude_suffix: "; ".join of the images *)
Definition seq_suffix (fl : flags) (m : mapping) (t : transition) : list key :=
  map (image fl m) t.

(* node whose suffix is mapped to a different one *)
Definition flipped (fl : flags) (m : mapping) (n : node) : bool :=
  match lookup m (raw fl n) with
  | Some v => negb (key_eqb v (raw fl n))
  | None => false
  end.

(* __generate_amplitude_prefactor (current tree); Python's None is rendered as 1 *)
Definition pref_step (fl : flags) (m : mapping) (acc : Z) (n : node) : Z :=
  match nd_eta n with
  | None => acc
  | Some e => if flipped fl m n then acc * e else acc
  end.
Definition prefactor (fl : flags) (m : mapping) (t : transition) : Z :=
  fold_left (pref_step fl m) t 1.

(* decay.get_prefactor *)
Definition all_eta (t : transition) : Z :=
  fold_left (fun acc n => match nd_eta n with Some e => acc * e | None => acc end) t 1.

(* the PRE-fix __generate_amplitude_prefactor (commit before 6f1e599) *)
Definition prefactor_pinned (fl : flags) (m : mapping) (t : transition) : Z :=
  if existsb (flipped fl m) t then all_eta t else 1.

(* ---------- encodings used by the correspondence run (printing only) ---------- *)
Definition enc_part (p : part) : list Z :=
  match snd p with Some h => [fst p; 1; h] | None => [fst p; 0; 0] end.
Definition enc_key (k : key) : list Z :=
  enc_part (k_parent k)
  ++ (match k_arrow k with Some (l, s) => [1; l; s] | None => [0; 0; 0] end)
  ++ enc_part (k_c1 k) ++ enc_part (k_c2 k).
Definition enc_mapping (m : mapping) : list (list Z * list Z) :=
  map (fun kv => (enc_key (fst kv), enc_key (snd kv))) m.
Definition enc_triples (fl : flags) (ts : list transition) : list (list (list Z * list Z * list Z)) :=
  map (map (fun n => (enc_key (raw fl n), enc_key (ppk n), enc_key (prio fl n)))) ts.
