(* Kin.v — hand-written Gallina model of ampform's kinematic-variable builder (C07).
   Mirrors, as of the current /repo:
     ampform/helicity/decay.py     determine_attached_final_state, is_opposite_helicity_state,
                                   get_sibling_state_id
     ampform/helicity/naming.py    get_boost_chain_suffix, get_helicity_angle_symbols
     ampform/kinematics/angles.py  compute_helicity_angles (the nested recursion)
     ampform/kinematics/lorentz.py compute_invariant_masses, get_invariant_mass_symbol
     ampform/kinematics/__init__.py HelicityAdapter.create_expressions,
                                   permutate_registered_topologies
   No proofs here (they are in coq/props/C07_lemmas.v).  Tied to the code by the
   correspondence run of runners/C07.py (bridge/tie_C07.py) on every check.

   Two layers:
   * [rtopo]  : a qrules Topology as plain data, edges in the order qrules delivers them;
   * [tree]   : the isobar tree read off it by [tree_of_topo] (every node has exactly one
                ingoing and two outgoing edges, which is what assert_isobar_topology checks).
   The recursion of compute_helicity_angles walks the graph node by node; on an isobar
   topology that is a walk over [tree], children visited in the order of [sorted(edge ids)].

   Abstractions (stated in TRUSTED of the runner):
   * a variable NAME is kept structurally, [NMass ids] / [NAng k sub sup]; the code renders it
     as "m_" ++ concat ids, "phi"/"theta" ++ "_" ++ concat sub ++ "^" ++ groups joined by ",".
     The rendering is injective as long as every final-state id is a single digit.
   * a VALUE is an abstract term: which angle, of the sum of which leaf momenta (in summation
     order), after which chain of helicity frames; every frame is named by the leaf ids whose
     summed momentum (itself taken after the preceding frames) defines
     BoostZ(beta) * RotationY(-theta) * RotationZ(-phi).  bridge/tie_C07.py reads this
     form off the SymPy tree and fails closed on anything else. *)
From Coq Require Import ZArith List Bool.
Import ListNotations.
Open Scope Z_scope.

(* ------------------------------------------------------------------ raw topology *)
Record redge := { re_id : Z; re_orig : option Z; re_end : option Z }.
Record rtopo := { rt_nodes : list Z; rt_edges : list redge }.

Inductive tree := Leaf (id : Z) | Node (id : Z) (a b : tree).

Definition oZ_eqb (a b : option Z) : bool :=
  match a, b with Some x, Some y => x =? y | None, None => true | _, _ => false end.

(* get_edge_ids_outgoing_from_node / ingoing_to_node, in edge order *)
Definition outgoing_from (es : list redge) (n : Z) : list redge :=
  filter (fun e => oZ_eqb (re_orig e) (Some n)) es.
Definition ingoing_to (es : list redge) (n : Z) : list redge :=
  filter (fun e => oZ_eqb (re_end e) (Some n)) es.

Fixpoint build (fuel : nat) (es : list redge) (e : redge) : option tree :=
  match fuel with
  | O => None
  | S f =>
      match re_end e with
      | None => Some (Leaf (re_id e))
      | Some n =>
          match ingoing_to es n, outgoing_from es n with
          | [_], [c1; c2] =>                       (* assert_two_body_decay *)
              match build f es c1, build f es c2 with
              | Some a, Some b => Some (Node (re_id e) a b)
              | _, _ => None
              end
          | _, _ => None
          end
      end
  end.

Definition tree_of_topo (t : rtopo) : option tree :=
  match filter (fun e => oZ_eqb (re_orig e) None) (rt_edges t) with
  | [e0] => match re_end e0 with
            | None => None                         (* "Edge does not end in a node" *)
            | Some _ => build (S (length (rt_edges t))) (rt_edges t) e0
            end
  | _ => None
  end.

(* ------------------------------------------------------------------ sorting, tuples *)
Fixpoint insert (x : Z) (l : list Z) : list Z :=
  match l with
  | [] => [x]
  | y :: l' => if x <=? y then x :: l else y :: insert x l'
  end.
Fixpoint sort (l : list Z) : list Z :=
  match l with [] => [] | x :: l' => insert x (sort l') end.

(* Python tuple comparison  a < b *)
Fixpoint lex_ltb (a b : list Z) : bool :=
  match a, b with
  | [], [] => false
  | [], _ :: _ => true
  | _ :: _, [] => false
  | x :: a', y :: b' => if x <? y then true else if y <? x then false else lex_ltb a' b'
  end.

(* ------------------------------------------------------------------ decay.py *)
Fixpoint leaves (t : tree) : list Z :=
  match t with Leaf i => [i] | Node _ a b => leaves a ++ leaves b end.

(* determine_attached_final_state(topology, edge of t):
   [state_id] for a final-state edge, sorted(get_originating_final_state_edge_ids) otherwise *)
Definition att (t : tree) : list Z :=
  match t with Leaf i => [i] | Node _ _ _ => sort (leaves t) end.

Definition eid (t : tree) : Z := match t with Leaf i => i | Node i _ _ => i end.
Definition is_leaf (t : tree) : bool := match t with Leaf _ => true | Node _ _ _ => false end.

(* is_opposite_helicity_state(c) with sibling s:  tuple(att c) > tuple(att s) *)
Definition is_opp (c s : tree) : bool := lex_ltb (att s) (att c).

(* ------------------------------------------------------------------ names and values *)
Inductive ang := APhi | ATheta.
Inductive vname :=
| NMass (ids : list Z)                               (* m_<ids> *)
| NAng (k : ang) (sub : list Z) (sup : list (list Z)). (* phi_<sub>^<sup1>,<sup2>,... *)
Inductive aterm :=
| AMass (ids : list Z)                               (* InvariantMass(ArraySum(p_i, i in ids)) *)
| AAng (k : ang) (ids : list Z) (frames : list (list Z)).

Definition ang_eqb (a b : ang) : bool :=
  match a, b with APhi, APhi | ATheta, ATheta => true | _, _ => false end.
Fixpoint lZ_eqb (a b : list Z) : bool :=
  match a, b with
  | [], [] => true
  | x :: a', y :: b' => (x =? y) && lZ_eqb a' b'
  | _, _ => false
  end.
Fixpoint llZ_eqb (a b : list (list Z)) : bool :=
  match a, b with
  | [], [] => true
  | x :: a', y :: b' => lZ_eqb x y && llZ_eqb a' b'
  | _, _ => false
  end.
Definition vname_eqb (a b : vname) : bool :=
  match a, b with
  | NMass x, NMass y => lZ_eqb x y
  | NAng k s p, NAng k' s' p' => ang_eqb k k' && lZ_eqb s s' && llZ_eqb p p'
  | _, _ => false
  end.

(* ------------------------------------------------------------------ python dict *)
Definition dict := list (vname * aterm).

Fixpoint get (n : vname) (d : dict) : option aterm :=
  match d with
  | [] => None
  | (k, v) :: d' => if vname_eqb n k then Some v else get n d'
  end.

(* d[k] = v : overwrite in place, or append *)
Fixpoint upd (k : vname) (v : aterm) (d : dict) : dict :=
  match d with
  | [] => [(k, v)]
  | (k', v') :: d' => if vname_eqb k k' then (k', v) :: d' else (k', v') :: upd k v d'
  end.

(* d.update(d2) *)
Definition update (d d2 : dict) : dict := fold_left (fun acc kv => upd (fst kv) (snd kv) acc) d2 d.

(* ------------------------------------------------------------------ angles.py *)
(* helicity_angles[phi] = Phi(S after fr); helicity_angles[theta] = Theta(...)
   with phi, theta = get_helicity_angle_symbols(topology, state named nm under ancestors anc) *)
Definition reg (nm : list Z) (anc : list (list Z)) (ids : list Z) (fr : list (list Z)) (d : dict) : dict :=
  upd (NAng ATheta nm anc) (AAng ATheta ids fr) (upd (NAng APhi nm anc) (AAng APhi ids fr) d).

(* One pass of the  "for state_id in child_state_ids"  loop body for child c (sibling s);
   rc is the result of the recursive call into c.
   [fixed = true] is the model of the PROPOSED repair (not of the current code): the
   opposite-helicity child does not register when its helicity sibling decays itself. *)
Definition step (fixed : bool) (anc fr : list (list Z)) (c s : tree) (rc d : dict) : dict :=
  if is_leaf c then d                                  (* edge.ending_node_id is None *)
  else if (1 <? Z.of_nat (length (att c))) then        (* len(sub_momenta_ids) > 1 *)
    let named := if is_opp c s then s else c in         (* get_sibling_state_id *)
    let d' := if fixed && is_opp c s && negb (is_leaf s) then d
              else reg (att named) anc (att c) fr d in
    update d' rc                                        (* helicity_angles.update(angles) *)
  else d.

(* the  "if all(children are final states)"  block *)
Definition leafleaf (anc fr : list (list Z)) (a b : tree) : dict :=
  if is_leaf a && is_leaf b then
    (* state_id = child_state_ids[0]; if opposite: child_state_ids[1] *)
    let c0 := if eid a <? eid b then a else b in
    let c1 := if eid a <? eid b then b else a in
    let s := if is_opp c0 c1 then c1 else c0 in
    reg (att s) anc (att s) fr []
  else [].

(* body of __recursive_helicity_angles for a node with children a, b whose recursive results
   are ra, rb: the loop runs over sorted(child ids) *)
Definition node_body (fixed : bool) (anc fr : list (list Z)) (a b : tree) (ra rb : dict) : dict :=
  if eid a <? eid b
  then step fixed anc fr b a rb (step fixed anc fr a b ra (leafleaf anc fr a b))
  else step fixed anc fr a b ra (step fixed anc fr b a rb (leafleaf anc fr a b)).

(* anc : attached ids of the ancestor edges, innermost first, initial state excluded
         (what get_boost_chain_suffix collects walking up);
   fr  : the frames the current momentum pool has been taken through, outermost first. *)
Fixpoint hel (fixed : bool) (t : tree) (anc fr : list (list Z)) : dict :=
  match t with
  | Leaf _ => []
  | Node _ a b =>
      node_body fixed anc fr a b
        (hel fixed a (att a :: anc) (fr ++ [att a]))
        (hel fixed b (att b :: anc) (fr ++ [att b]))
  end.

Definition helicity_angle_entries (t : tree) : dict := hel false t [] [].

(* ------------------------------------------------------------------ lorentz.py *)
(* compute_invariant_masses: one entry per edge (incl. the initial one);
   symbol m_<sorted(att)>, value InvariantMass(ArraySum(p_i for i in att)) *)
Fixpoint inv_mass_entries (t : tree) : list (vname * aterm) :=
  (NMass (sort (att t)), AMass (att t)) ::
  match t with Leaf _ => [] | Node _ a b => inv_mass_entries a ++ inv_mass_entries b end.

(* ------------------------------------------------------------------ HelicityAdapter *)
Definition add_topology (fixed : bool) (out : dict) (t : tree) : dict :=
  update (update out (hel fixed t [] [])) (inv_mass_entries t).

(* create_expressions for the registered topologies in iteration order ts *)
Definition create_expressions_gen (fixed : bool) (ts : list tree) : dict :=
  fold_left (add_topology fixed) ts [].
Definition create_expressions := create_expressions_gen false.

(* Topology.relabel_edges / the edges={id_mapping.get(i, i): edge ...} of permutate *)
Fixpoint zlookup (m : list (Z * Z)) (i : Z) : Z :=
  match m with [] => i | (k, v) :: m' => if i =? k then v else zlookup m' i end.
Definition relabel_edges (m : list (Z * Z)) (t : rtopo) : rtopo :=
  {| rt_nodes := rt_nodes t;
     rt_edges := map (fun e => {| re_id := zlookup m (re_id e); re_orig := re_orig e;
                                  re_end := re_end e |}) (rt_edges t) |}.
Fixpoint relabel_tree (f : Z -> Z) (t : tree) : tree :=
  match t with
  | Leaf i => Leaf (f i)
  | Node i a b => Node i (relabel_tree f a) (relabel_tree f b)
  end.

Fixpoint ins_all (x : Z) (l : list Z) : list (list Z) :=
  match l with
  | [] => [[x]]
  | y :: l' => (x :: l) :: map (cons y) (ins_all x l')
  end.
Fixpoint perms (l : list Z) : list (list Z) :=
  match l with [] => [[]] | x :: l' => flat_map (ins_all x) (perms l') end.

Definition outgoing_ids (t : rtopo) : list Z :=
  map re_id (filter (fun e => oZ_eqb (re_end e) None) (rt_edges t)).

(* permutate_registered_topologies: the registered SET afterwards, as a list (order and
   multiplicity immaterial) *)
Definition permutate (ts : list rtopo) : list rtopo :=
  ts ++ flat_map (fun t => map (fun p => relabel_edges (combine (outgoing_ids t) p) t)
                               (perms (outgoing_ids t))) ts.

(* ------------------------------------------------------------------ the SPEC *)
(* Written from the documentation, not from the recursion above:
   - is_opposite_helicity_state docstring: of two siblings the one whose attached final-state
     tuple is smaller is the HELICITY state; "the angles of the helicity state" are the
     arguments of the Wigner D;
   - get_boost_chain_suffix docstring: phi_<sub>^<a1>,<a2>,...: the state <sub> decays from
     a1, which comes from a2, ...; the initial state is not listed;
   - doctest of compute_helicity_angles: 3-body, children 0 (final) and (12):
     theta_0 = Theta(p1 + p2): when only one child decays, the registered pair is the
     direction of the DECAYING child, under the name of the helicity child.
   One pair per node; frames are the ancestors from the outside in (= rev sup). *)
Definition hel_child (a b : tree) : tree := if lex_ltb (att b) (att a) then b else a.
Definition opp_child (a b : tree) : tree := if lex_ltb (att b) (att a) then a else b.

Definition spec_target (h o : tree) : tree :=
  match h, o with
  | Leaf _, Node _ _ _ => o      (* only the opposite child decays (doctest) *)
  | _, _ => h                    (* final-final, or the helicity child decays *)
  end.

Fixpoint angle_spec (t : tree) (anc : list (list Z)) : list (vname * aterm) :=
  match t with
  | Leaf _ => []
  | Node _ a b =>
      let h := hel_child a b in
      let o := opp_child a b in
      let tg := spec_target h o in
      (NAng APhi (att h) anc, AAng APhi (att tg) (rev anc)) ::
      (NAng ATheta (att h) anc, AAng ATheta (att tg) (rev anc)) ::
      angle_spec a (att a :: anc) ++ angle_spec b (att b :: anc)
  end.

(* What a name says, given the set of all final-state ids [all] (sorted):
   the decoding of a name into the quantity it must denote. *)
Definition parent_ids (all : list Z) (sup : list (list Z)) : list Z :=
  match sup with [] => all | p :: _ => p end.
Definition zmem (x : Z) (l : list Z) : bool := existsb (Z.eqb x) l.
Definition decode (all : list Z) (n : vname) : aterm :=
  match n with
  | NMass ids => AMass ids
  | NAng k sub sup =>
      let parent := parent_ids all sup in
      let ids :=
        if (Z.of_nat (length sub) =? 1) && (2 <? Z.of_nat (length parent))
        then filter (fun x => negb (zmem x sub)) parent   (* final state with a decaying sibling *)
        else sub in
      AAng k ids (rev sup)
  end.

(* A node both of whose children decay *)
Fixpoint no_double (t : tree) : bool :=
  match t with
  | Leaf _ => true
  | Node _ a b => negb (negb (is_leaf a) && negb (is_leaf b)) && no_double a && no_double b
  end.

(* ------------------------------------------------------------------ encoding for printing *)
Definition enc_ang (k : ang) : Z := match k with APhi => 0 | ATheta => 1 end.
(* [[tag]; sub-or-ids; ...groups...] ; tag 0/1 angle name, 2 mass name, 10/11 angle value, 12 mass value *)
Definition enc_name (n : vname) : list (list Z) :=
  match n with
  | NMass ids => [2] :: [ids]
  | NAng k sub sup => [enc_ang k] :: sub :: sup
  end.
Definition enc_term (v : aterm) : list (list Z) :=
  match v with
  | AMass ids => [12] :: [ids]
  | AAng k ids fr => [10 + enc_ang k] :: ids :: fr
  end.
Definition enc_dict (d : dict) : list (list (list Z) * list (list Z)) :=
  map (fun kv => (enc_name (fst kv), enc_term (snd kv))) d.
Definition enc_edge (e : redge) : list Z :=
  [re_id e; match re_orig e with Some n => n | None => -99 end;
   match re_end e with Some n => n | None => -99 end].
Definition enc_topo (t : rtopo) : list (list Z) := map enc_edge (rt_edges t).

Fixpoint omap {A B} (f : A -> option B) (l : list A) : option (list B) :=
  match l with
  | [] => Some []
  | x :: l' => match f x, omap f l' with Some y, Some ys => Some (y :: ys) | _, _ => None end
  end.

(* the whole pipeline on raw topologies, as the correspondence run evaluates it *)
Definition model_create_expressions (ts : list rtopo) : option (list (list (list Z) * list (list Z))) :=
  match omap tree_of_topo ts with
  | Some trees => Some (enc_dict (create_expressions trees))
  | None => None
  end.

(* ------------------------------------------------------------------ adapter histories *)
(* HelicityAdapter as a state machine over the registered SET of topologies (a duplicate-free list;
   qrules Topology equality: same node set, same edge dictionary).  The state is nothing but the
   registered set: create_expressions has no memory. *)
Definition zset_eqb (a b : list Z) : bool := lZ_eqb (sort a) (sort b).
Definition incoming_ids (t : rtopo) : list Z :=
  map re_id (filter (fun e => oZ_eqb (re_orig e) None) (rt_edges t)).
Definition edge_eqb (e f : redge) : bool :=
  (re_id e =? re_id f) && oZ_eqb (re_orig e) (re_orig f) && oZ_eqb (re_end e) (re_end f).
Definition edges_sub (a b : list redge) : bool := forallb (fun e => existsb (edge_eqb e) b) a.
Definition topo_eqb (a b : rtopo) : bool :=
  edges_sub (rt_edges a) (rt_edges b) && edges_sub (rt_edges b) (rt_edges a)
  && zset_eqb (rt_nodes a) (rt_nodes b).
Definition add_topo (t : rtopo) (s : list rtopo) : list rtopo :=
  if existsb (topo_eqb t) s then s else s ++ [t].

(* register_topology: assert_isobar_topology, then the two guards against an existing topology *)
Definition register_ok (s : list rtopo) (t : rtopo) : bool :=
  match tree_of_topo t with
  | None => false
  | Some _ =>
      match s with
      | [] => true
      | e :: _ => zset_eqb (incoming_ids t) (incoming_ids e) && zset_eqb (outgoing_ids t) (outgoing_ids e)
      end
  end.

Inductive hop := HRegister (t : rtopo) | HPermutate | HCreate.

Definition model_create_gen (fixed : bool) (ts : list rtopo) : option (list (list (list Z) * list (list Z))) :=
  match omap tree_of_topo ts with
  | Some trees => Some (enc_dict (create_expressions_gen fixed trees))
  | None => None
  end.

(* one operation: new state and what the caller observes
   (register: tag 100 accepted?; permutate: tag 101 number registered; create: the dictionary) *)
Definition hstep (fixed : bool) (s : list rtopo) (o : hop)
  : list rtopo * option (list (list (list Z) * list (list Z))) :=
  match o with
  | HRegister t =>
      if register_ok s t then (add_topo t s, Some [([[100]], [[1]])]) else (s, Some [([[100]], [[0]])])
  | HPermutate =>
      let s' := fold_left (fun acc t => add_topo t acc) (permutate s) [] in
      (s', Some [([[101]], [[Z.of_nat (length s')]])])
  | HCreate => (s, model_create_gen fixed s)
  end.

Fixpoint run_history (fixed : bool) (s : list rtopo) (ops : list hop)
  : list rtopo * list (option (list (list (list Z) * list (list Z)))) :=
  match ops with
  | [] => (s, [])
  | o :: ops' =>
      let (s1, r) := hstep fixed s o in
      let (s2, rs) := run_history fixed s1 ops' in
      (s2, r :: rs)
  end.
