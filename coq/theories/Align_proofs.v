(** Soundness of the checker of Align.v: when every pool of every chain is the complete range
    -s..s, the aligned intensity (flat nested sums exactly as the implementation's PoolSums)
    equals the unaligned one, for every amplitude tensor, any number of particles, any spins.
    The Wigner-D functions of SymPy are a Section variable; their unitarity over the complete
    range is the Section hypothesis. *)
From Coq Require Import Reals ZArith List Bool Lia Permutation.
From Coquelicot Require Import Complex.
From AV Require Import Spin Spin_proofs Rep Align.
Import ListNotations.

Lemma list_eqb_eq a : forall b, list_eqb a b = true -> a = b.
Proof.
  induction a as [|x a IH]; destruct b as [|y b]; simpl; try discriminate; auto.
  intros H. apply andb_prop in H. destruct H as (H1 & H2).
  apply Z.eqb_eq in H1. subst. f_equal. auto.
Qed.

Section Sound.
  Variable D : nat -> Z -> Z -> nat -> C.
  Open Scope R_scope.
  Open Scope C_scope.

  (** unitarity of D(j, ., ., angles) over the complete range, in both index positions *)
  Definition D_unitary_m : Prop := forall j2 ang a b,
    In a (full_range j2) -> In b (full_range j2) ->
    sumL (full_range j2) (fun m => D j2 m a ang * Cconj (D j2 m b ang)) = delta a b.
  Definition D_unitary_mp : Prop := forall j2 ang a b,
    In a (full_range j2) -> In b (full_range j2) ->
    sumL (full_range j2) (fun mp => D j2 a mp ang * Cconj (D j2 b mp ang)) = delta a b.

  Hypothesis D_unit_m : D_unitary_m.
  Hypothesis D_unit_mp : D_unitary_mp.

  Lemma Ulink_unit j2 l : link_ok j2 l = true ->
    unit_on (Ulink D j2 l) (full_range j2) (full_range j2).
  Proof.
    unfold link_ok, Ulink. intros Hl a b Ha Hb. destruct (l_kind l).
    - apply D_unit_m; auto.
    - apply D_unit_mp; auto.
    - apply Nat.eqb_eq in Hl. subst j2. simpl in Ha, Hb.
      destruct Ha as [<-|[]]. destruct Hb as [<-|[]]. simpl.
      rewrite Cconj_1. unfold delta. simpl. ring.
  Qed.

  Lemma Uchain_unit j2 : forall more l, link_ok j2 l = true ->
    forallb (fun ql => list_eqb (fst ql) (full_range j2) && link_ok j2 (snd ql)) more = true ->
    unit_on (Uchain D j2 l more) (full_range j2) (full_range j2).
  Proof.
    induction more as [|[Q l'] more IH]; intros l Hl Hm; simpl.
    - now apply Ulink_unit.
    - simpl in Hm. apply andb_prop in Hm. destruct Hm as (Hq & Hm).
      apply andb_prop in Hq. destruct Hq as (Hq & Hl').
      apply list_eqb_eq in Hq. subst Q.
      apply (unit_on_compose (Ulink D j2 l) (Uchain D j2 l' more)).
      + now apply Ulink_unit.
      + now apply IH.
      + apply full_range_NoDup.
  Qed.

  Lemma chain_flat_nested j2 : forall more l a x w k, (forall c, k c = c * k 1) ->
    chain_flat D j2 l more a x w k = (w * Uchain D j2 l more a x) * k 1.
  Proof.
    induction more as [|[Q l'] more IH]; intros l a x w k Hk; simpl.
    - apply Hk.
    - transitivity (sumL Q (fun q => (w * k 1) * (Ulink D j2 l a q * Uchain D j2 l' more q x))).
      + apply sumL_ext. intros q. rewrite IH by auto. ring.
      + rewrite sumL_scal. ring.
  Qed.

  Lemma amp_flat_nested : forall cs x A w, length x = length cs ->
    amp_flat D cs x A w = w * amp_nested D cs x A.
  Proof.
    induction cs as [|c cs IH]; intros x A w Hlen.
    - destruct x; [|discriminate]. unfold amp_nested. simpl. ring.
    - destruct x as [|xi x]; [discriminate|]. simpl in Hlen. injection Hlen as Hlen.
      unfold amp_nested. simpl. rewrite <- sumL_scal. apply sumL_ext. intros a.
      rewrite chain_flat_nested.
      2:{ intros c0. rewrite !IH by auto. ring. }
      rewrite IH by auto. unfold amp_nested, Uof.
      transitivity (w * (Uchain D (pc_s2 c) (pc_link c) (pc_more c) a xi *
                         msum (map pc_first cs) (fun a' => A (sgn c a :: signed cs a') *
                                                         tprod (map (Uof D) cs) a' x))).
      { unfold Uof. ring. }
      f_equal. rewrite <- msum_scal. apply msum_ext. intros a'. unfold Uof. ring.
  Qed.

  Lemma sumL_sgn c (G : Z -> C) :
    sumL (full_range (pc_s2 c)) (fun a => G (sgn c a)) = sumL (full_range (pc_s2 c)) G.
  Proof.
    unfold sgn. destruct (pc_neg c); auto.
    rewrite <- (sumL_map Z.opp). apply sumL_perm, full_range_opp_perm.
  Qed.

  Lemma reindex_signed : forall cs, forallb chain_ok cs = true -> forall F : list Z -> C,
    msum (map pc_first cs) (fun a => F (signed cs a)) = msum (map pc_outer cs) F.
  Proof.
    induction cs as [|c cs IH]; intros Hok F; simpl; auto.
    simpl in Hok. apply andb_prop in Hok. destruct Hok as (Hc & Hok).
    unfold chain_ok in Hc. repeat (apply andb_prop in Hc; destruct Hc as (Hc & ?)).
    apply list_eqb_eq in Hc. match goal with H : list_eqb (pc_first c) _ = true |- _ =>
      apply list_eqb_eq in H; rewrite H end. rewrite Hc.
    transitivity (sumL (full_range (pc_s2 c)) (fun a0 =>
                    msum (map pc_outer cs) (fun x' => F (sgn c a0 :: x')))).
    - apply sumL_ext. intros a0. apply (IH Hok (fun t => F (sgn c a0 :: t))).
    - apply (sumL_sgn c (fun s => msum (map pc_outer cs) (fun x' => F (s :: x')))).
  Qed.

  Lemma chains_unit_all : forall cs, forallb chain_ok cs = true ->
    unit_all (map (Uof D) cs) (map pc_first cs) (map pc_outer cs).
  Proof.
    induction cs as [|c cs IH]; intros Hok; simpl; [constructor|].
    simpl in Hok. apply andb_prop in Hok. destruct Hok as (Hc & Hok).
    unfold chain_ok in Hc.
    apply andb_prop in Hc. destruct Hc as (Hc & Hmore).
    apply andb_prop in Hc. destruct Hc as (Hc & Hlink).
    apply andb_prop in Hc. destruct Hc as (Hout & Hfirst).
    apply list_eqb_eq in Hout, Hfirst. rewrite Hout, Hfirst.
    constructor; auto.
    - unfold Uof. now apply Uchain_unit.
    - apply full_range_NoDup.
  Qed.

  Theorem alignment_sound (d : adesc) (A : list Z -> list Z -> C) :
    desc_ok d = true -> intensity_aligned D d A = intensity_unaligned d A.
  Proof.
    intros Hok. unfold desc_ok in Hok. unfold intensity_aligned, intensity_unaligned.
    apply msum_ext. intros p.
    transitivity (msum (map pc_outer (ad_chains d)) (fun x =>
       cnorm2 (msum (map pc_first (ad_chains d)) (fun a =>
                 A p (signed (ad_chains d) a) * tprod (map (Uof D) (ad_chains d)) a x)))).
    { apply msum_ext_len. intros x Hx. rewrite map_length in Hx.
      rewrite amp_flat_nested by auto. unfold amp_nested. now rewrite Cmult_1_l. }
    rewrite (unitary_mixing _ _ _ (chains_unit_all _ Hok)
               (fun a => A p (signed (ad_chains d) a))).
    apply (reindex_signed _ Hok (fun t => cnorm2 (A p t))).
  Qed.
End Sound.
